(* Proofs about Model/Merge.v: dictdiffer's diff/patch on flat dictionaries, _diff, _merge. *)
From Coq Require Import NArith.
From stdpp Require Import gmap.
From DvcData Require Import Base.Val Model.Merge.
Open Scope N_scope.

(* ------------------------------------------------------------------ the three groups *)

Lemma lookup_changed a b k :
  changed a b !! k =
    match a !! k, b !! k with
    | Some x, Some y => if decide (x = y) then None else Some (x, y)
    | _, _ => None
    end.
Proof. unfold changed. rewrite lookup_merge. by destruct (a !! k), (b !! k). Qed.

Lemma lookup_added a b k :
  added a b !! k = match a !! k with Some _ => None | None => b !! k end.
Proof.
  unfold added. destruct (a !! k) eqn:Ha.
  - apply lookup_difference_None. right. by rewrite Ha.
  - destruct (b !! k) eqn:Hb.
    + by apply lookup_difference_Some.
    + apply lookup_difference_None. by left.
Qed.

Lemma lookup_removed a b k :
  removed a b !! k = match b !! k with Some _ => None | None => a !! k end.
Proof. unfold removed. apply (lookup_added b a k). Qed.

(* ------------------------------------------------------------------ patch *)

Lemma patch_add_spec l d : NoDup l.*1 → patch_add l d = list_to_map l ∪ d.
Proof.
  revert d. induction l as [|[k v] r IH]; intros d Hnd; simpl.
  - by rewrite (left_id_L ∅ (∪)).
  - apply NoDup_cons in Hnd as [Hk Hnd]. rewrite IH by done.
    rewrite <- insert_union_l. rewrite insert_union_r; [done|].
    by apply not_elem_of_list_to_map_1.
Qed.

Lemma patch_add_map (m d : dict) : patch_add (map_to_list m) d = m ∪ d.
Proof.
  rewrite patch_add_spec by apply NoDup_fst_map_to_list. by rewrite list_to_map_to_list.
Qed.

(* a successful remove has removed exactly the listed keys, all of which were present *)
Lemma patch_remove_inv l d d' :
  patch_remove l d = Ok d' →
  d' = d ∖ list_to_map l ∧ ∀ k, k ∈ l.*1 → is_Some (d !! k).
Proof.
  revert d. induction l as [|[k v] r IH]; intros d; simpl.
  - intros [= <-]. split.
    + apply map_eq. intros j. apply option_eq. intros x.
      rewrite lookup_difference_Some, lookup_empty. naive_solver.
    + intros j Hj. by apply elem_of_nil in Hj.
  - destruct (d !! k) as [x|] eqn:Hk; [|done].
    intros [-> Hall]%IH. split.
    + apply map_eq. intros j. apply option_eq. intros y.
      rewrite !lookup_difference_Some, lookup_delete_Some, lookup_insert_None. naive_solver.
    + intros j [->|Hj]%elem_of_cons; [by rewrite Hk|].
      destruct (Hall j Hj) as [y Hy]. apply lookup_delete_Some in Hy as [_ Hy]. by rewrite Hy.
Qed.

Lemma patch_remove_ok l d :
  NoDup l.*1 → (∀ k, k ∈ l.*1 → is_Some (d !! k)) → patch_remove l d = Ok (d ∖ list_to_map l).
Proof.
  revert d. induction l as [|[k v] r IH]; intros d Hnd Hall; simpl.
  - f_equal. apply map_eq. intros j. apply option_eq. intros x.
    rewrite lookup_difference_Some, lookup_empty. naive_solver.
  - apply NoDup_cons in Hnd as [Hk Hnd].
    destruct (Hall k) as [x Hx]; [simpl; left|]. rewrite Hx.
    rewrite IH; [|done|].
    + f_equal. apply map_eq. intros j. apply option_eq. intros y.
      rewrite !lookup_difference_Some, lookup_delete_Some, lookup_insert_None. naive_solver.
    + intros j Hj. rewrite lookup_delete_ne by (intros ->; done). apply Hall. simpl. by right.
Qed.

Lemma patch_remove_err l d k :
  k ∈ l.*1 → d !! k = None → patch_remove l d = Err KeyError.
Proof.
  revert d. induction l as [|[k' v] r IH]; intros d; simpl.
  - intros Hk. by apply elem_of_nil in Hk.
  - intros [->|Hk]%elem_of_cons Hd; [by rewrite Hd|].
    destruct (d !! k') eqn:Hk'; [|done].
    apply IH; [done|]. apply lookup_delete_None. by right.
Qed.

(* patch never raises anything but KeyError *)
Lemma patch_remove_only_key_error l d e : patch_remove l d = Err e → e = KeyError.
Proof.
  revert d. induction l as [|[k v] r IH]; intros d; simpl; [done|].
  destruct (d !! k); [apply IH|]. by intros [= <-].
Qed.

Lemma dd_patch_only_key_error ops d e : dd_patch ops d = Err e → e = KeyError.
Proof.
  revert d. induction ops as [|op r IH]; intros d; simpl; [done|].
  destruct (patch_op op d) as [d'|e'] eqn:Hop; [apply IH|].
  intros [= <-]. destruct op; simpl in Hop; try done. by eapply patch_remove_only_key_error.
Qed.

Lemma dd_patch_app l1 l2 d :
  dd_patch (l1 ++ l2) d = match dd_patch l1 d with Ok d' => dd_patch l2 d' | Err e => Err e end.
Proof.
  revert d. induction l1 as [|op r IH]; intros d; simpl; [done|].
  by destruct (patch_op op d).
Qed.

Lemma dd_patch_changes (l : list (key * (value * value))) d :
  dd_patch ((λ kv, DChange kv.1 kv.2.1 kv.2.2) <$> l) d = Ok (patch_add (prod_map id snd <$> l) d).
Proof. revert d. induction l as [|[k [x y]] r IH]; intros d; simpl; [done|]. apply IH. Qed.

Lemma dd_patch_group_add l d : dd_patch (group DAdd l) d = Ok (patch_add l d).
Proof. by destruct l. Qed.

Lemma dd_patch_group_remove l d : dd_patch (group DRemove l) d = patch_remove l d.
Proof. destruct l as [|kv r]; [done|]. unfold group. cbn [dd_patch patch_op]. by destruct (patch_remove _ _). Qed.

(* ------------------------------------------------------------------ patch ∘ diff *)

(* the dictionary obtained by replaying the diff a -> b on d (when no KeyError occurs) *)
Definition apply_diff (a b d : dict) : dict :=
  (added a b ∪ ((snd <$> changed a b) ∪ d)) ∖ removed a b.

Lemma lookup_apply_diff a b d k :
  apply_diff a b d !! k = if decide (a !! k = b !! k) then d !! k else b !! k.
Proof.
  unfold apply_diff.
  destruct (removed a b !! k) as [x|] eqn:Hr.
  - rewrite (proj2 (lookup_difference_None _ _ _)) by (right; by rewrite Hr).
    rewrite lookup_removed in Hr. destruct (b !! k) eqn:Hb; [done|].
    rewrite Hr. by rewrite decide_False.
  - assert (∀ m : dict, (m ∖ removed a b) !! k = m !! k) as ->.
    { intros m. apply option_eq. intros y. rewrite lookup_difference_Some. naive_solver. }
    rewrite !lookup_union, lookup_fmap, lookup_added, lookup_changed.
    rewrite lookup_removed in Hr.
    destruct (a !! k) as [x|] eqn:Ha, (b !! k) as [y|] eqn:Hb; simpl; try done;
      repeat case_decide; simpl; try congruence; by destruct (d !! k).
Qed.

Lemma changes_keys (l : list (key * (value * value))) : (prod_map id snd <$> l).*1 = l.*1.
Proof. induction l as [|[k [x y]] r IH]; [done|]. rewrite !fmap_cons. simpl. f_equal. exact IH. Qed.

Lemma list_to_map_changes a b :
  list_to_map (prod_map id snd <$> map_to_list (changed a b)) =@{dict} snd <$> changed a b.
Proof. rewrite list_to_map_fmap. by rewrite list_to_map_to_list. Qed.

(* patching the diff a -> b onto d: sets, then one pass of deletions *)
Lemma dd_patch_diff a b d :
  dd_patch (dd_diff a b) d =
    patch_remove (map_to_list (removed a b)) (added a b ∪ ((snd <$> changed a b) ∪ d)).
Proof.
  unfold dd_diff.
  rewrite dd_patch_app, dd_patch_changes. cbv beta iota.
  rewrite dd_patch_app, dd_patch_group_add. cbv beta iota. rewrite dd_patch_group_remove.
  rewrite patch_add_map.
  rewrite patch_add_spec by (rewrite changes_keys; apply NoDup_fst_map_to_list).
  by rewrite list_to_map_changes.
Qed.

Lemma lookup_sets_removed a b d k x :
  a !! k = Some x → b !! k = None →
  (added a b ∪ ((snd <$> changed a b) ∪ d)) !! k = d !! k.
Proof.
  intros Ha Hb. rewrite !lookup_union, lookup_fmap, lookup_added, lookup_changed, Ha, Hb.
  simpl. by destruct (d !! k).
Qed.

Lemma dd_patch_diff_inv a b d p :
  dd_patch (dd_diff a b) d = Ok p →
  p = apply_diff a b d ∧ ∀ k, is_Some (a !! k) → b !! k = None → is_Some (d !! k).
Proof.
  rewrite dd_patch_diff. intros [-> Hall]%patch_remove_inv. rewrite list_to_map_to_list.
  split; [done|]. intros k [x Hx] Hb.
  rewrite <- (lookup_sets_removed a b d k x) by done. apply Hall.
  apply elem_of_list_fmap. exists (k, x). split; [done|].
  apply elem_of_map_to_list. by rewrite lookup_removed, Hb.
Qed.

Lemma dd_patch_diff_ok a b d :
  (∀ k, is_Some (a !! k) → b !! k = None → is_Some (d !! k)) →
  dd_patch (dd_diff a b) d = Ok (apply_diff a b d).
Proof.
  intros Hall. rewrite dd_patch_diff, patch_remove_ok.
  - by rewrite list_to_map_to_list.
  - apply NoDup_fst_map_to_list.
  - intros k [[k' x] [-> Hin]]%elem_of_list_fmap. simpl.
    apply elem_of_map_to_list in Hin. rewrite lookup_removed in Hin.
    destruct (b !! k') eqn:Hb; [done|].
    rewrite (lookup_sets_removed a b d k' x) by done. apply Hall; [by rewrite Hin|done].
Qed.

Lemma dd_patch_diff_err a b d k :
  is_Some (a !! k) → b !! k = None → d !! k = None → dd_patch (dd_diff a b) d = Err KeyError.
Proof.
  intros [x Hx] Hb Hd. rewrite dd_patch_diff. apply (patch_remove_err _ _ k).
  - apply elem_of_list_fmap. exists (k, x). split; [done|].
    apply elem_of_map_to_list. by rewrite lookup_removed, Hb.
  - by rewrite (lookup_sets_removed a b d k x).
Qed.

Lemma apply_diff_self a b : apply_diff a b a = b.
Proof. apply map_eq. intros k. rewrite lookup_apply_diff. case_decide; congruence. Qed.

(* ------------------------------------------------------------------ diff = [] *)

Lemma group_nil c l : group c l = [] ↔ l = [].
Proof. destruct l; simpl; naive_solver. Qed.

Lemma changed_refl b : changed b b = ∅.
Proof.
  apply map_empty. intros k. rewrite lookup_changed. destruct (b !! k); [|done].
  by rewrite decide_True.
Qed.
Lemma added_refl b : added b b = ∅.
Proof. apply map_empty. intros k. rewrite lookup_added. by destruct (b !! k). Qed.

Lemma removed_refl b : removed b b = ∅.
Proof. apply added_refl. Qed.

Lemma dd_diff_nil a b : dd_diff a b = [] ↔ a = b.
Proof.
  unfold dd_diff. split.
  - intros [H1 [H2 H3]%app_eq_nil]%app_eq_nil.
    apply fmap_nil_inv in H1. apply group_nil in H2, H3.
    apply map_to_list_empty_iff in H1, H2, H3.
    apply map_eq. intros k.
    assert (changed a b !! k = None) as Hc by (by rewrite H1, lookup_empty).
    assert (added a b !! k = None) as Ha by (by rewrite H2, lookup_empty).
    assert (removed a b !! k = None) as Hr by (by rewrite H3, lookup_empty).
    rewrite lookup_changed in Hc. rewrite lookup_added in Ha. rewrite lookup_removed in Hr.
    destruct (a !! k), (b !! k); try done. case_decide; congruence.
  - intros ->. rewrite changed_refl, added_refl, removed_refl.
    by rewrite !map_to_list_empty.
Qed.

(* ------------------------------------------------------------------ _diff and the policy *)

(* what one side did to one path *)
Definition kind_at (x y : option value) : option kind :=
  match x, y with
  | None, Some _ => Some KAdd
  | Some _, None => Some KRemove
  | Some u, Some v => if decide (u = v) then None else Some KChange
  | None, None => None
  end.

(* every kind of operation that leads from a to b is allowed by the policy *)
Definition allowed_diff (a b : dict) (pol : policy) : Prop :=
  ∀ k kd, kind_at (a !! k) (b !! k) = Some kd → kd ∈ effective pol.

Lemma elem_of_group c l op : op ∈ group c l ↔ op = c l ∧ l ≠ [].
Proof.
  destruct l as [|x r]; simpl.
  - rewrite elem_of_nil. naive_solver.
  - rewrite elem_of_list_singleton. naive_solver.
Qed.

Lemma elem_of_dd_diff a b op :
  op ∈ dd_diff a b ↔
    (∃ k x y, op = DChange k x y ∧ changed a b !! k = Some (x, y)) ∨
    (op = DAdd (map_to_list (added a b)) ∧ added a b ≠ ∅) ∨
    (op = DRemove (map_to_list (removed a b)) ∧ removed a b ≠ ∅).
Proof.
  unfold dd_diff. rewrite !elem_of_app, elem_of_list_fmap, !elem_of_group.
  rewrite !map_to_list_empty_iff. split.
  - intros [[[k [x y]] [-> Hin]]|[?|?]]; [left|by right; left|by right; right].
    apply elem_of_map_to_list in Hin. by exists k, x, y.
  - intros [(k & x & y & -> & Hk)|[?|?]]; [left|by right; left|by right; right].
    exists (k, (x, y)). split; [done|]. by apply elem_of_map_to_list.
Qed.

Lemma diff_spec a b pol :
  (allowed_diff a b pol ∧ diff_ a b pol = Ok (dd_diff a b)) ∨
  (¬ allowed_diff a b pol ∧ diff_ a b pol = Err MergeError).
Proof.
  unfold diff_.
  destruct (forallb _ (dd_diff a b)) eqn:Hf; [left|right]; (split; [|done]).
  - apply Is_true_true, forallb_True in Hf. rewrite Forall_forall in Hf.
    intros k kd Hk. unfold kind_at in Hk.
    destruct (a !! k) as [x|] eqn:Ha, (b !! k) as [y|] eqn:Hb; try done.
    + case_decide; [done|]. injection Hk as <-.
      apply (bool_decide_unpack _), (Hf (DChange k x y)), elem_of_dd_diff. left.
      exists k, x, y. split; [done|]. rewrite lookup_changed, Ha, Hb. by rewrite decide_False.
    + injection Hk as <-.
      apply (bool_decide_unpack _), (Hf (DRemove (map_to_list (removed a b)))), elem_of_dd_diff.
      right; right. split; [done|]. intros He.
      assert (removed a b !! k = None) as Hn by (by rewrite He, lookup_empty).
      by rewrite lookup_removed, Hb, Ha in Hn.
    + injection Hk as <-.
      apply (bool_decide_unpack _), (Hf (DAdd (map_to_list (added a b)))), elem_of_dd_diff.
      right; left. split; [done|]. intros He.
      assert (added a b !! k = None) as Hn by (by rewrite He, lookup_empty).
      by rewrite lookup_added, Ha, Hb in Hn.
  - intros Hall. apply not_true_iff_false in Hf. apply Hf.
    apply Is_true_true, forallb_True, Forall_forall. intros op Hop.
    apply bool_decide_pack. apply elem_of_dd_diff in Hop as [(k & x & y & -> & Hk)|[[-> Hne]|[-> Hne]]].
    + apply (Hall k). rewrite lookup_changed in Hk. unfold kind_at.
      destruct (a !! k), (b !! k); try done. by case_decide.
    + apply map_choose in Hne as (k & v & Hk). apply (Hall k). rewrite lookup_added in Hk.
      unfold kind_at. destruct (a !! k); [done|]. by rewrite Hk.
    + apply map_choose in Hne as (k & v & Hk). apply (Hall k). rewrite lookup_removed in Hk.
      unfold kind_at. destruct (b !! k); [done|]. by rewrite Hk.
Qed.

Lemma diff_ok a b pol r : diff_ a b pol = Ok r → r = dd_diff a b ∧ allowed_diff a b pol.
Proof. destruct (diff_spec a b pol) as [[? ->]|[? ->]]; [|done]. by intros [= <-]. Qed.

Lemma diff_err a b pol e : diff_ a b pol = Err e → e = MergeError ∧ ¬ allowed_diff a b pol.
Proof. destruct (diff_spec a b pol) as [[? ->]|[? ->]]; [done|]. by intros [= <-]. Qed.

(* ------------------------------------------------------------------ the three-way rule *)

Local Arguments rule3 : simpl never.

Lemma rule3_sym a o t : rule3 a o t = rule3 a t o.
Proof. unfold rule3. repeat case_decide; congruence. Qed.

Lemma rule3_nnn : rule3 None None None = Take None.
Proof. unfold rule3. by rewrite decide_True. Qed.

Lemma lookup_rule_map a o t k :
  rule_map a o t !! k =
    if bool_decide (a !! k = None ∧ o !! k = None ∧ t !! k = None) then None
    else Some (rule3 (a !! k) (o !! k) (t !! k)).
Proof.
  unfold rule_map. rewrite !lookup_merge.
  destruct (a !! k), (o !! k), (t !! k);
    ((rewrite bool_decide_false by naive_solver) || (rewrite bool_decide_true by done)); done.
Qed.

(* merge3 is THE listing that takes, at every path, what the three-way rule says *)
Lemma merge3_Some a o t m :
  merge3 a o t = Some m ↔ ∀ k, rule3 (a !! k) (o !! k) (t !! k) = Take (m !! k).
Proof.
  unfold merge3. split.
  - case_bool_decide as HF; [|done]. intros [= <-] k.
    rewrite lookup_omap. pose proof (HF k) as HFk. rewrite lookup_rule_map in *.
    case_bool_decide as Hn.
    + destruct Hn as (-> & -> & ->). apply rule3_nnn.
    + specialize (HFk _ eq_refl). by destruct (rule3 _ _ _).
  - intros H. rewrite bool_decide_true.
    + f_equal. apply map_eq. intros k. rewrite lookup_omap, lookup_rule_map.
      specialize (H k). case_bool_decide as Hn.
      * destruct Hn as (Ha & Ho & Ht). rewrite Ha, Ho, Ht, rule3_nnn in H. by injection H.
      * by rewrite H.
    + intros k oc Hk. rewrite lookup_rule_map in Hk. specialize (H k).
      case_bool_decide; [done|]. injection Hk as <-. by rewrite H.
Qed.

Lemma merge3_None a o t :
  merge3 a o t = None ↔ ∃ k, rule3 (a !! k) (o !! k) (t !! k) = Conflict.
Proof.
  unfold merge3. case_bool_decide as HF; split; try done.
  - intros [k Hk]. exfalso. pose proof (HF k) as HFk. rewrite lookup_rule_map in HFk.
    case_bool_decide as Hn.
    + destruct Hn as (Ha & Ho & Ht). by rewrite Ha, Ho, Ht, rule3_nnn in Hk.
    + specialize (HFk _ eq_refl). by rewrite Hk in HFk.
  - intros _. apply map_not_Forall in HF as (k & oc & Hk & Hc); [|apply _].
    exists k. rewrite lookup_rule_map in Hk. case_bool_decide; [done|].
    injection Hk as ->. by destruct oc.
Qed.

Lemma merge3_sym a o t : merge3 a o t = merge3 a t o.
Proof.
  destruct (merge3 a o t) as [m|] eqn:H1; symmetry.
  - apply merge3_Some. intros k. rewrite <- rule3_sym. by apply merge3_Some.
  - apply merge3_None. apply merge3_None in H1 as [k Hk]. exists k. by rewrite <- rule3_sym.
Qed.

Lemma merge3_left a t : merge3 a a t = Some t.
Proof. apply merge3_Some. intros k. unfold rule3. repeat case_decide; congruence. Qed.

Lemma merge3_right a o : merge3 a o a = Some o.
Proof. rewrite merge3_sym. apply merge3_left. Qed.

(* ------------------------------------------------------------------ _merge, inverted *)

(* some path is removed by both sides *)
Definition double_remove (a o t : dict) : Prop :=
  ∃ k, is_Some (a !! k) ∧ o !! k = None ∧ t !! k = None.

Lemma rule3_of_patches a o t m :
  m = apply_diff a t o → m = apply_diff a o t →
  ∀ k, rule3 (a !! k) (o !! k) (t !! k) = Take (m !! k).
Proof.
  intros H1 H2 k.
  pose proof (lookup_apply_diff a t o k) as E1. pose proof (lookup_apply_diff a o t k) as E2.
  rewrite <- H1 in E1. rewrite <- H2 in E2. unfold rule3.
  repeat case_decide; congruence.
Qed.

Lemma patches_of_rule3 a o t m :
  (∀ k, rule3 (a !! k) (o !! k) (t !! k) = Take (m !! k)) →
  apply_diff a t o = m ∧ apply_diff a o t = m.
Proof.
  intros H. split; apply map_eq; intros k; specialize (H k);
    rewrite lookup_apply_diff; unfold rule3 in H; repeat case_decide; congruence.
Qed.

Lemma merge_inv a o t pol m :
  merge_ a o t pol = Ok m →
  allowed_diff a o pol ∧
  ((o = a ∧ m = t) ∨
   (o ≠ a ∧ allowed_diff a t pol ∧
    ((t = a ∧ m = o) ∨
     (t ≠ a ∧ m = apply_diff a t o ∧ m = apply_diff a o t ∧ ¬ double_remove a o t)))).
Proof.
  unfold merge_.
  destruct (diff_ a o pol) as [od|e] eqn:Hod; [|done].
  apply diff_ok in Hod as [-> Hao].
  destruct (dd_diff a o) as [|op1 od] eqn:Eod.
  { intros [= <-]. apply dd_diff_nil in Eod as <-. split; [done|]. by left. }
  assert (o ≠ a) as Hoa. { intros ->. by rewrite (proj2 (dd_diff_nil a a)) in Eod. }
  rewrite <- Eod. clear Eod op1 od.
  destruct (diff_ a t pol) as [td|e] eqn:Htd; [|done].
  apply diff_ok in Htd as [-> Hat].
  destruct (dd_diff a t) as [|op1 td] eqn:Etd.
  { intros [= <-]. apply dd_diff_nil in Etd as <-.
    split; [done|]. right. split; [done|]. split; [done|]. by left. }
  assert (t ≠ a) as Hta. { intros ->. by rewrite (proj2 (dd_diff_nil a a)) in Etd. }
  rewrite <- Etd. clear Etd op1 td.
  rewrite !dd_patch_app.
  rewrite (dd_patch_diff_ok a o a), (dd_patch_diff_ok a t a) by auto.
  rewrite !apply_diff_self.
  destruct (dd_patch (dd_diff a t) o) as [p1|e1] eqn:H1.
  2:{ by apply dd_patch_only_key_error in H1 as ->. }
  destruct (dd_patch (dd_diff a o) t) as [p2|e2] eqn:H2.
  2:{ by apply dd_patch_only_key_error in H2 as ->. }
  simpl. apply dd_patch_diff_inv in H1 as [-> Hp1]. apply dd_patch_diff_inv in H2 as [-> Hp2].
  destruct (dd_diff (apply_diff a t o) (apply_diff a o t)) eqn:Hd.
  2:{ by destruct (conflict_paths _ _). }
  apply dd_diff_nil in Hd. intros [= <-].
  split; [done|]. right. split; [done|]. split; [done|]. right.
  split; [done|]. split; [done|]. split; [done|].
  intros (k & Hk & Ho & Ht). destruct (Hp1 k Hk Ht) as [? ?]. congruence.
Qed.
