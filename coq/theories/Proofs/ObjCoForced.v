(* The forced checkout of a cached target over a readable workspace: every step succeeds and the
   final workspace is known path by path (shared by C10_converges / _idempotent / _relink /
   _link_record). *)
From Coq Require Import NArith List Bool Lia.
From DvcData Require Import Base.Val Base.PyBase Gen.PyTypes Gen.ODiff Gen.Relink Model.ObjCheckout Proofs.ObjCoTie Proofs.ObjCheckoutProofs Proofs.ObjCheckoutProofs2 Proofs.ObjCoBase Proofs.ObjCoRelinkList.
Import ListNotations.
Open Scope N_scope.

(* ------------------------------------------------------------------ readable workspaces *)
Definition unb (w : ws) : Prop := forall k n, In (k, n) w -> f_broken n = false.
Lemma stageable_unb w : stageable w = true <-> unb w.
Proof.
  unfold stageable, unb. rewrite negb_true_iff. split.
  - intros E k n Hin. destruct (f_broken n) eqn:Eb; [|reflexivity].
    assert (existsb (fun kn => f_broken (snd kn)) w = true) by (apply existsb_exists; exists (k, n); auto).
    congruence.
  - intros Hu. destruct (existsb _ w) eqn:E; [|reflexivity].
    apply existsb_exists in E as [[k n] [Hin Eb]]. simpl in Eb. rewrite (Hu k n Hin) in Eb. discriminate.
Qed.
Lemma kassoc_In {A} k (l : list (key * A)) v : kassoc k l = Some v -> In (k, v) l.
Proof.
  induction l as [|[q x] l IH]; simpl; [discriminate|].
  destruct (key_eqb k q) eqn:E; [apply key_eqb_spec in E; subst; intros E'; injection E' as ->; now left|].
  intros E'. right. now apply IH.
Qed.
Lemma unb_put k x w : unb w -> (forall n, x = Some n -> f_broken n = false) -> unb (ws_put k x w).
Proof.
  intros Hu Hx q n Hin. destruct x as [m|]; simpl in Hin.
  - destruct Hin as [E|Hin]; [injection E as <- <-; now apply Hx|].
    unfold ws_remove in Hin. apply filter_In in Hin as [Hin _]. eapply Hu; eauto.
  - unfold ws_remove in Hin. apply filter_In in Hin as [Hin _]. eapply Hu; eauto.
Qed.
Lemma unb_lookup w k n : unb w -> kassoc k w = Some n -> f_broken n = false.
Proof. intros Hu E. eapply Hu. eapply kassoc_In; eauto. Qed.

Lemma post_info_ok r x : post_info r = FOk x -> r = FOk x /\ forall n, x = Some n -> f_broken n = false.
Proof.
  destruct r as [|y|y|[m|]]; simpl; try discriminate.
  - destruct (f_broken m) eqn:E; [discriminate|]. intros E'; injection E' as <-. split; [reflexivity|].
    intros n E'; injection E' as <-. exact E.
  - intros E'; injection E' as <-. split; [reflexivity|discriminate].
Qed.
Lemma post_info_fail r x : post_info r = FFail x -> r = FFail x.
Proof. destruct r as [|y|y|[m|]]; simpl; try discriminate; auto. destruct (f_broken m); discriminate. Qed.
Lemma guard_step_cases g k inc cur y : guard_step g k inc cur = Some y -> y = cur \/ y = None.
Proof. unfold guard_step. destruct (remove_guard _ _ _ _); intros E; try discriminate; injection E as <-; auto. Qed.
Lemma link_step_fail g c o cur x : link_step g c o cur = FFail x -> x = cur.
Proof.
  unfold link_step. destruct (g_links g) as [|t l]; [intros E; injection E as <-; reflexivity|].
  destruct t, cur as [n|]; try (destruct (oassoc o c) as [co|]); try (destruct (is_nil (c_bytes co)));
    intros E; try discriminate; injection E as <-; reflexivity.
Qed.
Lemma file_step_fail g c ch cur x : file_step g c ch cur = FFail x -> x = cur \/ x = None.
Proof.
  unfold file_step. destruct (new_oid ch) as [o|]; [|intros E; injection E as <-; now left].
  rewrite cf_gen_eq. intros E. apply post_info_fail in E. destruct (cf_decide _ _ _ _ _).
  - destruct (guard_step g (ch_key ch) false cur) as [y|] eqn:Eg; [|discriminate].
    apply link_step_fail in E. subst x. eapply guard_step_cases; eauto.
  - discriminate.
  - unfold del_step in E. destruct (guard_step g (ch_key ch) _ cur) as [y|] eqn:Eg; [|discriminate].
    apply link_step_fail in E. subst x. eapply guard_step_cases; eauto.
Qed.
Lemma file_step_ok_unb g c ch cur x : file_step g c ch cur = FOk x -> forall n, x = Some n -> f_broken n = false.
Proof.
  unfold file_step. destruct (new_oid ch) as [o|]; [|discriminate]. rewrite cf_gen_eq. intros E. now apply post_info_ok in E.
Qed.

Lemma run_del_unb g chs : forall w, unb w -> unb (fst (run_del g chs w)).
Proof.
  induction chs as [|ch r IH]; intros w Hu; simpl; [exact Hu|].
  destruct (del_step g ch (kassoc (ch_key ch) w)) as [y|] eqn:E; [|exact Hu].
  apply IH. apply unb_put; [exact Hu|]. intros n ->. unfold del_step in E.
  apply guard_step_cases in E as [E|E]; [|discriminate]. eapply unb_lookup; eauto.
Qed.
Lemma run_files_unb g c chs : forall s s', unb (s_ws s) -> run_files g c chs s = (s', FoDone) -> unb (s_ws s').
Proof.
  induction chs as [|ch r IH]; intros s s' Hu E; simpl in E; [injection E as <-; exact Hu|].
  destruct (new_isdir ch); [eapply IH; eauto|].
  destruct (file_step g c ch (kassoc (ch_key ch) (s_ws s))) as [|x|x|x] eqn:Ef; try discriminate.
  - eapply IH; [|exact E]. simpl. apply unb_put; [exact Hu|]. intros n ->.
    apply file_step_fail in Ef as [Ef|Ef]; [|discriminate]. eapply unb_lookup; eauto.
  - eapply IH; [|exact E]. simpl. apply unb_put; [exact Hu|]. eapply file_step_ok_unb; eauto.
Qed.

(* ------------------------------------------------------------------ the link primitive *)
Lemma link_node_unbroken t o co now : f_broken (link_node t o co now) = false.
Proof. destruct t; simpl; try reflexivity. now destruct (is_nil (c_bytes co)). Qed.
Lemma link_node_bytes t o co now : f_bytes (link_node t o co now) = c_bytes co.
Proof.
  destruct t; simpl; try reflexivity. destruct (is_nil (c_bytes co)) eqn:E; [|reflexivity].
  simpl. symmetry. now apply is_nil_eq.
Qed.
Lemma link_step_none g c o co t l : g_links g = t :: l -> oassoc o c = Some co ->
  link_step g c o None = FOk (Some (link_node t o co (g_now g))).
Proof. intros El Eo. unfold link_step. rewrite El. destruct t; rewrite Eo; reflexivity. Qed.

Lemma hashinfo_eqb_hi a b : hashinfo_eqb (hi a) (hi b) = list_N_eqb a b.
Proof. reflexivity. Qed.

(* ------------------------------------------------------------------ changes of a readable workspace *)
Section Forced.
Variable H : bytes -> oid.
Variables (g : cfg) (c : cache) (w0 : ws) (tgt : list (key * oid)) (order : list key).
Hypothesis Hne : forall b, is_nil (H b) = false.
Hypothesis Hst : stageable w0 = true.
Hypothesis Htgt : forall k o, kassoc k tgt = Some o ->
  is_nil o = false /\ HashInfo_isdir (hi o) = false /\ exists co, oassoc o c = Some co.

Notation mk := (mk_change H c w0 tgt).

Lemma new_oid_mk k : new_oid (mk k) = kassoc k tgt.
Proof. unfold new_oid, mk_change. simpl. now destruct (kassoc k tgt). Qed.
Lemma truthy_new_mk k : truthy_oid (c_new (mk k)) = is_some (kassoc k tgt).
Proof.
  unfold truthy_oid, mk_change. simpl. destruct (kassoc k tgt) as [o|] eqn:E; simpl; [|reflexivity].
  destruct (Htgt k o E) as [Hn _]. unfold truthy_list. now rewrite Hn.
Qed.
Lemma truthy_old_mk' k : truthy_oid (c_old (mk k)) = is_some (kassoc k w0).
Proof. rewrite (truthy_old_mk H Hne), Hst. reflexivity. Qed.
Lemma new_isdir_mk k : new_isdir (mk k) = false.
Proof.
  unfold new_isdir, mk_change. simpl. destruct (kassoc k tgt) as [o|] eqn:E; simpl; [|reflexivity].
  now destruct (Htgt k o E) as [_ [Hd _]].
Qed.
Lemma old_entry_st k : old_entry H w0 k = option_map (fun n => (meta_of n, H (f_bytes n))) (kassoc k w0).
Proof. unfold old_entry. now rewrite Hst. Qed.

Lemma tentry_eqb_mk k n o : kassoc k w0 = Some n -> kassoc k tgt = Some o ->
  tentry_eqb (c_old (mk k)) (c_new (mk k)) = list_N_eqb (H (f_bytes n)) o.
Proof.
  intros E1 E2. unfold tentry_eqb, mk_change. simpl. rewrite old_entry_st, E1, E2. simpl.
  rewrite hashinfo_eqb_hi. fold (key_eqb k k). now rewrite key_eqb_refl.
Qed.

Lemma typ_mk k :
  Change_typ (mk k) =
    match kassoc k w0, kassoc k tgt with
    | Some n, Some o => if list_N_eqb (H (f_bytes n)) o then ochange_UNCHANGED else ochange_MODIFY
    | Some _, None => ochange_DELETE
    | None, Some _ => ochange_ADD
    | None, None => ochange_UNCHANGED
    end.
Proof.
  rewrite Change_typ_spec, truthy_old_mk', truthy_new_mk.
  destruct (kassoc k w0) as [n|] eqn:E1; destruct (kassoc k tgt) as [o|] eqn:E2; try reflexivity.
  rewrite (tentry_eqb_mk k n o E1 E2). simpl. now destruct (list_N_eqb (H (f_bytes n)) o).
Qed.

Lemma in_chs k : In k order -> (is_some (kassoc k w0) || is_some (kassoc k tgt))%bool = true ->
  In (mk k) (chsOf H c w0 tgt order).
Proof.
  intros Hin Hb. unfold chsOf, changes. apply filter_In. split; [now apply in_map|].
  now rewrite truthy_old_mk', truthy_new_mk.
Qed.

(* ------------------------------------------------------------------ one forced step *)
Hypothesis Hforce : g_force g = true.
Variables (t0 : lkind) (lrest : list lkind).
Hypothesis Hlinks : g_links g = t0 :: lrest.

(* the outcome of the step of path k started from the prior node: a fresh link of the first usable
   type, or (relink, copy type, an independent copy of the same content) the file itself *)
Definition kept (k : key) (o : oid) (n' : fnode) : Prop :=
  kassoc k w0 = Some n' /\ H (f_bytes n') = o /\ g_relink g = true /\ cache_is_copy g = true /\
  f_link n' = false /\ f_nlink n' = 1.

Lemma file_step_forced k o co : kassoc k tgt = Some o -> oassoc o c = Some co ->
  exists n', file_step g c (mk k) (kassoc k w0) = FOk (Some n') /\ f_broken n' = false /\
             (n' = link_node t0 o co (g_now g) \/ kept k o n').
Proof.
  intros Et Eo. unfold file_step. rewrite new_oid_mk, Et, cf_gen_eq.
  assert (Hfresh : post_info (link_step g c o None) = FOk (Some (link_node t0 o co (g_now g)))).
  { rewrite (link_step_none g c o co t0 lrest Hlinks Eo). simpl. now rewrite link_node_unbroken. }
  unfold cf_decide. rewrite truthy_old_mk'.
  destruct (kassoc k w0) as [n|] eqn:Ew; simpl.
  - (* an old entry *)
    assert (Hrel : post_info match del_step g (mk k) (Some n) with
                             | Some cur1 => link_step g c o cur1 | None => FPrompt end
                   = FOk (Some (link_node t0 o co (g_now g))))
      by (rewrite del_step_force by exact Hforce; exact Hfresh).
    destruct (g_relink g) eqn:Er.
    + match goal with |- context [if ?b then CfUnprotect else CfRelink] => destruct b eqn:Eu end.
      * apply andb_true_iff in Eu as [Eu E3]. apply andb_true_iff in Eu as [E1 E2].
        assert (Hb : f_broken n = false) by (eapply unb_lookup; [apply stageable_unb; exact Hst|exact Ew]).
        exists n. simpl. rewrite Hb. split; [reflexivity|]. split; [reflexivity|]. right.
        unfold kept. split; [exact Ew|].
        unfold mk_change in E1, E2. simpl in E1, E2. rewrite old_entry_st, Ew in E1, E2. rewrite Et in E2.
        simpl in E1, E2. rewrite hashinfo_eqb_hi in E2. apply list_N_eqb_spec in E2.
        unfold file_is_copy in E1. simpl in E1. apply andb_true_iff in E1 as [E1a E1b].
        apply negb_true_iff in E1a. apply N.eqb_eq in E1b. auto.
      * exists (link_node t0 o co (g_now g)). split; [exact Hrel|]. split; [apply link_node_unbroken|now left].
    + exists (link_node t0 o co (g_now g)). split; [exact Hrel|]. split; [apply link_node_unbroken|now left].
  - (* no old entry: guarded removal of nothing, then the link *)
    rewrite ch_key_mk, guard_step_force by exact Hforce.
    exists (link_node t0 o co (g_now g)). split; [exact Hfresh|]. split; [apply link_node_unbroken|now left].
Qed.

(* ------------------------------------------------------------------ the whole forced run *)
Hypothesis Hnd : NoDup order.

Notation chs := (chsOf H c w0 tgt order).
Notation D := (clsD H c w0 tgt order).
Notation F := (clsF H g c w0 tgt order).
Notation U := (clsU H c w0 tgt order).

Lemma in_F_target ch : In ch F -> exists o, kassoc (ch_key ch) tgt = Some o.
Proof.
  intros Hin. apply in_clsF in Hin as [Hc Ht]. pose proof (chs_from H c w0 tgt order ch Hc) as E.
  assert (Hb : (truthy_oid (c_old ch) || truthy_oid (c_new ch))%bool = true)
    by (unfold chsOf, changes in Hc; apply filter_In in Hc; tauto).
  remember (ch_key ch) as k eqn:Ek. clear Ek. unfold typ_is in Ht. subst ch.
  rewrite typ_mk in Ht. rewrite truthy_old_mk', truthy_new_mk in Hb.
  destruct (kassoc k tgt) as [o|]; [eauto|]. exfalso.
  destruct (kassoc k w0); simpl in *; try discriminate;
    destruct Ht as [Ht|[Ht|[Ht _]]]; discriminate.
Qed.

Lemma F_key_not_D ch : In ch F -> ~ In (ch_key ch) (keys D).
Proof. intros Hin HD. eapply keys_D_F_disjoint; [exact HD|]. unfold keys. apply in_map. exact Hin. Qed.

Definition w1 := fst (run_del g D w0).

Lemma w1_lookup k : kassoc k w1 = if kmem k (keys D) then None else kassoc k w0.
Proof. unfold w1. now destruct (run_del_force g D Hforce w0) as [_ E]. Qed.
Lemma run_del_w1 : run_del g D w0 = (w1, None).
Proof. unfold w1. destruct (run_del_force g D Hforce w0) as [E _]. destruct (run_del g D w0); simpl in *. now subst. Qed.

Lemma F_lookup_w1 ch : In ch F -> kassoc (ch_key ch) w1 = kassoc (ch_key ch) w0.
Proof.
  intros Hin. rewrite w1_lookup. destruct (kmem (ch_key ch) (keys D)) eqn:E; [|reflexivity].
  apply kmem_keys in E. exfalso. eapply F_key_not_D; eauto.
Qed.

Lemma F_step ch : In ch F -> exists o co n',
  kassoc (ch_key ch) tgt = Some o /\ oassoc o c = Some co /\
  file_step g c ch (kassoc (ch_key ch) w0) = FOk (Some n') /\ f_broken n' = false /\
  (n' = link_node t0 o co (g_now g) \/ kept (ch_key ch) o n').
Proof.
  intros Hin. destruct (in_F_target ch Hin) as [o Et]. destruct (Htgt _ _ Et) as [_ [_ [co Eo]]].
  destruct (file_step_forced _ _ _ Et Eo) as [n' [E1 [E2 E3]]].
  apply in_clsF in Hin as [Hc _]. rewrite <- (chs_from H c w0 tgt order ch Hc) in E1.
  exists o, co, n'. auto.
Qed.

Lemma forced_run : exists s',
  run_files g c F (mk_fstate w1 [] []) = (s', FoDone) /\ s_failed s' = [] /\
  s_upd s' = map (fun ch => (ch_key ch, mtime_of (sout g c w0 ch))) F /\
  forall k, kassoc k (s_ws s') =
            match find_ch k F with
            | Some ch => sout g c w0 ch
            | None => if kmem k (keys D) then None else kassoc k w0
            end.
Proof.
  destruct (run_files_ok g c w0 F (keys_F_NoDup H g c w0 tgt order Hnd)) with (s := mk_fstate w1 [] [])
    as [s' [E1 [E2 [E3 E4]]]].
  - intros ch Hin. split.
    + apply in_clsF in Hin as [Hc _]. rewrite (chs_from H c w0 tgt order ch Hc). apply new_isdir_mk.
    + destruct (F_step ch Hin) as [o [co [n' [_ [_ [E _]]]]]]. eauto.
  - intros ch Hin. simpl. now apply F_lookup_w1.
  - exists s'. split; [exact E1|]. split; [exact E2|]. split; [exact E3|].
    intros k. rewrite E4. simpl. destruct (find_ch k F); [reflexivity|apply w1_lookup].
Qed.

(* the final workspace, the outcome and the saved record of the forced checkout *)
Definition final (k : key) : option fnode :=
  match find_ch k F with
  | Some ch => sout g c w0 ch
  | None => if kmem k (keys D) then None else kassoc k w0
  end.
Definition final_upd : list (key * N) := map (fun ch => (ch_key ch, mtime_of (sout g c w0 ch))) F.

Theorem checkout_forced :
  let r := checkout H g c w0 tgt order in
  (r_out r = ONothing \/ r_out r = ODone (negb (g_relink g))) /\
  (forall k, kassoc k (r_ws r) = final k) /\
  unb (r_ws r) /\
  (forall rec, r_links r = Some rec -> rec = link_record U final_upd).
Proof.
  intros r. subst r. rewrite checkout_unfold.
  destruct (is_nil D && is_nil (clsA H c w0 tgt order) && is_nil (clsM H c w0 tgt order ++ clsX H g c w0 tgt order))%bool eqn:En.
  - apply andb_true_iff in En as [En E3]. apply andb_true_iff in En as [E1 E2].
    apply is_nil_eq in E1, E2, E3. simpl.
    assert (EF : F = []) by (unfold clsF; now rewrite E2, E3).
    split; [now left|]. split.
    + intros k. unfold final. rewrite EF, E1. reflexivity.
    + split; [now apply stageable_unb|]. intros rec Er. unfold final_upd. rewrite EF. simpl.
      destruct (g_relink g && g_state g)%bool; [now injection Er as <-|discriminate].
  - rewrite Hlinks. simpl. rewrite run_del_w1.
    destruct forced_run as [s' [E1 [E2 [E3 E4]]]]. rewrite E1, E2. simpl.
    split; [now right|]. split; [exact E4|]. split.
    + eapply run_files_unb; [|exact E1]. simpl. unfold w1. apply run_del_unb. now apply stageable_unb.
    + intros rec Er. rewrite E3 in Er. destruct (g_state g); [now injection Er as <-|discriminate].
Qed.


(* ------------------------------------------------------------------ the final node of every path *)
Definition expected (k : key) : option bytes :=
  match kassoc k tgt with Some o => option_map c_bytes (oassoc o c) | None => None end.

Lemma in_F_of_typ ch : In ch chs ->
  (typ_is ochange_ADD ch = true \/ typ_is ochange_MODIFY ch = true \/
   (typ_is ochange_UNCHANGED ch = true /\ extra_modified g ch = true)) -> In ch F.
Proof.
  intros Hc Ht. unfold clsF, clsX, clsU, clsA, clsM. apply in_or_app. destruct Ht as [Ht|[Ht|[Ht Hx]]].
  - left. apply filter_In. auto.
  - right. apply in_or_app. left. apply filter_In. auto.
  - right. apply in_or_app. right. apply filter_In. split; [apply filter_In; auto|exact Hx].
Qed.
Lemma key_in_F k : In (mk k) F -> In k (keys F).
Proof. intros Hin. unfold keys. apply in_map_iff. exists (mk k). split; [apply ch_key_mk|exact Hin]. Qed.
Lemma D_key_typ k : In k (keys D) -> Change_typ (mk k) = ochange_DELETE.
Proof.
  intros Hin. apply in_map_iff in Hin as [a [Ek Ha]]. apply in_cls in Ha as [Hc Ht].
  rewrite (chs_from H c w0 tgt order a Hc), Ek in Ht. unfold typ_is in Ht. now apply ochange_eqb_spec in Ht.
Qed.

(* what a path of the target ends up as *)
Definition untouched (k : key) (o : oid) (n' : fnode) : Prop :=
  kassoc k w0 = Some n' /\ H (f_bytes n') = o /\ ~ In k (keys F) /\ extra_modified g (mk k) = false.

Lemma final_target k o co : kassoc k tgt = Some o -> oassoc o c = Some co -> In k order ->
  exists n', final k = Some n' /\ f_broken n' = false /\
    (n' = link_node t0 o co (g_now g) \/ kept k o n' \/ untouched k o n').
Proof.
  intros Et Eo Hord. unfold final. destruct (find_ch k F) as [ch'|] eqn:Ef.
  - apply find_ch_some in Ef as [Hin Ek]. destruct (F_step ch' Hin) as [o' [co' [n' [E1 [E2 [E3 [E4 E5]]]]]]].
    rewrite Ek in *. rewrite Et in E1. injection E1 as <-. rewrite Eo in E2. injection E2 as <-.
    exists n'. unfold sout. rewrite Ek, E3. split; [reflexivity|]. split; [exact E4|]. tauto.
  - apply find_ch_none_inv in Ef.
    assert (Hc : In (mk k) chs) by (apply in_chs; [exact Hord|rewrite Et; apply orb_true_r]).
    assert (HD : kmem k (keys D) = false).
    { destruct (kmem k (keys D)) eqn:E; [|reflexivity]. apply kmem_keys in E. apply D_key_typ in E.
      rewrite typ_mk, Et in E. destruct (kassoc k w0); [destruct (list_N_eqb _ _)|]; discriminate. }
    rewrite HD. pose proof (typ_mk k) as Ht. rewrite Et in Ht.
    destruct (kassoc k w0) as [n|] eqn:Ew.
    + destruct (list_N_eqb (H (f_bytes n)) o) eqn:Eh.
      * destruct (extra_modified g (mk k)) eqn:Ex.
        -- exfalso. apply Ef, key_in_F, in_F_of_typ; [exact Hc|]. right. right. split; [|exact Ex].
           unfold typ_is. now rewrite Ht.
        -- exists n. split; [reflexivity|]. split; [eapply unb_lookup; [apply stageable_unb; exact Hst|exact Ew]|].
           right. right. unfold untouched. apply list_N_eqb_spec in Eh. auto.
      * exfalso. apply Ef, key_in_F, in_F_of_typ; [exact Hc|]. right. left. unfold typ_is. now rewrite Ht.
    + exfalso. apply Ef, key_in_F, in_F_of_typ; [exact Hc|]. left. unfold typ_is. now rewrite Ht.
Qed.

Lemma final_nontarget k : kassoc k tgt = None -> (kassoc k w0 <> None -> In k order) -> final k = None.
Proof.
  intros Et Hord. unfold final. destruct (find_ch k F) as [ch'|] eqn:Ef.
  - apply find_ch_some in Ef as [Hin Ek]. destruct (in_F_target ch' Hin) as [o Eo]. rewrite Ek in Eo. congruence.
  - destruct (kassoc k w0) as [n|] eqn:Ew; [|now destruct (kmem k (keys D))].
    assert (Hc : In (mk k) chs) by (apply in_chs; [apply Hord; discriminate|now rewrite Ew]).
    assert (In k (keys D)).
    { unfold keys. apply in_map_iff. exists (mk k). split; [apply ch_key_mk|]. apply in_cls. split; [exact Hc|].
      unfold typ_is. now rewrite typ_mk, Ew, Et. }
    apply kmem_keys in H0. now rewrite H0.
Qed.

(* ------------------------------------------------------------------ C10_converges *)
Hypothesis Hintact : forall o co, oassoc o c = Some co -> H (c_bytes co) = o.
Hypothesis Hinj : forall a b, H a = H b -> a = b.
Hypothesis Hcover : forall k, (is_some (kassoc k w0) || is_some (kassoc k tgt))%bool = true -> In k order.

Theorem forced_converges k : option_map f_bytes (final k) = expected k.
Proof.
  unfold expected. destruct (kassoc k tgt) as [o|] eqn:Et.
  - destruct (Htgt k o Et) as [_ [_ [co Eo]]]. rewrite Eo. simpl.
    destruct (final_target k o co Et Eo) as [n' [Ef [_ Hk]]]; [apply Hcover; rewrite Et; apply orb_true_r|].
    rewrite Ef. simpl. f_equal. destruct Hk as [->|[Hk|Hk]].
    + apply link_node_bytes.
    + destruct Hk as [_ [Hh _]]. apply Hinj. rewrite Hh. symmetry. now apply Hintact.
    + destruct Hk as [_ [Hh _]]. apply Hinj. rewrite Hh. symmetry. now apply Hintact.
  - rewrite final_nontarget; [reflexivity|exact Et|]. intros Hw. apply Hcover.
    destruct (kassoc k w0); [reflexivity|contradiction].
Qed.


Lemma final_some_target k n' : final k = Some n' -> exists o co, kassoc k tgt = Some o /\ oassoc o c = Some co /\ In k order.
Proof.
  intros Ef. destruct (kassoc k tgt) as [o|] eqn:Et.
  - destruct (Htgt k o Et) as [_ [_ [co Eo]]]. exists o, co. repeat split; auto.
    apply Hcover. rewrite Et. apply orb_true_r.
  - rewrite final_nontarget in Ef; [discriminate|exact Et|]. intros Hw. apply Hcover.
    destruct (kassoc k w0); [reflexivity|contradiction].
Qed.

(* ------------------------------------------------------------------ C10_relink *)
Lemma mk_old_meta k n : kassoc k w0 = Some n -> t_meta (c_old (mk k)) = Some (meta_of n).
Proof. intros E. unfold mk_change. simpl. now rewrite old_entry_st, E. Qed.
Lemma mk_new_cache_meta k o co : kassoc k tgt = Some o -> oassoc o c = Some co ->
  t_cache_meta (c_new (mk k)) = Some (cmeta_of co).
Proof.
  intros Et Eo. unfold mk_change. simpl. rewrite Et. unfold cache_check.
  destruct (Htgt k o Et) as [Hn _]. now rewrite Hn, Eo.
Qed.

Theorem forced_relink k n' : g_relink g = true -> final k = Some n' ->
  exists o co, kassoc k tgt = Some o /\ oassoc o c = Some co /\
    (n' = link_node t0 o co (g_now g) \/
     (cache_is_copy g = true /\ has_kind LCopy (meta_of n') (Some (cmeta_of co)) o) \/
     (exists t, listed t (g_types g) /\ has_kind t (meta_of n') (Some (cmeta_of co)) o)).
Proof.
  intros Hr Ef. destruct (final_some_target k n' Ef) as [o [co [Et [Eo Hord]]]].
  exists o, co. split; [exact Et|]. split; [exact Eo|].
  destruct (final_target k o co Et Eo Hord) as [n2 [Ef2 [_ Hk]]]. rewrite Ef in Ef2. injection Ef2 as <-.
  destruct Hk as [->|[Hk|Hk]]; [now left| |].
  - right. left. destruct Hk as [_ [_ [_ [Hc [Hl Hn]]]]]. split; [exact Hc|]. simpl. rewrite Hl, Hn. auto.
  - right. right. destruct Hk as [Ew [Hh [_ Hx]]]. unfold extra_modified in Hx. rewrite Hr in Hx.
    unfold wants_relink in Hx. rewrite new_isdir_mk, (mk_old_meta k n' Ew), (mk_new_cache_meta k o co Et Eo), new_oid_mk, Et in Hx.
    unfold ci in Hx. now apply needs_relink_sound_list in Hx.
Qed.

(* ------------------------------------------------------------------ C10_link_record *)
Lemma kassoc_upd_none {A} (f : ochange_args -> A) k l :
  kassoc k (map (fun ch => (ch_key ch, f ch)) l) = None <-> ~ In k (keys l).
Proof.
  induction l as [|a l IH]; simpl; [tauto|]. destruct (key_eqb k (ch_key a)) eqn:E.
  - apply key_eqb_spec in E. split; [discriminate|]. intros Hn. exfalso. apply Hn. now left.
  - rewrite IH. split; intros Hn; [intros [Hk|Hk]; [subst; rewrite key_eqb_refl in E; discriminate|contradiction]|].
    intros Hk. apply Hn. now right.
Qed.

Lemma old_mtime_mk k n : kassoc k w0 = Some n -> old_mtime (mk k) = f_mtime n.
Proof. intros E. unfold old_mtime. now rewrite (mk_old_meta k n E). Qed.

Lemma F_final ch : In ch F -> final (ch_key ch) = sout g c w0 ch.
Proof.
  intros Hin. unfold final.
  destruct (find_ch_in (ch_key ch) F) as [ch' Ef]; [unfold keys; now apply in_map|].
  rewrite Ef. apply find_ch_some in Ef as [Hin' Ek]. f_equal.
  apply in_clsF in Hin as [Hc _]. apply in_clsF in Hin' as [Hc' _]. now apply (chs_same_key H c w0 tgt order).
Qed.

Theorem forced_record k m :
  In (k, m) (link_record U final_upd) <-> exists n, final k = Some n /\ f_mtime n = m.
Proof.
  unfold link_record. rewrite in_app_iff. split.
  - intros [Hin|Hin].
    + unfold final_upd in Hin. apply in_map_iff in Hin as [ch [E Hin]]. injection E as <- <-.
      rewrite (F_final ch Hin). destruct (F_step ch Hin) as [o [co [n' [_ [_ [E3 _]]]]]].
      unfold sout. rewrite E3. exists n'. split; reflexivity.
    + apply in_map_iff in Hin as [ch [E Hin]]. injection E as <- <-. apply filter_In in Hin as [HU Hn].
      apply in_cls in HU as [Hc Ht]. pose proof (chs_from H c w0 tgt order ch Hc) as Ech.
      remember (ch_key ch) as q eqn:Eq. apply negb_true_iff in Hn.
      assert (HnF : ~ In q (keys F)).
      { apply (kassoc_upd_none (fun ch => mtime_of (sout g c w0 ch))). unfold final_upd in Hn.
        destruct (kassoc q _); [discriminate|reflexivity]. }
      assert (Hb : (truthy_oid (c_old ch) || truthy_oid (c_new ch))%bool = true)
        by (unfold chsOf, changes in Hc; apply filter_In in Hc; tauto).
      unfold typ_is in Ht. apply ochange_eqb_spec in Ht. rewrite Ech in Ht, Hb. rewrite typ_mk in Ht.
      rewrite truthy_old_mk', truthy_new_mk in Hb.
      destruct (kassoc q w0) as [n|] eqn:Ew; destruct (kassoc q tgt) as [o|] eqn:Et; simpl in Hb; try discriminate.
      destruct (list_N_eqb (H (f_bytes n)) o) eqn:Eh; [|discriminate].
      exists n. rewrite Ech, (old_mtime_mk q n Ew). split; [|reflexivity].
      unfold final. rewrite (find_ch_none _ _ HnF).
      destruct (kmem q (keys D)) eqn:Ek; [|exact Ew]. apply kmem_keys, D_key_typ in Ek.
      rewrite typ_mk, Ew, Et, Eh in Ek. discriminate.
  - intros [n [Ef <-]]. destruct (final_some_target k n Ef) as [o [co [Et [Eo Hord]]]].
    destruct (find_ch k F) as [ch|] eqn:Efi.
    + left. apply find_ch_some in Efi as [Hin Ek]. unfold final_upd. apply in_map_iff. exists ch.
      split; [|exact Hin]. rewrite <- (F_final ch Hin), Ek, Ef. reflexivity.
    + right. apply find_ch_none_inv in Efi.
      assert (Hc : In (mk k) chs) by (apply in_chs; [exact Hord|rewrite Et; apply orb_true_r]).
      unfold final in Ef. rewrite (find_ch_none _ _ Efi) in Ef.
      destruct (kmem k (keys D)); [discriminate|].
      pose proof (typ_mk k) as Ht. rewrite Ef, Et in Ht.
      destruct (list_N_eqb (H (f_bytes n)) o) eqn:Eh.
      * apply in_map_iff. exists (mk k). rewrite ch_key_mk, (old_mtime_mk k n Ef). split; [reflexivity|].
        apply filter_In. split; [apply in_cls; split; [exact Hc|unfold typ_is; now rewrite Ht]|].
        rewrite ch_key_mk. unfold final_upd.
        rewrite (proj2 (kassoc_upd_none (fun ch => mtime_of (sout g c w0 ch)) k F) Efi). reflexivity.
      * exfalso. apply Efi, key_in_F, in_F_of_typ; [exact Hc|]. right. left. unfold typ_is. now rewrite Ht.
Qed.

End Forced.
