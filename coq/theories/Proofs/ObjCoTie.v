(* Tie between the deciders the model RUNS (read off the action lists generated from
   hashfile/checkout.py _remove / _relink / _checkout_file, Gen/ObjCheckout.v) and the hand-written
   readings the proofs reason about.  An edit of those functions changes the generated text; if it
   changes the decision, these lemmas stop checking, and with them C05_no_loss, C05_refusal,
   C10_converges, ... whose proofs start from them. *)
From Coq Require Import NArith List Bool.
From DvcData Require Import Base.Val Base.PyBase Gen.PyTypes Gen.ODiff Gen.ObjCheckout Model.ObjCheckout.
Import ListNotations.
Open Scope N_scope.

Lemma remove_guard_eq force in_cache ex answer :
  remove_guard force in_cache ex answer = remove_guard_spec force in_cache ex answer.
Proof. destruct force, in_cache, ex, answer as [[|]|]; reflexivity. Qed.

Lemma gen_relink_shape : gen_relink = [AGuard GArg; ALink; AProtect].
Proof. reflexivity. Qed.

Lemma cf_of_gen_eq has_old relink meta_none ic is_link nlink1 same_oid cic :
  cf_of_acts (gen_checkout_file has_old relink meta_none ic is_link nlink1 same_oid cic) =
  Some (cf_decide has_old relink (if meta_none then ic else negb is_link && nlink1) same_oid cic).
Proof. destruct has_old, relink, meta_none, ic, is_link, nlink1, same_oid, cic; reflexivity. Qed.

Lemma cf_gen_eq g ch cur :
  cf_gen g ch cur =
  Some (cf_decide (truthy_oid (c_old ch)) (g_relink g) (file_is_copy ch cur)
                  (opt_eqb hashinfo_eqb (t_oid (c_new ch)) (t_oid (c_old ch))) (cache_is_copy g)).
Proof.
  unfold cf_gen, file_is_copy. rewrite cf_of_gen_eq. now destruct (t_meta (c_old ch)).
Qed.

(* the loops of _checkout: a deleted entry is guarded by the cache lookup of its OLD object
   ([del_step] uses TreeEntry_in_cache (c_old ch)), and the per-file loop catches CheckoutError only,
   so a PromptError aborts it ([run_files] stops at FPrompt) *)
Lemma delete_guard_is_old : gen_delete_guard = GOld.
Proof. reflexivity. Qed.
Lemma file_loop_catches_checkout_error_only :
  gen_file_loop_catches = [[67;104;101;99;107;111;117;116;69;114;114;111;114]].
Proof. reflexivity. Qed.
