(* C17 - transparency of the two remaining operations: the shallow iteration and the
   hash-level diff (recursive, threading the lazily loaded state through every visited node). *)
From Coq Require Import NArith PeanoNat List Bool Lia.
From DvcData Require Import Base.Val Model.IndexLoad Proofs.IndexLoadBase Proofs.IndexLoadProofs.
Import ListNotations.
Open Scope N_scope.

Section More.
  Variable E : env.
  Notation ok := (ok E).
  Notation wf := (wf E).
  Notation F := (load_all E).
  Notation sim := (sim E).

  (* ---- shallow iteration ---- *)
  Lemma top_false i p z : top i p z = false <->
    exists y, In y i /\ is_prefix p (fst y) = true /\ strict_prefix (fst y) z = true.
  Proof.
    unfold top. rewrite negb_false_iff, existsb_exists. split.
    - intros [y [Hy H]]. apply andb_true_iff in H as [H1 H2]. eauto.
    - intros [y [Hy [H1 H2]]]. exists y. split; [assumption|]. now rewrite H1, H2.
  Qed.

  Lemma strict_prefix_app a s : s <> [] -> strict_prefix a (a ++ s) = true.
  Proof.
    intros NE. apply strict_prefix_spec. split; [apply is_prefix_app|].
    intros H. rewrite <- (app_nil_r a) in H at 1. apply app_inv_head in H. congruence.
  Qed.
  Lemma strict_prefix_trans_l a b c : is_prefix a b = true -> strict_prefix b c = true -> strict_prefix a c = true.
  Proof.
    intros H1 H2. apply strict_prefix_spec in H2 as [H2 NE]. apply strict_prefix_spec. split.
    - eapply is_prefix_trans; eauto.
    - intros ->. apply NE. now apply is_prefix_antisym.
  Qed.

  Lemma items_q_load_sh s i p : NP E i p -> items_q p true (load_where E s i) = items_q p true i.
  Proof.
    intros H. unfold items_q. f_equal. simpl.
    set (i' := load_where E s i).
    assert (forall z, In z (filter (fun k => is_prefix p k && top i' p k) (map fst i')) <->
                      In z (filter (fun k => is_prefix p k && top i p k) (map fst i))) as K.
    { intros z. rewrite !filter_In, !andb_true_iff. split.
      - intros [Hz [P T]].
        assert (top i p z = true) as T0.
        { destruct (top i p z) eqn:Q; [reflexivity|]. apply top_false in Q as [y [Hy [Q1 Q2]]].
          pose proof (key_in_load E s i y Hy) as Hy'. apply in_map_iff in Hy' as [y' [Ey Hy']].
          assert (top i' p z = false) as C; [|congruence].
          apply top_false. exists y'. rewrite Ey. auto. }
        destruct (key_of_load E s i z Hz) as [Hk|[x [sfx [Hx [L Ez]]]]]; [auto|].
        destruct sfx as [|a sfx].
        + rewrite app_nil_r in Ez. subst z. split; [now apply in_map | auto].
        + exfalso. subst z.
          destruct (prefix_of_app _ _ _ P) as [P'|P']; [|now rewrite (H x Hx L) in P'].
          pose proof (key_in_load E s i x Hx) as Hx'. apply in_map_iff in Hx' as [x' [Ex Hx']].
          assert (top i' p (fst x ++ a :: sfx) = false) as C; [|congruence].
          apply top_false. exists x'. rewrite Ex. repeat split; try assumption.
          apply strict_prefix_app. discriminate.
      - intros [Hz [P T]]. apply in_map_iff in Hz as [x0 [<- Hx0]].
        split; [now apply key_in_load|]. split; [assumption|].
        destruct (top i' p (fst x0)) eqn:Q; [reflexivity|]. exfalso.
        apply top_false in Q as [y' [Hy' [Q1 Q2]]].
        assert (In (fst y') (map fst i')) as Hk by now apply in_map.
        destruct (key_of_load E s i _ Hk) as [Hk'|[x [sfx [Hx [L Ek]]]]].
        + apply in_map_iff in Hk' as [y [Ey Hy]].
          assert (top i p (fst x0) = false) as C; [|congruence].
          apply top_false. exists y. rewrite Ey. auto.
        + rewrite Ek in Q1, Q2.
          destruct (prefix_of_app _ _ _ Q1) as [P'|P']; [|now rewrite (H x Hx L) in P'].
          assert (top i p (fst x0) = false) as C; [|congruence].
          apply top_false. exists x. repeat split; try assumption.
          eapply strict_prefix_trans_l; [apply is_prefix_app | exact Q2]. }
    rewrite (usort_keys_ext _ _ K). apply map_ext_in. intros z Hz. f_equal.
    apply lookupS_load. intros x Hx L.
    apply usort_in in Hz; [|apply key_total]. apply filter_In in Hz as [_ PT].
    apply andb_true_iff in PT as [P T].
    destruct (strict_prefix (fst x) z) eqn:SP; [|reflexivity]. exfalso.
    pose proof SP as SP'. apply strict_prefix_spec in SP' as [P' _].
    destruct (prefix_comparable _ _ _ P' P) as [C|C]; [now rewrite (H x Hx L) in C|].
    assert (top i p z = false) as Q; [|congruence]. apply top_false. exists x. auto.
  Qed.

  Lemma items_post_sh i p : ok i -> wf i -> NSP E i p -> NP E (load_where E (items_sel i p true) i) p.
  Proof.
    intros Hok _ N x Hx L. destruct (loadable_after E _ i x Hok Hx L) as [Hxi Sx].
    destruct (is_prefix (fst x) p) eqn:P; [|reflexivity]. exfalso.
    pose proof (N x Hxi L) as C. unfold strict_prefix in C. rewrite P in C. simpl in C.
    apply negb_false_iff, key_eqb_eq in C.
    unfold items_sel in Sx. simpl in Sx. rewrite C, is_prefix_refl in Sx. simpl in Sx.
    apply top_false in Sx as [y [_ [Q1 Q2]]]. apply strict_prefix_spec in Q2 as [Q2 NE].
    apply NE. now apply is_prefix_antisym.
  Qed.

  Lemma items_full_sh i p : ok i ->
    items_step E (F i) p true =
    (F i, if negb (is_node (F i) p) then Err E_KEY else items_q p true (F i)).
  Proof.
    intros Hok. unfold items_step.
    rewrite (ok_not_blocked E _ (F i) (ok_load_where E s_all i Hok)).
    rewrite (load_where_full E _ i Hok).
    destruct (negb (is_node (F i) p)); [reflexivity|].
    now rewrite guarded_full.
  Qed.

  Lemma items_sim_sh p : sim (fun i => items_step E i p true).
  Proof.
    intros i Hok Hwf. rewrite items_full_sh by assumption. simpl.
    unfold items_step. rewrite (ok_not_blocked E _ i Hok).
    set (s1 := match p with [] => s_none | _ :: _ => s_lp i p end).
    assert (NSP E (load_where E s1 i) p) as N1.
    { subst s1. destruct p; [apply NSP_nil | now apply lp_post]. }
    assert (ok (load_where E s1 i)) as Hok1 by now apply ok_load_where.
    assert (wf (load_where E s1 i)) as Hwf1 by now apply wf_load_where.
    assert (is_node (F i) p = is_node (load_where E s1 i) p) as NQ.
    { rewrite <- (load_all_absorbs E s1 i). unfold load_all. now apply is_node_load. }
    rewrite NQ. destruct (negb (is_node (load_where E s1 i) p)).
    - simpl. split; [eauto | split; reflexivity].
    - rewrite guarded_lazy by assumption. simpl. split; [|split; [|reflexivity]].
      + rewrite load_where_fuse. eauto.
      + pose proof (items_post_sh _ p Hok1 Hwf1 N1) as C.
        rewrite <- (items_q_load_sh s_all _ p C). fold (load_all E). now rewrite !load_all_absorbs.
  Qed.

  Lemma items_sim_all p sh : sim (fun i => items_step E i p sh).
  Proof. destruct sh; [apply items_sim_sh | apply items_sim]. Qed.

  (* ---- the hash-level diff ---- *)
  Definition dsim (g : idx -> idx * list dchange) : Prop :=
    forall st, ok st -> wf st ->
      (exists s, fst (g st) = load_where E s st) /\ snd (g st) = snd (g (F st)) /\ fst (g (F st)) = F st.

  Lemma load_where_none i : load_where E s_none i = i.
  Proof. unfold load_where. induction i as [|x i IH]; [reflexivity|]. simpl. f_equal. exact IH. Qed.

  Lemma dsim_ret l : dsim (fun st => (st, l)).
  Proof.
    intros st _ _. simpl. split; [|split; reflexivity]. exists s_none. now rewrite load_where_none.
  Qed.

  Lemma fold_dsim (g : key -> idx -> idx * list dchange) : (forall c, dsim (g c)) ->
    forall cks acc,
      dsim (fun st => fold_left (fun a c => let '(s, out) := a in
                                            let '(s', out') := g c s in (s', out ++ out')) cks (st, acc)).
  Proof.
    intros G. induction cks as [|c cks IH]; intros acc; [apply dsim_ret|].
    intros st Hok Hwf. simpl fold_left.
    destruct (G c st Hok Hwf) as [[s1 G1] [G2 G3]].
    destruct (g c st) as [st1 out1] eqn:Ea. destruct (g c (F st)) as [j1 out1'] eqn:Eb.
    simpl in G1, G2, G3. subst st1 j1 out1'.
    destruct (IH (acc ++ out1) (load_where E s1 st) (ok_load_where E s1 st Hok) (wf_load_where E s1 st Hok Hwf))
      as [[s2 H1] [H2 H3]].
    rewrite load_all_absorbs in H2, H3. split; [|split; assumption].
    exists (fun x => s1 x || s2 x). etransitivity; [exact H1 | apply load_where_fuse].
  Qed.

  Lemma diff_node_dsim o : forall fuel k oi ni, dsim (fun st => diff_node fuel E st o k oi ni).
  Proof.
    induction fuel as [|f IH]; intros k oi ni; [apply dsim_ret|].
    cbn [diff_node].
    destruct (N.eqb (hi_diff (hval (d_entry oi)) (hval (d_entry ni))) 0 && hi_isdir (hval (d_entry oi)));
      [apply dsim_ret|].
    destruct (d_isdir oi || d_isdir ni); [|apply dsim_ret].
    intros st Hok Hwf.
    destruct (ls_sim E k st Hok Hwf) as [[s1 G1] [G2 G3]].
    destruct (ls_step E st k) as [st1 r] eqn:Ea. destruct (ls_step E (F st) k) as [j1 r'] eqn:Eb.
    simpl in G1, G2, G3. subst st1 j1 r'.
    match goal with
    | |- context [fold_left ?fn ?cks (load_where E s1 st, ?acc)] =>
        pose proof (fold_dsim (fun c s => diff_node f E s o c (kassoc (res_list r) c)
                                            (kassoc (res_list (ls_q k o)) c))
                              (fun c => IH c _ _) cks acc
                              (load_where E s1 st) (ok_load_where E s1 st Hok) (wf_load_where E s1 st Hok Hwf))
          as [[s2 H1] [H2 H3]]
    end.
    rewrite load_all_absorbs in H2, H3. split; [|split; assumption].
    exists (fun x => s1 x || s2 x). etransitivity; [exact H1 | apply load_where_fuse].
  Qed.

  Lemma match11 {X} n (a b : X) : n <> 11 -> match n with 11 => a | _ => b end = b.
  Proof.
    intros NE. destruct n as [|p]; [reflexivity|].
    do 4 (destruct p as [p|p|]; try reflexivity). congruence.
  Qed.

  Lemma diff_sim o : sim (fun i => diff_step E i o).
  Proof.
    unfold diff_step.
    apply (sim_after E (fun i => get_step E i [])
             (fun r i1 =>
                match r with
                | Err 11 => (i1, Err E_DIRERR)
                | _ =>
                    let '(i2, cs) := diff_node diff_fuel E i1 o []
                                       (match r with Ok oe => Some oe | Err _ => None end)
                                       (match get_q [] o with Ok oe => Some oe | Err _ => None end) in
                    (i2, Ok (sort_by (fun a b => negb (key_ltb (d_key b) (d_key a))) cs))
                end)); [apply get_sim|].
    intros r.
    assert (sim (fun i1 =>
                   let '(i2, cs) := diff_node diff_fuel E i1 o []
                                      (match r with Ok oe => Some oe | Err _ => None end)
                                      (match get_q [] o with Ok oe => Some oe | Err _ => None end) in
                   (i2, Ok (sort_by (fun a b => negb (key_ltb (d_key b) (d_key a))) cs)))) as G.
    { intros st Hok Hwf.
      destruct (diff_node_dsim o diff_fuel [] (match r with Ok oe => Some oe | Err _ => None end)
                  (match get_q [] o with Ok oe => Some oe | Err _ => None end) st Hok Hwf) as [G1 [G2 G3]].
      destruct (diff_node diff_fuel E st o [] _ _) as [a b]. destruct (diff_node diff_fuel E (F st) o [] _ _) as [a' b'].
      simpl in *. subst. auto. }
    destruct r as [oe|n]; [exact G|].
    destruct (N.eq_dec n 11) as [->|NE]; [apply sim_ret|].
    intros st Hok Hwf. rewrite !(match11 n) by assumption. now apply G.
  Qed.
End More.
