(* C08, part 8: swapping the arguments, for ANY options (shallow = True included), with and without
   rename detection.  Uses the general closed form of Proofs/IndexDiffShallow.v: the nodes
   (key, old visible, new visible) of the swapped run are the flipped nodes of the original run. *)
From Coq Require Import NArith List Bool Arith Lia Permutation.
From DvcData Require Import Base.Val Base.PyBase Gen.PyTypes Gen.IDiff Model.Trie Model.IndexDiff Proofs.IndexDiffProofsBase Proofs.IndexDiffBfs Proofs.IndexDiffRefine Proofs.IndexDiffRenames Proofs.IndexDiffShallow Proofs.IndexDiffSwapRen.
Import ListNotations.

Definition flip (n : node) : node := (fst n, (snd (snd n), fst (snd n))).

Lemma flip_invol n : flip (flip n) = n.
Proof. destruct n as [k [a b]]. reflexivity. Qed.

Lemma flip_inj a b : flip a = flip b -> a = b.
Proof. intros H. rewrite <- (flip_invol a), <- (flip_invol b). now rewrite H. Qed.

Lemma in_map_flip x l : In x (map flip l) <-> In (flip x) l.
Proof.
  rewrite in_map_iff. split.
  - intros [y [<- Hy]]. now rewrite flip_invol.
  - intros H. exists (flip x). split; [apply flip_invol | assumption].
Qed.

(* trees over two node types related by an involution *)
Lemma tree_flip (kids1 kids2 : node -> list node) :
  (forall a x, In (flip x) (kids2 (flip a)) <-> In x (kids1 a)) ->
  forall n a x, In (flip x) (tree kids2 n (flip a)) <-> In x (tree kids1 n a).
Proof.
  intros H. induction n as [|m IH]; intros a x; simpl.
  - split; (intros [E|[]]; left); [now apply flip_inj | now rewrite E].
  - rewrite !in_flat_map. split.
    + intros [E|[c [Hc Hx]]]; [left; now apply flip_inj|]. right. exists (flip c). split.
      * apply H. now rewrite flip_invol.
      * apply IH. now rewrite flip_invol.
    + intros [E|[c [Hc Hx]]]; [left; now rewrite E|]. right. exists (flip c). split.
      * now apply H.
      * now apply IH.
Qed.

Section SwapSh.
  Variables (o : opts) (old new : option index).

  Lemma visit_fst_swap k oi ni :
    fst (visit o new old k ni oi) = map swap_change (fst (visit o old new k oi ni)).
  Proof.
    unfold visit. cbn [fst].
    rewrite (diff_entry_swap (info_entry oi) (info_entry ni)), swap_typ_unchanged.
    rewrite (andb_comm (is_none (info_entry ni))).
    destruct (is_none (info_entry oi) && is_none (info_entry ni)); [reflexivity|].
    destruct (typ_eqb _ Unchanged && negb (o_with_unchanged o)); reflexivity.
  Qed.

  Lemma visit_desc_swap k oi ni :
    match snd (visit o new old k ni oi) with [] => false | _ => true end =
    match snd (visit o old new k oi ni) with [] => false | _ => true end.
  Proof.
    unfold visit. cbn [snd].
    change (o_hash_only o && negb (o_meta_only o) && negb (o_with_unchanged o) &&
            typ_eqb (diff_entry (info_entry ni) (info_entry oi) (o_hash_only o) (o_meta_only o) (o_meta_cmp_key o) false)
                    Unchanged && entry_hash_isdir (info_entry ni))
      with (sc o (info_entry ni) (info_entry oi)).
    change (o_hash_only o && negb (o_meta_only o) && negb (o_with_unchanged o) &&
            typ_eqb (diff_entry (info_entry oi) (info_entry ni) (o_hash_only o) (o_meta_only o) (o_meta_cmp_key o) false)
                    Unchanged && entry_hash_isdir (info_entry oi))
      with (sc o (info_entry oi) (info_entry ni)).
    rewrite sc_swap, (orb_comm (info_isdir ni)).
    destruct (sc o (info_entry oi) (info_entry ni)); [reflexivity|].
    destruct (info_isdir oi || info_isdir ni); reflexivity.
  Qed.

  Lemma syield_flip n : syield o new old (flip n) = map swap_change (syield o old new n).
  Proof. destruct n as [k [a b]]. unfold syield. cbn [flip fst snd noi nni]. apply visit_fst_swap. Qed.

  Lemma sdesc_flip n : sdesc o new old (flip n) = sdesc o old new n.
  Proof. destruct n as [k [a b]]. unfold sdesc. cbn [flip fst snd noi nni]. apply visit_desc_swap. Qed.

  Lemma ckeys_flip n c : In c (ckeys o new old (flip n)) <-> In c (ckeys o old new n).
  Proof.
    destruct n as [k [a b]]. unfold ckeys. rewrite !union_keys_In.
    change (slo o new (flip (k, (a, b)))) with (sln o new (k, (a, b))).
    change (sln o old (flip (k, (a, b)))) with (slo o old (k, (a, b))). tauto.
  Qed.

  Lemma mkchild_flip n c : mkchild o new old (flip n) c = flip (mkchild o old new n c).
  Proof. destruct n as [k [a b]]. reflexivity. Qed.

  Lemma schildren_flip p x : In (flip x) (schildren o new old (flip p)) <-> In x (schildren o old new p).
  Proof.
    unfold schildren. rewrite !in_map_iff. split.
    - intros [c [E Hc]]. rewrite mkchild_flip in E. apply flip_inj in E. exists c. split; [assumption | now apply ckeys_flip].
    - intros [c [<- Hc]]. exists c. split; [apply mkchild_flip | now apply ckeys_flip].
  Qed.

  Lemma skids_flip p x : In (flip x) (skids o new old (flip p)) <-> In x (skids o old new p).
  Proof. unfold skids. rewrite !filter_In, sdesc_flip, schildren_flip. tauto. Qed.

  Lemma sroots_flip x : In (flip x) (sroots new old) <-> In x (sroots old new).
  Proof.
    unfold sroots. rewrite roots_swap, !in_map_iff. split.
    - intros [k [E Hk]]. exists k. split; [|assumption]. apply flip_inj. now rewrite <- E.
    - intros [k [<- Hk]]. now exists k.
  Qed.

  Lemma sreached_flip x : In (flip x) (sreached o new old) <-> In x (sreached o old new).
  Proof.
    unfold sreached. assert (Hd : depth_bound new old = depth_bound old new) by apply Nat.max_comm. rewrite Hd.
    rewrite !in_flat_map. split.
    - intros [r [Hr Hx]]. exists (flip r). apply filter_In in Hr as [Hr1 Hr2]. split.
      + apply filter_In. split; [apply sroots_flip; now rewrite flip_invol|].
        now rewrite <- sdesc_flip, flip_invol.
      + apply (tree_flip (skids o old new) (skids o new old) skids_flip). now rewrite flip_invol.
    - intros [r [Hr Hx]]. exists (flip r). apply filter_In in Hr as [Hr1 Hr2]. split.
      + apply filter_In. split; [now apply sroots_flip | now rewrite sdesc_flip].
      + now apply (tree_flip (skids o old new) (skids o new old) skids_flip).
  Qed.

  Lemma svisited_flip x : In (flip x) (svisited o new old) <-> In x (svisited o old new).
  Proof.
    unfold svisited. rewrite !in_app_iff, sroots_flip, !in_flat_map. split.
    - intros [H|[p [Hp Hx]]]; [now left|]. right. exists (flip p). split.
      + apply sreached_flip. now rewrite flip_invol.
      + apply schildren_flip. now rewrite flip_invol.
    - intros [H|[p [Hp Hx]]]; [now left|]. right. exists (flip p). split.
      + now apply sreached_flip.
      + now apply schildren_flip.
  Qed.

  Lemma map_fst_flip l : map fst (map flip l) = map fst l.
  Proof. rewrite map_map. apply map_ext. intros [k [a b]]. reflexivity. Qed.

  Lemma svisited_swap_perm : Permutation (svisited o new old) (map flip (svisited o old new)).
  Proof.
    apply NoDup_Permutation.
    - apply (NoDup_map_inv fst), svisited_keys_NoDup.
    - apply (NoDup_map_inv fst). rewrite map_fst_flip. apply svisited_keys_NoDup.
    - intros y. rewrite in_map_flip, <- svisited_flip, flip_invol. tauto.
  Qed.

  (* C08_swap_gen on `_diff` *)
  Theorem diff_core_swap_gen fuel :
    (fuel_for old new <= fuel)%nat ->
    exists cs cs', diff_core o old new fuel = Some cs /\ diff_core o new old fuel = Some cs' /\
                   Permutation cs' (map swap_change cs).
  Proof.
    intros Hf. destruct (diff_core_closed_gen o old new fuel Hf) as [cs [E P]].
    assert (Hf' : (fuel_for new old <= fuel)%nat) by now rewrite fuel_for_swap.
    destruct (diff_core_closed_gen o new old fuel Hf') as [cs' [E' P']].
    exists cs, cs'. repeat split; try assumption.
    etransitivity; [exact P'|]. etransitivity; [apply Permutation_flat_map, svisited_swap_perm|].
    rewrite flat_map_map.
    rewrite (flat_map_ext _ (fun n => map swap_change (syield o old new n)) syield_flip).
    rewrite <- map_flat_map. apply Permutation_map. now symmetry.
  Qed.

  (* C08_swap_gen through `diff`, renames included *)
  Theorem diff_swap_gen fuel :
    (fuel_for old new <= fuel)%nat -> (renames_on o old new = true -> o_meta_only o = false) ->
    exists l l', diff o old new fuel = DOk l /\ diff o new old fuel = DOk l' /\
                 Permutation l' (map swap_change l).
  Proof.
    intros Hf Hm. destruct (diff_core_swap_gen fuel Hf) as [cs [cs' [E [E' P]]]].
    unfold diff. rewrite E, E'.
    assert (Hr : o_with_renames o && is_some new && is_some old = renames_on o old new).
    { unfold renames_on. rewrite <- !andb_assoc. f_equal. apply andb_comm. }
    rewrite Hr. fold (renames_on o old new). destruct (renames_on o old new) eqn:Er.
    - rewrite (Hm eq_refl). eexists. eexists. repeat split.
      apply detect_renames_swap; [|assumption]. now apply (diff_keys_once_gen o old new fuel).
    - eexists. eexists. repeat split. assumption.
  Qed.
End SwapSh.
