(* The parser of Base/Json.v inverts the printer on well-formed documents (strings of Unicode
   scalar values), hence the printer is injective on them:

     parse_print   : wf_doc d = true -> parse_doc (print_doc d) = Some d
     print_doc_inj : wf_doc d = true -> wf_doc d' = true -> print_doc d = print_doc d' -> d = d'

   and without the scalar-value restriction it is not ([print_string_surrogates]). *)
From Coq Require Import ZArith NArith List Bool Lia ZifyBool Decimal DecimalN DecimalPos.
From DvcData Require Import Base.Val Base.MD5 Base.Json.
Import ListNotations.
Open Scope N_scope.

Local Ltac Zify.zify_post_hook ::= Z.to_euclidean_division_equations.

(* ------------------------------------------------------------------ hex digits *)
Lemma hexval_hexd n : n < 16 -> hexval (hexd n) = Some n.
Proof.
  intros H.
  assert (C : n = 0 \/ n = 1 \/ n = 2 \/ n = 3 \/ n = 4 \/ n = 5 \/ n = 6 \/ n = 7 \/ n = 8 \/ n = 9 \/
              n = 10 \/ n = 11 \/ n = 12 \/ n = 13 \/ n = 14 \/ n = 15) by lia.
  repeat (destruct C as [->|C]; [reflexivity|]). subst n. reflexivity.
Qed.

Lemma unhex4_hex4 u : u < 65536 ->
  unhex4 (hexd (u / 4096)) (hexd ((u / 256) mod 16)) (hexd ((u / 16) mod 16)) (hexd (u mod 16)) = Some u.
Proof.
  intros H. unfold unhex4.
  rewrite !hexval_hexd by lia. f_equal. lia.
Qed.

(* ------------------------------------------------------------------ one character *)
Lemma parse_chars_plain c r : c <> 34 -> c <> 92 -> 32 <= c ->
  parse_chars (c :: r) = ocons c (parse_chars r).
Proof.
  intros H1 H2 H3. cbn [parse_chars].
  destruct (N.eqb_spec c 34); [contradiction|]. destruct (N.eqb_spec c 92); [contradiction|].
  destruct (N.ltb_spec c 32); [lia|]. reflexivity.
Qed.

Lemma parse_chars_u h1 h2 h3 h4 u tail :
  unhex4 h1 h2 h3 h4 = Some u -> is_hi_surr u = false ->
  parse_chars (92 :: 117 :: h1 :: h2 :: h3 :: h4 :: tail) = ocons u (parse_chars tail).
Proof.
  intros H1 H2. cbn [parse_chars].
  change (92 =? 34) with false. change (92 =? 92) with true. change (117 =? 117) with true.
  cbv iota. rewrite H1, H2. reflexivity.
Qed.

Lemma parse_chars_pair h1 h2 h3 h4 g1 g2 g3 g4 u l tail :
  unhex4 h1 h2 h3 h4 = Some u -> is_hi_surr u = true ->
  unhex4 g1 g2 g3 g4 = Some l -> is_lo_surr l = true ->
  parse_chars (92 :: 117 :: h1 :: h2 :: h3 :: h4 :: 92 :: 117 :: g1 :: g2 :: g3 :: g4 :: tail) =
  ocons (65536 + (u - 55296) * 1024 + (l - 56320)) (parse_chars tail).
Proof.
  intros H1 H2 H3 H4. cbn [parse_chars].
  change (92 =? 34) with false. change (92 =? 92) with true. change (117 =? 117) with true.
  cbv iota. rewrite H1, H2. cbn [andb]. rewrite H3, H4. reflexivity.
Qed.

Lemma parse_chars_esc c tail : is_scalar c = true ->
  parse_chars (esc_char c ++ tail) = ocons c (parse_chars tail).
Proof.
  intros Hs. unfold esc_char.
  destruct (N.eqb_spec c 34) as [->|N1]; [reflexivity|].
  destruct (N.eqb_spec c 92) as [->|N2]; [reflexivity|].
  destruct (N.eqb_spec c 10) as [->|N3]; [reflexivity|].
  destruct (N.eqb_spec c 13) as [->|N4]; [reflexivity|].
  destruct (N.eqb_spec c 9) as [->|N5]; [reflexivity|].
  destruct (N.eqb_spec c 8) as [->|N6]; [reflexivity|].
  destruct (N.eqb_spec c 12) as [->|N7]; [reflexivity|].
  destruct ((32 <=? c) && (c <=? 126)) eqn:Ep.
  - cbn [List.app]. apply parse_chars_plain; [assumption | assumption | lia].
  - unfold is_scalar in Hs. destruct (N.ltb_spec c 65536) as [L|L].
    + unfold esc_u, hex4. cbn [List.app]. apply parse_chars_u.
      * now apply unhex4_hex4.
      * unfold is_hi_surr. lia.
    + cbv zeta. unfold esc_u, hex4. cbn [List.app].
      set (v := c - 65536).
      assert (Hv : v < 1048576) by lia.
      transitivity (ocons (65536 + ((55296 + v / 1024) - 55296) * 1024 + ((56320 + v mod 1024) - 56320))
                          (parse_chars tail)).
      * apply parse_chars_pair.
        -- apply unhex4_hex4. lia.
        -- unfold is_hi_surr. lia.
        -- apply unhex4_hex4. lia.
        -- unfold is_lo_surr. lia.
      * f_equal. lia.
Qed.

(* ------------------------------------------------------------------ strings *)
Lemma parse_chars_print s rest : wf_string s = true ->
  parse_chars (flat_map esc_char s ++ 34 :: rest) = Some (s, rest).
Proof.
  induction s as [|c s IH]; intros H.
  - reflexivity.
  - cbn [wf_string forallb] in H. apply andb_true_iff in H as [Hc Hs].
    change (flat_map esc_char (c :: s)) with (esc_char c ++ flat_map esc_char s).
    rewrite <- app_assoc, parse_chars_esc by exact Hc.
    fold (wf_string s) in Hs. rewrite (IH Hs). reflexivity.
Qed.

Lemma print_string_app s rest : print_string s ++ rest = 34 :: flat_map esc_char s ++ 34 :: rest.
Proof. unfold print_string. cbn [List.app]. now rewrite <- app_assoc. Qed.

Lemma parse_string_print s rest : wf_string s = true ->
  parse_string (print_string s ++ rest) = Some (s, rest).
Proof.
  intros H. rewrite print_string_app. cbn [parse_string]. change (34 =? 34) with true. cbv iota.
  now apply parse_chars_print.
Qed.

(* ------------------------------------------------------------------ numbers *)
Definition nodigit (rest : list N) : Prop :=
  match rest with [] => True | c :: _ => digit_of c = None end.

Lemma read_uint_chars d : forall rest, nodigit rest -> read_uint (uint_chars d ++ rest) = (d, rest).
Proof.
  induction d; intros rest H; cbn [uint_chars List.app];
    try (cbn [read_uint];
         match goal with |- context [digit_of ?c] =>
           let v := eval vm_compute in (digit_of c) in change (digit_of c) with v end;
         cbv iota; rewrite (IHd rest H); reflexivity).
  destruct rest as [|c r]; [reflexivity|]. cbn [read_uint]. cbn [nodigit] in H. now rewrite H.
Qed.

Lemma parse_val_uint d rest : d <> Nil -> nodigit rest ->
  parse_val (uint_chars d ++ rest) = Some (JNum (N.of_uint d), rest).
Proof.
  intros Hd Hr. pose proof (read_uint_chars d rest Hr) as E.
  destruct d; [contradiction | ..]; cbn [uint_chars List.app] in E |- *; unfold parse_val;
    match goal with |- context [if ?c =? 34 then _ else _] =>
      change (c =? 34) with false; change (c =? 116) with false; change (c =? 102) with false end;
    cbv iota; rewrite E; reflexivity.
Qed.

Lemma to_uint_nonnil n : N.to_uint n <> Nil.
Proof. destruct n; [discriminate|]. apply Unsigned.to_uint_nonnil. Qed.

Lemma parse_val_num n rest : nodigit rest -> parse_val (print_N n ++ rest) = Some (JNum n, rest).
Proof.
  intros H. unfold print_N. rewrite parse_val_uint; [|apply to_uint_nonnil|exact H].
  now rewrite DecimalN.Unsigned.of_to.
Qed.

Lemma parse_val_print v rest : wf_val v = true -> nodigit rest ->
  parse_val (print_val v ++ rest) = Some (v, rest).
Proof.
  intros Hw Hr. destruct v as [s|n|[|]]; cbn [print_val].
  - cbn [wf_val] in Hw. pose proof (parse_string_print s rest Hw) as E.
    rewrite print_string_app in E |- *. unfold parse_val.
    change (34 =? 34) with true. cbv iota. now rewrite E.
  - now apply parse_val_num.
  - reflexivity.
  - reflexivity.
Qed.

(* ------------------------------------------------------------------ separated sequences *)
Lemma print_sep_cons2 {A} (f : A -> list N) x y r :
  print_sep f (x :: y :: r) = f x ++ 44 :: 32 :: print_sep f (y :: r).
Proof. reflexivity. Qed.

Lemma print_sep_length {A} (f : A -> list N) l :
  (forall x, In x l -> (1 <= length (f x))%nat) -> (length l <= length (print_sep f l))%nat.
Proof.
  induction l as [|x [|y r] IH]; intros H.
  - apply le_n.
  - cbn [print_sep length]. apply H. now left.
  - rewrite print_sep_cons2, app_length. cbn [length] in *.
    specialize (IH (fun z Hz => H z (or_intror Hz))). specialize (H x (or_introl eq_refl)). lia.
Qed.

(* ------------------------------------------------------------------ members *)
Lemma parse_members_S f s :
  parse_members (S f) s =
  match parse_string s with
  | None => None
  | Some (k, r1) =>
      match strip_prefix [58; 32] r1 with
      | None => None
      | Some r2 =>
          match parse_val r2 with
          | None => None
          | Some (v, r3) =>
              match strip_prefix [125] r3 with
              | Some r4 => Some ([(k, v)], r4)
              | None =>
                  match strip_prefix [44; 32] r3 with
                  | None => None
                  | Some r4 =>
                      match parse_members f r4 with
                      | Some (m, r5) => Some ((k, v) :: m, r5)
                      | None => None
                      end
                  end
              end
          end
      end
  end.
Proof. reflexivity. Qed.

Lemma print_member_app m tail :
  print_member m ++ tail = print_string (fst m) ++ 58 :: 32 :: print_val (snd m) ++ tail.
Proof. unfold print_member. now rewrite <- !app_assoc. Qed.

Lemma parse_member_step f m tail : wf_member m = true -> nodigit tail ->
  parse_members (S f) (print_member m ++ tail) =
  match strip_prefix [125] tail with
  | Some r4 => Some ([m], r4)
  | None =>
      match strip_prefix [44; 32] tail with
      | None => None
      | Some r4 =>
          match parse_members f r4 with
          | Some (ms, r5) => Some (m :: ms, r5)
          | None => None
          end
      end
  end.
Proof.
  intros Hw Hn. destruct m as [k v]. unfold wf_member in Hw. cbn [fst snd] in Hw.
  apply andb_true_iff in Hw as [Hk Hv].
  rewrite parse_members_S, print_member_app. cbn [fst snd].
  rewrite (parse_string_print k _ Hk).
  change (strip_prefix [58; 32] (58 :: 32 :: print_val v ++ tail)) with (Some (print_val v ++ tail)).
  cbv iota. rewrite (parse_val_print v tail Hv Hn). reflexivity.
Qed.

Lemma parse_members_print : forall o fuel rest,
  o <> [] -> wf_obj o = true -> (length o <= fuel)%nat ->
  parse_members fuel (print_sep print_member o ++ 125 :: rest) = Some (o, rest).
Proof.
  induction o as [|m [|m' r] IH]; intros fuel rest Hne Hw Hf; [contradiction| |].
  - destruct fuel as [|f]; [cbn in Hf; lia|].
    cbn [wf_obj forallb] in Hw. apply andb_true_iff in Hw as [Hm _].
    cbn [print_sep]. rewrite parse_member_step; [|exact Hm|reflexivity].
    cbn [strip_prefix]. change (125 =? 125) with true. reflexivity.
  - destruct fuel as [|f]; [cbn in Hf; lia|].
    cbn [wf_obj forallb] in Hw. apply andb_true_iff in Hw as [Hm Hw].
    rewrite print_sep_cons2, <- app_assoc. cbn [List.app].
    rewrite parse_member_step; [|exact Hm|reflexivity].
    change (strip_prefix [125] (44 :: 32 :: print_sep print_member (m' :: r) ++ 125 :: rest)) with (@None (list N)).
    change (strip_prefix [44; 32] (44 :: 32 :: print_sep print_member (m' :: r) ++ 125 :: rest))
      with (Some (print_sep print_member (m' :: r) ++ 125 :: rest)).
    cbv iota. rewrite IH; [reflexivity | discriminate | exact Hw | cbn [length] in *; lia].
Qed.

Lemma print_member_head m : exists t, print_member m = 34 :: t.
Proof. unfold print_member, print_string. cbn [List.app]. eauto. Qed.

Lemma print_members_head m o : exists t, print_sep print_member (m :: o) = 34 :: t.
Proof.
  destruct (print_member_head m) as [t E]. destruct o as [|m' r].
  - cbn [print_sep]. eauto.
  - rewrite print_sep_cons2, E. cbn [List.app]. eauto.
Qed.

(* ------------------------------------------------------------------ objects *)
Lemma parse_obj_print o rest : wf_obj o = true -> parse_obj (print_obj o ++ rest) = Some (o, rest).
Proof.
  intros Hw. unfold print_obj, parse_obj. cbn [List.app]. rewrite <- app_assoc. cbn [List.app].
  change (strip_prefix [123] (123 :: print_sep print_member o ++ 125 :: rest))
    with (Some (print_sep print_member o ++ 125 :: rest)). cbv iota.
  destruct o as [|m o'].
  - reflexivity.
  - destruct (print_members_head m o') as [t E].
    assert (Hnone : strip_prefix [125] (print_sep print_member (m :: o') ++ 125 :: rest) = None).
    { rewrite E. reflexivity. }
    rewrite Hnone. apply parse_members_print; [discriminate | exact Hw |].
    rewrite app_length. etransitivity; [apply print_sep_length | apply Nat.le_add_r].
    intros x _. destruct (print_member_head x) as [t' ->]. cbn [length]. lia.
Qed.

Lemma print_obj_head o : exists t, print_obj o = 123 :: t.
Proof. unfold print_obj. eauto. Qed.

Lemma print_objs_head o d : exists t, print_sep print_obj (o :: d) = 123 :: t.
Proof.
  destruct d as [|o' r].
  - cbn [print_sep]. apply print_obj_head.
  - rewrite print_sep_cons2. unfold print_obj at 1. cbn [List.app]. eauto.
Qed.

(* ------------------------------------------------------------------ documents *)
Lemma parse_elems_S f s :
  parse_elems (S f) s =
  match parse_obj s with
  | None => None
  | Some (o, r1) =>
      match strip_prefix [93] r1 with
      | Some r2 => Some ([o], r2)
      | None =>
          match strip_prefix [44; 32] r1 with
          | None => None
          | Some r2 =>
              match parse_elems f r2 with
              | Some (d, r3) => Some (o :: d, r3)
              | None => None
              end
          end
      end
  end.
Proof. reflexivity. Qed.

Lemma parse_elems_print : forall d fuel rest,
  d <> [] -> wf_doc d = true -> (length d <= fuel)%nat ->
  parse_elems fuel (print_sep print_obj d ++ 93 :: rest) = Some (d, rest).
Proof.
  induction d as [|o [|o' r] IH]; intros fuel rest Hne Hw Hf; [contradiction| |].
  - destruct fuel as [|f]; [cbn in Hf; lia|].
    cbn [wf_doc forallb] in Hw. apply andb_true_iff in Hw as [Ho _].
    cbn [print_sep]. rewrite parse_elems_S, (parse_obj_print o _ Ho).
    cbn [strip_prefix]. change (93 =? 93) with true. reflexivity.
  - destruct fuel as [|f]; [cbn in Hf; lia|].
    cbn [wf_doc forallb] in Hw. apply andb_true_iff in Hw as [Ho Hw].
    rewrite print_sep_cons2, <- app_assoc. cbn [List.app].
    rewrite parse_elems_S, (parse_obj_print o _ Ho).
    change (strip_prefix [93] (44 :: 32 :: print_sep print_obj (o' :: r) ++ 93 :: rest)) with (@None (list N)).
    change (strip_prefix [44; 32] (44 :: 32 :: print_sep print_obj (o' :: r) ++ 93 :: rest))
      with (Some (print_sep print_obj (o' :: r) ++ 93 :: rest)).
    cbv iota. rewrite IH; [reflexivity | discriminate | exact Hw | cbn [length] in *; lia].
Qed.

Theorem parse_print d : wf_doc d = true -> parse_doc (print_doc d) = Some d.
Proof.
  intros Hw. unfold print_doc, parse_doc.
  change (strip_prefix [91] (91 :: print_sep print_obj d ++ [93])) with (Some (print_sep print_obj d ++ [93])).
  cbv iota. destruct d as [|o d'].
  - reflexivity.
  - destruct (print_objs_head o d') as [t E].
    assert (Hnone : strip_prefix [93] (print_sep print_obj (o :: d') ++ [93]) = None).
    { rewrite E. reflexivity. }
    rewrite Hnone. rewrite parse_elems_print; [reflexivity | discriminate | exact Hw |].
    rewrite app_length. etransitivity; [apply print_sep_length | apply Nat.le_add_r].
    intros x _. destruct (print_obj_head x) as [t' ->]. cbn [length]. lia.
Qed.

Theorem print_doc_inj d d' :
  wf_doc d = true -> wf_doc d' = true -> print_doc d = print_doc d' -> d = d'.
Proof.
  intros H H' E. apply parse_print in H, H'. rewrite E in H. rewrite H in H'. now injection H'.
Qed.

(* without the scalar-value restriction the printer is not injective: U+1F600 and the two lone
   surrogates U+D83D U+DE00 print as the same twelve characters *)
Theorem print_string_surrogates :
  print_string [128512] = print_string [55357; 56832] /\ [128512] <> [55357; 56832].
Proof. split; [vm_compute; reflexivity | discriminate]. Qed.

(* non-vacuity: a document with every kind of escape parses back *)
Example parse_print_example :
  let d := [[([97; 34; 92; 10; 233; 127; 65535; 128512; 1114111], JStr [47; 9; 57344]);
             ([], JNum 0); ([98], JNum 1234567890); ([99], JBool true)]; []; [([100], JBool false)]] in
  wf_doc d = true /\ parse_doc (print_doc d) = Some d.
Proof. split; vm_compute; reflexivity. Qed.
