(* Proofs for property C07 over Model/Integrity.v (decision structure from Gen/Check.v).
   All statements are for an arbitrary digest H, arbitrary stores and state databases. *)
From Coq Require Import NArith List Bool Lia.
From DvcData Require Import Base.Val Base.PyBase Gen.Check Gen.PyTypes Model.StateDbBase Gen.State Model.Integrity.
Import ListNotations.
Open Scope N_scope.

(* ---------------------------------------------------------------- basics *)
Lemma leqb_refl a : list_N_eqb a a = true.
Proof. apply list_N_eqb_spec; reflexivity. Qed.

Lemma leqb_neq a b : a <> b -> list_N_eqb a b = false.
Proof.
  intros N. destruct (list_N_eqb a b) eqn:E; auto.
  apply list_N_eqb_spec in E. contradiction.
Qed.

Lemma leqb_dec (a b : list N) : {a = b} + {a <> b}.
Proof.
  destruct (list_N_eqb a b) eqn:E.
  - left. now apply list_N_eqb_spec.
  - right. intros ->. rewrite leqb_refl in E. discriminate.
Qed.

Lemma token_eqb_true a b : token_eqb a b = true -> a = b.
Proof.
  destruct a, b; unfold token_eqb; simpl. intros E.
  apply andb_true_iff in E as [E E3]. apply andb_true_iff in E as [E1 E2].
  apply N.eqb_eq in E1, E2, E3. congruence.
Qed.

Lemma token_eqb_refl a : token_eqb a a = true.
Proof. destruct a; unfold token_eqb; simpl. now rewrite !N.eqb_refl. Qed.

Section Assoc.
  Context {A : Type}.
  Implicit Types (l : list (oid * A)) (v : A).

  Lemma lookup_set_eq k v l : lookup k (set k v l) = Some v.
  Proof.
    induction l as [|[k' v'] l IH]; simpl.
    - now rewrite leqb_refl.
    - destruct (list_N_eqb k k') eqn:E; simpl.
      + now rewrite leqb_refl.
      + now rewrite E.
  Qed.

  Lemma lookup_set_neq k k' v l : k <> k' -> lookup k (set k' v l) = lookup k l.
  Proof.
    intros N. induction l as [|[k2 v2] l IH]; simpl.
    - now rewrite (leqb_neq k k').
    - destruct (list_N_eqb k' k2) eqn:E; simpl.
      + apply list_N_eqb_spec in E. subst k2. now rewrite (leqb_neq k k').
      + destruct (list_N_eqb k k2); auto.
  Qed.

  Lemma lookup_remove_eq k l : lookup k (remove k l) = None.
  Proof.
    induction l as [|[k' v'] l IH]; simpl; auto.
    destruct (list_N_eqb k k') eqn:E; simpl; auto. now rewrite E.
  Qed.

  Lemma lookup_remove_neq k k' l : k <> k' -> lookup k (remove k' l) = lookup k l.
  Proof.
    intros N. induction l as [|[k2 v2] l IH]; simpl; auto.
    destruct (list_N_eqb k' k2) eqn:E; simpl.
    - apply list_N_eqb_spec in E. subst k2. now rewrite (leqb_neq k k').
    - destruct (list_N_eqb k k2); auto.
  Qed.
End Assoc.

Definition PROTECTED : N := 292.     (* 0o444 *)

(* tie lemma: the acceptance test built on the TRANSLATED State._get (Gen/State.v) is, on the rows
   State.save writes, the comparison of the validity token and of the algorithm name *)
Lemma st_hit_spec w o tok :
  st_hit w o tok =
  if w_state w then
    match lookup o (w_db w) with
    | Some r => if token_eqb (r_tok r) tok && list_N_eqb (r_alg r) (w_alg w) then Some (r_val r) else None
    | None => None
    end
  else None.
Proof.
  unfold st_hit. destruct (w_state w); auto. destruct (lookup o (w_db w)) as [r|]; auto.
  unfold State__get, srow_of, State_checksum, token_eqb. cbn.
  destruct (t_ino (r_tok r) =? t_ino tok); cbn; auto.
  destruct (t_mtime (r_tok r) =? t_mtime tok); cbn; auto.
  destruct (t_size (r_tok r) =? t_size tok); cbn; auto.
Qed.

Section WithDigest.
  Variable H : name -> bytes -> oid.

  Notation hash_file := (hash_file H).
  Notation base_check := (base_check H).
  Notation check := (check H).
  Notation oids_exist := (oids_exist H).
  Notation checkout := (checkout H).
  Notation add := (add H).

  (* ---------------------------------------------------------------- vocabulary *)
  (* the bytes hash to the name (the comparison check makes: the parts before the first dot) *)
  Definition named_ok (alg : name) (o : oid) (ob : obj) : Prop :=
    split_dot0 (H alg (o_bytes ob)) = split_dot0 o.

  (* the state row of [o], if it is recorded under [ob]'s token for the store's algorithm,
     tells the truth about [ob]'s bytes *)
  Definition honest_for (w : world) (o : oid) (ob : obj) : Prop :=
    forall r, w_state w = true -> lookup o (w_db w) = Some r ->
              r_tok r = o_tok ob -> r_alg r = w_alg w ->
              split_dot0 (r_val r) = split_dot0 (H (w_alg w) (o_bytes ob)).

  Definition honest (w : world) (o : oid) : Prop :=
    forall ob, lookup o (w_objs w) = Some ob -> honest_for w o ob.

  (* the three regimes of the property's quantifier *)
  Definition cold (w : world) (o : oid) : Prop := w_state w = false \/ lookup o (w_db w) = None.
  Definition stale (w : world) (o : oid) (ob : obj) : Prop :=      (* `token changed` *)
    exists r, lookup o (w_db w) = Some r /\ r_tok r <> o_tok ob.
  Definition warm (w : world) (o : oid) (ob : obj) : Prop :=       (* re-hashed since the change *)
    exists r, lookup o (w_db w) = Some r /\ r_tok r = o_tok ob /\
              split_dot0 (r_val r) = split_dot0 (H (w_alg w) (o_bytes ob)).

  Lemma regimes_honest w o ob : cold w o \/ stale w o ob \/ warm w o ob -> honest_for w o ob.
  Proof.
    intros [[C|C]|[[r [L N]]|[r [L [E P]]]]] r' S L' T A.
    - congruence.
    - congruence.
    - rewrite L in L'. injection L' as <-. contradiction.
    - rewrite L in L'. injection L' as <-. exact P.
  Qed.

  (* Tampered: mismatching, not write-protected (only the Local class looks at the mode), and the
     state cache is cold, stale (token changed) or warm for it *)
  Definition Tampered (w : world) (o : oid) (ob : obj) : Prop :=
    lookup o (w_objs w) = Some ob /\ ~ named_ok (w_alg w) o ob /\
    (w_cls w = Local -> S_IMODE (o_mode ob) <> PROTECTED) /\ honest_for w o ob.

  Definition Intact (w : world) (o : oid) (ob : obj) : Prop :=
    lookup o (w_objs w) = Some ob /\ named_ok (w_alg w) o ob /\ honest_for w o ob.

  (* ---------------------------------------------------------------- hash_file *)
  Lemma hash_file_prefix w o ob : honest_for w o ob ->
    split_dot0 (fst (hash_file w o ob)) = split_dot0 (H (w_alg w) (o_bytes ob)).
  Proof.
    intros Hh. unfold Integrity.hash_file. rewrite st_hit_spec.
    destruct (w_state w) eqn:S; [|reflexivity].
    destruct (lookup o (w_db w)) as [r|] eqn:L; [|reflexivity].
    destruct (token_eqb (r_tok r) (o_tok ob) && list_N_eqb (r_alg r) (w_alg w)) eqn:E; [|reflexivity].
    apply andb_true_iff in E as [E1 E2]. simpl.
    apply (Hh r); auto. now apply token_eqb_true. now apply list_N_eqb_spec.
  Qed.

  Lemma hash_file_db_frame w o ob o' : o' <> o ->
    lookup o' (snd (hash_file w o ob)) = lookup o' (w_db w).
  Proof.
    intros N. unfold Integrity.hash_file, st_save.
    destruct (st_hit w o (o_tok ob)); simpl; auto.
    destruct (w_state w); auto. now apply lookup_set_neq.
  Qed.

  (* the row of [o] after hash_file is still honest for [ob] *)
  Lemma hash_file_db_honest w o ob r :
    honest_for w o ob -> w_state w = true ->
    lookup o (snd (hash_file w o ob)) = Some r -> r_tok r = o_tok ob -> r_alg r = w_alg w ->
    split_dot0 (r_val r) = split_dot0 (H (w_alg w) (o_bytes ob)).
  Proof.
    intros Hh S L T A. unfold Integrity.hash_file, st_save in L.
    destruct (st_hit w o (o_tok ob)) eqn:E; simpl in L.
    - now apply (Hh r).
    - rewrite S in L. rewrite lookup_set_eq in L. injection L as <-. reflexivity.
  Qed.

  (* ---------------------------------------------------------------- check, one step *)
  Lemma base_check_ok w o ob : honest_for w o ob -> named_ok (w_alg w) o ob ->
    base_check w o ob = (0, protect (with_db w (snd (hash_file w o ob))) o).
  Proof.
    intros Hh Hn. unfold Integrity.base_check.
    assert (E : list_N_eqb (split_dot0 (fst (hash_file w o ob))) (split_dot0 o) = true).
    { apply list_N_eqb_spec. rewrite hash_file_prefix by exact Hh. exact Hn. }
    unfold Base_check. cbn [negb]. rewrite E. reflexivity.
  Qed.

  Lemma base_check_bad w o ob : honest_for w o ob -> ~ named_ok (w_alg w) o ob ->
    base_check w o ob =
    (3, with_objs (with_db w (snd (hash_file w o ob))) (remove o (w_objs w))).
  Proof.
    intros Hh Hn. unfold Integrity.base_check.
    assert (E : list_N_eqb (split_dot0 (fst (hash_file w o ob))) (split_dot0 o) = false).
    { apply leqb_neq. rewrite hash_file_prefix by exact Hh. exact Hn. }
    unfold Base_check. cbn [negb]. rewrite E. reflexivity.
  Qed.

  Lemma check_missing w o : lookup o (w_objs w) = None -> check w o = (2, w).
  Proof. intros L. unfold Integrity.check. now rewrite L. Qed.

  Lemma check_trusted w o ob : lookup o (w_objs w) = Some ob -> w_cls w = Local ->
    S_IMODE (o_mode ob) = PROTECTED -> check w o = (0, w).
  Proof.
    intros L C M. unfold Integrity.check. rewrite L, C. unfold Local_check.
    unfold PROTECTED in M. rewrite M. reflexivity.
  Qed.

  Lemma check_untrusted w o ob : lookup o (w_objs w) = Some ob ->
    (w_cls w = Local -> S_IMODE (o_mode ob) <> PROTECTED) -> check w o = base_check w o ob.
  Proof.
    intros L M. unfold Integrity.check. rewrite L. destruct (w_cls w) eqn:C; auto.
    unfold Local_check. specialize (M eq_refl). unfold PROTECTED in M.
    destruct (N.eqb (S_IMODE (o_mode ob)) CACHE_MODE) eqn:E; auto.
    apply N.eqb_eq in E. unfold CACHE_MODE in E. contradiction.
  Qed.

  Lemma mode_dec m : {S_IMODE m = PROTECTED} + {S_IMODE m <> PROTECTED}.
  Proof. apply N.eq_dec. Qed.

  (* ---- C07_reject *)
  Theorem reject w o ob : Tampered w o ob ->
    fst (check w o) = 3 /\ lookup o (w_objs (snd (check w o))) = None.
  Proof.
    intros (L & Hn & M & Hh).
    rewrite (check_untrusted w o ob L M), (base_check_bad w o ob Hh Hn). simpl.
    split; auto. apply lookup_remove_eq.
  Qed.

  (* ---- C07_intact *)
  Lemma protect_lookup_same w o ob : lookup o (w_objs w) = Some ob ->
    exists ob', lookup o (w_objs (protect w o)) = Some ob' /\ o_bytes ob' = o_bytes ob /\
                o_tok ob' = o_tok ob /\
                (w_cls w = Local -> o_mode ob' = PROTECTED) /\ (w_cls w = Base -> o_mode ob' = o_mode ob).
  Proof.
    intros L. unfold protect. rewrite L. destruct (w_cls w) eqn:C; simpl.
    - eexists. rewrite lookup_set_eq. split; [reflexivity|]. simpl. repeat split; auto. discriminate.
    - exists ob. repeat split; auto. discriminate.
  Qed.

  Theorem intact w o ob : Intact w o ob ->
    fst (check w o) = 0 /\
    exists ob', lookup o (w_objs (snd (check w o))) = Some ob' /\ o_bytes ob' = o_bytes ob /\
                (w_cls w = Local -> S_IMODE (o_mode ob') = PROTECTED).
  Proof.
    intros (L & Hn & Hh).
    destruct (w_cls w) eqn:C.
    - destruct (mode_dec (o_mode ob)) as [M|M].
      + rewrite (check_trusted w o ob L C M). simpl. split; auto. exists ob. auto.
      + rewrite (check_untrusted w o ob L (fun _ => M)), (base_check_ok w o ob Hh Hn). simpl.
        split; auto.
        destruct (protect_lookup_same (with_db w (snd (hash_file w o ob))) o ob L)
          as (ob' & L' & B & _ & ML & _).
        exists ob'. repeat split; auto. intros _. simpl in ML. rewrite (ML C). reflexivity.
    - rewrite (check_untrusted w o ob L) by (rewrite C; discriminate).
      rewrite (base_check_ok w o ob Hh Hn). simpl. split; auto.
      destruct (protect_lookup_same (with_db w (snd (hash_file w o ob))) o ob L)
        as (ob' & L' & B & _ & _ & _).
      exists ob'. repeat split; auto. discriminate.
  Qed.

  (* ---- C07_checkout_refuses *)
  Theorem checkout_refuses w o ob : Tampered w o ob ->
    fst (checkout w o) = (5, None) /\ lookup o (w_objs (snd (checkout w o))) = None.
  Proof.
    intros T. destruct (reject w o ob T) as [_ G]. unfold Integrity.checkout.
    rewrite G. simpl. auto.
  Qed.

  Theorem checkout_intact w o ob : Intact w o ob -> fst (checkout w o) = (0, Some (o_bytes ob)).
  Proof.
    intros I. destruct (intact w o ob I) as [_ (ob' & L' & B & _)]. unfold Integrity.checkout.
    rewrite L'. simpl. now rewrite B.
  Qed.
End WithDigest.
