(* The tie between Gen/StatusPy.v (generated on every run from hashfile/status.py by
   translator/statusunit.py) and the hand-written Model/Status.v: the translated fragments are
   EQUAL to the model's functions, for all arguments.  The theorems of C12 are about the model;
   through these equalities they are about the set algebra that is in the source now.  A semantic
   edit of status.py (which still translates) breaks one of these lemmas - a broken proof
   obligation of C12. *)
From stdpp Require Import gmap.
From Coq Require Import NArith.
From DvcData Require Import Base.Val Model.Status Gen.StatusPy Proofs.StatusProofs.
Open Scope N_scope.

Local Ltac cases :=
  repeat (case_bool_decide || case_decide || match goal with
          | |- context [if ?b then _ else _] => destruct b eqn:?
          end); cbn [negb andb orb] in *.

(* _indexed_dir_hashes, lines 39-59: ALL indexed directories are re-validated against the store,
   the index is cleared when one of them vanished, dir_exists = requested ∩ (indexed that exist)
   ∪ (the other requested ones found in the store) *)
Lemma py_validate_tie st ix dirs :
  py_validate st ix (list_to_set dirs)
  = ((revalidate st ix).1, dir_exists st (revalidate st ix).2 dirs).
Proof.
  unfold py_validate, revalidate, dir_exists. cbn [fst snd].
  generalize (list_to_set dirs : gset oid). intros R. generalize (ix_dirs ix). intros I.
  destruct (bool_decide (I = ∅)) eqn:E1; cbn [negb].
  - apply bool_decide_eq_true in E1. subst I.
    rewrite decide_True by set_solver. f_equal. set_solver.
  - apply bool_decide_eq_false in E1.
    destruct (bool_decide (I ∖ (∅ ∪ I ∩ st) = ∅)) eqn:E2; cbn [negb].
    + apply bool_decide_eq_true in E2. rewrite decide_True by set_solver. f_equal. set_solver.
    + apply bool_decide_eq_false in E2. rewrite decide_False by set_solver. f_equal. set_solver.
Qed.

(* the loop body, lines 68-84 *)
Lemma py_index_dir_tie load acc D : py_index_dir load acc D = index_dir load acc D.
Proof.
  unfold py_index_dir, index_dir. destruct (load D) as [l|]; [|done]. f_equal.
  destruct (decide (is_Some (acc.1 !! D))) as [H|H].
  - rewrite bool_decide_eq_true_2; [done|]. by apply elem_of_dom.
  - rewrite bool_decide_eq_false_2; [done|]. by rewrite elem_of_dom.
Qed.

Lemma py_indexed_dir_hashes_tie st load ix dirs :
  py_indexed_dir_hashes st load ix dirs = indexed_dir_hashes st load ix dirs.
Proof.
  unfold py_indexed_dir_hashes. rewrite py_validate_tie, indexed_dir_hashes_unfold.
  generalize (filter (λ D, D ∈ dir_exists st (revalidate st ix).2 dirs) dirs).
  generalize ((revalidate st ix).1, (∅ : gset oid)).
  intros acc l. revert acc. induction l as [|a l IH]; intros acc; cbn [foldl]; [done|].
  by rewrite py_index_dir_tie, IH.
Qed.

(* status() registers a requested directory for index validation in BOTH modes: the model's
   [req_dirs q] does not look at [shallow] *)
Lemma py_registers_tie : py_registers_shallow = true ∧ py_registers_expanded = true.
Proof. split; reflexivity. Qed.

(* status() after the collection loop, no index: lines 133, 147-155 *)
Lemma py_status_plain_tie st load q sh :
  status_plain st load q sh =
  match collect load sh q with
  | None => Err 2
  | Some hashes => Ok (py_status_tail_plain st hashes (negb (bool_decide (req_dirs q = []))))
  end.
Proof.
  unfold status_plain, py_status_tail_plain. destruct (collect load sh q) as [h|]; [|done].
  f_equal. destruct (bool_decide (h = ∅)) eqn:E; cbn [negb].
  - apply bool_decide_eq_true in E. subst h. f_equal; set_solver.
  - f_equal; set_solver.
Qed.

Local Lemma ok3_eq (a a' b b' : gset oid) (c c' : index) :
  a = a' → b = b' → c = c' →
  (Ok (a, b, c) : result (gset oid * gset oid * index)) = Ok (a', b', c').
Proof. by intros -> -> ->. Qed.

(* status() after the collection loop, with an index: lines 133-155 *)
Lemma py_status_ix_tie st load ix q sh :
  status_ix st load ix q sh =
  match collect load sh q with
  | None => Err 2
  | Some hashes =>
      let '(e, m, ix') :=
        py_status_tail_ix st ix hashes (negb (bool_decide (req_dirs q = [])))
                          (λ i, py_indexed_dir_hashes st load i (req_dirs q)) in
      Ok (e, m, ix')
  end.
Proof.
  unfold status_ix, py_status_tail_ix. destruct (collect load sh q) as [h|]; [|done].
  destruct (decide (h = ∅)) as [->|Hne].
  - rewrite bool_decide_eq_true_2 by done. cbn [negb andb].
    rewrite bool_decide_eq_true_2 by done. cbn [negb]. apply ok3_eq; [set_solver..|done].
  - rewrite (bool_decide_eq_false_2 (h = ∅)) by done. cbn [negb andb].
    destruct (req_dirs q) as [|d0 dr] eqn:Er.
    + rewrite bool_decide_eq_true_2 by done. cbn [negb].
      assert (Hh : h ∖ ∅ = h) by set_solver. rewrite Hh.
      rewrite (bool_decide_eq_false_2 (h = ∅)) by done. cbn [negb].
      set (e2 := ∅ ∪ h ∩ dom ix).
      destruct (bool_decide (h ∖ e2 = ∅)) eqn:E3; cbn [negb].
      * apply bool_decide_eq_true in E3. apply ok3_eq; [set_solver..|done].
      * apply ok3_eq; [set_solver..|done].
    + rewrite bool_decide_eq_false_2 by done. cbn [negb].
      rewrite py_indexed_dir_hashes_tie.
      destruct (indexed_dir_hashes st load ix (d0 :: dr)) as [ix1 y].
      set (e1 := h ∩ y).
      destruct (bool_decide (h ∖ e1 = ∅)) eqn:E2; cbn [negb].
      * apply bool_decide_eq_true in E2.
        rewrite E2. rewrite bool_decide_eq_true_2 by done. cbn [negb].
        apply ok3_eq; [set_solver..|done].
      * set (e2 := e1 ∪ (h ∖ e1) ∩ dom ix1).
        destruct (bool_decide (h ∖ e1 ∖ e2 = ∅)) eqn:E3; cbn [negb].
        -- apply bool_decide_eq_true in E3. apply ok3_eq; [set_solver..|done].
        -- apply ok3_eq; [set_solver..|done].
Qed.

(* compare_status: which store / index / loader / shallow each status call gets, the test of the
   transfer-mode shortcut, its else-branch and the four result sets *)
Lemma py_compare_tie src dst load_s load_d six dix q sh cd :
  py_compare_status src dst load_s load_d six dix q sh cd
  = compare_status src dst load_s load_d six dix q sh cd.
Proof.
  unfold py_compare_status, compare_status.
  destruct (status dst load_d dix q sh) as [[[dex dmiss] dix']|]; [|done].
  destruct (negb (bool_decide (dmiss = ∅)) || cd); [|done].
  by destruct (status src load_s six q sh) as [[[sex smiss] six']|].
Qed.

(* C12_exact read off the translated statements directly: without an index the source computes
   exists = ids ∩ store, missing = ids ∖ store *)
Lemma py_status_plain_exact st ids hd : py_status_tail_plain st ids hd = (ids ∩ st, ids ∖ st).
Proof.
  unfold py_status_tail_plain. destruct (bool_decide (ids = ∅)) eqn:E; cbn [negb].
  - apply bool_decide_eq_true in E. subst ids. f_equal; set_solver.
  - f_equal; [set_solver|]. apply set_eq. intros o. destruct (decide (o ∈ st)); set_solver.
Qed.

Example py_validate_ex :
  (* D1 indexed but gone, D2 indexed and there, D3 not indexed and there; all three requested *)
  let D1 : oid := [7] ++ dot_dir in let D2 : oid := [8] ++ dot_dir in let D3 : oid := [9] ++ dot_dir in
  let r := py_validate {[D2; D3]} (list_to_map [(D1, true); (D2, true); ([1], false)]) {[D1; D2; D3]} in
  same_set (dom r.1) [] && same_set r.2 [D2; D3] = true.
Proof. vm_compute. reflexivity. Qed.
