(* The directory loop of _do_transfer: loop invariant, safety of every event (hence closure of
   the destination under every prefix), accounting of every file and directory of [new]. *)
From Coq Require Import NArith List Bool Lia.
From DvcData Require Import Base.Val Model.Transfer Proofs.TransferBase.
Import ListNotations.
Open Scope N_scope.

Section Loop.
Variable S : Prop.          (* strictness: True when destination and request are closed (C04) *)
Variable i : t_in.
Variables new missing : list oid.

(* what the status phase guarantees about [new] and [missing] (TransferStatus.v proves it) *)
Hypothesis Hbord : ord_ok (t_bord i).
Hypothesis Hdord : ord_ok (t_dord i).
Hypothesis P1 : forall o, In o new -> has (t_dst i) o = false.
Hypothesis Pflat : forall D l f, find_tree i D = Some l -> In f l -> is_dir_oid f = false.
Hypothesis P2 : S -> forall D l f, In D new -> is_dir_oid D = true -> find_tree i D = Some l -> In f l ->
  has (t_dst i) f = true \/ In f new \/ In f missing.
Hypothesis P3 : forall D l l', find_tree i D = Some l -> listing (t_parse i) (t_src i) D = Some l' -> l' = l.
Hypothesis Ptrunc : S -> forall o, is_dir_oid o = true -> t_parse i (t_trunc i o) = None.

Definition files0 : list oid := filter is_file_oid new.

Lemma files0_In f : In f files0 <-> In f new /\ is_dir_oid f = false.
Proof. unfold files0. rewrite filter_In, is_file_dir. tauto. Qed.

Record LI (d : store) (files failed : list oid) : Prop := {
  li_acc : forall f, In f files0 -> In f files \/ In f failed \/ (delivered i f = true /\ has d f = true);
  li_files : forall f, In f files -> In f files0;
  li_failed : forall o, In o failed -> In o new /\ (is_dir_oid o = true \/ delivered i o = false);
  li_d0 : forall o, has (t_dst i) o = true -> has d o = true }.

(* why a directory was reported failed *)
Definition WHY (D : oid) (entries : list oid) : Prop :=
  delivered i D = false \/
  exists g, In g entries /\ delivered i g = false /\ has (t_dst i) g = false.
(* the fate of a directory of [new] *)
Definition PD (D : oid) (entries : list oid) (d : store) (failed : list oid) : Prop :=
  (delivered i D = true /\ has d D = true) \/
  (In D failed /\ WHY D entries) \/
  (exists g, In g entries /\ In g missing).

Lemma stable_d0 o : has (t_dst i) o = true -> stable i o = true.
Proof. unfold stable. intros ->. reflexivity. Qed.
Lemma stable_delivered o : delivered i o = true -> stable i o = true.
Proof. unfold stable. intros ->. apply orb_true_r. Qed.
Lemma unstable_new o : In o new -> delivered i o = false -> stable i o = false.
Proof. unfold stable. intros H ->. now rewrite (P1 o H). Qed.

(* a batch of file ids of [new] is always safe *)
Lemma safe_file_batch d batch :
  (forall f, In f batch -> In f files0) -> safe S i d (add_events i batch).
Proof.
  intros Hb. apply safe_add.
  - intros o Ho. apply (proj1 (Hbord _ _)) in Ho. apply Hb in Ho. apply files0_In in Ho. destruct Ho as [_ Hf].
    destruct (attempt_cases i o) as [[E1 E2]|[[E1 [E2 E3]]|[E1 E2]]]; rewrite E1; simpl; auto;
      try solve [intros _ Hd; congruence];
      try solve [intros _ l f HL; unfold listing in HL; rewrite Hf in HL; discriminate].
  - intros o Ho Hd. apply (proj1 (Hbord _ _)) in Ho. apply Hb in Ho. apply files0_In in Ho. destruct Ho as [Hn _].
    apply unstable_new; auto. now apply dropped_not_delivered.
Qed.

Lemma LI_after d files failed evs files' failed' :
  LI d files failed -> safe S i d evs ->
  (forall f, In f files' -> In f files) ->
  (forall o, In o failed -> In o failed') ->
  (forall o, In o failed' -> In o failed \/ (In o new /\ (is_dir_oid o = true \/ delivered i o = false))) ->
  (forall f, In f files -> In f files' \/ In f failed' \/
                           (delivered i f = true /\ has (apply_dst (t_src i) evs d) f = true)) ->
  LI (apply_dst (t_src i) evs d) files' failed'.
Proof.
  intros [A B C D] Hs Hf Hm Hn Hacc. constructor.
  - intros f Hf0. destruct (A f Hf0) as [H|[H|[H1 H2]]]; auto.
    right. right. split; auto. apply (safe_has S); auto. now apply stable_delivered.
  - intros f H. apply B. auto.
  - intros o H. destruct (Hn o H) as [H'|H']; auto.
  - intros o H. apply (safe_has S); auto. now apply stable_d0.
Qed.

Lemma dir_step_spec D entries files failed d ev files' failed' succ :
  LI d files failed -> In D new -> is_dir_oid D = true -> find_tree i D = Some entries ->
  dir_step i missing D entries files failed = (ev, files', failed', succ) ->
  safe S i d ev /\
  LI (apply_dst (t_src i) ev d) files' failed' /\
  (forall o, In o failed -> In o failed') /\
  (forall f, In f files' -> In f files) /\
  PD D entries (apply_dst (t_src i) ev d) failed' /\
  (forall e x, In e ev -> ev_oid e = Some x -> In x files \/ x = D).
Proof.
  intros HL HDn HDd HT. unfold dir_step.
  set (bound := filter (fun f => mem f entries) files).
  set (rest := filter (fun f => negb (mem f entries)) files).
  set (ev1 := add_events i bound).
  set (d1 := apply_dst (t_src i) ev1 d).
  assert (Hbound : forall f, In f bound <-> In f files /\ In f entries).
  { intros f. unfold bound. rewrite filter_In, mem_In. tauto. }
  assert (Hrest : forall f, In f rest <-> In f files /\ ~ In f entries).
  { intros f. unfold rest. rewrite filter_In, negb_true_iff, mem_nIn. tauto. }
  assert (Hb0 : forall f, In f bound -> In f files0).
  { intros f Hf. apply Hbound in Hf. destruct Hf. now apply (li_files _ _ _ HL). }
  assert (Hs1 : safe S i d ev1) by (apply safe_file_batch; auto).
  assert (Hoid1 : forall e x, In e ev1 -> ev_oid e = Some x -> In x files).
  { intros e x He Hx. apply (add_events_oid i bound e x Hbord He) in Hx. apply Hbound in Hx. tauto. }
  (* accounting of the files after the batch of this directory *)
  assert (Hacc1 : forall f, In f files -> In f rest \/ In f (add_failed i bound) \/
                                         (delivered i f = true /\ has d1 f = true)).
  { intros f Hf. destruct (mem f entries) eqn:E.
    - apply mem_In in E. assert (Hfb : In f bound) by (apply Hbound; auto).
      destruct (delivered i f) eqn:Ed.
      + right. right. split; auto. unfold d1, ev1. apply add_events_has; auto.
      + right. left. apply add_failed_In; auto.
    - left. apply Hrest. split; auto. now apply mem_nIn. }
  assert (Hfail1 : forall o, In o (add_failed i bound) -> In o new /\ delivered i o = false /\ In o entries).
  { intros o Ho. apply add_failed_In in Ho; auto. destruct Ho as [Ho Hd].
    split; [|split; auto]. apply Hb0 in Ho. apply files0_In in Ho. tauto. apply Hbound in Ho. tauto. }
  assert (Hfail2 : forall o, In o (filter (fun f => mem f failed) entries) ->
                             In o entries /\ In o failed /\ In o new /\ delivered i o = false).
  { intros o Ho. apply filter_In in Ho. destruct Ho as [Ho Hm]. apply mem_In in Hm.
    split; auto. split; auto. destruct (li_failed _ _ _ HL o Hm) as [Hn [Hd|Hd]]; split; auto.
    pose proof (Pflat D entries o HT Ho). congruence. }
  destruct (add_failed i bound ++ filter (fun f => mem f failed) entries) as [|x fl] eqn:Efails.
  - (* nothing failed *)
    apply app_eq_nil in Efails. destruct Efails as [Ef1 Ef2].
    assert (Hacc2 : forall f, In f files -> In f rest \/ (delivered i f = true /\ has d1 f = true)).
    { intros f Hf. destruct (Hacc1 f Hf) as [H|[H|H]]; auto. rewrite Ef1 in H. contradiction. }
    destruct (existsb (fun f => mem f missing) entries) eqn:Emiss.
    + (* a listed file is missing on both sides: withheld, nothing recorded *)
      intros E. inversion E; subst ev files' failed' succ. clear E.
      split; auto. split; [|split; [|split; [|split]]]; auto.
      * apply (LI_after d files failed ev1 rest failed); auto.
        -- intros f Hf. apply Hrest in Hf. tauto.
        -- intros f Hf. destruct (Hacc2 f Hf); auto.
      * intros f Hf. apply Hrest in Hf. tauto.
      * right. right. apply existsb_exists in Emiss. destruct Emiss as [g [Hg1 Hg2]].
        exists g. split; auto. now apply mem_In.
      * intros e x He Hx. left. eauto.
    + (* every listed file is there: upload the directory object *)
      assert (Hent : S -> forall f, In f entries -> has d1 f = true /\ stable i f = true).
      { intros HS f Hf. pose proof (Pflat D entries f HT Hf) as Hff.
        destruct (P2 HS D entries f HDn HDd HT Hf) as [H|[H|H]].
        - split; [|now apply stable_d0]. unfold d1. apply (safe_has S); auto.
          + now apply (li_d0 _ _ _ HL). + now apply stable_d0.
        - assert (Hf0 : In f files0) by (apply files0_In; auto).
          destruct (li_acc _ _ _ HL f Hf0) as [H1|[H1|[H1 H2]]].
          + destruct (Hacc2 f H1) as [H3|[H3 H4]].
            * apply Hrest in H3. tauto.
            * split; auto. now apply stable_delivered.
          + exfalso. assert (Hx : In f (filter (fun f => mem f failed) entries)).
            { apply filter_In. split; auto. now apply mem_In. }
            rewrite Ef2 in Hx. contradiction.
          + split; [|now apply stable_delivered]. unfold d1. apply (safe_has S); auto. now apply stable_delivered.
        - exfalso. apply (existsb_false _ _ Emiss) in Hf. apply mem_nIn in Hf. contradiction. }
      assert (HsD : safe S i d1 (add_events i [D])).
      { apply safe_add.
        - intros o Ho. apply (proj1 (Hbord _ _)) in Ho. destruct Ho as [<-|[]].
          destruct (attempt_cases i D) as [[E1 E2]|[[E1 [E2 E3]]|[E1 E2]]]; rewrite E1; simpl; auto.
          intros HS l f HLs Hf. rewrite (P3 D entries l HT HLs) in Hf. auto.
        - intros o Ho Hd. apply (proj1 (Hbord _ _)) in Ho. destruct Ho as [<-|[]].
          apply unstable_new; auto. now apply dropped_not_delivered. }
      assert (HoidD : forall e x, In e (add_events i [D]) -> ev_oid e = Some x -> x = D).
      { intros e x He Hx. apply (add_events_oid i [D] e x Hbord He) in Hx. destruct Hx as [<-|[]]. auto. }
      assert (Hsall : safe S i d (ev1 ++ add_events i [D])) by (apply safe_app; split; auto).
      assert (Hacc3 : forall f, In f files -> In f rest \/
                (delivered i f = true /\ has (apply_dst (t_src i) (ev1 ++ add_events i [D]) d) f = true)).
      { intros f Hf. destruct (Hacc2 f Hf) as [H|[H1 H2]]; auto. right. split; auto.
        rewrite apply_dst_app. apply (safe_has S); auto. now apply stable_delivered. }
      assert (HoidA : forall e x, In e (ev1 ++ add_events i [D]) -> ev_oid e = Some x -> In x files \/ x = D).
      { intros e x He Hx. apply in_app_or in He. destruct He as [He|He]; eauto. }
      destruct (add_failed i [D]) as [|y yl] eqn:EfD.
      * intros E. inversion E; subst ev files' failed' succ. clear E.
        split; auto. split; [|split; [|split; [|split]]]; auto.
        -- apply (LI_after d files failed _ rest failed); auto.
           ++ intros f Hf. apply Hrest in Hf. tauto.
           ++ intros f Hf. destruct (Hacc3 f Hf); auto.
        -- intros f Hf. apply Hrest in Hf. tauto.
        -- left. assert (Hd : delivered i D = true).
           { destruct (delivered i D) eqn:Ed; auto.
             assert (Hx : In D (add_failed i [D])) by (apply add_failed_In; simpl; auto).
             rewrite EfD in Hx. contradiction. }
           split; auto. rewrite apply_dst_app. apply add_events_has; simpl; auto.
      * intros E. inversion E; subst ev files' failed' succ. clear E.
        assert (HyD : delivered i D = false).
        { assert (Hx : In y (add_failed i [D])) by (rewrite EfD; simpl; auto).
          apply add_failed_In in Hx; auto. destruct Hx as [[<-|[]] Hx]. auto. }
        split; auto. split; [|split; [|split; [|split]]]; auto.
        -- apply (LI_after d files failed _ rest (D :: failed)); auto.
           ++ intros f Hf. apply Hrest in Hf. tauto.
           ++ intros o Ho. right. exact Ho.
           ++ intros o [<-|Ho]; auto.
           ++ intros f Hf. destruct (Hacc3 f Hf); auto.
        -- intros o Ho. right. exact Ho.
        -- intros f Hf. apply Hrest in Hf. tauto.
        -- right. left. split; [left; reflexivity|]. left. auto.
  - (* some listed file failed: the directory object is withheld and reported *)
    intros E. inversion E; subst ev files' failed' succ. clear E.
    assert (Hfl : forall o, In o (x :: fl) -> In o new /\ delivered i o = false /\ In o entries).
    { intros o Ho. rewrite <- Efails in Ho. apply in_app_or in Ho. destruct Ho as [Ho|Ho].
      - apply Hfail1 in Ho. tauto.
      - apply Hfail2 in Ho. tauto. }
    split; auto. split; [|split; [|split; [|split]]]; auto.
    + apply (LI_after d files failed ev1 rest (D :: (x :: fl) ++ failed)); auto.
      * intros f Hf. apply Hrest in Hf. tauto.
      * intros o Ho. right. apply (in_or_app (x :: fl) failed). auto.
      * intros o [<-|Ho]; auto. change (In o ((x :: fl) ++ failed)) in Ho.
        apply in_app_or in Ho. destruct Ho as [Ho|Ho]; auto.
        right. apply Hfl in Ho. tauto.
      * intros f Hf. destruct (Hacc1 f Hf) as [H|[H|H]]; auto.
        right. left. right. apply (in_or_app (x :: fl) failed). left.
        rewrite <- Efails. apply in_or_app. auto.
    + intros o Ho. right. apply (in_or_app (x :: fl) failed). auto.
    + intros f Hf. apply Hrest in Hf. tauto.
    + right. left. split; [left; reflexivity|]. right. exists x.
      destruct (Hfl x (or_introl eq_refl)) as [H1 [H2 H3]]. split; auto.
    + intros e y He Hy. left. eauto.
Qed.

Lemma PD_mono D entries d failed evs failed' :
  safe S i d evs -> (forall o, In o failed -> In o failed') ->
  PD D entries d failed -> PD D entries (apply_dst (t_src i) evs d) failed'.
Proof.
  intros Hs Hm [[H1 H2]|[[H1 H2]|H]].
  - left. split; auto. apply (safe_has S); auto. now apply stable_delivered.
  - right. left. auto.
  - right. right. auto.
Qed.

Lemma dir_loop_spec : forall dirs files failed d,
  LI d files failed -> (forall D, In D dirs -> In D new /\ is_dir_oid D = true) ->
  let r := dir_loop i missing dirs files failed in
  safe S i d (d_events r) /\
  (forall e x, In e (d_events r) -> ev_oid e = Some x -> In x files \/ In x dirs) /\
  (d_ok r = true ->
     LI (apply_dst (t_src i) (d_events r) d) (d_files r) (d_failed r) /\
     (forall o, In o failed -> In o (d_failed r)) /\
     (forall D entries, In D dirs -> find_tree i D = Some entries ->
                        PD D entries (apply_dst (t_src i) (d_events r) d) (d_failed r)) /\
     (forall D, In D dirs -> exists entries, find_tree i D = Some entries)).
Proof.
  induction dirs as [|D r IH]; intros files failed d HL Hd; simpl.
  - split; auto. split; [intros e x []|]. intros _. split; auto. split; auto. split; [intros D e []|intros D []].
  - destruct (find_tree i D) as [entries|] eqn:HT; simpl.
    + destruct (dir_step i missing D entries files failed) as [[[ev files'] failed'] succ] eqn:Est.
      destruct (Hd D (or_introl eq_refl)) as [HDn HDd].
      destruct (dir_step_spec D entries files failed d ev files' failed' succ HL HDn HDd HT Est)
        as [Hs [HL' [Hm [Hf [HP Ho]]]]].
      assert (Hd' : forall D', In D' r -> In D' new /\ is_dir_oid D' = true) by (intros; apply Hd; right; auto).
      destruct (IH files' failed' _ HL' Hd') as [Hs2 [Ho2 Hfin]]. simpl.
      split; [apply safe_app; auto|]. split.
      * intros e x He Hx. apply in_app_or in He. destruct He as [He|He].
        -- destruct (Ho e x He Hx) as [H| ->]; auto.
        -- destruct (Ho2 e x He Hx) as [H|H]; auto.
      * intros Hok. destruct (Hfin Hok) as [HLf [Hmf [HPf HTf]]]. rewrite apply_dst_app.
        split; auto. split; [intros o Hoo; apply Hmf; auto|]. split.
        -- intros D' entries' [<-|HD'] HT'.
           ++ rewrite HT in HT'. inversion HT'; subst entries'. eapply PD_mono; eauto.
           ++ apply HPf; auto.
        -- intros D' [<-|HD']; eauto.
    + split; auto. split; [intros e x []|]. discriminate.
Qed.

(* a truncated leftover only comes from an upload that failed *)
Lemma dir_loop_partial : forall dirs files failed o b,
  In (Partial o b) (d_events (dir_loop i missing dirs files failed)) -> delivered i o = false.
Proof.
  assert (HA : forall batch o b, In (Partial o b) (add_events i batch) -> delivered i o = false).
  { intros batch o b H. apply add_events_In_Partial in H; auto. destruct H as [_ [H _]].
    unfold delivered. now rewrite H. }
  induction dirs as [|D r IH]; simpl; intros files failed o b H; [contradiction|].
  destruct (find_tree i D) as [entries|]; simpl in H; [|contradiction].
  destruct (dir_step i missing D entries files failed) as [[[ev files'] failed'] succ] eqn:Est.
  simpl in H. apply in_app_or in H. destruct H as [H|H]; [|eauto].
  unfold dir_step in Est.
  destruct (add_failed i (filter (fun f => mem f entries) files) ++ filter (fun f => mem f failed) entries).
  - destruct (existsb (fun f => mem f missing) entries).
    + inversion Est; subst. eauto.
    + destruct (add_failed i [D]); inversion Est; subst; apply in_app_or in H; destruct H; eauto.
  - inversion Est; subst. eauto.
Qed.
Lemma do_transfer_partial o b :
  In (Partial o b) (fst (do_transfer i new missing)) -> delivered i o = false.
Proof.
  assert (HA : forall batch, In (Partial o b) (add_events i batch) -> delivered i o = false).
  { intros batch H. apply add_events_In_Partial in H; auto. destruct H as [_ [H _]].
    unfold delivered. now rewrite H. }
  unfold do_transfer.
  set (r := dir_loop i missing (t_dord i (filter is_dir_oid new)) (filter is_file_oid new) []).
  destruct (d_ok r); simpl.
  - destruct (add_failed i (d_files r) ++ d_failed r); simpl; intros H;
      apply in_app_or in H; destruct H as [H|H].
    + apply in_app_or in H. destruct H as [H|H]; [eapply dir_loop_partial; eauto|eauto].
    + destruct (t_dnoop i); [destruct H|]. apply in_map_iff in H. destruct H as [p [E _]]. discriminate.
    + apply in_app_or in H. destruct H as [H|H]; [eapply dir_loop_partial; eauto|eauto].
    + destruct H as [H|[]]. discriminate.
  - intros H. eapply dir_loop_partial; eauto.
Qed.

(* events that do not touch the destination store *)
Lemma safe_nonstore d evs : (forall e, In e evs -> is_store_event e = false) -> safe S i d evs.
Proof.
  revert d. induction evs as [|e r IH]; simpl; intros d H; auto. split.
  - specialize (H e (or_introl eq_refl)). destruct e as [o [|]|o pb|o|dd fs|]; simpl in *; auto; discriminate.
  - apply IH. intros; apply H; auto.
Qed.
Lemma apply_dst_nonstore src evs : forall d, (forall e, In e evs -> is_store_event e = false) ->
  apply_dst src evs d = d.
Proof.
  induction evs as [|e r IH]; simpl; intros d H; auto.
  rewrite IH by (intros; apply H; auto).
  specialize (H e (or_introl eq_refl)). destruct e as [o [|]|o pb|o|dd fs|]; simpl in *; auto; discriminate.
Qed.

Record DT (evs : list event) (res : option (list oid)) : Prop := {
  dt_safe : safe S i (t_dst i) evs;
  dt_oid : forall e x, In e evs -> ev_oid e = Some x -> In x new;
  dt_failed : forall fl o, res = Some fl -> In o fl -> In o new /\ (is_dir_oid o = true \/ delivered i o = false);
  dt_files : forall fl f, res = Some fl -> In f new -> is_dir_oid f = false ->
             In f fl \/ (delivered i f = true /\ has (apply_dst (t_src i) evs (t_dst i)) f = true);
  dt_dirs : forall fl D entries, res = Some fl -> In D new -> is_dir_oid D = true ->
            find_tree i D = Some entries -> PD D entries (apply_dst (t_src i) evs (t_dst i)) fl;
  dt_trees : forall fl D, res = Some fl -> In D new -> is_dir_oid D = true ->
             exists entries, find_tree i D = Some entries;
  dt_d0 : forall o, has (t_dst i) o = true -> has (apply_dst (t_src i) evs (t_dst i)) o = true }.

Lemma do_transfer_spec :
  DT (fst (do_transfer i new missing)) (snd (do_transfer i new missing)).
Proof.
  assert (HL : LI (t_dst i) files0 []).
  { constructor; auto. intros o []. }
  assert (Hd : forall D, In D (t_dord i (filter is_dir_oid new)) -> In D new /\ is_dir_oid D = true).
  { intros D HD. apply (proj1 (Hdord _ _)) in HD. apply filter_In in HD. auto. }
  destruct (dir_loop_spec _ files0 [] (t_dst i) HL Hd) as [Hs [Ho Hfin]].
  unfold do_transfer. fold files0.
  set (r := dir_loop i missing (t_dord i (filter is_dir_oid new)) files0 []) in *.
  assert (Ho' : forall e x, In e (d_events r) -> ev_oid e = Some x -> In x new).
  { intros e x He Hx. destruct (Ho e x He Hx) as [H|H].
    - apply files0_In in H. tauto. - apply Hd in H. tauto. }
  destruct (d_ok r) eqn:Eok.
  - destruct (Hfin eq_refl) as [HLf [_ [HPf HTf]]].
    assert (Htrees : forall D, In D new -> is_dir_oid D = true -> exists entries, find_tree i D = Some entries).
    { intros D Hn Hdd. apply HTf. apply (proj2 (Hdord _ _)). apply filter_In. auto. }
    set (dL := apply_dst (t_src i) (d_events r) (t_dst i)) in *.
    assert (Hs2 : safe S i dL (add_events i (d_files r))).
    { apply safe_file_batch. apply (li_files _ _ _ HLf). }
    set (evs := d_events r ++ add_events i (d_files r)).
    assert (Hse : safe S i (t_dst i) evs) by (apply safe_app; auto).
    assert (Hoe : forall e x, In e evs -> ev_oid e = Some x -> In x new).
    { intros e x He Hx. apply in_app_or in He. destruct He as [He|He]; eauto.
      apply (add_events_oid i _ e x Hbord He) in Hx. apply (li_files _ _ _ HLf) in Hx.
      apply files0_In in Hx. tauto. }
    set (failed := add_failed i (d_files r) ++ d_failed r).
    assert (Hfl : forall o, In o failed -> In o new /\ (is_dir_oid o = true \/ delivered i o = false)).
    { intros o H. apply in_app_or in H. destruct H as [H|H].
      - apply add_failed_In in H; auto. destruct H as [H1 H2]. apply (li_files _ _ _ HLf) in H1.
        apply files0_In in H1. tauto.
      - apply (li_failed _ _ _ HLf); auto. }
    assert (Hfiles : forall f, In f new -> is_dir_oid f = false ->
               In f failed \/ (delivered i f = true /\ has (apply_dst (t_src i) evs (t_dst i)) f = true)).
    { intros f Hn Hf. assert (Hf0 : In f files0) by (apply files0_In; auto).
      unfold evs. rewrite apply_dst_app. fold dL.
      destruct (li_acc _ _ _ HLf f Hf0) as [H|[H|[H1 H2]]].
      - destruct (delivered i f) eqn:Ed.
        + right. split; auto. apply add_events_has; auto.
        + left. apply in_or_app. left. apply add_failed_In; auto.
      - left. apply in_or_app. auto.
      - right. split; auto. apply (safe_has S); auto. now apply stable_delivered. }
    assert (Hdirs : forall D entries, In D new -> is_dir_oid D = true -> find_tree i D = Some entries ->
               PD D entries (apply_dst (t_src i) evs (t_dst i)) failed).
    { intros D entries Hn Hdd HT. unfold evs. rewrite apply_dst_app. fold dL.
      apply (PD_mono D entries dL (d_failed r) (add_events i (d_files r)) failed Hs2).
      - intros o H. unfold failed. apply in_or_app. auto.
      - apply HPf; auto. apply (proj2 (Hdord _ _)). apply filter_In. auto. }
    assert (Hd0 : forall o, has (t_dst i) o = true -> has (apply_dst (t_src i) evs (t_dst i)) o = true).
    { intros o H. apply (safe_has S); auto. now apply stable_d0. }
    assert (Htail : forall tl, (forall e, In e tl -> is_store_event e = false) ->
              DT (evs ++ tl) (Some failed) ).
    { intros tl Htl.
      assert (Eap : apply_dst (t_src i) (evs ++ tl) (t_dst i) = apply_dst (t_src i) evs (t_dst i)).
      { rewrite apply_dst_app. now apply apply_dst_nonstore. }
      constructor; try rewrite Eap; auto.
      - apply safe_app. split; auto. now apply safe_nonstore.
      - intros e x He Hx. apply in_app_or in He. destruct He as [He|He]; eauto.
        apply Htl in He. destruct e; simpl in *; discriminate.
      - intros fl o E. inversion E; subst. auto.
      - intros fl f E. inversion E; subst. auto.
      - intros fl D entries E. inversion E; subst. auto. }
    fold evs. fold failed. destruct failed as [|y yl] eqn:Ef; simpl.
    + apply Htail. intros e He. destruct (t_dnoop i); [destruct He|].
      apply in_map_iff in He. destruct He as [p [<- _]]. reflexivity.
    + apply Htail. intros e [<-|[]]. reflexivity.
  - simpl. constructor; auto; try discriminate.
    intros o H. apply (safe_has S); auto. now apply stable_d0.
Qed.

End Loop.
