(* Falsy targets (Model/ObjCheckout.v checkout_rm): every key of the old tree and ROOT are deleted.
   C05_no_loss holds for every deletion order that handles ROOT LAST (what /repo 38c4abf enforces) and
   is refuted for an order with ROOT first. *)
From Coq Require Import NArith List Bool Lia.
From DvcData Require Import Base.Val Base.PyBase Gen.PyTypes Gen.ODiff Gen.Relink Gen.ObjCheckout Model.ObjCheckout Proofs.ObjCoTie Proofs.ObjCheckoutProofs.
Import ListNotations.
Open Scope N_scope.

Lemma gen_root_last : gen_delete_root_last = true.
Proof. reflexivity. Qed.

(* every file of the workspace is handled before the root entry *)
Definition covered_before_root (w0 : ws) (pre ds : list dkey) : Prop :=
  forall k n, kassoc k w0 = Some n ->
    In (DKey k) pre \/ exists ds1 ds2, ds = ds1 ++ DKey k :: ds2 /\ ~ In DRoot ds1.

Section Rm.
Variable H : bytes -> oid.
Hypothesis Hne : forall b, is_nil (H b) = false.
Variables (g : cfg) (c : cache) (w0 : ws).
Hypothesis Hst : stageable w0 = true.

Notation Inv := (Inv H g c w0).

Lemma truthy_rm k n : kassoc k w0 = Some n -> truthy_oid (c_old (mk_change H c w0 [] k)) = true.
Proof. intros E. rewrite (truthy_old_mk H Hne), Hst, E. reflexivity. Qed.

Lemma Inv_nil_of_gone w : Inv w -> (forall k n, kassoc k w0 = Some n -> kassoc k w = None) -> Inv [].
Proof.
  intros HI Hg k n Hk. right. destruct (HI k n Hk) as [E|J]; [|exact J]. rewrite (Hg k n Hk) in E. discriminate.
Qed.

Lemma guard_gone g0 k inc x : guard_step g0 k inc None = Some x -> x = None.
Proof. unfold guard_step. destruct (remove_guard _ _ _ _); intros E; try discriminate; now injection E as <-. Qed.
Lemma guard_some_gone g0 k inc m x : guard_step g0 k inc (Some m) = Some x -> x = None.
Proof.
  unfold guard_step. rewrite remove_guard_eq. unfold remove_guard_spec. simpl.
  destruct (negb (g_force g0) && negb inc)%bool; [destruct (ask g0 k) as [[|]|]|]; intros E; try discriminate;
    now injection E as <-.
Qed.

Opaque ObjCheckout.mk_change.
Lemma run_rm_Inv ric : forall ds pre w,
  Inv w -> (forall k n, In (DKey k) pre -> kassoc k w0 = Some n -> kassoc k w = None) ->
  covered_before_root w0 pre ds ->
  Inv (fst (run_rm H g c w0 ric ds w)).
Proof.
  induction ds as [|d ds IH]; intros pre w HI Hdone Hcov; simpl; [exact HI|].
  destruct d as [|k0].
  - (* the root entry: everything below it has been handled *)
    destruct (guard_step g root_key ric _) as [x|]; [|exact HI].
    assert (Hpre : forall k n, kassoc k w0 = Some n -> In (DKey k) pre).
    { intros k n Hk. destruct (Hcov k n Hk) as [Hp|[ds1 [ds2 [E Hn]]]]; [exact Hp|].
      exfalso. destruct ds1 as [|a ds1]; [discriminate|]. injection E as <- _. apply Hn. now left. }
    apply (IH (DRoot :: pre) []).
    + eapply Inv_nil_of_gone; [exact HI|]. intros k n Hk. eapply Hdone; eauto.
    + intros k n _ _. reflexivity.
    + intros k n Hk. left. right. eapply Hpre; eauto.
  - assert (Hcov' : covered_before_root w0 (DKey k0 :: pre) ds).
    { intros k n Hk. destruct (Hcov k n Hk) as [Hp|[ds1 [ds2 [E Hn]]]]; [left; now right|].
      destruct ds1 as [|a ds1].
      - injection E as <- _. left. now left.
      - injection E as <- E. right. exists ds1, ds2. split; [exact E|]. intros Hin. apply Hn. now right. }
    destruct (truthy_oid (c_old (mk_change H c w0 [] k0))) eqn:Et.
    + destruct (del_step g (mk_change H c w0 [] k0) (kassoc k0 w)) as [x|] eqn:Ed; [|exact HI].
      assert (Hx : x = None).
      { unfold del_step in Ed. destruct (kassoc k0 w); [eapply guard_some_gone|eapply guard_gone]; eauto. }
      subst x.
      apply (IH (DKey k0 :: pre)); [| |exact Hcov'].
      * apply Inv_put; [exact HI|]. intros n Hk Hc. rewrite Hc in Ed. right.
        exact (del_step_safe H g c w0 [] k0 n n None Hk Ed).
      * intros k n [E|Hin] Hk; rewrite kassoc_put.
        -- injection E as <-. now rewrite key_eqb_refl.
        -- destruct (key_eqb k k0); [reflexivity|]. eapply Hdone; eauto.
    + apply (IH (DKey k0 :: pre)); [exact HI| |exact Hcov'].
      intros k n [E|Hin] Hk; [|eapply Hdone; eauto]. injection E as <-.
      rewrite (truthy_rm k0 n Hk) in Et. discriminate.
Qed.

Transparent ObjCheckout.mk_change.

(* C05_no_loss for a falsy target, for EVERY deletion order that handles the root entry last *)
Theorem rm_no_loss ric ds k n :
  covered_before_root w0 [] ds -> kassoc k w0 = Some n ->
  kassoc k (r_ws (checkout_rm H g c w0 ric ds)) = Some n \/ justified H g c k n.
Proof.
  intros Hcov Hk. revert k n Hk. change (Inv (r_ws (checkout_rm H g c w0 ric ds))).
  assert (H0 : Inv w0) by (intros q m Hq; now left).
  unfold checkout_rm. destruct (stageable w0 && negb (is_nil w0))%bool; [|exact H0].
  destruct (is_nil (g_links g)); [exact H0|].
  pose proof (run_rm_Inv ric ds [] w0 H0 (fun k n Hin _ => match Hin with end) Hcov) as H1.
  destruct (run_rm H g c w0 ric ds w0) as [w1 [p|]]; exact H1.
Qed.

End Rm.

(* the same statement WITHOUT "root last" is refuted by the faithful model: with the root entry handled
   first (as set iteration order could have it before /repo 38c4abf) and the old tree's .dir object in the
   cache, an unforced, unprompted checkout removes an uncached file *)
Theorem rm_no_loss_refuted_root_first :
  exists (H : bytes -> oid) g c w ric ds k n,
    kassoc k w = Some n /\ (forall q m, kassoc q w = Some m -> In (DKey q) ds) /\
    ~ (kassoc k (r_ws (checkout_rm H g c w ric ds)) = Some n \/ justified H g c k n).
Proof.
  exists (fun b => 1 :: b), (mk_cfg false false None [copy_name] [LCopy] false 9), [([1; 65], mk_cobj [65] 1 1 1)],
         [([[97]], mk_fnode [65] false None false 0 1 2); ([[115]; [98]], mk_fnode [85] false None false 0 1 3)],
         true, [DRoot; DKey [[97]]; DKey [[115]; [98]]], [[115]; [98]], (mk_fnode [85] false None false 0 1 3).
  split; [reflexivity|]. split.
  - intros q m. simpl. destruct (key_eqb q [[97]]) eqn:E1; [apply key_eqb_spec in E1; subst; auto|].
    destruct (key_eqb q [[115]; [98]]) eqn:E2; [apply key_eqb_spec in E2; subst; auto|]. discriminate.
  - intros [E|[E|[[co E]|[f [E _]]]]]; vm_compute in E; discriminate.
Qed.
