(* C17 - the statements behind Properties/C17.v, with their non-vacuity examples. *)
From Coq Require Import NArith PeanoNat List Bool Lia.
From DvcData Require Import Base.Val Model.IndexLoad Proofs.IndexLoadBase Proofs.IndexLoadProofs Proofs.IndexLoadMore.
Import ListNotations.
Open Scope N_scope.

Lemma step_vsim E o : vsim E o.
Proof.
  destruct o as [k|p sh|k|k|oth|p|p|p|f|f k|h|h].
  - eapply (sim_vsim E (fun i => get_step E i k) enc_get); [reflexivity | apply get_sim].
  - eapply (sim_vsim E (fun i => items_step E i p sh) enc_items); [reflexivity | apply items_sim_all].
  - eapply (sim_vsim E (fun i => ls_step E i k) enc_ls); [reflexivity | apply ls_sim].
  - eapply (sim_vsim E (fun i => get_step E i k) (enc_res enc_info)); [reflexivity | apply get_sim].
  - eapply (sim_vsim E (fun i => diff_step E i oth)); [reflexivity | apply diff_sim].
  - eapply (sim_vsim E (fun i => fs_ls_step E i p)); [reflexivity | apply fs_ls_sim].
  - eapply (sim_vsim E (fun i => fs_info_step E i p)); [reflexivity | apply fs_info_sim].
  - eapply (sim_vsim E (fun i => fs_read_step E i p)); [reflexivity | apply fs_read_sim].
  - eapply (sim_vsim E (fun i => view_items_step E i f) enc_items); [reflexivity | apply view_items_sim].
  - eapply (sim_vsim E (fun i => view_ls_step E i f k) enc_ls); [reflexivity | apply view_ls_sim].
  - eapply (sim_vsim E (fun i => (i, Ok tt)) (fun _ => VL [])); [reflexivity | apply sim_ret].
  - eapply (sim_vsim E (fun i => (i, Ok tt)) (fun _ => VL [])); [reflexivity | apply sim_ret].
Qed.

Theorem transparent E : forall ops i,
  ok E i -> wf E i ->
  answers E i ops = answers E (load_all E i) ops /\ fst (run E (load_all E i) ops) = load_all E i.
Proof.
  unfold answers. induction ops as [|o ops IH]; intros i Hok Hwf; [split; reflexivity|].
  destruct (step_vsim E o i Hok Hwf) as [[s G1] [G2 G3]].
  simpl. destruct (step E i o) as [i1 a] eqn:Ea. destruct (step E (load_all E i) o) as [j1 b] eqn:Eb.
  simpl in G1, G2, G3. subst i1 j1 b.
  destruct (IH (load_where E s i) (ok_load_where E s i Hok) (wf_load_where E s i Hok Hwf)) as [I1 I2].
  rewrite load_all_absorbs in I1, I2.
  destruct (run E (load_where E s i) ops) as [i2 l]. destruct (run E (load_all E i) ops) as [j2 l'].
  simpl in *. subst. split; reflexivity.
Qed.

(* the lazy run only ever loads: its final state is a partial load of the initial one, and
   loading the rest gives the fully loaded index *)
Theorem run_loads_only E : forall ops i, ok E i -> wf E i ->
  load_all E (fst (run E i ops)) = load_all E i.
Proof.
  induction ops as [|o ops IH]; intros i Hok Hwf; [reflexivity|].
  destruct (step_vsim E o i Hok Hwf) as [[s G1] _].
  simpl. destruct (step E i o) as [i1 a]. simpl in G1. subst i1.
  specialize (IH (load_where E s i) (ok_load_where E s i Hok) (wf_load_where E s i Hok Hwf)).
  destruct (run E (load_where E s i) ops) as [i2 l]. simpl in *. now rewrite IH, load_all_absorbs.
Qed.

(* ---- loading is idempotent ---- *)
Theorem load_all_idem E i : load_all E (load_all E i) = load_all E i.
Proof. apply load_all_absorbs. Qed.
Theorem load_idem E k i : load E k (load E k i) = load E k i.
Proof. apply load_where_idem. Qed.
Theorem load_then_all E k i : load_all E (load E k i) = load_all E i.
Proof. apply load_all_absorbs. Qed.
Theorem loaded_is_fixed E s i : ok E i -> load_where E s (load_all E i) = load_all E i.
Proof. apply load_where_full. Qed.

(* ---- the filtered view ---- *)
Definition prefix_closed (f : key -> bool) : Prop :=
  forall a b, a <> [] -> f (a ++ b) = true -> f a = true.

Lemma inits_ne_in k a : In a (inits_ne k) -> a <> [] /\ exists b, k = a ++ b.
Proof.
  revert a; induction k as [|x k IH]; intros a; simpl; [intros []|].
  intros [<-|H]; [split; [discriminate | now exists k]|].
  apply in_map_iff in H as [a' [<- H]]. destruct (IH a' H) as [_ [b ->]].
  split; [discriminate | now exists b].
Qed.
Lemma inits_ne_self k : k <> [] -> In k (inits_ne k).
Proof.
  induction k as [|x k IH]; [congruence|]. intros _. simpl.
  destruct k as [|y k]; [now left|]. right. apply in_map. apply IH. discriminate.
Qed.
Lemma pathok_closed f k : prefix_closed f -> k <> [] -> pathok f k = f k.
Proof.
  intros PC NE. unfold pathok. destruct k as [|x k]; [congruence|].
  destruct (f (x :: k)) eqn:Fk.
  - apply forallb_forall. intros a Ha. destruct (inits_ne_in _ _ Ha) as [NA [b Hb]].
    apply (PC a b NA). now rewrite <- Hb.
  - apply not_true_is_false. intros C. rewrite forallb_forall in C.
    rewrite (C (x :: k)) in Fk; [discriminate | apply inits_ne_self; discriminate].
Qed.

Lemma filter_map_pair {B} (f : key -> bool) (h : key -> B) l :
  filter (fun c : key * B => f (fst c)) (map (fun k => (k, h k)) l) = map (fun k => (k, h k)) (filter f l).
Proof. induction l as [|a l IH]; [reflexivity|]. simpl. destruct (f a); simpl; now rewrite IH. Qed.

(* the view never yields the entry at the root key; every other key is yielded exactly when it passes the filter *)
Definition vf (f : key -> bool) : key -> bool := fun k => match k with [] => false | _ => f k end.

Theorem view_is_filter f i : prefix_closed f ->
  view_items_q f i = filter_res (fun c : key * option entry => vf f (fst c)) (items_q [] false i).
Proof.
  intros PC. unfold view_items_q, items_q, filter_res. f_equal. simpl.
  assert (forall k, pathok f k = vf f k) as HH.
  { intros k. destruct k as [|a t]; [reflexivity|]. apply (pathok_closed f (a :: t) PC). discriminate. }
  match goal with |- context [filter (pathok f) ?l] => rewrite (filter_ext (pathok f) (vf f) HH l) end.
  assert (forall (l : list key), filter (fun _ => true) l = l) as FT.
  { induction l as [|a l IH]; [reflexivity|]. simpl. now rewrite IH. }
  rewrite FT, usort_keys_filter.
  symmetry. apply (filter_map_pair (vf f)).
Qed.

(* on the fully loaded index the view iteration is the filtered iteration, as operations *)
Theorem view_step_is_filter E f i : ok E i -> wf E i -> prefix_closed f ->
  snd (view_items_step E (load_all E i) f) =
  filter_res (fun c : key * option entry => vf f (fst c)) (snd (items_step E (load_all E i) [] false)).
Proof.
  intros Hok Hwf PC. unfold view_items_step. rewrite guarded_full by assumption.
  rewrite items_full by assumption. simpl.
  now apply view_is_filter.
Qed.

(* ---- the fs adaptor: paths and keys ---- *)
Definition valid_name (n : name) : Prop :=
  n <> [] /\ n <> dot /\ n <> dotdot /\ ~ In slash n.
Definition valid_key (k : key) : Prop := Forall valid_name k.

Lemma split_noslash n : ~ In slash n -> split_on slash n = [n].
Proof.
  induction n as [|c n IH]; intros H; [reflexivity|]. unfold split_on in *. simpl.
  destruct (N.eqb c slash) eqn:Q; [apply N.eqb_eq in Q; exfalso; apply H; now left|].
  rewrite IH by (intros C; apply H; now right). reflexivity.
Qed.
Lemma split_app n r : ~ In slash n -> split_on slash (n ++ slash :: r) = n :: split_on slash r.
Proof.
  induction n as [|c n IH]; intros H.
  - unfold split_on. simpl. reflexivity.
  - unfold split_on in *. simpl. destruct (N.eqb c slash) eqn:Q; [apply N.eqb_eq in Q; exfalso; apply H; now left|].
    rewrite IH by (intros C; apply H; now right). reflexivity.
Qed.
Lemma split_join k : valid_key k -> k <> [] -> split_on slash (join_sep slash k) = k.
Proof.
  induction k as [|x k IH]; intros V NE; [congruence|].
  inversion V as [|? ? [_ [_ [_ Vx]]] Vk]; subst.
  destruct k as [|y k]; [simpl; now apply split_noslash|].
  change (join_sep slash (x :: y :: k)) with (x ++ slash :: join_sep slash (y :: k)).
  rewrite split_app by assumption. f_equal. apply IH; [assumption | discriminate].
Qed.
Lemma norm_go acc k : valid_key k ->
  fold_left (fun acc c => if list_N_eqb c [] || list_N_eqb c dot then acc
                          else if list_N_eqb c dotdot then removelast acc else acc ++ [c]) k acc = acc ++ k.
Proof.
  revert acc; induction k as [|x k IH]; intros acc V; simpl; [now rewrite app_nil_r|].
  inversion V as [|? ? [V1 [V2 [V3 _]]] Vk]; subst.
  assert (list_N_eqb x [] = false) as -> by (apply not_true_is_false; intros C; apply list_N_eqb_spec in C; contradiction).
  assert (list_N_eqb x dot = false) as -> by (apply not_true_is_false; intros C; apply list_N_eqb_spec in C; contradiction).
  assert (list_N_eqb x dotdot = false) as -> by (apply not_true_is_false; intros C; apply list_N_eqb_spec in C; contradiction).
  simpl. rewrite IH by assumption. now rewrite <- app_assoc.
Qed.

Theorem fs_key_of_path k : valid_key k -> fs_key (path_of_key k) = k.
Proof.
  intros V. unfold fs_key, path_of_key, norm_comps.
  destruct k as [|x k].
  - reflexivity.
  - change (slash :: join_sep slash (x :: k)) with ([] ++ slash :: join_sep slash (x :: k)).
    rewrite split_app by (intros []). rewrite split_join by (assumption || discriminate).
    simpl fold_left at 1. simpl. apply (norm_go [] (x :: k) V).
Qed.

(* two valid keys with the same path are the same key; every valid key is the key of its path *)
Theorem path_injective k1 k2 : valid_key k1 -> valid_key k2 -> path_of_key k1 = path_of_key k2 -> k1 = k2.
Proof. intros V1 V2 H. rewrite <- (fs_key_of_path k1 V1), <- (fs_key_of_path k2 V2). now rewrite H. Qed.

(* reading through the adaptor returns the bytes stored under the entry's hash *)
Theorem fs_read_bytes E i p e h b : ok E i ->
  get_q (fs_key p) (load_all E i) = Ok (Some e) -> isdir_raw (norm e) = false ->
  under_sp E (fs_key p) = true -> e_hash e = Some h -> hi_truthy (Some h) = true ->
  blob_of E h = Some b ->
  snd (fs_read_step E (load_all E i) p) = Ok b.
Proof.
  intros Hok G D U H T B. unfold fs_read_step, get_step. rewrite guarded_full by assumption.
  simpl. rewrite G, D, U, H, T. simpl. now rewrite B.
Qed.

(* which storage serves a read: the first one, in the adaptor's order cache, remote, data, that holds
   the object; a read fails only if no registered storage holds it *)
Lemma first_some_spec {A B} (f : A -> option B) l b : first_some f l = Some b ->
  exists pre a post, l = pre ++ Some a :: post /\ f a = Some b /\
                     forall a', In (Some a') pre -> f a' = None.
Proof.
  induction l as [|[a|] l IH]; simpl; [discriminate| |].
  - destruct (f a) as [b'|] eqn:Fa.
    + intros [= ->]. exists [], a, l. repeat split; [assumption | intros ? []].
    + intros H. destruct (IH H) as [pre [a0 [post [-> [H1 H2]]]]].
      exists (Some a :: pre), a0, post. repeat split; [assumption|].
      intros a' [[= <-]|Hin]; [assumption | now apply H2].
  - intros H. destruct (IH H) as [pre [a0 [post [-> [H1 H2]]]]].
    exists (None :: pre), a0, post. repeat split; [assumption|].
    intros a' [C|Hin]; [discriminate | now apply H2].
Qed.
Lemma first_some_none {A B} (f : A -> option B) l :
  first_some f l = None <-> forall a, In (Some a) l -> f a = None.
Proof.
  induction l as [|[a|] l IH]; simpl.
  - split; [intros _ ? [] | reflexivity].
  - destruct (f a) eqn:Fa.
    + split; [discriminate|]. intros H. rewrite (H a) in Fa; [discriminate | now left].
    + rewrite IH. split; [intros H a' [[= <-]|Hin]; auto | intros H a' Hin; apply H; now right].
  - rewrite IH. split; [intros H a' [C|Hin]; [discriminate|auto] | intros H a' Hin; apply H; now right].
Qed.

Theorem blob_first E h b : blob_of E h = Some b ->
  exists pre st post, roles_read E = pre ++ Some st :: post /\ assoc (s_blobs st) h = Some b /\
                      forall st', In (Some st') pre -> assoc (s_blobs st') h = None.
Proof. apply first_some_spec. Qed.

Theorem blob_any E h st : In (Some st) (roles_read E) -> assoc (s_blobs st) h <> None ->
  exists b, blob_of E h = Some b.
Proof.
  intros Hin NE. destruct (blob_of E h) as [b|] eqn:Q; [now exists b|].
  exfalso. apply NE. unfold blob_of in Q. rewrite first_some_none in Q. now apply Q.
Qed.

Theorem blob_none E h : blob_of E h = None <->
  forall st, In (Some st) (roles_read E) -> assoc (s_blobs st) h = None.
Proof. apply first_some_none. Qed.

(* ---- non-vacuity: a concrete lazy index ---- *)
Definition ex_h1 : oid := [97].
Definition ex_h2 : oid := [98].
Definition ex_d : oid := [100; 46; 100; 105; 114].
Definition ex_env : env :=
  {| v_sp := Some [];
     v_data := None;
     v_cache := Some {| s_dirs := [(ex_d, [Rw [[120]] ex_h1 None false; Rw [[115]; [121]] ex_h2 (Some 2) true])];
                        s_blobs := [(ex_h1, [1; 2])] |};
     v_remote := Some {| s_dirs := []; s_blobs := [(ex_h1, [1; 2]); (ex_h2, [3])] |};
     v_hidden := []; v_swallow := false |}.
Definition ex_idx : idx :=
  [([[100]], En true None false (Some ex_d) false); ([[102]], E0 (Some ex_h1) false)].
Definition ex_ops : list op :=
  [OInfo [[100]; [115]]; OItems [] false; OLs [[100]]; OFsRead [47; 100; 47; 115; 47; 121];
   OViewItems (f_anc [[100]; [115]]); OGet [[100]; [110]];
   ODiff [([[100]], En true None false None true); ([[100]; [120]], En false None false (Some ex_h2) false)];
   OItems [] true].

Lemma ex_ok : ok ex_env ex_idx.
Proof.
  intros x [<-|[<-|[]]] L; simpl in *; [|discriminate]. vm_compute. discriminate.
Qed.
Lemma ex_wf : wf ex_env ex_idx.
Proof.
  intros x y [<-|[<-|[]]] [<-|[<-|[]]] L P; try reflexivity; vm_compute in L, P; discriminate.
Qed.
Example ex_nontrivial :
  length (load_all ex_env ex_idx) = 5%nat /\
  nth 3 (answers ex_env ex_idx ex_ops) (VN 0) = VL [VN 1; VB [3]] /\
  fst (run ex_env ex_idx [OGet [[102]]]) = ex_idx /\
  length (fst (run ex_env ex_idx ex_ops)) = 5%nat.
Proof. vm_compute. repeat split. Qed.
Example ex_transparent : answers ex_env ex_idx ex_ops = answers ex_env (load_all ex_env ex_idx) ex_ops.
Proof. apply transparent; [apply ex_ok | apply ex_wf]. Qed.
Example ex_prefix_closed : prefix_closed (f_anc [[100]; [115]]).
Proof.
  intros a b NA H. unfold f_anc in *. apply orb_true_iff in H as [H|H]; apply orb_true_iff.
  - left. eapply is_prefix_trans; [apply is_prefix_app | exact H].
  - destruct (prefix_of_app _ _ _ H); [now right | now left].
Qed.
Example ex_valid_key : valid_key [[100]; [115]; [121]] /\ path_of_key [[100]; [115]; [121]] = [47; 100; 47; 115; 47; 121].
Proof.
  split; [|reflexivity]. repeat constructor; try discriminate; intros [C|[]]; discriminate.
Qed.
(* the explicit construction and the loaded index have the same (key, is-directory, file hash) *)
Example ex_explicit : project (load_all ex_env ex_idx) = project (explicit ex_env ex_idx) /\
                      length (project (explicit ex_env ex_idx)) = 5%nat.
Proof. vm_compute. split; reflexivity. Qed.
(* the diff of the example reports a modification of d/x and the deletion of d/s/y and f *)
Example ex_diff_answer :
  match nth 6 (answers ex_env ex_idx ex_ops) (VN 0) with
  | VL [VN 1; VL l] => length l = 4%nat
  | _ => False
  end.
Proof. vm_compute. reflexivity. Qed.

(* in the example the object of d/s/y is absent from the cache and served by the remote *)
Example ex_fallthrough :
  blob_of ex_env ex_h2 = Some [3] /\
  (match v_cache ex_env with Some c => assoc (s_blobs c) ex_h2 | None => None end) = None.
Proof. vm_compute. split; reflexivity. Qed.
