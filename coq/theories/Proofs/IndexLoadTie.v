(* IndexLoadTie.v - the loading rules of Model/IndexLoad.v ARE those of index/index.py as the
   translator reads them from /repo on every run (Gen/IdxLoad.v, unit "idxload"):

     loadable            = the chain of `if <test>: return` guards of DataIndex._load
     roles_load          = the order in which _load_from_storage tries the roles
     proper_inits        = the ancestor loop of _load_from_object_storage
                           (`if len(ikey) >= 2: for idx in range(1, len(ikey)): dirs.add(ikey[:-idx])`)
     listing_of <> None  -> the refusal guard of _load_from_object_storage did not fire
     dir_entry/file_entry = the two DataIndexEntry constructors

   An edit of the source (only the immediate parent gets an entry, a guard dropped or reordered into
   a different condition, cache tried before data, a directory entry created unloaded ...) either
   fails the translation or changes a generated definition and breaks these proofs. *)
From Coq Require Import NArith List Bool Arith Lia.
From DvcData Require Import Base.Val Model.IndexLoad Gen.IdxLoad.
Import ListNotations.

Definition role_store (E : env) (r : role) : option store :=
  match r with RData => v_data E | RCache => v_cache E | RRemote => v_remote E end.

Lemma roles_load_is_source_order : forall E, roles_load E = map (role_store E) load_roles.
Proof. reflexivity. Qed.

Definition has_meta (e : entry) : bool := match e_meta e with Some _ => true | None => false end.

Lemma loadable_is_source_guard :
  forall E k e,
    loadable E (k, e) = load_proceeds (e_loaded e) (has_meta e) (isdir_raw e) (under_sp E k).
Proof.
  intros E k e. unfold loadable, load_proceeds, load_skips, has_meta, isdir_raw. cbn [fst snd].
  destruct (e_loaded e), (e_meta e) as [m|]; [destruct (m_dir m)| |destruct (m_dir m)|];
    destruct (under_sp E k); reflexivity.
Qed.

(* _ensure_loaded's test is the same condition (without the storage lookup, which _load repeats) *)
Lemma ensure_loaded_is_guard :
  forall loaded hm isd st,
    load_proceeds loaded hm isd st = ensure_loaded_test true hm isd loaded && st.
Proof. intros [] [] [] []; reflexivity. Qed.

(* ---- the ancestor loop ---- *)
Lemma in_proper_inits :
  forall (k p : key), In p (proper_inits k) <-> exists n, (1 <= n < length k)%nat /\ p = firstn n k.
Proof.
  induction k as [|x r IH]; intro p.
  - cbn. split; [tauto|]. intros (n & Hn & _). cbn in Hn. lia.
  - destruct r as [|y r'].
    + cbn. split; [tauto|]. intros (n & Hn & _). lia.
    + change (proper_inits (x :: y :: r')) with ([x] :: map (cons x) (proper_inits (y :: r'))).
      cbn [In]. rewrite in_map_iff. split.
      * intros [E | (q & E & Hq)].
        -- exists 1%nat. cbn [length]. split; [lia|]. subst p. reflexivity.
        -- apply IH in Hq. destruct Hq as (m & Hm & Eq). exists (S m). cbn [length] in *.
           split; [lia|]. subst p q. reflexivity.
      * intros (n & Hn & E). destruct n as [|m]; [lia|]. destruct m as [|m'].
        -- left. subst p. reflexivity.
        -- right. exists (firstn (S m') (y :: r')). split; [subst p; reflexivity|].
           apply IH. exists (S m'). cbn [length] in *. split; [lia|reflexivity].
Qed.

Lemma in_ancestors :
  forall (k p : key), In p (ancestors k) <-> exists n, (1 <= n < length k)%nat /\ p = firstn n k.
Proof.
  intros k p. unfold ancestors, gen_ancestors, anc_min_len, anc_from.
  destruct (Nat.leb 2 (length k)) eqn:L.
  - apply Nat.leb_le in L. rewrite in_map_iff. split.
    + intros (idx & E & Hi). apply in_seq in Hi. exists (length k - idx)%nat. split; [lia|auto].
    + intros (n & Hn & E). exists (length k - n)%nat. split.
      * subst p. f_equal. lia.
      * apply in_seq. lia.
  - apply Nat.leb_gt in L. cbn [In]. split; [tauto|]. intros (n & Hn & _). lia.
Qed.

Theorem proper_inits_is_source_ancestors :
  forall (k p : key), In p (proper_inits k) <-> In p (ancestors k).
Proof. intros. rewrite in_proper_inits, in_ancestors. tauto. Qed.

(* the directory keys [children] creates are exactly those the source's loop collects *)
Corollary children_dirs_are_source_dirs :
  forall (rows : list lrow) (p : key),
    In p (flat_map (fun r => proper_inits (r_key r)) rows) <->
    In p (flat_map (fun r => ancestors (r_key r)) rows).
Proof.
  intros rows p. rewrite !in_flat_map. split; intros (r & Hr & Hp); exists r; split; auto;
    apply proper_inits_is_source_ancestors; exact Hp.
Qed.

(* ---- the refusal guard and the constructors ---- *)
Lemma listing_needs_source_guard :
  forall E e, listing_of E e <> None ->
    ols_refuses (hi_truthy (e_hash e)) (hi_isdir (e_hash e)) = false.
Proof.
  intros E e. unfold listing_of, ols_refuses.
  destruct (e_hash e) as [h|]; [|intro C; exfalso; apply C; reflexivity].
  destruct (hi_isdir (Some h)) eqn:D; cbn [andb].
  - intros _. destruct h as [|c v]; [cbn in D; discriminate|]. reflexivity.
  - intro C. exfalso. apply C. reflexivity.
Qed.

Lemma entry_constructors_are_source :
  e_loaded dir_entry = dir_entry_loaded /\ isdir_raw dir_entry = dir_entry_isdir /\
  hi_truthy (e_hash dir_entry) = dir_entry_has_hash /\
  (forall r, e_loaded (file_entry r) = child_loaded) /\
  (forall r, e_hash (file_entry r) = Some (r_hash r)).
Proof. repeat split. Qed.

Lemma source_load_facts :
  load_roles = [RData; RCache; RRemote] /\ load_role_skips_unset = true /\
  load_role_failure_tries_next = true /\ load_on_failure = CallOnerrorAndReturn /\
  load_marks_loaded_after_success = true /\ anc_min_len = 2%nat /\ anc_from = 1%nat /\
  (forall b, iter_loads_longest_prefix b = b) /\ iter_loads_each = true /\
  load_is_shallow_iteration = true /\ getitem_loads_longest_prefix_on_miss = true /\
  files_before_dirs = true.
Proof. repeat split; intros []; reflexivity. Qed.
