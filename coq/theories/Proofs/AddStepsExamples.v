(* Concrete instances for C15: the refutation witness of the re-run through add(check_exists=True)
   and satisfiability examples.  Instance: contents are identified by their digest (bytes := oid,
   H := identity), [1] is the empty content, no directory listings. *)
From Coq Require Import NArith List Bool.
From DvcData Require Import Base.Val Model.AddSteps Proofs.AddStepsProofs Proofs.AddStepsProgs Proofs.AddStepsRecover Proofs.AddStepsVerify Proofs.AddStepsRecoverVerify Proofs.AddStepsMulti Proofs.AddStepsMultiRecover Proofs.AddStepsVMulti Proofs.AddStepsVTransfer.
Import ListNotations.
Open Scope N_scope.

Definition xH (b : oid) : oid := b.
Definition xE : oid := [1].
Definition xK (tab : list (oid * list oid)) := kids_tab tab.
Definition w_empty : world oid := mkW [] [] [] None.

Lemma inv_w_empty K : inv oid xH K w_empty.
Proof.
  repeat split; unfold prot_ok, rows_ok, closed, pend_ok, obj, row; simpl; intros; discriminate.
Qed.

(* index.save of one file with content [2] (oid [2]) into an empty local store *)
Definition x_files : list (oid * oid) := [([2], [2])].
Definition x_prog := save_prog oid xE (fun b => b) 0 x_files [].

(* the uninterrupted run: the object is there, matches, is protected and vouched for *)
Example x_full_run :
  enc_world (run oid xE (x_prog w_empty) w_empty) =
  VL [VL [VL [VB [2]; VB [2]; VN 1]]; VL []; VL [VL [VB [2]; VB [2]]]].
Proof. vm_compute. reflexivity. Qed.

Example x_full_valid : valid_trace oid xH (xK []) xE (x_prog w_empty) w_empty = true.
Proof. vm_compute. reflexivity. Qed.

(* crash after 3 steps = [Mkdir; Probe [2]] done, ProbeClean not yet: the empty probe file is left *)
Definition x_crashed := crash oid (run oid xE (firstn 2 (x_prog w_empty)) w_empty).
Example x_crashed_is :
  enc_world x_crashed = VL [VL [VL [VB [2]; VB [1]; VN 0]]; VL []; VL []].
Proof. vm_compute. reflexivity. Qed.
(* the crashed store itself is fine: the leftover is unprotected and not vouched for *)
Example x_crashed_inv : crash_inv_b oid xH (xK []) x_crashed = true.
Proof. vm_compute. reflexivity. Qed.

(* the re-run of the same save: add(check_exists=True) skips the copy, protects, records *)
Example x_rerun_prog :
  steps_eqb (x_prog x_crashed) [Chmod [2]; StateSave [([2], [2])]] = true.
Proof. vm_compute. reflexivity. Qed.
Example x_rerun_invalid : valid_trace oid xH (xK []) xE (x_prog x_crashed) x_crashed = false.
Proof. vm_compute. reflexivity. Qed.
Example x_rerun_result :
  enc_world (run oid xE (x_prog x_crashed) x_crashed) =
  VL [VL [VL [VB [2]; VB [1]; VN 1]]; VL []; VL [VL [VB [2]; VB [2]]]].
Proof. vm_compute. reflexivity. Qed.

Lemma x_rerun_not_crash_inv :
  ~ crash_inv oid xH (xK []) (run oid xE (x_prog x_crashed) x_crashed).
Proof.
  intros [Hp _].
  specialize (Hp [2] (mkF [1] true)).
  assert (Ho : obj oid (run oid xE (x_prog x_crashed) x_crashed) [2] = Some (mkF [1] true))
    by (vm_compute; reflexivity).
  specialize (Hp Ho eq_refl). unfold named_ok, xH in Hp. simpl in Hp. discriminate.
Qed.

Lemma x_rerun_not_store_eq :
  ~ store_eq oid (run oid xE (x_prog x_crashed) x_crashed) (run oid xE (x_prog w_empty) w_empty).
Proof.
  intros He. specialize (He [2]). vm_compute in He. discriminate.
Qed.

(* the same crash healed by the existence query (the transfer path): the leftover is dropped *)
Example x_heal_drops :
  enc_world (heal oid xH xE [[2]] x_crashed) = VL [VL []; VL []; VL []].
Proof. vm_compute. reflexivity. Qed.

(* a non-trivial valid trace: stage+transfer of files [2],[3] and the directory object [4].dir
   listing them, into a store that already holds [3] unprotected and unvouched *)
Definition y_kids := [([4], [[2]; [3]])].
Definition y_dir : oid * oid := ([4; 46; 100; 105; 114], [4]).
Definition y_w0 : world oid := mkW [([3], mkF [3] false)] [] [] None.
Definition y_prog :=
  transfer_prog oid xH xE (fun b => 112 :: b) true 0 [[3]; [4; 46; 100; 105; 114]; [2]]
                [([2], [2]); ([3], [3])] y_dir.
Example y_valid : valid_trace oid xH (xK y_kids) xE (y_prog y_w0) y_w0 = true.
Proof. vm_compute. reflexivity. Qed.
Example y_len : length (y_prog y_w0) = 21%nat.
Proof. vm_compute. reflexivity. Qed.
Example y_all_prefixes :
  forallb (crash_inv_b oid xH (xK y_kids)) (prefix_states oid xE (y_prog y_w0) y_w0) = true.
Proof. vm_compute. reflexivity. Qed.
Example y_final :
  enc_objs (run oid xE (y_prog y_w0) y_w0) =
  VL [VL [VB [2]; VB [2]; VN 1]; VL [VB [3]; VB [3]; VN 1];
      VL [VB [4; 46; 100; 105; 114]; VB [4]; VN 1]].
Proof. vm_compute. reflexivity. Qed.
Lemma inv_y_w0 : inv oid xH (xK y_kids) y_w0.
Proof.
  split; [|split; [|split]].
  - intros o f Ho Hp. unfold obj in Ho. simpl in Ho.
    destruct (list_N_eqb o [3]); [injection Ho as <-; discriminate | discriminate].
  - intros o f v Ho Hr. unfold row in Hr. simpl in Hr. discriminate.
  - intros d f Ho Hd. unfold obj in Ho. simpl in Ho.
    destruct (list_N_eqb d [3]) eqn:E; [|discriminate].
    apply list_N_eqb_spec in E. subst d. vm_compute in Hd. discriminate.
  - intros p Hp. simpl in Hp. discriminate.
Qed.

(* ---- the refutation, packaged: every hypothesis of the restricted theorem holds except
   "no probe pending at the crash point" ---- *)
Lemma x_files_ok : files_ok oid xH x_files.
Proof. intros it [<-|[]]. split; vm_compute; reflexivity. Qed.
Lemma x_all_ok : all_ok oid xH w_empty.
Proof. intros o f Ho. unfold obj in Ho. simpl in Ho. discriminate. Qed.
Lemma x_pending : w_pend (run oid xE (firstn 2 (x_prog w_empty)) w_empty) = Some [2].
Proof. vm_compute. reflexivity. Qed.

Lemma recover_check_exists_refuted :
  exists (files : list (oid * oid)) (w0 : world oid) (n : nat),
    inv oid xH (xK []) w0 /\ w_pend w0 = None /\ all_ok oid xH w0 /\ files_ok oid xH files /\
    let p := save_prog oid xE (fun b => b) 0 files [] in
    let wc := crash oid (run oid xE (firstn n (p w0)) w0) in
    crash_inv oid xH (xK []) wc /\
    ~ crash_inv oid xH (xK []) (run oid xE (p wc) wc) /\
    ~ store_eq oid (run oid xE (p wc) wc) (run oid xE (p w0) w0).
Proof.
  exists x_files, w_empty, 2%nat.
  split; [apply inv_w_empty|]. split; [reflexivity|]. split; [apply x_all_ok|]. split; [apply x_files_ok|].
  split; [|split].
  - apply crash_inv_b_sound. exact x_crashed_inv.
  - exact x_rerun_not_crash_inv.
  - exact x_rerun_not_store_eq.
Qed.

(* satisfiability of the hypotheses of the scenario theorems by a non-trivial instance *)
Definition y_files : list (oid * oid) := [([2], [2]); ([3], [3])].
Lemma y_files_ok : files_ok oid xH y_files.
Proof. intros it [<-|[<-|[]]]; split; vm_compute; reflexivity. Qed.
Lemma y_dir_ok : dir_ok oid xH (xK y_kids) y_files y_dir.
Proof.
  split; [vm_compute; reflexivity|]. split; [vm_compute; reflexivity|].
  intros k Hk. vm_compute in Hk. destruct Hk as [<-|[<-|[]]]; simpl; auto.
Qed.
Lemma y_requested : requested oid y_files y_dir [[3]; [4; 46; 100; 105; 114]; [2]].
Proof.
  intros o. simpl. split.
  - intros [<-|[<-|[<-|[]]]]; auto.
  - intros [->|[<-|[<-|[]]]]; auto.
Qed.
Lemma y_kids_empty : xK y_kids xE = [].
Proof. vm_compute. reflexivity. Qed.
(* the collision-freeness hypothesis of the recover theorems is satisfiable: contents = numbers,
   digest of n = the one-character name [n] *)
Lemma z_inj : forall b b' : N, base ((fun n : N => [n]) b) = base ((fun n : N => [n]) b') -> b = b'.
Proof.
  intros b b'. simpl. destruct (N.eqb b 46) eqn:E1, (N.eqb b' 46) eqn:E2; intros Hb.
  - apply N.eqb_eq in E1, E2. congruence.
  - discriminate.
  - discriminate.
  - congruence.
Qed.

(* ---- one instance satisfying ALL hypotheses of the recover theorems at once (contents = numbers,
   digest of n = [n]; 4 is a listing of [2] and [3]; the store already holds [3] unprotected) ---- *)
Definition zH (n : N) : oid := [n].
Definition zK (n : N) : list oid := if N.eqb n 4 then [[2]; [3]] else [].
Definition z_files : list (oid * N) := [([2], 2); ([3], 3)].
Definition z_dir : oid * N := ([4; 46; 100; 105; 114], 4).
Definition z_w0 : world N := mkW [([3], mkF 3 false)] [] [] None.
Definition z_qs : list oid := [[3]; [4; 46; 100; 105; 114]; [2]].
Lemma z_inv : inv N zH zK z_w0.
Proof.
  split; [|split; [|split]].
  - intros o f Ho Hp. unfold obj in Ho. simpl in Ho.
    destruct (list_N_eqb o [3]); [injection Ho as <-; discriminate | discriminate].
  - intros o f v Ho Hr. unfold row in Hr. simpl in Hr. discriminate.
  - intros d f Ho Hd. unfold obj in Ho. simpl in Ho.
    destruct (list_N_eqb d [3]) eqn:E; [|discriminate].
    apply list_N_eqb_spec in E. subst d. vm_compute in Hd. discriminate.
  - intros p Hp. simpl in Hp. discriminate.
Qed.
Lemma z_files_ok : files_ok N zH z_files.
Proof. intros it [<-|[<-|[]]]; split; vm_compute; reflexivity. Qed.
Lemma z_dir_ok : dir_ok N zH zK z_files z_dir.
Proof.
  split; [vm_compute; reflexivity|]. split; [vm_compute; reflexivity|].
  intros k Hk. vm_compute in Hk. destruct Hk as [<-|[<-|[]]]; simpl; auto.
Qed.
Lemma z_requested : requested N z_files z_dir z_qs.
Proof.
  intros o. unfold z_qs. simpl. split.
  - intros [<-|[<-|[<-|[]]]]; auto.
  - intros [->|[<-|[<-|[]]]]; auto.
Qed.
(* the recover theorem applied: killed after 10 steps (a temp copy half written), re-run *)
Example z_recover_instance :
  let p0 := transfer_prog N zH 1 (fun n => n + 100) true 0 z_qs z_files z_dir z_w0 in
  let wc := crash N (run N 1 (firstn 10 p0) z_w0) in
  let p1 := transfer_prog N zH 1 (fun n => n + 100) true 5 z_qs z_files z_dir wc in
  store_eq N (run N 1 p1 wc) (run N 1 p0 z_w0).
Proof.
  intros p0 wc p1.
  exact (proj1 (proj2 (proj2 (transfer_recover N zH zK 1 (fun n => n + 100) eq_refl z_inj
          0 5 z_qs z_qs z_files z_dir z_w0 10 z_inv eq_refl z_files_ok z_dir_ok z_requested z_requested)))).
Qed.
Example z_crashed_nontrivial :
  let p0 := transfer_prog N zH 1 (fun n => n + 100) true 0 z_qs z_files z_dir z_w0 in
  w_tmps (run N 1 (firstn 10 p0) z_w0) = [(0, 102)] /\ length p0 = 21%nat.
Proof. vm_compute. split; reflexivity. Qed.

(* ---- the refutation witness again, with per-call verification (save(..., verify=True)): the same
   kill point, the re-run's pre-add check drops the leftover and the store converges ---- *)
Definition xv_prog := save_gen oid xH xE (fun b => b) true false 0 x_files [].
Definition xv_crashed := crash oid (run oid xE (firstn 2 (xv_prog w_empty)) w_empty).
Example xv_crashed_is_leftover :
  enc_world xv_crashed = VL [VL [VL [VB [2]; VB [1]; VN 0]]; VL []; VL []].
Proof. vm_compute. reflexivity. Qed.
Example xv_rerun_valid : valid_trace oid xH (xK []) xE (xv_prog xv_crashed) xv_crashed = true.
Proof. vm_compute. reflexivity. Qed.
Example xv_rerun_drops_then_copies :
  steps_eqb (firstn 2 (xv_prog xv_crashed)) [StateSave [([2], [1])]; Remove [2]] = true.
Proof. vm_compute. reflexivity. Qed.
Example xv_rerun_result :
  enc_objs (run oid xE (xv_prog xv_crashed) xv_crashed) = enc_objs (run oid xE (xv_prog w_empty) w_empty) /\
  enc_objs (run oid xE (xv_prog xv_crashed) xv_crashed) = VL [VL [VB [2]; VB [2]; VN 1]].
Proof. vm_compute. split; reflexivity. Qed.

Definition enc_objs_N (w : world N) : list (oid * N * bool) :=
  map (fun e => (fst e, f_bytes (snd e), f_prot (snd e))) (rev (w_objs w)).

(* ---- ONE transfer over two directories sharing a file: 4.dir lists [2],[3]; 6.dir lists [3],[5].
   All hypotheses of C15_recover_mtransfer hold at once; killed after 30 steps, re-run with the
   directories and files iterated in the opposite order ---- *)
Definition mK (n : N) : list oid := if N.eqb n 4 then [[2]; [3]] else if N.eqb n 6 then [[3]; [5]] else [].
Definition m_files : list (oid * N) := [([2], 2); ([3], 3); ([5], 5)].
Definition m_d1 : oid * N := ([4; 46; 100; 105; 114], 4).
Definition m_d2 : oid * N := ([6; 46; 100; 105; 114], 6).
Definition m_qs : list oid := [[3]; [4; 46; 100; 105; 114]; [2]; [6; 46; 100; 105; 114]; [5]].
Definition m_w0 : world N := mkW [] [] [] None.
Lemma m_inv : inv N zH mK m_w0.
Proof.
  repeat split; unfold prot_ok, rows_ok, closed, pend_ok, obj, row; simpl; intros; discriminate.
Qed.
Lemma m_files_ok l : (forall it, In it l -> In it m_files) -> files_ok N zH l.
Proof.
  intros Hl it Hi. apply Hl in Hi. destruct Hi as [<-|[<-|[<-|[]]]]; split; vm_compute; reflexivity.
Qed.
Lemma m_dir_ok l d : (forall k, In k (mK (snd d)) -> In k (map fst l)) -> d = m_d1 \/ d = m_d2 -> dir_ok N zH mK l d.
Proof.
  intros Hk [-> | ->]; (split; [vm_compute; reflexivity|]; split; [vm_compute; reflexivity|]; exact Hk).
Qed.
Lemma m_requested ds fo :
  (forall o, In o (map fst ds) <-> o = fst m_d1 \/ o = fst m_d2) ->
  (forall o, In o (map fst fo) <-> In o (map fst m_files)) ->
  mrequested N fo ds m_qs.
Proof.
  intros Hd Hf o. rewrite Hd, Hf. unfold m_qs. simpl. split.
  - intros [<-|[<-|[<-|[<-|[<-|[]]]]]]; auto 6.
  - intros [[Ho|Ho]|[Ho|[Ho|[Ho|[]]]]]; subst o; simpl; auto 6.
Qed.
Example m_recover_instance :
  let p0 := mtransfer_prog N zH mK 1 (fun n => n + 100) false false 0 m_qs [m_d1; m_d2] m_files m_w0 in
  let wc := crash N (run N 1 (firstn 30 p0) m_w0) in
  let p1 := mtransfer_prog N zH mK 1 (fun n => n + 100) false false 9 m_qs [m_d2; m_d1] (rev m_files) wc in
  store_eq N (run N 1 p1 wc) (run N 1 p0 m_w0) /\ length p0 = 57%nat /\
  (* the shared file [3] went up with the FIRST directory, before that directory's object (which is
     being copied at step 30) *)
  enc_objs_N (run N 1 (firstn 30 p0) m_w0) = [([2], 2, true); ([3], 3, true)].
Proof.
  intros p0 wc p1. split; [|split; vm_compute; reflexivity].
  refine (proj1 (proj2 (proj2 (mtransfer_recover N zH mK 1 (fun n => n + 100) eq_refl z_inj
            false 0 9 m_qs m_qs [m_d1; m_d2] [m_d2; m_d1] m_files (rev m_files) m_w0 30
            m_inv eq_refl _ _ _ _ _ _ _ _ _)))).
  - apply m_files_ok. auto.
  - intros d [<-|[<-|[]]]; apply m_dir_ok; auto; vm_compute; intuition.
  - repeat constructor; simpl; intuition discriminate.
  - apply m_requested; [simpl; intuition | reflexivity].
  - apply m_files_ok. intros it Hi. apply in_rev in Hi. exact Hi.
  - intros d [<-|[<-|[]]]; apply m_dir_ok; auto; vm_compute; intuition.
  - repeat constructor; simpl; intuition discriminate.
  - apply m_requested; [simpl; intuition | intros o; simpl; intuition].
  - reflexivity.
Qed.

(* ---- the verified and the hardlink transfer, on the instance z (all hypotheses hold at once) ---- *)
Example z_vrecover_instance :
  let p0 := vtransfer_prog N zH 1 (fun n => n + 100) true 0 z_qs z_files z_dir z_w0 in
  let wc := crash N (run N 1 (firstn 12 p0) z_w0) in
  let p1 := vtransfer_prog N zH 1 (fun n => n + 100) true 5 z_qs z_files z_dir wc in
  store_eq N (run N 1 p1 wc) (run N 1 p0 z_w0).
Proof.
  intros p0 wc p1.
  exact (proj1 (proj2 (proj2 (vtransfer_recover N zH zK 1 (fun n => n + 100) eq_refl z_inj
          true 0 5 z_qs z_qs z_files z_dir z_w0 12 z_inv eq_refl z_files_ok z_dir_ok z_requested z_requested)))).
Qed.
Example z_lrecover_instance :
  let p0 := ltransfer_prog N zH 1 (fun n => n + 100) 0 z_qs z_files z_dir z_w0 in
  let wc := crash N (run N 1 (firstn 9 p0) z_w0) in
  let p1 := ltransfer_prog N zH 1 (fun n => n + 100) 5 z_qs z_files z_dir wc in
  store_eq N (run N 1 p1 wc) (run N 1 p0 z_w0) /\
  (* killed right after the link of [2]: present, complete, not yet protected *)
  obj N (run N 1 (firstn 9 p0) z_w0) [2] = Some (mkF 2 false).
Proof.
  intros p0 wc p1. split; [|vm_compute; reflexivity].
  exact (proj1 (proj2 (proj2 (ltransfer_recover N zH zK 1 (fun n => n + 100) eq_refl z_inj
          0 5 z_qs z_qs z_files z_dir z_w0 9 z_inv eq_refl z_files_ok z_dir_ok z_requested z_requested)))).
Qed.
