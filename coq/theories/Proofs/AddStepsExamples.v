(* Concrete instances for C15: the refutation witness of the re-run through add(check_exists=True)
   and satisfiability examples.  Instance: contents are identified by their digest (bytes := oid,
   H := identity), [1] is the empty content, no directory listings. *)
From Coq Require Import NArith List Bool.
From DvcData Require Import Base.Val Model.AddSteps Proofs.AddStepsProofs.
Import ListNotations.
Open Scope N_scope.

Definition xH (b : oid) : oid := b.
Definition xE : oid := [1].
Definition xK (tab : list (oid * list oid)) := kids_tab tab.
Definition w_empty : world oid := mkW [] [] [] None.

Lemma inv_w_empty K : inv oid xH K w_empty.
Proof.
  repeat split; unfold prot_ok, rows_ok, closed, pend_ok, obj, row; simpl; intros; discriminate.
Qed.

(* index.save of one file with content [2] (oid [2]) into an empty local store *)
Definition x_files : list (oid * oid) := [([2], [2])].
Definition x_prog := save_prog oid xE (fun b => b) 0 x_files [].

(* the uninterrupted run: the object is there, matches, is protected and vouched for *)
Example x_full_run :
  enc_world (run oid xE (x_prog w_empty) w_empty) =
  VL [VL [VL [VB [2]; VB [2]; VN 1]]; VL []; VL [VL [VB [2]; VB [2]]]].
Proof. vm_compute. reflexivity. Qed.

Example x_full_valid : valid_trace oid xH (xK []) xE (x_prog w_empty) w_empty = true.
Proof. vm_compute. reflexivity. Qed.

(* crash after 3 steps = [Mkdir; Probe [2]] done, ProbeClean not yet: the empty probe file is left *)
Definition x_crashed := crash oid (run oid xE (firstn 2 (x_prog w_empty)) w_empty).
Example x_crashed_is :
  enc_world x_crashed = VL [VL [VL [VB [2]; VB [1]; VN 0]]; VL []; VL []].
Proof. vm_compute. reflexivity. Qed.
(* the crashed store itself is fine: the leftover is unprotected and not vouched for *)
Example x_crashed_inv : crash_inv_b oid xH (xK []) x_crashed = true.
Proof. vm_compute. reflexivity. Qed.

(* the re-run of the same save: add(check_exists=True) skips the copy, protects, records *)
Example x_rerun_prog :
  steps_eqb (x_prog x_crashed) [Chmod [2]; StateSave [([2], [2])]] = true.
Proof. vm_compute. reflexivity. Qed.
Example x_rerun_invalid : valid_trace oid xH (xK []) xE (x_prog x_crashed) x_crashed = false.
Proof. vm_compute. reflexivity. Qed.
Example x_rerun_result :
  enc_world (run oid xE (x_prog x_crashed) x_crashed) =
  VL [VL [VL [VB [2]; VB [1]; VN 1]]; VL []; VL [VL [VB [2]; VB [2]]]].
Proof. vm_compute. reflexivity. Qed.

Lemma x_rerun_not_crash_inv :
  ~ crash_inv oid xH (xK []) (run oid xE (x_prog x_crashed) x_crashed).
Proof.
  intros [Hp _].
  specialize (Hp [2] (mkF [1] true)).
  assert (Ho : obj oid (run oid xE (x_prog x_crashed) x_crashed) [2] = Some (mkF [1] true))
    by (vm_compute; reflexivity).
  specialize (Hp Ho eq_refl). unfold named_ok, xH in Hp. simpl in Hp. discriminate.
Qed.

Lemma x_rerun_not_store_eq :
  ~ store_eq oid (run oid xE (x_prog x_crashed) x_crashed) (run oid xE (x_prog w_empty) w_empty).
Proof.
  intros He. specialize (He [2]). vm_compute in He. discriminate.
Qed.

(* the same crash healed by the existence query (the transfer path): the leftover is dropped *)
Example x_heal_drops :
  enc_world (heal oid xH xE [[2]] x_crashed) = VL [VL []; VL []; VL []].
Proof. vm_compute. reflexivity. Qed.

(* a non-trivial valid trace: stage+transfer of files [2],[3] and the directory object [4].dir
   listing them, into a store that already holds [3] unprotected and unvouched *)
Definition y_kids := [([4], [[2]; [3]])].
Definition y_dir : oid * oid := ([4; 46; 100; 105; 114], [4]).
Definition y_w0 : world oid := mkW [([3], mkF [3] false)] [] [] None.
Definition y_prog :=
  transfer_prog oid xH xE (fun b => 112 :: b) true 0 [[3]; [4; 46; 100; 105; 114]; [2]]
                [([2], [2]); ([3], [3])] y_dir.
Example y_valid : valid_trace oid xH (xK y_kids) xE (y_prog y_w0) y_w0 = true.
Proof. vm_compute. reflexivity. Qed.
Example y_len : length (y_prog y_w0) = 21%nat.
Proof. vm_compute. reflexivity. Qed.
Example y_all_prefixes :
  forallb (crash_inv_b oid xH (xK y_kids)) (prefix_states oid xE (y_prog y_w0) y_w0) = true.
Proof. vm_compute. reflexivity. Qed.
Example y_final :
  enc_objs (run oid xE (y_prog y_w0) y_w0) =
  VL [VL [VB [2]; VB [2]; VN 1]; VL [VB [3]; VB [3]; VN 1];
      VL [VB [4; 46; 100; 105; 114]; VB [4]; VN 1]].
Proof. vm_compute. reflexivity. Qed.
Lemma inv_y_w0 : inv oid xH (xK y_kids) y_w0.
Proof.
  split; [|split; [|split]].
  - intros o f Ho Hp. unfold obj in Ho. simpl in Ho.
    destruct (list_N_eqb o [3]); [injection Ho as <-; discriminate | discriminate].
  - intros o f v Ho Hr. unfold row in Hr. simpl in Hr. discriminate.
  - intros d f Ho Hd. unfold obj in Ho. simpl in Ho.
    destruct (list_N_eqb d [3]) eqn:E; [|discriminate].
    apply list_N_eqb_spec in E. subst d. vm_compute in Hd. discriminate.
  - intros p Hp. simpl in Hp. discriminate.
Qed.
