(* C07, third part: a store that verifies never retains a mismatching object after an add. *)
From Coq Require Import NArith List Bool Lia.
From DvcData Require Import Base.Val Gen.Check Model.StateDbBase Model.Integrity Proofs.IntegrityProofs Proofs.IntegrityProofsFold.
Import ListNotations.
Open Scope N_scope.

(* a fold over items with pairwise distinct ids touches the slice of [o] exactly once *)
Section Touch.
  Context {S : Type}.
  Variable wof : S -> world.
  Variable f : S -> item -> S.
  Variable o : oid.
  Hypothesis f_cfg : forall s i, cfg (wof (f s i)) = cfg (wof s).
  Hypothesis f_frame : forall s i, it_oid i <> o -> sl (wof (f s i)) o = sl (wof s) o.

  Lemma fold_untouched items : forall s, ~ In o (map it_oid items) ->
    sl (wof (fold_left f items s)) o = sl (wof s) o /\ cfg (wof (fold_left f items s)) = cfg (wof s).
  Proof.
    induction items as [|i items IH]; intros s N; simpl; auto.
    simpl in N. destruct (IH (f s i)) as [A B]; [tauto|].
    rewrite A, B, f_cfg, f_frame by tauto. auto.
  Qed.

  Lemma fold_touch items i0 : forall s, NoDup (map it_oid items) -> In i0 items -> it_oid i0 = o ->
    exists sb, cfg (wof sb) = cfg (wof s) /\ sl (wof sb) o = sl (wof s) o /\
               sl (wof (fold_left f items s)) o = sl (wof (f sb i0)) o /\
               cfg (wof (fold_left f items s)) = cfg (wof s).
  Proof.
    induction items as [|i items IH]; intros s ND I E; simpl in *; [contradiction|].
    apply NoDup_cons_iff in ND as [NI ND'].
    destruct I as [->|I].
    - exists s. destruct (fold_untouched items (f s i0)) as [A B]; [rewrite E in NI; exact NI|].
      rewrite A, B, f_cfg. auto.
    - assert (N : it_oid i <> it_oid i0).
      { intros X. apply NI. rewrite X. now apply in_map. }
      destruct (IH (f s i) ND' I E) as (sb & A & B & C & D).
      rewrite E in N. exists sb. rewrite A, B, C, D, f_cfg, f_frame by exact N. auto.
  Qed.
End Touch.

Section WithDigest.
  Variable H : name -> bytes -> oid.

  Notation hash_file := (hash_file H).
  Notation check := (check H).
  Notation add := (add H).
  Notation named_ok := (named_ok H).
  Notation honest_for := (honest_for H).
  Notation honest := (honest H).
  Notation Intact := (Intact H).
  Notation IN := (IN H).

  Lemma named_ok_dec alg o ob : {named_ok alg o ob} + {~ named_ok alg o ob}.
  Proof. unfold Proofs.IntegrityProofs.named_ok. apply leqb_dec. Qed.

  (* a Local object that is write-protected is trusted: the property is about the others *)
  Definition trusted_ok (w : world) (o : oid) : Prop :=
    forall ob, lookup o (w_objs w) = Some ob -> w_cls w = Local -> S_IMODE (o_mode ob) = PROTECTED ->
               named_ok (w_alg w) o ob.

  (* `token changed` for the file the copy creates: its token is neither the token of a state row
     of that id nor the token of the file it replaces *)
  Definition row_fresh (w : world) (o : oid) (t : token) : Prop :=
    forall r, lookup o (w_db w) = Some r -> r_tok r <> t.
  Definition fresh (w : world) (o : oid) (t : token) : Prop :=
    row_fresh w o t /\ forall ob, lookup o (w_objs w) = Some ob -> o_tok ob <> t.

  Lemma hash_file_row_fresh w o ob t : row_fresh w o t -> o_tok ob <> t ->
    forall r, lookup o (snd (hash_file w o ob)) = Some r -> r_tok r <> t.
  Proof.
    intros F1 F2 r Lr. unfold Integrity.hash_file, st_save in Lr.
    destruct (st_hit w o (o_tok ob)); simpl in Lr. now apply F1.
    destruct (w_state w). rewrite lookup_set_eq in Lr. injection Lr as <-. simpl. exact F2.
    now apply F1.
  Qed.

  Section OneObject.
    Variables (o : oid) (b : bytes) (t : token).
    Let i0 : item := (o, b, t).

    Definition P0 (w : world) : Prop := honest w o /\ trusted_ok w o /\ fresh w o t.
    Definition P1 (w : world) : Prop := (lookup o (w_objs w) = None /\ row_fresh w o t) \/ IN w o.
    Definition P2 (w : world) : Prop :=
      exists ob, lookup o (w_objs w) = Some ob /\ honest_for w o ob /\
                 (w_cls w = Local -> S_IMODE (o_mode ob) = PROTECTED -> named_ok (w_alg w) o ob).
    Definition P3 (w : world) : Prop := forall ob, lookup o (w_objs w) = Some ob -> named_ok (w_alg w) o ob.

    Lemma P0_ext w1 w2 : cfg w1 = cfg w2 -> sl w1 o = sl w2 o -> P0 w1 -> P0 w2.
    Proof.
      intros C S (A & B & (F1 & F2)). pose proof (cfg_fields _ _ C) as (CC & CA & _).
      pose proof (sl_fields _ _ _ S) as [SO SD]. repeat split.
      - intros ob L. rewrite <- SO in L. apply (honest_for_ext H w1 w2); auto.
      - intros ob L. rewrite <- SO in L. rewrite <- CC, <- CA. now apply B.
      - intros r L. rewrite <- SD in L. now apply F1.
      - intros ob L. rewrite <- SO in L. now apply F2.
    Qed.

    Lemma P1_ext w1 w2 : cfg w1 = cfg w2 -> sl w1 o = sl w2 o -> P1 w1 -> P1 w2.
    Proof.
      intros C S [[G F]|[ob I]]; pose proof (sl_fields _ _ _ S) as [SO SD].
      - left. split. congruence. intros r L. rewrite <- SD in L. now apply F.
      - right. exists ob. now apply (Intact_ext H w1 w2).
    Qed.

    Lemma P2_ext w1 w2 : cfg w1 = cfg w2 -> sl w1 o = sl w2 o -> P2 w1 -> P2 w2.
    Proof.
      intros C S (ob & L & Hh & Tr). pose proof (cfg_fields _ _ C) as (CC & CA & _).
      pose proof (sl_fields _ _ _ S) as [SO SD]. exists ob. repeat split.
      - congruence.
      - now apply (honest_for_ext H w1 w2).
      - rewrite <- CC, <- CA. exact Tr.
    Qed.

    Lemma P3_ext w1 w2 : cfg w1 = cfg w2 -> sl w1 o = sl w2 o -> P3 w1 -> P3 w2.
    Proof.
      intros C S P ob L. pose proof (cfg_fields _ _ C) as (CC & CA & _).
      pose proof (sl_fields _ _ _ S) as [SO SD]. rewrite <- SO in L. rewrite <- CA. now apply P.
    Qed.

    (* ---- the step of each phase at the object itself *)
    Lemma pre_at w : P0 w -> P1 (pre_step H w i0).
    Proof.
      intros (Hon & Tr & (F1 & F2)). unfold pre_step, it_oid. simpl.
      destruct (lookup o (w_objs w)) as [ob|] eqn:L.
      - destruct (w_cls w) eqn:C; [destruct (mode_dec (o_mode ob)) as [M|M]|].
        + rewrite (check_trusted H w o ob L C M). simpl. right. exists ob. repeat split; auto.
        + rewrite (check_untrusted H w o ob L (fun _ => M)).
          destruct (named_ok_dec (w_alg w) o ob) as [Hn|Hn].
          * rewrite (base_check_ok H w o ob (Hon ob L) Hn). simpl. right. apply (Intact_after_ok H w o ob L Hn (Hon ob L)).
          * rewrite (base_check_bad H w o ob (Hon ob L) Hn). simpl. left. split. apply lookup_remove_eq.
            intros r Lr. simpl in Lr. apply (hash_file_row_fresh w o ob t F1 (F2 ob eq_refl) r Lr).
        + assert (M : w_cls w = Local -> S_IMODE (o_mode ob) <> PROTECTED) by (rewrite C; discriminate).
          rewrite (check_untrusted H w o ob L M).
          destruct (named_ok_dec (w_alg w) o ob) as [Hn|Hn].
          * rewrite (base_check_ok H w o ob (Hon ob L) Hn). simpl. right. apply (Intact_after_ok H w o ob L Hn (Hon ob L)).
          * rewrite (base_check_bad H w o ob (Hon ob L) Hn). simpl. left. split. apply lookup_remove_eq.
            intros r Lr. simpl in Lr. apply (hash_file_row_fresh w o ob t F1 (F2 ob eq_refl) r Lr).
      - rewrite (check_missing H w o L). simpl. left. auto.
    Qed.

    Lemma copy_at (s : N * world) :
      (w_cls (snd s) = Local -> S_IMODE (w_fmode (snd s)) <> PROTECTED) ->
      P1 (snd s) -> P2 (snd (copy_step s i0)).
    Proof.
      intros FM [[G F]|[ob (L & Hn & Hh)]]; unfold copy_step, has, it_oid; simpl.
      - rewrite G. simpl. exists (Ob b (w_fmode (snd s)) t). split; [apply lookup_set_eq|]. split.
        + intros r _ Lr Tr _. simpl in *. exfalso. now apply (F r).
        + simpl. intros C M. exfalso. now apply FM.
      - rewrite L. exists ob. auto.
    Qed.

    Lemma protect_P3 w : P3 w -> P3 (protect w o).
    Proof.
      intros P ob' L'. rewrite protect_alg.
      destruct (lookup o (w_objs w)) as [ob|] eqn:L.
      - destruct (protect_lookup_same w o ob L) as (ob2 & L2 & B & _).
        rewrite L2 in L'. injection L' as <-. unfold Proofs.IntegrityProofs.named_ok. rewrite B. now apply P.
      - rewrite (protect_gone w o o L) in L'. discriminate.
    Qed.

    Lemma post_at (s : list oid * world) : P2 (snd s) -> P3 (snd (post_step H true s i0)).
    Proof.
      intros (ob & L & Hh & Tr). unfold post_step, it_oid. simpl. set (w := snd s) in *.
      assert (K : P3 (snd (check w o)) /\ (fst (check w o) = 0 \/ fst (check w o) = 3)).
      { destruct (w_cls w) eqn:C; [destruct (mode_dec (o_mode ob)) as [M|M]|].
        - rewrite (check_trusted H w o ob L C M). simpl. split; auto.
          intros ob' L'. rewrite L in L'. injection L' as <-. now apply Tr.
        - rewrite (check_untrusted H w o ob L (fun _ => M)).
          destruct (named_ok_dec (w_alg w) o ob) as [Hn|Hn].
          + rewrite (base_check_ok H w o ob Hh Hn). simpl. split; auto.
            destruct (Intact_after_ok H w o ob L Hn Hh) as (ob' & L' & Hn' & _).
            intros ob2 L2. rewrite L' in L2. injection L2 as <-. exact Hn'.
          + rewrite (base_check_bad H w o ob Hh Hn). simpl. split; auto.
            intros ob2 L2. simpl in L2. rewrite lookup_remove_eq in L2. discriminate.
        - assert (M : w_cls w = Local -> S_IMODE (o_mode ob) <> PROTECTED) by (rewrite C; discriminate).
          rewrite (check_untrusted H w o ob L M).
          destruct (named_ok_dec (w_alg w) o ob) as [Hn|Hn].
          + rewrite (base_check_ok H w o ob Hh Hn). simpl. split; auto.
            destruct (Intact_after_ok H w o ob L Hn Hh) as (ob' & L' & Hn' & _).
            intros ob2 L2. rewrite L' in L2. injection L2 as <-. exact Hn'.
          + rewrite (base_check_bad H w o ob Hh Hn). simpl. split; auto.
            intros ob2 L2. simpl in L2. rewrite lookup_remove_eq in L2. discriminate. }
      destruct K as [K [E|E]]; rewrite E; simpl; auto. now apply protect_P3.
    Qed.
  End OneObject.

  (* ---- phase functions: configuration kept, other ids untouched *)
  Lemma pre_cfg w i : cfg (pre_step H w i) = cfg w.
  Proof. apply check_cfg. Qed.
  Lemma pre_frame o w i : it_oid i <> o -> sl (pre_step H w i) o = sl w o.
  Proof. intros N. apply check_frame. auto. Qed.

  Lemma copy_cfg (s : N * world) i : cfg (snd (copy_step s i)) = cfg (snd s).
  Proof. unfold copy_step. destruct (has (snd s) (it_oid i)); reflexivity. Qed.
  Lemma copy_frame o (s : N * world) i : it_oid i <> o -> sl (snd (copy_step s i)) o = sl (snd s) o.
  Proof.
    intros N. unfold copy_step. destruct (has (snd s) (it_oid i)); auto.
    unfold sl. simpl. rewrite lookup_set_neq; auto.
  Qed.

  Lemma post_cfg v (s : list oid * world) i : cfg (snd (post_step H v s i)) = cfg (snd s).
  Proof.
    unfold post_step. destruct v; simpl; [|apply protect_cfg].
    destruct (fst (check (snd s) (it_oid i)) =? 0); simpl; [rewrite protect_cfg; apply check_cfg|].
    destruct (fst (check (snd s) (it_oid i)) =? 3); simpl; apply check_cfg.
  Qed.
  Lemma protect_sl_frame w o o' : o' <> o -> sl (protect w o) o' = sl w o'.
  Proof. intros N. unfold sl. now rewrite protect_frame, protect_db. Qed.
  Lemma post_frame o v (s : list oid * world) i : it_oid i <> o -> sl (snd (post_step H v s i)) o = sl (snd s) o.
  Proof.
    intros N. unfold post_step. destruct v; simpl; [|apply protect_sl_frame; auto].
    destruct (fst (check (snd s) (it_oid i)) =? 0); simpl;
      [rewrite protect_sl_frame by auto; apply check_frame; auto|].
    destruct (fst (check (snd s) (it_oid i)) =? 3); simpl; apply check_frame; auto.
  Qed.

  Lemma save_fold_objs items : forall w,
    w_objs (fold_left save_step items w) = w_objs w /\ w_alg (fold_left save_step items w) = w_alg w.
  Proof.
    induction items as [|i items IH]; intros w; simpl; auto.
    destruct (IH (save_step w i)) as [A B]. rewrite A, B. unfold save_step.
    destruct (lookup (it_oid i) (w_objs w)); auto.
  Qed.

  Definition eff_verify (w : world) (v : option bool) : bool :=
    match v with Some x => x | None => w_verify w end.

  (* ---- C07_verify_add *)
  Theorem verify_add w v items o b t :
    eff_verify w v = true ->
    NoDup (map it_oid items) -> In (o, b, t) items ->
    honest w o -> trusted_ok w o -> fresh w o t ->
    (w_cls w = Local -> S_IMODE (w_fmode w) <> PROTECTED) ->
    forall ob', lookup o (w_objs (snd (add w v items))) = Some ob' -> named_ok (w_alg w) o ob'.
  Proof.
    intros V ND I Hon Tr Fr FM. unfold Integrity.add. fold (eff_verify w v). rewrite V. simpl.
    set (w1 := fold_left (pre_step H) items w).
    set (s2 := fold_left copy_step items (0, w1)).
    set (s3 := fold_left (post_step H true) items ([], snd s2)).
    (* phase 1 *)
    destruct (fold_touch (fun w => w) (pre_step H) o pre_cfg (pre_frame o) items (o, b, t) w ND I eq_refl)
      as (wb & C1 & S1 & R1 & D1). fold w1 in R1, D1.
    assert (Q1 : P1 o t w1).
    { apply (P1_ext o t (pre_step H wb (o, b, t))); [rewrite pre_cfg; congruence|auto|].
      apply pre_at. apply (P0_ext o t w); auto. repeat split; auto; apply Fr. }
    (* phase 2 *)
    destruct (fold_touch snd copy_step o copy_cfg (copy_frame o) items (o, b, t) (0, w1) ND I eq_refl)
      as (sb & C2 & S2 & R2 & D2). fold s2 in R2, D2. simpl in C2, S2, D2.
    assert (Q2 : P2 o (snd s2)).
    { apply (P2_ext o (snd (copy_step sb (o, b, t)))); [rewrite copy_cfg; congruence|auto|].
      apply copy_at.
      - pose proof (cfg_fields _ _ C2) as (CC & _ & _ & _ & CF).
        pose proof (cfg_fields _ _ D1) as (CC' & _ & _ & _ & CF').
        rewrite CC, CF, CC', CF'. exact FM.
      - apply (P1_ext o t w1); auto. }
    (* phase 3 *)
    destruct (fold_touch snd (post_step H true) o (post_cfg true) (post_frame o true) items (o, b, t)
                ([], snd s2) ND I eq_refl) as (sc & C3 & S3 & R3 & D3). fold s3 in R3, D3. simpl in C3, S3, D3.
    assert (Q3 : P3 o (snd s3)).
    { apply (P3_ext o (snd (post_step H true sc (o, b, t)))); [rewrite post_cfg; congruence|auto|].
      apply post_at. apply (P2_ext o (snd s2)); auto. }
    (* phase 4 *)
    intros ob' L'. destruct (save_fold_objs items (snd s3)) as [A B]. rewrite A in L'.
    pose proof (cfg_fields _ _ D3) as (_ & CA3 & _). pose proof (cfg_fields _ _ D2) as (_ & CA2 & _).
    pose proof (cfg_fields _ _ D1) as (_ & CA1 & _). simpl in CA2.
    rewrite <- CA1, <- CA2, <- CA3. now apply Q3.
  Qed.
End WithDigest.
