(* Proofs about Model/Status.v, part 2: the history machine (Push with failures / Fetch /
   external deletion / status queries sharing one index) and the invariant behind
   C12_index_sound.  std++ style. *)
From stdpp Require Import gmap.
From Coq Require Import NArith.
From DvcData Require Import Base.Val Model.Status Proofs.StatusProofs.
Open Scope N_scope.

(* ------------------------------------------------------------------------------------ *)
(* status() with an index never reports or indexes an id outside [G], when the store, what
   the directory objects of the store list, and the old index are inside [G] *)
Lemma status_ix_sound (G : oid → Prop) st load ix q sh e m ix' :
  status_ix st load ix q sh = Ok (e, m, ix') →
  (∀ o, o ∈ st → G o) →
  (∀ D l, D ∈ st → load D = Some l → ∀ o, o ∈ l → G o) →
  (∀ o, o ∈ dom ix → G o) →
  (∀ o, o ∈ dom ix' → G o) ∧ (∀ o, o ∈ e → G o).
Proof.
  intros H Hst Hl Hix. apply status_ix_inv in H as (ids & Hc & Hsub & _ & Hcase).
  destruct Hcase as [(-> & -> & ->)|[(Hne & Hr & -> & He)|(Hne & Hr & -> & He)]].
  - split; [done|set_solver].
  - split; [done|]. intros o Ho. apply He in Ho as [_ [?|?]]; auto.
  - destruct (indexed_dir_hashes_dom G st load ix (req_dirs q)) as [H1 H2].
    + intros D l _ HD HlD. split; [auto|]. eauto.
    + intros o Ho. apply Hix. by apply revalidate_dom in Ho.
    + split; [done|]. intros o Ho. apply He in Ho as [_ [?|[?|?]]]; auto.
Qed.

Lemma status_some_inv st load ix q sh e m o' :
  status st load (Some ix) q sh = Ok (e, m, o') →
  ∃ ix', o' = Some ix' ∧ status_ix st load ix q sh = Ok (e, m, ix').
Proof.
  unfold status. destruct (status_ix st load ix q sh) as [[[e1 m1] i1]|]; [|discriminate].
  intros H; inversion H; subst. eauto.
Qed.

(* ------------------------------------------------------------------------------------ *)
(* _do_transfer *)
Lemma up_ok_src src fails o : up_ok src fails o = true → o ∈ src.
Proof. unfold up_ok. intros H. apply andb_true_iff in H as [H _]. by apply bool_decide_eq_true in H. Qed.

Lemma foldl_xfer_none src load fails nf missing ds :
  foldl (xfer_add_dir src load fails nf missing) None ds = None.
Proof. induction ds as [|a ds IH]; cbn [foldl]; [done|]. exact IH. Qed.

Section do_transfer.
  Context (src : store) (load : loader) (new missing fails : gset oid).
  Let new_dirs : gset oid := filter (λ o, is_dir_oid o = true) new.
  Let new_files : gset oid := new ∖ new_dirs.

  Definition xfer_ok (x : xfer) : Prop :=
    (∀ o, o ∈ new_files → up_ok src fails o = true → o ∈ x_delivered x) ∧
    (∀ o, o ∈ x_delivered x →
       o ∈ new ∧ up_ok src fails o = true ∧
       (is_dir_oid o = true →
        ∃ l, load o = Some l ∧ dir_rule src fails new_files missing o l = DDelivered)) ∧
    (∀ D l, (D, l) ∈ x_succ_dirs x → D ∈ x_delivered x ∧ is_dir_oid D = true ∧ load D = Some l).

  Lemma xfer_add_dir_ok x D x' :
    xfer_ok x → D ∈ new → is_dir_oid D = true →
    xfer_add_dir src load fails new_files missing (Some x) D = Some x' → xfer_ok x'.
  Proof.
    intros (H1 & H2 & H3) HD Hd. unfold xfer_add_dir.
    destruct (load D) as [l|] eqn:El; [|discriminate].
    destruct (dir_rule src fails new_files missing D l) eqn:Er;
      intros H; inversion H; subst x'; clear H; unfold xfer_ok; cbn [x_delivered x_failed x_succ_dirs].
    - done.
    - done.
    - done.
    - split_and!.
      + intros o Ho Hu. apply elem_of_union_r. auto.
      + intros o. rewrite elem_of_union, elem_of_singleton. intros [->|Ho]; [|auto].
        split_and!; [done| |eauto].
        unfold dir_rule in Er. repeat destruct (existsb _ l); try discriminate.
        by destruct (up_ok src fails D).
      + intros D' l'. rewrite elem_of_cons. intros [Heq|Hin].
        * inversion Heq; subst. split_and!; [set_solver|done|done].
        * destruct (H3 _ _ Hin) as (? & ? & ?). split_and!; [set_solver|done|done].
  Qed.

  Lemma foldl_xfer_ok ds : ∀ x x',
    xfer_ok x → (∀ D, D ∈ ds → D ∈ new ∧ is_dir_oid D = true) →
    foldl (xfer_add_dir src load fails new_files missing) (Some x) ds = Some x' → xfer_ok x'.
  Proof.
    induction ds as [|a ds IH]; intros x x' Hx Hds; cbn [foldl].
    - intros H; inversion H; by subst.
    - destruct (xfer_add_dir src load fails new_files missing (Some x) a) as [x1|] eqn:E1.
      + apply IH; [|intros D HD; apply Hds; by right].
        destruct (Hds a) as [? ?]; [by left|]. eapply xfer_add_dir_ok; eauto.
      + rewrite foldl_xfer_none. discriminate.
  Qed.

  Lemma do_transfer_ok x : do_transfer src load new missing fails = Some x → xfer_ok x.
  Proof.
    unfold do_transfer. fold new_dirs. fold new_files. apply foldl_xfer_ok.
    - unfold xfer_ok. cbn [x_delivered x_failed x_succ_dirs]. split_and!.
      + intros o Ho Hu. apply elem_of_filter. auto.
      + intros o Ho. apply elem_of_filter in Ho as [Hu Ho]. split_and!; [|done|].
        * unfold new_files in Ho. set_solver.
        * intros Hd. exfalso. unfold new_files, new_dirs in Ho.
          apply elem_of_difference in Ho as [Hn Hnd]. apply Hnd. apply elem_of_filter. auto.
      + intros D l HD. inversion HD.
    - intros D HD. apply elem_of_elements in HD. unfold new_dirs in HD.
      apply elem_of_filter in HD as [? ?]. auto.
  Qed.
End do_transfer.

Lemma index_succeeded_dom (ds : list (oid * list oid)) : ∀ (ix : index) o,
  o ∈ dom (index_succeeded ix ds) ↔ o ∈ dom ix ∨ ∃ D l, (D, l) ∈ ds ∧ (o = D ∨ o ∈ l).
Proof.
  unfold index_succeeded. induction ds as [|[D l] ds IH]; intros ix o; cbn [foldl].
  - split; [auto|]. intros [?|(D & l & H & _)]; [done|inversion H].
  - rewrite IH. cbn [fst snd]. rewrite ix_update_dom. setoid_rewrite elem_of_cons. split.
    + intros [[?|?]|(D' & l' & ? & ?)]; eauto 10.
    + intros [?|(D' & l' & [Heq|?] & ?)]; eauto 10. inversion Heq; subst. auto.
Qed.

Lemma index_succeeded_flags (ds : list (oid * list oid)) : ∀ ix : index,
  flags_ok ix →
  (∀ D l, (D, l) ∈ ds → is_dir_oid D = true ∧ ∀ e, e ∈ l → is_dir_oid e = false) →
  flags_ok (index_succeeded ix ds).
Proof.
  unfold index_succeeded. induction ds as [|[D l] ds IH]; intros ix Hf Hds; cbn [foldl]; [done|].
  apply IH; [|intros D' l' H; apply Hds; by right]. cbn [fst snd].
  destruct (Hds D l) as [? ?]; [by left|]. by apply ix_update_flags.
Qed.

(* ------------------------------------------------------------------------------------ *)
(* The invariant *)

(* the directory objects in play are flat listings, stored under directory ids *)
Definition wf_env (E : env) : Prop :=
  ∀ D l, e_trees E !! D = Some l → is_dir_oid D = true ∧ ∀ o, o ∈ l → is_dir_oid o = false.
(* a set of objects is closed: with a directory object it holds everything the object lists *)
Definition closed_in (E : env) (X : store) : Prop :=
  ∀ D l, D ∈ X → e_trees E !! D = Some l → ∀ o, o ∈ l → o ∈ X.
(* a closed request: directories are listed with their files ... *)
Definition closed_req (E : env) (req : list oid) : Prop :=
  ∀ D l, D ∈ req → e_trees E !! D = Some l → ∀ o, o ∈ l → o ∈ req.
(* ... or the transfer is asked to expand them (shallow = false) *)
Definition closed_op (E : env) (o : op) : Prop :=
  match o with
  | Push req sh _ => sh = true → closed_req E req
  | _ => True
  end.

Record Inv (E : env) (s : state) : Prop := {
  inv_remote : s_remote s ⊆ s_ever s;
  inv_closed : closed_in E (s_ever s);
  inv_index : ∀ o, o ∈ dom (s_idx s) → o ∈ s_ever s;
  inv_flags : flags_ok (s_idx s) }.

Lemma wf_loader_from E st : wf_env E → wf_loader (load_from E st).
Proof.
  intros Hw D l. unfold load_from. destruct (decide (D ∈ st)); [|discriminate].
  intros Hl. by apply (Hw D l).
Qed.

Lemma load_from_trees E st D l : load_from E st D = Some l → D ∈ st ∧ e_trees E !! D = Some l.
Proof. unfold load_from. destruct (decide (D ∈ st)); [auto|discriminate]. Qed.

Lemma Inv_init E remote : closed_in E remote → Inv E (init_state remote).
Proof.
  intros Hc. split; cbn; [done|done| |apply flags_ok_empty].
  intros o. rewrite dom_empty_L. set_solver.
Qed.

(* a status query against the remote through the shared index keeps the invariant, whatever
   store the directory objects are loaded from *)
Lemma Inv_status_ix E s ld_st q sh e m ix' :
  wf_env E → Inv E s →
  status_ix (s_remote s) (load_from E ld_st) (s_idx s) q sh = Ok (e, m, ix') →
  Inv E {| s_remote := s_remote s; s_idx := ix'; s_ever := s_ever s |} ∧
  (∀ o, o ∈ e → o ∈ s_ever s).
Proof.
  intros Hw [Hr Hc Hi Hf] H.
  destruct (status_ix_sound (λ o, o ∈ s_ever s) _ _ _ _ _ _ _ _ H) as [H1 H2].
  - set_solver.
  - intros D l HD Hl o Ho. apply load_from_trees in Hl as [_ Hl]. apply (Hc D l); auto.
  - done.
  - split; [|done]. split; cbn; [done|done|done|].
    by destruct (status_dir_fresh _ _ _ _ _ _ _ _ H (wf_loader_from E ld_st Hw) Hf) as (_ & _ & ?).
Qed.

Lemma Inv_clear_index E s : Inv E s → Inv E {| s_remote := s_remote s; s_idx := ∅; s_ever := s_ever s |}.
Proof.
  intros [Hr Hc Hi Hf]. split; cbn; [done|done| |apply flags_ok_empty].
  intros o. rewrite dom_empty_L. set_solver.
Qed.

Lemma Inv_same_stores E s s' :
  Inv E s → s_remote s' = s_remote s → s_ever s' = s_ever s → s_idx s' = s_idx s → Inv E s'.
Proof. intros [Hr Hc Hi Hf] H1 H2 H3. split; rewrite ?H1, ?H2, ?H3; done. Qed.

(* -------- Query *)
Lemma Inv_step_query E s q sh : wf_env E → Inv E s → Inv E (step E s (Query q sh)).1.
Proof.
  intros Hw HI. cbn [step].
  destruct (status_ix (s_remote s) (load_from E (e_src E)) (s_idx s) q sh) as [[[e m] ix']|] eqn:Es; [|done].
  cbn [fst]. by destruct (Inv_status_ix _ _ _ _ _ _ _ _ Hw HI Es).
Qed.

(* -------- ExtDelete *)
Lemma Inv_step_delete E s os : Inv E s → Inv E (step E s (ExtDelete os)).1.
Proof. intros [Hr Hc Hi Hf]. cbn. split; cbn; [set_solver|done..]. Qed.

(* -------- Fetch *)
Lemma Inv_step_fetch E s loc req sh fails :
  wf_env E → Inv E s → Inv E (step E s (Fetch loc req sh fails)).1.
Proof.
  intros Hw HI. cbn [step].
  destruct (compare_status _ _ _ _ _ _ _ _ _) as [[[c six'] dix']|] eqn:Ec; [|done].
  apply compare_combines in Ec as (dex & dmiss & sex & smiss & Hd & Hs & _).
  assert (HI1 : Inv E {| s_remote := s_remote s; s_idx := default (s_idx s) six'; s_ever := s_ever s |}).
  { destruct (negb (bool_decide (dmiss = ∅)) || false).
    - apply status_some_inv in Hs as (ix' & -> & Hs). cbn [default].
      by destruct (Inv_status_ix _ _ _ _ _ _ _ _ Hw HI Hs).
    - destruct Hs as (_ & _ & ->). cbn [default]. by destruct s. }
  destruct (transfer_tail _ _ _ _) as [x|]; cbn [fst]; [|done].
  destruct (decide (x_failed x = ∅)); [done|]. by apply (Inv_clear_index _ _ HI1).
Qed.

(* -------- Push *)
Lemma Inv_step_push E s req sh fails :
  wf_env E → Inv E s → (sh = true → closed_req E req) → Inv E (step E s (Push req sh fails)).1.
Proof.
  intros Hw HI Hcl. cbn [step]. set (ld := load_from E (e_src E)).
  destruct (compare_status _ _ _ _ _ _ _ _ _) as [[[c six'] dix']|] eqn:Ec; [|done].
  apply compare_combines in Ec as (dex & dmiss & sex & smiss & Hd & Hs & Hc).
  apply status_some_inv in Hd as (ix1 & -> & Hd). cbn [default].
  destruct (Inv_status_ix _ _ _ _ _ _ _ _ Hw HI Hd) as [HI1 Hdex].
  destruct (transfer_tail (e_src E) ld c (list_to_set fails)) as [x|] eqn:Et; cbn [fst]; [|done].
  unfold transfer_tail in Et. destruct (decide (c_new c = ∅)) as [Hn|Hn].
  { inversion Et; subst x; clear Et. cbn [x_delivered x_failed x_succ_dirs].
    destruct (decide (∅ = ∅)); [|done]. cbn [index_succeeded foldl].
    eapply Inv_same_stores; [exact HI1|cbn; apply union_empty_r_L..|done]. }
  apply do_transfer_ok in Et as (Hdel1 & Hdel2 & Hsucc).
  (* the source was consulted: something is new *)
  destruct (negb (bool_decide (dmiss = ∅)) || false) eqn:Eb.
  2:{ destruct Hs as (-> & -> & _). exfalso. apply Hn. apply set_eq. intros o.
      destruct (Hc o) as (_ & -> & _). set_solver. }
  apply status_exact_sets in Hs as (ids & Hcol & Hsex & Hsmiss & _).
  apply status_ix_inv in Hd as (ids' & Hcol' & Hdsub & Hdmiss & _).
  rewrite Hcol in Hcol'. inversion Hcol'; subst ids'; clear Hcol'.
  destruct HI1 as [Hr1 Hc1 Hi1 Hf1]. cbn [s_remote s_idx s_ever] in *.
  (* closure of what the remote ever held, after the delivery *)
  assert (Hclosed : closed_in E (s_ever s ∪ x_delivered x)).
  { intros D l HD Hl o Ho. apply elem_of_union in HD as [HD|HD].
    { apply elem_of_union_l. by apply (Hc1 D l). }
    destruct (Hw D l Hl) as [HDd Hlnd].
    destruct (Hdel2 D HD) as (HDnew & _ & Hrule). destruct (Hrule HDd) as (l' & Hl' & Hr).
    apply load_from_trees in Hl' as [_ Hl']. rewrite Hl in Hl'. inversion Hl'; subst l'; clear Hl'.
    (* D was requested, so everything it lists was queried *)
    assert (HDids : D ∈ ids). { destruct (Hc D) as (_ & HDn & _). apply HDn in HDnew as [HDs _]. rewrite Hsex in HDs.
      by apply elem_of_intersection in HDs as [? _]. }
    assert (HDq : D ∈ req).
    { assert (D ∈ req_dirs req) by (eapply queried_dir; eauto using wf_loader_from).
      by apply req_dirs_spec in H as [? _]. }
    assert (Hoids : o ∈ ids).
    { apply (collect_spec _ _ _ _ Hcol). destruct sh.
      - left. by apply (Hcl eq_refl D l).
      - right. split; [done|]. exists D, l. split_and!; auto.
        unfold ld, load_from. rewrite decide_True; [done|]. destruct (Hdel2 D HD) as (_ & Hu & _).
        by apply up_ok_src in Hu. }
    destruct (decide (o ∈ dex)) as [Hod|Hod]; [apply elem_of_union_l; auto|].
    apply elem_of_union_r.
    unfold dir_rule in Hr.
    destruct (existsb _ l) eqn:Ex1 in Hr; [discriminate|].
    destruct (existsb _ l) eqn:Ex2 in Hr; [discriminate|].
    destruct (decide (o ∈ e_src E)) as [Hos|Hos].
    - assert (Honew : o ∈ c_new c). { destruct (Hc o) as (_ & -> & _). split; [|done]. rewrite Hsex. by apply elem_of_intersection. }
      assert (Honf : o ∈ c_new c ∖ filter (λ o, is_dir_oid o = true) (c_new c)).
      { apply elem_of_difference. split; [done|]. intros Hf. apply elem_of_filter in Hf as [Hf _].
        rewrite (Hlnd o Ho) in Hf. discriminate. }
      apply Hdel1; [done|].
      destruct (up_ok (e_src E) (list_to_set fails) o) eqn:Eu; [done|]. exfalso.
      assert (existsb (λ e, bool_decide (e ∈ c_new c ∖ filter (λ o, is_dir_oid o = true) (c_new c))
                            && negb (up_ok (e_src E) (list_to_set fails) e)) l = true); [|congruence].
      apply existsb_exists. exists o. split; [by apply elem_of_list_In|].
      rewrite Eu. cbn. rewrite andb_true_r. by apply bool_decide_eq_true.
    - exfalso.
      assert (existsb (λ e, bool_decide (e ∈ c_missing c)) l = true); [|congruence].
      apply existsb_exists. exists o. split; [by apply elem_of_list_In|].
      apply bool_decide_eq_true. destruct (Hc o) as (_ & _ & _ & ->).
      split; [rewrite Hsmiss|rewrite Hdmiss]; by apply elem_of_difference. }
  assert (Hsuccl : ∀ D l, (D, l) ∈ x_succ_dirs x → e_trees E !! D = Some l).
  { intros D l H. destruct (Hsucc D l H) as (_ & _ & Hl). by apply load_from_trees in Hl as [_ ?]. }
  split; cbn [s_remote s_idx s_ever].
  - intros o Ho. apply elem_of_union in Ho as [Ho|Ho]; [apply elem_of_union_l; auto|by apply elem_of_union_r].
  - done.
  - destruct (decide (x_failed x = ∅)); [|intros o Ho; apply elem_of_union_l; auto].
    intros o Ho. apply index_succeeded_dom in Ho as [Ho|(D & l & HDl & Ho)].
    + apply elem_of_union_l. auto.
    + assert (D ∈ s_ever s ∪ x_delivered x).
      { apply elem_of_union_r. by destruct (Hsucc D l HDl). }
      destruct Ho as [->|Ho]; [done|]. apply (Hclosed D l); auto.
  - destruct (decide (x_failed x = ∅)); [|done]. apply index_succeeded_flags; [done|].
    intros D l HDl. destruct (Hw D l (Hsuccl D l HDl)). auto.
Qed.

(* -------- every step, every history *)
Lemma Inv_step E s o : wf_env E → closed_op E o → Inv E s → Inv E (step E s o).1.
Proof.
  intros Hw Hop HI. destruct o as [req sh fails|loc req sh fails|os|q sh].
  - by apply Inv_step_push.
  - by apply Inv_step_fetch.
  - by apply Inv_step_delete.
  - by apply Inv_step_query.
Qed.

Lemma Inv_run E ops : ∀ s, wf_env E → Forall (closed_op E) ops → Inv E s → Inv E (run E s ops).
Proof.
  unfold run. induction ops as [|o ops IH]; intros s Hw Hops HI; cbn [foldl]; [done|].
  inversion Hops; subst. apply IH; [done|done|]. by apply Inv_step.
Qed.

Lemma index_sound E remote ops :
  wf_env E → closed_in E remote → Forall (closed_op E) ops →
  Inv E (run E (init_state remote) ops).
Proof. intros Hw Hc Hops. apply Inv_run; [done|done|]. by apply Inv_init. Qed.

(* ------------------------------------------------------------------------------------ *)
(* Corollaries in the shape of the property *)

(* the statement of DESIGN section 6 (for closed histories the first disjunct always holds) *)
Lemma index_sound_listed E remote ops :
  wf_env E → closed_in E remote → Forall (closed_op E) ops →
  ∀ o, o ∈ dom (s_idx (run E (init_state remote) ops)) →
    o ∈ s_ever (run E (init_state remote) ops) ∨
    ∃ D l, D ∈ s_remote (run E (init_state remote) ops) ∧ e_trees E !! D = Some l ∧ o ∈ l.
Proof. intros Hw Hc Hops o Ho. left. by apply (inv_index _ _ (index_sound E remote ops Hw Hc Hops)). Qed.

(* what [s_ever] means: exactly the union of the contents the remote had along the history *)
Lemma step_ever E s o :
  s_remote s ⊆ s_ever s → s_ever (step E s o).1 = s_ever s ∪ s_remote (step E s o).1.
Proof.
  intros Hr. destruct o as [req sh fails|loc req sh fails|os|q sh]; cbn [step].
  - destruct (compare_status _ _ _ _ _ _ _ _ _) as [[[c six'] dix']|]; [|cbn; set_solver].
    destruct (transfer_tail _ _ _ _) as [x|]; cbn; set_solver.
  - destruct (compare_status _ _ _ _ _ _ _ _ _) as [[[c six'] dix']|]; [|cbn; set_solver].
    destruct (transfer_tail _ _ _ _) as [x|]; cbn; set_solver.
  - cbn. set_solver.
  - destruct (status_ix _ _ _ _ _) as [[[e m] ix']|]; cbn; set_solver.
Qed.

(* nothing is invented: what the remote ever held was there initially or came from the source *)
Lemma step_ever_src E s o x : x ∈ s_ever (step E s o).1 → x ∈ s_ever s ∨ x ∈ e_src E.
Proof.
  destruct o as [req sh fails|loc req sh fails|os|q sh]; cbn [step].
  - destruct (compare_status _ _ _ _ _ _ _ _ _) as [[[c six'] dix']|]; [|cbn; auto].
    destruct (transfer_tail _ _ _ _) as [x0|] eqn:Et; cbn [fst s_ever]; [|auto].
    rewrite elem_of_union. intros [?|Hx]; [auto|]. right.
    unfold transfer_tail in Et. destruct (decide (c_new c = ∅)).
    + inversion Et; subst x0. cbn in Hx. set_solver.
    + apply do_transfer_ok in Et as (_ & H2 & _). destruct (H2 x Hx) as (_ & Hu & _).
      by apply up_ok_src in Hu.
  - destruct (compare_status _ _ _ _ _ _ _ _ _) as [[[c six'] dix']|]; [|cbn; auto].
    destruct (transfer_tail _ _ _ _) as [x0|]; cbn; auto.
  - cbn. auto.
  - destruct (status_ix _ _ _ _ _) as [[[e m] ix']|]; cbn; auto.
Qed.

Lemma run_ever_src E ops : ∀ s x, x ∈ s_ever (run E s ops) → x ∈ s_ever s ∨ x ∈ e_src E.
Proof.
  unfold run. induction ops as [|o ops IH]; intros s x; cbn [foldl]; [auto|].
  intros H. apply IH in H as [H|?]; [|auto]. by apply step_ever_src in H.
Qed.

(* C12_dir_fresh along a history: the shared index is always well flagged, so a status query
   through it never reports a directory object that is not in the remote at query time *)
Lemma history_dir_fresh E remote ops q sh s' ex mi :
  wf_env E → closed_in E remote → Forall (closed_op E) ops →
  step E (run E (init_state remote) ops) (Query q sh) = (s', OStatus ex mi) →
  ∀ D, D ∈ ex → is_dir_oid D = true → D ∈ s_remote (run E (init_state remote) ops).
Proof.
  intros Hw Hc Hops. pose proof (index_sound E remote ops Hw Hc Hops) as HI.
  cbn [step]. destruct (status_ix _ _ _ _ _) as [[[e m] ix']|] eqn:Es; [|discriminate].
  intros H; inversion H; subst; clear H.
  by destruct (status_dir_fresh _ _ _ _ _ _ _ _ Es (wf_loader_from E _ Hw) (inv_flags _ _ HI)) as (? & _).
Qed.

(* ------------------------------------------------------------------------------------ *)
(* Non-vacuity: a concrete environment and history satisfying every hypothesis above, in
   which a shared file fails to upload (both directories withheld), the retry succeeds and
   indexes, an external deletion makes the index stale, and a status query clears it. *)
Module Ex.
  Definition F1 : oid := [1].
  Definition F2 : oid := [2].
  Definition F3 : oid := [3].
  Definition D1 : oid := [7] ++ dot_dir.
  Definition D2 : oid := [8] ++ dot_dir.
  Definition E : env :=
    {| e_src := {[F1; F2; F3; D1; D2]};
       e_trees := list_to_map [(D1, [F1; F2]); (D2, [F2; F3])] |}.
  Definition ops : list op :=
    [ Push [D1; F1; F2; D2; F3] true [F2];      (* F2 fails: D1 and D2 withheld *)
      Query [D1; F1] true;
      Push [D1; D2] false [];                   (* expanded retry: everything arrives, indexed *)
      ExtDelete [D1; F1];                       (* behind the index's back *)
      Query [F1; F2] true;                      (* no directory asked: the stale index answers *)
      Fetch [F3] [F1; F2] true [];              (* ... and a fetch trusting it fails on F1 *)
      Query [D1; D2; F1] true ].                (* D1 asked: D2 re-validated and re-indexed *)

  Lemma wf : wf_env E.
  Proof.
    intros D l H. apply elem_of_list_to_map_2 in H.
    repeat (apply elem_of_cons in H as [H|H]; [inversion H; subst; clear H|]); [| |inversion H].
    - split; [reflexivity|]. intros o Ho.
      repeat (apply elem_of_cons in Ho as [->|Ho]; [reflexivity|]). inversion Ho.
    - split; [reflexivity|]. intros o Ho.
      repeat (apply elem_of_cons in Ho as [->|Ho]; [reflexivity|]). inversion Ho.
  Qed.

  Lemma closed_init : closed_in E ∅.
  Proof. intros D l H. set_solver. Qed.

  Lemma closed_ops : Forall (closed_op E) ops.
  Proof.
    unfold ops. repeat (apply Forall_cons; split); [..|apply Forall_nil]; cbn [closed_op]; try done.
    intros _ D l HD H. apply elem_of_list_to_map_2 in H.
    repeat (apply elem_of_cons in H as [H|H]; [inversion H; subst; clear H|]); [| |inversion H];
      intros o Ho; repeat (apply elem_of_cons in Ho as [->|Ho]; [set_solver|]); inversion Ho.
  Qed.

  Example trace_ok :
    match trace E (init_state ∅) ops with
    | [(OTransfer _ t0 f0, s0); (OStatus e1 m1, s1); (OTransfer _ t2 f2, s2); (ONone, s3);
       (OStatus e4 m4, s4); (OTransfer c5 t5 f5, s5); (OStatus e6 m6, s6)] =>
        same_set t0 [F1; F3] && same_set f0 [F2; D1; D2] && same_set (s_remote s0) [F1; F3]
        && same_set (dom (s_idx s0)) []
        && same_set e1 [F1] && same_set m1 [D1]
        && same_set t2 [D1; D2; F2] && same_set f2 []
        && same_set (dom (s_idx s2)) [D1; D2; F1; F2; F3] && same_set (ix_dirs (s_idx s2)) [D1; D2]
        && same_set (s_remote s3) [F2; F3; D2]
        && same_set e4 [F1; F2] && same_set m4 []
        && same_set (c_new c5) [F1; F2] && same_set t5 [F2] && same_set f5 [F1]
        && same_set (dom (s_idx s5)) []
        && same_set e6 [D2] && same_set m6 [D1; F1]
        && same_set (dom (s_idx s6)) [D2; F2; F3] && same_set (ix_dirs (s_idx s6)) [D2]
        && same_set (s_remote s6) [F2; F3; D2]
        && same_set (s_ever s6) [F1; F2; F3; D1; D2] = true
    | _ => False
    end.
  Proof. vm_compute. reflexivity. Qed.

  Example inv_final : Inv E (run E (init_state ∅) ops).
  Proof. apply index_sound; [apply wf|apply closed_init|apply closed_ops]. Qed.
End Ex.
