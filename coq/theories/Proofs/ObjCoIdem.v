(* A second checkout over a workspace that already equals the cached target has nothing to do. *)
From Coq Require Import NArith List Bool Lia.
From DvcData Require Import Base.Val Base.PyBase Gen.PyTypes Gen.ODiff Gen.Relink Model.ObjCheckout Proofs.ObjCheckoutProofs Proofs.ObjCheckoutProofs2 Proofs.ObjCoBase Proofs.ObjCoForced.
Import ListNotations.
Open Scope N_scope.

Section Second.
Variable H : bytes -> oid.
Variables (g : cfg) (c : cache) (w : ws) (tgt : list (key * oid)) (order : list key).
Hypothesis Hne : forall b, is_nil (H b) = false.
Hypothesis Hst : stageable w = true.
Hypothesis Htgt : forall k o, kassoc k tgt = Some o ->
  is_nil o = false /\ HashInfo_isdir (hi o) = false /\ exists co, oassoc o c = Some co.
Hypothesis Hintact : forall o co, oassoc o c = Some co -> H (c_bytes co) = o.
Hypothesis Hconv : forall k, option_map f_bytes (kassoc k w) = expected c tgt k.

Notation mk := (mk_change H c w tgt).
Notation chs := (chsOf H c w tgt order).

Lemma all_unchanged ch : In ch chs ->
  typ_is ochange_UNCHANGED ch = true /\
  exists n o co, ch = mk (ch_key ch) /\ kassoc (ch_key ch) w = Some n /\ kassoc (ch_key ch) tgt = Some o /\
                 oassoc o c = Some co /\ H (f_bytes n) = o.
Proof.
  intros Hc. pose proof (chs_from H c w tgt order ch Hc) as E.
  assert (Hb : (truthy_oid (c_old ch) || truthy_oid (c_new ch))%bool = true)
    by (unfold chsOf, changes in Hc; apply filter_In in Hc; tauto).
  remember (ch_key ch) as k eqn:Ek. clear Ek. subst ch.
  rewrite (truthy_old_mk' H c w tgt Hne Hst), (truthy_new_mk H c w tgt Htgt) in Hb.
  unfold typ_is. rewrite (typ_mk H c w tgt Hne Hst Htgt). pose proof (Hconv k) as Hk. unfold expected in Hk.
  destruct (kassoc k w) as [n|] eqn:Ew; destruct (kassoc k tgt) as [o|] eqn:Et; simpl in *; try discriminate.
  - destruct (Htgt k o Et) as [_ [_ [co Eo]]]. rewrite Eo in Hk. simpl in Hk. injection Hk as Hk.
    assert (Hh : H (f_bytes n) = o) by (rewrite Hk; now apply Hintact).
    rewrite Hh, (proj2 (list_N_eqb_spec o o) eq_refl). split; [reflexivity|].
    exists n, o, co. auto.
  - destruct (Htgt k o Et) as [_ [_ [co Eo]]]. rewrite Eo in Hk. discriminate.
Qed.

Lemma cls_other_nil T : T <> ochange_UNCHANGED -> filter (typ_is T) chs = [].
Proof.
  intros HT. apply filter_all_false. intros ch Hc. destruct (all_unchanged ch Hc) as [Hu _].
  destruct (typ_is T ch) eqn:E; [|reflexivity]. exfalso. apply HT. exact (typ_excl _ _ _ E Hu).
Qed.

Lemma second_nothing : (forall ch, In ch chs -> extra_modified g ch = false) ->
  checkout H g c w tgt order =
  mk_result ONothing w c (if (g_relink g && g_state g)%bool then Some (link_record (clsU H c w tgt order) []) else None).
Proof.
  intros Hx. rewrite checkout_unfold.
  assert (ED : clsD H c w tgt order = []) by (apply cls_other_nil; discriminate).
  assert (EA : clsA H c w tgt order = []) by (apply cls_other_nil; discriminate).
  assert (EM : clsM H c w tgt order = []) by (apply cls_other_nil; discriminate).
  assert (EX : clsX H g c w tgt order = []).
  { apply filter_all_false. intros ch Hc. apply Hx. unfold clsU in Hc. now apply filter_In in Hc. }
  rewrite ED, EA, EM, EX. reflexivity.
Qed.

(* plain second call *)
Theorem second_plain : g_relink g = false -> checkout H g c w tgt order = mk_result ONothing w c None.
Proof.
  intros Hr. rewrite second_nothing; [now rewrite Hr|].
  intros ch Hc. destruct (all_unchanged ch Hc) as [_ [n [o [co [E [Ew [Et [Eo Hh]]]]]]]].
  unfold extra_modified. rewrite Hr, E. unfold TreeEntry_in_cache.
  now rewrite (mk_new_cache_meta H c w tgt Htgt _ o co Et Eo).
Qed.

(* relinking second call, single configured type: nothing is re-linked when every file already has it *)
Theorem second_relink t : g_relink g = true -> g_types g = [lkind_name t] ->
  (forall k n o co, kassoc k w = Some n -> kassoc k tgt = Some o -> oassoc o c = Some co ->
                    has_kind t (meta_of n) (Some (cmeta_of co)) o) ->
  checkout H g c w tgt order =
  mk_result ONothing w c (if g_state g then Some (link_record (clsU H c w tgt order) []) else None).
Proof.
  intros Hr Hty Hk. rewrite second_nothing; [now rewrite Hr|].
  intros ch Hc. destruct (all_unchanged ch Hc) as [_ [n [o [co [E [Ew [Et [Eo Hh]]]]]]]].
  unfold extra_modified, wants_relink. rewrite Hr, E.
  rewrite (new_isdir_mk H c w tgt Htgt), (mk_old_meta H c w tgt Hst _ n Ew),
          (mk_new_cache_meta H c w tgt Htgt _ o co Et Eo), (new_oid_mk H c w tgt), Et.
  unfold ci. rewrite Hty. apply needs_relink_complete; [|eapply Hk; eauto].
  destruct (Htgt _ _ Et) as [Hn _]. intros ->. discriminate.
Qed.

End Second.
