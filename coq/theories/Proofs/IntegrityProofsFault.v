(* C07, fault layer: (1) on fault-free worlds Model/IntegrityFault.v coincides with the pure layer;
   (2) a tampered object is never served, even if its deletion fails. *)
From Coq Require Import NArith List Bool Lia.
From DvcData Require Import Base.Val Gen.Check Model.StateDbBase Model.Integrity Model.IntegrityFault Proofs.IntegrityProofs Proofs.IntegrityProofsFold.
Import ListNotations.
Open Scope N_scope.

Section WithDigest.
  Variable H : name -> bytes -> oid.

  Notation check := (check H).
  Notation fcheck := (fcheck H).
  Notation Tampered := (Tampered H).

  Lemma frun_base_nofail acts : forall w o db',
    frun_base false w o db' acts = (run_base w o db' acts, false).
  Proof.
    induction acts as [|a acts IH]; intros w o db'; simpl; auto.
    destruct a; auto.
  Qed.

  Definition calm_w (w : world) : fworld := FW w None false.

  (* ---------------------------------------------------------------- (1) refinement *)
  Lemma fcheck_calm w o : fcheck (calm_w w) o = (fst (check w o), calm_w (snd (check w o))).
  Proof.
    unfold IntegrityFault.fcheck, Integrity.check, calm_w. simpl.
    destruct (lookup o (w_objs w)) as [ob|]; auto.
    unfold fbase_check, del_fails. simpl. rewrite frun_base_nofail. simpl.
    destruct (w_cls w); auto.
    destruct (Local_check (o_mode ob)) as [|[] ?]; auto.
  Qed.

  Lemma fexist_fold_calm os : forall acc w,
    fold_left (fexist_step H) os (acc, calm_w w) =
    (fst (fold_left (exist_step H) os (acc, w)), calm_w (snd (fold_left (exist_step H) os (acc, w)))).
  Proof.
    induction os as [|o os IH]; intros acc w; simpl; auto.
    unfold fexist_step at 2, exist_step at 2 4. simpl. rewrite fcheck_calm. simpl. apply IH.
  Qed.

  Lemma fcheck_all_calm os : forall w, fcheck_all H (calm_w w) os = calm_w (check_all H w os).
  Proof.
    induction os as [|o os IH]; intros w; simpl; auto. rewrite fcheck_calm. simpl. apply IH.
  Qed.

  Lemma fpre_fold_calm items : forall w,
    fold_left (fpre_step H) items (calm_w w) = calm_w (fold_left (pre_step H) items w).
  Proof.
    induction items as [|i items IH]; intros w; simpl; auto.
    unfold fpre_step at 2, pre_step at 2. rewrite fcheck_calm. simpl. apply IH.
  Qed.

  Lemma fcopy_fold_calm items : forall n w,
    fold_left fcopy_step items (n, calm_w w) =
    (fst (fold_left copy_step items (n, w)), calm_w (snd (fold_left copy_step items (n, w)))).
  Proof.
    induction items as [|i items IH]; intros n w; simpl; auto.
    unfold fcopy_step at 2. simpl. unfold with_w. simpl.
    destruct (copy_step (n, w) i) as [n' w'] eqn:E. simpl. apply IH.
  Qed.

  Lemma fpost_fold_calm v items : forall acc w,
    fold_left (fpost_step H v) items (acc, calm_w w) =
    (fst (fold_left (post_step H v) items (acc, w)), calm_w (snd (fold_left (post_step H v) items (acc, w)))).
  Proof.
    induction items as [|i items IH]; intros acc w; simpl; auto.
    unfold fpost_step at 2, post_step at 2 4. simpl. destruct v.
    - rewrite fcheck_calm. simpl.
      destruct (fst (check w (it_oid i)) =? 0); simpl; [apply IH|].
      destruct (fst (check w (it_oid i)) =? 3); simpl; apply IH.
    - apply IH.
  Qed.

  Lemma fsave_fold_calm items : forall w,
    fold_left fsave_step items (calm_w w) = calm_w (fold_left save_step items w).
  Proof.
    induction items as [|i items IH]; intros w; simpl; auto. apply IH.
  Qed.

  Lemma fcheck_seq_calm os : forall w,
    fcheck_seq H (calm_w w) os = (fst (check_seq H w os), calm_w (snd (check_seq H w os))).
  Proof.
    induction os as [|o os IH]; intros w; simpl; auto. rewrite fcheck_calm. simpl.
    destruct (fst (check w o) =? 0); auto.
  Qed.

  Lemma foids_exist_calm w os :
    foids_exist H (calm_w w) os = (fst (oids_exist H w os), calm_w (snd (oids_exist H w os))).
  Proof.
    unfold foids_exist, oids_exist. cbn [f_w calm_w]. destruct (w_cls w).
    - change (FW w None false) with (calm_w w). apply fexist_fold_calm.
    - reflexivity.
  Qed.

  Lemma fadd_calm w v items :
    fadd H (calm_w w) v items = (fst (add H w v items), calm_w (snd (add H w v items))).
  Proof.
    unfold fadd, add. cbn [f_w calm_w].
    destruct (match v with Some b => b | None => w_verify w end).
    - rewrite fpre_fold_calm, fcopy_fold_calm. cbn [snd fst].
      rewrite fpost_fold_calm. cbn [snd fst]. rewrite fsave_fold_calm. reflexivity.
    - change (FW w None false) with (calm_w w). rewrite fcopy_fold_calm. cbn [snd fst].
      rewrite fpost_fold_calm. cbn [snd fst]. rewrite fsave_fold_calm. reflexivity.
  Qed.

  Lemma fstep_calm w p : fstep H (calm_w w) p = (calm_w (fst (step H w p)), snd (step H w p)).
  Proof.
    destruct p as [v items|v items|o|os|o|d ents|o b m t|o|o|o alg vv| |os|v items|o]; try reflexivity.
    - (* add *)
      unfold fstep, step. rewrite fadd_calm. reflexivity.
    - (* add through a read-only handle *)
      unfold fstep, step, add_ro. cbn [f_w calm_w].
      destruct (match v with Some b => b | None => w_verify w end); [|reflexivity].
      rewrite fpre_fold_calm. reflexivity.
    - unfold fstep, step. rewrite fcheck_calm. reflexivity.
    - unfold fstep, step. rewrite foids_exist_calm. reflexivity.
    - unfold fstep, step, fcheckout, checkout. rewrite fcheck_calm. cbn.
      destruct (lookup o (w_objs (snd (check w o)))); reflexivity.
    - unfold fstep, step, fcheckout_dir, checkout_dir. rewrite fcheck_all_calm. reflexivity.
    - unfold fstep, step. rewrite fcheck_seq_calm. reflexivity.
    - unfold fstep, step, fxfer, xfer. rewrite foids_exist_calm. cbn [fst snd].
      destruct (xfer_new (fst (oids_exist H w (map it_oid items))) items) as [|i new]; [reflexivity|].
      rewrite fadd_calm. reflexivity.
  Qed.

  Theorem frun_refines h : forall w,
    frun H (calm_w w) h = (fst (run H w h), calm_w (snd (run H w h))).
  Proof.
    induction h as [|p h IH]; intros w; simpl; auto.
    rewrite fstep_calm. simpl. rewrite IH. reflexivity.
  Qed.

  (* ---------------------------------------------------------------- (2) no serving under a delete fault *)
  (* a check either behaves as the pure check (no removal failed) or leaves with the OSError: the
     exception is in flight and no object has been touched *)
  Lemma fcheck_cases fw o : f_abort fw = false ->
    fcheck fw o = (fst (check (f_w fw) o), FW (snd (check (f_w fw) o)) (f_shard fw) false) \/
    (fst (fcheck fw o) = 98 /\ f_abort (snd (fcheck fw o)) = true /\
     w_objs (f_w (snd (fcheck fw o))) = w_objs (f_w fw)).
  Proof.
    intros A. destruct fw as [w sh ab]. simpl in A. subst ab.
    unfold IntegrityFault.fcheck, Integrity.check. simpl.
    destruct (lookup o (w_objs w)) as [ob|]; auto.
    assert (B : (let r := fbase_check H (del_fails (FW w sh false) o) w o ob in
                 (fst (fst r), FW (snd (fst r)) sh (snd r))) =
                (fst (base_check H w o ob), FW (snd (base_check H w o ob)) sh false) \/
                (let r := fbase_check H (del_fails (FW w sh false) o) w o ob in
                 fst (fst r) = 98 /\ snd r = true /\ w_objs (snd (fst r)) = w_objs w)).
    { unfold fbase_check, base_check. destruct (del_fails (FW w sh false) o).
      - unfold Base_check. cbn [negb].
        destruct (list_N_eqb (split_dot0 (fst (hash_file H w o ob))) (split_dot0 o)); simpl; auto.
      - left. rewrite frun_base_nofail. reflexivity. }
    destruct (w_cls w).
    - destruct (Local_check (o_mode ob)) as [|[] ?]; auto.
    - exact B.
  Qed.

  Lemma fcheck_aborted fw o : f_abort fw = true -> fcheck fw o = (98, fw).
  Proof. intros A. unfold IntegrityFault.fcheck. now rewrite A. Qed.

  (* ---- no query reports a tampered object valid *)
  Theorem fault_check_rejects fw o ob : f_abort fw = false -> Tampered (f_w fw) o ob ->
    fst (fcheck fw o) <> 0.
  Proof.
    intros A T. destruct (fcheck_cases fw o A) as [E|(E & _)]; rewrite E; [|discriminate].
    simpl. destruct (reject H (f_w fw) o ob T) as [R _]. rewrite R. discriminate.
  Qed.

  (* ---- checkout of a file target *)
  Theorem no_serve_file fw o ob : f_abort fw = false -> Tampered (f_w fw) o ob ->
    fst (fst (fcheckout H fw o)) <> 0 /\ snd (fst (fcheckout H fw o)) = None.
  Proof.
    intros A T. unfold fcheckout.
    destruct (fcheck_cases fw o A) as [E|(_ & E & _)].
    - rewrite E. simpl. destruct (reject H (f_w fw) o ob T) as [_ G]. rewrite G. simpl.
      split; [discriminate|reflexivity].
    - rewrite E. simpl. split; [discriminate|reflexivity].
  Qed.

  (* ---- folds of checks: either the exception is in flight, or the pure reasoning applies *)
  Definition FTG (fw : fworld) (o : oid) : Prop := f_abort fw = true \/ TG H (f_w fw) o.

  Lemma FTG_step fw o o' : FTG fw o ->
    FTG (snd (fcheck fw o')) o /\
    (o' = o -> fst (fcheck fw o') <> 0 /\
               (f_abort (snd (fcheck fw o')) = true \/ lookup o (w_objs (f_w (snd (fcheck fw o')))) = None)).
  Proof.
    intros [A|T].
    - rewrite (fcheck_aborted fw o' A). simpl. split; [left; auto|]. intros _. split; [discriminate|auto].
    - destruct (f_abort fw) eqn:A.
      + rewrite (fcheck_aborted fw o' A). simpl. split; [left; auto|]. intros _. split; [discriminate|auto].
      + destruct (fcheck_cases fw o' A) as [E|(E1 & E2 & _)].
        * rewrite E. simpl. destruct (TG_step H (f_w fw) o o' T) as [T' X]. split; [right; exact T'|].
          intros EQ. destruct (X EQ) as [X1 X2]. auto.
        * split; [left; exact E2|]. intros _. rewrite E1. split; [discriminate|auto].
  Qed.

  (* ---- the tree-level check never passes over a tampered object *)
  Theorem fault_check_seq_rejects o ob os : forall fw, f_abort fw = false -> Tampered (f_w fw) o ob ->
    In o os -> fst (fcheck_seq H fw os) <> 0.
  Proof.
    assert (K : forall os fw, FTG fw o -> In o os -> fst (fcheck_seq H fw os) <> 0).
    { induction os0 as [|o' os0 IH]; intros fw T I; simpl; [contradiction|].
      destruct (FTG_step fw o o' T) as [T' X].
      destruct (fst (fcheck fw o') =? 0) eqn:E.
      - apply IH; auto. destruct I as [->|I]; auto.
        destruct (X eq_refl) as [X1 _]. apply N.eqb_eq in E. contradiction.
      - apply N.eqb_neq in E. exact E. }
    intros fw A T I. apply K; auto. right. left. now exists ob.
  Qed.

  Lemma fcheck_all_abort os : forall fw, f_abort fw = true -> f_abort (fcheck_all H fw os) = true.
  Proof.
    induction os as [|o os IH]; intros fw A; simpl; auto. apply IH. now rewrite (fcheck_aborted fw o A).
  Qed.

  Lemma fcheck_gone fw o o' : lookup o (w_objs (f_w fw)) = None ->
    lookup o (w_objs (f_w (snd (fcheck fw o')))) = None.
  Proof.
    intros G. destruct (f_abort fw) eqn:A.
    - now rewrite (fcheck_aborted fw o' A).
    - destruct (fcheck_cases fw o' A) as [E|(_ & _ & E)].
      + rewrite E. simpl. now apply check_gone.
      + now rewrite E.
  Qed.

  Lemma fcheck_all_gone o os : forall fw, lookup o (w_objs (f_w fw)) = None ->
    lookup o (w_objs (f_w (fcheck_all H fw os))) = None.
  Proof.
    induction os as [|o' os IH]; intros fw G; simpl; auto. apply IH. now apply fcheck_gone.
  Qed.

  Lemma fcheck_all_FTG o os : forall fw, FTG fw o ->
    In o os -> f_abort (fcheck_all H fw os) = true \/ lookup o (w_objs (f_w (fcheck_all H fw os))) = None.
  Proof.
    induction os as [|o' os IH]; intros fw T I; simpl; [contradiction|].
    destruct (FTG_step fw o o' T) as [T' X]. destruct I as [->|I].
    - destruct (X eq_refl) as [_ [A|G]].
      + left. now apply fcheck_all_abort.
      + right. now apply fcheck_all_gone.
    - now apply IH.
  Qed.

  (* ---- checkout of a directory target: failure, and no materialised file comes from the entry *)
  Theorem no_serve_dir fw d ents n o ob : f_abort fw = false -> Tampered (f_w fw) o ob -> In (n, o) ents ->
    fst (fst (fcheckout_dir H fw d ents)) <> 0 /\
    forall n' bs, In (n', bs) (snd (fst (fcheckout_dir H fw d ents))) ->
                  exists o', In (n', o') ents /\ o' <> o.
  Proof.
    intros A T I. unfold fcheckout_dir.
    assert (K : f_abort (fcheck_all H fw (d :: map snd ents)) = true \/
                lookup o (w_objs (f_w (fcheck_all H fw (d :: map snd ents)))) = None).
    { apply fcheck_all_FTG. right. left. now exists ob.
      right. apply in_map_iff. exists (n, o). auto. }
    set (fw' := fcheck_all H fw (d :: map snd ents)) in *. clearbody fw'.
    destruct (f_abort fw') eqn:A'.
    - simpl. split; [discriminate|]. intros n' bs [].
    - destruct K as [K|G]; [discriminate|]. simpl. split.
      + destruct (forallb (fun e => has (f_w fw') (snd e)) ents) eqn:E; [|discriminate].
        rewrite forallb_forall in E. specialize (E (n, o) I). unfold has in E. simpl in E.
        rewrite G in E. discriminate.
      + intros n' bs M. apply in_flat_map in M as ([n2 o2] & I2 & M). simpl in M.
        destruct (lookup o2 (w_objs (f_w fw'))) as [ob2|] eqn:L2; [|contradiction].
        destruct M as [M|[]]. injection M as <- <-. exists o2. split; auto.
        intros ->. rewrite G in L2. discriminate.
  Qed.

  (* ---- the existence query on a Local store never reports it *)
  Lemma fexist_fold_tampered o os : forall acc fw, FTG fw o -> ~ In o acc ->
    ~ In o (fst (fold_left (fexist_step H) os (acc, fw))).
  Proof.
    induction os as [|o' os IH]; intros acc fw T NA; simpl; auto.
    destruct (FTG_step fw o o' T) as [T' X]. unfold fexist_step at 2. simpl.
    apply IH; auto.
    destruct (fst (fcheck fw o') =? 0) eqn:E; auto. intros M. apply in_app_or in M as [M|[M|[]]]; auto.
    destruct (X M) as [X1 _]. apply N.eqb_eq in E. contradiction.
  Qed.

  Theorem fault_exists_rejects fw o ob os : f_abort fw = false -> w_cls (f_w fw) = Local ->
    Tampered (f_w fw) o ob -> ~ In o (fst (foids_exist H fw os)).
  Proof.
    intros A C T. unfold foids_exist. rewrite C. apply fexist_fold_tampered; auto.
    right. left. now exists ob.
  Qed.
End WithDigest.

(* the model the correspondence evaluates is the pure model whenever no fault is configured *)
Theorem fenc_run_refines c : fenc_run (FCase c None) = enc_run c.
Proof.
  unfold fenc_run, enc_run. simpl.
  pose proof (frun_refines (tableH (c_tbl c)) (c_ops c) (init_world c)) as R.
  unfold calm_w in R. rewrite R. reflexivity.
Qed.

(* non-vacuity: a tampered object in the faulty shard: check leaves with the OSError, the object
   stays, checkout (file and directory) materialises nothing *)
Example fault_example :
  let H := tableH [([1; 2], [98; 98]); ([3], [97; 97])] in
  let w := W Local md5_name true false 420 [([97; 97], Ob [1; 2] 420 (T 7 20 2))] [] in
  let fw := FW w (Some [97; 97]) false in
  Tampered H w [97; 97] (Ob [1; 2] 420 (T 7 20 2)) /\
  fst (fcheck H fw [97; 97]) = 98 /\
  fst (fcheckout H fw [97; 97]) = (98, None) /\
  fst (fcheckout_dir H fw [100] [([110], [97; 97])]) = (98, []) /\
  w_objs (f_w (snd (fcheckout H fw [97; 97]))) = w_objs w.
Proof.
  simpl. split.
  - split; [reflexivity|]. split; [discriminate|]. split; [discriminate|].
    intros r _ L. discriminate.
  - vm_compute. auto.
Qed.
