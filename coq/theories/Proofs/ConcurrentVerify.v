(* C16, verify=True: the post-add verification step on top of Model/Concurrent.v.
   - without verification steps the extended machine IS the proved one ([vrun_lift]), so no writer
     ever reports a failure and the final store is the expected one ([no_verify_all_succeed]);
   - with them "all writers succeed" is REFUTED ([verify_all_succeed_refuted]): writer 0 places the
     object, writer 1's reflink probe truncates it, writer 0's own post-add verification finds an
     empty file, removes it and reports the object failed - although writer 1 then re-creates it
     and the final store is complete.  Same grant sequence as the replay on the implementation. *)
From Coq Require Import NArith List Bool Arith Lia.
From DvcData Require Import Base.Val Model.Concurrent Proofs.ConcurrentProofs.
Import ListNotations.
Open Scope N_scope.

Lemma nth_error_lift ps i : nth_error (lift ps) i = option_map (map Base) (nth_error ps i).
Proof. unfold lift. apply nth_error_map. Qed.

Lemma upd_lift i rest ps : upd i (map Base rest) (lift ps) = lift (upd i rest ps).
Proof.
  revert i. induction ps as [|p r IH]; intros i; destruct i; simpl; auto.
  unfold lift in *. simpl. rewrite IH. auto.
Qed.

Theorem vrun_lift : forall loc wls sched w fl ps,
  vrun loc wls sched (w, fl) (lift ps) =
  match run wls sched w ps with
  | Some (w', ps') => Some ((w', fl), lift ps')
  | None => None
  end.
Proof.
  intros loc wls sched. induction sched as [|i r IH]; intros w fl ps; simpl; auto.
  rewrite nth_error_lift. destruct (nth_error ps i) as [p|] eqn:E; simpl; auto.
  destruct p as [|s rest]; simpl; auto.
  destruct (exec (nth i wls []) i s w) as [w'|] eqn:Ex; auto.
  rewrite upd_lift. apply IH.
Qed.

Lemma vdone_lift ps : vdone (lift ps) = all_done ps.
Proof.
  unfold vdone, all_done, lift. induction ps as [|p r IH]; simpl; auto.
  rewrite IH. destruct p; auto.
Qed.

(* verify = False: every writer succeeds (nothing is ever reported failed) and the store is right *)
Theorem no_verify_all_succeed : forall loc wls ps sched w' fl q,
  consistent wls -> legal_all loc wls ps = true ->
  vrun loc wls sched (w0, []) (lift ps) = Some ((w', fl), q) -> vdone q = true ->
  fl = [] /\ good_final loc wls w' /\ forall o, view w' o = expected loc wls o.
Proof.
  intros loc wls ps sched w' fl q Hc Hl Hr Hd. rewrite vrun_lift in Hr.
  destruct (run wls sched w0 ps) as [[w1 ps1]|] eqn:Er; try discriminate.
  inversion Hr; subst. rewrite vdone_lift in Hd.
  assert (G : good_final loc wls w') by (eapply any_schedule; eauto).
  split; [reflexivity|]. split; [exact G|]. apply view_expected; auto.
Qed.

(* the witness *)
Definition ex_prog_of (loc : bool) : program :=
  if loc then ex_prog
  else [ExistsCheck ex_o false; Mkdir [97; 97]; ProbeOpen ex_o; ProbeUnlink ex_o; CopyTmp 0 ex_o;
        Rename 0 ex_o; StateUpsert [ex_o]].
Definition vex_a : list vstep :=
  [Base (ExistsCheck ex_o false); Base (Mkdir [97; 97]); Base (ProbeOpen ex_o); Base (ProbeUnlink ex_o);
   Base (CopyTmp 0 ex_o); Base (Rename 0 ex_o); VerifyBad ex_o; VerifyDrop ex_o].
Definition vex_sched : list nat := [0; 0; 0; 0; 0; 0; 1; 1; 1; 0; 0; 1; 1; 1; 1; 1]%nat.
(* the remove delayed until writer 1 has re-created the object: it deletes the COMPLETE object *)
Definition vex_sched_lost : list nat := [0; 0; 0; 0; 0; 0; 1; 1; 1; 0; 1; 1; 1; 0; 1; 1]%nat.

Theorem verify_all_succeed_refuted : forall loc,
  exists w q,
    legal_all loc [ex_its; ex_its] [ex_prog_of loc; ex_prog_of loc] = true /\
    vrun loc [ex_its; ex_its] vex_sched (w0, []) [vex_a; map Base (ex_prog_of loc)] = Some ((w, [(0%nat, ex_o)]), q) /\
    vdone q = true /\ view w ex_o = Some (ex_b, loc).
Proof.
  intros [|]; eexists; eexists; (split; [vm_compute; reflexivity|split; [vm_compute; reflexivity|split; vm_compute; reflexivity]]).
Qed.

(* up to its last step writer 0 follows exactly the legal program of a writer without verification *)
Example vex_a_is_the_legal_prefix : forall loc,
  firstn 6 vex_a = map Base (firstn 6 (ex_prog_of loc)).
Proof. intros [|]; reflexivity. Qed.

(* worse: if writer 0's remove (second half of its check) is delayed until writer 1 has re-created the
   object, it deletes the COMPLETE object: writer 1 ran its whole legal program and reported nothing,
   yet the requested object is absent from the final store *)
Theorem verify_store_incomplete_refuted : forall loc,
  exists w fl q,
    vrun loc [ex_its; ex_its] vex_sched_lost (w0, []) [vex_a; map Base (ex_prog_of loc)] = Some ((w, fl), q) /\
    vdone q = true /\ fl = [(0%nat, ex_o)] /\ view w ex_o = None.
Proof.
  intros [|]; eexists; eexists; eexists; (split; [vm_compute; reflexivity|split; [vm_compute; reflexivity|split; vm_compute; reflexivity]]).
Qed.

(* ------------------------------------------------------------------------------------------ *)
(* a workload may have NO files (an empty directory / a skeleton of empty sub-directories): its items
   are just the directory object of the empty listing; the theorems cover it - nothing in them asks
   for a non-empty file list *)
Theorem empty_workload : forall (H : bytes -> oid) (ser : list (list N * oid) -> bytes) (dirid : bytes -> oid)
    loc (wkls : list (list (list N * bytes))) ps sched w' ps',
  consistent (map (items_of H ser dirid) wkls) ->
  legal_all loc (map (items_of H ser dirid) wkls) ps = true ->
  run (map (items_of H ser dirid) wkls) sched w0 ps = Some (w', ps') -> all_done ps' = true ->
  In [] wkls ->
  items_of H ser dirid [] = [(dirid (ser []), ser [])] /\
  view w' (dirid (ser [])) = Some (ser [], loc).
Proof.
  intros H ser dirid loc wkls ps sched w' ps' Hc Hl Hr Hd Hin. split; [reflexivity|].
  destruct (directory_object H ser dirid loc wkls ps sched w' ps' Hc Hl Hr Hd [] Hin) as [Hv _].
  exact Hv.
Qed.

(* two writers without files + one with a file, interleaved: accepted *)
Definition ex_d : oid := [100; 55; 1].
Definition ex_l : bytes := [91; 93].
Definition ex_empty_its : items := [(ex_d, ex_l)].
Definition ex_tr_empty : list (nat * step) :=
  [(0%nat, ExistsCheck ex_d false); (1%nat, ExistsCheck ex_d false); (2%nat, ExistsCheck ex_o false);
   (0%nat, Mkdir [100; 55]); (0%nat, CopyTmp 0 ex_d); (1%nat, Mkdir [100; 55]); (1%nat, CopyTmp 0 ex_d);
   (2%nat, Mkdir [97; 97]); (0%nat, RenameTmp 0 1); (1%nat, RenameTmp 0 1); (1%nat, Rename 1 ex_d);
   (2%nat, CopyTmp 0 ex_o); (0%nat, Rename 1 ex_d); (1%nat, Chmod ex_d); (2%nat, Rename 0 ex_o);
   (0%nat, Chmod ex_d); (2%nat, Chmod ex_o); (2%nat, ExistsCheck ex_d true);
   (0%nat, StateUpsert [ex_d]); (1%nat, StateUpsert [ex_d]); (2%nat, StateUpsert [ex_o])].
Example ex_empty_workloads_valid :
  valid_trace true [ex_empty_its; ex_empty_its; ex_its ++ ex_empty_its] ex_tr_empty = true.
Proof. vm_compute. reflexivity. Qed.

(* ------------------------------------------------------------------------------------------ *)
(* the discipline "who destroys, re-creates" is NECESSARY: a writer whose copy FAILS after its reflink
   attempt (an I/O error, a crash) has an illegal program - it stops after [ProbeUnlink] - and the complete
   object the OTHER writer placed is gone for good, although that writer ran its whole legal program *)
Definition fex_failed : program := [ExistsCheck ex_o false; Mkdir [97; 97]; ProbeOpen ex_o; ProbeUnlink ex_o].
Definition fex_sched : list nat := [0; 1; 1; 1; 1; 1; 1; 1; 1; 0; 0; 0]%nat.
Theorem failed_prober_loses_object : forall loc,
  legal loc ex_its fex_failed = false /\ legal loc ex_its (ex_prog_of loc) = true /\
  exists w ps, run [ex_its; ex_its] fex_sched w0 [fex_failed; ex_prog_of loc] = Some (w, ps) /\
               all_done ps = true /\ view w ex_o = None.
Proof.
  intros [|]; (split; [vm_compute; reflexivity|split; [vm_compute; reflexivity|]]);
    eexists; eexists; (split; [vm_compute; reflexivity|split; vm_compute; reflexivity]).
Qed.
