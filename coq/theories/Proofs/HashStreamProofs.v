From Coq Require Import NArith ZArith List Bool Lia ZifyBool ZifyNat ZifyN.
From Coq Require Import Floats.PrimFloat Numbers.Cyclic.Int63.Uint63.
From DvcData Require Import Base.Val Base.PyBase Base.PyStream Gen.Hash Model.HashStream.
Import ListNotations.
Open Scope N_scope.

(* ------------------------------------------------------------------------------------- *)
(* the environment: fobj.read *)

Lemma fobj_read_split f n :
  fst (fobj_read f n) ++ fo_rest (snd (fobj_read f n)) = fo_rest f.
Proof.
  unfold fobj_read. destruct (n <? 0)%Z; cbn; [now rewrite app_nil_r|].
  destruct (fo_cuts f); cbn; apply firstn_skipn.
Qed.

Lemma fobj_read_eof f n : fo_rest f = [] -> fst (fobj_read f n) = [].
Proof.
  intros H. unfold fobj_read. destruct (n <? 0)%Z; cbn; [assumption|].
  destruct (fo_cuts f); cbn; rewrite H; apply firstn_nil.
Qed.

Lemma firstn_nonempty {A} (k : nat) (l : list A) : (0 < k)%nat -> l <> [] -> firstn k l <> [].
Proof. destruct k, l; cbn; intros; try lia; congruence. Qed.

Lemma fobj_read_progress f n : n <> 0%Z -> fo_rest f <> [] -> fst (fobj_read f n) <> [].
Proof.
  intros Hn Hr. unfold fobj_read. destruct (n <? 0)%Z eqn:E; cbn; [assumption|].
  destruct (fo_cuts f); cbn; apply firstn_nonempty; try assumption; lia.
Qed.

Lemma fobj_read_len f n : (0 <= n)%Z -> (length (fst (fobj_read f n)) <= Z.to_nat n)%nat.
Proof.
  intros Hn. unfold fobj_read. destruct (n <? 0)%Z eqn:E; [lia|].
  destruct (fo_cuts f); cbn; rewrite firstn_length; lia.
Qed.

(* with an exhausted short-read oracle a read of n >= |rest| returns everything *)
Lemma fobj_read_full f n : fo_cuts f = [] -> (Z.of_nat (length (fo_rest f)) <= n)%Z ->
  fst (fobj_read f n) = fo_rest f.
Proof.
  intros Hc Hn. unfold fobj_read. destruct (n <? 0)%Z eqn:E; cbn; [reflexivity|].
  rewrite Hc. cbn. apply firstn_all2. lia.
Qed.

(* ------------------------------------------------------------------------------------- *)
(* the interface lemmas to the GENERATED reads: these are the statements that re-check the
   current source on every run *)

Lemma plain_read_spec s n :
  HashStreamFile_read s n =
  (fst (fobj_read (hs_fobj s) n),
   mk_hstream (snd (fobj_read (hs_fobj s) n))
              (hs_hasher s ++ fst (fobj_read (hs_fobj s) n))
              (hs_total_read s + len (fst (fobj_read (hs_fobj s) n)))).
Proof. unfold HashStreamFile_read, hasher_update. destruct (fobj_read (hs_fobj s) n); reflexivity. Qed.

Definition d2u_data (c : list N) : list N :=
  if truthy_list c && istextblock (firstn 512 c) then dos2unix c else c.

Lemma d2u_read_spec s n :
  Dos2UnixHashStreamFile_read s n =
  if (512 <=? n)%Z then
    Some (fst (fobj_read (hs_fobj s) n),
          mk_hstream (snd (fobj_read (hs_fobj s) n))
                     (hs_hasher s ++ d2u_data (fst (fobj_read (hs_fobj s) n)))
                     (hs_total_read s + len (d2u_data (fst (fobj_read (hs_fobj s) n)))))
  else None.
Proof.
  unfold Dos2UnixHashStreamFile_read, hasher_update, d2u_data, DEFAULT_CHUNK_SIZE, slice_to.
  rewrite Z.geb_leb. change (Z.of_N 512) with 512%Z. destruct (512 <=? n)%Z; [|reflexivity].
  destruct (fobj_read (hs_fobj s) n) as [c f']. cbn [fst snd].
  change (N.to_nat 512) with 512%nat.
  destruct (truthy_list c); cbn [andb]; [|reflexivity].
  destruct (istextblock (firstn 512 c)); reflexivity.
Qed.

(* ------------------------------------------------------------------------------------- *)
(* pass-through: a read of either class returns exactly what the underlying file returned *)

Lemma read_passthrough d2u s n data s' :
  stream_read d2u s n = Some (data, s') ->
  data = fst (fobj_read (hs_fobj s) n) /\ hs_fobj s' = snd (fobj_read (hs_fobj s) n).
Proof.
  unfold stream_read. destruct d2u.
  - rewrite d2u_read_spec. destruct (512 <=? n)%Z; [|discriminate].
    intros H. injection H as <- <-. split; reflexivity.
  - rewrite plain_read_spec. intros H. injection H as <- <-. split; reflexivity.
Qed.

Lemma plain_read_counts s n data s' :
  stream_read false s n = Some (data, s') ->
  hs_hasher s' = hs_hasher s ++ data /\ hs_total_read s' = hs_total_read s + len data.
Proof.
  unfold stream_read. rewrite plain_read_spec. intros H. injection H as <- <-. split; reflexivity.
Qed.

(* ------------------------------------------------------------------------------------- *)
(* chunking independence of the driver loop, plain streams *)

Lemma len_app {A} (a b : list A) : len (a ++ b) = len a + len b.
Proof. unfold len. rewrite app_length. lia. Qed.

Lemma drive_plain chunk : chunk <> 0%Z -> forall fuel s acc,
  (length (fo_rest (hs_fobj s)) < fuel)%nat ->
  exists s' ch,
    drive false chunk fuel s acc = DriveOk s' (rev acc ++ ch) /\
    concat ch = fo_rest (hs_fobj s) /\
    Forall (fun c => c <> []) ch /\
    hs_hasher s' = hs_hasher s ++ fo_rest (hs_fobj s) /\
    hs_total_read s' = hs_total_read s + len (fo_rest (hs_fobj s)) /\
    fo_rest (hs_fobj s') = [].
Proof.
  intros Hc. induction fuel as [|fuel IH]; intros s acc Hlen; [lia|].
  cbn [drive]. unfold stream_read. rewrite plain_read_spec.
  set (r := fobj_read (hs_fobj s) chunk).
  pose proof (fobj_read_split (hs_fobj s) chunk) as Hsplit. fold r in Hsplit.
  destruct (fst r) as [|c0 cr] eqn:Ec.
  - (* empty read: end of file *)
    cbn [is_nil]. assert (Hr : fo_rest (hs_fobj s) = []).
    { destruct (fo_rest (hs_fobj s)) eqn:E; [reflexivity|].
      exfalso. apply (fobj_read_progress (hs_fobj s) chunk Hc); [rewrite E; discriminate|]. exact Ec. }
    eexists _, []. split; [rewrite (app_nil_r (rev acc)); reflexivity|].
    cbn [concat hs_hasher hs_total_read hs_fobj].
    rewrite Hr in *. cbn in Hsplit. rewrite ?app_nil_r. unfold len. cbn [length].
    repeat split; auto; lia.
  - cbn [is_nil].
    set (s1 := mk_hstream (snd r) (hs_hasher s ++ c0 :: cr) (hs_total_read s + len (c0 :: cr))).
    assert (Hlt : (length (fo_rest (hs_fobj s1)) < fuel)%nat).
    { cbn [s1 hs_fobj]. rewrite <- Hsplit in Hlen. rewrite app_length in Hlen. cbn [length] in Hlen. lia. }
    destruct (IH s1 ((c0 :: cr) :: acc) Hlt) as (s' & ch & Hd & Hcat & Hne & Hh & Ht & He).
    exists s', ((c0 :: cr) :: ch). split.
    { rewrite Hd. cbn [rev]. now rewrite <- app_assoc. }
    cbn [s1 hs_fobj hs_hasher hs_total_read] in *. cbn [concat]. rewrite Hcat, Hh, Ht, <- Hsplit.
    repeat split; auto.
    + constructor; [discriminate|assumption].
    + now rewrite <- app_assoc.
    + rewrite len_app. lia.
Qed.

(* the statement for fobj_md5 with a plain algorithm *)
Lemma fobj_md5_plain name chunk content cuts :
  picks_dos2unix name = false -> chunk <> 0%Z ->
  exists s' ch,
    fobj_md5 name chunk content cuts = DriveOk s' ch /\
    hs_hasher s' = content /\ concat ch = content /\
    hs_total_read s' = len content /\ Forall (fun c => c <> []) ch.
Proof.
  intros Hp Hc. unfold fobj_md5. rewrite Hp.
  destruct (drive_plain chunk Hc (S (S (length content))) (init_stream content cuts) [])
    as (s' & ch & Hd & Hcat & Hne & Hh & Ht & He); [cbn; lia|].
  exists s', ch. cbn in *. repeat split; auto.
Qed.

(* any sequence of explicit reads hands on a prefix of the content and has hashed exactly it *)
Lemma reads_plain : forall ns s acc s' ch,
  reads false s ns acc = Some (s', ch) ->
  exists got, ch = rev acc ++ got /\
    concat got ++ fo_rest (hs_fobj s') = fo_rest (hs_fobj s) /\
    hs_hasher s' = hs_hasher s ++ concat got /\
    hs_total_read s' = hs_total_read s + len (concat got).
Proof.
  induction ns as [|n ns IH]; intros s acc s' ch H; cbn [reads] in H.
  - injection H as <- <-. exists []. cbn. rewrite !app_nil_r. unfold len; cbn. repeat split; auto; lia.
  - unfold stream_read in H. rewrite plain_read_spec in H.
    apply IH in H. destruct H as (got & -> & Hcat & Hh & Ht).
    cbn [hs_fobj hs_hasher hs_total_read] in *.
    exists (fst (fobj_read (hs_fobj s) n) :: got). cbn [rev concat].
    rewrite <- !app_assoc. cbn [app]. repeat split.
    + rewrite Hcat. apply fobj_read_split.
    + rewrite Hh. now rewrite <- app_assoc.
    + rewrite Ht, len_app. lia.
Qed.

(* ------------------------------------------------------------------------------------- *)
(* dos2unix *)

Lemma no_crlf_tail c u : no_crlf (c :: u) = true -> no_crlf u = true.
Proof.
  cbn [no_crlf]. destruct c as [|p]; [auto|].
  destruct (Pos.eq_dec p 13) as [->|Hp].
  - destruct u as [|d u']; [reflexivity|]. destruct d as [|q]; [auto|].
    destruct (Pos.eq_dec q 10) as [->|Hq]; [discriminate|].
    intros H. revert H. generalize (N.pos q :: u'). intros l.
    destruct q as [q|q|]; try (intros; assumption); destruct q as [q|q|]; try (intros; assumption);
      destruct q as [q|q|]; try (intros; assumption); destruct q as [q|q|]; intros; try assumption; congruence.
  - intros H. revert H.
    do 4 (destruct p as [p|p|]; try (intros; assumption)); congruence.
Qed.

Lemma no_crlf_head u : no_crlf u = true -> starts_with u [13; 10] = false.
Proof.
  destruct u as [|c u]; [reflexivity|]. cbn [starts_with].
  destruct (N.eqb_spec 13 c) as [<-|Hc]; [|reflexivity].
  destruct u as [|d u]; [reflexivity|]. cbn [andb starts_with].
  destruct (N.eqb_spec 10 d) as [<-|Hd]; [|reflexivity].
  cbn. discriminate.
Qed.

Lemma replace_no_crlf : forall fuel u, no_crlf u = true -> bytes_replace_fuel fuel [13; 10] [10] u = u.
Proof.
  induction fuel as [|fuel IH]; intros u H; [reflexivity|]. cbn [bytes_replace_fuel].
  destruct u as [|c u]; [reflexivity|]. rewrite (no_crlf_head _ H).
  f_equal. apply IH. eapply no_crlf_tail; eassumption.
Qed.

Lemma dos2unix_fix u : no_crlf u = true -> dos2unix u = u.
Proof. intros H. unfold dos2unix, bytes_replace. cbn [is_nil]. now apply replace_no_crlf. Qed.

(* the head of a unix2dos image is never LF *)
Lemma unix2dos_head u : match unix2dos u with 10 :: _ => False | _ => True end.
Proof.
  destruct u as [|c u]; cbn; [exact I|]. destruct (N.eqb_spec c 10) as [->|Hc]; cbn; [exact I|].
  destruct c as [|p]; [exact I|]. do 4 (destruct p as [p|p|]; try exact I). congruence.
Qed.

Lemma starts_with_nil s : starts_with s [] = true.
Proof. destruct s; reflexivity. Qed.

Lemma replace_unix2dos : forall u fuel, (length (unix2dos u) < fuel)%nat ->
  bytes_replace_fuel fuel [13; 10] [10] (unix2dos u) = u.
Proof.
  induction u as [|c u IH]; intros fuel Hf.
  - destruct fuel; reflexivity.
  - destruct fuel as [|fuel]; [cbn in Hf; lia|].
    change (unix2dos (c :: u)) with ((if N.eqb c 10 then [13; 10] else [c]) ++ unix2dos u) in *.
    destruct (N.eqb_spec c 10) as [->|Hc].
    + cbn [app bytes_replace_fuel starts_with N.eqb Pos.eqb andb length skipn].
      rewrite starts_with_nil.
      cbn [app] in Hf. cbn [length] in Hf. f_equal. apply IH. lia.
    + cbn [app] in *. cbn [bytes_replace_fuel].
      assert (Hs : starts_with (c :: unix2dos u) [13; 10] = false).
      { cbn [starts_with]. destruct (N.eqb_spec 13 c) as [<-|]; [|reflexivity]. cbn [andb].
        pose proof (unix2dos_head u) as Hh. destruct (unix2dos u) as [|d r]; [reflexivity|].
        cbn [starts_with]. destruct (N.eqb_spec 10 d) as [<-|]; [contradiction|reflexivity]. }
      rewrite Hs. f_equal. apply IH. cbn [length] in Hf. lia.
Qed.

Lemma dos2unix_unix2dos u : dos2unix (unix2dos u) = u.
Proof.
  unfold dos2unix, bytes_replace. cbn [is_nil]. apply replace_unix2dos. lia.
Qed.

(* single-read digests of the two classes of content *)
Lemma d2u_single_read content n :
  (512 <= n)%Z -> (Z.of_nat (length content) <= n)%Z ->
  exists s',
    Dos2UnixHashStreamFile_read (init_stream content []) n = Some (content, s') /\
    hs_hasher s' = d2u_data content /\ fo_rest (hs_fobj s') = [].
Proof.
  intros Hn Hl. rewrite d2u_read_spec. destruct (Z.leb_spec 512 n); [|lia].
  assert (Hr : fst (fobj_read (hs_fobj (init_stream content [])) n) = content).
  { apply fobj_read_full; cbn; [reflexivity|assumption]. }
  pose proof (fobj_read_split (hs_fobj (init_stream content [])) n) as Hs. rewrite Hr in Hs.
  cbn [init_stream hs_fobj fo_rest] in Hs.
  eexists. split; [rewrite Hr; reflexivity|]. cbn [hs_hasher hs_fobj init_stream app]. split; [reflexivity|].
  assert (length (content ++ fo_rest (snd (fobj_read {| fo_rest := content; fo_cuts := [] |} n))) = length content)
    by now rewrite Hs.
  rewrite app_length in H0. destruct (fo_rest _); [reflexivity|cbn in H0; lia].
Qed.

Lemma d2u_data_binary b : istextblock (firstn 512 b) = false -> d2u_data b = b.
Proof. intros H. unfold d2u_data. rewrite H, andb_false_r. reflexivity. Qed.

Lemma d2u_data_text_lf u : no_crlf u = true -> d2u_data u = u.
Proof. intros H. unfold d2u_data. destruct (_ && _); [now apply dos2unix_fix|reflexivity]. Qed.

Lemma d2u_data_text_crlf u : u <> [] -> istextblock (firstn 512 (unix2dos u)) = true ->
  d2u_data (unix2dos u) = u.
Proof.
  intros Hu H. unfold d2u_data. rewrite H.
  assert (truthy_list (unix2dos u) = true).
  { destruct u as [|c u]; [congruence|]. cbn. destruct (N.eqb c 10); reflexivity. }
  rewrite H0. cbn [andb]. apply dos2unix_unix2dos.
Qed.

(* ------------------------------------------------------------------------------------- *)
(* the text heuristic: the IEEE division of the source decides exactly 10*nontext <= 3*len
   for every block that fits the 512-byte sniffing window (finite sweep, bound stated) *)

Definition fl (n : N) : float := PrimFloat.of_uint63 (Uint63.of_Z (Z.of_N n)).
Definition ratio_ok (a b : nat) : bool :=
  Bool.eqb (PrimFloat.leb (PrimFloat.div (fl (N.of_nat a)) (fl (N.of_nat b))) 0x1.3333333333333p-2%float)
           (10 * N.of_nat a <=? 3 * N.of_nat b).

Lemma ratio_sweep :
  forallb (fun b => forallb (fun a => ratio_ok a b) (seq 0 (S b))) (seq 1 512) = true.
Proof. vm_cast_no_check (eq_refl true). Qed.   (* one evaluation, by the kernel's VM at Qed *)

Lemma ratio_ok_all a b : (1 <= b <= 512)%nat -> (a <= b)%nat -> ratio_ok a b = true.
Proof.
  intros Hb Ha. pose proof ratio_sweep as H. rewrite forallb_forall in H.
  assert (Hin : In b (seq 1 512)) by (apply in_seq; lia).
  specialize (H b Hin). rewrite forallb_forall in H. apply H. apply in_seq. lia.
Qed.

Lemma bytes_delete_length d s : (length (bytes_delete d s) <= length s)%nat.
Proof. unfold bytes_delete. induction s as [|c s IH]; cbn; [lia|]. destruct (negb _); cbn; lia. Qed.

Definition nontext (b : list N) : list N := bytes_delete TEXT_CHARS b.

Lemma ratio_leb (a b : nat) : (1 <= b <= 512)%nat -> (a <= b)%nat ->
  PrimFloat.leb (PrimFloat.div (fl (N.of_nat a)) (fl (N.of_nat b))) 0x1.3333333333333p-2%float
  = (10 * N.of_nat a <=? 3 * N.of_nat b).
Proof.
  intros Hb Ha. pose proof (ratio_ok_all a b Hb Ha) as H. unfold ratio_ok in H.
  apply eqb_prop in H. exact H.
Qed.

Lemma istextblock_spec b : (length b <= 512)%nat ->
  istextblock b =
  match b with
  | [] => true
  | _ => negb (bytes_contains [0] b) && (10 * len (nontext b) <=? 3 * len b)
  end.
Proof.
  intros Hl. unfold istextblock, nontext. destruct b as [|c b]; [reflexivity|].
  cbn [truthy_list is_nil negb].
  assert (Hb : (1 <= length (c :: b) <= 512)%nat) by (split; [cbn [length]; lia|exact Hl]).
  pose proof (bytes_delete_length TEXT_CHARS (c :: b)) as Hd.
  revert Hb Hd. generalize (bytes_delete TEXT_CHARS (c :: b)) as nt.
  generalize (c :: b) as blk. intros blk nt Hb Hd.
  destruct (bytes_contains [0] blk); [reflexivity|].
  cbn [negb andb]. unfold len. exact (ratio_leb (length nt) (length blk) Hb Hd).
Qed.
