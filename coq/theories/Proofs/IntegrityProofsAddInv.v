(* C07, fifth part: add (with verification, or plain with honest sources) keeps the invariant
   "every state row honest, every write-protected Local object named_ok". *)
From Coq Require Import NArith List Bool Lia.
From DvcData Require Import Base.Val Gen.Check Model.StateDbBase Model.Integrity Proofs.IntegrityProofs Proofs.IntegrityProofsFold Proofs.IntegrityProofsAdd.
Import ListNotations.
Open Scope N_scope.

Section FoldCfg.
  Context {S : Type}.
  Variable wof : S -> world.
  Variable f : S -> item -> S.
  Hypothesis f_cfg : forall s i, cfg (wof (f s i)) = cfg (wof s).
  Lemma fold_cfg items : forall s, cfg (wof (fold_left f items s)) = cfg (wof s).
  Proof. induction items as [|i items IH]; intros s; simpl; auto. now rewrite IH, f_cfg. Qed.
End FoldCfg.

Lemma save_cfg w i : cfg (save_step w i) = cfg w.
Proof. unfold save_step. destruct (lookup (it_oid i) (w_objs w)); reflexivity. Qed.

Lemma save_objs w i : w_objs (save_step w i) = w_objs w.
Proof. unfold save_step. destruct (lookup (it_oid i) (w_objs w)); reflexivity. Qed.

Lemma save_frame o w i : it_oid i <> o -> sl (save_step w i) o = sl w o.
Proof.
  intros N. unfold save_step. destruct (lookup (it_oid i) (w_objs w)); auto.
  unfold sl, st_save. simpl. destruct (w_state w); auto. rewrite lookup_set_neq; auto.
Qed.

Section WithDigest.
  Variable H : name -> bytes -> oid.

  Notation check := (check H).
  Notation add := (add H).
  Notation named_ok := (named_ok H).
  Notation honest_for := (honest_for H).
  Notation honest := (honest H).
  Notation trusted_ok := (trusted_ok H).

  Lemma honest_ext w1 w2 o : cfg w1 = cfg w2 -> sl w1 o = sl w2 o -> honest w1 o -> honest w2 o.
  Proof.
    intros C S Hon ob L. pose proof (sl_fields _ _ _ S) as [SO SD]. rewrite <- SO in L.
    apply (honest_for_ext H w1 w2); auto.
  Qed.

  Lemma trusted_ok_ext w1 w2 o : cfg w1 = cfg w2 -> sl w1 o = sl w2 o -> trusted_ok w1 o -> trusted_ok w2 o.
  Proof.
    intros C S Tr ob L. pose proof (sl_fields _ _ _ S) as [SO SD]. rewrite <- SO in L.
    pose proof (cfg_fields _ _ C) as (CC & CA & _). rewrite <- CC, <- CA. now apply Tr.
  Qed.

  (* ---- the shape of add *)
  Lemma add_shape w v items : exists w3, snd (add w v items) = fold_left save_step items w3.
  Proof. unfold Integrity.add. simpl. eexists. reflexivity. Qed.

  Lemma add_cfg w v items : cfg (snd (add w v items)) = cfg w.
  Proof.
    unfold Integrity.add. simpl.
    rewrite (fold_cfg (fun w => w) save_step save_cfg).
    rewrite (fold_cfg snd (post_step H _) (post_cfg H _)). simpl.
    rewrite (fold_cfg snd copy_step copy_cfg). simpl.
    destruct (match v with Some b => b | None => w_verify w end); auto.
    apply (fold_cfg (fun w => w) (pre_step H) (pre_cfg H)).
  Qed.

  Lemma add_untouched w v items o : ~ In o (map it_oid items) -> sl (snd (add w v items)) o = sl w o.
  Proof.
    intros N. unfold Integrity.add. simpl.
    destruct (fold_untouched (fun w => w) save_step o save_cfg (save_frame o) items
                (snd (fold_left (post_step H (match v with Some b => b | None => w_verify w end)) items
                   ([], snd (fold_left copy_step items
                      (0, if match v with Some b => b | None => w_verify w end
                          then fold_left (pre_step H) items w else w))))) N) as [A _].
    rewrite A. clear A.
    destruct (fold_untouched snd (post_step H (match v with Some b => b | None => w_verify w end)) o
                (post_cfg H _) (post_frame H o _) items
                ([], snd (fold_left copy_step items
                      (0, if match v with Some b => b | None => w_verify w end
                          then fold_left (pre_step H) items w else w))) N) as [A _].
    rewrite A. clear A. simpl.
    destruct (fold_untouched snd copy_step o copy_cfg (copy_frame o) items
                (0, if match v with Some b => b | None => w_verify w end
                    then fold_left (pre_step H) items w else w) N) as [A _].
    rewrite A. clear A. simpl.
    destruct (match v with Some b => b | None => w_verify w end); auto.
    destruct (fold_untouched (fun w => w) (pre_step H) o (pre_cfg H) (pre_frame H o) items w N) as [A _].
    exact A.
  Qed.

  (* ---- plain add (no verification) from honest sources onto named_ok objects *)
  Lemma copy_at_plain o b t (s : N * world) :
    P3 H o (snd s) -> split_dot0 (H (w_alg (snd s)) b) = split_dot0 o ->
    P3 H o (snd (copy_step s (o, b, t))).
  Proof.
    intros P Src. unfold copy_step, has, it_oid. simpl.
    destruct (lookup o (w_objs (snd s))) eqn:L; auto.
    simpl. intros ob' L'. simpl in L'. rewrite lookup_set_eq in L'. injection L' as <-. exact Src.
  Qed.

  Theorem plain_add w v items o b t :
    eff_verify w v = false -> NoDup (map it_oid items) -> In (o, b, t) items ->
    P3 H o w -> split_dot0 (H (w_alg w) b) = split_dot0 o ->
    forall ob', lookup o (w_objs (snd (add w v items))) = Some ob' -> named_ok (w_alg w) o ob'.
  Proof.
    intros V ND I P Src. unfold Integrity.add. fold (eff_verify w v). rewrite V. simpl.
    set (s2 := fold_left copy_step items (0, w)).
    set (s3 := fold_left (post_step H false) items ([], snd s2)).
    destruct (fold_touch snd copy_step o copy_cfg (copy_frame o) items (o, b, t) (0, w) ND I eq_refl)
      as (sb & C2 & S2 & R2 & D2). fold s2 in R2, D2. simpl in C2, S2, D2.
    assert (Q2 : P3 H o (snd s2)).
    { apply (P3_ext H o (snd (copy_step sb (o, b, t)))); [rewrite copy_cfg; congruence|auto|].
      apply copy_at_plain. apply (P3_ext H o w); auto.
      pose proof (cfg_fields _ _ C2) as (_ & CA & _). now rewrite CA. }
    destruct (fold_touch snd (post_step H false) o (post_cfg H false) (post_frame H o false) items (o, b, t)
                ([], snd s2) ND I eq_refl) as (sc & C3 & S3 & R3 & D3). fold s3 in R3, D3. simpl in C3, S3, D3.
    assert (Q3 : P3 H o (snd s3)).
    { apply (P3_ext H o (snd (post_step H false sc (o, b, t)))); [rewrite post_cfg; congruence|auto|].
      unfold post_step, it_oid. simpl. apply protect_P3. apply (P3_ext H o (snd s2)); auto. }
    intros ob' L'. destruct (save_fold_objs items (snd s3)) as [A B]. rewrite A in L'.
    pose proof (cfg_fields _ _ D3) as (_ & CA3 & _). pose proof (cfg_fields _ _ D2) as (_ & CA2 & _).
    simpl in CA2. rewrite <- CA2, <- CA3. now apply Q3.
  Qed.

  (* ---- the rows add writes are honest when the retained object is named_ok *)
  Lemma add_J_in w v items o b t :
    NoDup (map it_oid items) -> In (o, b, t) items ->
    (forall ob', lookup o (w_objs (snd (add w v items))) = Some ob' -> named_ok (w_alg w) o ob') ->
    honest (snd (add w v items)) o /\ trusted_ok (snd (add w v items)) o.
  Proof.
    intros ND I Fin. pose proof (add_cfg w v items) as CF.
    pose proof (cfg_fields _ _ CF) as (_ & CA & _).
    split.
    - destruct (add_shape w v items) as [w3 E]. rewrite E in *.
      destruct (fold_touch (fun w => w) save_step o save_cfg (save_frame o) items (o, b, t) w3 ND I eq_refl)
        as (wb & A & B & C & D).
      intros ob L r S Lr Tr Ar.
      pose proof (sl_fields _ _ _ C) as [CO CD]. rewrite CO in L. rewrite CD in Lr.
      rewrite save_objs in L. unfold save_step, it_oid in Lr. simpl in Lr. rewrite L in Lr. simpl in Lr.
      assert (SB : w_state wb = true).
      { pose proof (cfg_fields _ _ A) as (_ & _ & S1 & _). pose proof (cfg_fields _ _ D) as (_ & _ & S2 & _).
        congruence. }
      unfold st_save in Lr. rewrite SB in Lr. rewrite lookup_set_eq in Lr. injection Lr as <-. simpl.
      rewrite CA. symmetry. apply Fin. rewrite CO, save_objs. exact L.
    - intros ob L _ _. rewrite CA. now apply Fin.
  Qed.

  (* ---- the invariant and the side conditions of an add step *)
  Definition Inv (w : world) : Prop :=
    (forall o, honest w o) /\ (forall o, trusted_ok w o) /\
    (w_cls w = Local -> S_IMODE (w_fmode w) <> PROTECTED).

  Definition add_ok (w : world) (v : option bool) (items : list item) : Prop :=
    NoDup (map it_oid items) /\
    (forall o b t, In (o, b, t) items -> fresh w o t) /\
    (eff_verify w v = false -> forall o b t, In (o, b, t) items ->
       split_dot0 (H (w_alg w) b) = split_dot0 o /\ P3 H o w).

  Theorem add_inv w v items : Inv w -> add_ok w v items -> Inv (snd (add w v items)).
  Proof.
    intros (Hon & Tr & FM) (ND & Fr & Pl).
    assert (J : forall o, honest (snd (add w v items)) o /\ trusted_ok (snd (add w v items)) o).
    { intros o. destruct (in_dec leqb_dec o (map it_oid items)) as [I|N].
      - apply in_map_iff in I as ([[o' b] t] & E & I). unfold it_oid in E. simpl in E. subst o'.
        apply (add_J_in w v items o b t ND I).
        destruct (eff_verify w v) eqn:V.
        + apply (verify_add H w v items o b t); auto. now apply (Fr o b t).
        + destruct (Pl eq_refl o b t I) as [Src P]. now apply (plain_add w v items o b t).
      - pose proof (add_untouched w v items o N) as S. pose proof (add_cfg w v items) as C. split.
        + apply (honest_ext w); auto.
        + apply (trusted_ok_ext w); auto. }
    split; [intros o; apply J|]. split; [intros o; apply J|].
    pose proof (cfg_fields _ _ (add_cfg w v items)) as (CC & _ & _ & _ & CF). now rewrite CC, CF.
  Qed.
  (* ---- a verifying transfer (copy or hard link) retains no mismatching object among the new ids *)
  Theorem verify_xfer w v items o b t :
    let r := oids_exist H w (map it_oid items) in
    let new := xfer_new (fst r) items in
    eff_verify (snd r) v = true ->
    NoDup (map it_oid new) -> In (o, b, t) new ->
    honest (snd r) o -> trusted_ok (snd r) o -> fresh (snd r) o t ->
    (w_cls (snd r) = Local -> S_IMODE (w_fmode (snd r)) <> PROTECTED) ->
    forall ob', lookup o (w_objs (snd (xfer H w v items))) = Some ob' -> named_ok (w_alg (snd r)) o ob'.
  Proof.
    intros r new V ND I Hon Tr Fr FM ob' L. unfold xfer in L. fold r in L. fold new in L.
    destruct new as [|i0 new0] eqn:E; [contradiction|]. simpl in L.
    apply (verify_add H (snd r) v (i0 :: new0) o b t); auto.
  Qed.
End WithDigest.
