(* StoreOpsTie.v - the add / migrate steps of Model/StoreOps.v ARE HashFileDB.add, add_update_tree
   and db/migrate.py as the translator reads them from /repo on every run (Gen/DbAdd.v, unit
   "dbadd").

   [g_add] interprets the GENERATED decisions - the effective verify flag, the guard / iteration /
   swallowed exceptions of the pre-add check, what super().add is given, the body, the iteration and
   the handlers of the post loop - over the model's state; [g_migrate] interprets the generated
   decisions of migrate / prepare / _hash_task (which store is listed, whose algorithm hashes, whose
   file system is read and linked from, into which store the add goes, hardlink / per-call verify /
   check_exists of that add, the ".dir" rule of the new oid).  Nothing in them is specific to the
   model's [add_copy] / [add_copy_v] / [add_link] / [migrate_op]; the tie theorems show that they
   compute exactly the states the C01 theorems are about.  An edit of the source (protect made
   conditional or moved before the check, a handler dropped, the pre-add check no longer gated,
   check_exists not forwarded, the state transaction moved, migrate hashing with the source's
   algorithm, the ".dir" rule dropped, hardlink off, ...) either fails the translation or changes a
   generated definition and breaks these proofs.

   Not interpreted: the state transaction (the model is cache-free; only its position is tied, by
   [add_order_tie]) and on_error reporting (no faults in this model; C11). *)
From Coq Require Import NArith List Bool Lia PeanoNat.
From DvcData Require Import Base.Val Base.PyBase Base.MD5 Base.Json Model.Listing Model.StoreOps Gen.DbAdd.
From DvcData Require Import Proofs.StoreOpsProofs.
Import ListNotations.
Open Scope N_scope.

Section Tie.
Variable H : alg -> list N -> oid.

Definition iter_oids (it : oid_iter) (req : list oid) : list oid :=
  match it with OidsGiven => req | OidsDistinct => distinct req end.

(* self.check(o, check_hash=True) where the mode is not trusted (an object that has just been
   copied is 0o644; the generic class never trusts): hash, compare up to the first ".", remove on a
   mismatch (ObjectFormatError), protect on a match; a missing file is FileNotFoundError *)
Definition hash_check (st : state) (si : nat) (k : oid) : state * option exc :=
  match get_store st si with
  | Some s =>
      match alookup k (s_objs s) with
      | Some o => if list_N_eqb (stem (H (s_alg s) (o_bytes o))) (stem k)
                  then (protect_one st si k, None) else (del_obj st si k, Some ExcObjectFormat)
      | None => (st, Some ExcFileNotFound)
      end
  | None => (st, Some ExcFileNotFound)
  end.

(* the pre-add check: if <pre_runs>: for o in <pre_over>: try: check(o) except <pre_swallows>: pass.
   The boolean says whether an exception escaped. *)
Definition swallowed (e : exc) : bool := existsb (exc_eqb e) pre_swallows.
Fixpoint g_pre_loop (st : state) (si : nat) (ks : list oid) : state * bool :=
  match ks with
  | [] => (st, false)
  | k :: r => let '(st', e) := hash_check st si k in
              match e with
              | Some ex => if swallowed ex then g_pre_loop st' si r else (st', true)
              | None => g_pre_loop st' si r
              end
  end.
Definition g_pre (vfy : bool) (st : state) (si : nat) (req : list oid) : state * bool :=
  if pre_runs vfy && pre_check_hash then g_pre_loop st si (iter_oids pre_over req) else (st, false).

(* the try body of the post loop for one oid: the statements in order; an exception for which a
   handler exists ends the body, any other one escapes from add *)
Fixpoint g_acts (acts : list post_act) (st : state) (si : nat) (k : oid) : state * bool :=
  match acts with
  | [] => (st, false)
  | PCheck _ :: r =>
      let '(st', e) := hash_check st si k in
      match e with
      | Some ex => match post_handler ex with Some _ => (st', false) | None => (st', true) end
      | None => g_acts r st' si k
      end
  | PProtect :: r => g_acts r (protect_one st si k) si k
  end.
Fixpoint g_post (acts : list post_act) (st : state) (si : nat) (ks : list oid) : state * bool :=
  match ks with
  | [] => (st, false)
  | k :: r => let '(st', esc) := g_acts acts st si k in
              if esc then (st', true) else g_post acts st' si r
  end.

(* HashFileDB.add with the copies [cp] (a function of the hardlink and check_exists flags that
   super().add is given) *)
Definition g_add (percall : option bool) (store_vfy hardlink chk : bool)
           (cp : bool -> bool -> state -> nat -> state)
           (st : state) (si : nat) (req : list oid) : state * bool :=
  let vfy := eff_verify percall store_vfy in
  let '(st0, esc) := g_pre vfy st si req in
  if esc then (st0, true)
  else g_post (post_body vfy) (cp (copy_hardlink hardlink) (copy_check_exists chk) st0 si) si
              (iter_oids post_over req).

(* the copies of an add from a workspace / another store's bytes: never a link *)
Definition cp_bytes (items : list (oid * list N)) (hardlink chk : bool) (st : state) (si : nat) : state :=
  let to_add := if chk then filter (fun it => negb (store_has st si (fst it))) items else items in
  fold_left (fun s it => put_new s si (fst it) (snd it)) to_add st.

(* the copies of an add from another store's objects: links when asked for and granted by the fs *)
Definition cp_objs (fs_links : bool) (items : list (oid * obj)) (hardlink chk : bool) (st : state) (si : nat) : state :=
  let to_add := if chk then filter (fun it => negb (store_has st si (fst it))) items else items in
  fold_left (fun s it =>
               if hardlink && fs_links then
                 match o_bytes (snd it) with
                 | [] => put_new s si (fst it) []
                 | _ => if store_has s si (fst it) then s else put_link s si (fst it) (snd it)
                 end
               else put_new s si (fst it) (o_bytes (snd it))) to_add st.

(* this model's stores are built without a `verify` setting *)
Definition model_store_verify : bool := store_verify None.

(* ---------------------------------------------------------------- lemmas *)
Lemma g_post_protect st si ks :
  g_post [PProtect] st si ks = (fold_left (fun s k => protect_one s si k) ks st, false).
Proof. revert st. induction ks as [|k r IH]; intro st; cbn [g_post g_acts fold_left]; [reflexivity|apply IH]. Qed.

Lemma verify_one_hash_check st si k : verify_one H st si k = fst (hash_check st si k).
Proof.
  unfold verify_one, hash_check. destruct (get_store st si) as [s|]; [|reflexivity].
  destruct (alookup k (s_objs s)) as [o|]; [|reflexivity].
  destruct (list_N_eqb _ _); reflexivity.
Qed.

Lemma chmod_obj_idem i o : chmod_obj i mode_ro (chmod_obj i mode_ro o) = chmod_obj i mode_ro o.
Proof.
  unfold chmod_obj. destruct (o_ino o =? i) eqn:E; simpl; [rewrite E; reflexivity|rewrite E; reflexivity].
Qed.

Lemma chmod_all_idem i st : chmod_all i mode_ro (chmod_all i mode_ro st) = chmod_all i mode_ro st.
Proof.
  unfold chmod_all. simpl. f_equal. rewrite map_map. apply map_ext. intros s.
  unfold chmod_store, with_objs. simpl. f_equal. rewrite map_map. apply map_ext. intros [k o]. simpl.
  now rewrite chmod_obj_idem.
Qed.

Lemma protect_one_idem st si k : protect_one (protect_one st si k) si k = protect_one st si k.
Proof.
  unfold protect_one at 2. destruct (get_store st si) as [s|] eqn:Es.
  2:{ unfold protect_one. now rewrite Es. }
  destruct (s_cls s) eqn:Ec.
  2:{ unfold protect_one. now rewrite Es, Ec. }
  destruct (alookup k (s_objs s)) as [o|] eqn:Eo.
  2:{ unfold protect_one. now rewrite Es, Ec, Eo. }
  unfold protect_one. rewrite get_store_nth, chmod_all_nth. rewrite get_store_nth in Es. rewrite Es.
  cbn [option_map]. replace (s_cls (chmod_store (o_ino o) mode_ro s)) with (s_cls s) by reflexivity.
  rewrite Ec. rewrite chmod_store_lookup, Eo. cbn [option_map].
  assert (Ei : o_ino (chmod_obj (o_ino o) mode_ro o) = o_ino o).
  { unfold chmod_obj. destruct (o_ino o =? o_ino o); reflexivity. }
  rewrite Ei. rewrite get_store_nth, Es, Ec, Eo. apply chmod_all_idem.
Qed.

Lemma post_body_verify : post_body true = [PCheck true; PProtect].
Proof. reflexivity. Qed.
Lemma post_body_plain : post_body false = [PProtect].
Proof. reflexivity. Qed.

Lemma g_acts_verify st si k :
  g_acts (post_body true) st si k = (verify_one H st si k, false).
Proof.
  rewrite post_body_verify. cbn [g_acts]. rewrite verify_one_hash_check.
  unfold hash_check. destruct (get_store st si) as [s|] eqn:Es; [|reflexivity].
  destruct (alookup k (s_objs s)) as [o|] eqn:Eo; [|reflexivity].
  destruct (list_N_eqb _ _); [|reflexivity].
  cbn [fst]. now rewrite protect_one_idem.
Qed.

Lemma g_post_verify st si ks :
  g_post (post_body true) st si ks = (fold_left (fun s k => verify_one H s si k) ks st, false).
Proof.
  revert st. induction ks as [|k r IH]; intro st; cbn [g_post fold_left]; [reflexivity|].
  rewrite g_acts_verify. apply IH.
Qed.

(* the pre-add check finds nothing to check when none of the requested ids is in the store *)
Lemma g_pre_loop_absent st si ks :
  (forall k, In k ks -> store_has st si k = false) -> g_pre_loop st si ks = (st, false).
Proof.
  induction ks as [|k r IH]; intro Ha; cbn [g_pre_loop]; [reflexivity|].
  assert (E : hash_check st si k = (st, Some ExcFileNotFound)).
  { specialize (Ha k (or_introl eq_refl)). unfold store_has, ahas in Ha. unfold hash_check.
    destruct (get_store st si) as [s|]; [|reflexivity].
    destruct (alookup k (s_objs s)); [discriminate|reflexivity]. }
  rewrite E. cbn. apply IH. intros k' Hin. apply Ha. now right.
Qed.

(* ---------------------------------------------------------------- the adds *)
(* odb.add(paths, fs, oids[, hardlink][, check_exists]) without a verify argument: build's add to
   the staging/destination, index save, an external add *)
Theorem add_copy_tie st si items hl ce :
  g_add None model_store_verify hl ce (cp_bytes items) st si (map fst items)
  = (add_copy st si items ce, false).
Proof.
  unfold g_add, g_pre. change (eff_verify None model_store_verify) with false.
  change (pre_runs false && pre_check_hash) with false. cbv iota.
  rewrite post_body_plain. change (iter_oids post_over (map fst items)) with (distinct (map fst items)).
  rewrite g_post_protect. reflexivity.
Qed.

(* add_update_tree: the directory object, with the generated arguments of that call *)
Theorem tree_add_tie st si d listing :
  g_add tree_add_percall_verify model_store_verify tree_add_hardlink tree_add_check_exists
        (cp_bytes [(d, listing)]) st si [d]
  = (add_copy st si [(d, listing)] true, false).
Proof. apply (add_copy_tie st si [(d, listing)] tree_add_hardlink tree_add_check_exists). Qed.

(* transfer's dest.add(..., verify=v, check_exists=False): the per-call flag decides *)
Theorem add_new_plain_tie st si items hl sv :
  g_add (Some false) sv hl false (cp_bytes items) st si (map fst items)
  = (add_new H false st si items, false).
Proof.
  unfold g_add, g_pre. change (eff_verify (Some false) sv) with false.
  change (pre_runs false && pre_check_hash) with false. cbv iota.
  rewrite post_body_plain. change (iter_oids post_over (map fst items)) with (distinct (map fst items)).
  rewrite g_post_protect. reflexivity.
Qed.

Theorem add_new_verify_tie st si items hl sv :
  (forall k, In k (map fst items) -> store_has st si k = false) ->      (* transfer adds new ids only *)
  g_add (Some true) sv hl false (cp_bytes items) st si (map fst items)
  = (add_new H true st si items, false).
Proof.
  intro Ha. unfold g_add, g_pre. change (eff_verify (Some true) sv) with true.
  change (pre_runs true && pre_check_hash) with true. cbv iota.
  change (iter_oids pre_over (map fst items)) with (map fst items).
  rewrite (g_pre_loop_absent st si _ Ha). cbv iota.
  change (iter_oids post_over (map fst items)) with (distinct (map fst items)).
  rewrite g_post_verify. reflexivity.
Qed.

(* the order of the statements of add (the one state transaction comes after the post loop) *)
Theorem add_order_tie :
  add_order = [SEffVerify; SNormalise; SPre; SCopy; SPaths; SPost; SSave; SReturn]
  /\ pre_swallows = [ExcObjectFormat; ExcFileNotFound]
  /\ post_handler ExcObjectFormat = Some HReport /\ post_handler ExcFileNotFound = Some HPass
  /\ copy_reports = true /\ save_over = OidsDistinct /\ save_value = SaveOid.
Proof. repeat split; reflexivity. Qed.

(* ---------------------------------------------------------------- migrate *)
Definition pick {A} (sd : side) (s d : A) : A := match sd with Src => s | Dest => d end.

Lemma skipn_app_exact {A} (a b : list A) : skipn (length a) (a ++ b) = b.
Proof. induction a; simpl; auto. Qed.

Ltac bits := repeat match goal with p : positive |- _ => destruct p as [p|p|]; try discriminate end.

Lemma match_dir_rev l :
  (match l with 114 :: 105 :: 100 :: 46 :: _ => true | _ => false end) = true ->
  exists r, l = 114 :: 105 :: 100 :: 46 :: r.
Proof.
  intros Hm.
  destruct l as [|a l]; [discriminate|]. destruct a as [|p]; [discriminate|]. bits.
  destruct l as [|b l]; [discriminate|]. destruct b as [|p]; [discriminate|]. bits.
  destruct l as [|c l]; [discriminate|]. destruct c as [|p]; [discriminate|]. bits.
  destruct l as [|d l]; [discriminate|]. destruct d as [|p]; [discriminate|]. bits.
  now exists l.
Qed.

Lemma is_dir_oid_ends_with k : is_dir_oid k = ends_with k [46; 100; 105; 114].
Proof.
  unfold ends_with. destruct (is_dir_oid k) eqn:E.
  - unfold is_dir_oid in E. apply match_dir_rev in E as (r & Er).
    assert (Hk : k = rev r ++ [46; 100; 105; 114]).
    { rewrite <- (rev_involutive k), Er. simpl. now rewrite <- !app_assoc. }
    rewrite Hk. rewrite app_length. simpl length.
    replace (length (rev r) + 4 - 4)%nat with (length (rev r)) by lia.
    rewrite skipn_app_exact.
    replace (Nat.leb 4 (length (rev r) + 4)) with true by (symmetry; apply Nat.leb_le; lia).
    reflexivity.
  - destruct (Nat.leb (length [46; 100; 105; 114]) (length k)) eqn:El; [|reflexivity]. simpl andb.
    destruct (list_N_eqb (skipn (length k - length [46; 100; 105; 114]) k) [46; 100; 105; 114]) eqn:Es; [|exact (eq_sym Es)].
    apply list_N_eqb_spec in Es.
    assert (Hk : k = firstn (length k - 4) k ++ [46; 100; 105; 114]).
    { simpl length in Es. rewrite <- Es. symmetry. apply firstn_skipn. }
    rewrite Hk in E. change [46; 100; 105; 114] with dot_dir in E. rewrite is_dir_oid_app in E. discriminate.
Qed.

(* _hash_task's rule for the new oid, on the oid instead of the path: <root>/<oid[:2]>/<oid[2:]>
   ends in ".dir" exactly when the oid does (an oid is longer than six characters) *)
Lemma migrate_oid_tie k h : migrate_oid k h = h ++ (if is_dir_oid k then dot_dir else []).
Proof.
  unfold migrate_oid. rewrite <- is_dir_oid_ends_with. destruct (is_dir_oid k); [reflexivity|].
  now rewrite app_nil_r.
Qed.

(* the order in which prepare's pool returned the listed objects *)
Definition ordered_keys (objs : list (oid * obj)) (order : list oid) : list oid :=
  let listed := dedup (filter (fun k => ahas k objs) order) in
  listed ++ filter (fun k => negb (mem k listed)) (map fst objs).

(* migrate(prepare(src, dest)) through the generated decisions *)
Definition g_migrate (st : state) (src dst : nat) (order : list oid) (fs_links : bool) : state * N :=
  match get_store st src, get_store st dst with
  | Some s, Some d =>
      let lister := pick prepare_lists s d in         (* whose oids are listed *)
      let hasher := pick prepare_hash_name s d in     (* whose algorithm re-hashes *)
      let reader := pick prepare_reads_fs s d in      (* whose file system the bytes are read from *)
      let linked := pick migrate_from_fs s d in       (* whose file system the add copies / links from *)
      match s_objs lister with
      | [] => (st, 0)
      | _ =>
          let items := flat_map (fun k =>
                         match alookup k (s_objs reader), alookup k (s_objs linked) with
                         | Some o, Some o' => [(migrate_oid k (H (s_alg hasher) (o_bytes o)), o')]
                         | _, _ => []
                         end) (ordered_keys (s_objs lister) order) in
          (fst (g_add migrate_percall_verify model_store_verify migrate_hardlink migrate_check_exists
                      (cp_objs fs_links items) st (pick migrate_into src dst) (map fst items)), 0)
      end
  | _, _ => (st, 99)
  end.

Lemma add_link_tie st si items fs_links :
  g_add migrate_percall_verify model_store_verify migrate_hardlink migrate_check_exists
        (cp_objs fs_links items) st si (map fst items)
  = (add_link st si items fs_links, false).
Proof.
  unfold g_add, g_pre. change (eff_verify migrate_percall_verify model_store_verify) with false.
  change (pre_runs false && pre_check_hash) with false. cbv iota.
  rewrite post_body_plain. change (iter_oids post_over (map fst items)) with (distinct (map fst items)).
  rewrite g_post_protect.
  change (copy_hardlink migrate_hardlink) with true. change (copy_check_exists migrate_check_exists) with true.
  unfold cp_objs, add_link. cbn [andb]. reflexivity.
Qed.

Theorem migrate_tie st src dst order fs_links :
  migrate_op H st src dst order fs_links = g_migrate st src dst order fs_links.
Proof.
  unfold migrate_op, g_migrate.
  destruct (get_store st src) as [s|]; [|reflexivity].
  destruct (get_store st dst) as [d|]; [|reflexivity].
  cbn [pick prepare_lists prepare_hash_name prepare_reads_fs migrate_from_fs migrate_into].
  destruct (s_objs s) as [|p ps] eqn:Eo; [reflexivity|]. rewrite <- Eo.
  rewrite add_link_tie. cbn [fst]. f_equal. f_equal.
  unfold migrate_items, ordered_keys. apply flat_map_ext. intros k.
  destruct (alookup k (s_objs s)); [|reflexivity]. now rewrite migrate_oid_tie.
Qed.

End Tie.
