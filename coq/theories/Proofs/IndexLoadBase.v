(* C17 - basic facts about the lazily loaded index model (Model/IndexLoad.v):
   keys and prefixes, the canonical enumeration [usort], the algebra of [load_where]. *)
From Coq Require Import NArith List Bool Lia.
From DvcData Require Import Base.Val Model.IndexLoad.
Import ListNotations.
Open Scope N_scope.

(* ---- keys ------------------------------------------------------------------------------ *)
Lemma key_eqb_eq a b : key_eqb a b = true <-> a = b.
Proof.
  revert b; induction a as [|x a IH]; intros [|y b]; simpl; split; intros H;
    try reflexivity; try discriminate.
  - apply andb_true_iff in H as [H1 H2]. apply list_N_eqb_spec in H1. apply IH in H2. congruence.
  - injection H as -> ->. apply andb_true_iff. split; [now apply list_N_eqb_spec | now apply IH].
Qed.
Lemma key_eqb_refl a : key_eqb a a = true.
Proof. now apply key_eqb_eq. Qed.
Lemma key_eqb_sym a b : key_eqb a b = key_eqb b a.
Proof.
  destruct (key_eqb a b) eqn:E1, (key_eqb b a) eqn:E2; try reflexivity.
  - apply key_eqb_eq in E1. subst. now rewrite key_eqb_refl in E2.
  - apply key_eqb_eq in E2. subst. now rewrite key_eqb_refl in E1.
Qed.
Lemma list_N_eqb_refl a : list_N_eqb a a = true.
Proof. now apply list_N_eqb_spec. Qed.

Lemma is_prefix_spec p k : is_prefix p k = true <-> exists s, k = p ++ s.
Proof.
  revert k; induction p as [|x p IH]; intros k; simpl.
  - split; [intros _; now exists k | reflexivity].
  - destruct k as [|y k].
    + split; [discriminate | intros [s H]; discriminate].
    + split.
      * intros H. apply andb_true_iff in H as [H1 H2]. apply list_N_eqb_spec in H1.
        apply IH in H2 as [s ->]. exists s. now subst.
      * intros [s H]. injection H as -> ->. apply andb_true_iff. split.
        -- apply list_N_eqb_refl.
        -- apply IH. now exists s.
Qed.
Lemma is_prefix_refl k : is_prefix k k = true.
Proof. apply is_prefix_spec. exists []. now rewrite app_nil_r. Qed.
Lemma is_prefix_app p s : is_prefix p (p ++ s) = true.
Proof. apply is_prefix_spec. now exists s. Qed.
Lemma is_prefix_trans a b c : is_prefix a b = true -> is_prefix b c = true -> is_prefix a c = true.
Proof.
  intros H1 H2. apply is_prefix_spec in H1 as [s1 ->]. apply is_prefix_spec in H2 as [s2 ->].
  apply is_prefix_spec. exists (s1 ++ s2). now rewrite app_assoc.
Qed.
Lemma is_prefix_length p k : is_prefix p k = true -> (length p <= length k)%nat.
Proof. intros H. apply is_prefix_spec in H as [s ->]. rewrite app_length. lia. Qed.

(* two prefixes of the same key are comparable *)
Lemma prefix_comparable a : forall b k, is_prefix a k = true -> is_prefix b k = true ->
  is_prefix a b = true \/ is_prefix b a = true.
Proof.
  induction a as [|x a IH]; intros b k Ha Hb; [now left|].
  destruct b as [|y b]; [now right|].
  destruct k as [|z k]; [discriminate|]. simpl in *.
  apply andb_true_iff in Ha as [Ha1 Ha2]. apply andb_true_iff in Hb as [Hb1 Hb2].
  apply list_N_eqb_spec in Ha1. apply list_N_eqb_spec in Hb1. subst.
  rewrite list_N_eqb_refl. simpl. eapply IH; eauto.
Qed.
Lemma prefix_of_app a b s : is_prefix a (b ++ s) = true -> is_prefix a b = true \/ is_prefix b a = true.
Proof. intros H. eapply prefix_comparable; [exact H | apply is_prefix_app]. Qed.
Lemma is_prefix_antisym a b : is_prefix a b = true -> is_prefix b a = true -> a = b.
Proof.
  intros H1 H2. pose proof (is_prefix_length _ _ H1). pose proof (is_prefix_length _ _ H2).
  apply is_prefix_spec in H1 as [s ->]. rewrite app_length in *.
  destruct s; [now rewrite app_nil_r | simpl in *; lia].
Qed.
Lemma strict_prefix_spec p k : strict_prefix p k = true <-> is_prefix p k = true /\ p <> k.
Proof.
  unfold strict_prefix. rewrite andb_true_iff, negb_true_iff. split; intros [H1 H2]; split; auto.
  - intros ->. now rewrite key_eqb_refl in H2.
  - destruct (key_eqb p k) eqn:E; [apply key_eqb_eq in E; contradiction | reflexivity].
Qed.

(* ---- canonical enumeration --------------------------------------------------------------- *)
Section Order.
  Context {A : Type} (ltb : A -> A -> bool).
  Hypothesis irrefl : forall a, ltb a a = false.
  Hypothesis trans : forall a b c, ltb a b = true -> ltb b c = true -> ltb a c = true.
  Hypothesis total : forall a b, ltb a b = false -> ltb b a = false -> a = b.

  Fixpoint ssorted (l : list A) : Prop :=
    match l with
    | [] => True
    | x :: r => (forall y, In y r -> ltb x y = true) /\ ssorted r
    end.

  Lemma ins_in x l z : In z (ins ltb x l) <-> z = x \/ In z l.
  Proof.
    induction l as [|y r IH]; simpl; [intuition|].
    destruct (ltb x y) eqn:E1; simpl; [intuition|].
    destruct (ltb y x) eqn:E2; simpl.
    - rewrite IH. intuition.
    - pose proof (total _ _ E1 E2) as ->. intuition.
  Qed.

  Lemma ins_sorted x l : ssorted l -> ssorted (ins ltb x l).
  Proof.
    induction l as [|y r IH]; simpl; [intros _; split; [intros ? []|exact I]|].
    intros [Hy Hr]. destruct (ltb x y) eqn:E1.
    - simpl. split; [|split; assumption].
      intros z [<-|Hz]; [assumption | eapply trans; [exact E1 | now apply Hy]].
    - destruct (ltb y x) eqn:E2; [|simpl; split; assumption].
      simpl. split; [|now apply IH].
      intros z Hz. apply ins_in in Hz as [->|Hz]; [assumption | now apply Hy].
  Qed.

  Lemma usort_in l z : In z (usort ltb l) <-> In z l.
  Proof.
    induction l as [|x r IH]; simpl; [reflexivity|]. rewrite ins_in, IH. intuition.
  Qed.
  Lemma usort_sorted l : ssorted (usort ltb l).
  Proof. induction l as [|x r IH]; simpl; [exact I | now apply ins_sorted]. Qed.

  Lemma ssorted_ext a : forall b, ssorted a -> ssorted b -> (forall z, In z a <-> In z b) -> a = b.
  Proof.
    induction a as [|x a IH]; intros [|y b] Ha Hb H.
    - reflexivity.
    - exfalso. apply (H y). now left.
    - exfalso. apply (H x). now left.
    - destruct Ha as [Hx Ha], Hb as [Hy Hb].
      assert (x = y) as ->.
      { destruct (proj1 (H x) (or_introl eq_refl)) as [->|Hxb]; [reflexivity|].
        destruct (proj2 (H y) (or_introl eq_refl)) as [->|Hya]; [reflexivity|].
        pose proof (Hy _ Hxb) as L1. pose proof (Hx _ Hya) as L2.
        pose proof (trans _ _ _ L1 L2) as C. now rewrite irrefl in C. }
      f_equal. apply IH; try assumption.
      intros z. split; intros Hz.
      + destruct (proj1 (H z) (or_intror Hz)) as [<-|?]; [|assumption].
        pose proof (Hx _ Hz) as C. now rewrite irrefl in C.
      + destruct (proj2 (H z) (or_intror Hz)) as [<-|?]; [|assumption].
        pose proof (Hy _ Hz) as C. now rewrite irrefl in C.
  Qed.

  Lemma usort_ext a b : (forall z, In z a <-> In z b) -> usort ltb a = usort ltb b.
  Proof.
    intros H. apply ssorted_ext; try apply usort_sorted.
    intros z. now rewrite !usort_in.
  Qed.

  (* filtering commutes with the canonical enumeration *)
  Lemma ins_filter f x l : ssorted l ->
    filter f (ins ltb x l) = if f x then ins ltb x (filter f l) else filter f l.
  Proof.
    induction l as [|y r IH]; simpl; [destruct (f x); reflexivity|].
    intros [Hy Hr]. destruct (ltb x y) eqn:E1.
    - simpl. destruct (f x) eqn:Fx, (f y) eqn:Fy; simpl; rewrite ?E1; try reflexivity.
      (* f x, not f y: x goes in front of the filtered rest *)
      clear IH. assert (forall z, In z (filter f r) -> ltb x z = true) as Hlt.
      { intros z Hz. apply filter_In in Hz as [Hz _]. eapply trans; [exact E1 | now apply Hy]. }
      destruct (filter f r) as [|z t]; [reflexivity|]. simpl. now rewrite (Hlt z (or_introl eq_refl)).
    - destruct (ltb y x) eqn:E2.
      + simpl. rewrite (IH Hr). destruct (f x), (f y); simpl; rewrite ?E1, ?E2; reflexivity.
      + pose proof (total _ _ E1 E2) as ->. simpl. destruct (f y) eqn:Fy; simpl; rewrite ?irrefl; reflexivity.
  Qed.
  Lemma sorted_filter f l : ssorted l -> ssorted (filter f l).
  Proof.
    induction l as [|x r IH]; simpl; [auto|]. intros [Hx Hr]. destruct (f x); simpl; auto.
    split; auto. intros y Hy. apply filter_In in Hy as [Hy _]. now apply Hx.
  Qed.
  Lemma usort_filter f l : usort ltb (filter f l) = filter f (usort ltb l).
  Proof.
    induction l as [|x r IH]; simpl; [reflexivity|].
    rewrite ins_filter by apply usort_sorted. destruct (f x); simpl; now rewrite IH.
  Qed.
End Order.

(* lexicographic lifting of a strict total order *)
Section Lex.
  Context {A : Type} (ltb eqb : A -> A -> bool).
  Hypothesis eqb_eq : forall a b, eqb a b = true <-> a = b.
  Hypothesis irrefl : forall a, ltb a a = false.
  Hypothesis trans : forall a b c, ltb a b = true -> ltb b c = true -> ltb a c = true.
  Hypothesis total : forall a b, ltb a b = false -> ltb b a = false -> a = b.

  Lemma eqb_refl' a : eqb a a = true.
  Proof. now apply eqb_eq. Qed.

  Lemma lex_irrefl a : lex_lt ltb eqb a a = false.
  Proof. induction a as [|x a IH]; simpl; [reflexivity|]. now rewrite irrefl, eqb_refl'. Qed.

  Lemma lex_cons x a y b : lex_lt ltb eqb (x :: a) (y :: b) = true <->
    ltb x y = true \/ (x = y /\ lex_lt ltb eqb a b = true).
  Proof.
    simpl. destruct (ltb x y) eqn:E1; [intuition|].
    destruct (eqb x y) eqn:E2.
    - apply eqb_eq in E2. subst. intuition congruence.
    - split; [discriminate|]. intros [?|[-> _]]; [discriminate|]. now rewrite eqb_refl' in E2.
  Qed.

  Lemma lex_trans a : forall b c, lex_lt ltb eqb a b = true -> lex_lt ltb eqb b c = true ->
    lex_lt ltb eqb a c = true.
  Proof.
    induction a as [|x a IH]; intros [|y b] [|z c] H1 H2; try discriminate; try reflexivity.
    apply lex_cons in H1. apply lex_cons in H2. apply lex_cons.
    destruct H1 as [H1|[-> H1]], H2 as [H2|[-> H2]].
    - left. eapply trans; eauto.
    - now left.
    - now left.
    - right. split; [reflexivity | eapply IH; eauto].
  Qed.

  Lemma lex_total a : forall b, lex_lt ltb eqb a b = false -> lex_lt ltb eqb b a = false -> a = b.
  Proof.
    induction a as [|x a IH]; intros [|y b] H1 H2; try discriminate; try reflexivity.
    simpl in H1, H2.
    destruct (ltb x y) eqn:E1; [discriminate|]. destruct (ltb y x) eqn:E2; [discriminate|].
    pose proof (total _ _ E1 E2) as ->. rewrite eqb_refl' in H1, H2. f_equal. now apply IH.
  Qed.
End Lex.

Lemma Nltb_irrefl a : N.ltb a a = false. Proof. apply N.ltb_irrefl. Qed.
Lemma Nltb_trans a b c : N.ltb a b = true -> N.ltb b c = true -> N.ltb a c = true.
Proof. rewrite !N.ltb_lt. lia. Qed.
Lemma Nltb_total a b : N.ltb a b = false -> N.ltb b a = false -> a = b.
Proof. rewrite !N.ltb_ge. lia. Qed.

Lemma name_irrefl a : name_ltb a a = false.
Proof. apply lex_irrefl; [apply N.eqb_eq | apply Nltb_irrefl]. Qed.
Lemma name_trans a b c : name_ltb a b = true -> name_ltb b c = true -> name_ltb a c = true.
Proof. apply lex_trans; [apply N.eqb_eq | apply Nltb_trans]. Qed.
Lemma name_total a b : name_ltb a b = false -> name_ltb b a = false -> a = b.
Proof. apply lex_total; [apply N.eqb_eq | apply Nltb_total]. Qed.
Lemma key_irrefl a : key_ltb a a = false.
Proof. apply lex_irrefl; [apply list_N_eqb_spec | apply name_irrefl]. Qed.
Lemma key_trans a b c : key_ltb a b = true -> key_ltb b c = true -> key_ltb a c = true.
Proof. apply lex_trans; [apply list_N_eqb_spec | apply name_trans]. Qed.
Lemma key_total a b : key_ltb a b = false -> key_ltb b a = false -> a = b.
Proof. apply lex_total; [apply list_N_eqb_spec | apply name_total]. Qed.

Lemma usort_keys_ext a b : (forall z, In z a <-> In z b) -> usort key_ltb a = usort key_ltb b.
Proof. apply usort_ext; [apply key_irrefl | apply key_trans | apply key_total]. Qed.
Lemma usort_names_ext a b : (forall z, In z a <-> In z b) -> usort name_ltb a = usort name_ltb b.
Proof. apply usort_ext; [apply name_irrefl | apply name_trans | apply name_total]. Qed.
Lemma usort_keys_filter f l : usort key_ltb (filter f l) = filter f (usort key_ltb l).
Proof. apply usort_filter; [apply key_irrefl | apply key_trans | apply key_total]. Qed.

(* ---- load_where ---------------------------------------------------------------------------- *)
Section Load.
  Variable E : env.

  Lemma child_not_loadable k rows c : In c (children k rows) -> loadable E c = false.
  Proof.
    unfold children. rewrite in_app_iff, !in_map_iff. intros [[p [<- _]]|[r [<- _]]]; reflexivity.
  Qed.
  Lemma child_key k rows c : In c (children k rows) -> exists s, fst c = k ++ s.
  Proof.
    unfold children. rewrite in_app_iff, !in_map_iff. intros [[p [<- _]]|[r [<- _]]]; simpl; eauto.
  Qed.
  Lemma mark_not_loadable k e : loadable E (k, mark e) = false.
  Proof. reflexivity. Qed.

  Lemma expand_cases x :
    expand E x = [x] \/
    (loadable E x = true /\ exists rows, listing_of E (snd x) = Some rows /\
       expand E x = (fst x, mark (snd x)) :: children (fst x) rows).
  Proof.
    unfold expand. destruct (loadable E x) eqn:L; [|now left].
    destruct (listing_of E (snd x)) as [rows|] eqn:R; [|now left].
    right. split; [reflexivity|]. now exists rows.
  Qed.

  (* what an expansion produces is never loadable, unless nothing happened *)
  Lemma expand_out x y : In y (expand E x) -> y = x \/ loadable E y = false.
  Proof.
    destruct (expand_cases x) as [->|[_ [rows [_ ->]]]].
    - intros [<-|[]]. now left.
    - intros [<-|H]; right; [reflexivity | eapply child_not_loadable; eauto].
  Qed.

  Lemma expand_fix y : loadable E y = false -> expand E y = [y].
  Proof. unfold expand. now intros ->. Qed.

  Lemma expand_expand (s : sel) x :
    flat_map (fun y => if s y then expand E y else [y]) (expand E x) = expand E x.
  Proof.
    destruct (expand_cases x) as [H|[L [rows [R H]]]].
    - rewrite H. simpl. rewrite app_nil_r. destruct (s x); [exact H | reflexivity].
    - rewrite H. simpl. rewrite (expand_fix (fst x, mark (snd x))) by reflexivity.
      replace (if s (fst x, mark (snd x)) then [(fst x, mark (snd x))] else [(fst x, mark (snd x))])
        with [(fst x, mark (snd x))] by now destruct (s _).
      simpl. f_equal.
      assert (forall l, (forall c, In c l -> loadable E c = false) ->
                        flat_map (fun y => if s y then expand E y else [y]) l = l) as G.
      { induction l as [|c l IH]; intros Hl; [reflexivity|]. simpl.
        rewrite expand_fix by (apply Hl; now left).
        replace (if s c then [c] else [c]) with [c] by now destruct (s c).
        simpl. f_equal. apply IH. intros; apply Hl; now right. }
      apply G. intros c Hc. eapply child_not_loadable; eauto.
  Qed.

  Lemma load_where_fuse (s1 s2 : sel) i :
    load_where E s2 (load_where E s1 i) = load_where E (fun x => s1 x || s2 x) i.
  Proof.
    unfold load_where. induction i as [|x i IH]; [reflexivity|].
    simpl. rewrite flat_map_app, IH. f_equal.
    destruct (s1 x); simpl.
    - apply expand_expand.
    - rewrite app_nil_r. reflexivity.
  Qed.

  Lemma load_where_ext (s1 s2 : sel) i : (forall x, In x i -> s1 x = s2 x) ->
    load_where E s1 i = load_where E s2 i.
  Proof.
    unfold load_where. induction i as [|x i IH]; intros H; [reflexivity|].
    simpl. rewrite (H x) by now left. f_equal. apply IH. intros; apply H; now right.
  Qed.

  Lemma load_all_absorbs s i : load_all E (load_where E s i) = load_all E i.
  Proof.
    unfold load_all. rewrite load_where_fuse. apply load_where_ext.
    intros x _. unfold s_all. now rewrite orb_true_r.
  Qed.

  Lemma load_where_idem s i : load_where E s (load_where E s i) = load_where E s i.
  Proof. rewrite load_where_fuse. apply load_where_ext. intros x _. now rewrite orb_diag. Qed.

  Lemma load_where_fix s i : (forall x, In x i -> loadable E x = false) -> load_where E s i = i.
  Proof.
    unfold load_where. induction i as [|x i IH]; intros H; [reflexivity|]. simpl.
    rewrite expand_fix by (apply H; now left).
    replace (if s x then [x] else [x]) with [x] by now destruct (s x).
    simpl. f_equal. apply IH. intros; apply H; now right.
  Qed.

  (* membership *)
  Lemma load_where_in s i y :
    In y (load_where E s i) <-> exists x, In x i /\ In y (if s x then expand E x else [x]).
  Proof. unfold load_where. apply in_flat_map. Qed.

  (* every loadable directory object in play can be loaded *)
  Definition ok (i : idx) : Prop :=
    forall x, In x i -> loadable E x = true -> listing_of E (snd x) <> None.

  Lemma ok_no_fail s i : ok i -> fails E s i = false.
  Proof.
    intros H. unfold fails. apply not_true_is_false. intros C.
    apply existsb_exists in C as [x [Hx C]].
    apply andb_true_iff in C as [C1 C2]. apply andb_true_iff in C1 as [_ C1].
    specialize (H x Hx C1). destruct (listing_of E (snd x)); [discriminate | now apply H].
  Qed.

  Lemma ok_not_blocked s i : ok i -> blocked E s i = false.
  Proof. intros H. unfold blocked. rewrite ok_no_fail by assumption. apply andb_false_r. Qed.

  (* a loadable entry of the result was an unselected loadable entry of the source *)
  Lemma loadable_after s i y : ok i -> In y (load_where E s i) -> loadable E y = true ->
    In y i /\ s y = false.
  Proof.
    intros Hok Hy L. apply load_where_in in Hy as [x [Hx Hy]].
    destruct (s x) eqn:S.
    - exfalso. destruct (expand_out x y Hy) as [->|C]; [|congruence].
      unfold expand in Hy. rewrite L in Hy.
      destruct (listing_of E (snd x)) as [rows|] eqn:R; [|now apply (Hok x Hx L)].
      destruct Hy as [Hy|Hy].
      + rewrite <- Hy in L. discriminate.
      + erewrite child_not_loadable in L by eauto. discriminate.
    - destruct Hy as [<-|[]]. now split.
  Qed.

  Lemma ok_load_where s i : ok i -> ok (load_where E s i).
  Proof.
    intros H y Hy L. destruct (loadable_after s i y H Hy L) as [Hi _]. now apply H.
  Qed.

  Lemma load_all_none_loadable i : ok i -> forall y, In y (load_all E i) -> loadable E y = false.
  Proof.
    intros H y Hy. destruct (loadable E y) eqn:L; [|reflexivity].
    destruct (loadable_after s_all i y H Hy L) as [_ C]. discriminate.
  Qed.

  Lemma load_where_full s i : ok i -> load_where E s (load_all E i) = load_all E i.
  Proof. intros H. apply load_where_fix. now apply load_all_none_loadable. Qed.
End Load.
