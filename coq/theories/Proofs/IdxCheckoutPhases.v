(* Proofs about Model/IdxCheckout.v, part 3: pointwise specifications of the creation phases of
   apply - the fold of os.makedirs over dirs_create / over the parents of the files to create,
   create_files at the created keys for the three link types, and _chmod_files. *)
From Coq Require Import NArith List Bool Lia PeanoNat.
From DvcData Require Import Base.Val Base.PyBase Gen.PyTypes Gen.IDiff Model.IdxCheckout Proofs.IdxCheckoutProofs.
Import ListNotations.
Open Scope N_scope.

(* ---- makedirs ------------------------------------------------------------------------------------- *)
Definition under_some (k : key) (l : list key) : bool := existsb (fun k' => mem_key k (prefixes k')) l.

Lemma makedirs_fold_spec l : forall w k,
  lookup (fold_left (fun w k => makedirs k w) l w) k =
  match lookup w k with Some n => Some n | None => if under_some k l then Some Dir else None end.
Proof.
  induction l as [|k1 l IH]; intros w k; simpl.
  - now destruct (lookup w k).
  - rewrite IH, makedirs_spec. destruct (lookup w k); auto. now destruct (mem_key k (prefixes k1)).
Qed.

Lemma mkdir1_id w p : lookup w p <> None -> mkdir1 w p = w.
Proof. unfold mkdir1. destruct (lookup w p); congruence. Qed.
Lemma makedirs_id p w : (forall q, In q (prefixes p) -> lookup w q <> None) -> makedirs p w = w.
Proof.
  unfold makedirs. induction (prefixes p) as [|q l IH]; intros H; simpl; auto.
  rewrite mkdir1_id by (apply H; now left). apply IH. intros; apply H; now right.
Qed.

Lemma In_prefixes_self k : k <> [] -> In k (prefixes k).
Proof.
  induction k as [|x k IH]; [congruence|]. intros _. simpl. destruct k as [|y k]; [now left|].
  right. apply in_map. apply IH. discriminate.
Qed.

Lemma is_prefix_length p : forall k, is_prefix p k = true -> (length p <= length k)%nat.
Proof.
  induction p as [|x p IH]; intros [|y k] H; simpl in *; try lia; try discriminate.
  apply andb_true_iff in H as [_ H]. apply IH in H. lia.
Qed.
Lemma removelast_length {A} (k : list A) : k <> [] -> (length (removelast k) < length k)%nat.
Proof.
  induction k as [|x k IH]; [congruence|]. intros _. destruct k as [|y k]; simpl; [lia|].
  simpl in IH. specialize (IH ltac:(discriminate)). lia.
Qed.
(* a path component of the parent is a non-empty strict prefix of the key *)
Lemma In_prefixes_parent q k : In q (prefixes (parent k)) -> strict_prefix q k = true /\ q <> [].
Proof.
  intros H. apply prefixes_is_prefix in H as [P NE]. split; auto.
  assert (K : k <> []). { intros ->. simpl in P. destruct q; [congruence|discriminate]. }
  unfold strict_prefix. rewrite (is_prefix_trans _ _ _ P (is_prefix_removelast k)). simpl.
  apply Nat.ltb_lt. apply is_prefix_length in P. pose proof (removelast_length k K). unfold parent in P. lia.
Qed.

(* the parents made by 8c795c3 *)
Lemma make_parents_all lt avail l w :
  (forall kc, In kc l -> to_transfer lt avail kc = true) ->
  make_parents lt avail l w = fold_left (fun w k => makedirs k w) (map (fun kc => parent (fst kc)) l) w.
Proof.
  unfold make_parents. revert w. induction l as [|kc l IH]; intros w H; simpl; auto.
  rewrite (H kc) by now left. apply IH. intros; apply H; now right.
Qed.

(* ---- create_files at the created keys ------------------------------------------------------------------ *)
(* does the new path share the cache object's inode? *)
Definition shares (lt : link) (c : bytes) : bool :=
  match lt with Copy => false | Hardlink => match c with [] => false | _ => true end | Symlink => true end.

Lemma parent_ok_of k w : (forall q, In q (prefixes (parent k)) -> lookup w q = Some Dir) -> parent_ok k w = true.
Proof.
  intros H. unfold parent_ok. destruct (parent k) as [|x p] eqn:E; auto.
  rewrite (H (x :: p)); auto. rewrite ?E. apply In_prefixes_self. discriminate.
Qed.

Lemma create_file_ok lt avail w k c :
  mem_bytes c avail = true -> lookup w k = None ->
  (forall q, In q (prefixes (parent k)) -> lookup w q = Some Dir) ->
  create_file lt avail w (k, Some c) = (set k (File c false (shares lt c)) w, []).
Proof.
  intros A N P. unfold create_file. cbn [fst snd]. rewrite A. cbn [negb].
  pose proof (parent_ok_of k w P) as PO.
  destruct lt; cbn [shares].
  - rewrite makedirs_id by (intros q Hq; rewrite (P q Hq); discriminate). now rewrite N.
  - rewrite PO. cbn [negb]. destruct c; now rewrite N.
  - rewrite PO. cbn [negb]. now rewrite N.
Qed.

Fixpoint assoc_c (l : list (key * option bytes)) (k : key) : option (option bytes) :=
  match l with
  | [] => None
  | (k', c) :: r => if key_eqb k k' then Some c else assoc_c r k
  end.

Lemma create_fold_spec lt avail l : forall acc,
  NoDup (map fst l) ->
  (forall k' c, In (k', c) l -> exists c0, c = Some c0 /\ mem_bytes c0 avail = true /\ lookup (fst acc) k' = None /\
                                   forall q, In q (prefixes (parent k')) -> lookup (fst acc) q = Some Dir) ->
  (forall k' c q, In (k', c) l -> In q (prefixes (parent k')) -> ~ In q (map fst l)) ->
  snd (fold_left (cf_step lt avail) l acc) = snd acc /\
  forall k, lookup (fst (fold_left (cf_step lt avail) l acc)) k =
            match assoc_c l k with
            | Some (Some c0) => Some (File c0 false (shares lt c0))
            | _ => lookup (fst acc) k
            end.
Proof.
  induction l as [|[k1 c1] l IH]; intros acc ND H NP; simpl; [split; auto|].
  inversion ND as [|? ? NI ND']; subst.
  destruct (H k1 c1 (or_introl eq_refl)) as [c0 [-> [A [N P]]]].
  assert (S1 : cf_step lt avail acc (k1, Some c0) = (set k1 (File c0 false (shares lt c0)) (fst acc), snd acc)).
  { unfold cf_step. rewrite create_file_ok; auto. now rewrite app_nil_r. }
  rewrite S1. destruct (IH (set k1 (File c0 false (shares lt c0)) (fst acc), snd acc)) as [E1 E2]; auto.
  - intros k' c Hk'. destruct (H k' c (or_intror Hk')) as [c' [-> [A' [N' P']]]]. exists c'. cbn [fst].
    assert (k1 <> k') by (intros ->; apply NI; apply in_map_iff; exists (k', Some c'); auto).
    repeat split; auto.
    + rewrite lookup_set, key_eqb_neq; auto.
    + intros q Hq. rewrite lookup_set. destruct (key_eqb k1 q) eqn:E; auto.
      apply key_eqb_spec in E. subst q. exfalso. eapply (NP k' (Some c') k1); simpl; auto.
  - intros k' c q Hk' Hq Hin. eapply (NP k' c q); simpl; auto.
  - split; auto. intros k. rewrite E2. cbn [fst].
    destruct (key_eqb k k1) eqn:E.
    + apply key_eqb_spec in E. subst k1.
      assert (X : assoc_c l k = None).
      { clear -NI. induction l as [|[k2 c2] l IH]; simpl; auto. destruct (key_eqb k k2) eqn:E.
        - apply key_eqb_spec in E. subst. exfalso. apply NI. now left.
        - apply IH. intros X. apply NI. now right. }
      rewrite X, lookup_set, key_eqb_refl. reflexivity.
    + destruct (assoc_c l k) as [[c|]|]; auto; rewrite lookup_set, (key_eqb_sym k1 k), E; auto.
Qed.

(* ---- chmod ---------------------------------------------------------------------------------------------- *)
(* the same node, except that the exec bit may have been raised *)
Definition exec_le (o o' : option node) : Prop :=
  match o, o' with
  | Some (File b x sh), Some (File b' x' sh') => b = b' /\ sh = sh' /\ (x = true -> x' = true)
  | Some Dir, Some Dir | Some Dangling, Some Dangling | None, None => True
  | _, _ => False
  end.
Lemma exec_le_refl o : exec_le o o.
Proof. destruct o as [[]|]; simpl; auto. Qed.
Lemma exec_le_trans a b c : exec_le a b -> exec_le b c -> exec_le a c.
Proof.
  destruct a as [[]|], b as [[]|], c as [[]|]; simpl; try tauto.
  intros [-> [-> H1]] [-> [-> H2]]. auto.
Qed.
Definition is_exec (o : option node) : Prop := match o with Some (File _ true _) => True | _ => False end.
Lemma exec_le_exec o o' : exec_le o o' -> is_exec o -> is_exec o'.
Proof. destruct o as [[? [|] ?| |]|], o' as [[? [|] ?| |]|]; simpl; try tauto. intros [_ [_ H]] _. discriminate (H eq_refl). Qed.
Lemma exec_le_file o o' : exec_le o o' -> o_file o = true -> o_file o' = true.
Proof. destruct o as [[]|], o' as [[]|]; simpl; tauto || auto. Qed.

Lemma chmod1_spec k w : o_file (lookup w k) = true ->
  exists w1, chmod1 k w = Some w1 /\ is_exec (lookup w1 k) /\ forall k2, exec_le (lookup w k2) (lookup w1 k2).
Proof.
  unfold chmod1. destruct (lookup w k) as [[b x [|]| |]|] eqn:E; try discriminate; intros _.
  - exists (set_exec_shared b w). split; auto. split.
    + rewrite lookup_set_exec_shared, E. replace (list_N_eqb b b) with true; simpl; auto.
      symmetry. now apply list_N_eqb_spec.
    + intros k2. rewrite lookup_set_exec_shared. destruct (lookup w k2) as [[b2 x2 [|]| |]|]; simpl; auto.
      destruct (list_N_eqb b2 b); simpl; auto.
  - exists (set k (File b true false) w). split; auto. split.
    + rewrite lookup_set, key_eqb_refl. simpl. auto.
    + intros k2. rewrite lookup_set. destruct (key_eqb k k2) eqn:E2.
      * apply key_eqb_spec in E2. subst. rewrite E. simpl. auto.
      * apply exec_le_refl.
Qed.

Lemma chmod_files_spec l : forall w, (forall k, In k l -> o_file (lookup w k) = true) ->
  snd (chmod_files l w) = false /\
  (forall k2, exec_le (lookup w k2) (lookup (fst (chmod_files l w)) k2)) /\
  (forall k, In k l -> is_exec (lookup (fst (chmod_files l w)) k)).
Proof.
  induction l as [|k1 l IH]; intros w H; simpl.
  - repeat split; auto. intros; apply exec_le_refl. intros ? [].
  - destruct (chmod1_spec k1 w) as [w1 [E [X L]]]; [apply H; now left|]. rewrite E.
    destruct (IH w1) as [R [L1 X1]].
    { intros k Hk. eapply exec_le_file; [apply L|]. apply H. now right. }
    repeat split; auto.
    + intros k2. eapply exec_le_trans; eauto.
    + intros k [<-|Hk]; auto. eapply exec_le_exec; eauto.
Qed.

Lemma reorder_In_iff order l k : In k (reorder order l) <-> In k l.
Proof.
  split; [apply reorder_In|]. intros H. unfold reorder. rewrite in_app_iff, !filter_In.
  destruct (mem_key k order) eqn:E.
  - left. split; [now apply mem_key_spec | now apply mem_key_spec].
  - right. split; auto.
Qed.
