(* C02, basic facts: split/join, relative keys from root strings, dict-like folds with distinct
   keys, the keep-first object store, sorting is a permutation. *)
From Coq Require Import NArith List Bool Lia Permutation.
From DvcData Require Import Base.Val Base.MD5 Base.Json Model.Listing Model.RoundTrip.
Import ListNotations.
Open Scope N_scope.

(* ------------------------------------------------------------------ names, split / join *)
Definition sep_free (n : list N) : Prop := ~ In slash n.
Definition name_ok (n : list N) : Prop := n <> [] /\ sep_free n.

Lemma split_sep_nonnil sep s : split_sep sep s <> [].
Proof.
  induction s as [|c r IH]; simpl; [discriminate|].
  destruct (c =? sep); [discriminate|]. destruct (split_sep sep r); discriminate.
Qed.

Lemma split_sep_app sep a r :
  ~ In sep a -> split_sep sep (a ++ sep :: r) = a :: split_sep sep r.
Proof.
  induction a as [|c a IH]; intros Hn; simpl.
  - now rewrite N.eqb_refl.
  - destruct (c =? sep) eqn:E.
    + apply N.eqb_eq in E. exfalso. apply Hn. now left.
    + rewrite IH; [reflexivity|]. intros Hi. apply Hn. now right.
Qed.

Lemma split_sep_nosep sep a : ~ In sep a -> split_sep sep a = [a].
Proof.
  induction a as [|c a IH]; intros Hn; simpl; [reflexivity|].
  destruct (c =? sep) eqn:E.
  - apply N.eqb_eq in E. exfalso. apply Hn. now left.
  - rewrite IH; [reflexivity|]. intros Hi. apply Hn. now right.
Qed.

Lemma split_join k :
  Forall sep_free k -> k <> [] -> split_sep slash (join_sep slash k) = k.
Proof.
  induction k as [|x r IH]; intros Hf Hne; [congruence|].
  inversion Hf as [|? ? Hx Hr]; subst.
  destruct r as [|y r'].
  - simpl. now apply split_sep_nosep.
  - change (join_sep slash (x :: y :: r')) with (x ++ slash :: join_sep slash (y :: r')).
    rewrite split_sep_app by exact Hx. f_equal. apply IH; [exact Hr|discriminate].
Qed.

Lemma fs_key_id k : Forall sep_free k -> k <> [] -> fs_key k = k.
Proof. apply split_join. Qed.

(* ------------------------------------------------------------------ root strings *)
(* the root string os.walk yields for the directory with relative key d below p *)
Definition root_of (p : list N) (d : key) : list N :=
  match d with [] => p | _ :: _ => p ++ slash :: join_sep slash d end.

Lemma list_N_eqb_refl a : list_N_eqb a a = true.
Proof. now apply list_N_eqb_spec. Qed.

Lemma list_N_eqb_false a b : a <> b -> list_N_eqb a b = false.
Proof.
  intros Hn. destruct (list_N_eqb a b) eqn:E; [|reflexivity].
  apply list_N_eqb_spec in E. contradiction.
Qed.

Lemma skipn_app_exact {A} (p s : list A) : skipn (length p) (p ++ s) = s.
Proof. induction p; simpl; auto. Qed.

Lemma rel_key_root p d : Forall sep_free d -> rel_key p (root_of p d) = d.
Proof.
  intros Hd. unfold rel_key, root_of. destruct d as [|x r].
  - now rewrite list_N_eqb_refl.
  - rewrite list_N_eqb_false.
    + replace (S (length p)) with (length (p ++ [slash])) by (rewrite app_length; simpl; lia).
      replace (p ++ slash :: join_sep slash (x :: r)) with ((p ++ [slash]) ++ join_sep slash (x :: r))
        by (now rewrite <- app_assoc).
      rewrite skipn_app_exact. apply split_join; [exact Hd|discriminate].
    + intros E. apply (f_equal (@length N)) in E. rewrite app_length in E. simpl in E. lia.
Qed.

(* ------------------------------------------------------------------ keys *)
Lemma key_eqb_spec a b : key_eqb a b = true <-> a = b.
Proof.
  revert b; induction a as [|x a IH]; intros [|y b]; simpl; split; intros E;
    try reflexivity; try discriminate.
  - apply andb_true_iff in E as [E1 E2]. apply list_N_eqb_spec in E1. apply IH in E2. congruence.
  - injection E as -> ->. rewrite list_N_eqb_refl. simpl. now apply IH.
Qed.

Lemma key_eqb_refl a : key_eqb a a = true.
Proof. now apply key_eqb_spec. Qed.

Lemma key_eqb_false a b : a <> b -> key_eqb a b = false.
Proof.
  intros Hn. destruct (key_eqb a b) eqn:E; [|reflexivity].
  apply key_eqb_spec in E. contradiction.
Qed.

(* Tree.add of a key that is not there appends *)
Lemma add_fresh e t : ~ In (e_key e) (map e_key t) -> add e t = t ++ [e].
Proof.
  induction t as [|x r IH]; intros Hn; simpl; [reflexivity|].
  rewrite key_eqb_false.
  - rewrite IH; [reflexivity|]. intros Hi. apply Hn. now right.
  - intros E. apply Hn. left. now symmetry.
Qed.

Lemma fold_add_fresh es : forall t,
  NoDup (map e_key (t ++ es)) -> fold_left (fun t e => add e t) es t = t ++ es.
Proof.
  induction es as [|e r IH]; intros t Hnd; simpl.
  - now rewrite app_nil_r.
  - rewrite add_fresh.
    + rewrite IH; rewrite <- app_assoc; simpl; [reflexivity|exact Hnd].
    + rewrite map_app in Hnd. simpl in Hnd. apply NoDup_remove_2 in Hnd.
      intros Hi. apply Hnd. apply in_or_app. now left.
Qed.

Lemma tree_of_list_nodup es : NoDup (map e_key es) -> tree_of_list es = es.
Proof. intros Hnd. unfold tree_of_list. now rewrite fold_add_fresh. Qed.

Lemma fs_write_fresh k b f : ~ In k (map fst f) -> fs_write k b f = f ++ [(k, b)].
Proof.
  induction f as [|[k' b'] r IH]; intros Hn; simpl; [reflexivity|].
  rewrite key_eqb_false.
  - rewrite IH; [reflexivity|]. intros Hi. apply Hn. now right.
  - intros E. apply Hn. left. now symmetry.
Qed.

(* ------------------------------------------------------------------ the store *)
Lemma st_get_app o s s' :
  st_get o (s ++ s') = match st_get o s with Some b => Some b | None => st_get o s' end.
Proof.
  induction s as [|[o' b] r IH]; simpl; [reflexivity|].
  destruct (list_N_eqb o o'); [reflexivity|exact IH].
Qed.

Lemma st_get_add o ob s :
  st_get o (st_add ob s) =
  match st_get o s with Some b => Some b | None => st_get o [ob] end.
Proof.
  unfold st_add. destruct (st_get (fst ob) s) eqn:E.
  - destruct (st_get o s) eqn:E2; [reflexivity|].
    destruct ob as [o' b']. simpl in *. destruct (list_N_eqb o o') eqn:E3; [|reflexivity].
    apply list_N_eqb_spec in E3. subst. congruence.
  - apply st_get_app.
Qed.

Lemma st_get_add_all o obs : forall s,
  st_get o (st_add_all obs s) =
  match st_get o s with Some b => Some b | None => st_get o obs end.
Proof.
  induction obs as [|ob r IH]; intros s; simpl.
  - now destruct (st_get o s).
  - unfold st_add_all in *. simpl. rewrite IH. rewrite st_get_add.
    destruct (st_get o s); [reflexivity|].
    destruct ob as [o' b']. simpl. destruct (list_N_eqb o o'); reflexivity.
Qed.

(* no two contents in play share an object id *)
Definition collision_free (l : list (list N * bytes)) : Prop :=
  forall o b b', In (o, b) l -> In (o, b') l -> b = b'.

Lemma st_get_in o b l : collision_free l -> In (o, b) l -> st_get o l = Some b.
Proof.
  induction l as [|[o' b'] r IH]; intros Hc Hi; [contradiction|]. simpl.
  destruct (list_N_eqb o o') eqn:E.
  - apply list_N_eqb_spec in E. subst. f_equal. apply (Hc o'); [now left|exact Hi].
  - destruct Hi as [Hi|Hi].
    + injection Hi as -> ->. now rewrite list_N_eqb_refl in E.
    + apply IH; [|exact Hi]. intros o1 b1 b2 H1 H2. apply (Hc o1); now right.
Qed.

Lemma collision_free_app_l l l' : collision_free (l ++ l') -> collision_free l.
Proof. intros Hc o b b' H1 H2. apply (Hc o); apply in_or_app; now left. Qed.

(* ------------------------------------------------------------------ sorting *)
Lemma insert_by_perm {A} (leb : A -> A -> bool) x l : Permutation (insert_by leb x l) (x :: l).
Proof.
  induction l as [|y r IH]; simpl; [reflexivity|].
  destruct (leb x y); [reflexivity|].
  rewrite IH. apply perm_swap.
Qed.

Lemma sort_by_perm {A} (leb : A -> A -> bool) l : Permutation (sort_by leb l) l.
Proof.
  induction l as [|x r IH]; simpl; [reflexivity|].
  unfold sort_by in *. simpl. rewrite insert_by_perm. now constructor.
Qed.

Lemma insert_by_map {A B} (f : A -> B) (lebA : A -> A -> bool) (lebB : B -> B -> bool) :
  (forall a b, lebB (f a) (f b) = lebA a b) ->
  forall x l, insert_by lebB (f x) (map f l) = map f (insert_by lebA x l).
Proof.
  intros Hc x l. induction l as [|y r IH]; simpl; [reflexivity|].
  rewrite Hc. destruct (lebA x y); simpl; [reflexivity|]. now rewrite IH.
Qed.

Lemma sort_by_map {A B} (f : A -> B) (lebA : A -> A -> bool) (lebB : B -> B -> bool) :
  (forall a b, lebB (f a) (f b) = lebA a b) ->
  forall l, sort_by lebB (map f l) = map f (sort_by lebA l).
Proof.
  intros Hc l. induction l as [|x r IH]; simpl; [reflexivity|].
  unfold sort_by in *. simpl. rewrite IH. now apply insert_by_map.
Qed.

(* ------------------------------------------------------------------ prefixes *)
Lemma in_proper_prefixes d : forall k,
  In d (proper_prefixes k) <-> d <> [] /\ exists s, s <> [] /\ k = d ++ s.
Proof.
  intros k. revert d. induction k as [|x r IH]; intros d; simpl.
  - split; [contradiction|]. intros [Hd [s [Hs E]]]. destruct d; [congruence|discriminate].
  - destruct r as [|y r'].
    + split; [contradiction|]. intros [Hd [s [Hs E]]].
      destruct d as [|a d]; [congruence|]. injection E as -> E.
      destruct d; destruct s; simpl in E; try discriminate; congruence.
    + split.
      * intros [E|Hi].
        -- subst d. split; [discriminate|]. exists (y :: r'). split; [discriminate|reflexivity].
        -- apply in_map_iff in Hi as [d' [E Hi]]. subst d. apply IH in Hi as [Hd [s [Hs E]]].
           split; [discriminate|]. exists s. split; [exact Hs|]. simpl. now rewrite E.
      * intros [Hd [s [Hs E]]]. destruct d as [|a d]; [congruence|]. injection E as -> E.
        destruct d as [|b d].
        -- now left.
        -- right. apply in_map_iff. exists (b :: d). split; [reflexivity|].
           apply IH. split; [discriminate|]. exists s. split; [exact Hs|exact E].
Qed.
