(* The keys _build_tree derives do not depend on how the staged directory is spelled (trailing
   separators), and are exactly the relative parts of the walked directory. *)
From Coq Require Import NArith List Bool Lia.
From DvcData Require Import Base.Val Model.Listing Model.HashSchedPath Model.ListingHist.
From DvcData Require Import Proofs.ListingSort Proofs.ListingProofs.
Import ListNotations.
Open Scope N_scope.

Lemma drop_sep_repeat sep n s : drop_sep sep (repeat sep n ++ s) = drop_sep sep s.
Proof. induction n as [|n IH]; [reflexivity|]. cbn [repeat app drop_sep]. now rewrite N.eqb_refl. Qed.

Lemma rev_repeat {A} (x : A) n : rev (repeat x n) = repeat x n.
Proof.
  induction n as [|n IH]; [reflexivity|]. cbn [repeat rev]. rewrite IH.
  clear IH. induction n as [|n IH]; [reflexivity|]. cbn [repeat app]. now rewrite IH.
Qed.

Lemma rstrip_sep_repeat sep s n : rstrip_sep sep (s ++ repeat sep n) = rstrip_sep sep s.
Proof. unfold rstrip_sep. now rewrite rev_app_distr, rev_repeat, drop_sep_repeat. Qed.

(* build("<dir>"), build("<dir>/"), build("<dir>//") ... derive the same keys *)
Theorem rel_key_trailing_sep path n root :
  rel_key_of (path ++ repeat slash n) root = rel_key_of path root.
Proof. unfold rel_key_of. now rewrite rstrip_sep_repeat. Qed.

Lemma list_N_eqb_length a : forall b, list_N_eqb a b = true -> length a = length b.
Proof. intros b H. apply list_N_eqb_spec in H. now subst. Qed.

(* the key of the walked directory  <stripped path>/<k1>/.../<kn>  is (k1, ..., kn) *)
Theorem rel_key_of_join path k :
  key_ok k = true ->
  rel_key_of path (rstrip_sep slash path ++ slash :: relpath k) = k.
Proof.
  intros Hk. unfold rel_key_of. set (p := rstrip_sep slash path).
  destruct (list_N_eqb (p ++ slash :: relpath k) p) eqn:E.
  - apply list_N_eqb_length in E. rewrite app_length in E. cbn [length] in E. lia.
  - replace (skipn (S (length p)) (p ++ slash :: relpath k)) with (relpath k).
    + now apply split_join.
    + change (S (length p)) with (length p + 1)%nat || idtac.
      replace (p ++ slash :: relpath k) with ((p ++ [slash]) ++ relpath k) by now rewrite <- app_assoc.
      replace (S (length p)) with (length (p ++ [slash])) by (rewrite app_length; cbn [length]; lia).
      symmetry. apply skipn_app_length.
Qed.

Theorem rel_key_of_top path : rel_key_of path (rstrip_sep slash path) = [].
Proof. unfold rel_key_of. now rewrite list_N_eqb_refl. Qed.

(* Tree.digest(with_meta): the flag does not influence the identifier *)
Theorem digest_obj_oid b t oid content : digest_obj b t = Some (oid, content) -> oid = digest t.
Proof. unfold digest_obj, digest. destruct (as_bytes_res b t); [|discriminate]. now intros [= <- _]. Qed.

Theorem digest_obj_flag t o1 c1 o2 c2 :
  digest_obj true t = Some (o1, c1) -> digest_obj false t = Some (o2, c2) ->
  o1 = o2 /\ c2 = as_bytes false t.
Proof.
  intros H1 H2. rewrite (digest_obj_oid _ _ _ _ H1), (digest_obj_oid _ _ _ _ H2). split; [reflexivity|].
  unfold digest_obj, as_bytes_res in H2. cbn [andb] in H2. now injection H2 as _ <-.
Qed.

Example ex_rel_key :
  rel_key_of [47; 116; 47; 100; 47; 47] [47; 116; 47; 100; 47; 115; 117; 98; 47; 120] = [[115; 117; 98]; [120]]
  /\ rel_key_of [47; 116; 47; 100] [47; 116; 47; 100; 47; 115; 117; 98; 47; 120] = [[115; 117; 98]; [120]].
Proof. split; reflexivity. Qed.
