(* C07: the hypotheses of the theorems are satisfiable by concrete, non-trivial states. *)
From Coq Require Import NArith List Bool.
From DvcData Require Import Base.Val Gen.Check Model.StateDbBase Model.Integrity Proofs.IntegrityProofs Proofs.IntegrityProofsFold Proofs.IntegrityProofsAdd.
Import ListNotations.
Open Scope N_scope.

(* digest table: [1;2] |-> "b", [3] |-> "a", [4] |-> "a" *)
Definition exH := tableH [([1; 2], [98]); ([3], [97]); ([4], [97])].
Definition oa : oid := [97].                      (* "a" *)
Definition oad : oid := [97; 46; 100; 105; 114].  (* "a.dir" *)

(* object "a" holds bytes that hash to "b", mode 0o644, and the state row is from before the
   tampering (other token): a stale entry on a Local store *)
Definition w_stale : world :=
  W Local md5_name true false 420 [(oa, Ob [1; 2] 420 (T 7 20 2))] [(oa, Rw (T 7 10 1) md5_name oa)].
(* the same with a row re-recorded after the tampering (warm, truthful) on a Base store *)
Definition w_warm : world :=
  W Base md5_name true false 420 [(oa, Ob [1; 2] 420 (T 7 20 2))] [(oa, Rw (T 7 20 2) md5_name [98])].
(* cold: StateNoop *)
Definition w_cold : world := W Local md5_name false false 420 [(oa, Ob [1; 2] 384 (T 7 20 2))] [].
(* an intact "a.dir" with a valid row, unprotected *)
Definition w_ok : world :=
  W Local md5_name true false 420 [(oad, Ob [3] 420 (T 8 5 1))] [(oad, Rw (T 8 5 1) md5_name oad)].

Example tampered_stale : Tampered exH w_stale oa (Ob [1; 2] 420 (T 7 20 2)).
Proof.
  split; [reflexivity|]. split; [discriminate|]. split; [discriminate|].
  apply regimes_honest. right. left. eexists. split; [reflexivity|discriminate].
Qed.

Example tampered_warm : Tampered exH w_warm oa (Ob [1; 2] 420 (T 7 20 2)).
Proof.
  split; [reflexivity|]. split; [discriminate|]. split; [discriminate|].
  apply regimes_honest. right. right. eexists. repeat split; reflexivity.
Qed.

Example tampered_cold : Tampered exH w_cold oa (Ob [1; 2] 384 (T 7 20 2)).
Proof.
  split; [reflexivity|]. split; [discriminate|]. split; [discriminate|].
  apply regimes_honest. left. left. reflexivity.
Qed.

Example intact_ok : Intact exH w_ok oad (Ob [3] 420 (T 8 5 1)).
Proof.
  split; [reflexivity|]. split; [reflexivity|]. intros r _ L _ _. injection L as <-. reflexivity.
Qed.

(* what the model computes on them (sanity of the statements) *)
Example reject_computes : fst (check exH w_stale oa) = 3 /\ w_objs (snd (check exH w_stale oa)) = [].
Proof. vm_compute. auto. Qed.
Example intact_computes :
  fst (check exH w_ok oad) = 0 /\ w_objs (snd (check exH w_ok oad)) = [(oad, Ob [3] 292 (T 8 5 1))].
Proof. vm_compute. auto. Qed.

(* add(verify=True) of "a" from a corrupt source (bytes hashing to "b") and of "a.dir" from an
   honest one, onto the stale world: hypotheses of verify_add hold for both ids *)
Definition ex_items : list item := [(oa, [1; 2], T 9 30 2); (oad, [4], T 10 30 1)].

Example verify_add_hyps :
  NoDup (map it_oid ex_items) /\
  honest exH w_stale oa /\ trusted_ok exH w_stale oa /\ fresh w_stale oa (T 9 30 2) /\
  honest exH w_stale oad /\ trusted_ok exH w_stale oad /\ fresh w_stale oad (T 10 30 1).
Proof.
  split. { repeat constructor; simpl; intuition discriminate. }
  split. { intros ob L. injection L as <-. apply regimes_honest. right. left. eexists. split; [reflexivity|discriminate]. }
  split. { intros ob L _ M. injection L as <-. discriminate. }
  split. { split. intros r L. injection L as <-. discriminate. intros ob L. injection L as <-. discriminate. }
  split. { intros ob L. discriminate. }
  split. { intros ob L. discriminate. }
  split. intros r L. discriminate. intros ob L. discriminate.
Qed.

Example verify_add_computes :
  w_objs (snd (add exH w_stale (Some true) ex_items)) = [(oad, Ob [4] 292 (T 10 30 1))] /\
  fst (add exH w_stale (Some true) ex_items) = (2, [oa]).
Proof. vm_compute. auto. Qed.
