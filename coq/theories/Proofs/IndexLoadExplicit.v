(* C17 - the fully loaded lazy index and the explicit construction (the directory's files listed
   explicitly, sub-directories left implicit) have the same projection: the same nodes, and for
   every node the same "is a directory" and the same file hash. *)
From Coq Require Import NArith PeanoNat List Bool Lia.
From DvcData Require Import Base.Val Model.IndexLoad Proofs.IndexLoadBase Proofs.IndexLoadProofs Proofs.IndexLoadThms.
Import ListNotations.
Open Scope N_scope.

(* listings are trees: no row key is a proper prefix of another row key *)
Definition tree_rows (rows : list lrow) : Prop :=
  forall r1 r2, In r1 rows -> In r2 rows -> is_prefix (r_key r1) (r_key r2) = true -> r_key r1 = r_key r2.
Definition lwf (E : env) (i : idx) : Prop :=
  forall x rows, In x i -> listing_of E (snd x) = Some rows -> tree_rows rows.

Section Explicit.
  Variable E : env.
  Notation F := (load_all E).
  Notation X := (explicit E).

  Definition xentry (e : entry) : entry := {| e_meta := e_meta e; e_hash := None; e_loaded := true |}.
  Definition files (k : key) (rows : list lrow) : idx := map (fun r => (k ++ r_key r, file_entry r)) rows.
  Definition dirs (k : key) (rows : list lrow) : idx :=
    map (fun p => (k ++ p, dir_entry)) (dedup (flat_map (fun r => proper_inits (r_key r)) rows)).

  Lemma both_cases x :
    (expand E x = [x] /\ explicit1 E x = [x]) \/
    (loadable E x = true /\ exists rows, listing_of E (snd x) = Some rows /\
       expand E x = (fst x, mark (snd x)) :: dirs (fst x) rows ++ files (fst x) rows /\
       explicit1 E x = (fst x, xentry (snd x)) :: files (fst x) rows).
  Proof.
    unfold expand, explicit1. destruct (loadable E x) eqn:L; [|now left].
    destruct (listing_of E (snd x)) as [rows|] eqn:R; [|now left].
    right. split; [reflexivity|]. exists rows. repeat split.
  Qed.

  Lemma F_cons x r : F (x :: r) = expand E x ++ F r.
  Proof. reflexivity. Qed.
  Lemma X_cons x r : X (x :: r) = explicit1 E x ++ X r.
  Proof. reflexivity. Qed.

  (* ---- lookups ---- *)
  Lemma lookup_app_gen l1 l2 z :
    lookup (l1 ++ l2) z = match lookup l1 z with Some e => Some e | None => lookup l2 z end.
  Proof.
    induction l1 as [|[k e] l1 IH]; [reflexivity|]. simpl. destruct (key_eqb z k); [reflexivity | exact IH].
  Qed.
  Lemma lookup_notin l z : (forall y, In y l -> fst y <> z) -> lookup l z = None.
  Proof.
    induction l as [|[k e] l IH]; intros H; [reflexivity|]. simpl.
    destruct (key_eqb z k) eqn:Q.
    - apply key_eqb_eq in Q. exfalso. apply (H (k, e)); [now left | now subst].
    - apply IH. intros; apply H; now right.
  Qed.

  Lemma dedup_in l x : In x (dedup l) -> In x l.
  Proof.
    induction l as [|a l IH]; simpl; [auto|]. destruct (mem_key a l); [auto|].
    intros [<-|H]; auto.
  Qed.
  Lemma in_dedup l x : In x l -> In x (dedup l).
  Proof.
    induction l as [|a l IH]; simpl; [auto|]. intros [<-|H].
    - destruct (mem_key a l) eqn:M; [|now left].
      apply IH. unfold mem_key in M. apply existsb_exists in M as [b [Hb Q]].
      apply key_eqb_eq in Q. now subst.
    - destruct (mem_key a l); [auto | right; auto].
  Qed.
  Lemma proper_inits_in k p : In p (proper_inits k) -> strict_prefix p k = true.
  Proof.
    revert p; induction k as [|x k IH]; intros p; simpl; [intros []|].
    destruct k as [|y k]; [intros []|].
    intros [<-|H].
    - apply strict_prefix_spec. split; [simpl; now rewrite list_N_eqb_refl | discriminate].
    - apply in_map_iff in H as [p' [<- H]]. apply IH in H. apply strict_prefix_spec in H as [H1 H2].
      apply strict_prefix_spec. split; [simpl; now rewrite list_N_eqb_refl | congruence].
  Qed.

  Lemma dirs_in k rows y : In y (dirs k rows) ->
    snd y = dir_entry /\ exists p r, fst y = k ++ p /\ In r rows /\ strict_prefix p (r_key r) = true.
  Proof.
    unfold dirs. intros H. apply in_map_iff in H as [p [<- H]]. split; [reflexivity|].
    apply dedup_in, in_flat_map in H as [r [Hr H]]. exists p, r. auto using proper_inits_in.
  Qed.
  Lemma files_in k rows y : In y (files k rows) -> exists r, In r rows /\ y = (k ++ r_key r, file_entry r).
  Proof. unfold files. intros H. apply in_map_iff in H as [r [<- H]]. eauto. Qed.

  Lemma is_prefix_app_l k a b : is_prefix a b = true -> is_prefix (k ++ a) (k ++ b) = true.
  Proof.
    intros H. apply is_prefix_spec in H as [s ->]. apply is_prefix_spec. exists s. now rewrite app_assoc.
  Qed.

  (* the keys of an expansion lie at or beneath the key of the entry; beneath only if it was loadable *)
  Lemma X_key_in r y : In y (X r) ->
    exists x' sfx, In x' r /\ fst y = fst x' ++ sfx /\ (sfx = [] \/ loadable E x' = true).
  Proof.
    unfold explicit. intros H. apply in_flat_map in H as [x' [Hx' H]].
    exists x'. destruct (both_cases x') as [[_ Q]|[L [rows [_ [_ Q]]]]]; rewrite Q in H.
    - destruct H as [<-|[]]. exists []. rewrite app_nil_r. auto.
    - destruct H as [<-|H]; [exists []; simpl; rewrite app_nil_r; auto|].
      apply files_in in H as [r' [_ ->]]. exists (r_key r'). auto.
  Qed.

  Definition wfp (i : idx) : Prop :=
    forall x y, In x i -> In y i -> loadable E x = true -> is_prefix (fst x) (fst y) = true -> y = x.

  Lemma region_empty x r z : wfp (x :: r) -> NoDup (map fst (x :: r)) -> loadable E x = true ->
    is_prefix (fst x) z = true -> lookup (X r) z = None.
  Proof.
    intros W ND L P. apply lookup_notin. intros y Hy Ey.
    destruct (X_key_in r y Hy) as [x' [sfx [Hx' [Ek Hs]]]].
    simpl in ND. apply NoDup_cons_iff in ND as [NI _].
    assert (x' <> x) as NE by (intros ->; apply NI; now apply in_map).
    assert (is_prefix (fst x') z = true) as P' by (rewrite <- Ey, Ek; apply is_prefix_app).
    destruct (prefix_comparable _ _ _ P P') as [C|C].
    - apply NE. apply (W x x'); simpl; auto.
    - destruct Hs as [->|L'].
      + rewrite app_nil_r in Ek. rewrite <- Ey, Ek in P.
        apply NE. apply (W x x'); simpl; auto.
      + apply NE. symmetry. apply (W x' x); simpl; auto.
  Qed.

  Definition pr (oe : option entry) : bool * option oid :=
    (info_isdir oe, if info_isdir oe then None else hval oe).

  Lemma pr_dir_entry : pr (option_map strip (Some dir_entry)) = (true, None).
  Proof. reflexivity. Qed.

  Lemma loadable_isdir x e' : loadable E x = true -> e_meta e' = e_meta (snd x) ->
    pr (option_map strip (Some e')) = (true, None).
  Proof.
    intros L M. unfold loadable in L. apply andb_true_iff in L as [L _]. apply andb_true_iff in L as [_ L].
    unfold pr, info_isdir, isdir_raw, norm, strip in *. simpl. rewrite M.
    destruct (e_meta (snd x)) as [m|]; [|discriminate]. simpl. now rewrite L.
  Qed.

  Lemma values_agree : forall i, wfp i -> NoDup (map fst i) -> lwf E i ->
    forall z, pr (lookupS (F i) z) = pr (lookupS (X i) z).
  Proof.
    unfold lookupS. induction i as [|x r IH]; intros W ND LW z; [reflexivity|].
    assert (wfp r) as W' by (intros a b Ha Hb; apply W; now right).
    assert (NoDup (map fst r)) as ND' by now inversion ND.
    assert (lwf E r) as LW' by (intros a rows Ha; apply (LW a rows); now right).
    specialize (IH W' ND' LW' z).
    rewrite F_cons, X_cons, !lookup_app_gen.
    destruct (both_cases x) as [[Q1 Q2]|[L [rows [R [Q1 Q2]]]]]; rewrite Q1, Q2.
    - destruct x as [k e]. simpl. destruct (key_eqb z k); [reflexivity | exact IH].
    - cbn [lookup fst]. destruct (key_eqb z (fst x)) eqn:Q.
      + rewrite (loadable_isdir x (mark (snd x)) L eq_refl), (loadable_isdir x (xentry (snd x)) L eq_refl).
        reflexivity.
      + rewrite lookup_app_gen.
        destruct (lookup (dirs (fst x) rows) z) as [d|] eqn:D.
        * apply lookup_in in D. destruct (dirs_in _ _ _ D) as [Ed [p [r2 [Ez [Hr2 SP]]]]].
          simpl in Ed, Ez. subst d.
          assert (lookup (files (fst x) rows) z = None) as ->.
          { apply lookup_notin. intros y Hy Ey. apply files_in in Hy as [r1 [Hr1 ->]]. simpl in Ey.
            rewrite Ez in Ey. apply app_inv_head in Ey. apply strict_prefix_spec in SP as [SP NE].
            apply NE. rewrite <- Ey. apply (LW x rows (or_introl eq_refl) R r1 r2 Hr1 Hr2). now rewrite Ey. }
          rewrite (region_empty x r z W ND L) by (rewrite Ez; apply is_prefix_app). reflexivity.
        * destruct (lookup (files (fst x) rows) z); [reflexivity | exact IH].
  Qed.

  (* ---- nodes ---- *)
  Lemma inits_ne_iff a k : In a (inits_ne k) <-> a <> [] /\ is_prefix a k = true.
  Proof.
    split.
    - intros H. destruct (inits_ne_in _ _ H) as [NE [b ->]]. split; [assumption | apply is_prefix_app].
    - intros [NE P]. apply is_prefix_spec in P as [b ->]. rewrite inits_ne_app. apply in_or_app. left.
      now apply inits_ne_self.
  Qed.

  Lemma nodes_one x z :
    (exists y, In y (expand E x) /\ In z (inits_ne (fst y))) <->
    (exists y, In y (explicit1 E x) /\ In z (inits_ne (fst y))).
  Proof.
    destruct (both_cases x) as [[Q1 Q2]|[L [rows [R [Q1 Q2]]]]]; rewrite Q1, Q2; [reflexivity|].
    split; intros [y [Hy Hz]].
    - destruct Hy as [<-|Hy]; [exists (fst x, xentry (snd x)); split; [now left | exact Hz]|].
      apply in_app_or in Hy as [Hy|Hy].
      + destruct (dirs_in _ _ _ Hy) as [_ [p [r2 [Ey [Hr2 SP]]]]].
        exists (fst x ++ r_key r2, file_entry r2). split.
        * right. unfold files. apply in_map_iff. now exists r2.
        * apply inits_ne_iff in Hz as [NE P]. apply inits_ne_iff. split; [assumption|].
          simpl. eapply is_prefix_trans; [exact P|]. rewrite Ey. apply is_prefix_app_l.
          now apply strict_prefix_spec in SP as [SP _].
      + exists y. split; [now right | exact Hz].
    - destruct Hy as [<-|Hy]; [exists (fst x, mark (snd x)); split; [now left | exact Hz]|].
      exists y. split; [right; apply in_or_app; now right | exact Hz].
  Qed.

  Lemma nodes_agree i z :
    In z (flat_map (fun x => inits_ne (fst x)) (F i)) <-> In z (flat_map (fun x => inits_ne (fst x)) (X i)).
  Proof.
    rewrite !in_flat_map. unfold load_all, load_where, explicit. split.
    - intros [y [Hy Hz]]. apply in_flat_map in Hy as [x [Hx Hy]]. simpl in Hy.
      destruct (proj1 (nodes_one x z) (ex_intro _ y (conj Hy Hz))) as [y' [Hy' Hz']].
      exists y'. split; [|assumption]. apply in_flat_map. eauto.
    - intros [y [Hy Hz]]. apply in_flat_map in Hy as [x [Hx Hy]].
      destruct (proj2 (nodes_one x z) (ex_intro _ y (conj Hy Hz))) as [y' [Hy' Hz']].
      exists y'. split; [|assumption]. apply in_flat_map. exists x. auto.
  Qed.

  Theorem explicit_projection i : wf E i -> NoDup (map fst i) -> lwf E i ->
    project (F i) = project (X i).
  Proof.
    intros W ND LW. unfold project, node_keys.
    rewrite (usort_keys_ext _ _ (nodes_agree i)). apply map_ext. intros z.
    pose proof (values_agree i W ND LW z) as V. unfold pr in V. unfold project1.
    injection V as V1 V2. cbv zeta. now rewrite V2, V1.
  Qed.
End Explicit.

(* non-vacuity: the worked example satisfies the hypotheses *)
Example ex_lwf : lwf ex_env ex_idx /\ NoDup (map fst ex_idx).
Proof.
  split.
  - intros x rows [<-|[<-|[]]] R; vm_compute in R; [|discriminate].
    injection R as <-. intros r1 r2 [<-|[<-|[]]] [<-|[<-|[]]] P; try reflexivity; vm_compute in P; discriminate.
  - repeat constructor; simpl; intuition discriminate.
Qed.
