(* The C19 theorems about Model/Merge.v (_merge / merge of dvc_data/hashfile/tree.py), built on
   the inversion lemmas of Proofs/MergeProofs.v.  All statements are about ARBITRARY finite maps
   (any number of keys, any nesting, any values), no bound anywhere.

   Beside each theorem an [Example] shows its hypotheses are satisfiable by a concrete,
   non-trivial triple of listings. *)
From Coq Require Import NArith.
From stdpp Require Import gmap.
From DvcData Require Import Base.Val Model.Merge Proofs.MergeProofs.
Open Scope N_scope.

Local Arguments rule3 : simpl never.

(* ------------------------------------------------------------------ well-formed listings *)

(* A listing loaded from an object store has keys [tuple(relpath.split("/"))], never the empty
   tuple (["".split("/") = [""]]).  The empty key matters for one thing only: the text of the final
   MergeError is built with posixpath.join( *key), which raises TypeError for it. *)
Definition no_empty_key (d : dict) : Prop := d !! [] = None.

(* ------------------------------------------------------------------ soundness *)

Theorem merge_sound a o t pol m : merge_ a o t pol = Ok m → merge3 a o t = Some m.
Proof.
  intros H. apply merge_inv in H as [_ [[-> ->]|(_ & _ & [[-> ->]|(_ & H1 & H2 & _)])]].
  - apply merge3_left.
  - apply merge3_right.
  - apply merge3_Some. by apply rule3_of_patches.
Qed.

(* the same, with the three-way rule spelled out: at every path the result is the side that
   changed it, or the common value *)
Lemma rule3_Take x y z r :
  rule3 x y z = Take r ↔ (y = z ∧ r = y) ∨ (y ≠ z ∧ y = x ∧ r = z) ∨ (y ≠ z ∧ y ≠ x ∧ z = x ∧ r = y).
Proof. unfold rule3. repeat case_decide; naive_solver. Qed.

Theorem merge_sound_pointwise a o t pol m :
  merge_ a o t pol = Ok m →
  ∀ k, (o !! k = t !! k ∧ m !! k = o !! k)        (* both sides agree (incl. both untouched) *)
     ∨ (o !! k = a !! k ∧ m !! k = t !! k)        (* ours left it alone: theirs *)
     ∨ (t !! k = a !! k ∧ m !! k = o !! k).       (* theirs left it alone: ours *)
Proof.
  intros H%merge_sound k. pose proof (proj1 (merge3_Some a o t m) H k) as Hk.
  apply rule3_Take in Hk. naive_solver.
Qed.

(* consequences in the words of the property: nothing is dropped, resurrected, overridden or
   invented unless the rule says so *)
Theorem merge_no_invention a o t pol m k v :
  merge_ a o t pol = Ok m → m !! k = Some v → o !! k = Some v ∨ t !! k = Some v.
Proof. intros H Hm. destruct (merge_sound_pointwise _ _ _ _ _ H k) as [[? ?]|[[? ?]|[? ?]]]; naive_solver congruence. Qed.

Theorem merge_no_drop a o t pol m k :
  merge_ a o t pol = Ok m → m !! k = None → o !! k = None ∨ t !! k = None.
Proof. intros H Hm. destruct (merge_sound_pointwise _ _ _ _ _ H k) as [[? ?]|[[? ?]|[? ?]]]; naive_solver congruence. Qed.

Theorem merge_keeps_change a o t pol m k :
  merge_ a o t pol = Ok m →
  (o !! k ≠ a !! k → m !! k = o !! k) ∧ (t !! k ≠ a !! k → m !! k = t !! k).
Proof. intros H. destruct (merge_sound_pointwise _ _ _ _ _ H k) as [[? ?]|[[? ?]|[? ?]]]; split; intros ?; congruence. Qed.

Theorem merge_untouched a o t pol m k :
  merge_ a o t pol = Ok m → o !! k = a !! k → t !! k = a !! k → m !! k = a !! k.
Proof. intros H ? ?. destruct (merge_sound_pointwise _ _ _ _ _ H k) as [[? ?]|[[? ?]|[? ?]]]; congruence. Qed.

(* ------------------------------------------------------------------ the only failure is MergeError *)

Lemma apply_diff_no_empty a b d :
  no_empty_key b → no_empty_key d → no_empty_key (apply_diff a b d).
Proof. unfold no_empty_key. intros Hb Hd. rewrite lookup_apply_diff. by case_decide. Qed.

Theorem merge_total_err a o t pol e :
  no_empty_key o → no_empty_key t →
  merge_ a o t pol = Err e → e = MergeError.
Proof.
  intros Ho Ht. unfold merge_.
  destruct (diff_ a o pol) as [od|e1] eqn:Hod.
  2:{ apply diff_err in Hod as [-> _]. by intros [= <-]. }
  apply diff_ok in Hod as [-> _].
  destruct (dd_diff a o) as [|op1 od] eqn:Eod; [done|]. rewrite <- Eod. clear Eod op1 od.
  destruct (diff_ a t pol) as [td|e1] eqn:Htd.
  2:{ apply diff_err in Htd as [-> _]. by intros [= <-]. }
  apply diff_ok in Htd as [-> _].
  destruct (dd_diff a t) as [|op1 td] eqn:Etd; [done|]. rewrite <- Etd. clear Etd op1 td.
  rewrite !dd_patch_app.
  rewrite (dd_patch_diff_ok a o a), (dd_patch_diff_ok a t a) by auto.
  rewrite !apply_diff_self.
  destruct (dd_patch (dd_diff a t) o) as [p1|e1] eqn:H1.
  2:{ apply dd_patch_only_key_error in H1 as ->. simpl. by intros [= <-]. }
  destruct (dd_patch (dd_diff a o) t) as [p2|e2] eqn:H2.
  2:{ apply dd_patch_only_key_error in H2 as ->. simpl. by intros [= <-]. }
  simpl. apply dd_patch_diff_inv in H1 as [-> _]. apply dd_patch_diff_inv in H2 as [-> _].
  destruct (dd_diff _ _); [done|].
  unfold conflict_paths. rewrite bool_decide_true; [by intros [= <-]|].
  rewrite (apply_diff_no_empty a t o), (apply_diff_no_empty a o t); done.
Qed.

(* every outcome is one of the two the property allows *)
Theorem merge_total a o t pol :
  no_empty_key o → no_empty_key t →
  (∃ m, merge_ a o t pol = Ok m ∧ merge3 a o t = Some m) ∨ merge_ a o t pol = Err MergeError.
Proof.
  intros Ho Ht. destruct (merge_ a o t pol) as [m|e] eqn:H.
  - left. exists m. split; [done|]. by eapply merge_sound.
  - right. f_equal. by apply (merge_total_err a o t pol).
Qed.

(* Without the hypothesis the statement is false IN THE MODEL AND IN THE CODE: for raw
   dictionaries with the key [()] a conflict at that key raises TypeError while the message is
   built.  Not reachable through [merge] (listing keys are never empty). *)
Definition ek_a : dict := {[ [] := 1 ]}.
Definition ek_o : dict := {[ [] := 2 ]}.
Definition ek_t : dict := {[ [] := 3 ]}.
Lemma merge_total_err_empty_key_refuted :
  ∃ a o t pol e, merge_ a o t pol = Err e ∧ e ≠ MergeError.
Proof. exists ek_a, ek_o, ek_t, (Some [KAdd; KChange]), TypeError. split; [by vm_compute|done]. Qed.

(* ------------------------------------------------------------------ completeness *)

(* The merge succeeds whenever the policy admits both diffs, no path conflicts and no path was
   removed by both sides ("todo: fails if both diffs delete the same object" in the source). *)
Theorem merge_complete a o t pol m :
  allowed_diff a o pol → allowed_diff a t pol →
  merge3 a o t = Some m → ¬ double_remove a o t →
  merge_ a o t pol = Ok m.
Proof.
  intros Hao Hat Hm Hdr. unfold merge_.
  destruct (diff_spec a o pol) as [[_ ->]|[? _]]; [|done].
  destruct (dd_diff a o) as [|op1 od] eqn:Eod.
  { apply dd_diff_nil in Eod as <-. rewrite merge3_left in Hm. by injection Hm as ->. }
  rewrite <- Eod. clear Eod op1 od.
  destruct (diff_spec a t pol) as [[_ ->]|[? _]]; [|done].
  destruct (dd_diff a t) as [|op1 td] eqn:Etd.
  { apply dd_diff_nil in Etd as <-. rewrite merge3_right in Hm. by injection Hm as ->. }
  rewrite <- Etd. clear Etd op1 td.
  rewrite !dd_patch_app.
  rewrite (dd_patch_diff_ok a o a), (dd_patch_diff_ok a t a) by auto.
  rewrite !apply_diff_self.
  assert (∀ k, rule3 (a !! k) (o !! k) (t !! k) = Take (m !! k)) as Hr by (by apply merge3_Some).
  apply patches_of_rule3 in Hr as [E1 E2].
  rewrite (dd_patch_diff_ok a t o), (dd_patch_diff_ok a o t).
  - rewrite E1, E2. simpl. by rewrite (proj2 (dd_diff_nil m m)).
  - intros k Hk Ho. destruct (t !! k) eqn:Ht; [done|]. destruct Hdr. by exists k.
  - intros k Hk Ht. destruct (o !! k) eqn:Ho; [done|]. destruct Hdr. by exists k.
Qed.

(* ------------------------------------------------------------------ symmetry *)

Theorem merge_sym a o t pol m1 m2 :
  merge_ a o t pol = Ok m1 → merge_ a t o pol = Ok m2 → m1 = m2.
Proof.
  intros H1%merge_sound H2%merge_sound. rewrite merge3_sym in H2. congruence.
Qed.

(* ------------------------------------------------------------------ the default policy *)

(* allowed=None and allowed=[] both mean ["add"] *)
Lemma effective_default : effective None = [KAdd] ∧ effective (Some []) = [KAdd].
Proof. done. Qed.

Lemma allowed_add_only a b pol : effective pol = [KAdd] → allowed_diff a b pol → a ⊆ b.
Proof.
  intros He Hal. apply map_subseteq_spec. intros k x Ha.
  specialize (Hal k). rewrite He, Ha in Hal. unfold kind_at in Hal.
  destruct (b !! k) as [y|].
  - destruct (decide (x = y)) as [->|Hne]; [done|].
    specialize (Hal KChange eq_refl). apply elem_of_list_singleton in Hal. done.
  - specialize (Hal KRemove eq_refl). apply elem_of_list_singleton in Hal. done.
Qed.

(* With the default policy a merge that really combines two non-empty diffs succeeds only when
   both sides merely added entries; the result is then the union. *)
Theorem merge_default a o t pol m :
  effective pol = [KAdd] →
  dd_diff a o ≠ [] → dd_diff a t ≠ [] →
  merge_ a o t pol = Ok m →
  a ⊆ o ∧ a ⊆ t ∧ m = o ∪ t.
Proof.
  intros He Ho Ht H. pose proof (merge_sound_pointwise _ _ _ _ _ H) as Hpw.
  apply merge_inv in H as [Hao [[-> _]|(_ & Hat & _)]].
  { destruct Ho. by apply dd_diff_nil. }
  pose proof (allowed_add_only _ _ _ He Hao) as Sao.
  pose proof (allowed_add_only _ _ _ He Hat) as Sat.
  split; [done|]. split; [done|].
  apply map_eq. intros k. rewrite lookup_union.
  pose proof (proj1 (map_subseteq_spec a o) Sao k) as Sok.
  pose proof (proj1 (map_subseteq_spec a t) Sat k) as Stk.
  destruct (a !! k) as [x|] eqn:Ha.
  - specialize (Sok x eq_refl). specialize (Stk x eq_refl).
    destruct (Hpw k) as [[? ->]|[[? ->]|[? ->]]]; rewrite ?Sok, ?Stk; done.
  - destruct (Hpw k) as [[E ->]|[[E ->]|[E ->]]]; rewrite ?Ha in E; rewrite ?E;
      by destruct (o !! k), (t !! k).
Qed.

(* the converse direction: one side changed or removed something, the other side did anything
   at all -> the default policy refuses *)
Theorem merge_default_refuses a o t pol :
  effective pol = [KAdd] →
  dd_diff a o ≠ [] → dd_diff a t ≠ [] →
  ¬ (a ⊆ o ∧ a ⊆ t) →
  no_empty_key o → no_empty_key t →
  merge_ a o t pol = Err MergeError.
Proof.
  intros He Ho Ht Hn Eo Et. destruct (merge_total a o t pol Eo Et) as [(m & H & _)|H]; [|done].
  destruct Hn. by destruct (merge_default _ _ _ _ _ He Ho Ht H) as (? & ? & _).
Qed.

(* ------------------------------------------------------------------ merge: load, _merge, digest *)

Section obj.
  Context {oid : Type} (load : oid → option dict) (digest : dict → oid).

  Definition loaded_anc (ai : option oid) (a : dict) : Prop :=
    match ai with Some i => load i = Some a | None => a = ∅ end.

  Theorem merge_obj_digest ai oi ti pol id m :
    merge_obj load digest ai oi ti pol = Ok (id, m) →
    ∃ a o t, loaded_anc ai a ∧ load oi = Some o ∧ load ti = Some t ∧
             merge3 a o t = Some m ∧ id = digest m.
  Proof.
    unfold merge_obj, load_.
    destruct ai as [i|].
    - destruct (load i) as [a|] eqn:Ha; [|done].
      destruct (load oi) as [o|] eqn:Ho; [|done].
      destruct (load ti) as [t|] eqn:Ht; [|done].
      destruct (merge_ a o t pol) as [m'|e] eqn:Hm; [|done].
      intros [= <- <-]. exists a, o, t. repeat split; try done. by eapply merge_sound.
    - destruct (load oi) as [o|] eqn:Ho; [|done].
      destruct (load ti) as [t|] eqn:Ht; [|done].
      destruct (merge_ ∅ o t pol) as [m'|e] eqn:Hm; [|done].
      intros [= <- <-]. exists ∅, o, t. repeat split; try done. by eapply merge_sound.
  Qed.

  Theorem merge_obj_errors ai oi ti pol e :
    (∀ i d, load i = Some d → no_empty_key d) →
    merge_obj load digest ai oi ti pol = Err e → e = MergeError ∨ e = LoadError.
  Proof.
    intros Hwf. unfold merge_obj, load_.
    destruct ai as [i|].
    - destruct (load i) as [a|] eqn:Ha; [|intros [= <-]; by right].
      destruct (load oi) as [o|] eqn:Ho; [|intros [= <-]; by right].
      destruct (load ti) as [t|] eqn:Ht; [|intros [= <-]; by right].
      destruct (merge_ a o t pol) as [m'|e'] eqn:Hm; [done|].
      intros [= <-]. left. eapply merge_total_err; [| |exact Hm]; eauto.
    - destruct (load oi) as [o|] eqn:Ho; [|intros [= <-]; by right].
      destruct (load ti) as [t|] eqn:Ht; [|intros [= <-]; by right].
      destruct (merge_ ∅ o t pol) as [m'|e'] eqn:Hm; [done|].
      intros [= <-]. left. eapply merge_total_err; [| |exact Hm]; eauto.
  Qed.
End obj.

(* ------------------------------------------------------------------ non-vacuity *)

(* keys ("a",), ("d","b"), ("d","c"), ("e",) ; values are ==-class numbers *)
Definition kA : list (list N) := [[97]].
Definition kDB : list (list N) := [[100]; [98]].
Definition kDC : list (list N) := [[100]; [99]].
Definition kE : list (list N) := [[101]].
Definition ex_ks := [kA; kDB; kDC; kE].

(* ancestor {a:1, d/b:2, d/c:3}; ours changes a, removes d/c; theirs changes d/b, adds e *)
Definition ex_a : dict := mk_dict ex_ks [2; 3; 4; 0].
Definition ex_o : dict := mk_dict ex_ks [6; 3; 0; 0].
Definition ex_t : dict := mk_dict ex_ks [2; 8; 4; 9].
Definition ex_m : dict := mk_dict ex_ks [6; 8; 0; 9].
Definition ex_all : policy := Some [KAdd; KRemove; KChange].

Example ex_sound :
  enc_res ex_ks (merge_ ex_a ex_o ex_t ex_all) = enc_res ex_ks (Ok ex_m) ∧
  enc_res ex_ks (merge_ ex_a ex_t ex_o ex_all) = enc_res ex_ks (Ok ex_m) ∧
  enc_opt_dict ex_ks (merge3 ex_a ex_o ex_t) = enc_opt_dict ex_ks (Some ex_m).
Proof. by vm_compute. Qed.

Example ex_is_ok : ∃ m, merge_ ex_a ex_o ex_t ex_all = Ok m ∧ size m = 3%nat.
Proof.
  destruct (merge_ ex_a ex_o ex_t ex_all) as [m|e] eqn:H.
  - exists m. split; [done|]. apply merge_sound in H.
    assert (merge3 ex_a ex_o ex_t = Some ex_m) as H'.
    { apply merge3_Some. intros k. unfold ex_a, ex_o, ex_t, ex_m, ex_ks.
      destruct (decide (k = kA)) as [->|?]; [by vm_compute|].
      destruct (decide (k = kDB)) as [->|?]; [by vm_compute|].
      destruct (decide (k = kDC)) as [->|?]; [by vm_compute|].
      destruct (decide (k = kE)) as [->|?]; [by vm_compute|].
      cbn [mk_dict cell N.eqb]. simpl.
      rewrite !lookup_insert_ne, !lookup_empty by done. by vm_compute. }
    rewrite H in H'. injection H' as ->. by vm_compute.
  - exfalso. revert H. by vm_compute.
Qed.

Lemma lookup_mk_dict_notin ks vs (k : list (list N)) : k ∉ ks → mk_dict ks vs !! k = None.
Proof.
  revert vs. induction ks as [|k' ks IH]; intros vs Hk; [done|].
  apply not_elem_of_cons in Hk as [Hne Hk]. destruct vs as [|v vs]; [done|]. simpl.
  destruct (cell v); [rewrite lookup_insert_ne by done|]; by apply IH.
Qed.

Lemma allowed_diff_all a b : allowed_diff a b ex_all.
Proof. intros k kd _. destruct kd; set_solver. Qed.

(* the hypotheses of merge_complete hold of the same triple *)
Example ex_complete_hyps :
  allowed_diff ex_a ex_o ex_all ∧ allowed_diff ex_a ex_t ex_all ∧ ¬ double_remove ex_a ex_o ex_t.
Proof.
  split; [apply allowed_diff_all|]. split; [apply allowed_diff_all|].
  intros (k & Ha & Ho & Ht).
  destruct (decide (k ∈ ex_ks)) as [Hin|Hnin].
  - unfold ex_ks in Hin. rewrite !elem_of_cons, elem_of_nil in Hin.
    destruct Hin as [->|[->|[->|[->|[]]]]]; vm_compute in Ha, Ho, Ht;
      try discriminate; by destruct Ha.
  - unfold ex_a in Ha. rewrite lookup_mk_dict_notin in Ha by done. by destruct Ha.
Qed.

(* a conflict (both change a differently), a policy refusal, a double removal: MergeError *)
Example ex_errors :
  enc_res ex_ks (merge_ ex_a ex_o (mk_dict ex_ks [7; 3; 4; 0]) ex_all) = VL [VN 0; VN 6] ∧
  enc_res ex_ks (merge_ ex_a ex_o ex_t None) = VL [VN 0; VN 6] ∧
  enc_res ex_ks (merge_ ex_a ex_o (mk_dict ex_ks [2; 8; 0; 0]) ex_all) = VL [VN 0; VN 6] ∧
  no_empty_key ex_o ∧ no_empty_key ex_t.
Proof. by vm_compute. Qed.

(* the default policy: both sides add *)
Definition ex_o2 : dict := mk_dict ex_ks [2; 3; 4; 9].
Definition ex_t2 : dict := mk_dict [kA; kDB; kDC; [[102]]] [2; 3; 4; 5].
Example ex_default :
  effective None = [KAdd] ∧ dd_diff ex_a ex_o2 ≠ [] ∧ dd_diff ex_a ex_t2 ≠ [] ∧
  enc_res ([[102]] :: ex_ks) (merge_ ex_a ex_o2 ex_t2 None) = VL [VN 1; VL [VN 5; VL [VN 5; VN 2; VN 3; VN 4; VN 9]]].
Proof. by vm_compute. Qed.

(* merge_obj: a three-object store, digest = size of the listing (any function will do) *)
Definition ex_load (i : N) : option dict :=
  if (i =? 1) then Some ex_a else if (i =? 2) then Some ex_o else if (i =? 3) then Some ex_t else None.
Example ex_obj :
  (match merge_obj ex_load (λ d, N.of_nat (size d)) (Some 1) 2 3 ex_all with
   | Ok (id, m) => VL [VN id; enc_dict ex_ks m] | Err e => VN (err_code e) end)
  = VL [VN 3; enc_dict ex_ks ex_m] ∧
  (match merge_obj ex_load (λ d, N.of_nat (size d)) (Some 1) 2 4 ex_all with
   | Ok _ => 0 | Err e => err_code e end) = 2.
Proof. by vm_compute. Qed.
