(* merge() of dvc_data/hashfile/tree.py at the level of directory OBJECTS: the three listings are
   loaded from an object store by identifier, merged by [merge_] and the result is re-digested
   with Tree.digest - here the executable [Listing.digest] of Model/Listing.v (md5 of the
   canonical JSON, ".dir" suffix), so that the correspondence compares the identifier the real
   merge() returns with the one the model computes, byte for byte.

   A value of the merge model is the number of a ==-class of (Meta, HashInfo) pairs; the
   identifier of a listing covers only the hash VALUE of each entry (Tree.digest serialises
   without metadata) under each entry's own hash NAME (md5, sha256, etag, ...: a listing named by
   an md5 identifier may hold entries hashed otherwise), given by the table [hexof : class ->
   (hash name, hash value)]. *)
From Coq Require Import NArith.
From stdpp Require Import gmap.
From DvcData Require Import Base.Val Model.Merge Proofs.MergeProofs Proofs.MergeTheorems.
From DvcData Require Model.Listing.
Open Scope N_scope.

Definition tree_of (hexof : N → list N * list N) (m : gmap (list (list N)) N) : Listing.tree :=
  (λ kv, {| Listing.e_key := kv.1; Listing.e_meta := None;
            Listing.e_hash := Some (hexof kv.2) |}) <$> map_to_list m.

Definition listing_digest (hexof : N → list N * list N) (m : gmap (list (list N)) N) : list N :=
  Listing.digest (tree_of hexof m).

(* merge(odb, ancestor_info, our_info, their_info, allowed) *)
Definition merge_tree (hexof : N → list N * list N) (load : list N → option (gmap (list (list N)) N))
    (ai : option (list N)) (oi ti : list N) (allowed : policy) :=
  merge_obj load (listing_digest hexof) ai oi ti allowed.

Theorem merge_tree_digest hexof load ai oi ti pol id m :
  merge_tree hexof load ai oi ti pol = Ok (id, m) →
  ∃ a o t, loaded_anc load ai a ∧ load oi = Some o ∧ load ti = Some t ∧
           merge3 a o t = Some m ∧ id = Listing.digest (tree_of hexof m).
Proof. intros H. exact (merge_obj_digest load (listing_digest hexof) ai oi ti pol id m H). Qed.

(* ------------------------------------------------------------------ correspondence stream "tree" *)

Fixpoint assoc {A} (k : list N) (l : list (list N * A)) : option A :=
  match l with
  | [] => None
  | (k', x) :: r => if list_N_eqb k k' then Some x else assoc k r
  end.

Fixpoint assocN {A} (k : N) (l : list (N * A)) : option A :=
  match l with
  | [] => None
  | (k', x) :: r => if (k =? k') then Some x else assocN k r
  end.

(* (key universe, class -> hash value, store: identifier -> cells, ancestor_info, our_info,
    their_info, allowed) *)
Definition tree_in : Type :=
  list (list (list N)) * list (N * (list N * list N)) * list (list N * list N) * option (list N) * list N * list N * policy.

Definition run_tree (i : tree_in) : val :=
  let '(ks, hexs, objs, ai, oi, ti, pol) := i in
  let hexof := λ v, default ([], []) (assocN v hexs) in
  let load := λ id, mk_dict ks <$> assoc id objs in
  match merge_tree hexof load ai oi ti pol with
  | Ok (id, m) => VL [VN 1; VB id; enc_dict ks m]
  | Err e => VL [VN 0; VN (err_code e)]
  end.

(* non-vacuity: ancestor {a:1, d/b:2}; ours adds d/c, theirs adds e; default policy *)
Definition exd_ks : list (list (list N)) := [[[97]]; [[100]; [98]]; [[100]; [99]]; [[101]]].
Definition exd_hex (c : N) : list N := repeat c 32.
Definition exd_in : tree_in :=
  (exd_ks, [(1, (Listing.s_md5, exd_hex 49)); (2, (Listing.s_md5, exd_hex 50)); (3, (Listing.s_md5, exd_hex 51));
            (4, (Listing.s_md5, exd_hex 52))],
   [([65], [2; 3; 0; 0]); ([79], [2; 3; 4; 0]); ([84], [2; 3; 0; 5])],
   Some [65], [79], [84], None).
(* python: hashlib.md5(json.dumps([{"md5":"1"*32,"relpath":"a"},{"md5":"2"*32,"relpath":"d/b"},
   {"md5":"3"*32,"relpath":"d/c"},{"md5":"4"*32,"relpath":"e"}], sort_keys=True).encode()).hexdigest() *)
Example ex_tree :
  match run_tree exd_in with
  | VL [VN 1; VB id; d] => d = VL [VN 4; VL [VN 2; VN 3; VN 4; VN 5]] ∧ length id = 36%nat
  | _ => False
  end.
Proof. by vm_compute. Qed.
