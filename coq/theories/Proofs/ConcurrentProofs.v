(* Proofs for C16 (Model/Concurrent.v): the interleaving invariant and its consequences.

   The invariant [Inv loc wls w ps] relates the world w to the REMAINING programs ps:
     - every file under a final name is accounted for: its id has been placed before (ghost set
       w_ever) and is a requested id;
     - an id that has ever been placed is now COMPLETE (holds exactly the requested bytes) or some
       writer still OWES it: a [Rename _ o] is left in its remaining program
       (who destroys, re-creates - the reflink probe and check()'s remove are destroyers);
     - every temp holds exactly a requested (id, bytes) pair (temps are writer-private by
       construction of the key);
     - local store: an unprotected file is owed a Chmod or a Rename; base store: nothing is protected;
     - every remaining program is still legal; every requested id of every writer has been
       placed, or its writer still has the [ExistsCheck o true] / [Rename _ o] that covers it;
     - a state row only names requested ids.
   It is preserved by EACH step of ANY writer ([step_inv]); at the end (nothing remaining) it
   collapses to "the store is exactly the expected function of the workloads" ([inv_final]). *)
From Coq Require Import NArith List Bool Arith Lia.
From DvcData Require Import Base.Val Model.Concurrent.
Import ListNotations.
Open Scope N_scope.

(* ------------------------------------------------------------------------------------------ *)
(* association lists                                                                            *)
Section AssocLemmas.
  Context {K V : Type} (eqb : K -> K -> bool).
  Hypothesis eqb_spec : forall a b, eqb a b = true <-> a = b.

  Lemma eqb_refl_g k : eqb k k = true.
  Proof. apply eqb_spec; reflexivity. Qed.
  Lemma eqb_neq_g a b : a <> b -> eqb a b = false.
  Proof. intros Hn. destruct (eqb a b) eqn:E; auto. apply eqb_spec in E. contradiction. Qed.

  Lemma get_del_eq k (l : list (K * V)) : get eqb k (del eqb k l) = None.
  Proof.
    induction l as [|[k' v] r IH]; simpl; auto.
    destruct (eqb k k') eqn:E; simpl; auto. rewrite E. auto.
  Qed.
  Lemma get_del_neq k k' (l : list (K * V)) : k' <> k -> get eqb k' (del eqb k l) = get eqb k' l.
  Proof.
    intros Hn. induction l as [|[k2 v] r IH]; simpl; auto.
    destruct (eqb k k2) eqn:E.
    - apply eqb_spec in E. subst k2. rewrite (eqb_neq_g k' k); auto.
    - simpl. destruct (eqb k' k2); auto.
  Qed.
  Lemma get_put_eq k v (l : list (K * V)) : get eqb k (put eqb k v l) = Some v.
  Proof. unfold put; simpl. rewrite eqb_refl_g. auto. Qed.
  Lemma get_put_neq k k' v (l : list (K * V)) : k' <> k -> get eqb k' (put eqb k v l) = get eqb k' l.
  Proof. intros Hn. unfold put; simpl. rewrite eqb_neq_g; auto. apply get_del_neq; auto. Qed.
  Lemma get_In k v (l : list (K * V)) : get eqb k l = Some v -> In (k, v) l.
  Proof.
    induction l as [|[k2 v2] r IH]; simpl; intros Hg; try discriminate.
    destruct (eqb k k2) eqn:E.
    - apply eqb_spec in E. inversion Hg; subst. left; auto.
    - right; auto.
  Qed.
  Lemma In_get k v (l : list (K * V)) : In (k, v) l -> exists v', get eqb k l = Some v'.
  Proof.
    induction l as [|[k2 v2] r IH]; simpl; intros Hin; [destruct Hin|].
    destruct (eqb k k2) eqn:E; eauto.
    destruct Hin as [Hin|Hin]; auto. inversion Hin; subst. rewrite eqb_refl_g in E. discriminate.
  Qed.
  Lemma In_del x k (l : list (K * V)) : In x (del eqb k l) -> In x l.
  Proof.
    induction l as [|[k2 v2] r IH]; simpl; auto.
    destruct (eqb k k2); simpl; intros Hin; auto. destruct Hin; auto.
  Qed.
  Lemma get_del_some k k' v (l : list (K * V)) :
    get eqb k' (del eqb k l) = Some v -> k' <> k /\ get eqb k' l = Some v.
  Proof.
    intros Hg. assert (Hn : k' <> k).
    { intros ->. rewrite get_del_eq in Hg. discriminate. }
    split; auto. rewrite get_del_neq in Hg; auto.
  Qed.
  Lemma get_put_some k k' v v' (l : list (K * V)) :
    get eqb k' (put eqb k v l) = Some v' -> (k' = k /\ v' = v) \/ (k' <> k /\ get eqb k' l = Some v').
  Proof.
    intros Hg. destruct (eqb k' k) eqn:E.
    - apply eqb_spec in E. subst k'. rewrite get_put_eq in Hg. inversion Hg; auto.
    - assert (Hn : k' <> k) by (intros ->; rewrite eqb_refl_g in E; discriminate).
      rewrite get_put_neq in Hg; auto.
  Qed.
End AssocLemmas.

Lemma tkey_eqb_spec (a b : tkey) : tkey_eqb a b = true <-> a = b.
Proof.
  destruct a as [a1 a2], b as [b1 b2]. unfold tkey_eqb; simpl.
  rewrite andb_true_iff, Nat.eqb_eq, N.eqb_eq. split.
  - intros [-> ->]; auto.
  - intros E; inversion E; auto.
Qed.

Lemma oid_eq_dec (a b : oid) : {a = b} + {a <> b}.
Proof. apply (list_eq_dec N.eq_dec). Qed.

Section OInst.
  Context {V : Type}.
  Lemma oget_odel_eq o (l : list (oid * V)) : oget o (odel o l) = None.
  Proof. intros; unfold oget, odel, oput; eapply get_del_eq; eauto using list_N_eqb_spec. Qed.
  Lemma oget_odel_neq o o' (l : list (oid * V)) : o' <> o -> oget o' (odel o l) = oget o' l.
  Proof. intros; unfold oget, odel, oput; eapply get_del_neq; eauto using list_N_eqb_spec. Qed.
  Lemma oget_oput_eq o v (l : list (oid * V)) : oget o (oput o v l) = Some v.
  Proof. intros; unfold oget, odel, oput; eapply get_put_eq; eauto using list_N_eqb_spec. Qed.
  Lemma oget_oput_neq o o' v (l : list (oid * V)) : o' <> o -> oget o' (oput o v l) = oget o' l.
  Proof. intros; unfold oget, odel, oput; eapply get_put_neq; eauto using list_N_eqb_spec. Qed.
  Lemma oget_In o v (l : list (oid * V)) : oget o l = Some v -> In (o, v) l.
  Proof. intros; unfold oget, odel, oput; eapply get_In; eauto using list_N_eqb_spec. Qed.
  Lemma In_oget o v (l : list (oid * V)) : In (o, v) l -> exists v', oget o l = Some v'.
  Proof. intros; unfold oget, odel, oput; eapply In_get; eauto using list_N_eqb_spec. Qed.
  Lemma In_odel x o (l : list (oid * V)) : In x (odel o l) -> In x l.
  Proof. intros; unfold oget, odel, oput; eapply In_del; eauto using list_N_eqb_spec. Qed.
  Lemma oget_odel_some o o' v (l : list (oid * V)) :
    oget o' (odel o l) = Some v -> o' <> o /\ oget o' l = Some v.
  Proof. intros; unfold oget, odel, oput; eapply get_del_some; eauto using list_N_eqb_spec. Qed.
  Lemma oget_oput_some o o' v v' (l : list (oid * V)) :
    oget o' (oput o v l) = Some v' -> (o' = o /\ v' = v) \/ (o' <> o /\ oget o' l = Some v').
  Proof. intros; unfold oget, odel, oput; eapply get_put_some; eauto using list_N_eqb_spec. Qed.

  Lemma tget_tdel_eq k (l : list (tkey * V)) : tget k (tdel k l) = None.
  Proof. intros; unfold tget, tdel, tput; eapply get_del_eq; eauto using tkey_eqb_spec. Qed.
  Lemma tget_tdel_neq k k' (l : list (tkey * V)) : k' <> k -> tget k' (tdel k l) = tget k' l.
  Proof. intros; unfold tget, tdel, tput; eapply get_del_neq; eauto using tkey_eqb_spec. Qed.
  Lemma tget_tput_eq k v (l : list (tkey * V)) : tget k (tput k v l) = Some v.
  Proof. intros; unfold tget, tdel, tput; eapply get_put_eq; eauto using tkey_eqb_spec. Qed.
  Lemma tget_tput_neq k k' v (l : list (tkey * V)) : k' <> k -> tget k' (tput k v l) = tget k' l.
  Proof. intros; unfold tget, tdel, tput; eapply get_put_neq; eauto using tkey_eqb_spec. Qed.
  Lemma tget_In k v (l : list (tkey * V)) : tget k l = Some v -> In (k, v) l.
  Proof. intros; unfold tget, tdel, tput; eapply get_In; eauto using tkey_eqb_spec. Qed.
  Lemma tget_tdel_some k k' v (l : list (tkey * V)) :
    tget k' (tdel k l) = Some v -> k' <> k /\ tget k' l = Some v.
  Proof. intros; unfold tget, tdel, tput; eapply get_del_some; eauto using tkey_eqb_spec. Qed.
  Lemma tget_tput_some k k' v v' (l : list (tkey * V)) :
    tget k' (tput k v l) = Some v' -> (k' = k /\ v' = v) \/ (k' <> k /\ tget k' l = Some v').
  Proof. intros; unfold tget, tdel, tput; eapply get_put_some; eauto using tkey_eqb_spec. Qed.
End OInst.

Lemma memo_spec o l : memo o l = true <-> In o l.
Proof.
  unfold memo. rewrite existsb_exists. split.
  - intros (x & Hin & E). apply list_N_eqb_spec in E. subst; auto.
  - intros Hin. exists o. split; auto. apply list_N_eqb_spec; auto.
Qed.

Lemma memo_cons o' o l : memo o' (o :: l) = true <-> o' = o \/ memo o' l = true.
Proof. rewrite !memo_spec. simpl. split; intros [E|E]; auto. Qed.

Lemma rename_spec o p : existsb (is_rename_of o) p = true <-> exists t, In (Rename t o) p.
Proof.
  rewrite existsb_exists. split.
  - intros (x & Hin & E). destruct x; try discriminate. simpl in E.
    apply list_N_eqb_spec in E. subst. eauto.
  - intros (t & Hin). exists (Rename t o). split; auto. simpl. apply list_N_eqb_spec; auto.
Qed.
Lemma chmod_spec o p : existsb (is_chmod_of o) p = true <-> In (Chmod o) p.
Proof.
  rewrite existsb_exists. split.
  - intros (x & Hin & E). destruct x; try discriminate. simpl in E.
    apply list_N_eqb_spec in E. subst. eauto.
  - intros Hin. exists (Chmod o). split; auto. simpl. apply list_N_eqb_spec; auto.
Qed.
Lemma skip_spec o p : existsb (is_skip_of o) p = true <-> In (ExistsCheck o true) p.
Proof.
  rewrite existsb_exists. split.
  - intros (x & Hin & E). destruct x as [o' [|]| | | | | | | | |]; try discriminate. simpl in E.
    apply list_N_eqb_spec in E. subst. eauto.
  - intros Hin. exists (ExistsCheck o true). split; auto. simpl. apply list_N_eqb_spec; auto.
Qed.

(* ------------------------------------------------------------------------------------------ *)
(* upd, all_items                                                                               *)
Lemma upd_length {A} i (x : A) l : length (upd i x l) = length l.
Proof. revert i. induction l as [|a r IH]; intros [|i]; simpl; auto. Qed.
Lemma nth_error_upd_eq {A} i (x y : A) l : nth_error l i = Some y -> nth_error (upd i x l) i = Some x.
Proof. revert i. induction l as [|a r IH]; intros [|i]; simpl; try discriminate; auto. Qed.
Lemma nth_error_upd_neq {A} i j (x : A) l : i <> j -> nth_error (upd i x l) j = nth_error l j.
Proof.
  revert i j. induction l as [|a r IH]; intros [|i] [|j] Hn; simpl; auto.
  - contradiction.
Qed.

Lemma In_all_items x i (wls : list items) : In x (nth i wls []) -> In x (all_items wls).
Proof.
  intros Hin. unfold all_items. apply in_concat. exists (nth i wls []). split; auto.
  destruct (lt_dec i (length wls)) as [Hl|Hl].
  - apply nth_In; auto.
  - rewrite nth_overflow in Hin by lia. destruct Hin.
Qed.
Lemma all_items_nth x (wls : list items) :
  In x (all_items wls) -> exists i, (i < length wls)%nat /\ In x (nth i wls []).
Proof.
  unfold all_items. intros Hin. apply in_concat in Hin. destruct Hin as (l & Hl & Hx).
  destruct (In_nth _ _ [] Hl) as (n & Hn & E). exists n. subst l. auto.
Qed.

(* ------------------------------------------------------------------------------------------ *)
(* the invariant                                                                                *)
Definition consistent (wls : list items) : Prop :=
  forall o b b', In (o, b) (all_items wls) -> In (o, b') (all_items wls) -> b = b'.
Definition complete (wls : list items) (w : world) (o : oid) : Prop :=
  exists f b, oget o (w_objs w) = Some f /\ In (o, b) (all_items wls) /\ f_bytes f = b.
Definition owesR (ps : list program) (o : oid) : Prop :=
  exists i p t, nth_error ps i = Some p /\ In (Rename t o) p.
Definition owesC (ps : list program) (o : oid) : Prop :=
  exists i p, nth_error ps i = Some p /\ In (Chmod o) p.

Record Inv (loc : bool) (wls : list items) (w : world) (ps : list program) : Prop := {
  inv_obj : forall o f, oget o (w_objs w) = Some f ->
      memo o (w_ever w) = true /\ exists b, In (o, b) (all_items wls);
  inv_ever : forall o, memo o (w_ever w) = true -> complete wls w o \/ owesR ps o;
  inv_tmp : forall k o b, tget k (w_tmps w) = Some (o, b) -> In (o, b) (all_items wls);
  inv_prot : loc = true -> forall o f, oget o (w_objs w) = Some f -> f_prot f = false ->
      owesC ps o \/ owesR ps o;
  inv_unprot : loc = false -> forall o f, oget o (w_objs w) = Some f -> f_prot f = false;
  inv_legal : forall i p, nth_error ps i = Some p -> legal_from loc (nth i wls []) p = true;
  inv_cover : forall i p o b, nth_error ps i = Some p -> In (o, b) (nth i wls []) ->
      memo o (w_ever w) = true \/ In (ExistsCheck o true) p \/ exists t, In (Rename t o) p;
  inv_rows : forall o n, In (o, n) (w_rows w) -> exists b, In (o, b) (all_items wls);
  inv_len : length ps = length wls }.

Lemma owesR_transfer ps i s rest o :
  owesR ps o -> nth_error ps i = Some (s :: rest) ->
  (exists t, s = Rename t o) \/ owesR (upd i rest ps) o.
Proof.
  intros (j & p & t & Hj & Hin) Hi. destruct (Nat.eq_dec j i) as [->|Hne].
  - rewrite Hi in Hj. inversion Hj; subst p. destruct Hin as [->|Hin]; [left; eauto|].
    right. exists i, rest, t. split; auto. eapply nth_error_upd_eq; eauto.
  - right. exists j, p, t. split; auto. rewrite nth_error_upd_neq; auto.
Qed.
Lemma owesC_transfer ps i s rest o :
  owesC ps o -> nth_error ps i = Some (s :: rest) ->
  s = Chmod o \/ owesC (upd i rest ps) o.
Proof.
  intros (j & p & Hj & Hin) Hi. destruct (Nat.eq_dec j i) as [->|Hne].
  - rewrite Hi in Hj. inversion Hj; subst p. destruct Hin as [->|Hin]; [left; eauto|].
    right. exists i, rest. split; auto. eapply nth_error_upd_eq; eauto.
  - right. exists j, p. split; auto. rewrite nth_error_upd_neq; auto.
Qed.
Lemma owesR_new ps i s rest o :
  nth_error ps i = Some (s :: rest) -> existsb (is_rename_of o) rest = true -> owesR (upd i rest ps) o.
Proof.
  intros Hi Hr. apply rename_spec in Hr. destruct Hr as [t Hin].
  exists i, rest, t. split; auto. eapply nth_error_upd_eq; eauto.
Qed.
Lemma owesC_new ps i s rest o :
  nth_error ps i = Some (s :: rest) -> existsb (is_chmod_of o) rest = true -> owesC (upd i rest ps) o.
Proof.
  intros Hi Hr. apply chmod_spec in Hr.
  exists i, rest. split; auto. eapply nth_error_upd_eq; eauto.
Qed.

Lemma legal_step loc (wls : list items) ps i s rest :
  (forall j p, nth_error ps j = Some p -> legal_from loc (nth j wls []) p = true) ->
  nth_error ps i = Some (s :: rest) ->
  step_ok loc (nth i wls []) s rest = true /\
  forall j p, nth_error (upd i rest ps) j = Some p -> legal_from loc (nth j wls []) p = true.
Proof.
  intros HL Hi. pose proof (HL _ _ Hi) as Hleg. cbn [legal_from] in Hleg.
  apply andb_true_iff in Hleg. destruct Hleg as [Hok Hlr]. split; auto.
  intros j p Hj. destruct (Nat.eq_dec j i) as [->|Hne].
  - rewrite (nth_error_upd_eq _ _ _ _ Hi) in Hj. inversion Hj; subst; auto.
  - rewrite nth_error_upd_neq in Hj by auto. eauto.
Qed.

Lemma cover_step (wls : list items) ps i s rest ever ever' :
  (forall j p o b, nth_error ps j = Some p -> In (o, b) (nth j wls []) ->
      memo o ever = true \/ In (ExistsCheck o true) p \/ exists t, In (Rename t o) p) ->
  nth_error ps i = Some (s :: rest) ->
  (forall o, memo o ever = true -> memo o ever' = true) ->
  (forall o, s = ExistsCheck o true -> memo o ever' = true) ->
  (forall t o, s = Rename t o -> memo o ever' = true) ->
  forall j p o b, nth_error (upd i rest ps) j = Some p -> In (o, b) (nth j wls []) ->
      memo o ever' = true \/ In (ExistsCheck o true) p \/ exists t, In (Rename t o) p.
Proof.
  intros HC Hi M1 M2 M3 j p o b Hj Hin. destruct (Nat.eq_dec j i) as [->|Hne].
  - rewrite (nth_error_upd_eq _ _ _ _ Hi) in Hj. inversion Hj; subst p.
    destruct (HC _ _ _ _ Hi Hin) as [X|[X|[t X]]].
    + left; auto.
    + destruct X as [X|X]; [left; eauto|right; left; auto].
    + destruct X as [X|X]; [left; eauto|right; right; eauto].
  - rewrite nth_error_upd_neq in Hj by auto.
    destruct (HC _ _ _ _ Hj Hin) as [X|X]; auto.
Qed.

(* a step that touches neither the final names nor the ghost set *)
Lemma frame_inv loc wls w ps i s rest w' :
  Inv loc wls w ps -> nth_error ps i = Some (s :: rest) ->
  (forall t o, s <> Rename t o) -> (forall o, s <> Chmod o) ->
  (forall o, s = ExistsCheck o true -> memo o (w_ever w) = true) ->
  w_objs w' = w_objs w -> w_ever w' = w_ever w ->
  (forall k o b, tget k (w_tmps w') = Some (o, b) -> In (o, b) (all_items wls)) ->
  (forall o n, In (o, n) (w_rows w') -> exists b, In (o, b) (all_items wls)) ->
  Inv loc wls w' (upd i rest ps).
Proof.
  intros HI Hi nR nC hE eO eE hT hRows.
  destruct HI as [Iobj Iever Itmp Iprot Iunprot Ilegal Icover Irows Ilen].
  split.
  - rewrite eO, eE. exact Iobj.
  - rewrite eE. intros o Hm. destruct (Iever _ Hm) as [X|X].
    + left. destruct X as (f & b & H1 & H2 & H3). exists f, b. rewrite eO. auto.
    + right. destruct (owesR_transfer _ _ _ _ _ X Hi) as [[t E]|]; auto. exfalso; eapply nR; eauto.
  - exact hT.
  - rewrite eO. intros Hl o f Ho Hp. destruct (Iprot Hl _ _ Ho Hp) as [X|X].
    + left. destruct (owesC_transfer _ _ _ _ _ X Hi) as [E|]; auto. exfalso; eapply nC; eauto.
    + right. destruct (owesR_transfer _ _ _ _ _ X Hi) as [[t E]|]; auto. exfalso; eapply nR; eauto.
  - rewrite eO. exact Iunprot.
  - eapply legal_step; eauto.
  - rewrite eE. eapply cover_step; eauto. intros t o E. exfalso; eapply nR; eauto.
  - exact hRows.
  - rewrite upd_length; auto.
Qed.

(* a destroyer: the final name o disappears, the rest of the program re-creates it *)
Lemma del_inv loc wls w ps i s rest o :
  Inv loc wls w ps -> nth_error ps i = Some (s :: rest) ->
  existsb (is_rename_of o) rest = true ->
  (forall t o', s <> Rename t o') -> (forall o', s <> Chmod o') -> (forall o', s <> ExistsCheck o' true) ->
  Inv loc wls (mkworld (odel o (w_objs w)) (w_tmps w) (w_rows w) (w_ever w) (w_next w) (w_dirs w))
      (upd i rest ps).
Proof.
  intros HI Hi Hr nR nC nE. pose proof (owesR_new _ _ _ _ _ Hi Hr) as HoR.
  destruct HI as [Iobj Iever Itmp Iprot Iunprot Ilegal Icover Irows Ilen].
  split; cbn [w_objs w_tmps w_rows w_ever].
  - intros o' f Ho. apply oget_odel_some in Ho. destruct Ho as [_ Ho]. eauto.
  - intros o' Hm. destruct (oid_eq_dec o' o) as [->|Hne]; [right; exact HoR|].
    destruct (Iever _ Hm) as [X|X].
    + left. destruct X as (f & b & H1 & H2 & H3). exists f, b. cbn [w_objs].
      rewrite oget_odel_neq; auto.
    + right. destruct (owesR_transfer _ _ _ _ _ X Hi) as [[t E]|]; auto. exfalso; eapply nR; eauto.
  - exact Itmp.
  - intros Hl o' f Ho Hp. apply oget_odel_some in Ho. destruct Ho as [_ Ho].
    destruct (Iprot Hl _ _ Ho Hp) as [X|X].
    + left. destruct (owesC_transfer _ _ _ _ _ X Hi) as [E|]; auto. exfalso; eapply nC; eauto.
    + right. destruct (owesR_transfer _ _ _ _ _ X Hi) as [[t E]|]; auto. exfalso; eapply nR; eauto.
  - intros Hl o' f Ho. apply oget_odel_some in Ho. destruct Ho as [_ Ho]. eauto.
  - eapply legal_step; eauto.
  - eapply cover_step; eauto.
    + intros o' E; exfalso; eapply nE; eauto.
    + intros t o' E; exfalso; eapply nR; eauto.
  - exact Irows.
  - rewrite upd_length; auto.
Qed.

Lemma upsert_rows_P (P : oid -> Prop) objs os rows :
  (forall o f, oget o objs = Some f -> P o) ->
  (forall o n, In (o, n) rows -> P o) ->
  forall o n, In (o, n) (upsert_rows objs os rows) -> P o.
Proof.
  unfold upsert_rows. intros HO. revert rows.
  induction os as [|a os IH]; cbn [fold_left]; intros rows HR; auto.
  apply IH. intros o n Hin. destruct (oget a objs) as [f|] eqn:E; eauto.
  destruct Hin as [Hin|Hin].
  - inversion Hin; subst; eauto.
  - apply In_odel in Hin. eauto.
Qed.

Theorem step_inv : forall loc wls w ps i s rest w',
  Inv loc wls w ps -> nth_error ps i = Some (s :: rest) -> exec (nth i wls []) i s w = Some w' ->
  Inv loc wls w' (upd i rest ps).
Proof.
  intros loc wls w ps i s rest w' HI Hi Hex.
  pose proof HI as [Iobj Iever Itmp Iprot Iunprot Ilegal Icover Irows Ilen].
  destruct (legal_step _ _ _ _ _ _ Ilegal Hi) as [Hok HL].
  destruct s; unfold exec in Hex; cbn [step_ok] in Hok.
  - (* ExistsCheck *)
    assert (E : w' = w /\ (found = true -> memo o (w_ever w) = true)).
    { destruct found; [destruct (memo o (w_ever w)) eqn:Em|]; inversion Hex; split; auto; discriminate. }
    destruct E as [-> Hf].
    eapply frame_inv; eauto; try (intros; discriminate).
    intros o' E. inversion E; subst. auto.
  - (* Remove *)
    destruct (oget o (nth i wls [])) as [b0|] eqn:Eits; [|discriminate].
    inversion Hex; subst w'; clear Hex.
    eapply del_inv; eauto; intros; discriminate.
  - (* Mkdir *)
    inversion Hex; subst w'; clear Hex.
    eapply frame_inv; eauto; try (intros; discriminate).
  - (* ProbeOpen *)
    destruct (oget o (nth i wls [])) as [b0|] eqn:Eits; [|discriminate].
    destruct (memo (prefix o) (w_dirs w)); [|discriminate].
    inversion Hex; subst w'; clear Hex.
    assert (Hall : In (o, b0) (all_items wls)) by (eapply In_all_items, oget_In; eauto).
    assert (HoR : owesR (upd i rest ps) o) by (eapply owesR_new; eauto).
    split; cbn [w_objs w_tmps w_rows w_ever].
    + intros o' f Ho. rewrite memo_cons. apply oget_oput_some in Ho.
      destruct Ho as [[-> _]|[Hne Ho]].
      * split; eauto.
      * destruct (Iobj _ _ Ho); split; auto.
    + intros o' Hm. apply memo_cons in Hm.
      destruct (oid_eq_dec o' o) as [->|Hne]; [right; exact HoR|].
      destruct Hm as [?|Hm]; [contradiction|].
      destruct (Iever _ Hm) as [X|X].
      * left. destruct X as (f & b & H1 & H2 & H3). exists f, b. cbn [w_objs].
        rewrite oget_oput_neq; auto.
      * right. destruct (owesR_transfer _ _ _ _ _ X Hi) as [[t E]|]; [discriminate|auto].
    + exact Itmp.
    + intros Hl o' f Ho Hp. apply oget_oput_some in Ho.
      destruct Ho as [[-> _]|[Hne Ho]]; [right; exact HoR|].
      destruct (Iprot Hl _ _ Ho Hp) as [X|X].
      * left. destruct (owesC_transfer _ _ _ _ _ X Hi) as [E|]; [discriminate|auto].
      * right. destruct (owesR_transfer _ _ _ _ _ X Hi) as [[t E]|]; [discriminate|auto].
    + intros Hl o' f Ho. apply oget_oput_some in Ho.
      destruct Ho as [[-> ->]|[Hne Ho]]; [|eauto].
      cbn [f_prot]. destruct (oget o (w_objs w)) eqn:E; eauto.
    + exact HL.
    + eapply cover_step with (ever := w_ever w); eauto; try (intros; discriminate).
      intros; rewrite memo_cons; auto.
    + exact Irows.
    + rewrite upd_length; auto.
  - (* ProbeUnlink *)
    destruct (oget o (nth i wls [])) as [b0|] eqn:Eits; [|discriminate].
    inversion Hex; subst w'; clear Hex.
    eapply del_inv; eauto; intros; discriminate.
  - (* CopyTmp *)
    destruct (oget o (nth i wls [])) as [b0|] eqn:Eits; [|discriminate].
    destruct (memo (prefix o) (w_dirs w)); [|discriminate].
    inversion Hex; subst w'; clear Hex.
    assert (Hall : In (o, b0) (all_items wls)) by (eapply In_all_items, oget_In; eauto).
    eapply frame_inv; eauto; try (intros; discriminate).
    cbn [w_tmps]. intros k o' b' Hk. apply tget_tput_some in Hk.
    destruct Hk as [[_ E]|[_ Hk]]; [inversion E; subst; auto|eauto].
  - (* RenameTmp *)
    destruct (tget (i, t) (w_tmps w)) as [[o1 b1]|] eqn:Et; [|discriminate].
    inversion Hex; subst w'; clear Hex.
    eapply frame_inv; eauto; try (intros; discriminate).
    cbn [w_tmps]. intros k o' b' Hk. apply tget_tput_some in Hk.
    destruct Hk as [[_ E]|[_ Hk]]; [inversion E; subst; eauto|].
    apply tget_tdel_some in Hk. destruct Hk as [_ Hk]. eauto.
  - (* Rename *)
    destruct (tget (i, t) (w_tmps w)) as [[o1 b1]|] eqn:Et; [|discriminate].
    destruct (list_N_eqb o1 o) eqn:Eo; [|discriminate]. apply list_N_eqb_spec in Eo. subst o1.
    inversion Hex; subst w'; clear Hex.
    assert (Hall : In (o, b1) (all_items wls)) by eauto.
    split; cbn [w_objs w_tmps w_rows w_ever].
    + intros o' f Ho. rewrite memo_cons. apply oget_oput_some in Ho.
      destruct Ho as [[-> _]|[Hne Ho]].
      * split; eauto.
      * destruct (Iobj _ _ Ho); split; auto.
    + intros o' Hm. apply memo_cons in Hm.
      destruct (oid_eq_dec o' o) as [->|Hne].
      * left. exists (mkfile (w_next w) b1 false), b1. cbn [w_objs f_bytes].
        rewrite oget_oput_eq. auto.
      * destruct Hm as [?|Hm]; [contradiction|].
        destruct (Iever _ Hm) as [X|X].
        -- left. destruct X as (f & b & H1 & H2 & H3). exists f, b. cbn [w_objs].
           rewrite oget_oput_neq; auto.
        -- right. destruct (owesR_transfer _ _ _ _ _ X Hi) as [[t' E]|]; auto.
           inversion E; subst. contradiction.
    + intros k o' b' Hk. apply tget_tdel_some in Hk. destruct Hk as [_ Hk]. eauto.
    + intros Hl o' f Ho Hp. apply oget_oput_some in Ho.
      destruct Ho as [[-> _]|[Hne Ho]].
      * left. eapply owesC_new; eauto. rewrite Hl in Hok. exact Hok.
      * destruct (Iprot Hl _ _ Ho Hp) as [X|X].
        -- left. destruct (owesC_transfer _ _ _ _ _ X Hi) as [E|]; [discriminate|auto].
        -- right. destruct (owesR_transfer _ _ _ _ _ X Hi) as [[t' E]|]; auto.
           inversion E; subst. contradiction.
    + intros Hl o' f Ho. apply oget_oput_some in Ho.
      destruct Ho as [[-> ->]|[Hne Ho]]; [reflexivity|eauto].
    + exact HL.
    + eapply cover_step with (ever := w_ever w); eauto; try (intros; discriminate).
      * intros; rewrite memo_cons; auto.
      * intros t' o' E. inversion E; subst. rewrite memo_cons; auto.
    + exact Irows.
    + rewrite upd_length; auto.
  - (* Chmod *)
    subst loc.
    destruct (oget o (w_objs w)) as [f0|] eqn:Eo; inversion Hex; subst w'; clear Hex.
    + split; cbn [w_objs w_tmps w_rows w_ever].
      * intros o' f Ho. apply oget_oput_some in Ho. destruct Ho as [[-> _]|[_ Ho]]; eauto.
      * intros o' Hm. destruct (Iever _ Hm) as [X|X].
        -- left. destruct X as (f & b & H1 & H2 & H3).
           destruct (oid_eq_dec o' o) as [->|Hne].
           ++ rewrite Eo in H1. inversion H1; subst f0.
              exists (mkfile (f_id f) (f_bytes f) true), b. cbn [w_objs f_bytes].
              rewrite oget_oput_eq. auto.
           ++ exists f, b. cbn [w_objs]. rewrite oget_oput_neq; auto.
        -- right. destruct (owesR_transfer _ _ _ _ _ X Hi) as [[t E]|]; [discriminate|auto].
      * exact Itmp.
      * intros Hl o' f Ho Hp. apply oget_oput_some in Ho.
        destruct Ho as [[-> ->]|[Hne Ho]]; [cbn in Hp; discriminate|].
        destruct (Iprot Hl _ _ Ho Hp) as [X|X].
        -- left. destruct (owesC_transfer _ _ _ _ _ X Hi) as [E|]; auto.
           inversion E; subst. contradiction.
        -- right. destruct (owesR_transfer _ _ _ _ _ X Hi) as [[t E]|]; [discriminate|auto].
      * intros Hl; discriminate.
      * exact HL.
      * eapply cover_step with (ever := w_ever w); eauto; intros; discriminate.
      * exact Irows.
      * rewrite upd_length; auto.
    + split.
      * exact Iobj.
      * intros o' Hm. destruct (Iever _ Hm) as [X|X]; auto.
        right. destruct (owesR_transfer _ _ _ _ _ X Hi) as [[t E]|]; [discriminate|auto].
      * exact Itmp.
      * intros Hl o' f Ho Hp. destruct (Iprot Hl _ _ Ho Hp) as [X|X].
        -- left. destruct (owesC_transfer _ _ _ _ _ X Hi) as [E|]; auto.
           inversion E; subst. rewrite Eo in Ho. discriminate.
        -- right. destruct (owesR_transfer _ _ _ _ _ X Hi) as [[t E]|]; [discriminate|auto].
      * intros Hl; discriminate.
      * exact HL.
      * eapply cover_step with (ever := w_ever w); eauto; intros; discriminate.
      * exact Irows.
      * rewrite upd_length; auto.
  - (* StateUpsert *)
    inversion Hex; subst w'; clear Hex.
    eapply frame_inv; eauto; try (intros; discriminate).
    cbn [w_rows w_objs]. apply upsert_rows_P; auto.
    intros o f Ho. destruct (Iobj _ _ Ho); auto.
Qed.

(* ------------------------------------------------------------------------------------------ *)
(* initially, along a run, at the end                                                           *)
Lemma legal_all_spec loc wls ps :
  legal_all loc wls ps = true ->
  length ps = length wls /\
  forall i p, nth_error ps i = Some p -> legal loc (nth i wls []) p = true.
Proof.
  revert ps. induction wls as [|its wr IH]; intros [|p pr]; simpl; try discriminate.
  - intros _. split; auto. intros [|i] p; discriminate.
  - intros Hl. apply andb_true_iff in Hl. destruct Hl as [H1 H2].
    destruct (IH _ H2) as [IH1 IH2]. split; [f_equal; auto|].
    intros [|i] q Hq; simpl in *.
    + inversion Hq; subst; auto.
    + apply IH2; auto.
Qed.

Theorem inv_init : forall loc wls ps, legal_all loc wls ps = true -> Inv loc wls w0 ps.
Proof.
  intros loc wls ps Hl. destruct (legal_all_spec _ _ _ Hl) as [Hlen Hleg].
  split; cbn [w0 w_objs w_tmps w_rows w_ever].
  - intros o f Ho. discriminate.
  - intros o Ho. discriminate.
  - intros k o b Ho. discriminate.
  - intros _ o f Ho. discriminate.
  - intros _ o f Ho. discriminate.
  - intros i p Hp. specialize (Hleg _ _ Hp). unfold legal in Hleg.
    apply andb_true_iff in Hleg. tauto.
  - intros i p o b Hp Hin. specialize (Hleg _ _ Hp). unfold legal in Hleg.
    apply andb_true_iff in Hleg. destruct Hleg as [Hc _]. unfold covers in Hc.
    rewrite forallb_forall in Hc. specialize (Hc _ Hin). cbn [fst] in Hc.
    apply orb_true_iff in Hc. right. destruct Hc as [Hc|Hc].
    + left. apply skip_spec; auto.
    + right. apply rename_spec; auto.
  - intros o n [].
  - exact Hlen.
Qed.

Theorem run_inv : forall loc wls sched w ps w' ps',
  Inv loc wls w ps -> run wls sched w ps = Some (w', ps') -> Inv loc wls w' ps'.
Proof.
  intros loc wls sched. induction sched as [|i r IH]; intros w ps w' ps' HI Hr; simpl in Hr.
  - inversion Hr; subst; auto.
  - destruct (nth_error ps i) as [[|s rest]|] eqn:Ei; eauto.
    destruct (exec (nth i wls []) i s w) as [w1|] eqn:Ee; [|discriminate].
    eapply IH; [|eauto]. eapply step_inv; eauto.
Qed.

Definition good_final (loc : bool) (wls : list items) (w : world) : Prop :=
  (forall o b, In (o, b) (all_items wls) ->
      exists f, oget o (w_objs w) = Some f /\ f_bytes f = b /\ f_prot f = loc) /\
  (forall o f, oget o (w_objs w) = Some f -> In (o, f_bytes f) (all_items wls) /\ f_prot f = loc) /\
  (forall o n, In (o, n) (w_rows w) ->
      exists f b, In (o, b) (all_items wls) /\ oget o (w_objs w) = Some f /\ f_bytes f = b).

Lemma all_done_nth ps : all_done ps = true -> forall i p, nth_error ps i = Some p -> p = [].
Proof.
  unfold all_done; intros Hd i p Hp. apply nth_error_In in Hp.
  rewrite forallb_forall in Hd. specialize (Hd _ Hp). destruct p; auto; discriminate.
Qed.

Theorem inv_final : forall loc wls w ps,
  consistent wls -> Inv loc wls w ps -> all_done ps = true -> good_final loc wls w.
Proof.
  intros loc wls w ps Hc [Iobj Iever Itmp Iprot Iunprot Ilegal Icover Irows Ilen] Hd.
  assert (nR : forall o, ~ owesR ps o).
  { intros o (j & p & t & Hj & Hin). rewrite (all_done_nth _ Hd _ _ Hj) in Hin. destruct Hin. }
  assert (nC : forall o, ~ owesC ps o).
  { intros o (j & p & Hj & Hin). rewrite (all_done_nth _ Hd _ _ Hj) in Hin. destruct Hin. }
  assert (Hprot : forall o f, oget o (w_objs w) = Some f -> f_prot f = loc).
  { intros o f Ho. destruct loc.
    - destruct (f_prot f) eqn:E; auto.
      destruct (Iprot eq_refl _ _ Ho E) as [X|X]; [destruct (nC _ X)|destruct (nR _ X)].
    - eauto. }
  assert (Hcomp : forall o, memo o (w_ever w) = true -> complete wls w o).
  { intros o Hm. destruct (Iever _ Hm) as [X|X]; auto. destruct (nR _ X). }
  assert (G1 : forall o b, In (o, b) (all_items wls) ->
               exists f, oget o (w_objs w) = Some f /\ f_bytes f = b /\ f_prot f = loc).
  { intros o b Hin. destruct (all_items_nth _ _ Hin) as (j & Hj & Hinj).
    destruct (nth_error ps j) as [p|] eqn:Ep.
    2:{ apply nth_error_None in Ep. lia. }
    pose proof (all_done_nth _ Hd _ _ Ep); subst p.
    destruct (Icover _ _ _ _ Ep Hinj) as [Hm|[[]|[t []]]].
    destruct (Hcomp _ Hm) as (f & b' & Ho & Hin' & Hb). exists f. split; auto. split; eauto.
    rewrite Hb. apply (Hc o b' b); auto. }
  split; [exact G1|split].
  - intros o f Ho. split; eauto. destruct (Iobj _ _ Ho) as [Hm _].
    destruct (Hcomp _ Hm) as (f' & b' & Ho' & Hin' & Hb). rewrite Ho in Ho'.
    inversion Ho'; subst f'. rewrite Hb; auto.
  - intros o n Hin. destruct (Irows _ _ Hin) as [b Hb].
    destruct (G1 _ _ Hb) as (f & Ho & Hfb & _). exists f, b. auto.
Qed.

Theorem any_schedule : forall loc wls ps sched w' ps',
  consistent wls -> legal_all loc wls ps = true -> run wls sched w0 ps = Some (w', ps') ->
  all_done ps' = true -> good_final loc wls w'.
Proof.
  intros loc wls ps sched w' ps' Hc Hl Hr Hd.
  eapply inv_final; eauto. eapply run_inv; eauto. apply inv_init; auto.
Qed.

Theorem view_expected : forall loc wls w,
  consistent wls -> good_final loc wls w -> forall o, view w o = expected loc wls o.
Proof.
  intros loc wls w Hc [G1 [G2 _]] o. unfold view, expected.
  destruct (oget o (all_items wls)) as [b|] eqn:E.
  - apply oget_In in E. destruct (G1 _ _ E) as (f & Ho & Hb & Hp). rewrite Ho, Hb, Hp. auto.
  - destruct (oget o (w_objs w)) as [f|] eqn:Eo; auto.
    destruct (G2 _ _ Eo) as [Hin _]. apply In_oget in Hin. destruct Hin as [b' Hb].
    rewrite Hb in E; discriminate.
Qed.

Theorem order_irrelevant : forall loc wls ps1 ps2 s1 s2 w1 w2 q1 q2,
  consistent wls -> legal_all loc wls ps1 = true -> legal_all loc wls ps2 = true ->
  run wls s1 w0 ps1 = Some (w1, q1) -> all_done q1 = true ->
  run wls s2 w0 ps2 = Some (w2, q2) -> all_done q2 = true ->
  forall o, view w1 o = view w2 o.
Proof.
  intros loc wls ps1 ps2 s1 s2 w1 w2 q1 q2 Hc L1 L2 R1 D1 R2 D2 o.
  rewrite (view_expected loc wls w1 Hc (any_schedule _ _ _ _ _ _ Hc L1 R1 D1)).
  rewrite (view_expected loc wls w2 Hc (any_schedule _ _ _ _ _ _ Hc L2 R2 D2)).
  reflexivity.
Qed.

Theorem valid_trace_sound : forall loc wls tr, consistent wls -> valid_trace loc wls tr = true ->
  exists w ps', final_of wls tr = Some (w, ps') /\ good_final loc wls w /\
                forall o, view w o = expected loc wls o.
Proof.
  intros loc wls tr Hc Hv. unfold valid_trace in Hv.
  apply andb_true_iff in Hv. destruct Hv as [Hv Hd].
  apply andb_true_iff in Hv. destruct Hv as [_ Hl].
  destruct (final_of wls tr) as [[w ps']|] eqn:E; [|discriminate].
  exists w, ps'. split; auto.
  assert (G : good_final loc wls w) by (unfold final_of in E; eapply any_schedule; eauto).
  split; auto. apply view_expected; auto.
Qed.

Theorem store_matches_spec : forall loc wls w,
  consistent wls -> good_final loc wls w -> store_matches loc wls w = true.
Proof.
  intros loc wls w Hc G. unfold store_matches. apply andb_true_iff; split; apply forallb_forall.
  - intros [o b] Hin. cbn [fst]. rewrite (view_expected loc wls w Hc G o). unfold expected.
    destruct (In_oget _ _ _ Hin) as [b' Hb]. rewrite Hb.
    rewrite (proj2 (list_N_eqb_spec b' b') eq_refl). rewrite Bool.eqb_reflx. auto.
  - intros [o f] Hin. cbn [fst]. destruct (In_oget _ _ _ Hin) as [f' Hf].
    destruct G as [_ [G2 _]]. destruct (G2 _ _ Hf) as [Hi _].
    destruct (In_oget _ _ _ Hi) as [b' Hb]. unfold expected. rewrite Hb. auto.
Qed.

(* ------------------------------------------------------------------------------------------ *)
(* content addressing: with ids that are the hash of the requested bytes                        *)
Section Hash.
  Variable H : bytes -> oid.
  Definition named (wls : list items) : Prop :=
    forall o b, In (o, b) (all_items wls) -> H b = o.
  Theorem final_named_ok : forall loc wls w, named wls -> good_final loc wls w ->
    forall o f, oget o (w_objs w) = Some f -> H (f_bytes f) = o.
  Proof.
    intros loc wls w Hn [_ [G2 _]] o f Ho. destruct (G2 _ _ Ho) as [Hin _]. apply Hn; auto.
  Qed.
End Hash.

(* workloads: staged files (name, contents); the directory object is derived and LAST *)
Section Workloads.
  Variable H : bytes -> oid.
  Variable ser : list (list N * oid) -> bytes.
  Variable dirid : bytes -> oid.
  Definition entries (wl : list (list N * bytes)) : list (list N * oid) :=
    map (fun nb => (fst nb, H (snd nb))) wl.
  Definition items_of (wl : list (list N * bytes)) : items :=
    map (fun nb => (H (snd nb), snd nb)) wl ++ [(dirid (ser (entries wl)), ser (entries wl))].
  Theorem directory_object : forall loc (wkls : list (list (list N * bytes))) ps sched w' ps',
    consistent (map items_of wkls) -> legal_all loc (map items_of wkls) ps = true ->
    run (map items_of wkls) sched w0 ps = Some (w', ps') -> all_done ps' = true ->
    forall wl, In wl wkls ->
      view w' (dirid (ser (entries wl))) = Some (ser (entries wl), loc) /\
      forall n b, In (n, b) wl -> view w' (H b) = Some (b, loc).
  Proof.
    intros loc wkls ps sched w' ps' Hc Hl Hr Hd wl Hwl.
    destruct (any_schedule _ _ _ _ _ _ Hc Hl Hr Hd) as [G1 _].
    assert (Hin : In (items_of wl) (map items_of wkls)) by (apply in_map; auto).
    split.
    - destruct (G1 (dirid (ser (entries wl))) (ser (entries wl))) as (f & Ho & Hb & Hp).
      { unfold all_items. apply in_concat. exists (items_of wl). split; auto.
        unfold items_of. apply in_or_app. right. left. auto. }
      unfold view. rewrite Ho, Hb, Hp. auto.
    - intros n b Hnb. destruct (G1 (H b) b) as (f & Ho & Hb & Hp).
      { unfold all_items. apply in_concat. exists (items_of wl). split; auto.
        unfold items_of. apply in_or_app. left. apply in_map_iff. exists (n, b). auto. }
      unfold view. rewrite Ho, Hb, Hp. auto.
  Qed.
End Workloads.

(* ------------------------------------------------------------------------------------------ *)
(* non-vacuity, and the facts that make the naive invariant ("a placed object stays complete")  *)
(* FALSE                                                                                        *)
Definition ex_o : oid := [97; 97; 1].
Definition ex_b : bytes := [7; 7].
Definition ex_its : items := [(ex_o, ex_b)].
Definition ex_tr : list (nat * step) :=
  [(0%nat, ExistsCheck ex_o false); (1%nat, ExistsCheck ex_o false);
   (0%nat, Mkdir [97; 97]); (0%nat, ProbeOpen ex_o); (0%nat, ProbeUnlink ex_o);
   (0%nat, CopyTmp 0 ex_o); (0%nat, Rename 0 ex_o); (0%nat, Chmod ex_o);
   (0%nat, StateUpsert [ex_o]);
   (1%nat, Mkdir [97; 97]); (1%nat, ProbeOpen ex_o); (1%nat, StateUpsert []);
   (1%nat, ProbeUnlink ex_o); (1%nat, CopyTmp 0 ex_o); (1%nat, Rename 0 ex_o);
   (1%nat, Chmod ex_o); (1%nat, StateUpsert [ex_o])].

(* writer 1's probe truncates and unlinks what writer 0 had placed, protected and recorded;
   the trace is accepted all the same *)
Example ex_two_writers_valid : valid_trace true [ex_its; ex_its] ex_tr = true.
Proof. vm_compute. reflexivity. Qed.

(* after (1, ProbeOpen o): the object is present, protected, and EMPTY *)
Example ex_probe_destroys :
  exists w ps, run [ex_its; ex_its] (map fst (firstn 11 ex_tr)) w0 (project 2 ex_tr) = Some (w, ps) /\
               view w ex_o = Some ([], true).
Proof. eexists; eexists; split; [lazy; reflexivity|lazy; reflexivity]. Qed.

(* before it, it was complete *)
Example ex_complete_before_probe :
  exists w ps, run [ex_its; ex_its] (map fst (firstn 10 ex_tr)) w0 (project 2 ex_tr) = Some (w, ps) /\
               view w ex_o = Some (ex_b, true).
Proof. eexists; eexists; split; [lazy; reflexivity|lazy; reflexivity]. Qed.

(* writer 0's state row can record the token of writer 1's EMPTY probe file *)
Definition ex_prog : program :=
  [ExistsCheck ex_o false; Mkdir [97; 97]; ProbeOpen ex_o; ProbeUnlink ex_o; CopyTmp 0 ex_o;
   Rename 0 ex_o; Chmod ex_o; StateUpsert [ex_o]].
Definition ex_sched_row : list nat := [0; 1; 0; 0; 0; 0; 0; 1; 1; 0; 0]%nat.
Example ex_row_of_probe :
  legal_all true [ex_its; ex_its] [ex_prog; ex_prog] = true /\
  exists w ps, run [ex_its; ex_its] ex_sched_row w0 [ex_prog; ex_prog] = Some (w, ps) /\
               w_rows w = [(ex_o, 2)] /\
               oget ex_o (w_objs w) = Some (mkfile 2 [] true).
Proof.
  split; [vm_compute; reflexivity|].
  eexists; eexists; split; [lazy; reflexivity|split; lazy; reflexivity].
Qed.

Example ex_skip_needs_presence : exec ex_its 1 (ExistsCheck ex_o true) w0 = None.
Proof. reflexivity. Qed.

Example ex_hyps_satisfiable :
  consistent [ex_its; ex_its] /\ legal_all true [ex_its; ex_its] (project 2 ex_tr) = true.
Proof.
  split; [|vm_compute; reflexivity].
  intros o b b' H1 H2. unfold all_items, ex_its in H1, H2. simpl in H1, H2.
  destruct H1 as [H1|[H1|[]]]; destruct H2 as [H2|[H2|[]]]; congruence.
Qed.

(* a base (non-local) store: no Chmod steps *)
Definition ex_tr_base : list (nat * step) :=
  [(0%nat, ExistsCheck ex_o false); (1%nat, ExistsCheck ex_o false);
   (0%nat, Mkdir [97; 97]); (0%nat, ProbeOpen ex_o); (0%nat, ProbeUnlink ex_o);
   (0%nat, CopyTmp 0 ex_o); (1%nat, Mkdir [97; 97]); (0%nat, Rename 0 ex_o);
   (1%nat, ProbeOpen ex_o); (0%nat, StateUpsert [ex_o]);
   (1%nat, ProbeUnlink ex_o); (1%nat, CopyTmp 0 ex_o); (1%nat, Rename 0 ex_o);
   (1%nat, StateUpsert [ex_o])].
Example ex_base_valid : valid_trace false [ex_its; ex_its] ex_tr_base = true.
Proof. vm_compute. reflexivity. Qed.

(* a second writer that observes the object and skips the copy *)
Definition ex_tr_skip : list (nat * step) :=
  [(0%nat, ExistsCheck ex_o false); (0%nat, Mkdir [97; 97]); (0%nat, ProbeOpen ex_o);
   (0%nat, ProbeUnlink ex_o); (0%nat, CopyTmp 0 ex_o); (0%nat, Rename 0 ex_o);
   (1%nat, ExistsCheck ex_o true); (0%nat, Chmod ex_o); (0%nat, StateUpsert [ex_o])].
Example ex_skip_valid : valid_trace true [ex_its; ex_its] ex_tr_skip = true.
Proof. vm_compute. reflexivity. Qed.

(* the end-to-end statement on the accepted example *)
Example ex_two_writers_final :
  exists w ps', final_of [ex_its; ex_its] ex_tr = Some (w, ps') /\
                forall o, view w o = expected true [ex_its; ex_its] o.
Proof.
  destruct (valid_trace_sound true [ex_its; ex_its] ex_tr (proj1 ex_hyps_satisfiable)
              ex_two_writers_valid) as (w & ps' & E & _ & Hv).
  eauto.
Qed.

(* ------------------------------------------------------------------------------------------ *)
(* runs from a pre-populated store                                                              *)
Lemma pre_objs_In loc n pre o f :
  In (o, f) (pre_objs loc n pre) -> In (o, f_bytes f) pre /\ f_prot f = loc.
Proof.
  revert n. induction pre as [|[o1 b1] r IH]; intros n; cbn [pre_objs fst snd]; intros Hin; [destruct Hin|].
  destruct Hin as [Hin|Hin].
  - inversion Hin; subst. cbn [f_bytes f_prot]. split; auto. left; auto.
  - destruct (IH _ Hin). split; auto. right; auto.
Qed.
Lemma pre_objs_has loc n pre o b :
  In (o, b) pre -> exists f, In (o, f) (pre_objs loc n pre).
Proof.
  revert n. induction pre as [|[o1 b1] r IH]; intros n Hin; [destruct Hin|].
  cbn [pre_objs fst snd]. destruct Hin as [Hin|Hin].
  - inversion Hin; subst. eexists. left; eauto.
  - destruct (IH (N.succ n) Hin) as [f Hf]. exists f. right; auto.
Qed.

Theorem inv_pre : forall loc wls pre ps,
  (forall o b, In (o, b) pre -> In (o, b) (all_items wls)) ->
  legal_all loc wls ps = true -> Inv loc wls (pre_world loc pre) ps.
Proof.
  intros loc wls pre ps Hpre Hl. destruct (legal_all_spec _ _ _ Hl) as [Hlen Hleg].
  assert (Hobj : forall o f, oget o (pre_objs loc 0 pre) = Some f ->
                   In (o, f_bytes f) pre /\ f_prot f = loc).
  { intros o f Ho. apply oget_In in Ho. eapply pre_objs_In; eauto. }
  split; cbn [pre_world w_objs w_tmps w_rows w_ever].
  - intros o f Ho. destruct (Hobj _ _ Ho) as [Hin _]. split; eauto.
    apply memo_spec. apply in_map_iff. exists (o, f_bytes f). auto.
  - intros o Hm. apply memo_spec in Hm. apply in_map_iff in Hm.
    destruct Hm as ([o1 b1] & E & Hin). cbn [fst] in E. subst o1. left.
    destruct (pre_objs_has loc 0 _ _ _ Hin) as [f0 Hf0].
    destruct (In_oget _ _ _ Hf0) as [f Hf]. destruct (Hobj _ _ Hf) as [Hin' _].
    exists f, (f_bytes f). cbn [pre_world w_objs]. auto.
  - intros k o b Ho. discriminate.
  - intros Hloc o f Ho Hp. destruct (Hobj _ _ Ho) as [_ Hp']. congruence.
  - intros Hloc o f Ho. destruct (Hobj _ _ Ho) as [_ Hp']. congruence.
  - intros i p Hp. specialize (Hleg _ _ Hp). unfold legal in Hleg.
    apply andb_true_iff in Hleg. tauto.
  - intros i p o b Hp Hin. specialize (Hleg _ _ Hp). unfold legal in Hleg.
    apply andb_true_iff in Hleg. destruct Hleg as [Hc _]. unfold covers in Hc.
    rewrite forallb_forall in Hc. specialize (Hc _ Hin). cbn [fst] in Hc.
    apply orb_true_iff in Hc. right. destruct Hc as [Hc|Hc].
    + left. apply skip_spec; auto.
    + right. apply rename_spec; auto.
  - intros o n [].
  - exact Hlen.
Qed.

Lemma pre_ok_spec : forall wls pre, pre_ok wls pre = true ->
  forall o b, In (o, b) pre -> In (o, b) (all_items wls).
Proof.
  intros wls pre Hok o b Hin. unfold pre_ok in Hok. rewrite forallb_forall in Hok.
  specialize (Hok _ Hin). cbn [fst snd] in Hok.
  destruct (oget o (all_items wls)) as [b'|] eqn:E; [|discriminate].
  apply list_N_eqb_spec in Hok. subst b'. apply oget_In; auto.
Qed.

Theorem any_schedule_pre : forall loc wls pre ps sched w' ps',
  consistent wls -> (forall o b, In (o, b) pre -> In (o, b) (all_items wls)) ->
  legal_all loc wls ps = true -> run wls sched (pre_world loc pre) ps = Some (w', ps') ->
  all_done ps' = true -> good_final loc wls w'.
Proof.
  intros loc wls pre ps sched w' ps' Hc Hpre Hl Hr Hd.
  eapply inv_final; eauto. eapply run_inv; eauto. apply inv_pre; auto.
Qed.

Theorem valid_trace_pre_sound : forall loc wls pre tr,
  consistent wls -> valid_trace_pre loc wls pre tr = true ->
  exists w ps', final_of_pre loc wls pre tr = Some (w, ps') /\ good_final loc wls w /\
                forall o, view w o = expected loc wls o.
Proof.
  intros loc wls pre tr Hc Hv. unfold valid_trace_pre in Hv.
  apply andb_true_iff in Hv. destruct Hv as [Hv Hd].
  apply andb_true_iff in Hv. destruct Hv as [Hv Hl].
  apply andb_true_iff in Hv. destruct Hv as [Hpre _].
  destruct (final_of_pre loc wls pre tr) as [[w ps']|] eqn:E; [|discriminate].
  exists w, ps'. split; auto.
  assert (G : good_final loc wls w).
  { unfold final_of_pre in E.
    exact (any_schedule_pre loc wls pre _ _ w ps' Hc (pre_ok_spec _ _ Hpre) Hl E Hd). }
  split; auto. apply view_expected; auto.
Qed.

(* the object is already there: the writer observes it and does nothing else *)
Example ex_pre_valid :
  valid_trace_pre true [ex_its] ex_its [(0%nat, ExistsCheck ex_o true)] = true.
Proof. vm_compute. reflexivity. Qed.

(* two writers on a pre-populated store: one skips, the other re-copies through the probe *)
Example ex_pre_two_valid :
  valid_trace_pre true [ex_its; ex_its] ex_its
    [(0%nat, ExistsCheck ex_o true); (1%nat, ExistsCheck ex_o false); (1%nat, Mkdir [97; 97]);
     (1%nat, ProbeOpen ex_o); (1%nat, ProbeUnlink ex_o); (1%nat, CopyTmp 0 ex_o);
     (1%nat, Rename 0 ex_o); (1%nat, Chmod ex_o); (1%nat, StateUpsert [ex_o])] = true.
Proof. vm_compute. reflexivity. Qed.

(* a pre-populated object with the wrong bytes is rejected *)
Example ex_pre_wrong_rejected :
  valid_trace_pre true [ex_its] [(ex_o, [9])] [(0%nat, ExistsCheck ex_o true)] = false.
Proof. vm_compute. reflexivity. Qed.
