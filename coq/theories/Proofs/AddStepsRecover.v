(* Scenario-level theorems for C15: the generated programs of transfer (re-run through the
   existence query) and index.save (re-run through add(check_exists=True)) are valid traces of the
   step machine, hence crash-safe at every prefix; re-running after a crash converges. *)
From Coq Require Import NArith List Bool Lia.
From DvcData Require Import Base.Val Model.AddSteps Proofs.AddStepsProofs Proofs.AddStepsProgs.
Import ListNotations.
Open Scope N_scope.

Lemma filter_all_id {A} (f : A -> bool) (l : list A) :
  (forall x, In x l -> f x = true) -> filter f l = l.
Proof.
  induction l as [|a l IH]; simpl; intros Hf; [reflexivity|].
  rewrite (Hf a (or_introl eq_refl)). f_equal. apply IH. intros x Hx. apply Hf. now right.
Qed.

Lemma firstn_In {A} (n : nat) (l : list A) x : In x (firstn n l) -> In x l.
Proof.
  revert l; induction n as [|n IH]; intros [|a l]; simpl; try tauto.
  intros [->|Hx]; [now left | right; now apply IH].
Qed.

Section R.
  Variable bytes : Type.
  Variable H : bytes -> oid.
  Variable kids : bytes -> list oid.
  Variable empty : bytes.
  Variable part : bytes -> bytes.
  Hypothesis kids_empty : kids empty = [].

  Notation astep := (astep_ bytes).
  Notation world := (world bytes).
  Notation obj := (obj bytes).
  Notation run := (run bytes empty).
  Notation valid_trace := (valid_trace bytes H kids empty).
  Notation named_ok := (named_ok bytes H).
  Notation named_ok_b := (named_ok_b bytes H).
  Notation inv := (inv bytes H kids).
  Notation crash_inv := (crash_inv bytes H kids).
  Notation crash := (crash bytes).
  Notation G := (G bytes).
  Notation step_oid := (step_oid bytes).
  Notation absent := (absent bytes).
  Notation add_prog := (add_prog bytes part).
  Notation mem_add_prog := (mem_add_prog bytes).
  Notation heal_prog := (heal_prog bytes H empty).
  Notation files_add := (files_add bytes part).
  Notation dir_add := (dir_add bytes part).
  Notation transfer_prog := (transfer_prog bytes H empty part).
  Notation mem_adds := (mem_adds bytes empty).
  Notation save_prog := (save_prog bytes empty part).
  Notation kids_ok := (kids_ok bytes H kids).
  Notation store_eq := (store_eq bytes).

  (* "o is present, matches its name and is write-protected" *)
  Definition good (w : world) (o : oid) : Prop :=
    exists f, obj w o = Some f /\ named_ok o (f_bytes f) /\ f_prot f = true.

  Definition files_ok (files : list (oid * bytes)) : Prop :=
    forall it, In it files -> named_ok_b (fst it) (snd it) = true /\ is_dir (fst it) = false.
  Definition dir_ok (files : list (oid * bytes)) (d : oid * bytes) : Prop :=
    named_ok_b (fst d) (snd d) = true /\ is_dir (fst d) = true /\
    forall k, In k (kids (snd d)) -> In k (map fst files).

  Lemma absent_none w it : absent w it = true -> obj w (fst it) = None.
  Proof. unfold AddSteps.absent. destruct (obj w (fst it)); [discriminate | reflexivity]. Qed.
  Lemma absent_false w it : absent w it = false -> exists f, obj w (fst it) = Some f.
  Proof. unfold AddSteps.absent. destruct (obj w (fst it)) as [f|]; [eauto | discriminate]. Qed.

  Lemma add_false_eq t its w :
    (forall it, In it its -> absent w it = true) -> add_prog false t its w = add_prog true t its w.
  Proof.
    intros Ha. unfold AddSteps.add_prog. rewrite (filter_all_id _ _ Ha). reflexivity.
  Qed.

  Lemma dir_not_file files (d : oid * bytes) : files_ok files -> is_dir (fst d) = true -> ~ In (fst d) (map fst files).
  Proof.
    intros Hf Hd Hin. apply in_map_iff in Hin as [it [He Hi]].
    destruct (Hf it Hi) as [_ Hn]. rewrite He in Hn. congruence.
  Qed.

  Lemma kids_ok_good w files d :
    dir_ok files d -> (forall it, In it files -> good w (fst it)) -> kids_ok w (snd d) = true.
  Proof.
    intros [_ [_ Hk]] Hg. unfold AddSteps.kids_ok. apply forallb_forall. intros k Hin.
    apply Hk in Hin. apply in_map_iff in Hin as [it [He Hi]]. subst k.
    destruct (Hg it Hi) as [f [Ho [Hn _]]]. unfold kid_ok. rewrite Ho.
    now apply named_ok_b_iff.
  Qed.

  (* ---- the files phase of a transfer (after the existence query) ---- *)
  Lemma files_add_valid t files w :
    G w -> files_ok files ->
    (forall it f, In it files -> obj w (fst it) = Some f -> named_ok (fst it) (f_bytes f) /\ f_prot f = true) ->
    let p := files_add t files w in let w' := run p w in
    valid_trace p w = true /\ G w' /\
    (forall it, In it files -> good w' (fst it)) /\
    (forall o, ~ In o (map fst files) -> obj w' o = obj w o) /\
    (forall s, In s p -> forall o, step_oid s = Some o -> In o (map fst files)).
  Proof.
    intros HG Hf Hh p w'. subst p w'. unfold AddSteps.files_add.
    assert (Hnew : forall it, In it (filter (absent w) files) -> In it files /\ absent w it = true)
      by (intros it Hi; apply filter_In in Hi; exact Hi).
    assert (Hnew2 : forall it, In it files -> absent w it = true -> In it (filter (absent w) files))
      by (intros it Hi Ha; apply filter_In; auto).
    destruct (filter (absent w) files) as [|a r] eqn:E.
    - simpl. repeat split; auto.
      + intros it Hi. destruct (absent w it) eqn:Ea.
        * destruct (Hnew2 it Hi Ea).
        * apply absent_false in Ea as [f Ho]. destruct (Hh it f Hi Ho). exists f; auto.
      + intros s [].
    - set (new' := a :: r) in *.
      rewrite add_false_eq by (intros it Hi; apply Hnew; exact Hi).
      assert (Hok : forall it, In it new' -> named_ok_b (fst it) (snd it) = true /\ is_dir (fst it) = false)
        by (intros it Hi; apply Hf; apply Hnew; exact Hi).
      assert (Hex : forall it f, In it new' -> obj w (fst it) = Some f -> named_ok (fst it) (f_bytes f)).
      { intros it f Hi Ho. destruct (Hnew it Hi) as [_ Ha]. apply absent_none in Ha. congruence. }
      destruct (add_prog_valid bytes H kids empty part t new' w HG Hok Hex) as [Hv [HG' [Hgood [Hfr Hoid]]]].
      assert (Hsub : forall o, In o (map fst new') -> In o (map fst files) /\ obj w o = None).
      { intros o Hin. apply in_map_iff in Hin as [it [He Hi]].
        destruct (Hnew it Hi) as [Hif Ha]. subst o. split; [apply in_map; exact Hif | now apply absent_none]. }
      split; [exact Hv|]. split; [exact HG'|]. split; [|split].
      + intros it Hi. destruct (absent w it) eqn:Ea.
        * apply Hgood. now apply Hnew2.
        * apply absent_false in Ea as [f Ho]. destruct (Hh it f Hi Ho) as [Hn Hp].
          exists f. split; [|auto]. rewrite Hfr; [exact Ho|].
          intros Hin. apply Hsub in Hin as [_ Hnone]. congruence.
      + intros o Hn. apply Hfr. intros Hin. apply Hn. now apply Hsub.
      + intros s Hs o Ho. apply (Hsub o). eapply Hoid; eauto.
  Qed.

  (* ---- transfer of a directory staged in memory into a local store ---- *)
  Definition requested (files : list (oid * bytes)) (d : oid * bytes) (qs : list oid) : Prop :=
    forall o, In o qs <-> o = fst d \/ In o (map fst files).

  Theorem transfer_prog_valid t qs files d w :
    inv w -> G w -> files_ok files -> dir_ok files d -> requested files d qs ->
    let p := transfer_prog true t qs files d w in let w' := run p w in
    valid_trace p w = true /\ G w' /\
    (forall o, In o qs -> good w' o) /\
    (forall o, ~ In o qs -> obj w' o = obj w o) /\
    (forall s, In s p -> forall o, step_oid s = Some o -> In o qs).
  Proof.
    intros Hinv HG Hf Hd Hq p w'. subst p w'. unfold AddSteps.transfer_prog, seq2.
    destruct (heal_prog_valid bytes H kids empty kids_empty qs w Hinv HG)
      as [Hv1 [Hinv1 [HG1 [Hh1 [Hfr1 [Hnone1 Hoid1]]]]]].
    set (p1 := heal_prog qs w) in *. set (w1 := run p1 w) in *.
    assert (Hhf : forall it f, In it files -> obj w1 (fst it) = Some f ->
                               named_ok (fst it) (f_bytes f) /\ f_prot f = true).
    { intros it f Hi Ho. apply (Hh1 (fst it) f); [|exact Ho]. apply Hq. right. now apply in_map. }
    destruct (files_add_valid t files w1 HG1 Hf Hhf) as [Hv2 [HG2 [Hg2 [Hfr2 Hoid2]]]].
    set (p2 := files_add t files w1) in *. set (w2 := run p2 w1) in *.
    set (t3 := t + nlen (filter (absent w1) files)).
    pose proof (dir_not_file files d Hf (proj1 (proj2 Hd))) as Hdn.
    assert (Hd2 : obj w2 (fst d) = obj w1 (fst d)) by (apply Hfr2; exact Hdn).
    (* the directory phase *)
    assert (Hp3 : let p3 := dir_add true t3 d w2 in let w3 := run p3 w2 in
                  valid_trace p3 w2 = true /\ G w3 /\ good w3 (fst d) /\
                  (forall o, o <> fst d -> obj w3 o = obj w2 o) /\
                  (forall s, In s p3 -> forall o, step_oid s = Some o -> o = fst d)).
    { unfold AddSteps.dir_add. destruct (absent w2 d) eqn:Ea.
      - apply absent_none in Ea.
        apply (mem_add_prog_valid bytes H kids empty t3 d w2 HG2 (proj1 Hd) (kids_ok_good w2 files d Hd Hg2)).
        intros f Ho. congruence.
      - apply absent_false in Ea as [f Ho]. simpl. repeat split; auto.
        + rewrite Hd2 in Ho. destruct (Hh1 (fst d) f) as [Hn Hp]; [apply Hq; now left | exact Ho |].
          exists f. rewrite Hd2. auto.
        + intros s []. }
    destruct Hp3 as [Hv3 [HG3 [Hg3 [Hfr3 Hoid3]]]].
    set (p3 := dir_add true t3 d w2) in *.
    rewrite !run_app.
    split; [|split; [|split; [|split]]].
    - apply valid_app; [exact Hv1|]. apply valid_app; [exact Hv2 | exact Hv3].
    - exact HG3.
    - intros o Hin. apply Hq in Hin as [->|Hin]; [exact Hg3|].
      apply in_map_iff in Hin as [it [He Hi]]. subst o.
      destruct (Hg2 it Hi) as [f [Ho Hr]]. exists f. split; [|exact Hr].
      rewrite Hfr3; [exact Ho|]. intros He. apply Hdn. rewrite <- He. now apply in_map.
    - intros o Hn. rewrite Hfr3, Hfr2, Hfr1; auto.
      + intros Hin. apply Hn. apply Hq. now right.
      + intros ->. apply Hn. apply Hq. now left.
    - intros s Hs o Ho. apply in_app_or in Hs as [Hs|Hs]; [eapply Hoid1; eauto|].
      apply in_app_or in Hs as [Hs|Hs].
      + apply Hq. right. eapply Hoid2; eauto.
      + apply Hq. left. eapply Hoid3; eauto.
  Qed.

  (* C15_prefix for the transfer scenario: from ANY store satisfying the invariant (in particular
     from any crashed store: no side condition on what is lying around) *)
  Theorem transfer_prefix_crash_inv t qs files d w n :
    inv w -> G w -> files_ok files -> dir_ok files d -> requested files d qs ->
    crash_inv (crash (run (firstn n (transfer_prog true t qs files d w)) w)).
  Proof.
    intros Hinv HG Hf Hd Hq.
    destruct (transfer_prog_valid t qs files d w Hinv HG Hf Hd Hq) as [Hv _].
    now apply valid_prefix_crash_inv.
  Qed.

  Hypothesis H_inj : forall b b', base (H b) = base (H b') -> b = b'.

  Lemma good_unique wa wb o : good wa o -> good wb o -> obj wa o = obj wb o.
  Proof.
    intros [f [Ho [Hn Hp]]] [g [Ho' [Hn' Hp']]]. rewrite Ho, Ho'. f_equal.
    destruct f as [fb fp], g as [gb gp]. simpl in *. subst fp gp. f_equal.
    apply H_inj. unfold AddSteps.named_ok in *. congruence.
  Qed.

  Lemma crash_obj w o : obj (crash w) o = obj w o.
  Proof. reflexivity. Qed.

  (* C15_recover for the re-run path through the existence query *)
  Theorem transfer_recover t t' qs qs' files d w0 n :
    inv w0 -> G w0 -> files_ok files -> dir_ok files d -> requested files d qs -> requested files d qs' ->
    let p0 := transfer_prog true t qs files d w0 in
    let wc := crash (run (firstn n p0) w0) in
    let p1 := transfer_prog true t' qs' files d wc in
    valid_trace p1 wc = true /\
    (forall m, crash_inv (crash (run (firstn m p1) wc))) /\
    store_eq (run p1 wc) (run p0 w0) /\
    (forall o, In o qs -> good (run p1 wc) o).
  Proof.
    intros Hinv HG Hf Hd Hq Hq' p0 wc p1.
    destruct (transfer_prog_valid t qs files d w0 Hinv HG Hf Hd Hq) as [Hv0 [_ [Hg0 [Hfr0 Hoid0]]]].
    fold p0 in Hv0, Hg0, Hfr0, Hoid0.
    assert (Hinvc : inv wc).
    { apply inv_crash. apply (valid_prefix_inv bytes H kids empty kids_empty p0 w0 Hinv Hv0). }
    assert (HGc : G wc) by reflexivity.
    destruct (transfer_prog_valid t' qs' files d wc Hinvc HGc Hf Hd Hq') as [Hv1 [_ [Hg1 [Hfr1 _]]]].
    fold p1 in Hv1, Hg1, Hfr1.
    split; [exact Hv1|]. split; [|split].
    - intros m. now apply valid_prefix_crash_inv.
    - intros o. destruct (in_dec oid_dec o qs) as [Hin|Hn].
      + apply good_unique; [apply Hg1; apply Hq'; apply Hq; exact Hin | apply Hg0; exact Hin].
      + rewrite Hfr1 by (intros Hin; apply Hn; apply Hq; apply Hq'; exact Hin).
        rewrite Hfr0 by exact Hn. unfold wc. rewrite crash_obj.
        apply obj_run_other. intros s Hs Ho. apply Hn. eapply Hoid0; [eapply firstn_In; exact Hs | exact Ho].
    - intros o Hin. apply Hg1. apply Hq'. apply Hq. exact Hin.
  Qed.

  (* ---- index.save: add(check_exists=True) of the files, then the directory objects ---- *)
  Lemma mem_adds_valid files dirs : forall t w,
    G w -> files_ok files -> (forall d, In d dirs -> dir_ok files d) ->
    (forall it, In it files -> good w (fst it)) ->
    (forall d f, In d dirs -> obj w (fst d) = Some f -> named_ok (fst d) (f_bytes f)) ->
    let p := mem_adds t dirs w in let w' := run p w in
    valid_trace p w = true /\ G w' /\
    (forall o, good w o -> good w' o) /\
    (forall d, In d dirs -> good w' (fst d)) /\
    (forall o, ~ In o (map fst dirs) -> obj w' o = obj w o) /\
    (forall s, In s p -> forall o, step_oid s = Some o -> In o (map fst dirs)).
  Proof.
    induction dirs as [|d r IH]; intros t w HG Hf Hds Hg Hex; simpl.
    - repeat split; auto; intros s [].
    - assert (Hd : dir_ok files d) by (apply Hds; now left).
      destruct (mem_add_prog_valid bytes H kids empty t d w HG (proj1 Hd) (kids_ok_good w files d Hd Hg)
                  (fun f Ho => Hex d f (or_introl eq_refl) Ho)) as [Hv1 [HG1 [Hg1 [Hfr1 Hoid1]]]].
      set (p1 := mem_add_prog t d w) in *. set (w1 := run p1 w) in *.
      assert (Hmono : forall o, good w o -> good w1 o).
      { intros o Hgo. destruct (oid_dec o (fst d)) as [->|Hne]; [exact Hg1|].
        destruct Hgo as [f [Ho Hr]]. exists f. rewrite Hfr1 by exact Hne. auto. }
      assert (Hex1 : forall d' f, In d' r -> obj w1 (fst d') = Some f -> named_ok (fst d') (f_bytes f)).
      { intros d' f Hi Ho. destruct (oid_dec (fst d') (fst d)) as [He|Hne].
        - rewrite He in *. destruct Hg1 as [g [Hog [Hn _]]]. congruence.
        - rewrite Hfr1 in Ho by exact Hne. eapply Hex; [right; exact Hi | exact Ho]. }
      destruct (IH (if absent w d then t + 2 else t) w1 HG1 Hf (fun d' Hi => Hds d' (or_intror Hi))
                   (fun it Hi => Hmono _ (Hg it Hi)) Hex1) as [Hv2 [HG2 [Hm2 [Hg2 [Hfr2 Hoid2]]]]].
      rewrite run_app. split; [|split; [|split; [|split; [|split]]]].
      + apply valid_app; assumption.
      + exact HG2.
      + intros o Hgo. apply Hm2. now apply Hmono.
      + intros d' [<-|Hi]; [apply Hm2; exact Hg1 | now apply Hg2].
      + intros o Hn. rewrite Hfr2 by (intros Hin; apply Hn; now right).
        apply Hfr1. intros ->. apply Hn. now left.
      + intros s Hs o Ho. apply in_app_or in Hs as [Hs|Hs].
        * left. symmetry. eapply Hoid1; eauto.
        * right. eapply Hoid2; eauto.
  Qed.

  Definition save_req (files dirs : list (oid * bytes)) (o : oid) : Prop :=
    In o (map fst files) \/ In o (map fst dirs).

  Theorem save_prog_valid t files dirs w :
    G w -> files_ok files -> (forall d, In d dirs -> dir_ok files d) ->
    (forall o f, save_req files dirs o -> obj w o = Some f -> named_ok o (f_bytes f)) ->
    let p := save_prog t files dirs w in let w' := run p w in
    valid_trace p w = true /\ G w' /\
    (forall o, save_req files dirs o -> good w' o) /\
    (forall o, ~ save_req files dirs o -> obj w' o = obj w o) /\
    (forall s, In s p -> forall o, step_oid s = Some o -> save_req files dirs o).
  Proof.
    intros HG Hf Hds Hex p w'. subst p w'. unfold AddSteps.save_prog, seq2.
    assert (Hexf : forall it f, In it files -> obj w (fst it) = Some f -> named_ok (fst it) (f_bytes f))
      by (intros it f Hi Ho; apply (Hex (fst it) f); [left; now apply in_map | exact Ho]).
    destruct (add_prog_valid bytes H kids empty part t files w HG Hf Hexf) as [Hv1 [HG1 [Hg1 [Hfr1 Hoid1]]]].
    set (p1 := add_prog true t files w) in *. set (w1 := run p1 w) in *.
    assert (Hexd : forall d f, In d dirs -> obj w1 (fst d) = Some f -> named_ok (fst d) (f_bytes f)).
    { intros d f Hi Ho. rewrite Hfr1 in Ho.
      - apply (Hex (fst d) f); [right; now apply in_map | exact Ho].
      - apply (dir_not_file files d Hf). apply (Hds d Hi). }
    destruct (mem_adds_valid files dirs (t + nlen (filter (absent w) files)) w1 HG1 Hf Hds Hg1 Hexd)
      as [Hv2 [HG2 [Hm2 [Hg2 [Hfr2 Hoid2]]]]].
    rewrite run_app. split; [|split; [|split; [|split]]].
    - apply valid_app; assumption.
    - exact HG2.
    - intros o [Hin|Hin].
      + apply Hm2. apply in_map_iff in Hin as [it [<- Hi]]. now apply Hg1.
      + apply in_map_iff in Hin as [d [<- Hi]]. now apply Hg2.
    - intros o Hn. rewrite Hfr2 by (intros Hin; apply Hn; now right).
      apply Hfr1. intros Hin. apply Hn. now left.
    - intros s Hs o Ho. apply in_app_or in Hs as [Hs|Hs].
      + left. eapply Hoid1; eauto.
      + right. eapply Hoid2; eauto.
  Qed.

  (* the store is sane: every object matches its name (what an integrity check leaves) *)
  Definition all_ok (w : world) : Prop := forall o f, obj w o = Some f -> named_ok o (f_bytes f).

  Theorem save_prefix_crash_inv t files dirs w n :
    inv w -> G w -> all_ok w -> files_ok files -> (forall d, In d dirs -> dir_ok files d) ->
    crash_inv (crash (run (firstn n (save_prog t files dirs w)) w)).
  Proof.
    intros Hinv HG Hall Hf Hds.
    destruct (save_prog_valid t files dirs w HG Hf Hds (fun o f _ Ho => Hall o f Ho)) as [Hv _].
    now apply valid_prefix_crash_inv.
  Qed.

  (* C15_recover for the re-run path through add(check_exists=True), restricted to crash points
     at which no reflink probe is pending *)
  Theorem save_recover_restricted t t' files dirs w0 n :
    inv w0 -> G w0 -> all_ok w0 -> files_ok files -> (forall d, In d dirs -> dir_ok files d) ->
    let p0 := save_prog t files dirs w0 in
    w_pend (run (firstn n p0) w0) = None ->
    let wc := crash (run (firstn n p0) w0) in
    let p1 := save_prog t' files dirs wc in
    valid_trace p1 wc = true /\
    (forall m, crash_inv (crash (run (firstn m p1) wc))) /\
    store_eq (run p1 wc) (run p0 w0) /\
    (forall o, save_req files dirs o -> good (run p1 wc) o).
  Proof.
    intros Hinv HG Hall Hf Hds p0 Hpend wc p1.
    destruct (save_prog_valid t files dirs w0 HG Hf Hds (fun o f _ Ho => Hall o f Ho))
      as [Hv0 [_ [Hg0 [Hfr0 Hoid0]]]].
    fold p0 in Hv0, Hg0, Hfr0, Hoid0.
    assert (Hinvc : inv wc).
    { apply inv_crash. apply (valid_prefix_inv bytes H kids empty kids_empty p0 w0 Hinv Hv0). }
    assert (HGc : G wc) by reflexivity.
    assert (Hallc : all_ok wc).
    { intros o f Ho. unfold wc in Ho. rewrite crash_obj in Ho.
      assert (Hon : ok_on bytes H (fun _ => True) w0) by (intros o' f' _ Ho'; left; now apply Hall).
      destruct (valid_prefix_ok_on bytes H kids empty (fun _ => True) p0 w0 Hon Hv0 n o f I Ho) as [Hn|Hp];
        [exact Hn | congruence]. }
    destruct (save_prog_valid t' files dirs wc HGc Hf Hds (fun o f _ Ho => Hallc o f Ho))
      as [Hv1 [_ [Hg1 [Hfr1 _]]]].
    fold p1 in Hv1, Hg1, Hfr1.
    split; [exact Hv1|]. split; [|split].
    - intros m. now apply valid_prefix_crash_inv.
    - intros o.
      assert (Hdec : save_req files dirs o \/ ~ save_req files dirs o).
      { unfold save_req. destruct (in_dec oid_dec o (map fst files)); [now left; left|].
        destruct (in_dec oid_dec o (map fst dirs)); [now left; right|]. right. intros [?|?]; contradiction. }
      destruct Hdec as [Hin|Hn].
      + apply good_unique; [now apply Hg1 | now apply Hg0].
      + rewrite Hfr1 by exact Hn. rewrite Hfr0 by exact Hn. unfold wc. rewrite crash_obj.
        apply obj_run_other. intros s Hs Ho. apply Hn. eapply Hoid0; [eapply firstn_In; exact Hs | exact Ho].
    - exact Hg1.
  Qed.
End R.
