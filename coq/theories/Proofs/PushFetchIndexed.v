(* C18, part 4: remotes with a real persistent index (tmp_dir).  One transfer keeps a sound
   destination index sound (status phase + the updates after a fully successful transfer); lifted to
   a push over independent groups: complete, and every index stays sound. *)
From Coq Require Import NArith List Bool Lia.
From DvcData Require Import Base.Val Model.Transfer Gen.StorageMap Model.PushFetch Proofs.TransferBase Proofs.TransferStatus Proofs.TransferLoop Proofs.TransferProofs Proofs.PushFetchResolve Proofs.PushFetchProofs.
Import ListNotations.
Open Scope N_scope.

Definition sound_for (s : store) (ix : rindex) : Prop := forall o, ix_has ix o = true -> has s o = true.

(* ---- the status phase ---- *)
Lemma status_ix_post_sound noop parse odb cache x sh req ex miss ix' :
  status_ix noop parse odb cache (Some x) sh req = inr (ex, miss, ix') ->
  closed parse odb -> agree parse cache odb -> sound_for odb x ->
  exists x2, ix' = Some x2 /\ sound_for odb x2.
Proof.
  unfold status_ix. destruct (Transfer.collect parse cache sh req) as [k|h0]; [discriminate|].
  set (rdirs := dedup (filter is_dir_oid req)).
  set (x1 := match rdirs with [] => x | _ :: _ => if forallb (has odb) (ix_dirs x) then x else [] end).
  destruct (indexed_loop noop parse cache (filter (has odb) rdirs) x1) as [k|[y x2]] eqn:EL; [discriminate|].
  intros H Hcl Hag Hx. inversion H; subst. exists x2. split; auto.
  assert (Hx1 : sound_for odb x1).
  { unfold x1. destruct rdirs; auto. destruct (forallb (has odb) (ix_dirs x)); auto. intros o' Ho. discriminate. }
  destruct (indexed_loop_sound noop parse cache odb Hcl Hag _ _ _ _ EL) as [_ B]; auto.
  intros d Hd. apply filter_In in Hd. destruct Hd as [Hd1 Hd2]. split; auto.
  unfold rdirs in Hd1. apply (proj1 (dedup_In _ _)) in Hd1. apply filter_In in Hd1. tauto.
Qed.

Lemma compare_status_dix_sound i x st dix six :
  t_dix i = Some x -> sound_for (t_dst i) x -> closed (t_parse i) (t_dst i) -> coherent i ->
  compare_status i = inr (st, dix, six) -> exists x2, dix = Some x2 /\ sound_for (t_dst i) x2.
Proof.
  intros Ex Hx Hcl [_ Hag]. unfold compare_status. rewrite Ex.
  destruct (status_ix (t_dnoop i) (t_parse i) (t_dst i) (status_cache i) (Some x) (t_shallow i) (t_req i))
    as [k|[[dex dmiss] dix']] eqn:ED; [discriminate|].
  destruct (status_ix_post_sound _ _ _ _ _ _ _ _ _ _ ED Hcl Hag Hx) as [x2 [-> Hs]].
  destruct dmiss.
  - intros H. inversion H; subst. eauto.
  - destruct (status_ix (t_snoop i) (t_parse i) (t_src i) (t_src i) (t_six i) (t_shallow i) (t_req i))
      as [k|[[sex smiss] six']]; [discriminate|]. intros H. inversion H; subst. eauto.
Qed.

(* ---- the events ---- *)
Lemma d_events_store i missing : forall dirs files failed e,
  In e (d_events (dir_loop i missing dirs files failed)) -> is_store_event e = true.
Proof.
  assert (HA : forall batch e, In e (add_events i batch) -> is_store_event e = true).
  { intros batch e H. unfold add_events in H. apply in_app_or in H. destruct H as [H|H];
      apply in_map_iff in H; destruct H as [x [<- _]]; auto. unfold attempt.
    destruct (upload_ok i x); auto. destruct (part_written i x); auto. }
  induction dirs as [|D r IH]; simpl; intros files failed e H; [contradiction|].
  destruct (find_tree i D) as [entries|]; simpl in H; [|contradiction].
  destruct (dir_step i missing D entries files failed) as [[[ev files'] failed'] succ] eqn:Est.
  simpl in H. apply in_app_or in H. destruct H as [H|H]; [|eauto].
  unfold dir_step in Est.
  destruct (add_failed i (filter (fun f => mem f entries) files) ++ filter (fun f => mem f failed) entries).
  - destruct (existsb (fun f => mem f missing) entries).
    + inversion Est; subst. eauto.
    + destruct (add_failed i [D]); inversion Est; subst; apply in_app_or in H; destruct H; eauto.
  - inversion Est; subst. eauto.
Qed.

(* the directories indexed after the transfer: requested ones, with the listing transfer found, none
   of whose files is missing on both sides *)
Lemma d_succ_spec i missing : forall dirs files failed D fs,
  In (D, fs) (d_succ (dir_loop i missing dirs files failed)) ->
  In D dirs /\ find_tree i D = Some fs /\ existsb (fun f => mem f missing) fs = false.
Proof.
  induction dirs as [|D0 r IH]; simpl; intros files failed D fs H; [contradiction|].
  destruct (find_tree i D0) as [entries|] eqn:HT; simpl in H; [|contradiction].
  destruct (dir_step i missing D0 entries files failed) as [[[ev files'] failed'] succ] eqn:Est.
  simpl in H. apply in_app_or in H. destruct H as [H|H].
  - destruct succ; [|destruct H]. destruct H as [E|[]]. inversion E; subst D0 entries.
    split; auto. split; auto. unfold dir_step in Est.
    destruct (add_failed i (filter (fun f => mem f fs) files) ++ filter (fun f => mem f failed) fs);
      [|inversion Est].
    destruct (existsb (fun f => mem f missing) fs) eqn:EM; auto. inversion Est.
  - destruct (IH _ _ _ _ H) as [A B]. auto.
Qed.

Lemma apply_events_store_dix evs : forall w,
  (forall e, In e evs -> is_store_event e = true) -> w_dix (apply_events evs w) = w_dix w.
Proof.
  induction evs as [|e r IH]; simpl; intros w H; auto.
  rewrite IH by (intros; apply H; auto).
  specialize (H e (or_introl eq_refl)). destruct e as [o ok|o pb|o|d fs|]; simpl in *; auto; discriminate.
Qed.
Lemma apply_events_app a b w : apply_events (a ++ b) w = apply_events b (apply_events a w).
Proof. revert w. induction a as [|e r IH]; simpl; auto. Qed.

Definition upd (ix : rindex) (p : oid * list oid) : rindex := ix_update (fst p) (snd p) ix.
Lemma apply_events_updates L : forall w,
  w_dix (apply_events (map (fun p => IndexUpdate (fst p) (snd p)) L) w) = option_map (fun ix => fold_left upd L ix) (w_dix w) /\
  w_dst (apply_events (map (fun p => IndexUpdate (fst p) (snd p)) L) w) = w_dst w.
Proof.
  induction L as [|p r IH]; intros w.
  - simpl. split; auto. destruct (w_dix w); auto.
  - cbn [map apply_events]. destruct (IH (step (IndexUpdate (fst p) (snd p)) w)) as [A B].
    rewrite A, B. split; [|reflexivity]. simpl. destruct (w_dix w); reflexivity.
Qed.
Lemma fold_upd_sound s L : forall ix, sound_for s ix ->
  (forall D fs, In (D, fs) L -> has s D = true /\ forall f, In f fs -> has s f = true) ->
  sound_for s (fold_left upd L ix).
Proof.
  induction L as [|[D fs] r IH]; simpl; intros ix Hs HL; auto.
  apply IH; [|intros; apply HL; auto].
  destruct (HL D fs (or_introl eq_refl)) as [HD Hfs].
  intros o Ho. unfold upd in Ho. simpl in Ho. apply ix_has_update in Ho. destruct Ho as [Ho|[->|Ho]]; auto.
Qed.

(* ---- one transfer: a sound destination index stays sound ---- *)
Theorem transfer_index_sound : forall i x tr fl,
  wf i -> t_dix i = Some x -> sound_for (t_dst i) x -> o_outcome (transfer i) = TOk tr fl ->
  exists x', w_dix (final_world i) = Some x' /\ sound_for (dst_after i) x'.
Proof.
  intros i x tr fl Hw Ex Hx HO.
  destruct (outcome_ok i tr fl HO) as [st [dix [six [EC [HS Hcase]]]]].
  pose proof (wf_wf11 i Hw) as Hw1.
  destruct (compare_status_dix_sound i x st dix six Ex Hx (wf_closed _ Hw) (wf_coh _ Hw) EC) as [x2 [-> Hx2]].
  assert (Hodix : o_dix (transfer i) = Some x2).
  { unfold transfer. rewrite EC. destruct (c_new st); auto.
    destruct (do_transfer i (o :: l) (c_missing st)) as [evs [f|]]; auto. }
  unfold final_world, dst_after, final_world.
  destruct Hcase as [[En [_ [_ Ee]]]|[En [Esnd [Etr Eev]]]].
  - rewrite Ee. simpl. exists x2. split; auto.
  - pose proof (transfer_DT True i st (Some x2) six Hw1 (wf_strict i Hw) EC) as HDT.
    assert (Hmono : forall o, has (t_dst i) o = true ->
              has (apply_dst (t_src i) (fst (do_transfer i (c_new st) (c_missing st))) (t_dst i)) o = true)
      by (apply (dt_d0 _ _ _ _ _ _ HDT)).
    pose proof (final_closed i Hw) as Hfc. rewrite dst_after_eq, Eev in Hfc.
    pose proof (compare_status_pre i st (Some x2) six (wf_flat _ Hw) (wf_coh _ Hw) (wf_closed _ Hw)
                  (wf_ix _ Hw) (wf_req _ Hw) EC) as [P1 P2 P3].
    rewrite Eev. rewrite apply_events_dst. unfold init_world at 2 3. simpl w_src. simpl w_dst.
    revert Esnd Hmono Hfc HDT. unfold do_transfer.
    set (r := dir_loop i (c_missing st) (t_dord i (filter is_dir_oid (c_new st))) (filter is_file_oid (c_new st)) []).
    destruct (d_ok r) eqn:Eok; simpl; [|discriminate].
    assert (Hst : forall e, In e (d_events r ++ add_events i (d_files r)) -> is_store_event e = true).
    { intros e He. apply in_app_or in He. destruct He as [He|He].
      - eapply d_events_store; eauto.
      - unfold add_events in He. apply in_app_or in He. destruct He as [He|He];
          apply in_map_iff in He; destruct He as [y [<- _]]; auto. unfold attempt.
        destruct (upload_ok i y); auto. destruct (part_written i y); auto. }
    destruct (add_failed i (d_files r) ++ d_failed r) as [|f0 fr] eqn:EF; simpl; intros Esnd Hmono Hfc HDT.
    + (* success: the index is updated with the pushed directories *)
      set (ups := if t_dnoop i then [] else map (fun p => IndexUpdate (fst p) (snd p)) (d_succ r)) in *.
      rewrite apply_events_app.
      set (w1 := apply_events (d_events r ++ add_events i (d_files r)) (init_world i)).
      assert (Hd1 : w_dix w1 = Some x2).
      { unfold w1. rewrite apply_events_store_dix; auto. }
      assert (Hfin : apply_dst (t_src i) ((d_events r ++ add_events i (d_files r)) ++ ups) (t_dst i)
                     = apply_dst (t_src i) (d_events r ++ add_events i (d_files r)) (t_dst i)).
      { rewrite apply_dst_app. apply apply_dst_nonstore. unfold ups. destruct (t_dnoop i); [intros e []|].
        intros e He. apply in_map_iff in He. destruct He as [p [<- _]]. reflexivity. }
      rewrite Hfin in *.
      set (dfin := apply_dst (t_src i) (d_events r ++ add_events i (d_files r)) (t_dst i)) in *.
      assert (Hx2f : sound_for dfin x2) by (intros o Ho; apply Hmono; auto).
      unfold ups. destruct (t_dnoop i).
      * simpl. exists x2. auto.
      * destruct (apply_events_updates (d_succ r) w1) as [A _]. rewrite A, Hd1. simpl.
        eexists. split; [reflexivity|]. apply fold_upd_sound; auto.
        intros D fs HDfs.
        destruct (d_succ_spec i _ _ _ _ D fs HDfs) as [HDin [HT HM]].
        apply (proj1 (wf_dord _ Hw _ _)) in HDin. apply filter_In in HDin. destruct HDin as [HDn HDd].
        assert (HhD : has dfin D = true).
        { destruct (dt_dirs _ _ _ _ _ _ HDT [] D fs eq_refl HDn HDd HT) as [[_ H]|[[H _]|[g [Hg1 Hg2]]]].
          - rewrite Hfin in H. exact H.
          - destruct H.
          - apply (existsb_false _ _ HM) in Hg1. apply mem_In in Hg2. congruence. }
        split; auto. intros f Hf. apply (Hfc D fs f); auto.
        unfold listing. rewrite HDd.
        apply has_lookup in HhD. destruct HhD as [b Hb]. rewrite Hb.
        destruct (apply_dst_origin _ _ _ _ _ Hb) as [H|[H|H]].
        -- exfalso. assert (has (t_dst i) D = true) by (apply has_lookup; eauto).
           rewrite (P1 D HDn) in H0. discriminate.
        -- (* the bytes are the source's: their listing is the one transfer found *)
           destruct (t_parse i b) as [l'|] eqn:Ep.
           ++ f_equal. apply (P3 D fs l' HT). unfold listing. now rewrite HDd, H.
           ++ exfalso. unfold find_tree in HT. destruct (wf_coh _ Hw) as [Hcs _].
              unfold status_cache in Hcs. destruct (t_cache i) as [c|].
              ** destruct (load_ok (t_parse i) c D) as [l1|] eqn:E1.
                 --- apply load_ok_some in E1. destruct E1 as [b1 [L1 Pb1]].
                     rewrite (Hcs D b1 b L1 H) in Pb1. congruence.
                 --- apply load_ok_some in HT. destruct HT as [b1 [L1 Pb1]]. congruence.
              ** apply load_ok_some in HT. destruct HT as [b1 [L1 Pb1]]. congruence.
        -- exfalso. assert (Hp : part_written i D = true).
           { apply (do_transfer_part_written i (c_new st) (c_missing st) D b (wf_bord _ Hw)).
             unfold do_transfer. fold r. rewrite Eok, EF. simpl. apply in_or_app. auto. }
           destruct (dt_dirs _ _ _ _ _ _ HDT [] D fs eq_refl HDn HDd HT) as [[Hdl _]|[[[] _]|[g [Hg1 Hg2]]]].
           ++ unfold delivered, upload_ok in Hdl. unfold part_written in Hp.
              destruct (t_fails i D); simpl in *; discriminate.
           ++ apply (existsb_false _ _ HM) in Hg1. apply mem_In in Hg2. congruence.
    + (* failures: the destination index is left as the status phase left it *)
      rewrite apply_events_app. simpl.
      assert (Hfin : apply_dst (t_src i) ((d_events r ++ add_events i (d_files r)) ++ [SrcIndexClear]) (t_dst i)
                     = apply_dst (t_src i) (d_events r ++ add_events i (d_files r)) (t_dst i)).
      { rewrite apply_dst_app. reflexivity. }
      rewrite Hfin in *.
      exists x2. split.
      * rewrite apply_events_store_dix; auto.
      * intros o Ho. apply Hmono; auto.
Qed.

(* ====================================================================================== *)
(* push over independent groups, remotes with and without a real index *)

Definition gix (e : env) (w : stores) (x : ixmap) (g : group) : t_in := group_in_ix e RPush w x g (gc g).

Lemma gix_ext e w w' x x' g :
  sget w' (gc g) = sget w (gc g) -> sget w' (g_data g) = sget w (g_data g) ->
  iget x' (g_data g) = iget x (g_data g) -> gix e w' x' g = gix e w x g.
Proof. unfold gix, group_in_ix, group_in. intros -> -> ->. reflexivity. Qed.
Lemma gix_src e w x g : t_src (gix e w x g) = sget w (gc g).
Proof. unfold gix, group_in_ix. destruct (iget x (g_data g)); reflexivity. Qed.
Lemma gix_dst e w x g : t_dst (gix e w x g) = sget w (g_data g).
Proof. unfold gix, group_in_ix. destruct (iget x (g_data g)); reflexivity. Qed.
Lemma gix_req e w x g : t_req (gix e w x g) = g_req g.
Proof. unfold gix, group_in_ix. destruct (iget x (g_data g)); reflexivity. Qed.
Lemma gix_shallow e w x g : t_shallow (gix e w x g) = true.
Proof. unfold gix, group_in_ix. destruct (iget x (g_data g)); reflexivity. Qed.
Lemma gix_verify e w x g : t_verify (gix e w x g) = false.
Proof. unfold gix, group_in_ix. destruct (iget x (g_data g)); reflexivity. Qed.
Lemma gix_parse e w x g : t_parse (gix e w x g) = e_parse e.
Proof. unfold gix, group_in_ix. destruct (iget x (g_data g)); reflexivity. Qed.
Lemma gix_fails e w x g : t_fails (gix e w x g) = e_fails e (g_data g).
Proof. unfold gix, group_in_ix. destruct (iget x (g_data g)); reflexivity. Qed.
Lemma gix_dix e w x g ix : iget x (g_data g) = Some ix -> t_dix (gix e w x g) = Some ix.
Proof. unfold gix, group_in_ix. intros ->. reflexivity. Qed.

(* the index of a remote after its group's transfer *)
Definition ixres (old W : option rindex) : option rindex :=
  match old with
  | None => None
  | Some o => match W with Some ix' => Some ix' | None => Some o end
  end.
Lemma iget_ix_after_self x g i :
  iget (ix_after RPush x g i) (g_data g) = ixres (iget x (g_data g)) (w_dix (final_world i)).
Proof.
  unfold ix_after, ixres. destruct (iget x (g_data g)) as [o|] eqn:E; auto.
  destruct (w_dix (final_world i)); auto. simpl. now rewrite N.eqb_refl.
Qed.
Lemma iget_ix_after_other x g i s : s <> g_data g -> iget (ix_after RPush x g i) s = iget x s.
Proof.
  intros Hs. unfold ix_after. destruct (iget x (g_data g)); auto.
  destruct (w_dix (final_world i)); auto. simpl.
  destruct (N.eqb (g_data g) s) eqn:E; auto. apply N.eqb_eq in E. congruence.
Qed.

Lemma run_indep_ix e : forall gs w x a b out x',
  indep RPush gs -> run_groups_ix e RPush gs w x a b = (out, x') -> p_err out = None ->
  (forall g, In g gs ->
     sget (p_w out) (g_data g) = dst_after (gix e w x g) /\
     iget x' (g_data g) = ixres (iget x (g_data g)) (w_dix (final_world (gix e w x g))) /\
     exists tr fl, o_outcome (transfer (gix e w x g)) = TOk tr fl) /\
  (forall s, (forall g, In g gs -> g_data g <> s) -> sget (p_w out) s = sget w s /\ iget x' s = iget x s).
Proof.
  induction gs as [|g r IH]; simpl; intros w x a b out x' HI HR HE.
  - inversion HR; subst. simpl. split; [intros g []|auto].
  - pose proof (indep_tail _ _ _ HI) as HIr. destruct HI as [A [B C]].
    assert (Hc : g_cache g <> None) by (apply A; now left).
    destruct (g_cache g) as [c|] eqn:Ec; [|congruence].
    assert (Egc : gc g = c) by (unfold gc; now rewrite Ec).
    assert (Hne : N.eqb c (g_data g) = false).
    { apply N.eqb_neq. intros E. apply (C g g (or_introl eq_refl) (or_introl eq_refl)).
      unfold gsrc, gd, group_dst. rewrite Egc. congruence. }
    rewrite Hne in HR.
    assert (Hgi : group_in_ix e RPush w x g c = gix e w x g) by (unfold gix; now rewrite Egc).
    rewrite Hgi in HR.
    destruct (o_outcome (transfer (gix e w x g))) as [kd|tr fl] eqn:EO;
      [inversion HR; subst out; discriminate|].
    simpl in B. apply NoDup_cons_iff in B. destruct B as [Bn Br].
    simpl group_dst in HR. fold (dst_after (gix e w x g)) in HR.
    set (i := gix e w x g) in *.
    set (w1 := sset w (g_data g) (dst_after i)) in *. set (x1 := ix_after RPush x g i) in *.
    destruct (IH w1 x1 _ _ out x' HIr HR HE) as [I1 I2].
    assert (Hr : forall g', In g' r -> g_data g' <> g_data g).
    { intros g' Hg' E. apply Bn. unfold gd, group_dst. rewrite <- E.
      change (g_data g') with (gd RPush g'). now apply in_map. }
    assert (Hw1 : forall s, s <> g_data g -> sget w1 s = sget w s).
    { intros s Hs. unfold w1. rewrite sget_sset. destruct (N.eqb (g_data g) s) eqn:E; auto.
      apply N.eqb_eq in E. congruence. }
    split.
    + intros g' [<-|Hg'].
      * destruct (I2 (g_data g)) as [J1 J2]; [intros g' Hg'; now apply Hr|].
        split; [|split].
        -- rewrite J1. unfold w1. now rewrite sget_sset, N.eqb_refl.
        -- rewrite J2. unfold x1. apply iget_ix_after_self.
        -- eauto.
      * assert (EG : gix e w1 x1 g' = gix e w x g').
        { apply gix_ext.
          - apply Hw1. intros E. apply (C g' g); [now right|now left|]. unfold gsrc, gd, group_dst. auto.
          - apply Hw1. now apply Hr.
          - unfold x1. apply iget_ix_after_other. now apply Hr. }
        destruct (I1 g' Hg') as [K1 [K2 K3]]. rewrite EG in *.
        split; auto. split; auto. rewrite K2. f_equal. unfold x1. apply iget_ix_after_other. now apply Hr.
    + intros s Hs. destruct (I2 s) as [J1 J2]; [intros g' Hg'; apply Hs; now right|].
      assert (s <> g_data g) by (intros E; apply (Hs g); auto).
      split.
      * rewrite J1. now apply Hw1.
      * rewrite J2. unfold x1. now apply iget_ix_after_other.
Qed.

(* C18_push_indexed: fault-free push, every remote either without an index or with a SOUND one
   (an index is sound when it only names objects the remote holds; an empty one is): every
   designated object is in its remote afterwards, and every index is sound for the new contents *)
Theorem push_indexed : forall e m idx w x out x',
  NoDup (map fst m) ->
  run_round_ix e RPush m idx w x = (out, x') -> p_err out = None ->
  indep RPush (collect m idx) ->
  (forall g, In g (collect m idx) -> wf (gix e w x g)) ->
  (forall g ix, In g (collect m idx) -> iget x (g_data g) = Some ix -> sound_for (sget w (g_data g)) ix) ->
  (forall s o, e_fails e s o = false) ->
  (forall g o, In g (collect m idx) -> In o (g_req g) -> has (sget w (gc g)) o = true) ->
  (forall g D b, In g (collect m idx) -> is_dir_oid D = true ->
                 lookup D (sget w (gc g)) = Some b -> e_parse e b <> None) ->
  (forall r o, In o (designated m idx r) -> has (sget (p_w out) r) o = true) /\
  (forall g ix', In g (collect m idx) -> iget x' (g_data g) = Some ix' ->
                 sound_for (sget (p_w out) (g_data g)) ix').
Proof.
  intros e m idx w x out x' Hn Hrun Herr Hind Hwf Hsound Hnf Hsrc Hparse.
  destruct (run_indep_ix e (collect m idx) w x 0 0 out x' Hind Hrun Herr) as [R _].
  split.
  - intros r o Ho. destruct (designated_in_group m idx r o Hn Ho) as [g [Hg [Hd Hreq]]]. subst r.
    destruct (R g Hg) as [E [_ [tr [fl HO]]]]. rewrite E.
    apply (g_complete (gix e w x g) tr fl (Hwf g Hg) (gix_shallow e w x g) (gix_verify e w x g) HO).
    + intros y. rewrite gix_fails. apply Hnf.
    + intros y Hy. rewrite gix_src. rewrite gix_req in Hy. auto.
    + intros D b HD HL. rewrite gix_parse. rewrite gix_src in HL. eauto.
    + now rewrite gix_req.
  - intros g ix' Hg Hx'. destruct (R g Hg) as [E [Ei [tr [fl HO]]]]. rewrite E.
    rewrite Ei in Hx'. destruct (iget x (g_data g)) as [ix0|] eqn:E0; [|discriminate].
    destruct (transfer_index_sound (gix e w x g) ix0 tr fl (Hwf g Hg) (gix_dix e w x g ix0 E0)) as [x2 [W S]]; auto.
    + rewrite gix_dst. eauto.
    + rewrite W in Hx'. simpl in Hx'. inversion Hx'; subst. exact S.
Qed.

(* an empty index is sound, and with it (and a closed remote ...) [wf] asks nothing about the index *)
Lemma sound_for_nil s : sound_for s [].
Proof. intros o H. discriminate. Qed.
