(* Proofs for C20, part 2: whole indexes through the "/"-joined containers (JSON file, key-value db) and
   through the SQLite-backed trie (identity cache in front of JSON rows; commit / close / reopen). *)
From Coq Require Import NArith List Bool Lia.
From DvcData Require Import Base.Val Base.PyBase Gen.PyTypes Gen.SerDict Model.Serialize Proofs.SerializeProofs.
Import ListNotations.
Open Scope N_scope.

(* ---------------------------------------------------------------------------------------------- *)
(* association lists with a decidable key equality *)

Section Assoc.
  Context {K : Type} (eqb : K -> K -> bool) (eqb_spec : forall a b, eqb a b = true <-> a = b).

  Lemma aset_fresh {V} (k : K) (v : V) d : ~ In k (map fst d) -> aset eqb k v d = d ++ [(k, v)].
  Proof.
    induction d as [|[k0 v0] r IH]; simpl; intros H.
    - reflexivity.
    - destruct (eqb k k0) eqn:E.
      + apply eqb_spec in E. subst. exfalso. apply H. now left.
      + rewrite IH; [reflexivity|]. intros HI. apply H. now right.
  Qed.

  Lemma In_aset_keys {V} x (k : K) (v : V) d : In x (map fst (aset eqb k v d)) -> x = k \/ In x (map fst d).
  Proof.
    induction d as [|[k0 v0] r IH]; simpl.
    - intros [H|[]]. now left.
    - destruct (eqb k k0) eqn:E; simpl.
      + apply eqb_spec in E. subst. intros [H|H]; [right; now left | right; now right].
      + intros [H|H]; [right; now left|]. destruct (IH H) as [H1|H1]; [now left | right; now right].
  Qed.

  Lemma aset_keys_nodup {V} (k : K) (v : V) d : NoDup (map fst d) -> NoDup (map fst (aset eqb k v d)).
  Proof.
    induction d as [|[k0 v0] r IH]; simpl; intros H.
    - constructor; [intros []|constructor].
    - inversion H as [|? ? Hn Hr]; subst.
      destruct (eqb k k0) eqn:E; simpl.
      + apply eqb_spec in E. subst. now constructor.
      + constructor; [|now apply IH].
        intros HI. apply In_aset_keys in HI as [HI|HI]; [|contradiction].
        subst. assert (eqb k k = true) by now apply eqb_spec. congruence.
  Qed.

  Lemma aset_map {V W} (f : V -> W) (k : K) v (d : list (K * V)) :
    aset eqb k (f v) (map (fun kv => (fst kv, f (snd kv))) d) = map (fun kv => (fst kv, f (snd kv))) (aset eqb k v d).
  Proof.
    induction d as [|[k0 v0] r IH]; simpl.
    - reflexivity.
    - destruct (eqb k k0); simpl; [reflexivity|]. now rewrite IH.
  Qed.

  Lemma In_adel_keys {V} x (k : K) (d : list (K * V)) : In x (map fst (adel eqb k d)) -> In x (map fst d).
  Proof.
    induction d as [|[k0 v0] r IH]; simpl; [tauto|].
    destruct (eqb k k0); simpl; [now right|]. intros [H|H]; [now left | right; now apply IH].
  Qed.

  Lemma adel_keys_nodup {V} (k : K) (d : list (K * V)) : NoDup (map fst d) -> NoDup (map fst (adel eqb k d)).
  Proof.
    induction d as [|[k0 v0] r IH]; simpl; intros H; [constructor|].
    inversion H as [|? ? Hn Hr]; subst.
    destruct (eqb k k0); simpl; [exact Hr|].
    constructor; [|now apply IH]. intros HI. apply Hn. now apply In_adel_keys in HI.
  Qed.

  Lemma adel_map {V W} (f : V -> W) (k : K) (d : list (K * V)) :
    adel eqb k (map (fun kv => (fst kv, f (snd kv))) d) = map (fun kv => (fst kv, f (snd kv))) (adel eqb k d).
  Proof.
    induction d as [|[k0 v0] r IH]; simpl; [reflexivity|].
    destruct (eqb k k0); simpl; [reflexivity|]. now rewrite IH.
  Qed.

  Lemma eqb_refl' k : eqb k k = true.
  Proof. now apply eqb_spec. Qed.

  Lemma aget_not_in {V} (k : K) (d : list (K * V)) : ~ In k (map fst d) -> aget eqb k d = None.
  Proof.
    induction d as [|[k0 v0] r IH]; simpl; intros H; [reflexivity|].
    destruct (eqb k k0) eqn:E.
    - apply eqb_spec in E. subst. exfalso. apply H. now left.
    - apply IH. intros HI. apply H. now right.
  Qed.

  Lemma aget_aset {V} (k k' : K) (v : V) d :
    aget eqb k (aset eqb k' v d) = if eqb k k' then Some v else aget eqb k d.
  Proof.
    induction d as [|[k0 v0] r IH]; simpl.
    - reflexivity.
    - destruct (eqb k' k0) eqn:E; simpl.
      + apply eqb_spec in E. subst k0. destruct (eqb k k'); reflexivity.
      + rewrite IH. destruct (eqb k k0) eqn:E0; [|reflexivity].
        apply eqb_spec in E0. subst k0. destruct (eqb k k') eqn:E1; [|reflexivity].
        apply eqb_spec in E1. subst k'. rewrite eqb_refl' in E. discriminate.
  Qed.

  Lemma aget_adel {V} (k k' : K) (d : list (K * V)) :
    NoDup (map fst d) -> aget eqb k (adel eqb k' d) = if eqb k k' then None else aget eqb k d.
  Proof.
    induction d as [|[k0 v0] r IH]; simpl; intros Hn.
    - now destruct (eqb k k').
    - inversion Hn as [|? ? Hx Hr]; subst.
      destruct (eqb k' k0) eqn:E; simpl.
      + apply eqb_spec in E. subst k0.
        destruct (eqb k k') eqn:E1; [|reflexivity].
        apply eqb_spec in E1. subst k'. now apply aget_not_in.
      + rewrite (IH Hr). destruct (eqb k k0) eqn:E0; [|reflexivity].
        apply eqb_spec in E0. subst k0. destruct (eqb k k') eqn:E1; [|reflexivity].
        apply eqb_spec in E1. subst k'. rewrite eqb_refl' in E. discriminate.
  Qed.

  Lemma aget_in_iff {V} (k : K) (d : list (K * V)) : In k (map fst d) <-> aget eqb k d <> None.
  Proof.
    induction d as [|[k0 v0] r IH]; simpl.
    - split; [intros [] | intros H; now apply H].
    - destruct (eqb k k0) eqn:E.
      + apply eqb_spec in E. subst. split; [discriminate | now left].
      + split.
        * intros [H|H]; [subst; rewrite eqb_refl' in E; discriminate | now apply IH].
        * intros H. right. now apply IH.
  Qed.

  (* reading a container whose items all parse, into distinct keys: the items in order *)
  Lemma collect_ok {V A} (f : A -> res (K * V)) (h : A -> K * V) l acc :
    (forall a, In a l -> f a = Ok (h a)) ->
    NoDup (map fst (acc ++ map h l)) ->
    collect eqb f l acc = Ok (acc ++ map h l).
  Proof.
    revert acc. induction l as [|a r IH]; intros acc Hf Hn; simpl.
    - now rewrite app_nil_r.
    - rewrite (Hf a (or_introl eq_refl)). destruct (h a) as [k v] eqn:Eh.
      rewrite aset_fresh.
      + replace (acc ++ (k, v) :: map h r) with ((acc ++ [(k, v)]) ++ map h r) by now rewrite <- app_assoc.
        apply IH.
        * intros a' Ha'. apply Hf. now right.
        * rewrite <- app_assoc. simpl. simpl in Hn. rewrite Eh in Hn. exact Hn.
      + simpl in Hn. rewrite Eh in Hn. rewrite map_app in Hn. simpl in Hn.
        apply NoDup_remove_2 in Hn. intros HI. apply Hn. apply in_or_app. now left.
  Qed.

  Lemma collect_map {V A B} (f : B -> res (K * V)) (g : A -> B) l acc :
    collect eqb f (map g l) acc = collect eqb (fun a => f (g a)) l acc.
  Proof.
    revert acc. induction l as [|a r IH]; intros acc; simpl; [reflexivity|].
    destruct (f (g a)) as [[k v]|c]; [apply IH|reflexivity].
  Qed.
End Assoc.

Lemma NoDup_map_inj_in {A B} (f : A -> B) l :
  (forall a b, In a l -> In b l -> f a = f b -> a = b) -> NoDup l -> NoDup (map f l).
Proof.
  induction l as [|x r IH]; simpl; intros Hinj Hn.
  - constructor.
  - inversion Hn as [|? ? Hx Hr]; subst. constructor.
    + intros HI. apply in_map_iff in HI as [y [Ey Hy]].
      assert (y = x) by (apply Hinj; [now right | now left | exact Ey]). subst. contradiction.
    + apply IH; [|exact Hr]. intros a b Ha Hb. apply Hinj; now right.
Qed.

Lemma dict_get_None (d : pydict) k : ~ In k (map fst d) -> dict_get d k = None.
Proof.
  induction d as [|[k0 v0] r IH]; simpl; intros H.
  - reflexivity.
  - destruct (list_N_eqb k k0) eqn:E.
    + apply list_N_eqb_spec in E. subst. exfalso. apply H. now left.
    + apply IH. intros HI. apply H. now right.
Qed.

(* ---------------------------------------------------------------------------------------------- *)
(* JSON file / key-value db: "/".join(key) -> entry.to_dict() *)

Definition joined_item (ke : key * ientry) : text * pyv :=
  (join (fst ke), PVDict (DataIndexEntry_to_dict (snd ke))).

(* what is read back under a key: the entry's round trip, carrying its key *)
Definition item_rt (ke : key * ientry) : key * ientry :=
  (fst ke, with_key (entry_rt (snd ke)) (fst ke)).

Definition keys_joinable (idx : index) : Prop := Forall (fun ke => key_joinable (fst ke) = true) idx.

Lemma write_joined_acc idx acc :
  NoDup (map fst acc ++ map (fun ke => join (fst ke)) idx) ->
  fold_left (fun d ke => dict_set d (join (fst ke)) (PVDict (DataIndexEntry_to_dict (snd ke)))) idx acc
  = acc ++ map joined_item idx.
Proof.
  revert acc. induction idx as [|ke r IH]; intros acc Hn; simpl.
  - now rewrite app_nil_r.
  - rewrite dict_set_fresh.
    + rewrite IH.
      * now rewrite <- app_assoc.
      * rewrite map_app. simpl. rewrite <- app_assoc. exact Hn.
    + apply dict_get_None. simpl in Hn. apply NoDup_remove_2 in Hn.
      intros HI. apply Hn. apply in_or_app. now left.
Qed.

Lemma joined_keys_nodup idx :
  NoDup (map fst idx) -> keys_joinable idx -> NoDup (map (fun ke => join (fst ke)) idx).
Proof.
  intros Hn Hj. rewrite <- (map_map fst join).
  apply NoDup_map_inj_in; [|exact Hn].
  intros a b Ha Hb E. unfold keys_joinable in Hj. rewrite Forall_forall in Hj.
  apply in_map_iff in Ha as [ka [<- Hka]]. apply in_map_iff in Hb as [kb [<- Hkb]].
  apply join_inj; [now apply Hj | now apply Hj | exact E].
Qed.

(* the container: one item per entry, in iteration order, under the joined key *)
Theorem write_joined_items idx :
  NoDup (map fst idx) -> keys_joinable idx -> write_joined idx = map joined_item idx.
Proof.
  intros Hn Hj. unfold write_joined. rewrite write_joined_acc; [reflexivity|].
  simpl. now apply joined_keys_nodup.
Qed.

Lemma read_item_joined ke :
  key_joinable (fst ke) = true -> read_item (joined_item ke) = Ok (item_rt ke).
Proof.
  intros Hj. unfold read_item, joined_item, item_rt. cbn [fst snd].
  rewrite entry_from_to. cbn [bind]. now rewrite (split_join _ Hj).
Qed.

Lemma map_fst_item_rt idx : map fst (map item_rt idx) = map fst idx.
Proof. rewrite map_map. reflexivity. Qed.

(* C20_index_json / C20_index_db (both forms are [write_joined] / [read_joined]) *)
Theorem joined_roundtrip idx :
  NoDup (map fst idx) -> keys_joinable idx ->
  read_joined (write_joined idx) = Ok (map item_rt idx).
Proof.
  intros Hn Hj. rewrite (write_joined_items idx Hn Hj). unfold read_joined.
  rewrite collect_map.
  rewrite (collect_ok key_eqb key_eqb_spec (fun a => read_item (joined_item a)) item_rt idx []).
  - reflexivity.
  - intros a Ha. apply read_item_joined. unfold keys_joinable in Hj. rewrite Forall_forall in Hj. now apply Hj.
  - simpl. now rewrite map_fst_item_rt.
Qed.

(* keys and projections preserved; every entry read back carries its key *)
Definition same_entries (idx idx' : index) : Prop :=
  map fst idx' = map fst idx /\
  Forall2 (fun ke ke' => fst ke' = fst ke /\ proj (snd ke') = proj (snd ke) /\ e_key (snd ke') = Some (fst ke))
          idx idx'.

Lemma same_entries_item_rt idx : same_entries idx (map item_rt idx).
Proof.
  split; [apply map_fst_item_rt|].
  induction idx as [|ke r IH]; simpl; constructor; [|exact IH].
  unfold item_rt. cbn [fst snd]. split; [reflexivity|]. split; [|reflexivity].
  unfold with_key, proj. cbn [e_meta e_hash_info e_loaded]. apply proj_entry_rt.
Qed.

Theorem joined_roundtrip_same idx :
  NoDup (map fst idx) -> keys_joinable idx ->
  exists idx', read_joined (write_joined idx) = Ok idx' /\ same_entries idx idx'.
Proof.
  intros Hn Hj. exists (map item_rt idx). split; [now apply joined_roundtrip | apply same_entries_item_rt].
Qed.

Lemma key_wf_keys_joinable idx : Forall (fun ke => key_wf (fst ke) = true) idx -> keys_joinable idx.
Proof. unfold keys_joinable. apply Forall_impl. intros a. apply key_wf_joinable. Qed.

Example joined_nontrivial :
  let e1 := mk_ientry (Some [[97]; [98]]) (Some (mk_meta false (Some 0) None true None None None None None None None
                                                         false None 1))
                      (Some (mk_hashinfo (Some k_md5) (Some [100;46;100;105;114]) None)) (Some true) in
  let e2 := mk_ientry None None None None in
  let idx := [([[97]; [98]], e1); ([[252]], e2)] in
  NoDup (map fst idx) /\ keys_joinable idx /\
  write_joined idx = [([97;47;98], PVDict [(k_meta, PVDict [(k_size, PVInt 0); (k_isexec, PVBool true)]);
                                            (k_hash_info, PVDict [(k_md5, PVStr [100;46;100;105;114])]);
                                            (k_loaded, PVBool true)]);
                      ([252], PVDict [(k_loaded, PVNone)])].
Proof.
  cbv zeta. split; [|split].
  - constructor; [intros [H|[]]; discriminate|]. constructor; [intros []|constructor].
  - repeat constructor.
  - reflexivity.
Qed.

(* the hypothesis on keys is needed: a part containing "/" comes back split *)
Example joined_needs_slash_free :
  read_joined (write_joined [([[97;47;98]], mk_ientry None None None None)])
  = Ok [([[97]; [98]], mk_ientry (Some [[97]; [98]]) None None None)].
Proof. reflexivity. Qed.

(* ---------------------------------------------------------------------------------------------- *)
(* the SQLite-backed index *)

(* the mapping a history of operations has written: last write per key wins, first insertion fixes the order *)
Definition sq_sets (acc : index) (ops : list sq_op) : index :=
  fold_left (fun a op => match op with
                         | SqSet k e => aset key_eqb k e a
                         | SqDel k => adel key_eqb k a
                         | _ => a
                         end) ops acc.

(* the same, key by key: the LAST write or removal of a key decides *)
Definition sq_last (k : key) (ops : list sq_op) (cur : option ientry) : option ientry :=
  fold_left (fun c op => match op with
                         | SqSet k' e => if key_eqb k k' then Some e else c
                         | SqDel k' => if key_eqb k k' then None else c
                         | _ => c
                         end) ops cur.

Definition row_of (ke : key * ientry) : key * pydict := (fst ke, DataIndexEntry_to_dict (snd ke)).

Lemma sq_rows_run ops s acc :
  sq_rows s = map row_of acc -> sq_rows (sq_run ops s) = map row_of (sq_sets acc ops).
Proof.
  revert s acc. induction ops as [|op r IH]; intros s acc H; simpl.
  - exact H.
  - apply IH. destruct op as [k e|k| |]; simpl; try exact H.
    + rewrite H. unfold row_of.
      exact (aset_map key_eqb DataIndexEntry_to_dict k e acc).
    + rewrite H. unfold row_of.
      exact (adel_map key_eqb DataIndexEntry_to_dict k acc).
Qed.

Lemma sq_sets_nodup ops acc : NoDup (map fst acc) -> NoDup (map fst (sq_sets acc ops)).
Proof.
  revert acc. induction ops as [|op r IH]; intros acc H; simpl; [exact H|].
  apply IH. destruct op; try exact H.
  - now apply (aset_keys_nodup key_eqb key_eqb_spec).
  - now apply (adel_keys_nodup key_eqb).
Qed.

Theorem sq_sets_last ops : forall acc k,
  NoDup (map fst acc) -> aget key_eqb k (sq_sets acc ops) = sq_last k ops (aget key_eqb k acc).
Proof.
  induction ops as [|op r IH]; intros acc k Hn; simpl; [reflexivity|].
  destruct op as [k' e|k'| |]; simpl.
  - rewrite IH; [|now apply (aset_keys_nodup key_eqb key_eqb_spec)].
    now rewrite (aget_aset key_eqb key_eqb_spec).
  - rewrite IH; [|now apply (adel_keys_nodup key_eqb)].
    now rewrite (aget_adel key_eqb key_eqb_spec).
  - now apply IH.
  - now apply IH.
Qed.

(* a key is listed after the final commit + close + reopen iff its last operation was a write *)
Theorem sq_sets_keys ops k :
  In k (map fst (sq_sets [] ops)) <-> sq_last k ops None <> None.
Proof.
  rewrite (aget_in_iff key_eqb key_eqb_spec). rewrite sq_sets_last; [reflexivity|constructor].
Qed.

Lemma sq_load_fresh s ke :
  sq_cache s = [] -> sq_load s (row_of ke) = Ok (item_rt ke).
Proof.
  intros Hc. unfold sq_load, row_of. cbn [fst snd]. rewrite Hc. cbn [aget].
  rewrite entry_from_to. reflexivity.
Qed.

(* C20_index_sqlite, general form: after ANY history of writes, commits and clean close/reopen cycles, a
   commit + close + reopen shows exactly the last-written entries, each through its dictionary round trip.
   The root key () is a key like any other. *)
Theorem sqlite_roundtrip_ops ops :
  sq_unspec (sq_run ops sq_empty) = false ->
  sq_items (sq_step (sq_step (sq_run ops sq_empty) SqCommit) SqReopen) = Ok (map item_rt (sq_sets [] ops)).
Proof.
  intros Hu. set (s := sq_run ops sq_empty) in *.
  unfold sq_items. cbn [sq_step sq_unspec sq_rows sq_cache sq_dirty]. rewrite Hu. cbn [orb].
  assert (Hr : sq_rows s = map row_of (sq_sets [] ops)) by (apply sq_rows_run; reflexivity).
  rewrite Hr. rewrite collect_map.
  rewrite (collect_ok key_eqb key_eqb_spec _ item_rt (sq_sets [] ops) []).
  - reflexivity.
  - intros a _. now apply sq_load_fresh.
  - simpl. rewrite map_fst_item_rt. apply sq_sets_nodup. constructor.
Qed.

Lemma sq_run_app a b s : sq_run (a ++ b) s = sq_run b (sq_run a s).
Proof. unfold sq_run. apply fold_left_app. Qed.

Definition set_op (ke : key * ientry) : sq_op := SqSet (fst ke) (snd ke).

Lemma sq_unspec_sets idx s : sq_unspec (sq_run (map set_op idx) s) = sq_unspec s.
Proof.
  revert s. induction idx as [|ke r IH]; intros s; simpl; [reflexivity|]. now rewrite IH.
Qed.

Lemma sq_sets_fresh idx acc :
  NoDup (map fst (acc ++ idx)) -> sq_sets acc (map set_op idx) = acc ++ idx.
Proof.
  revert acc. induction idx as [|[k e] r IH]; intros acc H; simpl.
  - now rewrite app_nil_r.
  - rewrite (aset_fresh key_eqb key_eqb_spec).
    + rewrite IH; [now rewrite <- app_assoc|]. rewrite <- app_assoc. exact H.
    + rewrite map_app in H. simpl in H. apply NoDup_remove_2 in H.
      intros HI. apply H. apply in_or_app. now left.
Qed.

(* C20_index_sqlite for one index written from scratch (keys distinct; NO condition on the parts) *)
Theorem sqlite_roundtrip idx :
  NoDup (map fst idx) -> read_sqlite (write_sqlite idx) = Ok (map item_rt idx).
Proof.
  intros Hn. unfold read_sqlite, write_sqlite.
  change (map (fun ke => SqSet (fst ke) (snd ke)) idx) with (map set_op idx).
  rewrite sq_run_app. cbn [sq_run fold_left].
  fold (sq_run (map set_op idx) sq_empty).
  rewrite sqlite_roundtrip_ops.
  - now rewrite sq_sets_fresh.
  - now rewrite sq_unspec_sets.
Qed.

Theorem sqlite_roundtrip_same idx :
  NoDup (map fst idx) ->
  exists idx', read_sqlite (write_sqlite idx) = Ok idx' /\ same_entries idx idx'.
Proof.
  intros Hn. exists (map item_rt idx). split; [now apply sqlite_roundtrip | apply same_entries_item_rt].
Qed.

(* before the close, the identity cache answers: the very entries that were put *)
Lemma sq_cache_run_sets idx s :
  sq_cache (sq_run (map set_op idx) s)
  = fold_left (fun c ke => aset key_eqb (fst ke) (snd ke) (adel key_eqb (fst ke) c)) idx (sq_cache s).
Proof.
  revert s. induction idx as [|ke r IH]; intros s; simpl; [reflexivity|]. now rewrite IH.
Qed.

Example sqlite_nontrivial :
  let e1 := mk_ientry None (Some (mk_meta true None (Some 2) false None None None None None None None false None 1))
                      (Some (mk_hashinfo (Some k_md5) (Some [100;46;100;105;114]) None)) None in
  let e2 := mk_ientry (Some [[120]]) None None (Some false) in
  let ops := [SqSet [] e1; SqSet [[97;47;98]; []] e2; SqSet [[100]] e1; SqCommit; SqReopen; SqSet [] e2; SqDel [[100]]] in
  sq_unspec (sq_run ops sq_empty) = false /\
  sq_sets [] ops = [([], e2); ([[97;47;98]; []], e2)] /\
  sq_last [[100]] ops None = None /\ sq_last [] ops None = Some e2 /\
  sq_items (sq_step (sq_step (sq_run ops sq_empty) SqCommit) SqReopen)
  = Ok [([], mk_ientry (Some []) None None (Some false));
        ([[97;47;98]; []], mk_ientry (Some [[97;47;98]; []]) None None (Some false))].
Proof. cbv zeta. repeat split; reflexivity. Qed.
