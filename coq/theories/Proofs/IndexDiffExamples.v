(* C08: the hypotheses of the theorems are satisfiable by a concrete, non-trivial pair of indexes
   (non-vacuity), and the theorems say something non-trivial about it. *)
From Coq Require Import NArith List Bool Arith Lia Permutation.
From DvcData Require Import Base.Val Base.PyBase Gen.PyTypes Gen.IDiff Model.Trie Model.IndexDiff Proofs.IndexDiffProofsBase Proofs.IndexDiffBfs Proofs.IndexDiffRefine Proofs.IndexDiffRenames.
Import ListNotations.
Open Scope N_scope.

Definition md5n : option (list N) := Some [109;100;53].
Definition fileE (size : N) (h : list N) : ientry := E (Some (M false (Some size) None false None None None)) (Some (H md5n (Some h))).
Definition dirE (h : list N) : ientry := E (Some (M true None None false None None None)) (Some (H md5n (Some (h ++ HASH_DIR_SUFFIX)))).

(* old:  d/ (hashed D1.dir) { f -> h1, g -> h2 }   x -> h3   s/ (hashed S.dir) { u -> h5 }   e -> no hash, size 1
   new:  d/ (hashed D2.dir) { f -> h1, h -> h2 }   y/ (implicit) { z -> h4 }   s/ (hashed S.dir) { u -> h5 }
         x/ (unhashed directory entry) { w -> h3 }   e -> no hash, size 2 *)
Definition ex_old : index :=
  [ ([[100]], dirE [68;49]); ([[100];[102]], fileE 1 [104;49]); ([[100];[103]], fileE 2 [104;50]);
    ([[120]], fileE 3 [104;51]); ([[115]], dirE [83]); ([[115];[117]], fileE 5 [104;53]);
    ([[101]], E (Some (M false (Some 1) None false None None None)) None) ].
Definition ex_new : index :=
  [ ([[115];[117]], fileE 5 [104;53]); ([[100]], dirE [68;50]); ([[100];[102]], fileE 1 [104;49]);
    ([[100];[104]], fileE 2 [104;50]); ([[121];[122]], fileE 4 [104;52]); ([[115]], dirE [83]);
    ([[120]], E (Some (M true None None false None None None)) None); ([[120];[119]], fileE 3 [104;51]);
    ([[101]], E (Some (M false (Some 2) None false None None None)) None) ].

Example ex_wf_old : WfO (Some ex_old).
Proof. apply wf_b_sound. vm_compute. reflexivity. Qed.
Example ex_wf_new : WfO (Some ex_new).
Proof. apply wf_b_sound. vm_compute. reflexivity. Qed.
Example ex_hc : HashConsistent (Some ex_old) (Some ex_new).
Proof. apply hc_b_sound. vm_compute. reflexivity. Qed.
Example ex_hc_swapped : HashConsistent (Some ex_new) (Some ex_old).
Proof. apply hc_b_sound. vm_compute. reflexivity. Qed.

(* the flat reference reports 7 changes of three kinds for the plain options: delete d/g, modify d,
   add d/h, add y/z (below an implicit directory), modify x (file -> directory), add x/w, modify e *)
Example ex_ref_plain :
  map (fun c => (typ_code (c_typ c), change_key c)) (ref_diff (opts_of_code 0) (Some ex_old) (Some ex_new)) =
  [ (4, [[100];[103]]); (2, [[100]]); (1, [[100];[104]]); (1, [[121];[122]]); (2, [[120]]); (1, [[120];[119]]);
    (2, [[101]]) ].
Proof. vm_compute. reflexivity. Qed.

(* the breadth-first model computes a permutation of it (another order), within the fuel bound *)
Example ex_diff_plain :
  option_map (map (fun c => (typ_code (c_typ c), change_key c)))
    (diff_core (opts_of_code 0) (Some ex_old) (Some ex_new) (fuel_for (Some ex_old) (Some ex_new))) =
  Some [ (2, [[100]]); (2, [[120]]); (2, [[101]]); (4, [[100];[103]]); (1, [[100];[104]]); (1, [[120];[119]]);
         (1, [[121];[122]]) ].
Proof. vm_compute. reflexivity. Qed.

(* shortcut run (hash_only, code 4): the unchanged hashed directory s/ is not descended into;
   with_unchanged added (code 6) it is, and the changed part is the same *)
Example ex_diff_shortcut :
  option_map (map (fun c => (typ_code (c_typ c), change_key c)))
    (diff_core (opts_of_code 4) (Some ex_old) (Some ex_new) (fuel_for (Some ex_old) (Some ex_new))) =
  Some [ (2, [[100]]); (4, [[120]]); (4, [[100];[103]]); (1, [[100];[104]]); (1, [[120];[119]]); (1, [[121];[122]]) ].
Proof. vm_compute. reflexivity. Qed.
Example ex_diff_full :
  option_map (map (fun c => (typ_code (c_typ c), change_key c)))
    (diff_core (opts_of_code 6) (Some ex_old) (Some ex_new) (fuel_for (Some ex_old) (Some ex_new))) =
  Some [ (2, [[100]]); (4, [[120]]); (5, [[115]]); (5, [[101]]); (5, [[100];[102]]); (4, [[100];[103]]);
         (1, [[100];[104]]); (1, [[120];[119]]); (5, [[115];[117]]); (1, [[121];[122]]) ].
Proof. vm_compute. reflexivity. Qed.

(* rename detection (code 1): d/g -> d/h (both carry h2) is paired, the other two additions stay *)
Example ex_diff_renames :
  match diff (opts_of_code 1) (Some ex_old) (Some ex_new) (fuel_for (Some ex_old) (Some ex_new)) with
  | DOk l => map (fun c => (typ_code (c_typ c), side_key (c_old c), side_key (c_new c))) l
  | _ => []
  end =
  [ (2, [[100]], [[100]]); (2, [[120]], [[120]]); (2, [[101]], [[101]]); (3, [[100];[103]], [[100];[104]]);
    (1, [], [[120];[119]]); (1, [], [[121];[122]]) ].
Proof. vm_compute. reflexivity. Qed.

(* the hypothesis of the rename theorems (no Rename in the input) holds for every output of diff_core *)
Example ex_no_rename_in_core :
  forall cs, diff_core (opts_of_code 0) (Some ex_old) (Some ex_new) (fuel_for (Some ex_old) (Some ex_new)) = Some cs ->
  forall x, In x cs -> c_typ x <> Rename.
Proof.
  intros cs E. vm_compute in E. injection E as <-. intros x Hx. simpl in Hx.
  repeat (destruct Hx as [<-|Hx]; [discriminate|]). destruct Hx.
Qed.
