(* AddStepsMulti.v - one transfer() over several directories that may share files (mt_loop of
   Model/AddSteps.v, verification off): the generated program is a valid trace, every requested
   file and every new directory ends up present, well named and protected, and nothing outside
   the new files / new directories is touched.  Also: the directory object copied local->local
   (add_prog false on one directory item) and the verified in-memory directory add. *)
From Coq Require Import NArith List Bool Lia.
From DvcData Require Import Base.Val Model.AddSteps Proofs.AddStepsProofs Proofs.AddStepsProgs Proofs.AddStepsRecover Proofs.AddStepsVerify.
Import ListNotations.
Open Scope N_scope.

Lemma mem_oid_In o l : mem_oid o l = true <-> In o l.
Proof.
  unfold mem_oid. rewrite existsb_exists. split.
  - intros (x & Hx & He). apply list_N_eqb_spec in He. subst x. exact Hx.
  - intros Hin. exists o. split; [exact Hin|apply oeqb_refl].
Qed.

Section M.
  Variable bytes : Type.
  Variable H : bytes -> oid.
  Variable kids : bytes -> list oid.
  Variable empty : bytes.
  Variable part : bytes -> bytes.
  Hypothesis kids_empty : kids empty = [].   (* used by mem_vadd_prog_valid only *)

  Notation file := (file bytes).
  Notation world := (world bytes).
  Notation astep := (astep_ bytes).
  Notation obj := (obj bytes).
  Notation step := (step bytes empty).
  Notation run := (run bytes empty).
  Notation step_ok := (step_ok bytes H kids).
  Notation valid_trace := (valid_trace bytes H kids empty).
  Notation named_ok := (named_ok bytes H).
  Notation named_ok_b := (named_ok_b bytes H).
  Notation kids_ok := (kids_ok bytes H kids).
  Notation inv := (inv bytes H kids).
  Notation G := (G bytes).
  Notation step_oid := (step_oid bytes).
  Notation protect := (protect bytes).
  Notation good := (good bytes H).
  Notation files_ok := (files_ok bytes H).
  Notation dir_ok := (dir_ok bytes H kids).
  Notation heal_prog := (heal_prog bytes H empty).
  Notation absent := (absent bytes).
  Notation copy_block := (copy_block bytes part).
  Notation mem_block := (mem_block bytes).
  Notation add_prog := (add_prog bytes part).
  Notation mem_add_prog := (mem_add_prog bytes).
  Notation vtail := (vtail bytes H empty).
  Notation mem_vadd_prog := (mem_vadd_prog bytes H empty).
  Notation listed := (listed bytes kids).
  Notation n_ren := (n_ren bytes).
  Notation mt_loop := (mt_loop bytes H kids empty part).

  (* ---- A ---- *)
  Lemma kids_ok_ext_on w1 w2 b :
    (forall k, In k (kids b) -> obj w1 k = obj w2 k) -> kids_ok w1 b = kids_ok w2 b.
  Proof.
    unfold AddSteps.kids_ok. generalize (kids b) as l.
    induction l as [|k l IH]; intros Hext; [reflexivity|].
    simpl. unfold AddSteps.kid_ok at 1 3. rewrite (Hext k (or_introl eq_refl)).
    f_equal. apply IH. intros k' Hk'. apply Hext. right. exact Hk'.
  Qed.

  Lemma kids_ok_intro w b :
    (forall k, In k (kids b) -> exists f, obj w k = Some f /\ named_ok k (f_bytes f)) ->
    kids_ok w b = true.
  Proof.
    intros Hk. unfold AddSteps.kids_ok. apply forallb_forall. intros k Hin.
    destruct (Hk k Hin) as (f & Hf & Hn). unfold AddSteps.kid_ok. rewrite Hf.
    apply named_ok_b_iff. exact Hn.
  Qed.

  (* ---- B ---- *)
  Lemma block_valid_dir w t o b :
    G w -> named_ok_b o b = true -> kids_ok w b = true ->
    let w' := run (copy_block t (o, b)) w in
    valid_trace (copy_block t (o, b)) w = true /\ G w' /\
    obj w' o = Some (mkF b false) /\ forall o', o' <> o -> obj w' o' = obj w o'.
  Proof.
    intros HG Hn Hk. destruct w as [objs tmps rows pend].
    unfold AddStepsProgs.G in HG. cbn [w_pend] in HG. subst pend.
    unfold AddSteps.copy_block. cbn [fst snd].
    cbn [AddSteps.run fold_left AddSteps.valid_trace AddSteps.step AddSteps.step_ok
         w_pend w_objs w_tmps w_rows andb].
    unfold AddSteps.tmp. cbn [w_tmps]. rewrite !nget_aset_eq.
    cbn [w_pend w_objs w_tmps w_rows].
    rewrite Hn.
    match goal with
    | |- context [AddSteps.kids_ok bytes H kids ?x b] =>
        rewrite (kids_ok_objs bytes H kids x (mkW objs tmps rows None) b eq_refl)
    end.
    rewrite Hk. rewrite orb_true_r. cbn [andb].
    split; [reflexivity|split; [reflexivity|split]].
    - apply oget_aset_eq.
    - intros o' Hne. apply oget_aset_neq. exact Hne.
  Qed.

  Lemma copy_block_oid t o b s o' :
    In s (copy_block t (o, b)) -> step_oid s = Some o' -> o' = o.
  Proof.
    intros Hin Hs. unfold AddSteps.copy_block in Hin. cbn [fst snd] in Hin. simpl in Hin.
    repeat (destruct Hin as [<-|Hin];
            [simpl in Hs; try discriminate Hs; injection Hs as <-; reflexivity|]).
    destruct Hin.
  Qed.

  Lemma mem_block_oid t o b s o' :
    In s (mem_block t (o, b)) -> step_oid s = Some o' -> o' = o.
  Proof.
    intros Hin Hs. unfold AddSteps.mem_block in Hin. cbn [fst snd] in Hin. simpl in Hin.
    repeat (destruct Hin as [<-|Hin];
            [simpl in Hs; try discriminate Hs; injection Hs as <-; reflexivity|]).
    destruct Hin.
  Qed.

  (* the common ending [Chmod o; StateSave [(o,o)]] on a present, well-named object *)
  Lemma protect_tail_valid w o f :
    G w -> obj w o = Some f -> named_ok o (f_bytes f) ->
    let p := [Chmod o; StateSave (self_rows [o])] in
    let w' := run p w in
    valid_trace p w = true /\ G w' /\ good w' o /\
    (forall o', o' <> o -> obj w' o' = obj w o').
  Proof.
    intros HG Ho Hn. cbv zeta.
    assert (Hn1 : forall o' g, In o' [o] -> obj w o' = Some g -> named_ok o' (f_bytes g)).
    { intros o' g [<-|[]] Hg. rewrite Ho in Hg. injection Hg as <-. exact Hn. }
    pose proof (chmods_valid bytes H kids empty [o] w HG Hn1) as HD. cbv zeta in HD.
    destruct HD as (VD & GD & OD & RD).
    set (wD := AddSteps.run bytes empty (map Chmod [o]) w) in *.
    assert (OD1 : obj wD o = Some (protect f)).
    { rewrite OD by (left; reflexivity). rewrite Ho. reflexivity. }
    assert (HnD : forall o' g, In o' [o] -> obj wD o' = Some g -> named_ok o' (f_bytes g)).
    { intros o' g [<-|[]] Hg. rewrite OD1 in Hg. injection Hg as <-. exact Hn. }
    pose proof (statesave_self_valid bytes H kids [o] wD GD HnD) as VE.
    change (run [Chmod o; StateSave (self_rows [o])] w)
      with (step wD (StateSave (self_rows [o]))).
    split; [|split; [exact GD|split]].
    - change (valid_trace (map (@Chmod bytes) [o] ++ [@StateSave bytes (self_rows [o])]) w = true).
      apply valid_app; [exact VD|].
      change (step_ok wD (StateSave (self_rows [o])) && true = true). rewrite VE. reflexivity.
    - exists (protect f). split; [exact OD1|split; [exact Hn|reflexivity]].
    - intros o' Hne. change (obj wD o' = obj w o').
      apply RD. intros [He|[]]. apply Hne. symmetry. exact He.
  Qed.

  (* ---- C: a directory object copied local -> local ---- *)
  Theorem add_dir_valid t d w :
    G w -> obj w (fst d) = None -> named_ok_b (fst d) (snd d) = true ->
    kids_ok w (snd d) = true -> ~ In (fst d) (kids (snd d)) ->
    let p := add_prog false t [d] w in
    let w' := run p w in
    valid_trace p w = true /\ G w' /\ good w' (fst d) /\
    (forall o, o <> fst d -> obj w' o = obj w o) /\
    (forall s, In s p -> forall o, step_oid s = Some o -> o = fst d).
  Proof.
    destruct d as [o b]. cbn [fst snd]. intros HG Ho Hn Hk _. cbv zeta.
    change (add_prog false t [(o, b)] w)
      with (map (@Mkdir bytes) [pfx o] ++ [Probe o; ProbeClean o] ++
            (copy_block t (o, b) ++ []) ++ [Chmod o; StateSave (self_rows [o])]).
    rewrite app_nil_r.
    destruct (mkdirs_valid bytes H kids empty [pfx o] w HG) as [VA RA].
    destruct (probe_valid bytes H kids empty w o HG Ho) as (VB & GB & OB).
    set (wB := run [Probe o; ProbeClean o] w) in *.
    assert (HkB : kids_ok wB b = true).
    { rewrite (kids_ok_ext_on wB w b); [exact Hk|]. intros k _. apply OB. }
    pose proof (block_valid_dir wB t o b GB Hn HkB) as HC. cbv zeta in HC.
    destruct HC as (VC & GC & OC & RC).
    set (wC := run (copy_block t (o, b)) wB) in *.
    assert (NC : named_ok o (f_bytes (mkF b false))).
    { simpl. apply named_ok_b_iff. exact Hn. }
    pose proof (protect_tail_valid wC o (mkF b false) GC OC NC) as HT. cbv zeta in HT.
    destruct HT as (VT & GT & GoodT & RT).
    assert (Erun : run (map (@Mkdir bytes) [pfx o] ++ [Probe o; ProbeClean o] ++
                        copy_block t (o, b) ++ [Chmod o; StateSave (self_rows [o])]) w
                   = run [Chmod o; StateSave (self_rows [o])] wC).
    { rewrite !run_app, RA. reflexivity. }
    rewrite Erun.
    split; [|split; [exact GT|split; [exact GoodT|split]]].
    - apply valid_app; [exact VA|]. rewrite RA.
      apply valid_app; [exact VB|]. apply valid_app; [exact VC|exact VT].
    - intros o' Hne. rewrite (RT o' Hne), (RC o' Hne). apply OB.
    - intros s Hin o' Hs.
      apply in_app_or in Hin. destruct Hin as [Hin|Hin].
      { destruct Hin as [<-|[]]. discriminate Hs. }
      apply in_app_or in Hin. destruct Hin as [Hin|Hin].
      { destruct Hin as [<-|[<-|[]]]; simpl in Hs; injection Hs as <-; reflexivity. }
      apply in_app_or in Hin. destruct Hin as [Hin|Hin].
      { exact (copy_block_oid t o b s o' Hin Hs). }
      destruct Hin as [<-|[<-|[]]]; simpl in Hs; [|discriminate Hs].
      injection Hs as <-. reflexivity.
  Qed.

  (* ---- D: the verified add of a directory object written from memory ---- *)
  Theorem mem_vadd_prog_valid t d w :
    inv w -> G w -> named_ok_b (fst d) (snd d) = true -> kids_ok w (snd d) = true ->
    ~ In (fst d) (kids (snd d)) ->
    let p := mem_vadd_prog t d w in
    let w' := run p w in
    valid_trace p w = true /\ inv w' /\ G w' /\ good w' (fst d) /\
    (forall o, o <> fst d -> obj w' o = obj w o) /\
    (forall s, In s p -> forall o, step_oid s = Some o -> o = fst d).
  Proof.
    destruct d as [o b]. cbn [fst snd]. intros Hi HG Hn Hk Hnk. cbv zeta.
    unfold AddSteps.mem_vadd_prog, AddSteps.seq2. cbv zeta. cbn [fst].
    pose proof (heal_prog_valid bytes H kids empty kids_empty [o] w Hi HG) as H1.
    cbv zeta in H1. destruct H1 as (V1 & I1 & G1 & N1 & R1 & _ & S1).
    set (a := heal_prog [o] w) in *. set (w1 := run a w) in *.
    assert (R1' : forall o', o' <> o -> obj w1 o' = obj w o').
    { intros o' Hne. apply R1. intros [He|[]]. apply Hne. symmetry. exact He. }
    assert (Hk1 : kids_ok w1 b = true).
    { rewrite (kids_ok_ext_on w1 w b); [exact Hk|]. intros k Hin. apply R1'.
      intros ->. exact (Hnk Hin). }
    set (cp := if absent w1 (o, b) then mem_block t (o, b) else []).
    assert (Hcp : valid_trace cp w1 = true /\ G (run cp w1) /\
              (exists f, obj (run cp w1) o = Some f /\ named_ok o (f_bytes f)) /\
              (forall o', o' <> o -> obj (run cp w1) o' = obj w1 o') /\
              (forall s, In s cp -> forall o', step_oid s = Some o' -> o' = o)).
    { unfold cp. destruct (absent w1 (o, b)) eqn:Ea.
      - pose proof (mem_block_valid bytes H kids empty w1 t o b G1 Hn Hk1) as Hb. cbv zeta in Hb.
        destruct Hb as (V & G2 & O2 & R2).
        split; [exact V|split; [exact G2|split; [|split; [exact R2|]]]].
        + exists (mkF b false). split; [exact O2|]. simpl. apply named_ok_b_iff. exact Hn.
        + intros s Hin o' Hs. exact (mem_block_oid t o b s o' Hin Hs).
      - apply (absent_false bytes) in Ea. cbn [fst] in Ea. destruct Ea as [f Ef].
        split; [reflexivity|split; [exact G1|split; [|split; [reflexivity|intros s []]]]].
        exists f. split; [exact Ef|]. exact (proj1 (N1 o f (or_introl eq_refl) Ef)). }
    destruct Hcp as (V2 & G2 & (f2 & O2 & N2) & R2 & S2).
    assert (I2 : inv (run cp w1)).
    { apply run_inv; assumption. }
    set (w2 := run cp w1) in *.
    assert (Hn2 : forall o' f, In o' [o] -> obj w2 o' = Some f -> named_ok o' (f_bytes f)).
    { intros o' f [<-|[]] Hf. rewrite O2 in Hf. injection Hf as <-. exact N2. }
    pose proof (vtail_valid bytes H kids empty kids_empty [o] w2 I2 G2 Hn2) as H3. cbv zeta in H3.
    destruct H3 as (V3 & I3 & G3 & D3 & _ & R3 & S3).
    rewrite !run_app. fold w1. fold w2.
    split; [|split; [exact I3|split; [exact G3|split; [|split]]]].
    - apply valid_app; [exact V1|]. apply valid_app; [exact V2|exact V3].
    - apply D3; [left; reflexivity|]. exists f2. exact O2.
    - intros o' Hne.
      rewrite R3 by (intros [He|[]]; apply Hne; symmetry; exact He).
      rewrite (R2 o' Hne). apply R1'. exact Hne.
    - intros s Hin o' Hs.
      apply in_app_or in Hin. destruct Hin as [Hin|Hin].
      { destruct (S1 s Hin o' Hs) as [He|[]]. symmetry. exact He. }
      apply in_app_or in Hin. destruct Hin as [Hin|Hin].
      + exact (S2 s Hin o' Hs).
      + destruct (S3 s Hin o' Hs) as [He|[]]. symmetry. exact He.
  Qed.

  (* ---- E: the loop ---- *)
  Lemma add_absent_valid t its w :
    G w ->
    (forall it, In it its ->
       (named_ok_b (fst it) (snd it) = true /\ is_dir (fst it) = false) /\ obj w (fst it) = None) ->
    let p := match its with [] => [] | _ :: _ => add_prog false t its w end in
    let w' := run p w in
    valid_trace p w = true /\ G w' /\
    (forall it, In it its -> good w' (fst it)) /\
    (forall o, ~ In o (map fst its) -> obj w' o = obj w o) /\
    (forall s, In s p -> forall o, step_oid s = Some o -> In o (map fst its)).
  Proof.
    intros HG Hits. cbv zeta. destruct its as [|x r].
    - split; [reflexivity|split; [exact HG|split; [intros it []|split; [reflexivity|intros s []]]]].
    - set (its := x :: r) in *.
      rewrite (add_false_eq bytes part t its w).
      2:{ intros it Hit. unfold AddSteps.absent. rewrite (proj2 (Hits it Hit)). reflexivity. }
      apply (add_prog_valid bytes H kids empty part t its w HG).
      + intros it Hit. exact (proj1 (Hits it Hit)).
      + intros it f Hit Hf. rewrite (proj2 (Hits it Hit)) in Hf. discriminate Hf.
  Qed.

  Lemma mt_loop_nil mem t newf w :
    mt_loop false mem t [] newf w
    = match newf with [] => [] | _ :: _ => add_prog false t newf w end.
  Proof. destruct newf; reflexivity. Qed.

  Lemma mt_loop_cons mem t d r newf w :
    mt_loop false mem t (d :: r) newf w
    = let bound := filter (listed d) newf in
      let restf := filter (fun it => negb (listed d it)) newf in
      let a := match bound with [] => [] | _ :: _ => add_prog false t bound w end in
      let w2 := run a w in
      let t2 := t + n_ren a in
      let b := if mem then mem_add_prog t2 d w2 else add_prog false t2 [d] w2 in
      a ++ b ++ mt_loop false mem (t2 + (if mem then 2 * n_ren b else n_ren b)) r restf (run b w2).
  Proof. reflexivity. Qed.

  Lemma good_ext w1 w2 o : obj w2 o = obj w1 o -> good w1 o -> good w2 o.
  Proof. intros He (f & Hf & Hn & Hp). exists f. rewrite He. split; [exact Hf|split; assumption]. Qed.

  Theorem mt_loop_valid mem forder : forall nds newf t w,
    G w -> files_ok forder -> (forall d, In d nds -> dir_ok forder d) -> NoDup (map fst nds) ->
    (forall it, In it newf -> In it forder /\ obj w (fst it) = None) ->
    (forall o, In o (map fst forder) -> good w o \/ In o (map fst newf)) ->
    (forall d, In d nds -> obj w (fst d) = None) ->
    let p := mt_loop false mem t nds newf w in
    let w' := run p w in
    valid_trace p w = true /\ G w' /\
    (forall o, In o (map fst forder) -> good w' o) /\
    (forall d, In d nds -> good w' (fst d)) /\
    (forall o, ~ In o (map fst newf) -> ~ In o (map fst nds) -> obj w' o = obj w o) /\
    (forall s, In s p -> forall o, step_oid s = Some o ->
       In o (map fst newf) \/ In o (map fst nds)).
  Proof.
    induction nds as [|d r IH]; intros newf t w HG Hfo Hdo Hnd Hnew Hcov Hda; cbv zeta.
    - (* no directory left: the remaining new files in one add *)
      rewrite mt_loop_nil.
      assert (Hits : forall it, In it newf ->
                (named_ok_b (fst it) (snd it) = true /\ is_dir (fst it) = false) /\
                obj w (fst it) = None).
      { intros it Hit. destruct (Hnew it Hit) as [Hf Hn]. split; [exact (Hfo it Hf)|exact Hn]. }
      pose proof (add_absent_valid t newf w HG Hits) as HA. cbv zeta in HA.
      destruct HA as (VA & GA & DA & RA & SA).
      split; [exact VA|split; [exact GA|split; [|split; [intros d' []|split]]]].
      + intros o Hin. destruct (in_dec oid_dec o (map fst newf)) as [Hn|Hnn].
        * apply in_map_iff in Hn. destruct Hn as (it & <- & Hit). exact (DA it Hit).
        * destruct (Hcov o Hin) as [Hg|Hn]; [|contradiction].
          apply (good_ext w); [apply RA; exact Hnn|exact Hg].
      + intros o Hnn _. apply RA. exact Hnn.
      + intros s Hin o Hs. left. exact (SA s Hin o Hs).
    - (* directory d: the new files it lists first, then its object *)
      rewrite mt_loop_cons. cbv zeta.
      destruct d as [od bd].
      set (bound := filter (listed (od, bd)) newf).
      set (restf := filter (fun it => negb (listed (od, bd) it)) newf).
      destruct (Hdo (od, bd) (or_introl eq_refl)) as (Hdn & Hdd & Hdk). cbn [fst snd] in Hdn, Hdd, Hdk.
      assert (Hodf : ~ In od (map fst forder)).
      { exact (dir_not_file bytes H forder (od, bd) Hfo Hdd). }
      assert (Hbound : forall it, In it bound -> In it newf /\ In (fst it) (kids bd)).
      { intros it Hit. apply filter_In in Hit. destruct Hit as [Hi Hl]. split; [exact Hi|].
        apply mem_oid_In. exact Hl. }
      assert (Hrestf : forall it, In it restf -> In it newf /\ ~ In (fst it) (kids bd)).
      { intros it Hit. apply filter_In in Hit. destruct Hit as [Hi Hl]. split; [exact Hi|].
        intros Hk. apply mem_oid_In in Hk. unfold AddSteps.listed in Hl. cbn [snd] in Hl.
        rewrite Hk in Hl. discriminate Hl. }
      assert (Hsplit : forall it, In it newf -> In it bound \/ In it restf).
      { intros it Hit. destruct (listed (od, bd) it) eqn:El.
        - left. apply filter_In. split; assumption.
        - right. apply filter_In. split; [exact Hit|]. rewrite El. reflexivity. }
      assert (HbN : forall o, In o (map fst bound) -> In o (map fst newf) /\ In o (kids bd)).
      { intros o Hin. apply in_map_iff in Hin. destruct Hin as (it & <- & Hit).
        destruct (Hbound it Hit) as [Hi Hk]. split; [apply in_map; exact Hi|exact Hk]. }
      assert (HrN : forall o, In o (map fst restf) -> In o (map fst newf) /\ ~ In o (kids bd)).
      { intros o Hin. apply in_map_iff in Hin. destruct Hin as (it & <- & Hit).
        destruct (Hrestf it Hit) as [Hi Hk]. split; [apply in_map; exact Hi|exact Hk]. }
      assert (HnewF : forall o, In o (map fst newf) -> In o (map fst forder) /\ obj w o = None).
      { intros o Hin. apply in_map_iff in Hin. destruct Hin as (it & <- & Hit).
        destruct (Hnew it Hit) as [Hf Hn]. split; [apply in_map; exact Hf|exact Hn]. }
      (* phase a *)
      assert (Hits : forall it, In it bound ->
                (named_ok_b (fst it) (snd it) = true /\ is_dir (fst it) = false) /\
                obj w (fst it) = None).
      { intros it Hit. destruct (Hnew it (proj1 (Hbound it Hit))) as [Hf Hn].
        split; [exact (Hfo it Hf)|exact Hn]. }
      pose proof (add_absent_valid t bound w HG Hits) as HA. cbv zeta in HA.
      destruct HA as (VA & GA & DA & RA & SA).
      set (a := match bound with [] => [] | _ :: _ => add_prog false t bound w end) in *.
      set (w2 := run a w) in *.
      set (t2 := t + n_ren a).
      (* the kids of d are all good now *)
      assert (Hkg : forall k, In k (kids bd) -> good w2 k).
      { intros k Hk. pose proof (Hdk k Hk) as Hkf.
        destruct (in_dec oid_dec k (map fst newf)) as [Hn|Hnn].
        - apply in_map_iff in Hn. destruct Hn as (it & <- & Hit).
          apply DA. apply filter_In. split; [exact Hit|]. apply mem_oid_In. exact Hk.
        - destruct (Hcov k Hkf) as [Hg|Hn]; [|contradiction].
          apply (good_ext w); [|exact Hg]. apply RA. intros Hb. apply Hnn.
          exact (proj1 (HbN k Hb)). }
      assert (Hk2 : kids_ok w2 bd = true).
      { apply kids_ok_intro. intros k Hk. destruct (Hkg k Hk) as (f & Hf & Hn & _).
        exists f. split; assumption. }
      assert (Hod2 : obj w2 od = None).
      { rewrite RA; [apply (Hda (od, bd)); left; reflexivity|].
        intros Hb. apply Hodf. exact (proj1 (HnewF od (proj1 (HbN od Hb)))). }
      assert (Hodk : ~ In od (kids bd)).
      { intros Hk. apply Hodf. exact (Hdk od Hk). }
      (* phase b *)
      set (b := if mem then mem_add_prog t2 (od, bd) w2 else add_prog false t2 [(od, bd)] w2).
      assert (HB : valid_trace b w2 = true /\ G (run b w2) /\ good (run b w2) od /\
                   (forall o, o <> od -> obj (run b w2) o = obj w2 o) /\
                   (forall s, In s b -> forall o, step_oid s = Some o -> o = od)).
      { unfold b. destruct mem.
        - apply (mem_add_prog_valid bytes H kids empty t2 (od, bd) w2 GA Hdn Hk2).
          cbn [fst]. intros f Hf. rewrite Hod2 in Hf. discriminate Hf.
        - exact (add_dir_valid t2 (od, bd) w2 GA Hod2 Hdn Hk2 Hodk). }
      destruct HB as (VB & GB & DB & RB & SB).
      set (w3 := run b w2) in *.
      set (t3 := t2 + (if mem then 2 * n_ren b else n_ren b)).
      (* the invariant for the rest *)
      assert (Hnd' : ~ In od (map fst r) /\ NoDup (map fst r)).
      { simpl in Hnd. inversion Hnd; subst. split; assumption. }
      assert (Hdirs : forall d', In d' r -> fst d' <> od /\ ~ In (fst d') (map fst forder)).
      { intros d' Hd'. split.
        - intros He. apply (proj1 Hnd'). rewrite <- He. apply in_map. exact Hd'.
        - destruct (Hdo d' (or_intror Hd')) as (_ & Hdd' & _).
          exact (dir_not_file bytes H forder d' Hfo Hdd'). }
      assert (Hnew3 : forall it, In it restf -> In it forder /\ obj w3 (fst it) = None).
      { intros it Hit. destruct (Hrestf it Hit) as [Hi Hnk].
        destruct (Hnew it Hi) as [Hf Hn]. split; [exact Hf|].
        rewrite RB.
        - rewrite RA; [exact Hn|]. intros Hb. exact (Hnk (proj2 (HbN _ Hb))).
        - intros He. apply Hodf. rewrite <- He. apply in_map. exact Hf. }
      assert (Hcov3 : forall o, In o (map fst forder) -> good w3 o \/ In o (map fst restf)).
      { intros o Hin.
        assert (Hne : o <> od) by (intros ->; exact (Hodf Hin)).
        destruct (in_dec oid_dec o (map fst newf)) as [Hn|Hnn].
        - apply in_map_iff in Hn. destruct Hn as (it & <- & Hit).
          destruct (Hsplit it Hit) as [Hb|Hr].
          + left. apply (good_ext w2); [apply RB; exact Hne|]. exact (DA it Hb).
          + right. apply in_map. exact Hr.
        - destruct (Hcov o Hin) as [Hg|Hn]; [|contradiction].
          left. apply (good_ext w); [|exact Hg].
          rewrite (RB o Hne). apply RA. intros Hb. apply Hnn. exact (proj1 (HbN o Hb)). }
      assert (Hda3 : forall d', In d' r -> obj w3 (fst d') = None).
      { intros d' Hd'. destruct (Hdirs d' Hd') as [Hne Hnf].
        rewrite (RB _ Hne). rewrite RA; [apply Hda; right; exact Hd'|].
        intros Hb. apply Hnf. exact (proj1 (HnewF _ (proj1 (HbN _ Hb)))). }
      pose proof (IH restf t3 w3 GB Hfo (fun d' Hd' => Hdo d' (or_intror Hd')) (proj2 Hnd')
                    Hnew3 Hcov3 Hda3) as HR.
      cbv zeta in HR. destruct HR as (VR & GR & FR & DR & RR & SR).
      rewrite !run_app. fold w2. fold w3.
      split; [|split; [exact GR|split; [exact FR|split; [|split]]]].
      + apply valid_app; [exact VA|]. apply valid_app; [exact VB|exact VR].
      + intros d' [<-|Hd']; [|exact (DR d' Hd')]. cbn [fst].
        apply (good_ext w3); [|exact DB]. apply RR.
        * intros Hr. apply Hodf. exact (proj1 (HnewF od (proj1 (HrN od Hr)))).
        * exact (proj1 Hnd').
      + intros o Hnn Hnd2. simpl in Hnd2.
        rewrite RR.
        * rewrite RB by (intros ->; apply Hnd2; left; reflexivity).
          apply RA. intros Hb. apply Hnn. exact (proj1 (HbN o Hb)).
        * intros Hr. apply Hnn. exact (proj1 (HrN o Hr)).
        * intros Hr. apply Hnd2. right. exact Hr.
      + intros s Hin o Hs.
        apply in_app_or in Hin. destruct Hin as [Hin|Hin].
        { left. exact (proj1 (HbN o (SA s Hin o Hs))). }
        apply in_app_or in Hin. destruct Hin as [Hin|Hin].
        { right. left. symmetry. exact (SB s Hin o Hs). }
        destruct (SR s Hin o Hs) as [Hr|Hr].
        * left. exact (proj1 (HrN o Hr)).
        * right. right. exact Hr.
  Qed.
End M.

Print Assumptions add_dir_valid.
Print Assumptions mem_vadd_prog_valid.
Print Assumptions mt_loop_valid.
