(* C17 - proofs about loading a directory entry from a FileStorage (Model/FileLoad.v) *)
From Coq Require Import NArith List Bool Lia.
From DvcData Require Import Base.Val Model.IndexLoad Model.FileLoad Proofs.IndexLoadBase.
Import ListNotations.
Open Scope N_scope.

Lemma skipn_app_len {A} (p s : list A) : skipn (length p) (p ++ s) = s.
Proof. induction p as [|x p IH]; cbn; [reflexivity | exact IH]. Qed.

Lemma is_prefix_app_cancel p a b : is_prefix (p ++ a) (p ++ b) = is_prefix a b.
Proof. induction p as [|x p IH]; cbn; [reflexivity|]. rewrite list_N_eqb_refl. exact IH. Qed.

Lemma key_eqb_app_cancel p a b : key_eqb (p ++ a) (p ++ b) = key_eqb a b.
Proof. induction p as [|x p IH]; cbn; [reflexivity|]. rewrite list_N_eqb_refl. exact IH. Qed.

Lemma strict_prefix_app_cancel p a b : strict_prefix (p ++ a) (p ++ b) = strict_prefix a b.
Proof. unfold strict_prefix. now rewrite is_prefix_app_cancel, key_eqb_app_cancel. Qed.

Lemma strict_prefix_split rel fk :
  strict_prefix rel fk = true -> exists s, fk = rel ++ s /\ s <> [].
Proof.
  intros H. apply strict_prefix_spec in H. destruct H as [Hp Hne].
  apply is_prefix_spec in Hp. destruct Hp as [s Hs]. exists s. split; [exact Hs|].
  intros ->. rewrite app_nil_r in Hs. congruence.
Qed.

Lemma strict_prefix_app_ne a s : s <> [] -> strict_prefix a (a ++ s) = true.
Proof.
  intros Hs. apply strict_prefix_spec. split; [apply is_prefix_app|].
  intros H. apply Hs. rewrite <- (app_nil_r a) in H at 1. now apply app_inv_head in H.
Qed.

Lemma filter_map_comm {A B} (f : B -> bool) (g : A -> B) (l : list A) :
  filter f (map g l) = map g (filter (fun x => f (g x)) l).
Proof. induction l as [|x l IH]; cbn; [reflexivity|]. destruct (f (g x)); cbn; now rewrite IH. Qed.

Lemma fs_rel_app p rel : fs_rel p (p ++ rel) = Some rel.
Proof. unfold fs_rel. now rewrite is_prefix_app, skipn_app_len. Qed.

Lemma fs_rel_some p k rel : fs_rel p k = Some rel -> k = p ++ rel.
Proof.
  unfold fs_rel. destruct (is_prefix p k) eqn:Hp; [|discriminate]. intros [= <-].
  apply is_prefix_spec in Hp. destruct Hp as [s ->]. now rewrite skipn_app_len.
Qed.

(* ---- 1. a lazily loaded directory = the same sub-tree of the explicit index over the workspace ---------- *)
Lemma load_file_entries p w rel :
  map (fun n => ((p ++ rel) ++ skipn (length rel) (f_key n), fs_entry n)) (below rel w)
  = under (p ++ rel) (explicit_of p w).
Proof.
  unfold under, explicit_of, below. rewrite filter_map_comm. cbn [fst].
  rewrite (filter_ext (fun n => strict_prefix (p ++ rel) (p ++ f_key n)) (fun n => strict_prefix rel (f_key n)))
    by (intros n; apply strict_prefix_app_cancel).
  apply map_ext_in. intros n Hn. apply filter_In in Hn. destruct Hn as [_ Hs].
  apply strict_prefix_split in Hs. destruct Hs as [s [Hk _]]. rewrite Hk, skipn_app_len.
  now rewrite <- app_assoc.
Qed.

Theorem load_file_is_explicit_subtree p w rel :
  ws_exists w rel = true ->
  load_file p w (p ++ rel) = FlOk (under (p ++ rel) (explicit_of p w)).
Proof.
  intros He. unfold load_file. rewrite fs_rel_app, He. f_equal. apply load_file_entries.
Qed.

(* every outcome, for every key: the assertion fails exactly off the prefix, absence is reported, and otherwise
   what is stored is the explicit sub-tree *)
Theorem load_file_total p w k :
  match load_file p w k with
  | FlAssert => is_prefix p k = false
  | FlMissing => exists rel, k = p ++ rel /\ ws_exists w rel = false
  | FlOk l => l = under k (explicit_of p w)
  end.
Proof.
  unfold load_file. destruct (fs_rel p k) as [rel|] eqn:Hr.
  - pose proof (fs_rel_some _ _ _ Hr) as ->. destruct (ws_exists w rel) eqn:He.
    + apply load_file_entries.
    + exists rel. split; [reflexivity | exact He].
  - unfold fs_rel in Hr. destruct (is_prefix p k); [discriminate | reflexivity].
Qed.

(* ---- 2. loading writes strictly below the loaded key only ------------------------------------------------ *)
Theorem load_file_only_below p w k l :
  load_file p w k = FlOk l -> forall k' e, In (k', e) l -> strict_prefix k k' = true.
Proof.
  intros H k' e Hin. pose proof (load_file_total p w k) as T. rewrite H in T. subst l.
  unfold under in Hin. apply filter_In in Hin. exact (proj2 Hin).
Qed.

(* ---- 3. every node below the key is loaded, under the key its place in the workspace dictates ------------ *)
Theorem load_file_complete p w rel n :
  ws_exists w rel = true -> In n w -> strict_prefix rel (f_key n) = true ->
  exists l, load_file p w (p ++ rel) = FlOk l /\ In (p ++ f_key n, fs_entry n) l.
Proof.
  intros He Hn Hs. eexists. split; [apply load_file_is_explicit_subtree; exact He|].
  unfold under, explicit_of. apply filter_In. split.
  - apply in_map_iff. exists n. split; [reflexivity | exact Hn].
  - cbn [fst]. now rewrite strict_prefix_app_cancel.
Qed.

Theorem load_file_sound p w k l k' e :
  load_file p w k = FlOk l -> In (k', e) l ->
  exists n, In n w /\ k' = p ++ f_key n /\ e = fs_entry n.
Proof.
  intros H Hin. pose proof (load_file_total p w k) as T. rewrite H in T. subst l.
  unfold under, explicit_of in Hin. apply filter_In in Hin. destruct Hin as [Hin _].
  apply in_map_iff in Hin. destruct Hin as [n [Heq Hn]]. exists n. inversion Heq. auto.
Qed.

(* ---- 4. the prefix is a presentation detail: a storage rooted at the sub-tree d (prefix p ++ d) loads what the
        storage rooted above it (prefix p) loads -------------------------------------------------------------- *)
Lemma below_subtree d rel w :
  map (fun n => (f_key n, fs_entry n)) (below rel (subtree d w))
  = map (fun n => (skipn (length d) (f_key n), fs_entry n)) (below (d ++ rel) w).
Proof.
  unfold subtree, below. rewrite filter_map_comm, map_map. cbn [f_key].
  assert (Hf : forall l : ws,
             filter (fun n => strict_prefix rel (skipn (length d) (f_key n))) (filter (fun n => strict_prefix d (f_key n)) l)
             = filter (fun n => strict_prefix (d ++ rel) (f_key n)) l).
  { induction l as [|n l IH]; cbn; [reflexivity|].
    destruct (strict_prefix d (f_key n)) eqn:Hd.
    - cbn. apply strict_prefix_split in Hd. destruct Hd as [s [Hk _]].
      rewrite Hk, skipn_app_len, strict_prefix_app_cancel.
      destruct (strict_prefix rel s); now rewrite IH.
    - destruct (strict_prefix (d ++ rel) (f_key n)) eqn:Hdr; [|exact IH].
      exfalso. apply strict_prefix_split in Hdr. destruct Hdr as [s [Hk Hs]].
      rewrite Hk, <- app_assoc in Hd. rewrite strict_prefix_app_ne in Hd; [discriminate|].
      intros E. apply app_eq_nil in E. tauto. }
  rewrite Hf. apply map_ext. intros n. reflexivity.
Qed.

Theorem load_file_prefix_irrelevant p d w rel l1 l2 :
  load_file (p ++ d) (subtree d w) (p ++ d ++ rel) = FlOk l1 ->
  load_file p w (p ++ d ++ rel) = FlOk l2 ->
  l1 = l2.
Proof.
  unfold load_file. rewrite (app_assoc p d rel), fs_rel_app, <- (app_assoc p d rel), fs_rel_app.
  destruct (ws_exists (subtree d w) rel); [|discriminate].
  destruct (ws_exists w (d ++ rel)); [|discriminate].
  intros [= <-] [= <-].
  transitivity (map (fun kn : key * entry => ((p ++ d ++ rel) ++ skipn (length rel) (fst kn), snd kn))
                    (map (fun n => (f_key n, fs_entry n)) (below rel (subtree d w)))).
  { rewrite map_map. reflexivity. }
  rewrite below_subtree, map_map. cbn [fst snd]. apply map_ext_in. intros n Hn.
  unfold below in Hn. apply filter_In in Hn. destruct Hn as [_ Hs].
  apply strict_prefix_split in Hs. destruct Hs as [s [Hk _]].
  rewrite Hk. f_equal. f_equal.
  rewrite (skipn_app_len (d ++ rel) s).
  rewrite <- (app_assoc d rel s), (skipn_app_len d (rel ++ s)), (skipn_app_len rel s). reflexivity.
Qed.

(* ---- non-vacuity ----------------------------------------------------------------------------------------- *)
Definition ex_ws : ws :=
  [ {| f_key := [[100]]; f_dir := true; f_size := 0; f_exec := false |};
    {| f_key := [[100]; [97]]; f_dir := false; f_size := 3; f_exec := false |};
    {| f_key := [[100]; [115]]; f_dir := true; f_size := 0; f_exec := false |};
    {| f_key := [[100]; [115]; [98]]; f_dir := false; f_size := 5; f_exec := true |};
    {| f_key := [[120]]; f_dir := false; f_size := 1; f_exec := false |} ].

Example ex_tree : ws_treeb ex_ws = true.
Proof. vm_compute. reflexivity. Qed.
Example ex_load :
  exists l, load_file [[112]] ex_ws [[112]; [100]] = FlOk l /\ length l = 3%nat.
Proof. eexists. split; [vm_compute; reflexivity | reflexivity]. Qed.
Example ex_prefix_irrelevant :
  load_file [[112]; [100]] (subtree [[100]] ex_ws) [[112]; [100]; [115]]
  = load_file [[112]] ex_ws [[112]; [100]; [115]].
Proof. vm_compute. reflexivity. Qed.
Example ex_missing : load_file [[112]] ex_ws [[112]; [122]] = FlMissing.
Proof. vm_compute. reflexivity. Qed.
Example ex_assert : load_file [[112]] ex_ws [[113]; [100]] = FlAssert.
Proof. vm_compute. reflexivity. Qed.


(* ---- 5. a workspace with distinct node keys is loaded as a finite map: no key twice ----------------------- *)
Lemma keys_distinct_NoDup l : keys_distinct l = true -> NoDup l.
Proof.
  induction l as [|k r IH]; cbn; intros H; [constructor|].
  apply andb_true_iff in H. destruct H as [Hn Hr]. constructor; [|now apply IH].
  intros Hin. apply negb_true_iff in Hn.
  assert (existsb (key_eqb k) r = true) as E; [|congruence].
  apply existsb_exists. exists k. split; [exact Hin | apply key_eqb_refl].
Qed.

Lemma NoDup_map_filter {A B} (g : A -> B) (f : A -> bool) (l : list A) :
  NoDup (map g l) -> NoDup (map g (filter f l)).
Proof.
  induction l as [|x l IH]; cbn; intros H; [constructor|].
  inversion H as [|y r Hnin Hnd]; subst. destruct (f x); cbn; [|now apply IH].
  constructor; [|now apply IH]. intros Hin. apply Hnin.
  apply in_map_iff in Hin. destruct Hin as [z [Hz Hzin]]. apply filter_In in Hzin.
  apply in_map_iff. exists z. tauto.
Qed.

Theorem load_file_keys_distinct p w k l :
  keys_distinct (map f_key w) = true -> load_file p w k = FlOk l -> NoDup (map fst l).
Proof.
  intros Hd H. pose proof (load_file_total p w k) as T. rewrite H in T. subst l.
  unfold under, explicit_of. rewrite filter_map_comm, map_map. cbn [fst].
  apply keys_distinct_NoDup in Hd.
  apply (NoDup_map_filter f_key (fun n => strict_prefix k (p ++ f_key n))) in Hd.
  remember (filter (fun n => strict_prefix k (p ++ f_key n)) w) as F eqn:HF. clear HF.
  induction F as [|n F IH]; cbn; [constructor|].
  cbn in Hd. inversion Hd as [|y r Hnin Hnd]; subst. constructor; [|now apply IH].
  intros Hin. apply Hnin. apply in_map_iff in Hin. destruct Hin as [z [Hz Hzin]].
  apply app_inv_head in Hz. apply in_map_iff. exists z. tauto.
Qed.

(* a tree-shaped workspace ([ws_treeb], what the correspondence checks on every case) has distinct keys *)
Lemma ws_tree_keys_distinct w : ws_treeb w = true -> keys_distinct (map f_key w) = true.
Proof.
  unfold ws_treeb. intros H. apply andb_true_iff in H. destruct H as [H _].
  apply andb_true_iff in H. tauto.
Qed.


(* ---- 6. the index after DataIndex._load through a FileStorage: every look-up characterised ----------------- *)
Lemma lookup_app a b k :
  lookup (a ++ b) k = match lookup a k with Some e => Some e | None => lookup b k end.
Proof.
  induction a as [|[k' e] a IH]; cbn; [reflexivity|]. destruct (key_eqb k k'); [reflexivity | exact IH].
Qed.

Lemma lookup_under k l k' :
  lookup (under k l) k' = if strict_prefix k k' then lookup l k' else None.
Proof.
  unfold under. induction l as [|[k2 e] l IH]; cbn [filter lookup fst].
  - now destruct (strict_prefix k k').
  - destruct (strict_prefix k k2) eqn:Hs; cbn [lookup].
    + destruct (key_eqb k' k2) eqn:He; [|exact IH].
      apply key_eqb_eq in He. subst k2. now rewrite Hs.
    + destruct (key_eqb k' k2) eqn:He; [|exact IH].
      apply key_eqb_eq in He. subst k2. rewrite Hs in *. exact IH.
Qed.

Lemma lookup_mark_at k i k' :
  lookup (mark_at k i) k' = if key_eqb k' k then option_map mark (lookup i k') else lookup i k'.
Proof.
  unfold mark_at. induction i as [|[k2 e] i IH]; cbn [map lookup fst snd].
  - now destruct (key_eqb k' k).
  - destruct (key_eqb k2 k) eqn:H2; cbn [lookup].
    + destruct (key_eqb k' k2) eqn:He; [|exact IH].
      apply key_eqb_eq in He. subst k2. now rewrite H2.
    + destruct (key_eqb k' k2) eqn:He; [|exact IH].
      apply key_eqb_eq in He. subst k2. now rewrite H2.
Qed.

Theorem idx_load_file_lookup p w k i i' :
  idx_load_file p w k i = Some i' ->
  forall k',
    lookup i' k' =
    if strict_prefix k k'
    then match lookup (explicit_of p w) k' with Some e => Some e | None => lookup i k' end
    else if key_eqb k' k then option_map mark (lookup i k') else lookup i k'.
Proof.
  unfold idx_load_file. intros H k'. pose proof (load_file_total p w k) as T.
  destruct (load_file p w k) as [| |l]; try discriminate. injection H as <-. subst l.
  rewrite lookup_app, lookup_under, lookup_mark_at.
  destruct (strict_prefix k k') eqn:Hs; [|reflexivity].
  assert (key_eqb k' k = false) as ->; [|reflexivity].
  apply strict_prefix_spec in Hs. destruct Hs as [_ Hne].
  destruct (key_eqb k' k) eqn:He; [|reflexivity]. apply key_eqb_eq in He. congruence.
Qed.

(* the property's premise "holds the directory as a single unloaded entry": nothing stored below k.  Then the
   loaded index answers every key below k exactly as the explicit index over the workspace, and every other
   key as before (the entry at k itself only gains the bookkeeping flag) *)
Theorem idx_load_file_transparent p w k i i' :
  (forall k', strict_prefix k k' = true -> lookup i k' = None) ->
  idx_load_file p w k i = Some i' ->
  (forall k', strict_prefix k k' = true -> lookup i' k' = lookup (explicit_of p w) k') /\
  (forall k', strict_prefix k k' = false -> lookupS i' k' = lookupS i k').
Proof.
  intros Hwf H. split; intros k' Hs; unfold lookupS; rewrite (idx_load_file_lookup _ _ _ _ _ H k'), Hs.
  - rewrite (Hwf k' Hs). now destruct (lookup (explicit_of p w) k').
  - destruct (key_eqb k' k); [|reflexivity]. now destruct (lookup i k').
Qed.

(* a refused load (assertion, absent path) is never remembered: there is no new index *)
Theorem idx_load_file_refused p w k i :
  idx_load_file p w k i = None <-> (forall l, load_file p w k <> FlOk l).
Proof.
  unfold idx_load_file. destruct (load_file p w k); split; intros H; try discriminate; try congruence.
  exfalso. now apply (H l).
Qed.

Example ex_idx_load :
  exists i', idx_load_file [[112]] ex_ws [[112]; [100]]
               [([[112]; [100]], {| e_meta := Some {| m_dir := true; m_size := None; m_exec := false |};
                                    e_hash := None; e_loaded := false |})] = Some i'
             /\ length i' = 4%nat
             /\ (forall k', strict_prefix [[112]; [100]] k' = true ->
                            lookup [([[112]; [100]], {| e_meta := Some {| m_dir := true; m_size := None; m_exec := false |};
                                                         e_hash := None; e_loaded := false |})] k' = None).
Proof.
  eexists. split; [vm_compute; reflexivity|]. split; [reflexivity|].
  intros k' Hs. cbn [lookup]. destruct (key_eqb k' [[112]; [100]]) eqn:He; [|reflexivity].
  apply key_eqb_eq in He. subst k'. vm_compute in Hs. discriminate.
Qed.
