(* C18 - the directions the push/fetch model assumes are the ones the source uses: the transfer() calls of
   index/fetch.py fetch() and index/push.py push(), regenerated on every run (Gen/FetchCall.v, unit fetchcall) *)
From Coq Require Import Bool.
From DvcData Require Import Gen.FetchCall.

(* fetch: remote -> cache, verified as the REMOTE is configured, status through the remote's index, every hashed
   entry requested, transferred / failed counted from the result *)
Lemma fetch_call_is_source :
  fetch_src = OdbRemote /\ fetch_dst = OdbCache /\ fetch_verify_flag_of = OdbRemote /\
  fetch_src_index_of = OdbRemote /\ fetch_cache_odb = OdbCache /\
  fetch_requests_every_hashed_entry = true /\ fetch_counts_transferred_and_failed = true.
Proof. repeat split. Qed.

(* push: cache -> remote, no verify override, status through the remote's index *)
Lemma push_call_is_source :
  push_src = OdbCache /\ push_dst = OdbRemote /\ push_passes_verify = false /\
  push_dest_index_of = OdbRemote /\ push_cache_odb = OdbRemote /\
  push_requests_every_hashed_entry = true /\ push_counts_transferred_and_failed = true.
Proof. repeat split. Qed.
