(* C15_recover_verify: with effective verification (per-call verify=True) the re-run of index.save
   through add(check_exists=True) recovers at EVERY crash point, the reflink-probe window included:
   the pre-add check drops the probe's leftover before the existence filter.  The positive
   counterpart of C15_recover_check_exists_refuted. *)
From Coq Require Import NArith List Bool Lia.
From DvcData Require Import Base.Val Model.AddSteps Proofs.AddStepsProofs Proofs.AddStepsProgs Proofs.AddStepsRecover Proofs.AddStepsVerify.
Import ListNotations.
Open Scope N_scope.

Section RV.
  Variable bytes : Type.
  Variable H : bytes -> oid.
  Variable kids : bytes -> list oid.
  Variable empty : bytes.
  Variable part : bytes -> bytes.
  Hypothesis kids_empty : kids empty = [].

  Notation astep := (astep_ bytes).
  Notation world := (world bytes).
  Notation obj := (obj bytes).
  Notation step := (step bytes empty).
  Notation run := (run bytes empty).
  Notation valid_trace := (valid_trace bytes H kids empty).
  Notation named_ok := (named_ok bytes H).
  Notation inv := (inv bytes H kids).
  Notation crash_inv := (crash_inv bytes H kids).
  Notation crash := (crash bytes).
  Notation G := (G bytes).
  Notation step_oid := (step_oid bytes).
  Notation absent := (absent bytes).
  Notation vadd_prog := (vadd_prog bytes H empty part).
  Notation mem_add_prog := (mem_add_prog bytes).
  Notation mem_adds := (mem_adds bytes empty).
  Notation save_gen := (save_gen bytes H empty part).
  Notation store_eq := (store_eq bytes).
  Notation good := (good bytes H).
  Notation files_ok := (files_ok bytes H).
  Notation dir_ok := (dir_ok bytes H kids).
  Notation all_ok := (all_ok bytes H).
  Notation save_req := (save_req bytes).

  (* a pending probe comes from a Probe step *)
  Lemma pend_step w s o :
    w_pend (step w s) = Some o -> w_pend w = Some o \/ s = Probe o.
  Proof.
    destruct s; simpl; intros Hp; try (now left); try discriminate.
    - injection Hp as ->. now right.
    - destruct (tmp bytes w t); simpl in Hp; now left.
    - destruct (tmp bytes w t); simpl in Hp; now left.
    - destruct (AddSteps.obj bytes w o0); simpl in Hp; now left.
  Qed.

  Lemma pend_run tr : forall w o,
    w_pend (run tr w) = Some o -> w_pend w = Some o \/ In (Probe o) tr.
  Proof.
    induction tr as [|s tr IH]; intros w o Hp; simpl in *; [now left|].
    destruct (IH _ _ Hp) as [Hs|Hin]; [|right; now right].
    destruct (pend_step _ _ _ Hs) as [Hw| ->]; [now left | right; now left].
  Qed.

  Lemma mem_adds_no_probe dirs : forall t w s o, In s (mem_adds t dirs w) -> s <> Probe o.
  Proof.
    induction dirs as [|d r IH]; intros t w s o Hin; simpl in Hin; [contradiction|].
    apply in_app_or in Hin as [Hin|Hin]; [|eapply IH; exact Hin].
    unfold AddSteps.mem_add_prog, mem_block in Hin.
    destruct (absent w d); simpl in Hin; intuition (subst; discriminate).
  Qed.

  Lemma save_gen_verify_eq t files dirs w :
    save_gen true false t files dirs w =
    vadd_prog true t files w ++ mem_adds (t + n_ren bytes (vadd_prog true t files w)) dirs
                                         (run (vadd_prog true t files w) w).
  Proof. reflexivity. Qed.

  Theorem save_verify_valid t files dirs w :
    inv w -> G w -> files_ok files -> (forall d, In d dirs -> dir_ok files d) ->
    (forall d f, In d dirs -> obj w (fst d) = Some f -> named_ok (fst d) (f_bytes f)) ->
    let p := save_gen true false t files dirs w in let w' := run p w in
    valid_trace p w = true /\ G w' /\
    (forall o, save_req files dirs o -> good w' o) /\
    (forall o, ~ save_req files dirs o -> obj w' o = obj w o) /\
    (forall s, In s p -> forall o, step_oid s = Some o -> save_req files dirs o) /\
    (forall o, In (Probe o) p -> In o (map fst files)).
  Proof.
    intros Hinv HG Hf Hds Hex p w'. subst p w'. rewrite save_gen_verify_eq.
    destruct (vadd_prog_valid bytes H kids empty part kids_empty t files w Hinv HG Hf)
      as [Hv1 [Hinv1 [HG1 [Hg1 [Hfr1 Hoid1]]]]].
    set (p1 := vadd_prog true t files w) in *. set (w1 := run p1 w) in *.
    assert (Hexd : forall d f, In d dirs -> obj w1 (fst d) = Some f -> named_ok (fst d) (f_bytes f)).
    { intros d f Hi Ho. rewrite Hfr1 in Ho; [eapply Hex; eauto|].
      apply (dir_not_file bytes H files d Hf). apply (Hds d Hi). }
    destruct (mem_adds_valid bytes H kids empty files dirs (t + n_ren bytes p1) w1 HG1 Hf Hds Hg1 Hexd)
      as [Hv2 [HG2 [Hm2 [Hg2 [Hfr2 Hoid2]]]]].
    rewrite run_app. split; [|split; [|split; [|split; [|split]]]].
    - apply valid_app; assumption.
    - exact HG2.
    - intros o [Hin|Hin].
      + apply Hm2. apply in_map_iff in Hin as [it [<- Hi]]. now apply Hg1.
      + apply in_map_iff in Hin as [d [<- Hi]]. now apply Hg2.
    - intros o Hn. rewrite Hfr2 by (intros Hin; apply Hn; now right).
      apply Hfr1. intros Hin. apply Hn. now left.
    - intros s Hs o Ho. apply in_app_or in Hs as [Hs|Hs].
      + left. eapply Hoid1; eauto.
      + right. eapply Hoid2; eauto.
    - intros o Hin. apply in_app_or in Hin as [Hin|Hin].
      + eapply Hoid1; [exact Hin | reflexivity].
      + exfalso. eapply mem_adds_no_probe; [exact Hin | reflexivity].
  Qed.

  Theorem save_verify_prefix_crash_inv t files dirs w n :
    inv w -> G w -> all_ok w -> files_ok files -> (forall d, In d dirs -> dir_ok files d) ->
    crash_inv (crash (run (firstn n (save_gen true false t files dirs w)) w)).
  Proof.
    intros Hinv HG Hall Hf Hds.
    destruct (save_verify_valid t files dirs w Hinv HG Hf Hds (fun d f _ Ho => Hall _ f Ho)) as [Hv _].
    now apply valid_prefix_crash_inv.
  Qed.

  Hypothesis H_inj : forall b b', base (H b) = base (H b') -> b = b'.

  (* the re-run recovers at EVERY crash point n - no "no probe pending" side condition *)
  Theorem save_verify_recover t t' files dirs w0 n :
    inv w0 -> G w0 -> all_ok w0 -> files_ok files -> (forall d, In d dirs -> dir_ok files d) ->
    let p0 := save_gen true false t files dirs w0 in
    let wc := crash (run (firstn n p0) w0) in
    let p1 := save_gen true false t' files dirs wc in
    valid_trace p1 wc = true /\
    (forall m, crash_inv (crash (run (firstn m p1) wc))) /\
    store_eq (run p1 wc) (run p0 w0) /\
    (forall o, save_req files dirs o -> good (run p1 wc) o).
  Proof.
    intros Hinv HG Hall Hf Hds p0 wc p1.
    destruct (save_verify_valid t files dirs w0 Hinv HG Hf Hds (fun d f _ Ho => Hall _ f Ho))
      as [Hv0 [_ [Hg0 [Hfr0 [Hoid0 Hpr0]]]]].
    fold p0 in Hv0, Hg0, Hfr0, Hoid0, Hpr0.
    assert (Hinvc : inv wc).
    { apply inv_crash. apply (valid_prefix_inv bytes H kids empty kids_empty p0 w0 Hinv Hv0). }
    assert (HGc : G wc) by reflexivity.
    assert (Hexc : forall d f, In d dirs -> obj wc (fst d) = Some f -> named_ok (fst d) (f_bytes f)).
    { intros d f Hi Ho. unfold wc in Ho. rewrite (crash_obj bytes) in Ho.
      assert (Hon : ok_on bytes H (fun _ => True) w0) by (intros o' f' _ Ho'; left; now apply Hall).
      destruct (valid_prefix_ok_on bytes H kids empty (fun _ => True) p0 w0 Hon Hv0 n (fst d) f I Ho) as [Hn|Hp];
        [exact Hn|].
      exfalso. apply pend_run in Hp as [Hp|Hp]; [rewrite HG in Hp; discriminate|].
      apply (dir_not_file bytes H files d Hf); [apply (Hds d Hi)|].
      apply Hpr0. eapply firstn_In. exact Hp. }
    destruct (save_verify_valid t' files dirs wc Hinvc HGc Hf Hds Hexc) as [Hv1 [_ [Hg1 [Hfr1 _]]]].
    fold p1 in Hv1, Hg1, Hfr1.
    split; [exact Hv1|]. split; [|split].
    - intros m. now apply valid_prefix_crash_inv.
    - intros o.
      assert (Hdec : save_req files dirs o \/ ~ save_req files dirs o).
      { unfold AddStepsRecover.save_req. destruct (in_dec oid_dec o (map fst files)); [now left; left|].
        destruct (in_dec oid_dec o (map fst dirs)); [now left; right|]. right. intros [?|?]; contradiction. }
      destruct Hdec as [Hin|Hn].
      + apply (good_unique bytes H H_inj); [now apply Hg1 | now apply Hg0].
      + rewrite Hfr1 by exact Hn. rewrite Hfr0 by exact Hn. unfold wc. rewrite (crash_obj bytes).
        apply obj_run_other. intros s Hs Ho. apply Hn. eapply Hoid0; [eapply firstn_In; exact Hs | exact Ho].
    - exact Hg1.
  Qed.
End RV.
