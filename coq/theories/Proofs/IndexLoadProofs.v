(* C17 - transparency of lazy loading: every access operation answers from a region of the index
   that its own loads have completed, so its answer equals the answer of the fully loaded index. *)
From Coq Require Import NArith PeanoNat List Bool Lia.
From DvcData Require Import Base.Val Model.IndexLoad Proofs.IndexLoadBase.
Import ListNotations.
Open Scope N_scope.

Section Transparency.
  Variable E : env.
  Notation ok := (ok E).
  Notation F := (load_all E).

  (* the premise of the property: nothing is stored beneath (or twice at) an unloaded directory *)
  Definition wf (i : idx) : Prop :=
    forall x y, In x i -> In y i -> loadable E x = true -> is_prefix (fst x) (fst y) = true -> y = x.

  Lemma wf_load_where s i : ok i -> wf i -> wf (load_where E s i).
  Proof.
    intros Hok Hwf.
    intros x' y' Hx' Hy' L P.
    destruct (loadable_after E s i x' Hok Hx' L) as [Hxi Sx].
    apply load_where_in in Hy' as [y [Hyi Hy']].
    destruct (s y) eqn:Sy.
    - destruct (expand_cases E y) as [Hex|[Ly [rows [R Hex]]]]; rewrite Hex in Hy'.
      + destruct Hy' as [<-|[]]. now apply Hwf.
      + exfalso. destruct Hy' as [<-|Hc].
        * simpl in P. rewrite (Hwf x' y Hxi Hyi L P) in Sy. congruence.
        * destruct (child_key _ _ _ Hc) as [sfx Hk]. rewrite Hk in P.
          destruct (prefix_of_app _ _ _ P) as [P'|P'].
          -- rewrite (Hwf x' y Hxi Hyi L P') in Sy. congruence.
          -- rewrite <- (Hwf y x' Hyi Hxi Ly P') in Sy. congruence.
    - destruct Hy' as [<-|[]]. now apply Hwf.
  Qed.

  (* no unloaded directory strictly above k / at or above k *)
  Definition NSP (i : idx) (k : key) : Prop :=
    forall x, In x i -> loadable E x = true -> strict_prefix (fst x) k = false.
  Definition NP (i : idx) (k : key) : Prop :=
    forall x, In x i -> loadable E x = true -> is_prefix (fst x) k = false.

  Lemma NP_NSP i k : NP i k -> NSP i k.
  Proof. intros H x Hx L. unfold strict_prefix. now rewrite (H x Hx L). Qed.
  Lemma NP_child i k n : NP i k -> NSP i (k ++ [n]).
  Proof.
    intros H x Hx L. destruct (strict_prefix (fst x) (k ++ [n])) eqn:S; [|reflexivity]. exfalso.
    apply strict_prefix_spec in S as [S1 S2]. pose proof (H x Hx L) as NPx.
    remember (fst x) as kx eqn:Ekx. clear Ekx.
    destruct (prefix_of_app _ _ _ S1) as [P|P]; [congruence|].
    pose proof (is_prefix_length _ _ S1) as L2. rewrite app_length in L2. simpl in L2.
    apply is_prefix_spec in P as [t ->]. rewrite app_length in L2.
    destruct t as [|a t].
    - rewrite app_nil_r, is_prefix_refl in NPx. discriminate.
    - destruct t; [|simpl in L2; lia].
      apply is_prefix_spec in S1 as [u Hu]. rewrite <- app_assoc in Hu. apply app_inv_head in Hu.
      simpl in Hu. injection Hu as -> _. now apply S2.
  Qed.

  (* ---- lookups and node tests do not see loads elsewhere ---- *)
  Lemma lookup_app l1 l2 k : (forall x, In x l1 -> fst x <> k) -> lookup (l1 ++ l2) k = lookup l2 k.
  Proof.
    induction l1 as [|[k' e] l1 IH]; intros H; [reflexivity|]. simpl.
    destruct (key_eqb k k') eqn:Q.
    - apply key_eqb_eq in Q. exfalso. apply (H (k', e)); [now left | now subst].
    - apply IH. intros; apply H; now right.
  Qed.

  Lemma lookupS_load s i k : NSP i k -> lookupS (load_where E s i) k = lookupS i k.
  Proof.
    unfold lookupS, load_where. induction i as [|[k' e] i IH]; intros H; [reflexivity|].
    assert (NSP i k) as H' by (intros x Hx; apply H; now right).
    simpl flat_map.
    destruct (s (k', e) && loadable E (k', e)) eqn:SL.
    - apply andb_true_iff in SL as [S L]. rewrite S.
      destruct (expand_cases E (k', e)) as [->|[_ [rows [_ ->]]]].
      + simpl. destruct (key_eqb k k'); [reflexivity | now apply IH].
      + simpl. destruct (key_eqb k k') eqn:Q; [reflexivity|].
        rewrite lookup_app; [now apply IH|].
        intros c Hc Hk. destruct (child_key _ _ _ Hc) as [sfx Hs]. simpl in Hs.
        pose proof (H (k', e) (or_introl eq_refl) L) as C.
        assert (strict_prefix k' k = true) as C'.
        { apply strict_prefix_spec. split.
          - rewrite <- Hk, Hs. apply is_prefix_app.
          - intros ->. now rewrite key_eqb_refl in Q. }
        simpl in C. congruence.
    - destruct (s (k', e)) eqn:S.
      + simpl in SL. rewrite (expand_fix E _ SL). simpl. destruct (key_eqb k k'); [reflexivity | now apply IH].
      + simpl. destruct (key_eqb k k'); [reflexivity | now apply IH].
  Qed.

  Lemma has_node_load s i k : NSP i k -> has_node (load_where E s i) k = has_node i k.
  Proof.
    intros H. unfold has_node.
    destruct (existsb (fun x => is_prefix k (fst x)) i) eqn:R.
    - apply existsb_exists in R as [x [Hx P]]. apply existsb_exists.
      destruct (s x) eqn:S.
      + destruct (expand_cases E x) as [Hex|[_ [rows [_ Hex]]]].
        * exists x. split; [|assumption]. apply load_where_in. exists x. rewrite S, Hex. split; [assumption | now left].
        * exists (fst x, mark (snd x)). split; [|assumption].
          apply load_where_in. exists x. rewrite S, Hex. split; [assumption | now left].
      + exists x. split; [|assumption]. apply load_where_in. exists x. rewrite S. split; [assumption | now left].
    - apply not_true_is_false. intros C. apply existsb_exists in C as [y [Hy P]].
      apply load_where_in in Hy as [x [Hx Hy]].
      assert (is_prefix k (fst x) = false) as NX.
      { destruct (is_prefix k (fst x)) eqn:Q; [|reflexivity].
        rewrite <- R. symmetry. apply existsb_exists. now exists x. }
      destruct (s x).
      + destruct (expand_cases E x) as [Hex|[L [rows [_ Hex]]]]; rewrite Hex in Hy.
        * destruct Hy as [<-|[]]. congruence.
        * destruct Hy as [<-|Hc]; [simpl in P; congruence|].
          destruct (child_key _ _ _ Hc) as [sfx Hs]. rewrite Hs in P.
          destruct (prefix_of_app _ _ _ P) as [P'|P']; [congruence|].
          pose proof (H x Hx L) as C. unfold strict_prefix in C. rewrite P' in C. simpl in C.
          apply negb_false_iff, key_eqb_eq in C. rewrite C, is_prefix_refl in NX. discriminate.
      + destruct Hy as [<-|[]]. congruence.
  Qed.

  Lemma is_node_load s i k : NSP i k -> is_node (load_where E s i) k = is_node i k.
  Proof. intros H. destruct k; [reflexivity|]. simpl. now apply has_node_load. Qed.

  Lemma get_q_load s i k : NSP i k -> get_q k (load_where E s i) = get_q k i.
  Proof. intros H. unfold get_q. now rewrite lookupS_load, is_node_load. Qed.

  (* ---- longest valued prefix ---- *)
  Lemma lp_spec i k :
    match lp i k with
    | None => forall x, In x i -> is_prefix (fst x) k = false
    | Some d => (exists z, In z i /\ fst z = d) /\ is_prefix d k = true /\
                forall x, In x i -> is_prefix (fst x) k = true -> (length (fst x) <= length d)%nat
    end.
  Proof.
    unfold lp.
    match goal with |- context [fold_left ?g i None] => set (f := g) end.
    assert (forall l best,
              match fold_left f l best with
              | None => best = None /\ forall x, In x l -> is_prefix (fst x) k = false
              | Some d => ((exists z, In z l /\ fst z = d) \/ best = Some d) /\
                          (is_prefix d k = true \/ best = Some d) /\
                          (forall x, In x l -> is_prefix (fst x) k = true -> (length (fst x) <= length d)%nat) /\
                          (forall b, best = Some b -> (length b <= length d)%nat)
              end) as G.
    { induction l as [|x l IH]; intros best; simpl.
      - destruct best; [|split; [reflexivity | intros ? []]].
        repeat split; try (now right); [intros ? [] | intros b [= ->]; lia].
      - specialize (IH (f best x)). destruct (fold_left f l (f best x)) as [d|].
        + destruct IH as [I1 [I2 [I3 I4]]]. unfold f in I1, I2, I4 at 1.
          destruct (is_prefix (fst x) k) eqn:P.
          * destruct best as [b|].
            -- destruct (Nat.ltb (length b) (length (fst x))) eqn:LT.
               ++ apply Nat.ltb_lt in LT. pose proof (I4 _ eq_refl) as I5. repeat split.
                  ** left. destruct I1 as [[z [Hz Hd]]|[= <-]]; [exists z; split; [now right|assumption] | exists x; split; [now left|reflexivity]].
                  ** left. destruct I2 as [?|[= <-]]; assumption.
                  ** intros y [<-|Hy] Py; [assumption | now apply I3].
                  ** intros b' [= <-]. lia.
               ++ apply Nat.ltb_ge in LT. pose proof (I4 _ eq_refl) as I5. repeat split.
                  ** destruct I1 as [[z [Hz Hd]]|I1]; [left; exists z; split; [now right|assumption] | now right].
                  ** assumption.
                  ** intros y [<-|Hy] Py; [lia | now apply I3].
                  ** intros b' [= <-]. assumption.
            -- pose proof (I4 _ eq_refl) as I5. repeat split.
               ++ left. destruct I1 as [[z [Hz Hd]]|[= <-]]; [exists z; split; [now right|assumption] | exists x; split; [now left|reflexivity]].
               ++ left. destruct I2 as [?|[= <-]]; assumption.
               ++ intros y [<-|Hy] Py; [assumption | now apply I3].
               ++ intros b' [=].
          * repeat split.
            -- destruct I1 as [[z [Hz Hd]]|I1]; [left; exists z; split; [now right|assumption] | now right].
            -- assumption.
            -- intros y [<-|Hy] Py; [congruence | now apply I3].
            -- assumption.
        + destruct IH as [I1 I2]. unfold f in I1.
          destruct (is_prefix (fst x) k) eqn:P.
          * destruct best as [b|]; [destruct (Nat.ltb _ _)|]; discriminate.
          * split; [assumption|]. intros y [<-|Hy]; [assumption | now apply I2].
    }
    specialize (G i None). destruct (fold_left f i None) as [d|].
    - destruct G as [[G1|G1] [[G2|G2] [G3 _]]]; try discriminate. repeat split; assumption.
    - now destruct G.
  Qed.

  Lemma lookup_in i k e : lookup i k = Some e -> In (k, e) i.
  Proof.
    induction i as [|[k' e'] i IH]; simpl; [discriminate|].
    destruct (key_eqb k k') eqn:Q.
    - apply key_eqb_eq in Q. intros [= ->]. left. now subst.
    - intros H. right. now apply IH.
  Qed.
  Lemma lookup_none i k x : lookup i k = None -> In x i -> fst x <> k.
  Proof.
    induction i as [|[k' e'] i IH]; simpl; [intros _ []|].
    destruct (key_eqb k k') eqn:Q; [discriminate|].
    intros H [<-|Hx].
    - simpl. intros ->. now rewrite key_eqb_refl in Q.
    - now apply IH.
  Qed.

  (* after the loads of __getitem__ / of iteritems' first step nothing unloaded is above k *)
  Lemma lp_post i k : ok i -> wf i -> NSP (load_where E (s_lp i k) i) k.
  Proof.
    intros Hok Hwf x Hx L.
    destruct (loadable_after E _ i x Hok Hx L) as [Hxi Sx].
    destruct (strict_prefix (fst x) k) eqn:SP; [|reflexivity]. exfalso.
    apply strict_prefix_spec in SP as [P NE].
    unfold s_lp in Sx. pose proof (lp_spec i k) as LP.
    destruct (lp i k) as [d|]; [|rewrite (LP x Hxi) in P; discriminate].
    destruct LP as [[z [Hz Hd]] [Pd Max]].
    pose proof (Max x Hxi P) as Len.
    destruct (prefix_comparable _ _ _ P Pd) as [C|C].
    - rewrite <- Hd in C. pose proof (Hwf x z Hxi Hz L C) as ->.
      unfold s_key in Sx. rewrite Hd, key_eqb_refl in Sx. discriminate.
    - pose proof (is_prefix_length _ _ C). apply is_prefix_spec in C as [t Ht].
      rewrite Ht, app_length in Len. destruct t; [|simpl in Len; lia].
      rewrite app_nil_r in Ht. unfold s_key in Sx. rewrite Ht, key_eqb_refl in Sx. discriminate.
  Qed.

  Lemma get_post i k : ok i -> wf i -> NSP (load_where E (get_sel i k) i) k.
  Proof.
    intros Hok Hwf0. unfold get_sel. destruct (lookup i k) as [e|] eqn:Lk; [|now apply lp_post].
    pose proof Hwf0 as Hwf. intros x Hx L. destruct (loadable_after E _ i x Hok Hx L) as [Hxi _].
    destruct (strict_prefix (fst x) k) eqn:SP; [|reflexivity]. exfalso.
    apply strict_prefix_spec in SP as [P NE]. apply lookup_in in Lk.
    pose proof (Hwf x (k, e) Hxi Lk L P) as Q. apply NE. now rewrite <- Q.
  Qed.

  (* ---- the common shape of a step ---- *)
  Lemma guarded_lazy {A} s i (q : idx -> res A) : ok i ->
    guarded E s i q = (load_where E s i, q (load_where E s i)).
  Proof. intros H. unfold guarded. now rewrite ok_not_blocked. Qed.
  Lemma guarded_full {A} s i (q : idx -> res A) : ok i -> guarded E s (F i) q = (F i, q (F i)).
  Proof.
    intros H. unfold guarded. rewrite ok_not_blocked by now apply ok_load_where.
    now rewrite load_where_full.
  Qed.

  (* [stable q i]: the query already sees in i what it would see in the fully loaded index *)
  Definition stable {A} (q : idx -> A) (i : idx) : Prop := q (F i) = q i.

  Lemma get_stable i k : NSP i k -> stable (get_q k) i.
  Proof. intros H. unfold stable, load_all. now apply get_q_load. Qed.

  (* simulation of a typed step: same answer, the lazy state moves by loads only, the full state stays *)
  Definition sim {A} (st : idx -> idx * res A) : Prop :=
    forall i, ok i -> wf i ->
      (exists s, fst (st i) = load_where E s i) /\ snd (st i) = snd (st (F i)) /\ fst (st (F i)) = F i.

  Lemma get_sim k : sim (fun i => get_step E i k).
  Proof.
    intros i Hok Hwf. unfold get_step. rewrite guarded_lazy, guarded_full by assumption. simpl.
    split; [eauto|]. split; [|reflexivity].
    pose proof (get_stable _ k (get_post i k Hok Hwf)) as S. unfold stable in S.
    now rewrite load_all_absorbs in S.
  Qed.

  (* ---- ls ---- *)
  Lemma child_name_spec k k' n : In n (child_name k k') <-> exists t, k' = k ++ n :: t.
  Proof.
    unfold child_name. destruct (is_prefix k k') eqn:P.
    - apply is_prefix_spec in P as [s ->]. rewrite skipn_app, skipn_all, Nat.sub_diag. simpl.
      destruct s as [|m t]; simpl.
      + split; [intros [] | intros [t Ht]]. apply app_inv_head in Ht. discriminate.
      + split; [intros [<-|[]]; now exists t | intros [t' Ht]; apply app_inv_head in Ht; left; congruence].
    - split; [intros [] | intros [t ->]]. rewrite is_prefix_app in P. discriminate.
  Qed.

  Lemma names_load s i k : NP i k -> forall n,
    In n (flat_map (fun x => child_name k (fst x)) (load_where E s i)) <->
    In n (flat_map (fun x => child_name k (fst x)) i).
  Proof.
    intros H n. rewrite !in_flat_map. split.
    - intros [y [Hy Hn]]. apply load_where_in in Hy as [x [Hx Hy]].
      destruct (s x).
      + destruct (expand_cases E x) as [Hex|[L [rows [_ Hex]]]]; rewrite Hex in Hy.
        * destruct Hy as [<-|[]]. eauto.
        * destruct Hy as [<-|Hc]; [eauto|].
          destruct (child_key _ _ _ Hc) as [sfx Hs]. exists x. split; [assumption|].
          apply child_name_spec in Hn as [t Ht]. apply child_name_spec.
          (* fst x ++ sfx = k ++ n :: t and fst x is not a prefix of k *)
          rewrite Hs in Ht.
          assert (is_prefix k (fst x ++ sfx) = true) as P by (rewrite Ht; apply is_prefix_app).
          destruct (prefix_of_app _ _ _ P) as [P'|P']; [|now rewrite (H x Hx L) in P'].
          apply is_prefix_spec in P' as [u Hu]. rewrite Hu in Ht. rewrite <- app_assoc in Ht.
          apply app_inv_head in Ht. destruct u as [|m u].
          -- exfalso. rewrite app_nil_r in Hu. pose proof (H x Hx L) as C.
             rewrite Hu, is_prefix_refl in C. discriminate.
          -- simpl in Ht. injection Ht as -> _. now exists u.
      + destruct Hy as [<-|[]]. eauto.
    - intros [x [Hx Hn]]. destruct (s x) eqn:S.
      + destruct (expand_cases E x) as [Hex|[_ [rows [_ Hex]]]].
        * exists x. split; [|assumption]. apply load_where_in. exists x. rewrite S, Hex. split; [assumption|now left].
        * exists (fst x, mark (snd x)). split; [|assumption].
          apply load_where_in. exists x. rewrite S, Hex. split; [assumption|now left].
      + exists x. split; [|assumption]. apply load_where_in. exists x. rewrite S. split; [assumption|now left].
  Qed.

  Lemma ls_q_load s i k : NP i k -> ls_q k (load_where E s i) = ls_q k i.
  Proof.
    intros H. unfold ls_q. rewrite is_node_load by now apply NP_NSP.
    destruct (is_node i k); [|reflexivity]. f_equal. unfold children_q.
    rewrite (usort_names_ext _ _ (names_load s i k H)).
    apply map_ext. intros n. f_equal. apply lookupS_load. now apply NP_child.
  Qed.

  Lemma ensure_post i k : ok i -> wf i -> NSP i k -> NP (load_where E (ensure_sel k i) i) k.
  Proof.
    intros Hok Hwf H x Hx L. destruct (loadable_after E _ i x Hok Hx L) as [Hxi Sx].
    destruct (is_prefix (fst x) k) eqn:P; [|reflexivity]. exfalso.
    pose proof (H x Hxi L) as C. unfold strict_prefix in C. rewrite P in C. simpl in C.
    apply negb_false_iff, key_eqb_eq in C.
    unfold ensure_sel in Sx. destruct (lookup i k) as [e|] eqn:Lk.
    - apply lookup_in in Lk. rewrite <- C in Lk at 1.
      assert ((k, e) = x) as Q by (apply (Hwf x (k, e) Hxi); [now rewrite <- C | assumption | rewrite C; apply is_prefix_refl]).
      unfold loadable in L. rewrite <- Q in L. simpl in L.
      apply andb_true_iff in L as [L1 _]. apply andb_true_iff in L1 as [L1 L2].
      rewrite L2, L1 in Sx. simpl in Sx. unfold s_key in Sx. rewrite <- C, key_eqb_refl in Sx. discriminate.
    - apply (lookup_none i k x Lk Hxi C).
  Qed.

  Lemma ls_sim k : sim (fun i => ls_step E i k).
  Proof.
    intros i Hok Hwf. unfold ls_step.
    destruct (get_sim k i Hok Hwf) as [[s1 G1] [G2 G3]].
    destruct (get_step E i k) as [i1 r] eqn:Ga. destruct (get_step E (F i) k) as [j1 r'] eqn:Gb.
    simpl in G1, G2, G3. subst i1 j1 r'.
    assert (ok (load_where E s1 i)) as Hok1 by now apply ok_load_where.
    assert (wf (load_where E s1 i)) as Hwf1 by now apply wf_load_where.
    assert (NSP (load_where E s1 i) k) as N1.
    { unfold get_step in Ga. rewrite guarded_lazy in Ga by assumption. injection Ga as <- _.
      now apply get_post. }
    assert (forall n, r = Err n \/ True) as _ by auto.
    assert (let st := guarded E (ensure_sel k (load_where E s1 i)) (load_where E s1 i) (ls_q k) in
            (exists s, fst st = load_where E s i) /\
            snd st = snd (guarded E (ensure_sel k (F i)) (F i) (ls_q k)) /\
            fst (guarded E (ensure_sel k (F i)) (F i) (ls_q k)) = F i) as G.
    { rewrite guarded_lazy by assumption. rewrite guarded_full by assumption. simpl. split; [|split; [|reflexivity]].
      - rewrite load_where_fuse. eauto.
      - pose proof (ensure_post _ k Hok1 Hwf1 N1) as NPk.
        rewrite <- (ls_q_load s_all _ k NPk). fold (load_all E).
        now rewrite !load_all_absorbs. }
    destruct r as [oe|n].
    - exact G.
    - destruct (N.eqb n 11) eqn:Q.
      + apply N.eqb_eq in Q. subst n. simpl. split; [eauto | split; reflexivity].
      + assert (forall (X : Type) (a b : X), match n with 11 => a | _ => b end = b) as M.
        { intros X a b. destruct n as [|p]; [reflexivity|].
          do 4 (destruct p as [p|p|]; try reflexivity). simpl in Q. discriminate. }
        rewrite !M. exact G.
  Qed.

  (* ---- iteration ---- *)
  Lemma key_in_load s i x : In x i -> In (fst x) (map fst (load_where E s i)).
  Proof.
    intros Hx. apply in_map_iff. destruct (s x) eqn:S.
    - destruct (expand_cases E x) as [Hex|[_ [rows [_ Hex]]]].
      + exists x. split; [reflexivity|]. apply load_where_in. exists x. rewrite S, Hex. split; [assumption|now left].
      + exists (fst x, mark (snd x)). split; [reflexivity|].
        apply load_where_in. exists x. rewrite S, Hex. split; [assumption|now left].
    - exists x. split; [reflexivity|]. apply load_where_in. exists x. rewrite S. split; [assumption|now left].
  Qed.
  Lemma key_of_load s i z : In z (map fst (load_where E s i)) ->
    In z (map fst i) \/ exists x sfx, In x i /\ loadable E x = true /\ z = fst x ++ sfx.
  Proof.
    intros Hz. apply in_map_iff in Hz as [y [<- Hy]]. apply load_where_in in Hy as [x [Hx Hy]].
    destruct (s x).
    - destruct (expand_cases E x) as [Hex|[L [rows [_ Hex]]]]; rewrite Hex in Hy.
      + destruct Hy as [<-|[]]. left. now apply in_map.
      + destruct Hy as [<-|Hc]; [left; now apply (in_map fst) in Hx|].
        destruct (child_key _ _ _ Hc) as [sfx Hs]. right. exists x, sfx. auto.
    - destruct Hy as [<-|[]]. left. now apply in_map.
  Qed.

  (* nothing unloaded at, above or below p *)
  Definition clear_of (i : idx) (p : key) : Prop :=
    forall x, In x i -> loadable E x = true -> is_prefix (fst x) p = false /\ is_prefix p (fst x) = false.

  Lemma items_q_load s i p : clear_of i p -> items_q p false (load_where E s i) = items_q p false i.
  Proof.
    intros H. unfold items_q. f_equal. simpl.
    assert (forall z, In z (filter (fun k => is_prefix p k && true) (map fst (load_where E s i))) <->
                      In z (filter (fun k => is_prefix p k && true) (map fst i))) as K.
    { intros z. rewrite !filter_In. split; intros [Hz P]; split; try assumption.
      - destruct (key_of_load s i z Hz) as [?|[x [sfx [Hx [L ->]]]]]; [assumption|]. exfalso.
        rewrite andb_true_r in P. destruct (H x Hx L) as [H1 H2].
        destruct (prefix_of_app _ _ _ P); congruence.
      - apply in_map_iff in Hz as [x [<- Hx]]. now apply key_in_load. }
    rewrite (usort_keys_ext _ _ K). apply map_ext_in. intros z Hz. f_equal.
    apply lookupS_load. intros x Hx L.
    apply usort_in in Hz; [|apply key_total]. apply filter_In in Hz as [_ P]. rewrite andb_true_r in P.
    destruct (strict_prefix (fst x) z) eqn:SP; [|reflexivity]. exfalso.
    apply strict_prefix_spec in SP as [P' _]. destruct (H x Hx L) as [H1 H2].
    destruct (prefix_comparable _ _ _ P' P); congruence.
  Qed.

  Lemma NSP_nil i : NSP i [].
  Proof.
    intros x _ _. unfold strict_prefix. destruct (fst x) as [|a t]; [reflexivity|]. reflexivity.
  Qed.

  Lemma items_post i p : ok i -> wf i -> NSP i p -> clear_of (load_where E (items_sel i p false) i) p.
  Proof.
    intros Hok Hwf N x Hx L. destruct (loadable_after E _ i x Hok Hx L) as [Hxi Sx].
    unfold items_sel in Sx. simpl in Sx. rewrite andb_true_r in Sx. split; [|assumption].
    destruct (is_prefix (fst x) p) eqn:P; [|reflexivity]. exfalso.
    pose proof (N x Hxi L) as C. unfold strict_prefix in C. rewrite P in C. simpl in C.
    apply negb_false_iff, key_eqb_eq in C. rewrite C, is_prefix_refl in Sx. discriminate.
  Qed.

  Lemma items_full i p : ok i ->
    items_step E (F i) p false =
    (F i, if negb (is_node (F i) p) then Err E_KEY else items_q p false (F i)).
  Proof.
    intros Hok. unfold items_step.
    rewrite (ok_not_blocked E _ (F i) (ok_load_where E s_all i Hok)).
    rewrite (load_where_full E _ i Hok).
    destruct (negb (is_node (F i) p)); [reflexivity|].
    now rewrite guarded_full.
  Qed.

  Lemma items_sim p : sim (fun i => items_step E i p false).
  Proof.
    intros i Hok Hwf. rewrite items_full by assumption. simpl.
    unfold items_step. rewrite (ok_not_blocked E _ i Hok).
    set (s1 := match p with [] => s_none | _ :: _ => s_lp i p end).
    assert (NSP (load_where E s1 i) p) as N1.
    { subst s1. destruct p; [apply NSP_nil | now apply lp_post]. }
    assert (ok (load_where E s1 i)) as Hok1 by now apply ok_load_where.
    assert (wf (load_where E s1 i)) as Hwf1 by now apply wf_load_where.
    assert (is_node (F i) p = is_node (load_where E s1 i) p) as NQ.
    { rewrite <- (load_all_absorbs E s1 i). unfold load_all. now apply is_node_load. }
    rewrite NQ. destruct (negb (is_node (load_where E s1 i) p)).
    - simpl. split; [eauto | split; reflexivity].
    - rewrite guarded_lazy by assumption. simpl. split; [|split; [|reflexivity]].
      + rewrite load_where_fuse. eauto.
      + pose proof (items_post _ p Hok1 Hwf1 N1) as C.
        rewrite <- (items_q_load s_all _ p C). fold (load_all E). now rewrite !load_all_absorbs.
  Qed.

  (* ---- the filtered view ---- *)
  Lemma inits_ne_app a b : inits_ne (a ++ b) = inits_ne a ++ map (app a) (inits_ne b).
  Proof.
    induction a as [|x a IH]; simpl; [now rewrite map_id|].
    rewrite IH, map_app, map_map. reflexivity.
  Qed.
  Lemma pathok_prefix f a b : a <> [] -> pathok f (a ++ b) = true -> pathok f a = true.
  Proof.
    intros NE. unfold pathok. destruct a as [|x a]; [congruence|]. simpl app.
    change (x :: a ++ b) with ((x :: a) ++ b). rewrite inits_ne_app, forallb_app.
    intros H. apply andb_true_iff in H as [H _]. exact H.
  Qed.

  Lemma view_q_load s i f :
    (forall x, In x i -> loadable E x = true -> fst x <> [] /\ pathok f (fst x) = false) ->
    view_items_q f (load_where E s i) = view_items_q f i.
  Proof.
    intros H. unfold view_items_q. f_equal.
    assert (forall z, In z (filter (pathok f) (map fst (load_where E s i))) <->
                      In z (filter (pathok f) (map fst i))) as K.
    { intros z. rewrite !filter_In. split; intros [Hz P]; split; try assumption.
      - destruct (key_of_load s i z Hz) as [?|[x [sfx [Hx [L ->]]]]]; [assumption|]. exfalso.
        destruct (H x Hx L) as [NR C]. rewrite (pathok_prefix f _ _ NR P) in C. discriminate.
      - apply in_map_iff in Hz as [x [<- Hx]]. now apply key_in_load. }
    rewrite (usort_keys_ext _ _ K). apply map_ext_in. intros z Hz. f_equal.
    apply lookupS_load. intros x Hx L.
    apply usort_in in Hz; [|apply key_total]. apply filter_In in Hz as [_ P].
    destruct (strict_prefix (fst x) z) eqn:SP; [|reflexivity]. exfalso.
    apply strict_prefix_spec in SP as [P' _]. apply is_prefix_spec in P' as [sfx ->].
    destruct (H x Hx L) as [NR C]. rewrite (pathok_prefix f _ _ NR P) in C. discriminate.
  Qed.

  Lemma listing_isdir e rows : listing_of E e = Some rows -> hi_isdir (e_hash e) = true.
  Proof.
    unfold listing_of. destruct (e_hash e) as [h|]; [|discriminate].
    destruct (hi_isdir (Some h)); [reflexivity | discriminate].
  Qed.

  Lemma view_items_sim f : sim (fun i => view_items_step E i f).
  Proof.
    intros i Hok Hwf. unfold view_items_step.
    rewrite guarded_lazy, guarded_full by assumption. simpl. split; [eauto | split; [|reflexivity]].
    rewrite <- (view_q_load s_all (load_where E (view_sel f) i) f).
    - fold (load_all E). now rewrite load_all_absorbs.
    - intros x Hx L. destruct (loadable_after E _ i x Hok Hx L) as [Hxi Sx].
      unfold view_sel in Sx.
      pose proof (Hok x Hxi L) as R. destruct (listing_of E (snd x)) as [rows|] eqn:Q; [|congruence].
      rewrite (listing_isdir _ _ Q), andb_true_r in Sx.
      destruct (fst x) as [|a t]; [discriminate|]. split; [discriminate | exact Sx].
  Qed.

  (* ---- composing simulations ---- *)
  Lemma sim_after {A B} (st1 : idx -> idx * res A) (st2 : res A -> idx -> idx * res B) :
    sim st1 -> (forall r, sim (st2 r)) ->
    sim (fun i => let '(i1, r) := st1 i in st2 r i1).
  Proof.
    intros S1 S2 i Hok Hwf. destruct (S1 i Hok Hwf) as [[s1 G1] [G2 G3]].
    destruct (st1 i) as [i1 r] eqn:Ea. destruct (st1 (F i)) as [j1 r'] eqn:Eb.
    simpl in G1, G2, G3. subst i1 j1 r'.
    destruct (S2 r (load_where E s1 i) (ok_load_where E s1 i Hok) (wf_load_where s1 i Hok Hwf))
      as [[s2 H1] [H2 H3]].
    rewrite load_all_absorbs in H2, H3. split; [|split; assumption].
    exists (fun x => s1 x || s2 x). now rewrite H1, load_where_fuse.
  Qed.

  Lemma sim_ret {A} (r : res A) : sim (fun i => (i, r)).
  Proof.
    intros i _ _. simpl. split; [|split; reflexivity].
    exists s_none. symmetry. unfold load_where. induction i as [|x i IH]; [reflexivity|].
    simpl. f_equal. exact IH.
  Qed.

  Lemma sim_map {A B} (st : idx -> idx * res A) (g : res A -> res B) :
    sim st -> sim (fun i => let '(i1, r) := st i in (i1, g r)).
  Proof.
    intros S. apply (sim_after st (fun r i1 => (i1, g r)) S). intros r. apply sim_ret.
  Qed.

  Lemma fs_info_sim p : sim (fun i => fs_info_step E i p).
  Proof. unfold fs_info_step. apply sim_map. apply get_sim. Qed.

  Lemma fs_read_sim p : sim (fun i => fs_read_step E i p).
  Proof.
    unfold fs_read_step.
    apply (sim_map (fun i => get_step E i (fs_key p))
             (fun r => match r with
                       | Err n => nf_err (Err n)
                       | Ok None => Err E_ISDIR
                       | Ok (Some e) =>
                           if isdir_raw (norm e) then Err E_ISDIR
                           else if under_sp E (fs_key p) && hi_truthy (e_hash e) then
                                  match e_hash e with
                                  | Some h => match blob_of E h with Some b => Ok b | None => Err E_NOTFOUND end
                                  | None => Err E_NOTFOUND
                                  end
                                else Err E_NOTFOUND
                       end)).
    apply get_sim.
  Qed.

  Lemma fs_ls_sim p : sim (fun i => fs_ls_step E i p).
  Proof.
    unfold fs_ls_step.
    apply (sim_after (fun i => get_step E i (fs_key p))
             (fun r i1 => match r with
                          | Err n => (i1, nf_err (Err n))
                          | Ok oe =>
                              if info_isdir oe then
                                let '(i2, r2) := ls_step E i1 (fs_key p) in
                                (i2, match r2 with
                                     | Ok l => Ok (map (fun c : key * option entry => (pjoin p (last (fst c) []), snd c)) l)
                                     | Err n => nf_err (Err n)
                                     end)
                              else (i1, Ok [(join_sep slash (fs_key p), oe)])
                          end)).
    - apply get_sim.
    - intros [oe|n]; [|apply sim_ret]. destruct (info_isdir oe); [|apply sim_ret].
      apply (sim_map (fun i => ls_step E i (fs_key p))). apply ls_sim.
  Qed.

  Lemma view_ls_sim f k : sim (fun i => view_ls_step E i f k).
  Proof. unfold view_ls_step. apply sim_map. apply ls_sim. Qed.

  (* ---- operations ---- *)
  Definition vsim (o : op) : Prop :=
    forall i, ok i -> wf i ->
      (exists s, fst (step E i o) = load_where E s i) /\
      snd (step E i o) = snd (step E (F i) o) /\ fst (step E (F i) o) = F i.

  Lemma sim_vsim {A} (st : idx -> idx * res A) (enc : res A -> val) o :
    (forall i, step E i o = let '(i', r) := st i in (i', enc r)) -> sim st -> vsim o.
  Proof.
    intros Hs S i Hok Hwf. rewrite !Hs. destruct (S i Hok Hwf) as [G1 [G2 G3]].
    destruct (st i) as [i1 r]. destruct (st (F i)) as [j1 r']. simpl in *. subst. auto.
  Qed.
End Transparency.
