(* C14, third part: the sniff is stable under LF -> CR LF (a text stays a text), so the CRLF/LF
   theorem can be stated with hypotheses on the LF text only. *)
From Coq Require Import NArith ZArith List Bool Lia ZifyBool ZifyNat ZifyN.
From DvcData Require Import Base.Val Base.PyBase Base.PyStream Gen.Hash Model.HashStream Proofs.HashStreamProofs Proofs.HashStreamProofs2.
Import ListNotations.
Open Scope N_scope.

Definition is_nontext (c : N) : bool := negb (existsb (N.eqb c) TEXT_CHARS).

Lemma nontext_filter b : nontext b = filter is_nontext b.
Proof. reflexivity. Qed.

Lemma contains_nul s : bytes_contains [0] s = existsb (N.eqb 0) s.
Proof.
  induction s as [|c s IH]; [reflexivity|].
  cbn [bytes_contains existsb starts_with]. rewrite IH.
  destruct s; cbn [starts_with]; now rewrite andb_true_r.
Qed.

Lemma existsb_firstn {A} (p : A -> bool) k l : existsb p l = false -> existsb p (firstn k l) = false.
Proof.
  revert k; induction l as [|a l IH]; intros [|k] H; cbn in *; auto.
  apply orb_false_iff in H as [Ha Hl]. rewrite Ha. cbn. now apply IH.
Qed.

Lemma filter_firstn_le {A} (p : A -> bool) k l :
  (length (filter p (firstn k l)) <= length (filter p l))%nat.
Proof.
  rewrite <- (firstn_skipn k l) at 2. rewrite filter_app, app_length. lia.
Qed.

Lemma unix2dos_app a b : unix2dos (a ++ b) = unix2dos a ++ unix2dos b.
Proof. unfold unix2dos. apply flat_map_app. Qed.

Lemma unix2dos_no_nul w : existsb (N.eqb 0) w = false -> existsb (N.eqb 0) (unix2dos w) = false.
Proof.
  induction w as [|c w IH]; [reflexivity|]. cbn [existsb]. intros H.
  apply orb_false_iff in H as [Hc Hw].
  change (unix2dos (c :: w)) with ((if N.eqb c 10 then [13; 10] else [c]) ++ unix2dos w).
  rewrite existsb_app, (IH Hw), orb_false_r.
  destruct (N.eqb c 10); cbn [existsb]; [reflexivity|]. now rewrite Hc.
Qed.

Lemma unix2dos_nontext w : length (filter is_nontext (unix2dos w)) = length (filter is_nontext w).
Proof.
  induction w as [|c w IH]; [reflexivity|].
  change (unix2dos (c :: w)) with ((if N.eqb c 10 then [13; 10] else [c]) ++ unix2dos w).
  rewrite filter_app, app_length, IH.
  destruct (N.eqb_spec c 10) as [->|Hc]; [reflexivity|].
  cbn [filter]. destruct (is_nontext c); reflexivity.
Qed.

(* the sniffing window of the CRLF variant is the window of the variant of the window *)
Lemma window_unix2dos u : firstn 512 (unix2dos u) = firstn 512 (unix2dos (firstn 512 u)).
Proof.
  destruct (Nat.le_gt_cases (length u) 512) as [Hle|Hgt].
  - now rewrite (firstn_all2 u) by exact Hle.
  - rewrite <- (firstn_skipn 512 u) at 1. rewrite unix2dos_app.
    assert (Hw : length (firstn 512 u) = 512%nat) by (rewrite firstn_length; lia).
    pose proof (unix2dos_length (firstn 512 u)) as Hl.
    rewrite firstn_app.
    replace (512 - length (unix2dos (firstn 512 u)))%nat with 0%nat by lia.
    cbn [firstn]. now rewrite app_nil_r.
Qed.

Lemma istext_nonempty_spec b : (length b <= 512)%nat -> b <> [] ->
  istextblock b = negb (existsb (N.eqb 0) b) && (10 * len (filter is_nontext b) <=? 3 * len b).
Proof.
  intros Hl Hne. rewrite (istextblock_spec b Hl). destruct b; [congruence|].
  now rewrite contains_nul, nontext_filter.
Qed.

Lemma text_window_stable_w w : (length w <= 512)%nat ->
  istextblock w = true -> istextblock (firstn 512 (unix2dos w)) = true.
Proof.
  intros Hwl H.
  destruct (list_eq_dec N.eq_dec w []) as [->|Hne]; [reflexivity|].
  pose proof (unix2dos_length w) as Hul.
  assert (Hlen' : length (firstn 512 (unix2dos w)) = Nat.min 512 (length (unix2dos w)))
    by apply firstn_length.
  assert (Hwl' : (length (firstn 512 (unix2dos w)) <= 512)%nat) by apply firstn_le_length.
  assert (Hwpos : (0 < length w)%nat) by (destruct w; [congruence|cbn; lia]).
  assert (Hne' : firstn 512 (unix2dos w) <> []).
  { intros E. rewrite E in Hlen'. cbn [length] in Hlen'. lia. }
  rewrite (istext_nonempty_spec w Hwl Hne) in H.
  rewrite (istext_nonempty_spec _ Hwl' Hne').
  apply andb_true_iff in H as [Hnul Hratio]. apply negb_true_iff in Hnul.
  apply andb_true_iff. split.
  - apply negb_true_iff. apply existsb_firstn. now apply unix2dos_no_nul.
  - pose proof (filter_firstn_le is_nontext 512 (unix2dos w)) as Hnt.
    rewrite unix2dos_nontext in Hnt.
    unfold len in *. lia.
Qed.

Lemma text_window_stable u :
  istextblock (firstn 512 u) = true -> istextblock (firstn 512 (unix2dos u)) = true.
Proof.
  intros H. rewrite window_unix2dos. apply text_window_stable_w; [apply firstn_le_length|exact H].
Qed.

(* CRLF / LF variants, hypotheses on the LF text only *)
Lemma crlf_lf_text u n :
  no_crlf u = true -> istextblock (firstn 512 u) = true ->
  (512 <= n)%Z -> (Z.of_nat (length (unix2dos u)) <= n)%Z ->
  exists s1 c1 s2 c2,
    fobj_md5 s_md5_dos2unix n (unix2dos u) [] = DriveOk s1 c1 /\
    fobj_md5 s_md5_dos2unix n u [] = DriveOk s2 c2 /\
    hs_hasher s1 = u /\ hs_hasher s2 = u /\
    concat c1 = unix2dos u /\ concat c2 = u.
Proof.
  intros Hu Ht Hn Hl. apply crlf_lf; auto. now apply text_window_stable.
Qed.

Example crlf_lf_text_nonvacuous :
  let u := [108; 49; 10; 13; 108; 50; 10] in
  no_crlf u = true /\ istextblock (firstn 512 u) = true /\ length (unix2dos u) = 9%nat.
Proof. vm_compute. repeat split; reflexivity. Qed.
