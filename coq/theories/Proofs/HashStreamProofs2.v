(* C14, second part: consumers with arbitrary read-size sequences, transparency of both stream
   classes, the legacy stream's driver, algorithm names, and the file-level "binary content is
   untouched" statement, which the faithful model refutes for contents of more than one read. *)
From Coq Require Import NArith ZArith List Bool Lia ZifyBool ZifyNat ZifyN.
From DvcData Require Import Base.Val Base.PyBase Base.PyStream Gen.Hash Model.HashStream Proofs.HashStreamProofs.
Import ListNotations.
Open Scope N_scope.

Local Notation rest s := (fo_rest (hs_fobj s)).
Definition nonempty (c : list N) : Prop := c <> [].

(* ------------------------------------------------------------------------------------- *)
(* fobj_md5's loop is the constant-size instance of drive_seq *)

Lemma drive_is_seq d2u chunk : forall fuel s acc,
  drive d2u chunk fuel s acc = drive_seq d2u (repeat chunk fuel) s acc.
Proof.
  induction fuel as [|fuel IH]; intros s acc; cbn [drive drive_seq repeat]; [reflexivity|].
  destruct (stream_read d2u s chunk) as [[data s']|]; [|reflexivity].
  destruct (is_nil data); [reflexivity|apply IH].
Qed.

(* ------------------------------------------------------------------------------------- *)
(* chunking independence: any sequence of non-zero read sizes, any short-read behaviour *)

Lemma drive_seq_plain : forall ns s acc,
  Forall (fun n => n <> 0%Z) ns ->
  (length (rest s) < length ns)%nat ->
  exists s' ch,
    drive_seq false ns s acc = DriveOk s' (rev acc ++ ch) /\
    concat ch = rest s /\
    Forall nonempty ch /\
    hs_hasher s' = hs_hasher s ++ rest s /\
    hs_total_read s' = hs_total_read s + len (rest s) /\
    rest s' = [].
Proof.
  induction ns as [|n ns IH]; intros s acc Hnz Hlen; [cbn in Hlen; lia|].
  inversion Hnz as [|? ? Hn Hns]; subst.
  cbn [drive_seq]. unfold stream_read. rewrite plain_read_spec.
  set (r := fobj_read (hs_fobj s) n).
  pose proof (fobj_read_split (hs_fobj s) n) as Hsplit. fold r in Hsplit.
  destruct (fst r) as [|c0 cr] eqn:Ec.
  - cbn [is_nil]. assert (Hr : rest s = []).
    { destruct (rest s) eqn:E; [reflexivity|].
      exfalso. apply (fobj_read_progress (hs_fobj s) n Hn); [rewrite E; discriminate|]. exact Ec. }
    eexists _, []. split; [rewrite (app_nil_r (rev acc)); reflexivity|].
    cbn [concat hs_hasher hs_total_read hs_fobj].
    rewrite Hr in *. cbn in Hsplit. rewrite ?app_nil_r. unfold len. cbn [length].
    repeat split; auto; lia.
  - cbn [is_nil].
    set (s1 := mk_hstream (snd r) (hs_hasher s ++ c0 :: cr) (hs_total_read s + len (c0 :: cr))).
    assert (Hlt : (length (rest s1) < length ns)%nat).
    { cbn [s1 hs_fobj]. rewrite <- Hsplit in Hlen. rewrite app_length in Hlen. cbn [length] in Hlen. lia. }
    destruct (IH s1 ((c0 :: cr) :: acc) Hns Hlt) as (s' & ch & Hd & Hcat & Hne & Hh & Ht & He).
    exists s', ((c0 :: cr) :: ch). split.
    { rewrite Hd. cbn [rev]. now rewrite <- app_assoc. }
    cbn [s1 hs_fobj hs_hasher hs_total_read] in *. cbn [concat]. rewrite Hcat, Hh, Ht, <- Hsplit.
    repeat split; auto.
    + constructor; [unfold nonempty; discriminate|assumption].
    + now rewrite <- app_assoc.
    + rewrite len_app. lia.
Qed.

Lemma chunking content cuts ns :
  Forall (fun n => n <> 0%Z) ns -> (length content < length ns)%nat ->
  exists s' ch,
    drive_seq false ns (init_stream content cuts) [] = DriveOk s' ch /\
    hs_hasher s' = content /\ concat ch = content /\ hs_total_read s' = len content /\
    rest s' = [] /\ Forall nonempty ch.
Proof.
  intros Hnz Hl.
  destruct (drive_seq_plain ns (init_stream content cuts) [] Hnz) as (s' & ch & Hd & Hcat & Hne & Hh & Ht & He);
    [cbn; lia|].
  exists s', ch. cbn in *. repeat split; auto.
Qed.

Example chunking_nonvacuous :
  exists s' ch, drive_seq false [2; 1; (-1); 7]%Z (init_stream [1; 2; 3; 4; 5] [1]) [] = DriveOk s' ch /\
                ch = [[1]; [2]; [3; 4; 5]] /\ hs_hasher s' = [1; 2; 3; 4; 5] /\ hs_total_read s' = 5.
Proof. eexists _, _. vm_compute. repeat split; reflexivity. Qed.

(* two consumers of one content end with the same hasher state, whatever they asked for *)
Lemma digest_independent (H : list N -> list N) content cuts1 cuts2 ns1 ns2 s1 c1 s2 c2 :
  Forall (fun n => n <> 0%Z) ns1 -> Forall (fun n => n <> 0%Z) ns2 ->
  (length content < length ns1)%nat -> (length content < length ns2)%nat ->
  drive_seq false ns1 (init_stream content cuts1) [] = DriveOk s1 c1 ->
  drive_seq false ns2 (init_stream content cuts2) [] = DriveOk s2 c2 ->
  digest H s1 = H content /\ digest H s2 = H content /\ concat c1 = concat c2.
Proof.
  intros N1 N2 L1 L2 E1 E2.
  destruct (chunking content cuts1 ns1 N1 L1) as (a & ca & Ea & Ha & Ca & _).
  destruct (chunking content cuts2 ns2 N2 L2) as (b & cb & Eb & Hb & Cb & _).
  rewrite E1 in Ea. rewrite E2 in Eb. injection Ea as <- <-. injection Eb as <- <-.
  unfold digest. rewrite Ha, Hb, Ca, Cb. auto.
Qed.

(* hash_file for an available plain algorithm: one digest over exactly the file's bytes *)
Lemma hash_file_plain avail name content :
  name_available avail name = true -> picks_dos2unix name = false ->
  exists s' ch, hash_file avail name content = HfOk name (DriveOk s' ch) /\
                hs_hasher s' = content /\ concat ch = content /\ hs_total_read s' = len content.
Proof.
  intros Ha Hp. unfold hash_file. rewrite Ha.
  destruct (fobj_md5_plain name DEFAULT_READ content [] Hp) as (s' & ch & E & Hh & Hc & Ht & _);
    [unfold DEFAULT_READ; lia|].
  exists s', ch. rewrite E. auto.
Qed.

Lemma hash_file_unavailable avail name content :
  name_available avail name = false -> hash_file avail name content = HfNotImplemented.
Proof. intros Ha. unfold hash_file. now rewrite Ha. Qed.

(* ------------------------------------------------------------------------------------- *)
(* transparency: with either class the consumer sees exactly the chunks, and leaves the file
   in exactly the state, that the same read sizes produce on the bare file object *)

Fixpoint fobj_reads (f : fobj) (ns : list Z) : list (list N) * fobj :=
  match ns with
  | [] => ([], f)
  | n :: r => let '(c, f') := fobj_read f n in
              let '(cs, f'') := fobj_reads f' r in (c :: cs, f'')
  end.

Lemma reads_transparent d2u : forall ns s acc s' ch,
  reads d2u s ns acc = Some (s', ch) ->
  ch = rev acc ++ fst (fobj_reads (hs_fobj s) ns) /\ hs_fobj s' = snd (fobj_reads (hs_fobj s) ns).
Proof.
  induction ns as [|n ns IH]; intros s acc s' ch H; cbn [reads fobj_reads] in *.
  - injection H as <- <-. cbn. now rewrite app_nil_r.
  - destruct (stream_read d2u s n) as [[data s1]|] eqn:E; [|discriminate].
    apply read_passthrough in E. destruct E as [-> Hf].
    apply IH in H. destruct H as [-> ->]. rewrite Hf.
    destruct (fobj_read (hs_fobj s) n) as [c f']. cbn [fst snd].
    destruct (fobj_reads f' ns) as [cs f'']. cbn [fst snd rev].
    now rewrite <- app_assoc.
Qed.

Lemma fobj_reads_split : forall ns f,
  concat (fst (fobj_reads f ns)) ++ fo_rest (snd (fobj_reads f ns)) = fo_rest f.
Proof.
  induction ns as [|n ns IH]; intros f; cbn [fobj_reads]; [reflexivity|].
  pose proof (fobj_read_split f n) as Hs.
  destruct (fobj_read f n) as [c f']. cbn [fst snd] in Hs.
  specialize (IH f'). destruct (fobj_reads f' ns) as [cs f'']. cbn [fst snd concat] in *.
  rewrite <- app_assoc, IH. exact Hs.
Qed.

Lemma reads_no_loss d2u ns s s' ch :
  reads d2u s ns [] = Some (s', ch) -> concat ch ++ rest s' = rest s.
Proof.
  intros H. apply reads_transparent in H. destruct H as [-> ->]. cbn [rev app].
  apply fobj_reads_split.
Qed.

Example reads_transparent_nonvacuous :
  exists s' ch, reads true (init_stream [97; 13; 10; 98] []) [600; 512]%Z [] = Some (s', ch) /\
                ch = [[97; 13; 10; 98]; []] /\ hs_hasher s' = [97; 10; 98].
Proof. eexists _, _. vm_compute. repeat split; reflexivity. Qed.

(* the legacy stream refuses reads below the sniffing window *)
Lemma d2u_read_small s n : (n < 512)%Z -> stream_read true s n = None.
Proof. intros H. unfold stream_read. rewrite d2u_read_spec. destruct (Z.leb_spec 512 n); [lia|reflexivity]. Qed.

(* ------------------------------------------------------------------------------------- *)
(* the legacy stream under a consumer: all bytes are handed on; the hasher receives the
   per-chunk normalisation d2u_data of each chunk *)

Lemma d2u_data_nil : d2u_data [] = [].
Proof. reflexivity. Qed.

Lemma drive_seq_d2u : forall ns s acc,
  Forall (fun n => (512 <= n)%Z) ns ->
  (length (rest s) < length ns)%nat ->
  exists s' ch,
    drive_seq true ns s acc = DriveOk s' (rev acc ++ ch) /\
    concat ch = rest s /\
    Forall nonempty ch /\
    hs_hasher s' = hs_hasher s ++ concat (map d2u_data ch) /\
    hs_total_read s' = hs_total_read s + len (concat (map d2u_data ch)) /\
    rest s' = [].
Proof.
  induction ns as [|n ns IH]; intros s acc Hge Hlen; [cbn in Hlen; lia|].
  inversion Hge as [|? ? Hn Hns]; subst.
  cbn [drive_seq]. unfold stream_read. rewrite d2u_read_spec.
  destruct (Z.leb_spec 512 n) as [_|]; [|lia].
  set (r := fobj_read (hs_fobj s) n).
  pose proof (fobj_read_split (hs_fobj s) n) as Hsplit. fold r in Hsplit.
  destruct (fst r) as [|c0 cr] eqn:Ec.
  - cbn [is_nil]. assert (Hr : rest s = []).
    { destruct (rest s) eqn:E; [reflexivity|].
      exfalso. apply (fobj_read_progress (hs_fobj s) n); [lia|rewrite E; discriminate|exact Ec]. }
    eexists _, []. split; [rewrite (app_nil_r (rev acc)); reflexivity|].
    cbn [concat map hs_hasher hs_total_read hs_fobj].
    rewrite Hr in *. cbn in Hsplit. rewrite d2u_data_nil, ?app_nil_r. unfold len. cbn [length].
    repeat split; auto; lia.
  - cbn [is_nil].
    set (s1 := mk_hstream (snd r) (hs_hasher s ++ d2u_data (c0 :: cr))
                          (hs_total_read s + len (d2u_data (c0 :: cr)))).
    assert (Hlt : (length (rest s1) < length ns)%nat).
    { cbn [s1 hs_fobj]. rewrite <- Hsplit in Hlen. rewrite app_length in Hlen. cbn [length] in Hlen. lia. }
    destruct (IH s1 ((c0 :: cr) :: acc) Hns Hlt) as (s' & ch & Hd & Hcat & Hne & Hh & Ht & He).
    exists s', ((c0 :: cr) :: ch). split.
    { rewrite Hd. cbn [rev]. now rewrite <- app_assoc. }
    cbn [s1 hs_fobj hs_hasher hs_total_read] in *. cbn [concat map]. rewrite Hcat, Hh, Ht, <- Hsplit.
    repeat split; auto.
    + constructor; [unfold nonempty; discriminate|assumption].
    + now rewrite <- app_assoc.
    + rewrite len_app. lia.
Qed.

Lemma concat_map_id (f : list N -> list N) ch :
  Forall (fun c => f c = c) ch -> concat (map f ch) = concat ch.
Proof. induction 1 as [|c ch Hc _ IH]; cbn; [reflexivity|]. now rewrite Hc, IH. Qed.

(* per-chunk statement: if every chunk handed on is sniffed binary (or has no CR LF) the
   legacy stream hashes the content untouched, whatever the chunking *)
Lemma d2u_untouched_chunks content cuts ns :
  Forall (fun n => (512 <= n)%Z) ns -> (length content < length ns)%nat ->
  exists s' ch,
    drive_seq true ns (init_stream content cuts) [] = DriveOk s' ch /\
    concat ch = content /\ Forall nonempty ch /\ rest s' = [] /\
    hs_hasher s' = concat (map d2u_data ch) /\
    (Forall (fun c => istextblock (firstn 512 c) = false \/ no_crlf c = true) ch -> hs_hasher s' = content).
Proof.
  intros Hge Hl.
  destruct (drive_seq_d2u ns (init_stream content cuts) [] Hge) as (s' & ch & Hd & Hcat & Hne & Hh & Ht & He);
    [cbn; lia|].
  exists s', ch. cbn in *. repeat split; auto.
  intros Hb. rewrite Hh, concat_map_id; [exact Hcat|].
  eapply Forall_impl; [|exact Hb]. cbn. intros c [Hc|Hc]; [now apply d2u_data_binary|now apply d2u_data_text_lf].
Qed.

(* fobj_md5 under the legacy name, content that fits in one read of a file object without
   short reads: what is hashed is d2u_data of the whole content *)
Lemma picks_d2u : picks_dos2unix s_md5_dos2unix = true.
Proof. reflexivity. Qed.

Lemma fobj_read_whole content n :
  (0 <= n)%Z -> (Z.of_nat (length content) <= n)%Z ->
  fobj_read (mk_fobj content []) n = (content, mk_fobj [] []).
Proof.
  intros H0 Hl. unfold fobj_read. destruct (Z.ltb_spec n 0); [lia|]. cbn [fo_cuts fo_rest].
  rewrite firstn_all2 by lia. rewrite skipn_all2 by lia. reflexivity.
Qed.

Lemma d2u_single_read_full content n :
  (512 <= n)%Z -> (Z.of_nat (length content) <= n)%Z ->
  Dos2UnixHashStreamFile_read (init_stream content []) n =
  Some (content, mk_hstream (mk_fobj [] []) (d2u_data content) (len (d2u_data content))).
Proof.
  intros Hn Hl. rewrite d2u_read_spec. destruct (Z.leb_spec 512 n); [|lia].
  unfold init_stream. cbn [hs_fobj hs_hasher hs_total_read].
  rewrite fobj_read_whole by lia. cbn [fst snd app]. rewrite N.add_0_l. reflexivity.
Qed.

Lemma fobj_md5_d2u_single content n :
  (512 <= n)%Z -> (Z.of_nat (length content) <= n)%Z ->
  exists s' ch,
    fobj_md5 s_md5_dos2unix n content [] = DriveOk s' ch /\
    hs_hasher s' = d2u_data content /\ concat ch = content /\
    hs_total_read s' = len (d2u_data content) /\ rest s' = [].
Proof.
  intros Hn Hl. unfold fobj_md5. rewrite picks_d2u.
  cbn [drive]. unfold stream_read at 1. rewrite (d2u_single_read_full content n Hn Hl).
  destruct content as [|c0 cr].
  - cbn [is_nil]. eexists _, []. cbn [rev concat hs_hasher hs_total_read hs_fobj fo_rest]. repeat split; auto.
  - cbn [is_nil drive]. unfold stream_read. rewrite d2u_read_spec.
    destruct (Z.leb_spec 512 n) as [_|]; [|lia].
    cbn [hs_fobj hs_hasher hs_total_read].
    rewrite (fobj_read_whole [] n) by (cbn [length]; lia).
    cbn [fst snd is_nil rev app]. eexists _, _. split; [reflexivity|].
    cbn [hs_hasher hs_total_read hs_fobj fo_rest concat]. rewrite d2u_data_nil, !app_nil_r.
    unfold len at 2. cbn [length]. repeat split; auto. lia.
Qed.

Lemma unix2dos_length u : (length u <= length (unix2dos u))%nat.
Proof.
  induction u as [|c u IH]; [cbn; lia|].
  change (unix2dos (c :: u)) with ((if N.eqb c 10 then [13; 10] else [c]) ++ unix2dos u).
  rewrite app_length. destruct (N.eqb c 10); cbn [length]; lia.
Qed.

(* the CRLF variant and the LF variant of a text that fits in one read: one digest, that of
   the LF text itself *)
Lemma crlf_lf u n :
  no_crlf u = true -> (512 <= n)%Z -> (Z.of_nat (length (unix2dos u)) <= n)%Z ->
  istextblock (firstn 512 (unix2dos u)) = true ->
  exists s1 c1 s2 c2,
    fobj_md5 s_md5_dos2unix n (unix2dos u) [] = DriveOk s1 c1 /\
    fobj_md5 s_md5_dos2unix n u [] = DriveOk s2 c2 /\
    hs_hasher s1 = u /\ hs_hasher s2 = u /\
    concat c1 = unix2dos u /\ concat c2 = u.
Proof.
  intros Hu Hn Hl Ht.
  pose proof (unix2dos_length u) as Hlen.
  destruct (fobj_md5_d2u_single (unix2dos u) n Hn Hl) as (s1 & c1 & E1 & H1 & C1 & _).
  destruct (fobj_md5_d2u_single u n Hn) as (s2 & c2 & E2 & H2 & C2 & _); [lia|].
  exists s1, c1, s2, c2. repeat split; auto.
  - rewrite H1. destruct u as [|c u]; [reflexivity|]. apply d2u_data_text_crlf; [discriminate|exact Ht].
  - rewrite H2. now apply d2u_data_text_lf.
Qed.

Example crlf_lf_nonvacuous :
  let u := [108; 49; 10; 108; 50; 10] in
  no_crlf u = true /\ unix2dos u = [108; 49; 13; 10; 108; 50; 13; 10] /\
  istextblock (firstn 512 (unix2dos u)) = true.
Proof. vm_compute. repeat split; reflexivity. Qed.

Lemma binary_single b n :
  istextblock (firstn 512 b) = false -> (512 <= n)%Z -> (Z.of_nat (length b) <= n)%Z ->
  exists s' ch, fobj_md5 s_md5_dos2unix n b [] = DriveOk s' ch /\ hs_hasher s' = b /\ concat ch = b.
Proof.
  intros Hb Hn Hl.
  destruct (fobj_md5_d2u_single b n Hn Hl) as (s' & ch & E & Hh & Hc & _).
  exists s', ch. repeat split; auto. rewrite Hh. now apply d2u_data_binary.
Qed.

Example binary_single_nonvacuous : istextblock (firstn 512 [97; 0; 13; 10]) = false.
Proof. vm_compute. reflexivity. Qed.

(* ------------------------------------------------------------------------------------- *)
(* file-level reading of "leaves binary content untouched" (binary := the first 512 bytes of
   the content are not text, the istextfile definition): REFUTED by the faithful model as soon
   as the content spans more than one read - every chunk is sniffed on its own. *)

Definition d2u_witness : list N := repeat 0 512 ++ [97; 13; 10; 98].

Lemma binary_file_level_refuted :
  exists content n,
    (512 <= n)%Z /\ istextblock (firstn 512 content) = false /\
    exists s' ch, fobj_md5 s_md5_dos2unix n content [] = DriveOk s' ch /\
                  concat ch = content /\ hs_hasher s' <> content.
Proof.
  exists d2u_witness, 512%Z. split; [lia|]. split; [vm_compute; reflexivity|].
  remember (fobj_md5 s_md5_dos2unix 512 d2u_witness []) as r eqn:E.
  vm_compute in E. subst r. eexists _, _. split; [reflexivity|]. split.
  - apply list_N_eqb_spec. vm_compute. reflexivity.
  - intros H. apply list_N_eqb_spec in H. vm_compute in H. discriminate H.
Qed.

(* ------------------------------------------------------------------------------------- *)
(* algorithm names: the hasher is chosen on the lower-cased name, the class on the name as given *)

Lemma lower_c_idem c : lower_c (lower_c c) = lower_c c.
Proof.
  unfold lower_c. destruct ((65 <=? c) && (c <=? 90)) eqn:E; [|now rewrite E].
  destruct ((65 <=? c + 32) && (c + 32 <=? 90)) eqn:E2; [lia|reflexivity].
Qed.

Lemma lower_idem s : lower (lower s) = lower s.
Proof. unfold lower. rewrite map_map. apply map_ext. apply lower_c_idem. Qed.

Lemma hasher_alg_case name name' : lower name = lower name' -> hasher_alg name = hasher_alg name'.
Proof. intros H. unfold hasher_alg. now rewrite H. Qed.

Lemma hasher_alg_lower name : hasher_alg (lower name) = hasher_alg name.
Proof. apply hasher_alg_case. apply lower_idem. Qed.

Lemma picks_exact name : picks_dos2unix name = true <-> name = s_md5_dos2unix.
Proof. unfold picks_dos2unix. apply list_N_eqb_spec. Qed.

Lemma hasher_alg_legacy name : lower name = s_md5_dos2unix -> hasher_alg name = s_md5.
Proof. intros H. unfold hasher_alg. rewrite H. reflexivity. Qed.

Lemma hasher_alg_other name : lower name <> s_md5_dos2unix -> hasher_alg name = lower name.
Proof.
  intros H. unfold hasher_alg. destruct (list_N_eqb (lower name) s_md5_dos2unix) eqn:E; [|reflexivity].
  apply list_N_eqb_spec in E. contradiction.
Qed.

(* "MD5-DOS2UNIX": MD5 hasher, but the plain (non-normalising) class *)
Example names_upper_legacy :
  let nm := [77; 68; 53; 45; 68; 79; 83; 50; 85; 78; 73; 88] in
  lower nm = s_md5_dos2unix /\ hasher_alg nm = s_md5 /\ picks_dos2unix nm = false.
Proof. vm_compute. repeat split; reflexivity. Qed.

Example names_sha256_mixed : hasher_alg [83; 104; 65; 50; 53; 54] = [115; 104; 97; 50; 53; 54].
Proof. vm_compute. reflexivity. Qed.

Lemma names_all name name' :
  (lower name = lower name' -> hasher_alg name = hasher_alg name') /\
  hasher_alg (lower name) = hasher_alg name /\
  (lower name = s_md5_dos2unix -> hasher_alg name = s_md5) /\
  (lower name <> s_md5_dos2unix -> hasher_alg name = lower name) /\
  (picks_dos2unix name = true <-> name = s_md5_dos2unix).
Proof.
  split; [apply hasher_alg_case|]. split; [apply hasher_alg_lower|].
  split; [apply hasher_alg_legacy|]. split; [apply hasher_alg_other|apply picks_exact].
Qed.

Lemma reads_transparent0 d2u ns s s' ch :
  reads d2u s ns [] = Some (s', ch) ->
  ch = fst (fobj_reads (hs_fobj s) ns) /\ hs_fobj s' = snd (fobj_reads (hs_fobj s) ns).
Proof. intros H. exact (reads_transparent d2u ns s [] s' ch H). Qed.

(* non-vacuity of the legacy-stream statements: a content of two reads, binary head, CR LF tail -
   both chunks are handed on, the second one is normalised for the hasher *)
Example d2u_chunks_nonvacuous :
  exists s' ch,
    drive_seq true [512; 600; 512]%Z (init_stream (repeat 128 512 ++ [97; 13; 10]) []) [] = DriveOk s' ch /\
    ch = [repeat 128 512; [97; 13; 10]] /\ hs_hasher s' = repeat 128 512 ++ [97; 10] /\
    hs_total_read s' = 514.
Proof. eexists _, _. vm_compute. repeat split; reflexivity. Qed.

Example hash_file_nonvacuous :
  exists s' ch, hash_file [s_md5; s_md5_dos2unix] s_md5 [1; 2; 3] = HfOk s_md5 (DriveOk s' ch) /\
                hs_hasher s' = [1; 2; 3] /\ ch = [[1; 2; 3]].
Proof. eexists _, _. vm_compute. repeat split; reflexivity. Qed.

Example hash_file_case_variant_refused :
  hash_file [s_md5; s_md5_dos2unix] [77; 68; 53] [1; 2; 3] = HfNotImplemented.
Proof. vm_compute. reflexivity. Qed.

Example fobj_md5_plain_nonvacuous :
  exists s' ch, fobj_md5 [83; 72; 65; 49] 2 [9; 8; 7; 6; 5] [1] = DriveOk s' ch /\
                ch = [[9]; [8; 7]; [6; 5]] /\ hs_hasher s' = [9; 8; 7; 6; 5] /\ hs_total_read s' = 5.
Proof. eexists _, _. vm_compute. repeat split; reflexivity. Qed.

(* selection is by the WHOLE lower-cased name: "MD5-SHA1" is hashed by md5-sha1 (not by the
   part before the dash), and only the exact legacy name maps to md5 *)
Example names_md5_sha1 :
  let nm := [77; 68; 53; 45; 83; 72; 65; 49] in
  hasher_alg nm = [109; 100; 53; 45; 115; 104; 97; 49] /\ hasher_alg nm <> s_md5 /\ picks_dos2unix nm = false.
Proof. vm_compute. repeat split; try reflexivity. discriminate. Qed.
