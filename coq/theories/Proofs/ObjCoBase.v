(* Generic lemmas about the two loops of Model/ObjCheckout.v: frame, prompt location, the
   characterisation of an all-successful run, the partition of the change list into classes. *)
From Coq Require Import NArith List Bool Lia.
From DvcData Require Import Base.Val Base.PyBase Gen.PyTypes Gen.ODiff Gen.Relink Model.ObjCheckout Proofs.ObjCoTie Proofs.ObjCheckoutProofs.
Import ListNotations.
Open Scope N_scope.

Lemma ochange_eqb_spec a b : ochange_eqb a b = true <-> a = b.
Proof. destruct a, b; simpl; split; intros E; try reflexivity; try discriminate. Qed.

Lemma filter_all_false {A} (p : A -> bool) (l : list A) : (forall x, In x l -> p x = false) -> filter p l = [].
Proof.
  induction l as [|a l IH]; intros Hf; simpl; [reflexivity|].
  rewrite (Hf a (or_introl eq_refl)). apply IH. intros x Hx. apply Hf. now right.
Qed.
Lemma is_nil_eq {A} (l : list A) : is_nil l = true -> l = [].
Proof. destruct l; [reflexivity|discriminate]. Qed.
Lemma filter_nil_all_false {A} (p : A -> bool) (l : list A) x : filter p l = [] -> In x l -> p x = false.
Proof.
  intros E Hx. destruct (p x) eqn:Ep; [|reflexivity].
  assert (In x (filter p l)) by (apply filter_In; auto). rewrite E in H. destruct H.
Qed.

Lemma NoDup_map_filter {A B} (f : A -> B) p l : NoDup (map f l) -> NoDup (map f (filter p l)).
Proof.
  induction l as [|a l IH]; simpl; intros Hn; [constructor|].
  inversion Hn as [|? ? Hnot Hn']; subst. destruct (p a); simpl; [|now apply IH].
  constructor; [|now apply IH]. intros Hin. apply Hnot.
  apply in_map_iff in Hin as [x [E Hx]]. apply filter_In in Hx as [Hx _]. apply in_map_iff. exists x. split; [exact E|exact Hx].
Qed.
Lemma NoDup_app_intro {A} (l1 l2 : list A) :
  NoDup l1 -> NoDup l2 -> (forall x, In x l1 -> In x l2 -> False) -> NoDup (l1 ++ l2).
Proof.
  induction l1 as [|a l1 IH]; simpl; intros H1 H2 Hd; [exact H2|].
  inversion H1 as [|? ? Hnot H1']; subst. constructor.
  - intros Hin. apply in_app_or in Hin as [Hin|Hin]; [contradiction|]. apply (Hd a); [now left|exact Hin].
  - apply IH; auto. intros x Hx1 Hx2. apply (Hd x); [right; exact Hx1|exact Hx2].
Qed.

Definition keys (chs : list ochange_args) : list key := map ch_key chs.
Definition find_ch (k : key) (chs : list ochange_args) : option ochange_args :=
  find (fun ch => key_eqb k (ch_key ch)) chs.

Lemma find_ch_none k chs : ~ In k (keys chs) -> find_ch k chs = None.
Proof.
  induction chs as [|ch r IH]; simpl; intros Hn; [reflexivity|].
  destruct (key_eqb k (ch_key ch)) eqn:E.
  - apply key_eqb_spec in E. exfalso. apply Hn. now left.
  - apply IH. intros Hin. apply Hn. now right.
Qed.
Lemma find_ch_some k chs ch : find_ch k chs = Some ch -> In ch chs /\ ch_key ch = k.
Proof.
  intros E. apply find_some in E as [Hin E]. apply key_eqb_spec in E. auto.
Qed.
Lemma find_ch_none_inv k chs : find_ch k chs = None -> ~ In k (keys chs).
Proof.
  intros E Hin. apply in_map_iff in Hin as [ch [Ek Hin]].
  pose proof (find_none _ _ E ch Hin) as Hf. simpl in Hf. rewrite <- Ek, key_eqb_refl in Hf. discriminate.
Qed.
Lemma find_ch_in k chs : In k (keys chs) -> exists ch, find_ch k chs = Some ch.
Proof.
  intros Hin. destruct (find_ch k chs) eqn:E; [eauto|]. apply find_ch_none_inv in E. contradiction.
Qed.
Lemma kmem_keys k l : kmem k l = true <-> In k l.
Proof.
  unfold kmem. rewrite existsb_exists. split.
  - intros [x [Hin E]]. apply key_eqb_spec in E. now subst.
  - intros Hin. exists k. split; [exact Hin|apply key_eqb_refl].
Qed.

(* ------------------------------------------------------------------ deletions *)
Lemma run_del_frame g chs : forall w k, ~ In k (keys chs) -> kassoc k (fst (run_del g chs w)) = kassoc k w.
Proof.
  induction chs as [|ch r IH]; intros w k Hn; simpl; [reflexivity|].
  destruct (del_step g ch (kassoc (ch_key ch) w)) as [cur'|]; [|reflexivity].
  rewrite IH by (intros Hin; apply Hn; now right).
  rewrite kassoc_put, key_eqb_neq; [reflexivity|]. intros ->. apply Hn. now left.
Qed.
Lemma run_del_prompt g chs : NoDup (keys chs) ->
  forall w w' p, run_del g chs w = (w', Some p) -> In p (keys chs) /\ kassoc p w' = kassoc p w.
Proof.
  induction chs as [|ch r IH]; intros Hn w w' p E; simpl in E; [discriminate|].
  inversion Hn as [|? ? Hnot Hn']; subst.
  destruct (del_step g ch (kassoc (ch_key ch) w)) as [cur'|].
  - destruct (IH Hn' _ _ _ E) as [Hin Hk]. split; [now right|].
    rewrite Hk, kassoc_put, key_eqb_neq; [reflexivity|]. intros ->. contradiction.
  - injection E as <- <-. split; [now left|reflexivity].
Qed.
Lemma del_step_force g ch cur : g_force g = true -> del_step g ch cur = Some None.
Proof. intros Hf. unfold del_step, guard_step. rewrite remove_guard_eq. unfold remove_guard_spec. now rewrite Hf. Qed.
Lemma guard_step_force g k inc cur : g_force g = true -> guard_step g k inc cur = Some None.
Proof. intros Hf. unfold guard_step. rewrite remove_guard_eq. unfold remove_guard_spec. now rewrite Hf. Qed.
Lemma run_del_force g chs : g_force g = true -> forall w,
  snd (run_del g chs w) = None /\
  forall k, kassoc k (fst (run_del g chs w)) = if kmem k (keys chs) then None else kassoc k w.
Proof.
  intros Hf. induction chs as [|ch r IH]; intros w; simpl; [split; [reflexivity|intros k; reflexivity]|].
  rewrite del_step_force by exact Hf. destruct (IH (ws_put (ch_key ch) None w)) as [E1 E2]. split; [exact E1|].
  intros k. rewrite E2, kassoc_put. now destruct (key_eqb k (ch_key ch)), (kmem k (keys r)).
Qed.

(* ------------------------------------------------------------------ additions / modifications *)
Lemma run_files_frame g c chs : forall s k, ~ In k (keys chs) ->
  kassoc k (s_ws (fst (run_files g c chs s))) = kassoc k (s_ws s).
Proof.
  induction chs as [|ch r IH]; intros s k Hn; simpl; [reflexivity|].
  assert (Hr : ~ In k (keys r)) by (intros Hin; apply Hn; now right).
  assert (Hk : key_eqb k (ch_key ch) = false) by (apply key_eqb_neq; intros ->; apply Hn; now left).
  destruct (new_isdir ch); [now apply IH|].
  destruct (file_step g c ch (kassoc (ch_key ch) (s_ws s))) as [|x|x|x]; simpl.
  - reflexivity.
  - rewrite IH by exact Hr. simpl. now rewrite kassoc_put, Hk.
  - now rewrite kassoc_put, Hk.
  - rewrite IH by exact Hr. simpl. now rewrite kassoc_put, Hk.
Qed.
Lemma run_files_prompt g c chs : NoDup (keys chs) ->
  forall s s' p, run_files g c chs s = (s', FoPrompt p) -> In p (keys chs) /\ kassoc p (s_ws s') = kassoc p (s_ws s).
Proof.
  induction chs as [|ch r IH]; intros Hn s s' p E; simpl in E; [discriminate|].
  inversion Hn as [|? ? Hnot Hn']; subst.
  assert (Hrec : forall s2, s_ws s2 = s_ws s \/ (exists x, s_ws s2 = ws_put (ch_key ch) x (s_ws s)) ->
            run_files g c r s2 = (s', FoPrompt p) -> In p (keys (ch :: r)) /\ kassoc p (s_ws s') = kassoc p (s_ws s)).
  { intros s2 Hs2 E2. destruct (IH Hn' _ _ _ E2) as [Hin Hk]. split; [now right|]. rewrite Hk.
    destruct Hs2 as [->|[x ->]]; [reflexivity|]. rewrite kassoc_put, key_eqb_neq; [reflexivity|]. intros ->. contradiction. }
  destruct (new_isdir ch); [apply (Hrec s); auto|].
  destruct (file_step g c ch (kassoc (ch_key ch) (s_ws s))) as [|x|x|x].
  - injection E as <- <-. split; [now left|reflexivity].
  - eapply Hrec; [|exact E]. right. simpl. eauto.
  - discriminate.
  - eapply Hrec; [|exact E]. right. simpl. eauto.
Qed.

Definition sout (g : cfg) (c : cache) (w1 : ws) (ch : ochange_args) : option fnode :=
  match file_step g c ch (kassoc (ch_key ch) w1) with FOk x => x | _ => None end.
Definition step_ok (g : cfg) (c : cache) (w1 : ws) (ch : ochange_args) : Prop :=
  new_isdir ch = false /\ exists x, file_step g c ch (kassoc (ch_key ch) w1) = FOk x.

(* a run in which every step succeeds: no failure, and the final workspace is known path by path *)
Lemma run_files_ok g c w1 chs : NoDup (keys chs) -> (forall ch, In ch chs -> step_ok g c w1 ch) ->
  forall s, (forall ch, In ch chs -> kassoc (ch_key ch) (s_ws s) = kassoc (ch_key ch) w1) ->
  exists s', run_files g c chs s = (s', FoDone) /\ s_failed s' = s_failed s /\
    s_upd s' = s_upd s ++ map (fun ch => (ch_key ch, mtime_of (sout g c w1 ch))) chs /\
    forall k, kassoc k (s_ws s') = match find_ch k chs with Some ch => sout g c w1 ch | None => kassoc k (s_ws s) end.
Proof.
  induction chs as [|ch r IH]; intros Hn Hok s Hs; simpl.
  - exists s. repeat split; [now rewrite app_nil_r].
  - inversion Hn as [|? ? Hnot Hn']; subst.
    destruct (Hok ch (or_introl eq_refl)) as [Hd [x Hx]]. rewrite Hd.
    rewrite (Hs ch (or_introl eq_refl)), Hx.
    set (s2 := mk_fstate (ws_put (ch_key ch) x (s_ws s)) (s_failed s) (s_upd s ++ [(ch_key ch, mtime_of x)])).
    destruct (IH Hn' (fun ch' Hin => Hok ch' (or_intror Hin)) s2) as [s' [E1 [E2 [E3 E4]]]].
    { intros ch' Hin. simpl. rewrite kassoc_put, key_eqb_neq; [apply Hs; now right|].
      intros E. apply Hnot. rewrite <- E. now apply in_map. }
    exists s'. split; [exact E1|]. split; [exact E2|]. split.
    + rewrite E3. simpl. rewrite <- app_assoc. simpl. unfold sout at 2. now rewrite Hx.
    + intros k. rewrite E4. unfold find_ch. simpl. fold (find_ch k r).
      destruct (key_eqb k (ch_key ch)) eqn:Ek.
      * apply key_eqb_spec in Ek. subst k. rewrite (find_ch_none _ _ Hnot). simpl.
        rewrite kassoc_put, key_eqb_refl. unfold sout. now rewrite Hx.
      * destruct (find_ch k r); [reflexivity|]. simpl. now rewrite kassoc_put, Ek.
Qed.

(* ------------------------------------------------------------------ classes of the change list *)
Section Classes.
Variable H : bytes -> oid.
Variables (g : cfg) (c : cache) (w0 : ws) (tgt : list (key * oid)) (order : list key).

Definition chsOf := changes H c w0 tgt order.
Definition clsD := filter (typ_is ochange_DELETE) chsOf.
Definition clsA := filter (typ_is ochange_ADD) chsOf.
Definition clsM := filter (typ_is ochange_MODIFY) chsOf.
Definition clsU := filter (typ_is ochange_UNCHANGED) chsOf.
Definition clsX := filter (extra_modified g) clsU.
Definition clsF := clsA ++ (clsM ++ clsX).

Lemma chs_from ch : In ch chsOf -> ch = mk_change H c w0 tgt (ch_key ch).
Proof.
  intros Hin. pose proof (changes_from H c w0 tgt order) as HF.
  rewrite Forall_forall in HF. exact (HF ch Hin).
Qed.
Lemma chs_same_key a b : In a chsOf -> In b chsOf -> ch_key a = ch_key b -> a = b.
Proof. intros Ha Hb E. rewrite (chs_from a Ha), (chs_from b Hb), E. reflexivity. Qed.

Lemma keys_chs_NoDup : NoDup order -> NoDup (keys chsOf).
Proof.
  intros Hn. unfold keys, chsOf, changes. apply NoDup_map_filter.
  rewrite map_map. simpl. now rewrite map_id.
Qed.

Lemma typ_excl ch T T' : typ_is T ch = true -> typ_is T' ch = true -> T = T'.
Proof. unfold typ_is. intros E1 E2. apply ochange_eqb_spec in E1, E2. congruence. Qed.

Lemma in_cls T ch : In ch (filter (typ_is T) chsOf) <-> In ch chsOf /\ typ_is T ch = true.
Proof. apply filter_In. Qed.
Lemma in_clsX ch : In ch clsX <-> In ch chsOf /\ typ_is ochange_UNCHANGED ch = true /\ extra_modified g ch = true.
Proof. unfold clsX, clsU. rewrite filter_In, filter_In. tauto. Qed.
Lemma in_clsF ch : In ch clsF ->
  In ch chsOf /\ (typ_is ochange_ADD ch = true \/ typ_is ochange_MODIFY ch = true \/
                  (typ_is ochange_UNCHANGED ch = true /\ extra_modified g ch = true)).
Proof.
  unfold clsF. intros Hin. apply in_app_or in Hin as [Hin|Hin]; [apply in_cls in Hin; tauto|].
  apply in_app_or in Hin as [Hin|Hin]; [apply in_cls in Hin; tauto|]. apply in_clsX in Hin. tauto.
Qed.

Lemma keys_disjoint (l1 l2 : list ochange_args) :
  (forall a, In a l1 -> In a chsOf) -> (forall b, In b l2 -> In b chsOf) ->
  (forall a, In a l1 -> In a l2 -> False) ->
  forall k, In k (keys l1) -> In k (keys l2) -> False.
Proof.
  intros H1 H2 Hd k Hk1 Hk2. apply in_map_iff in Hk1 as [a [Ea Ha]]. apply in_map_iff in Hk2 as [b [Eb Hb]].
  assert (a = b) by (apply chs_same_key; auto; congruence). subst b. eauto.
Qed.

Lemma keys_F_NoDup : NoDup order -> NoDup (keys clsF).
Proof.
  intros Hn. pose proof (keys_chs_NoDup Hn) as Hc. unfold clsF, keys. rewrite !map_app.
  apply NoDup_app_intro; [now apply NoDup_map_filter| |].
  - apply NoDup_app_intro; [now apply NoDup_map_filter| |].
    + unfold clsX, clsU. now apply NoDup_map_filter, NoDup_map_filter.
    + apply keys_disjoint.
      * intros a Ha. now apply in_cls in Ha.
      * intros b Hb. now apply in_clsX in Hb.
      * intros a Ha Hb. apply in_cls in Ha as [_ Ha]. apply in_clsX in Hb as [_ [Hb _]].
        pose proof (typ_excl _ _ _ Ha Hb). discriminate.
  - rewrite <- map_app. apply keys_disjoint.
    + intros a Ha. now apply in_cls in Ha.
    + intros b Hb. apply in_app_or in Hb as [Hb|Hb]; [now apply in_cls in Hb|now apply in_clsX in Hb].
    + intros a Ha Hb. apply in_cls in Ha as [_ Ha].
      apply in_app_or in Hb as [Hb|Hb]; [apply in_cls in Hb as [_ Hb]|apply in_clsX in Hb as [_ [Hb _]]];
        pose proof (typ_excl _ _ _ Ha Hb); discriminate.
Qed.
Lemma keys_D_NoDup : NoDup order -> NoDup (keys clsD).
Proof. intros Hn. unfold clsD, keys. now apply NoDup_map_filter, keys_chs_NoDup. Qed.
Lemma keys_D_F_disjoint k : In k (keys clsD) -> In k (keys clsF) -> False.
Proof.
  apply keys_disjoint.
  - intros a Ha. now apply in_cls in Ha.
  - intros b Hb. now apply in_clsF in Hb.
  - intros a Ha Hb. apply in_cls in Ha as [_ Ha]. apply in_clsF in Hb as [_ [Hb|[Hb|[Hb _]]]];
      pose proof (typ_excl _ _ _ Ha Hb); discriminate.
Qed.

(* the shape of checkout in terms of the classes *)
Lemma checkout_unfold :
  checkout H g c w0 tgt order =
  if (is_nil clsD && is_nil clsA && is_nil (clsM ++ clsX))%bool then
    mk_result ONothing w0 c (if (g_relink g && g_state g)%bool then Some (link_record clsU []) else None)
  else if is_nil (g_links g) then mk_result OLink w0 c None
  else match run_del g clsD w0 with
       | (w1, Some k) => mk_result (OPrompt k) w1 c None
       | (w1, None) =>
           match run_files g c clsF (mk_fstate w1 [] []) with
           | (s, FoPrompt k) => mk_result (OPrompt k) (s_ws s) c None
           | (s, FoNotFound k) => mk_result (ONotFound k) (s_ws s) c None
           | (s, FoDone) =>
               mk_result (if is_nil (s_failed s) then ODone (negb (g_relink g)) else OFailed (s_failed s))
                         (s_ws s) c (if g_state g then Some (link_record clsU (s_upd s)) else None)
           end
       end.
Proof. reflexivity. Qed.

End Classes.
