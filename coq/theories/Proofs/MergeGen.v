(* The tie between the hand-written model (Model/Merge.v) and the control structure that
   translator/mergeunit.py regenerates from hashfile/tree.py on every run (Gen/Merge.v):

     diff_      = g_diff       over [dd_diff], [op_kind]
     merge_     = g_merge      over [dd_diff], [dd_patch], [op_kind], [conflict_paths]
     merge_obj  = g_merge_obj  over the same, [load], [digest], the empty listing

   All C19 theorems are proved about diff_ / merge_ / merge_obj; by these equalities they are
   theorems about the generated functions.  An edit of _diff / _merge / merge that changes the
   generated term (a diff taken twice from the same side, a shortcut moved or swapped, a patch
   order dropped, a result compared with itself, another exception class caught, another default
   policy, the loads or the _merge arguments permuted) makes one of these proofs fail; an edit
   outside the recognised statement shapes makes the translation fail closed. *)
From Coq Require Import NArith.
From stdpp Require Import gmap.
From DvcData Require Import Base.Val Model.Merge.
Open Scope N_scope.

Lemma kind_eqb_eq a b : kind_eqb a b = true ↔ a = b.
Proof. destruct a, b; simpl; split; (done || congruence). Qed.

Lemma kind_in_decide k l : kind_in k l = bool_decide (k ∈ l).
Proof.
  unfold kind_in. induction l as [|x l IH]; cbn [existsb].
  - symmetry. apply bool_decide_eq_false_2. by intros ?%elem_of_nil.
  - rewrite IH. destruct (kind_eqb k x) eqn:E; cbn [orb].
    + apply kind_eqb_eq in E as ->. symmetry. apply bool_decide_eq_true_2. by left.
    + assert (k ≠ x) as Hne. { intros ->. by rewrite (proj2 (kind_eqb_eq x x)) in E. }
      apply bool_decide_ext. rewrite elem_of_cons. naive_solver.
Qed.

Lemma effective_is_generated pol : effective pol = g_effective pol.
Proof. by destruct pol as [[|]|]. Qed.

Theorem diff_is_generated a b pol : diff_ a b pol = g_diff dd_diff op_kind pol a b.
Proof.
  unfold diff_, g_diff. cbv zeta. rewrite <- (effective_is_generated pol).
  assert (forallb (λ op, bool_decide (op_kind op ∈ effective pol)) (dd_diff a b)
          = forallb (λ r, kind_in (op_kind r) (effective pol)) (dd_diff a b)) as ->; [|done].
  induction (dd_diff a b) as [|x l IH]; simpl; [done|]. by rewrite IH, kind_in_decide.
Qed.

Theorem merge_is_generated a o t pol :
  merge_ a o t pol = g_merge dd_diff dd_patch op_kind conflict_paths pol a o t.
Proof.
  unfold merge_, g_merge. rewrite <- !diff_is_generated.
  destruct (diff_ a o pol) as [[|x od]|e]; try done.
  destruct (diff_ a t pol) as [[|y td]|e]; try done.
  unfold catch_key_error, g_catch.
  destruct (dd_patch _ a) as [p1|[]]; try done.
  destruct (dd_patch _ a) as [p2|[]]; try done.
Qed.

Theorem merge_obj_is_generated {oid} (load : oid → option (gmap (list (list N)) N))
    (digest : gmap (list (list N)) N → oid) ai oi ti pol :
  merge_obj load digest ai oi ti pol =
    g_merge_obj dd_diff dd_patch op_kind conflict_paths load digest ∅ ai oi ti pol.
Proof.
  unfold merge_obj, g_merge_obj, load_, g_load.
  destruct ai as [i|]; [destruct (load i)|]; try done;
    (destruct (load oi); [|done]); (destruct (load ti); [|done]);
    by rewrite merge_is_generated.
Qed.
