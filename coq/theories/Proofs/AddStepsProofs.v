(* AddStepsProofs.v - the core invariant of the step machine of Model/AddSteps.v:
   every trace accepted by [valid_trace] keeps [inv] (hence [crash_inv]) at every prefix,
   the boolean [crash_inv_b] is sound, and the existence query [heal1_steps] is a valid
   program that leaves the queried name absent or well-named-and-protected. *)
From Coq Require Import NArith List Bool Lia.
From DvcData Require Import Base.Val Model.AddSteps.
Import ListNotations.
Open Scope N_scope.

(* ---------------------------------------------------------------------------------- *)
(* association lists                                                                   *)
Section AssocLemmas.
  Context {K V : Type} (eqb : K -> K -> bool).
  Hypothesis eqb_spec : forall a b, eqb a b = true <-> a = b.

  Lemma eqb_refl_gen k : eqb k k = true.
  Proof. apply eqb_spec. reflexivity. Qed.

  Lemma eqb_neq_gen a b : a <> b -> eqb a b = false.
  Proof.
    intros Hn. destruct (eqb a b) eqn:E; [|reflexivity].
    apply eqb_spec in E. contradiction.
  Qed.

  Lemma aget_adel_eq k (l : list (K * V)) : aget eqb k (adel eqb k l) = None.
  Proof.
    induction l as [|[k' v] r IH]; simpl; [reflexivity|].
    destruct (eqb k k') eqn:E; [exact IH|]. simpl. rewrite E. exact IH.
  Qed.

  Lemma aget_adel_neq k k' (l : list (K * V)) :
    k <> k' -> aget eqb k (adel eqb k' l) = aget eqb k l.
  Proof.
    intros Hn. induction l as [|[k'' v] r IH]; simpl; [reflexivity|].
    destruct (eqb k' k'') eqn:E1.
    - apply eqb_spec in E1. subst k''. rewrite (eqb_neq_gen k k' Hn). exact IH.
    - simpl. destruct (eqb k k''); [reflexivity|exact IH].
  Qed.

  Lemma aget_aset_eq k (v : V) l : aget eqb k (aset eqb k v l) = Some v.
  Proof. unfold aset. simpl. rewrite eqb_refl_gen. reflexivity. Qed.

  Lemma aget_aset_neq k k' (v : V) l :
    k <> k' -> aget eqb k (aset eqb k' v l) = aget eqb k l.
  Proof.
    intros Hn. unfold aset. simpl. rewrite (eqb_neq_gen k k' Hn).
    apply aget_adel_neq. exact Hn.
  Qed.

  Lemma aget_adel k k' (l : list (K * V)) :
    aget eqb k (adel eqb k' l) = if eqb k k' then None else aget eqb k l.
  Proof.
    destruct (eqb k k') eqn:E.
    - apply eqb_spec in E. subst. apply aget_adel_eq.
    - apply aget_adel_neq. intros ->. rewrite eqb_refl_gen in E. discriminate.
  Qed.

  Lemma aget_aset k k' (v : V) l :
    aget eqb k (aset eqb k' v l) = if eqb k k' then Some v else aget eqb k l.
  Proof.
    destruct (eqb k k') eqn:E.
    - apply eqb_spec in E. subst. apply aget_aset_eq.
    - apply aget_aset_neq. intros ->. rewrite eqb_refl_gen in E. discriminate.
  Qed.

  Lemma aget_In k (v : V) l : aget eqb k l = Some v -> In (k, v) l.
  Proof.
    induction l as [|[k' v'] r IH]; simpl; [discriminate|].
    destruct (eqb k k') eqn:E.
    - intros [= ->]. apply eqb_spec in E. subst. left. reflexivity.
    - intros Hg. right. apply IH. exact Hg.
  Qed.
End AssocLemmas.

(* specialisations: oid keys *)
Lemma oeqb_refl (o : oid) : list_N_eqb o o = true.
Proof. apply list_N_eqb_spec. reflexivity. Qed.
Lemma oeqb_neq (a b : oid) : a <> b -> list_N_eqb a b = false.
Proof. apply eqb_neq_gen, list_N_eqb_spec. Qed.
Lemma oeqb_false (a b : oid) : list_N_eqb a b = false -> a <> b.
Proof. intros E ->. rewrite oeqb_refl in E. discriminate. Qed.
Lemma oid_dec (a b : oid) : {a = b} + {a <> b}.
Proof. apply list_eq_dec, N.eq_dec. Qed.

Lemma oget_aset_eq {V} k (v : V) l : aget list_N_eqb k (aset list_N_eqb k v l) = Some v.
Proof. apply aget_aset_eq, list_N_eqb_spec. Qed.
Lemma oget_aset_neq {V} k k' (v : V) l :
  k <> k' -> aget list_N_eqb k (aset list_N_eqb k' v l) = aget list_N_eqb k l.
Proof. apply aget_aset_neq, list_N_eqb_spec. Qed.
Lemma oget_adel_eq {V} k (l : list (oid * V)) : aget list_N_eqb k (adel list_N_eqb k l) = None.
Proof. apply aget_adel_eq. Qed.
Lemma oget_adel_neq {V} k k' (l : list (oid * V)) :
  k <> k' -> aget list_N_eqb k (adel list_N_eqb k' l) = aget list_N_eqb k l.
Proof. apply aget_adel_neq, list_N_eqb_spec. Qed.
Lemma oget_aset {V} k k' (v : V) l :
  aget list_N_eqb k (aset list_N_eqb k' v l) = if list_N_eqb k k' then Some v else aget list_N_eqb k l.
Proof. apply aget_aset, list_N_eqb_spec. Qed.
Lemma oget_adel {V} k k' (l : list (oid * V)) :
  aget list_N_eqb k (adel list_N_eqb k' l) = if list_N_eqb k k' then None else aget list_N_eqb k l.
Proof. apply aget_adel, list_N_eqb_spec. Qed.
Lemma oget_In {V} k (v : V) l : aget list_N_eqb k l = Some v -> In (k, v) l.
Proof. apply aget_In, list_N_eqb_spec. Qed.

(* specialisations: temp-name keys *)
Lemma nget_aset_eq {V} k (v : V) l : aget N.eqb k (aset N.eqb k v l) = Some v.
Proof. apply aget_aset_eq, N.eqb_eq. Qed.
Lemma nget_aset_neq {V} k k' (v : V) l :
  k <> k' -> aget N.eqb k (aset N.eqb k' v l) = aget N.eqb k l.
Proof. apply aget_aset_neq, N.eqb_eq. Qed.
Lemma nget_adel_eq {V} k (l : list (N * V)) : aget N.eqb k (adel N.eqb k l) = None.
Proof. apply aget_adel_eq. Qed.
Lemma nget_adel_neq {V} k k' (l : list (N * V)) :
  k <> k' -> aget N.eqb k (adel N.eqb k' l) = aget N.eqb k l.
Proof. apply aget_adel_neq, N.eqb_eq. Qed.
Lemma nget_aset {V} k k' (v : V) l :
  aget N.eqb k (aset N.eqb k' v l) = if N.eqb k k' then Some v else aget N.eqb k l.
Proof. apply aget_aset, N.eqb_eq. Qed.
Lemma nget_adel {V} k k' (l : list (N * V)) :
  aget N.eqb k (adel N.eqb k' l) = if N.eqb k k' then None else aget N.eqb k l.
Proof. apply aget_adel, N.eqb_eq. Qed.
Lemma nget_In {V} k (v : V) l : aget N.eqb k l = Some v -> In (k, v) l.
Proof. apply aget_In, N.eqb_eq. Qed.

(* ---------------------------------------------------------------------------------- *)
Section P.
  Variable bytes : Type.
  Variable H : bytes -> oid.
  Variable kids : bytes -> list oid.
  Variable empty : bytes.
  Hypothesis kids_empty : kids empty = [].

  Notation file := (file bytes).
  Notation world := (world bytes).
  Notation astep := (astep_ bytes).
  Notation obj := (obj bytes).
  Notation row := (row bytes).
  Notation tmp := (tmp bytes).
  Notation step := (step bytes empty).
  Notation run := (run bytes empty).
  Notation step_ok := (step_ok bytes H kids).
  Notation valid_trace := (valid_trace bytes H kids empty).
  Notation named_ok := (named_ok bytes H).
  Notation named_ok_b := (named_ok_b bytes H).
  Notation closed := (closed bytes H kids).
  Notation vouched := (vouched bytes).
  Notation crash := (crash bytes).
  Notation crash_inv := (crash_inv bytes H kids).
  Notation crash_inv_b := (crash_inv_b bytes H kids).
  Notation kid_ok := (kid_ok bytes H).
  Notation kids_ok := (kids_ok bytes H kids).
  Notation save_rows := (save_rows bytes).
  Notation heal1_steps := (heal1_steps bytes H).

  Lemma named_ok_b_iff o b : named_ok_b o b = true <-> named_ok o b.
  Proof. unfold AddSteps.named_ok_b, AddSteps.named_ok. apply list_N_eqb_spec. Qed.

  Lemma named_ok_b_false o b : named_ok_b o b = false <-> ~ named_ok o b.
  Proof.
    split.
    - intros E Hn. apply named_ok_b_iff in Hn. congruence.
    - intros Hn. destruct (named_ok_b o b) eqn:E; [|reflexivity].
      apply named_ok_b_iff in E. contradiction.
  Qed.

  Lemma kids_ok_spec w b :
    kids_ok w b = true ->
    forall k, In k (kids b) -> exists g, obj w k = Some g /\ named_ok k (f_bytes g).
  Proof.
    unfold AddSteps.kids_ok. intros Hf k Hk.
    rewrite forallb_forall in Hf. specialize (Hf k Hk).
    unfold AddSteps.kid_ok in Hf. destruct (obj w k) as [g|]; [|discriminate].
    exists g. split; [reflexivity|]. apply named_ok_b_iff. exact Hf.
  Qed.

  (* ---- traces ---- *)
  Lemma run_app a b w : run (a ++ b) w = run b (run a w).
  Proof. unfold AddSteps.run. apply fold_left_app. Qed.

  Lemma run_cons s tr w : run (s :: tr) w = run tr (step w s).
  Proof. reflexivity. Qed.

  Lemma valid_trace_app a b : forall w,
    valid_trace (a ++ b) w = valid_trace a w && valid_trace b (run a w).
  Proof.
    induction a as [|s a IH]; intros w.
    - reflexivity.
    - change (valid_trace ((s :: a) ++ b) w)
        with (step_ok w s && valid_trace (a ++ b) (step w s)).
      change (valid_trace (s :: a) w) with (step_ok w s && valid_trace a (step w s)).
      change (run (s :: a) w) with (run a (step w s)).
      rewrite IH. apply andb_assoc.
  Qed.

  Lemma valid_trace_firstn tr : forall w n,
    valid_trace tr w = true -> valid_trace (firstn n tr) w = true.
  Proof.
    induction tr as [|s tr IH]; intros w n Hv.
    - destruct n; reflexivity.
    - destruct n; [reflexivity|].
      simpl in Hv |- *. apply andb_true_iff in Hv. destruct Hv as [Hs Hv].
      rewrite Hs. simpl. apply IH. exact Hv.
  Qed.

  (* ---- the invariant ---- *)
  Definition prot_ok (w : world) : Prop :=
    forall o f, obj w o = Some f -> f_prot f = true -> named_ok o (f_bytes f).
  Definition rows_ok (w : world) : Prop :=
    forall o f v, obj w o = Some f -> row w o = Some v -> base v = base (H (f_bytes f)).
  Definition pend_ok (w : world) : Prop :=
    forall p, w_pend w = Some p ->
      (exists f, obj w p = Some f /\ f_prot f = false) /\ row w p = None /\
      (forall d f, obj w d = Some f -> is_dir d = true -> named_ok d (f_bytes f) ->
                   ~ In p (kids (f_bytes f))).
  Definition inv (w : world) : Prop := prot_ok w /\ rows_ok w /\ closed w /\ pend_ok w.
  Definition ok_on (P : oid -> Prop) (w : world) : Prop :=
    forall o f, P o -> obj w o = Some f -> named_ok o (f_bytes f) \/ w_pend w = Some o.

  Lemma inv_crash_inv w : inv w -> crash_inv w.
  Proof.
    intros (Hp & Hr & Hc & _). split; [exact Hp|split; [|exact Hc]].
    intros o f Ho (v & Hv & Hb). unfold AddSteps.named_ok.
    rewrite <- (Hr o f v Ho Hv). exact Hb.
  Qed.

  Lemma inv_crash w : inv w -> inv (crash w).
  Proof.
    intros (Hp & Hr & Hc & _). split; [exact Hp|split; [exact Hr|split; [exact Hc|]]].
    intros p Hq. discriminate Hq.
  Qed.

  Lemma crash_inv_crash w : crash_inv (crash w) <-> crash_inv w.
  Proof. split; intros Hc; exact Hc. Qed.

  Lemma save_rows_get objs rs : forall rows o v,
    aget list_N_eqb o (save_rows objs rs rows) = Some v ->
    aget list_N_eqb o rows = Some v \/ In (o, v) rs.
  Proof.
    unfold AddSteps.save_rows.
    induction rs as [|[k x] rs IH]; intros rows o v; simpl.
    - intros Hg. left. exact Hg.
    - intros Hg. apply IH in Hg. destruct Hg as [Hg|Hg]; [|right; right; exact Hg].
      destruct (aget list_N_eqb k objs); [|left; exact Hg].
      rewrite oget_aset in Hg. destruct (list_N_eqb o k) eqn:E; [|left; exact Hg].
      apply list_N_eqb_spec in E. subst k. injection Hg as ->. right. left. reflexivity.
  Qed.

  (* ---- one step keeps the invariant: the six steps that touch final names ---- *)
  Lemma step_inv_probe w o : inv w -> step_ok w (Probe o) = true -> inv (step w (Probe o)).
  Proof.
    intros (Hp & Hr & Hc & Hq) Hok.
    unfold AddSteps.step_ok in Hok.
    destruct (w_pend w) eqn:Epend; [discriminate|].
    destruct (obj w o) eqn:Eo; [discriminate|]. clear Hok.
    assert (Eobj : forall o', obj (step w (Probe o)) o' =
                     if list_N_eqb o' o then Some (mkF empty false) else obj w o').
    { intro o'. unfold AddSteps.step. rewrite Eo. apply oget_aset. }
    assert (Erow : forall o', row (step w (Probe o)) o' =
                     if list_N_eqb o' o then None else row w o').
    { intro o'. apply oget_adel. }
    split; [|split; [|split]].
    - intros o' f. rewrite Eobj. destruct (list_N_eqb o' o) eqn:E.
      + intros [= <-]. simpl. discriminate.
      + apply Hp.
    - intros o' f v. rewrite Eobj, Erow. destruct (list_N_eqb o' o).
      + intros _ Hv. discriminate Hv.
      + apply Hr.
    - intros d f. rewrite Eobj. destruct (list_N_eqb d o) eqn:E.
      + intros [= <-] _ _ k. simpl. rewrite kids_empty. intros [].
      + intros Hd Hdir Hn k Hk. destruct (Hc d f Hd Hdir Hn k Hk) as (g & Hg & Hgn).
        exists g. split; [|exact Hgn]. rewrite Eobj.
        destruct (list_N_eqb k o) eqn:E2; [|exact Hg].
        apply list_N_eqb_spec in E2. subst k. congruence.
    - intros p Hpd. change (Some o = Some p) in Hpd. injection Hpd as <-.
      split; [|split].
      + exists (mkF empty false). rewrite Eobj, oeqb_refl. split; reflexivity.
      + rewrite Erow, oeqb_refl. reflexivity.
      + intros d f. rewrite Eobj. destruct (list_N_eqb d o) eqn:E.
        * intros [= <-] _ _. simpl. rewrite kids_empty. intros [].
        * intros Hd Hdir Hn Hin. destruct (Hc d f Hd Hdir Hn o Hin) as (g & Hg & _).
          congruence.
  Qed.

  Lemma step_inv_probeclean w o :
    inv w -> step_ok w (ProbeClean o) = true -> inv (step w (ProbeClean o)).
  Proof.
    intros (Hp & Hr & Hc & Hq) Hok.
    unfold AddSteps.step_ok in Hok.
    destruct (w_pend w) as [p|] eqn:Epend; [|discriminate].
    apply list_N_eqb_spec in Hok. subst p.
    destruct (Hq o Epend) as (_ & _ & Hnk).
    assert (Eobj : forall o', obj (step w (ProbeClean o)) o' =
                     if list_N_eqb o' o then None else obj w o').
    { intro o'. apply oget_adel. }
    assert (Erow : forall o', row (step w (ProbeClean o)) o' =
                     if list_N_eqb o' o then None else row w o').
    { intro o'. apply oget_adel. }
    split; [|split; [|split]].
    - intros o' f. rewrite Eobj. destruct (list_N_eqb o' o); [discriminate|apply Hp].
    - intros o' f v. rewrite Eobj, Erow. destruct (list_N_eqb o' o); [discriminate|apply Hr].
    - intros d f. rewrite Eobj. destruct (list_N_eqb d o) eqn:E; [discriminate|].
      intros Hd Hdir Hn k Hk. destruct (Hc d f Hd Hdir Hn k Hk) as (g & Hg & Hgn).
      exists g. split; [|exact Hgn]. rewrite Eobj.
      destruct (list_N_eqb k o) eqn:E2; [|exact Hg].
      apply list_N_eqb_spec in E2. subst k. exfalso. exact (Hnk d f Hd Hdir Hn Hk).
    - intros p Hpd. discriminate Hpd.
  Qed.

  Lemma step_inv_rename w t o :
    inv w -> step_ok w (Rename t o) = true -> inv (step w (Rename t o)).
  Proof.
    intros (Hp & Hr & Hc & Hq) Hok.
    unfold AddSteps.step_ok in Hok.
    destruct (w_pend w) eqn:Epend; [discriminate|].
    destruct (tmp w t) as [b|] eqn:Et; [|discriminate].
    apply andb_true_iff in Hok. destruct Hok as [Hnb Hk].
    apply named_ok_b_iff in Hnb.
    assert (Eobj : forall o', obj (step w (Rename t o)) o' =
                     if list_N_eqb o' o then Some (mkF b false) else obj w o').
    { intro o'. unfold AddSteps.step. rewrite Et. apply oget_aset. }
    assert (Erow : forall o', row (step w (Rename t o)) o' =
                     if list_N_eqb o' o then None else row w o').
    { intro o'. unfold AddSteps.step. rewrite Et. apply oget_adel. }
    assert (Ekeep : forall k g, obj w k = Some g -> named_ok k (f_bytes g) ->
              exists g', obj (step w (Rename t o)) k = Some g' /\ named_ok k (f_bytes g')).
    { intros k g Hg Hgn. rewrite Eobj. destruct (list_N_eqb k o) eqn:E.
      - apply list_N_eqb_spec in E. subst k. exists (mkF b false). split; [reflexivity|exact Hnb].
      - exists g. split; assumption. }
    split; [|split; [|split]].
    - intros o' f. rewrite Eobj. destruct (list_N_eqb o' o) eqn:E.
      + intros [= <-]. simpl. discriminate.
      + apply Hp.
    - intros o' f v. rewrite Eobj, Erow. destruct (list_N_eqb o' o).
      + intros _ Hv. discriminate Hv.
      + apply Hr.
    - intros d f. rewrite Eobj. destruct (list_N_eqb d o) eqn:E.
      + apply list_N_eqb_spec in E. subst d. intros [= <-] Hdir _ k Hin. simpl in Hin.
        rewrite Hdir in Hk. simpl in Hk.
        destruct (kids_ok_spec w b Hk k Hin) as (g & Hg & Hgn).
        exact (Ekeep k g Hg Hgn).
      + intros Hd Hdir Hn k Hin. destruct (Hc d f Hd Hdir Hn k Hin) as (g & Hg & Hgn).
        exact (Ekeep k g Hg Hgn).
    - intros p Hpd. unfold AddSteps.step in Hpd. rewrite Et in Hpd. simpl in Hpd. congruence.
  Qed.

  Lemma step_inv_chmod w o : inv w -> step_ok w (Chmod o) = true -> inv (step w (Chmod o)).
  Proof.
    intros (Hp & Hr & Hc & Hq) Hok.
    unfold AddSteps.step_ok in Hok.
    destruct (w_pend w) eqn:Epend; [discriminate|].
    destruct (obj w o) as [f0|] eqn:Eo.
    2:{ unfold AddSteps.step. rewrite Eo. exact (conj Hp (conj Hr (conj Hc Hq))). }
    apply named_ok_b_iff in Hok.
    assert (Eobj : forall o', obj (step w (Chmod o)) o' =
                     if list_N_eqb o' o then Some (mkF (f_bytes f0) true) else obj w o').
    { intro o'. unfold AddSteps.step. rewrite Eo. apply oget_aset. }
    assert (Erow : forall o', row (step w (Chmod o)) o' = row w o').
    { intro o'. unfold AddSteps.step. rewrite Eo. reflexivity. }
    assert (Ekeep : forall k g, obj w k = Some g -> named_ok k (f_bytes g) ->
              exists g', obj (step w (Chmod o)) k = Some g' /\ named_ok k (f_bytes g')).
    { intros k g Hg Hgn. rewrite Eobj. destruct (list_N_eqb k o) eqn:E.
      - apply list_N_eqb_spec in E. subst k. exists (mkF (f_bytes f0) true).
        split; [reflexivity|exact Hok].
      - exists g. split; assumption. }
    split; [|split; [|split]].
    - intros o' f. rewrite Eobj. destruct (list_N_eqb o' o) eqn:E.
      + apply list_N_eqb_spec in E. subst o'. intros [= <-] _. exact Hok.
      + apply Hp.
    - intros o' f v. rewrite Eobj, Erow. destruct (list_N_eqb o' o) eqn:E.
      + apply list_N_eqb_spec in E. subst o'. intros [= <-] Hv. simpl.
        exact (Hr o f0 v Eo Hv).
      + apply Hr.
    - intros d f. rewrite Eobj. destruct (list_N_eqb d o) eqn:E.
      + apply list_N_eqb_spec in E. subst d. intros [= <-] Hdir Hn k Hin. simpl in Hin, Hn.
        destruct (Hc o f0 Eo Hdir Hn k Hin) as (g & Hg & Hgn).
        exact (Ekeep k g Hg Hgn).
      + intros Hd Hdir Hn k Hin. destruct (Hc d f Hd Hdir Hn k Hin) as (g & Hg & Hgn).
        exact (Ekeep k g Hg Hgn).
    - intros p Hpd. unfold AddSteps.step in Hpd. rewrite Eo in Hpd. simpl in Hpd. congruence.
  Qed.

  Lemma step_inv_statesave w rs :
    inv w -> step_ok w (StateSave rs) = true -> inv (step w (StateSave rs)).
  Proof.
    intros (Hp & Hr & Hc & Hq) Hok.
    unfold AddSteps.step_ok in Hok.
    destruct (w_pend w) eqn:Epend; [discriminate|].
    rewrite forallb_forall in Hok.
    split; [exact Hp|split; [|split; [exact Hc|]]].
    - intros o f v Ho Hv.
      change (aget list_N_eqb o (save_rows (w_objs w) rs (w_rows w)) = Some v) in Hv.
      change (obj w o = Some f) in Ho.
      apply save_rows_get in Hv. destruct Hv as [Hv|Hin].
      + exact (Hr o f v Ho Hv).
      + specialize (Hok (o, v) Hin). simpl in Hok. rewrite Ho in Hok.
        apply list_N_eqb_spec in Hok. exact Hok.
    - intros p Hpd. simpl in Hpd. congruence.
  Qed.

  Lemma step_inv_remove w o : inv w -> step_ok w (Remove o) = true -> inv (step w (Remove o)).
  Proof.
    intros (Hp & Hr & Hc & Hq) Hok.
    unfold AddSteps.step_ok in Hok.
    destruct (w_pend w) eqn:Epend; [discriminate|].
    assert (Hbad : forall g, obj w o = Some g -> ~ named_ok o (f_bytes g)).
    { intros g Hg. rewrite Hg in Hok. apply negb_true_iff in Hok.
      apply named_ok_b_false. exact Hok. }
    assert (Eobj : forall o', obj (step w (Remove o)) o' =
                     if list_N_eqb o' o then None else obj w o').
    { intro o'. apply oget_adel. }
    assert (Erow : forall o', row (step w (Remove o)) o' =
                     if list_N_eqb o' o then None else row w o').
    { intro o'. apply oget_adel. }
    split; [|split; [|split]].
    - intros o' f. rewrite Eobj. destruct (list_N_eqb o' o); [discriminate|apply Hp].
    - intros o' f v. rewrite Eobj, Erow. destruct (list_N_eqb o' o); [discriminate|apply Hr].
    - intros d f. rewrite Eobj. destruct (list_N_eqb d o) eqn:E; [discriminate|].
      intros Hd Hdir Hn k Hk. destruct (Hc d f Hd Hdir Hn k Hk) as (g & Hg & Hgn).
      exists g. split; [|exact Hgn]. rewrite Eobj.
      destruct (list_N_eqb k o) eqn:E2; [|exact Hg].
      apply list_N_eqb_spec in E2. subst k. exfalso. exact (Hbad g Hg Hgn).
    - intros p Hpd. simpl in Hpd. congruence.
  Qed.

  Theorem step_inv w s : inv w -> step_ok w s = true -> inv (step w s).
  Proof.
    intros Hi Hok. destruct s as [p|o|o|t|t|t b|t t'|t o|o|rs|o].
    - exact Hi.
    - apply step_inv_probe; assumption.
    - apply step_inv_probeclean; assumption.
    - exact Hi.
    - exact Hi.
    - exact Hi.
    - unfold AddSteps.step. destruct (tmp w t); exact Hi.
    - apply step_inv_rename; assumption.
    - apply step_inv_chmod; assumption.
    - apply step_inv_statesave; assumption.
    - apply step_inv_remove; assumption.
  Qed.

  Theorem step_ok_on (P : oid -> Prop) w s :
    ok_on P w -> step_ok w s = true -> ok_on P (step w s).
  Proof.
    intros Hon Hok. destruct s as [p|o|o|t|t|t b|t t'|t o|o|rs|o].
    - exact Hon.
    - (* Probe *)
      unfold AddSteps.step_ok in Hok.
      destruct (w_pend w) eqn:Epend; [discriminate|].
      destruct (obj w o) eqn:Eo; [discriminate|].
      intros o' f HP Ho'.
      assert (Eobj : obj (step w (Probe o)) o' =
                       if list_N_eqb o' o then Some (mkF empty false) else obj w o').
      { unfold AddSteps.step. rewrite Eo. apply oget_aset. }
      rewrite Eobj in Ho'. destruct (list_N_eqb o' o) eqn:E.
      + apply list_N_eqb_spec in E. subst o'. right. reflexivity.
      + destruct (Hon o' f HP Ho') as [Hn|Hn]; [left; exact Hn|congruence].
    - (* ProbeClean *)
      unfold AddSteps.step_ok in Hok.
      destruct (w_pend w) as [p|] eqn:Epend; [|discriminate].
      apply list_N_eqb_spec in Hok. subst p.
      intros o' f HP Ho'.
      assert (Eobj : obj (step w (ProbeClean o)) o' =
                       if list_N_eqb o' o then None else obj w o').
      { apply oget_adel. }
      rewrite Eobj in Ho'. destruct (list_N_eqb o' o) eqn:E; [discriminate|].
      destruct (Hon o' f HP Ho') as [Hn|Hn]; [left; exact Hn|].
      assert (Heq : o = o') by congruence. subst o'.
      rewrite oeqb_refl in E. discriminate.
    - exact Hon.
    - exact Hon.
    - exact Hon.
    - unfold AddSteps.step. destruct (tmp w t); exact Hon.
    - (* Rename *)
      unfold AddSteps.step_ok in Hok.
      destruct (w_pend w) eqn:Epend; [discriminate|].
      destruct (tmp w t) as [b|] eqn:Et; [|discriminate].
      apply andb_true_iff in Hok. destruct Hok as [Hnb _].
      apply named_ok_b_iff in Hnb.
      intros o' f HP Ho'.
      assert (Eobj : obj (step w (Rename t o)) o' =
                       if list_N_eqb o' o then Some (mkF b false) else obj w o').
      { unfold AddSteps.step. rewrite Et. apply oget_aset. }
      rewrite Eobj in Ho'. destruct (list_N_eqb o' o) eqn:E.
      + apply list_N_eqb_spec in E. subst o'. injection Ho' as <-. left. exact Hnb.
      + destruct (Hon o' f HP Ho') as [Hn|Hn]; [left; exact Hn|congruence].
    - (* Chmod *)
      unfold AddSteps.step_ok in Hok.
      destruct (w_pend w) eqn:Epend; [discriminate|].
      destruct (obj w o) as [f0|] eqn:Eo.
      2:{ unfold AddSteps.step. rewrite Eo. exact Hon. }
      apply named_ok_b_iff in Hok.
      intros o' f HP Ho'.
      assert (Eobj : obj (step w (Chmod o)) o' =
                       if list_N_eqb o' o then Some (mkF (f_bytes f0) true) else obj w o').
      { unfold AddSteps.step. rewrite Eo. apply oget_aset. }
      rewrite Eobj in Ho'. destruct (list_N_eqb o' o) eqn:E.
      + apply list_N_eqb_spec in E. subst o'. injection Ho' as <-. left. exact Hok.
      + destruct (Hon o' f HP Ho') as [Hn|Hn]; [left; exact Hn|congruence].
    - exact Hon.
    - (* Remove *)
      intros o' f HP Ho'.
      assert (Eobj : obj (step w (Remove o)) o' =
                       if list_N_eqb o' o then None else obj w o').
      { apply oget_adel. }
      rewrite Eobj in Ho'. destruct (list_N_eqb o' o) eqn:E; [discriminate|].
      exact (Hon o' f HP Ho').
  Qed.

  (* ---- traces keep the invariant, at every prefix ---- *)
  Theorem run_inv tr : forall w, inv w -> valid_trace tr w = true -> inv (run tr w).
  Proof.
    induction tr as [|s tr IH]; intros w Hi Hv.
    - exact Hi.
    - simpl in Hv. apply andb_true_iff in Hv. destruct Hv as [Hs Hv].
      rewrite run_cons. apply IH; [apply step_inv; assumption|exact Hv].
  Qed.

  Theorem run_ok_on (P : oid -> Prop) tr : forall w,
    ok_on P w -> valid_trace tr w = true -> ok_on P (run tr w).
  Proof.
    induction tr as [|s tr IH]; intros w Hi Hv.
    - exact Hi.
    - simpl in Hv. apply andb_true_iff in Hv. destruct Hv as [Hs Hv].
      rewrite run_cons. apply IH; [apply step_ok_on; assumption|exact Hv].
  Qed.

  Theorem valid_prefix_inv tr w :
    inv w -> valid_trace tr w = true -> forall n, inv (run (firstn n tr) w).
  Proof.
    intros Hi Hv n. apply run_inv; [exact Hi|]. apply valid_trace_firstn. exact Hv.
  Qed.

  Theorem valid_prefix_ok_on (P : oid -> Prop) tr w :
    ok_on P w -> valid_trace tr w = true -> forall n, ok_on P (run (firstn n tr) w).
  Proof.
    intros Hi Hv n. apply run_ok_on; [exact Hi|]. apply valid_trace_firstn. exact Hv.
  Qed.

  Corollary valid_prefix_crash_inv tr w :
    inv w -> valid_trace tr w = true -> forall n, crash_inv (crash (run (firstn n tr) w)).
  Proof.
    intros Hi Hv n. apply inv_crash_inv, inv_crash, valid_prefix_inv; assumption.
  Qed.

  (* ---- the boolean checker is sound ---- *)
  Theorem crash_inv_b_sound w : crash_inv_b w = true -> crash_inv w.
  Proof.
    unfold AddSteps.crash_inv_b. intros Hb. rewrite forallb_forall in Hb.
    assert (Hall : forall o f, obj w o = Some f ->
              (f_prot f = true -> named_ok o (f_bytes f)) /\
              (vouched w o -> named_ok o (f_bytes f)) /\
              (is_dir o = true -> named_ok o (f_bytes f) -> kids_ok w (f_bytes f) = true)).
    { intros o f Ho. pose proof (Hb (o, f) (oget_In _ _ _ Ho)) as Hx.
      cbv beta zeta in Hx. change (fst (o, f)) with o in Hx. rewrite Ho in Hx.
      apply andb_true_iff in Hx. destruct Hx as [Hx H3].
      apply andb_true_iff in Hx. destruct Hx as [H1 H2].
      split; [|split].
      - intros Hpr. rewrite Hpr in H1. simpl in H1. apply named_ok_b_iff. exact H1.
      - intros (v & Hv & Hbv). rewrite Hv in H2.
        apply list_N_eqb_spec in Hbv. rewrite Hbv in H2. simpl in H2.
        apply named_ok_b_iff. exact H2.
      - intros Hd Hn. apply named_ok_b_iff in Hn. rewrite Hd, Hn in H3. exact H3. }
    split; [|split].
    - intros o f Ho. exact (proj1 (Hall o f Ho)).
    - intros o f Ho. exact (proj1 (proj2 (Hall o f Ho))).
    - intros d f Hd Hdir Hn. apply kids_ok_spec.
      exact (proj2 (proj2 (Hall d f Hd)) Hdir Hn).
  Qed.

  (* ---- the existence query of the local store ---- *)
  Lemma step_ok_chmod w o f :
    w_pend w = None -> obj w o = Some f -> step_ok w (Chmod o) = named_ok_b o (f_bytes f).
  Proof. intros Hpd Ho. unfold AddSteps.step_ok. rewrite Hpd, Ho. reflexivity. Qed.

  Lemma step_ok_remove w o f :
    w_pend w = None -> obj w o = Some f ->
    step_ok w (Remove o) = negb (named_ok_b o (f_bytes f)).
  Proof. intros Hpd Ho. unfold AddSteps.step_ok. rewrite Hpd, Ho. reflexivity. Qed.

  Lemma step_ok_statesave_self w o f :
    w_pend w = None -> obj w o = Some f ->
    step_ok w (StateSave [(o, H (f_bytes f))]) = true.
  Proof.
    intros Hpd Ho. unfold AddSteps.step_ok. rewrite Hpd.
    unfold forallb, fst, snd. rewrite Ho, oeqb_refl. reflexivity.
  Qed.

  Lemma chmod_post w o f :
    obj w o = Some f ->
    w_pend (step w (Chmod o)) = w_pend w /\
    (forall o', o' <> o -> obj (step w (Chmod o)) o' = obj w o') /\
    obj (step w (Chmod o)) o = Some (mkF (f_bytes f) true).
  Proof.
    intros Ho. unfold AddSteps.step. rewrite Ho. split; [reflexivity|split].
    - intros o' Hne. apply oget_aset_neq. exact Hne.
    - apply oget_aset_eq.
  Qed.

  Lemma remove_post w o :
    w_pend (step w (Remove o)) = w_pend w /\
    (forall o', o' <> o -> obj (step w (Remove o)) o' = obj w o') /\
    obj (step w (Remove o)) o = None.
  Proof.
    split; [reflexivity|split].
    - intros o' Hne. apply oget_adel_neq. exact Hne.
    - apply oget_adel_eq.
  Qed.

  Theorem heal1_valid w o :
    inv w -> w_pend w = None -> valid_trace (heal1_steps w o) w = true.
  Proof.
    intros (Hp & Hr & Hc & Hq) Hpd. unfold AddSteps.heal1_steps.
    destruct (obj w o) as [f|] eqn:Eo; [|reflexivity].
    destruct (f_prot f) eqn:Epr; [reflexivity|].
    destruct (row w o) as [v|] eqn:Er; cbv beta iota zeta.
    - specialize (Hr o f v Eo Er). change ([] ++ ?l) with l.
      destruct (list_N_eqb (base v) (base o)) eqn:E.
      + change (step_ok w (Chmod o) && true = true).
        rewrite (step_ok_chmod w o f Hpd Eo). unfold AddSteps.named_ok_b.
        rewrite <- Hr, E. reflexivity.
      + change (step_ok w (Remove o) && true = true).
        rewrite (step_ok_remove w o f Hpd Eo). unfold AddSteps.named_ok_b.
        rewrite <- Hr, E. reflexivity.
    - set (sv := StateSave [(o, H (f_bytes f))]).
      set (w1 := step w sv).
      assert (Hpd1 : w_pend w1 = None) by exact Hpd.
      assert (Eo1 : obj w1 o = Some f) by exact Eo.
      destruct (list_N_eqb (base (H (f_bytes f))) (base o)) eqn:E.
      + change (step_ok w sv && (step_ok w1 (Chmod o) && true) = true).
        unfold sv at 1. rewrite (step_ok_statesave_self w o f Hpd Eo).
        rewrite (step_ok_chmod w1 o f Hpd1 Eo1). unfold AddSteps.named_ok_b.
        rewrite E. reflexivity.
      + change (step_ok w sv && (step_ok w1 (Remove o) && true) = true).
        unfold sv at 1. rewrite (step_ok_statesave_self w o f Hpd Eo).
        rewrite (step_ok_remove w1 o f Hpd1 Eo1). unfold AddSteps.named_ok_b.
        rewrite E. reflexivity.
  Qed.

  Theorem heal1_post w o :
    inv w -> w_pend w = None ->
    let w' := run (heal1_steps w o) w in
    w_pend w' = None /\
    (forall o', o' <> o -> obj w' o' = obj w o') /\
    (forall f, obj w' o = Some f -> named_ok o (f_bytes f) /\ f_prot f = true).
  Proof.
    intros (Hp & Hr & Hc & Hq) Hpd. unfold AddSteps.heal1_steps.
    destruct (obj w o) as [f|] eqn:Eo.
    2:{ cbv zeta. change (run [] w) with w. split; [exact Hpd|split; [reflexivity|]].
        intros f Hf. congruence. }
    destruct (f_prot f) eqn:Epr.
    { cbv zeta. change (run [] w) with w. split; [exact Hpd|split; [reflexivity|]].
      intros f' Hf. rewrite Eo in Hf. injection Hf as <-.
      split; [exact (Hp o f Eo Epr)|exact Epr]. }
    destruct (row w o) as [v|] eqn:Er; cbv beta iota zeta.
    - specialize (Hr o f v Eo Er). change ([] ++ ?l) with l.
      destruct (list_N_eqb (base v) (base o)) eqn:E.
      + change (run [Chmod o] w) with (step w (Chmod o)).
        destruct (chmod_post w o f Eo) as (Q1 & Q2 & Q3).
        split; [rewrite Q1; exact Hpd|split; [exact Q2|]].
        intros f' Hf. rewrite Q3 in Hf. injection Hf as <-. simpl.
        split; [|reflexivity]. apply list_N_eqb_spec in E.
        unfold AddSteps.named_ok. rewrite <- Hr. exact E.
      + change (run [Remove o] w) with (step w (Remove o)).
        destruct (remove_post w o) as (Q1 & Q2 & Q3).
        split; [rewrite Q1; exact Hpd|split; [exact Q2|]].
        intros f' Hf. rewrite Q3 in Hf. discriminate Hf.
    - set (sv := StateSave [(o, H (f_bytes f))]).
      set (w1 := step w sv).
      assert (Hpd1 : w_pend w1 = None) by exact Hpd.
      assert (Eo1 : obj w1 o = Some f) by exact Eo.
      assert (Eall : forall o', obj w1 o' = obj w o') by reflexivity.
      destruct (list_N_eqb (base (H (f_bytes f))) (base o)) eqn:E.
      + change (run ([sv] ++ [Chmod o]) w) with (step w1 (Chmod o)).
        destruct (chmod_post w1 o f Eo1) as (Q1 & Q2 & Q3).
        split; [rewrite Q1; exact Hpd1|split].
        * intros o' Hne. rewrite (Q2 o' Hne). apply Eall.
        * intros f' Hf. rewrite Q3 in Hf. injection Hf as <-. simpl.
          split; [|reflexivity]. apply list_N_eqb_spec in E. exact E.
      + change (run ([sv] ++ [Remove o]) w) with (step w1 (Remove o)).
        destruct (remove_post w1 o) as (Q1 & Q2 & Q3).
        split; [rewrite Q1; exact Hpd1|split].
        * intros o' Hne. rewrite (Q2 o' Hne). apply Eall.
        * intros f' Hf. rewrite Q3 in Hf. discriminate Hf.
  Qed.

  (* the query keeps the invariant (corollary of [run_inv] and [heal1_valid]) *)
  Corollary heal1_inv w o : inv w -> w_pend w = None -> inv (run (heal1_steps w o) w).
  Proof. intros Hi Hpd. apply run_inv; [exact Hi|]. apply heal1_valid; assumption. Qed.
End P.

Print Assumptions step_inv.
Print Assumptions step_ok_on.
Print Assumptions run_inv.
Print Assumptions valid_prefix_inv.
Print Assumptions valid_prefix_crash_inv.
Print Assumptions crash_inv_b_sound.
Print Assumptions heal1_valid.
Print Assumptions heal1_post.
