(* Scenario theorems, second part: store->store transfer (directory object copied local->local),
   one transfer() over several directories sharing files (mt_loop / mtransfer_prog), and index.save
   with the store's default verification (directory objects verified too). *)
From Coq Require Import NArith List Bool Lia.
From DvcData Require Import Base.Val Model.AddSteps Proofs.AddStepsProofs Proofs.AddStepsProgs Proofs.AddStepsRecover Proofs.AddStepsVerify Proofs.AddStepsRecoverVerify Proofs.AddStepsMulti.
Import ListNotations.
Open Scope N_scope.

Lemma NoDup_map_filter {A B} (f : A -> B) (p : A -> bool) (l : list A) :
  NoDup (map f l) -> NoDup (map f (filter p l)).
Proof.
  induction l as [|a l IH]; simpl; intros Hn; [constructor|].
  inversion Hn as [|x xs Hnin Hnd]; subst.
  destruct (p a); simpl; [|now apply IH].
  constructor; [|now apply IH].
  intros Hin. apply Hnin. apply in_map_iff in Hin as [y [Hy Hi]]. apply filter_In in Hi as [Hi _].
  apply in_map_iff. exists y. auto.
Qed.

Section MR.
  Variable bytes : Type.
  Variable H : bytes -> oid.
  Variable kids : bytes -> list oid.
  Variable empty : bytes.
  Variable part : bytes -> bytes.
  Hypothesis kids_empty : kids empty = [].

  Notation astep := (astep_ bytes).
  Notation world := (world bytes).
  Notation obj := (obj bytes).
  Notation run := (run bytes empty).
  Notation valid_trace := (valid_trace bytes H kids empty).
  Notation named_ok := (named_ok bytes H).
  Notation named_ok_b := (named_ok_b bytes H).
  Notation inv := (inv bytes H kids).
  Notation crash_inv := (crash_inv bytes H kids).
  Notation crash := (crash bytes).
  Notation G := (G bytes).
  Notation step_oid := (step_oid bytes).
  Notation absent := (absent bytes).
  Notation add_prog := (add_prog bytes part).
  Notation mem_add_prog := (mem_add_prog bytes).
  Notation heal_prog := (heal_prog bytes H empty).
  Notation files_add := (files_add bytes part).
  Notation dir_add := (dir_add bytes part).
  Notation transfer_prog := (transfer_prog bytes H empty part).
  Notation mt_loop := (mt_loop bytes H kids empty part).
  Notation mtransfer_prog := (mtransfer_prog bytes H kids empty part).
  Notation vadd_prog := (vadd_prog bytes H empty part).
  Notation mem_vadd_prog := (mem_vadd_prog bytes H empty).
  Notation mem_vadds := (mem_vadds bytes H empty).
  Notation mem_adds := (mem_adds bytes empty).
  Notation save_gen := (save_gen bytes H empty part).
  Notation kids_ok := (kids_ok bytes H kids).
  Notation store_eq := (store_eq bytes).
  Notation good := (good bytes H).
  Notation files_ok := (files_ok bytes H).
  Notation dir_ok := (dir_ok bytes H kids).
  Notation all_ok := (all_ok bytes H).
  Notation save_req := (save_req bytes).
  Notation requested := (requested bytes).

  Lemma dir_not_kid files (d : oid * bytes) : files_ok files -> dir_ok files d -> ~ In (fst d) (kids (snd d)).
  Proof.
    intros Hf [_ [Hd Hk]] Hin. apply (dir_not_file bytes H files d Hf Hd). now apply Hk.
  Qed.

  (* ---- a generic "re-run converges" argument from the post-conditions of two valid programs ---- *)
  Hypothesis H_inj : forall b b', base (H b) = base (H b') -> b = b'.

  Lemma recover_from_posts (P : oid -> Prop) (p0 : list astep) (w0 : world) (n : nat) (p1 : list astep) :
    (forall o, P o \/ ~ P o) ->
    inv w0 -> valid_trace p0 w0 = true ->
    (forall o, P o -> good (run p0 w0) o) ->
    (forall o, ~ P o -> obj (run p0 w0) o = obj w0 o) ->
    (forall s, In s p0 -> forall o, step_oid s = Some o -> P o) ->
    let wc := crash (run (firstn n p0) w0) in
    valid_trace p1 wc = true ->
    (forall o, P o -> good (run p1 wc) o) ->
    (forall o, ~ P o -> obj (run p1 wc) o = obj wc o) ->
    inv wc /\
    (forall m, crash_inv (crash (run (firstn m p1) wc))) /\
    store_eq (run p1 wc) (run p0 w0).
  Proof.
    intros Hdec Hinv Hv0 Hg0 Hfr0 Hoid0 wc Hv1 Hg1 Hfr1.
    assert (Hinvc : inv wc).
    { apply inv_crash. apply (valid_prefix_inv bytes H kids empty kids_empty p0 w0 Hinv Hv0). }
    split; [exact Hinvc|]. split.
    - intros m. now apply valid_prefix_crash_inv.
    - intros o. destruct (Hdec o) as [Hp|Hn].
      + apply (good_unique bytes H H_inj); [now apply Hg1 | now apply Hg0].
      + rewrite Hfr1 by exact Hn. rewrite Hfr0 by exact Hn. unfold wc. rewrite (crash_obj bytes).
        apply obj_run_other. intros s Hs Ho. apply Hn. eapply Hoid0; [eapply firstn_In; exact Hs | exact Ho].
  Qed.

  Lemma in_dec_or (l : list oid) o : In o l \/ ~ In o l.
  Proof. destruct (in_dec oid_dec o l); auto. Qed.

  (* ---- transfer of one directory, the directory object from memory OR copied local->local ---- *)
  Theorem transfer_prog_valid_any mem t qs files d w :
    inv w -> G w -> files_ok files -> dir_ok files d -> requested files d qs ->
    let p := transfer_prog mem t qs files d w in let w' := run p w in
    valid_trace p w = true /\ G w' /\
    (forall o, In o qs -> good w' o) /\
    (forall o, ~ In o qs -> obj w' o = obj w o) /\
    (forall s, In s p -> forall o, step_oid s = Some o -> In o qs).
  Proof.
    intros Hinv HG Hf Hd Hq p w'. subst p w'. unfold AddSteps.transfer_prog, seq2.
    destruct (heal_prog_valid bytes H kids empty kids_empty qs w Hinv HG)
      as [Hv1 [Hinv1 [HG1 [Hh1 [Hfr1 [Hnone1 Hoid1]]]]]].
    set (p1 := heal_prog qs w) in *. set (w1 := run p1 w) in *.
    assert (Hhf : forall it f, In it files -> obj w1 (fst it) = Some f ->
                               named_ok (fst it) (f_bytes f) /\ f_prot f = true).
    { intros it f Hi Ho. apply (Hh1 (fst it) f); [|exact Ho]. apply Hq. right. now apply in_map. }
    destruct (files_add_valid bytes H kids empty part t files w1 HG1 Hf Hhf) as [Hv2 [HG2 [Hg2 [Hfr2 Hoid2]]]].
    set (p2 := files_add t files w1) in *. set (w2 := run p2 w1) in *.
    set (t3 := t + nlen (filter (absent w1) files)).
    pose proof (dir_not_file bytes H files d Hf (proj1 (proj2 Hd))) as Hdn.
    assert (Hd2 : obj w2 (fst d) = obj w1 (fst d)) by (apply Hfr2; exact Hdn).
    assert (Hp3 : let p3 := dir_add mem t3 d w2 in let w3 := run p3 w2 in
                  valid_trace p3 w2 = true /\ G w3 /\ good w3 (fst d) /\
                  (forall o, o <> fst d -> obj w3 o = obj w2 o) /\
                  (forall s, In s p3 -> forall o, step_oid s = Some o -> o = fst d)).
    { unfold AddSteps.dir_add. destruct (absent w2 d) eqn:Ea.
      - apply absent_none in Ea. destruct mem.
        + apply (mem_add_prog_valid bytes H kids empty t3 d w2 HG2 (proj1 Hd)
                   (kids_ok_good bytes H kids w2 files d Hd Hg2)).
          intros f Ho. congruence.
        + apply (add_dir_valid bytes H kids empty part t3 d w2 HG2 Ea (proj1 Hd)
                   (kids_ok_good bytes H kids w2 files d Hd Hg2) (dir_not_kid files d Hf Hd)).
      - apply absent_false in Ea as [f Ho]. simpl. repeat split; auto.
        + rewrite Hd2 in Ho. destruct (Hh1 (fst d) f) as [Hn Hp]; [apply Hq; now left | exact Ho |].
          exists f. rewrite Hd2. auto.
        + intros s []. }
    destruct Hp3 as [Hv3 [HG3 [Hg3 [Hfr3 Hoid3]]]].
    set (p3 := dir_add mem t3 d w2) in *.
    rewrite !run_app.
    split; [|split; [|split; [|split]]].
    - apply valid_app; [exact Hv1|]. apply valid_app; [exact Hv2 | exact Hv3].
    - exact HG3.
    - intros o Hin. apply Hq in Hin as [->|Hin]; [exact Hg3|].
      apply in_map_iff in Hin as [it [He Hi]]. subst o.
      destruct (Hg2 it Hi) as [f [Ho Hr]]. exists f. split; [|exact Hr].
      rewrite Hfr3; [exact Ho|]. intros He. apply Hdn. rewrite <- He. now apply in_map.
    - intros o Hn. rewrite Hfr3, Hfr2, Hfr1; auto.
      + intros Hin. apply Hn. apply Hq. now right.
      + intros ->. apply Hn. apply Hq. now left.
    - intros s Hs o Ho. apply in_app_or in Hs as [Hs|Hs]; [eapply Hoid1; eauto|].
      apply in_app_or in Hs as [Hs|Hs].
      + apply Hq. right. eapply Hoid2; eauto.
      + apply Hq. left. eapply Hoid3; eauto.
  Qed.

  Theorem store_transfer_prefix_crash_inv t qs files d w n :
    inv w -> G w -> files_ok files -> dir_ok files d -> requested files d qs ->
    crash_inv (crash (run (firstn n (transfer_prog false t qs files d w)) w)).
  Proof.
    intros Hinv HG Hf Hd Hq.
    destruct (transfer_prog_valid_any false t qs files d w Hinv HG Hf Hd Hq) as [Hv _].
    now apply valid_prefix_crash_inv.
  Qed.

  Theorem transfer_recover_any mem t t' qs qs' files d w0 n :
    inv w0 -> G w0 -> files_ok files -> dir_ok files d -> requested files d qs -> requested files d qs' ->
    let p0 := transfer_prog mem t qs files d w0 in
    let wc := crash (run (firstn n p0) w0) in
    let p1 := transfer_prog mem t' qs' files d wc in
    valid_trace p1 wc = true /\
    (forall m, crash_inv (crash (run (firstn m p1) wc))) /\
    store_eq (run p1 wc) (run p0 w0) /\
    (forall o, In o qs -> good (run p1 wc) o).
  Proof.
    intros Hinv HG Hf Hd Hq Hq' p0 wc p1.
    destruct (transfer_prog_valid_any mem t qs files d w0 Hinv HG Hf Hd Hq) as [Hv0 [_ [Hg0 [Hfr0 Hoid0]]]].
    fold p0 in Hv0, Hg0, Hfr0, Hoid0.
    assert (Hinvc : inv wc).
    { apply inv_crash. apply (valid_prefix_inv bytes H kids empty kids_empty p0 w0 Hinv Hv0). }
    destruct (transfer_prog_valid_any mem t' qs' files d wc Hinvc eq_refl Hf Hd Hq') as [Hv1 [_ [Hg1 [Hfr1 _]]]].
    fold p1 in Hv1, Hg1, Hfr1.
    assert (Hqq : forall o, In o qs <-> In o qs') by (intros o; rewrite (Hq o), (Hq' o); reflexivity).
    destruct (recover_from_posts (fun o => In o qs) p0 w0 n p1 (in_dec_or qs) Hinv Hv0 Hg0 Hfr0 Hoid0 Hv1)
      as [_ [Hc He]].
    - intros o Hin. apply Hg1. now apply Hqq.
    - intros o Hn. apply Hfr1. intros Hin. apply Hn. now apply Hqq.
    - split; [exact Hv1|]. split; [exact Hc|]. split; [exact He|].
      intros o Hin. apply Hg1. now apply Hqq.
  Qed.

  (* ---- one transfer() over several directories that share files ---- *)
  Definition mrequested (forder ds : list (oid * bytes)) (qs : list oid) : Prop :=
    forall o, In o qs <-> In o (map fst ds) \/ In o (map fst forder).

  Theorem mtransfer_prog_valid mem t qs ds forder w :
    inv w -> G w -> files_ok forder -> (forall d, In d ds -> dir_ok forder d) ->
    NoDup (map fst ds) -> mrequested forder ds qs ->
    let p := mtransfer_prog false mem t qs ds forder w in let w' := run p w in
    valid_trace p w = true /\ G w' /\
    (forall o, In o qs -> good w' o) /\
    (forall o, ~ In o qs -> obj w' o = obj w o) /\
    (forall s, In s p -> forall o, step_oid s = Some o -> In o qs).
  Proof.
    intros Hinv HG Hf Hds Hnd Hq p w'. subst p w'. unfold AddSteps.mtransfer_prog, seq2.
    destruct (heal_prog_valid bytes H kids empty kids_empty qs w Hinv HG)
      as [Hv1 [Hinv1 [HG1 [Hh1 [Hfr1 [Hnone1 Hoid1]]]]]].
    set (p1 := heal_prog qs w) in *. set (w1 := run p1 w) in *.
    set (nds := filter (absent w1) ds). set (newf := filter (absent w1) forder).
    assert (Hgood1 : forall o f, In o qs -> obj w1 o = Some f -> good w1 o).
    { intros o f Hin Ho. destruct (Hh1 o f Hin Ho). exists f. auto. }
    assert (Hnds : forall d, In d nds -> In d ds /\ obj w1 (fst d) = None).
    { intros d Hi. apply filter_In in Hi as [Hi Ha]. split; [exact Hi | now apply absent_none]. }
    assert (Hnewf : forall it, In it newf -> In it forder /\ obj w1 (fst it) = None).
    { intros it Hi. apply filter_In in Hi as [Hi Ha]. split; [exact Hi | now apply absent_none]. }
    assert (Hcov : forall o, In o (map fst forder) -> good w1 o \/ In o (map fst newf)).
    { intros o Hin. apply in_map_iff in Hin as [it [<- Hi]]. destruct (absent w1 it) eqn:Ea.
      - right. apply in_map. apply filter_In. auto.
      - left. apply absent_false in Ea as [f Ho]. apply (Hgood1 _ f); [|exact Ho].
        apply Hq. right. now apply in_map. }
    destruct (mt_loop_valid bytes H kids empty part mem forder nds newf t w1 HG1 Hf
                (fun d Hi => Hds d (proj1 (Hnds d Hi))) (NoDup_map_filter fst _ ds Hnd)
                Hnewf Hcov (fun d Hi => proj2 (Hnds d Hi)))
      as [Hv2 [HG2 [Hgf [Hgd [Hfr2 Hoid2]]]]].
    set (p2 := mt_loop false mem t nds newf w1) in *.
    rewrite run_app.
    assert (Hsubf : forall o, In o (map fst newf) -> In o (map fst forder) /\ obj w1 o = None).
    { intros o Hin. apply in_map_iff in Hin as [it [<- Hi]]. destruct (Hnewf it Hi). split; [now apply in_map | auto]. }
    assert (Hsubd : forall o, In o (map fst nds) -> In o (map fst ds) /\ obj w1 o = None).
    { intros o Hin. apply in_map_iff in Hin as [d [<- Hi]]. destruct (Hnds d Hi). split; [now apply in_map | auto]. }
    split; [|split; [|split; [|split]]].
    - apply valid_app; assumption.
    - exact HG2.
    - intros o Hin. apply Hq in Hin as [Hin|Hin]; [|now apply Hgf].
      apply in_map_iff in Hin as [d [<- Hi]]. destruct (absent w1 d) eqn:Ea.
      + apply Hgd. apply filter_In. auto.
      + apply absent_false in Ea as [f Ho].
        assert (Hg : good w1 (fst d)) by (apply (Hgood1 _ f); [apply Hq; left; now apply in_map | exact Ho]).
        destruct Hg as [g [Hog Hr]]. exists g. split; [|exact Hr]. rewrite Hfr2; [exact Hog| |].
        * intros Hin. apply Hsubf in Hin as [_ Hn]. congruence.
        * intros Hin. apply Hsubd in Hin as [_ Hn]. congruence.
    - intros o Hn. rewrite Hfr2.
      + apply Hfr1. exact Hn.
      + intros Hin. apply Hn. apply Hq. right. now apply Hsubf.
      + intros Hin. apply Hn. apply Hq. left. now apply Hsubd.
    - intros s Hs o Ho. apply in_app_or in Hs as [Hs|Hs]; [eapply Hoid1; eauto|].
      apply Hq. destruct (Hoid2 s Hs o Ho) as [Hin|Hin]; [right; now apply Hsubf | left; now apply Hsubd].
  Qed.

  Theorem mtransfer_prefix_crash_inv mem t qs ds forder w n :
    inv w -> G w -> files_ok forder -> (forall d, In d ds -> dir_ok forder d) ->
    NoDup (map fst ds) -> mrequested forder ds qs ->
    crash_inv (crash (run (firstn n (mtransfer_prog false mem t qs ds forder w)) w)).
  Proof.
    intros Hinv HG Hf Hds Hnd Hq.
    destruct (mtransfer_prog_valid mem t qs ds forder w Hinv HG Hf Hds Hnd Hq) as [Hv _].
    now apply valid_prefix_crash_inv.
  Qed.

  (* the re-run may iterate the directories and the files in ANOTHER order (ds', forder' list the same
     directories / files) *)
  Theorem mtransfer_recover mem t t' qs qs' ds ds' forder forder' w0 n :
    inv w0 -> G w0 ->
    files_ok forder -> (forall d, In d ds -> dir_ok forder d) -> NoDup (map fst ds) -> mrequested forder ds qs ->
    files_ok forder' -> (forall d, In d ds' -> dir_ok forder' d) -> NoDup (map fst ds') -> mrequested forder' ds' qs' ->
    (forall o, In o qs <-> In o qs') ->
    let p0 := mtransfer_prog false mem t qs ds forder w0 in
    let wc := crash (run (firstn n p0) w0) in
    let p1 := mtransfer_prog false mem t' qs' ds' forder' wc in
    valid_trace p1 wc = true /\
    (forall m, crash_inv (crash (run (firstn m p1) wc))) /\
    store_eq (run p1 wc) (run p0 w0) /\
    (forall o, In o qs -> good (run p1 wc) o).
  Proof.
    intros Hinv HG Hf Hds Hnd Hq Hf' Hds' Hnd' Hq' Hqq p0 wc p1.
    destruct (mtransfer_prog_valid mem t qs ds forder w0 Hinv HG Hf Hds Hnd Hq) as [Hv0 [_ [Hg0 [Hfr0 Hoid0]]]].
    fold p0 in Hv0, Hg0, Hfr0, Hoid0.
    assert (Hinvc : inv wc).
    { apply inv_crash. apply (valid_prefix_inv bytes H kids empty kids_empty p0 w0 Hinv Hv0). }
    destruct (mtransfer_prog_valid mem t' qs' ds' forder' wc Hinvc eq_refl Hf' Hds' Hnd' Hq')
      as [Hv1 [_ [Hg1 [Hfr1 _]]]].
    fold p1 in Hv1, Hg1, Hfr1.
    destruct (recover_from_posts (fun o => In o qs) p0 w0 n p1 (in_dec_or qs) Hinv Hv0 Hg0 Hfr0 Hoid0 Hv1)
      as [_ [Hc He]].
    - intros o Hin. apply Hg1. now apply Hqq.
    - intros o Hn. apply Hfr1. intros Hin. apply Hn. now apply Hqq.
    - split; [exact Hv1|]. split; [exact Hc|]. split; [exact He|].
      intros o Hin. apply Hg1. now apply Hqq.
  Qed.

  (* ---- index.save with the store's default verification: directory objects verified too ---- *)
  Lemma mem_vadds_valid files dirs : forall t w,
    inv w -> G w -> files_ok files -> (forall d, In d dirs -> dir_ok files d) ->
    (forall it, In it files -> good w (fst it)) ->
    let p := mem_vadds t dirs w in let w' := run p w in
    valid_trace p w = true /\ inv w' /\ G w' /\
    (forall o, good w o -> good w' o) /\
    (forall d, In d dirs -> good w' (fst d)) /\
    (forall o, ~ In o (map fst dirs) -> obj w' o = obj w o) /\
    (forall s, In s p -> forall o, step_oid s = Some o -> In o (map fst dirs)).
  Proof.
    induction dirs as [|d r IH]; intros t w Hinv HG Hf Hds Hg; simpl.
    - split; [reflexivity|]. split; [exact Hinv|]. split; [exact HG|]. split; [auto|].
      split; [intros d []|]. split; [auto|]. intros s [].
    - assert (Hd : dir_ok files d) by (apply Hds; now left).
      destruct (mem_vadd_prog_valid bytes H kids empty kids_empty t d w Hinv HG (proj1 Hd)
                  (kids_ok_good bytes H kids w files d Hd Hg) (dir_not_kid files d Hf Hd))
        as [Hv1 [Hinv1 [HG1 [Hg1 [Hfr1 Hoid1]]]]].
      set (p1 := mem_vadd_prog t d w) in *. set (w1 := run p1 w) in *.
      assert (Hmono : forall o, good w o -> good w1 o).
      { intros o Hgo. destruct (oid_dec o (fst d)) as [->|Hne]; [exact Hg1|].
        destruct Hgo as [f [Ho Hr]]. exists f. rewrite Hfr1 by exact Hne. auto. }
      destruct (IH (t + 2 * n_ren bytes p1) w1 Hinv1 HG1 Hf (fun d' Hi => Hds d' (or_intror Hi))
                   (fun it Hi => Hmono _ (Hg it Hi))) as [Hv2 [Hinv2 [HG2 [Hm2 [Hg2 [Hfr2 Hoid2]]]]]].
      rewrite run_app. split; [|split; [|split; [|split; [|split; [|split]]]]].
      + apply valid_app; assumption.
      + exact Hinv2.
      + exact HG2.
      + intros o Hgo. apply Hm2. now apply Hmono.
      + intros d' [<-|Hi]; [apply Hm2; exact Hg1 | now apply Hg2].
      + intros o Hn. rewrite Hfr2 by (intros Hin; apply Hn; now right).
        apply Hfr1. intros ->. apply Hn. now left.
      + intros s Hs o Ho. apply in_app_or in Hs as [Hs|Hs].
        * left. symmetry. eapply Hoid1; eauto.
        * right. eapply Hoid2; eauto.
  Qed.

  Lemma save_gen_sv_eq vf t files dirs w :
    save_gen vf true t files dirs w =
    vadd_prog true t files w ++ mem_vadds (t + n_ren bytes (vadd_prog true t files w)) dirs
                                          (run (vadd_prog true t files w) w).
  Proof. unfold AddSteps.save_gen. rewrite orb_true_r. reflexivity. Qed.

  Theorem save_sv_valid vf t files dirs w :
    inv w -> G w -> files_ok files -> (forall d, In d dirs -> dir_ok files d) ->
    let p := save_gen vf true t files dirs w in let w' := run p w in
    valid_trace p w = true /\ G w' /\
    (forall o, save_req files dirs o -> good w' o) /\
    (forall o, ~ save_req files dirs o -> obj w' o = obj w o) /\
    (forall s, In s p -> forall o, step_oid s = Some o -> save_req files dirs o).
  Proof.
    intros Hinv HG Hf Hds p w'. subst p w'. rewrite save_gen_sv_eq.
    destruct (vadd_prog_valid bytes H kids empty part kids_empty t files w Hinv HG Hf)
      as [Hv1 [Hinv1 [HG1 [Hg1 [Hfr1 Hoid1]]]]].
    set (p1 := vadd_prog true t files w) in *. set (w1 := run p1 w) in *.
    destruct (mem_vadds_valid files dirs (t + n_ren bytes p1) w1 Hinv1 HG1 Hf Hds Hg1)
      as [Hv2 [_ [HG2 [Hm2 [Hg2 [Hfr2 Hoid2]]]]]].
    rewrite run_app. split; [|split; [|split; [|split]]].
    - apply valid_app; assumption.
    - exact HG2.
    - intros o [Hin|Hin].
      + apply Hm2. apply in_map_iff in Hin as [it [<- Hi]]. now apply Hg1.
      + apply in_map_iff in Hin as [d [<- Hi]]. now apply Hg2.
    - intros o Hn. rewrite Hfr2 by (intros Hin; apply Hn; now right).
      apply Hfr1. intros Hin. apply Hn. now left.
    - intros s Hs o Ho. apply in_app_or in Hs as [Hs|Hs].
      + left. eapply Hoid1; eauto.
      + right. eapply Hoid2; eauto.
  Qed.

  Lemma save_req_dec files dirs o : save_req files dirs o \/ ~ save_req files dirs o.
  Proof.
    unfold AddStepsRecover.save_req. destruct (in_dec oid_dec o (map fst files)); [now left; left|].
    destruct (in_dec oid_dec o (map fst dirs)); [now left; right|]. right. intros [?|?]; contradiction.
  Qed.

  (* effective verification of the files: per-call flag vf, or the store default vd *)
  Theorem save_everify_prefix_crash_inv vf vd t files dirs w n :
    vf || vd = true ->
    inv w -> G w -> all_ok w -> files_ok files -> (forall d, In d dirs -> dir_ok files d) ->
    crash_inv (crash (run (firstn n (save_gen vf vd t files dirs w)) w)).
  Proof.
    intros Hv Hinv HG Hall Hf Hds. destruct vd.
    - destruct (save_sv_valid vf t files dirs w Hinv HG Hf Hds) as [Hval _].
      now apply valid_prefix_crash_inv.
    - rewrite orb_false_r in Hv. subst vf.
      now apply (save_verify_prefix_crash_inv bytes H kids empty part kids_empty).
  Qed.

  Theorem save_everify_recover vf vd t t' files dirs w0 n :
    vf || vd = true ->
    inv w0 -> G w0 -> all_ok w0 -> files_ok files -> (forall d, In d dirs -> dir_ok files d) ->
    let p0 := save_gen vf vd t files dirs w0 in
    let wc := crash (run (firstn n p0) w0) in
    let p1 := save_gen vf vd t' files dirs wc in
    valid_trace p1 wc = true /\
    (forall m, crash_inv (crash (run (firstn m p1) wc))) /\
    store_eq (run p1 wc) (run p0 w0) /\
    (forall o, save_req files dirs o -> good (run p1 wc) o).
  Proof.
    intros Hv Hinv HG Hall Hf Hds. destruct vd.
    - intros p0 wc p1.
      destruct (save_sv_valid vf t files dirs w0 Hinv HG Hf Hds) as [Hv0 [_ [Hg0 [Hfr0 Hoid0]]]].
      fold p0 in Hv0, Hg0, Hfr0, Hoid0.
      assert (Hinvc : inv wc).
      { apply inv_crash. apply (valid_prefix_inv bytes H kids empty kids_empty p0 w0 Hinv Hv0). }
      destruct (save_sv_valid vf t' files dirs wc Hinvc eq_refl Hf Hds) as [Hv1 [_ [Hg1 [Hfr1 _]]]].
      fold p1 in Hv1, Hg1, Hfr1.
      destruct (recover_from_posts (save_req files dirs) p0 w0 n p1 (save_req_dec files dirs)
                  Hinv Hv0 Hg0 Hfr0 Hoid0 Hv1 Hg1 Hfr1) as [_ [Hc He]].
      split; [exact Hv1|]. split; [exact Hc|]. split; [exact He | exact Hg1].
    - rewrite orb_false_r in Hv. subst vf.
      now apply (save_verify_recover bytes H kids empty part kids_empty H_inj).
  Qed.
End MR.
