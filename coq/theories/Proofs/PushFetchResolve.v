(* C18, part 1: StorageMapping.__getitem__ - the function GENERATED into Gen/StorageMap.v from
   index/index.py - resolves every role, independently, to the longest prefix of the key that
   defines it.  Every lemma here is about the generated definitions (matches, sm_sort,
   resolve_loop, getitem): a change of the source that changes them breaks these proofs. *)
From Coq Require Import NArith List Bool Lia Sorted Arith.
From DvcData Require Import Base.Val Model.Transfer Gen.StorageMap Model.PushFetch.
Import ListNotations.
Local Open Scope nat_scope.

Lemma key_eqb_eq a b : key_eqb a b = true <-> a = b.
Proof.
  revert b; induction a as [|x a IH]; intros [|y b]; simpl; split; intros H;
    try reflexivity; try discriminate.
  - apply andb_true_iff in H as [H1 H2]. apply list_N_eqb_spec in H1. apply IH in H2. congruence.
  - injection H as -> ->. apply andb_true_iff. split; [now apply list_N_eqb_spec|now apply IH].
Qed.

(* [matches p k]: p is a prefix of k *)
Lemma matches_spec p k : matches p k = true <-> exists t, k = p ++ t.
Proof.
  unfold matches. rewrite andb_true_iff, negb_true_iff, Nat.ltb_ge, key_eqb_eq. split.
  - intros [_ H2]. exists (skipn (length p) k).
    pose proof (firstn_skipn (length p) k) as E. rewrite H2 in E. now symmetry.
  - intros [t ->]. split; [rewrite app_length; lia|].
    rewrite firstn_app, Nat.sub_diag, firstn_all. simpl. now rewrite app_nil_r.
Qed.
Lemma matches_refl p : matches p p = true.
Proof. apply matches_spec. exists []. now rewrite app_nil_r. Qed.
Lemma matches_trans p q k : matches p q = true -> matches q k = true -> matches p k = true.
Proof.
  rewrite !matches_spec. intros [t ->] [u ->]. exists (t ++ u). now rewrite app_assoc.
Qed.
Lemma matches_len p k : matches p k = true -> length p <= length k.
Proof. intros H. apply matches_spec in H as [t ->]. rewrite app_length. lia. Qed.
Lemma matches_same_len p p' k :
  matches p k = true -> matches p' k = true -> length p = length p' -> p = p'.
Proof.
  unfold matches. rewrite !andb_true_iff, !key_eqb_eq. intros [_ H1] [_ H2] E.
  rewrite <- H1, <- H2, E. reflexivity.
Qed.
(* two prefixes of one key are comparable *)
Lemma matches_comparable p q k :
  matches p k = true -> matches q k = true -> length p <= length q -> matches p q = true.
Proof.
  rewrite !matches_spec. intros [t Hp] [u Hq] L. exists (firstn (length q - length p) t).
  subst k. assert (E : firstn (length q) (p ++ t) = firstn (length q) (q ++ u)) by now rewrite Hq.
  rewrite !firstn_app, Nat.sub_diag, firstn_all, (firstn_all2 p) in E by lia. simpl in E.
  now rewrite app_nil_r in E.
Qed.

Definition role := sinfo -> option sid.
Definition is_role (rho : role) : Prop := rho = si_data \/ rho = si_cache \/ rho = si_remote.

Fixpoint first_some (rho : role) (l : list (key * sinfo)) : option sid :=
  match l with
  | [] => None
  | ps :: r => match rho (snd ps) with Some x => Some x | None => first_some rho r end
  end.

(* the loop with its early exit computes "first defined value in list order", per role *)
Lemma resolve_loop_spec l : forall d c r,
  resolve_loop l d c r =
  {| si_data := pick d (first_some si_data l);
     si_cache := pick c (first_some si_cache l);
     si_remote := pick r (first_some si_remote l) |}.
Proof.
  induction l as [|[p s] l IH]; intros d c r; simpl.
  - destruct d, c, r; reflexivity.
  - destruct (is_some (pick d (si_data s)) && is_some (pick c (si_cache s)) && is_some (pick r (si_remote s))) eqn:E.
    + apply andb_true_iff in E as [E E3]. apply andb_true_iff in E as [E1 E2].
      destruct d, c, r, (si_data s), (si_cache s), (si_remote s); simpl in *; try discriminate; reflexivity.
    + rewrite IH. destruct d, c, r, (si_data s), (si_cache s), (si_remote s); reflexivity.
Qed.

Definition hits (m : smap) (k : key) : list (key * sinfo) := filter (fun ps => matches (fst ps) k) m.

Lemma getitem_first m k si rho : is_role rho ->
  getitem m k = Some si -> rho si = first_some rho (sm_sort (hits m k)).
Proof.
  intros Hr H. unfold getitem in H. fold (hits m k) in H.
  destruct (hits m k) as [|h0 hr] eqn:E; [discriminate|].
  inversion H; subst si. rewrite resolve_loop_spec.
  destruct Hr as [H1|[H1|H1]]; subst rho; reflexivity.
Qed.
Lemma getitem_none m k : getitem m k = None <-> hits m k = [].
Proof.
  unfold getitem. fold (hits m k). destruct (hits m k); split; intros H; auto; discriminate.
Qed.

(* ---- the sort ---- *)
Definition lenge (a b : key * sinfo) : Prop := length (fst b) <= length (fst a).

Lemma insert_In x y l : In x (sm_insert y l) <-> x = y \/ In x l.
Proof.
  induction l as [|z r IH]; simpl.
  - intuition.
  - destruct (Nat.leb (length (fst z)) (length (fst y))); simpl; rewrite ?IH; intuition.
Qed.
Lemma sort_In x l : In x (sm_sort l) <-> In x l.
Proof.
  induction l as [|z r IH]; simpl; [tauto|]. rewrite insert_In, IH. intuition.
Qed.
Lemma insert_sorted y l : StronglySorted lenge l -> StronglySorted lenge (sm_insert y l).
Proof.
  induction l as [|z r IH]; simpl; intros H.
  - constructor; constructor.
  - inversion H as [|? ? Hr Hz]; subst.
    destruct (Nat.leb (length (fst z)) (length (fst y))) eqn:E.
    + apply Nat.leb_le in E. constructor; auto. constructor; [unfold lenge; lia|].
      rewrite Forall_forall in *. intros w Hw. specialize (Hz w Hw). unfold lenge in *. lia.
    + apply Nat.leb_gt in E. constructor; auto.
      rewrite Forall_forall in *. intros w Hw. apply insert_In in Hw. destruct Hw as [->|Hw]; auto.
      unfold lenge. lia.
Qed.
Lemma sort_sorted l : StronglySorted lenge (sm_sort l).
Proof. induction l; simpl; [constructor|now apply insert_sorted]. Qed.

Lemma first_some_sorted rho l : StronglySorted lenge l -> forall x, first_some rho l = Some x ->
  exists p s, In (p, s) l /\ rho s = Some x /\
    forall p' s', In (p', s') l -> rho s' <> None -> length p' <= length p.
Proof.
  induction l as [|[p s] l IH]; simpl; intros HS x H; [discriminate|].
  inversion HS as [|? ? Hl Hf]; subst. rewrite Forall_forall in Hf.
  destruct (rho s) as [y|] eqn:E.
  - inversion H; subst y. exists p, s. split; auto. split; auto.
    intros p' s' [Heq|Hin] _; [inversion Heq; subst; auto|]. exact (Hf _ Hin).
  - destruct (IH Hl x H) as [p1 [s1 [H1 [H2 H3]]]]. exists p1, s1. split; auto. split; auto.
    intros p' s' [Heq|Hin] Hn; [inversion Heq; subst; congruence|eauto].
Qed.
Lemma first_some_none rho l : first_some rho l = None <-> forall p s, In (p, s) l -> rho s = None.
Proof.
  induction l as [|[p s] l IH]; simpl.
  - split; [intros _ ? ? []|auto].
  - destruct (rho s) eqn:E; split.
    + discriminate.
    + intros H. specialize (H p s (or_introl eq_refl)). congruence.
    + intros H p' s' [Heq|Hin]; [inversion Heq; subst; auto|]. now apply (proj1 IH H p' s').
    + intros H. apply IH. intros p' s' Hin. apply (H p' s'). auto.
Qed.

Lemma nodup_fst_inj (m : smap) p s s' : NoDup (map fst m) -> In (p, s) m -> In (p, s') m -> s = s'.
Proof.
  induction m as [|[q t] m IH]; simpl; intros Hn H1 H2; [destruct H1|].
  inversion Hn as [|? ? Hq Hm]; subst.
  destruct H1 as [H1|H1], H2 as [H2|H2].
  - congruence.
  - inversion H1; subst. exfalso. apply Hq. apply in_map_iff. exists (p, s'). auto.
  - inversion H2; subst. exfalso. apply Hq. apply in_map_iff. exists (p, s). auto.
  - auto.
Qed.

(* ---- the statement ---- *)
(* prefix p of k is in the map and defines role rho as x *)
Definition defines (rho : role) (m : smap) (k p : key) (x : sid) : Prop :=
  exists s, In (p, s) m /\ matches p k = true /\ rho s = Some x.
Definition longest (rho : role) (m : smap) (k p : key) (x : sid) : Prop :=
  defines rho m k p x /\ forall p' x', defines rho m k p' x' -> length p' <= length p.

Lemma hits_In m k p s : In (p, s) (hits m k) <-> In (p, s) m /\ matches p k = true.
Proof. unfold hits. rewrite filter_In. simpl. tauto. Qed.

Theorem resolve_spec : forall rho m k, is_role rho -> NoDup (map fst m) ->
  (getitem m k = None <-> forall p s, In (p, s) m -> matches p k = false) /\
  (forall si, getitem m k = Some si ->
     (forall x, rho si = Some x <-> exists p, longest rho m k p x) /\
     (rho si = None <-> forall p x, ~ defines rho m k p x)).
Proof.
  intros rho m k Hr Hn. split.
  - rewrite getitem_none. split.
    + intros H p s Hin. destruct (matches p k) eqn:E; auto.
      assert (In (p, s) (hits m k)) by (apply hits_In; auto). rewrite H in *. contradiction.
    + intros H. destruct (hits m k) as [|[p s] r] eqn:E; auto.
      assert (Hin : In (p, s) (hits m k)) by (rewrite E; left; auto).
      apply hits_In in Hin. destruct Hin as [H1 H2]. rewrite (H p s H1) in H2. discriminate.
  - intros si Hg. rewrite (getitem_first m k si rho Hr Hg).
    assert (Hmax : forall x, first_some rho (sm_sort (hits m k)) = Some x -> exists p, longest rho m k p x).
    { intros x H. destruct (first_some_sorted rho _ (sort_sorted _) x H) as [p [s [H1 [H2 H3]]]].
      apply sort_In, hits_In in H1. destruct H1 as [H1 H1'].
      exists p. split; [exists s; auto|].
      intros p' x' [s' [A [B C]]]. apply (H3 p' s'); [|congruence].
      apply sort_In, hits_In. auto. }
    split.
    + intros x. split; [apply Hmax|].
      intros [p [[s [A [B C]]] HL]].
      destruct (first_some rho (sm_sort (hits m k))) as [y|] eqn:E.
      * destruct (Hmax y eq_refl) as [p1 [[s1 [A1 [B1 C1]]] HL1]].
        assert (L1 : length p <= length p1) by (apply (HL1 p x); exists s; auto).
        assert (L2 : length p1 <= length p) by (apply (HL p1 y); exists s1; auto).
        assert (p = p1) by (apply (matches_same_len p p1 k); auto; lia). subst p1.
        rewrite (nodup_fst_inj m p s s1 Hn A A1) in C. congruence.
      * exfalso. rewrite first_some_none in E.
        assert (In (p, s) (sm_sort (hits m k))) by (apply sort_In, hits_In; auto).
        rewrite (E p s H) in C. discriminate.
    + rewrite first_some_none. split.
      * intros H p x [s [A [B C]]].
        assert (In (p, s) (sm_sort (hits m k))) by (apply sort_In, hits_In; auto).
        rewrite (H p s H0) in C. discriminate.
      * intros H p s Hin. apply sort_In, hits_In in Hin. destruct Hin as [A B].
        destruct (rho s) as [x|] eqn:E; auto. exfalso. apply (H p x). exists s. auto.
Qed.

(* a prefix that defines the role itself resolves to its own value *)
Lemma resolve_self rho m p s x : is_role rho -> NoDup (map fst m) ->
  In (p, s) m -> rho s = Some x -> exists si, getitem m p = Some si /\ rho si = Some x.
Proof.
  intros Hr Hn Hin Hx.
  destruct (getitem m p) as [si|] eqn:E.
  - exists si. split; auto.
    apply (proj1 (proj2 (resolve_spec rho m p Hr Hn) si E)).
    exists p. split; [exists s; split; auto; split; auto; apply matches_refl|].
    intros p' x' [s' [_ [B _]]]. now apply matches_len.
  - exfalso. pose proof (proj1 (proj1 (resolve_spec rho m p Hr Hn)) E p s Hin) as H.
    rewrite matches_refl in H. discriminate.
Qed.

(* non-vacuity: the literal map of the test-suite shape, a per-role fallback *)
Local Open Scope N_scope.
Example resolve_example :
  let m := [ ([], {| si_data := None; si_cache := Some 10; si_remote := Some 20 |});
             ([[100]; [115]], {| si_data := None; si_cache := None; si_remote := Some 21 |}) ] in
  getitem m [[100]; [115]; [98]] = Some {| si_data := None; si_cache := Some 10; si_remote := Some 21 |} /\
  getitem m [[100]; [97]] = Some {| si_data := None; si_cache := Some 10; si_remote := Some 20 |} /\
  getitem (tl m) [[100]; [97]] = None /\ NoDup (map fst m).
Proof.
  repeat split; try reflexivity. simpl. repeat constructor; simpl; intuition discriminate.
Qed.
