(* Proofs for C20, part 1: dictionaries, Meta / HashInfo / DataIndexEntry <-> dict, keys <-> joined text.

   The to_dict / from_dict functions reasoned about here are the GENERATED ones (Gen/PyTypes.v,
   Gen/SerDict.v).  Each generated to_dict is first rewritten into a normal form - a chain of
   conditional emissions [emit c k v] - by small per-statement lemmas ([step_bool], [step_oN],
   [step_ostr]); if the source of a to_dict changes shape, the normal-form lemma is what stops
   checking.  No case explosion: every lemma destructs one field at a time. *)
From Coq Require Import NArith List Bool Lia.
From DvcData Require Import Base.Val Base.PyBase Gen.PyTypes Gen.SerDict Model.Serialize.
Import ListNotations.
Open Scope N_scope.

Lemma Ok_inj {A} (x y : A) : Ok x = Ok y -> x = y.
Proof. intros H. now injection H. Qed.

(* ---------------------------------------------------------------------------------------------- *)
(* equality tests *)

Lemma list_N_eqb_refl a : list_N_eqb a a = true.
Proof. now apply list_N_eqb_spec. Qed.

Lemma list_N_eqb_false a b : list_N_eqb a b = false <-> a <> b.
Proof.
  split.
  - intros H E. subst. rewrite list_N_eqb_refl in H. discriminate.
  - intros H. destruct (list_N_eqb a b) eqn:E; [|reflexivity].
    apply list_N_eqb_spec in E. contradiction.
Qed.

Lemma list_N_eqb_sym a b : list_N_eqb a b = list_N_eqb b a.
Proof.
  destruct (list_N_eqb a b) eqn:E.
  - apply list_N_eqb_spec in E. subst. symmetry. apply list_N_eqb_refl.
  - symmetry. apply list_N_eqb_false. apply list_N_eqb_false in E. congruence.
Qed.

Lemma key_eqb_spec (a b : key) : key_eqb a b = true <-> a = b.
Proof.
  unfold key_eqb. revert b. induction a as [|x a IH]; intros [|y b]; simpl; split; intros H;
    try reflexivity; try discriminate.
  - apply andb_true_iff in H as [H1 H2]. apply list_N_eqb_spec in H1. apply IH in H2. congruence.
  - injection H as -> ->. rewrite list_N_eqb_refl. simpl. now apply IH.
Qed.

Lemma key_eqb_refl a : key_eqb a a = true.
Proof. now apply key_eqb_spec. Qed.

Lemma key_eqb_false a b : key_eqb a b = false <-> a <> b.
Proof.
  split.
  - intros H E. subst. rewrite key_eqb_refl in H. discriminate.
  - intros H. destruct (key_eqb a b) eqn:E; [|reflexivity].
    apply key_eqb_spec in E. contradiction.
Qed.

(* ---------------------------------------------------------------------------------------------- *)
(* Python dicts as association lists *)

Lemma dict_get_set d k v k' :
  dict_get (dict_set d k v) k' = if list_N_eqb k' k then Some v else dict_get d k'.
Proof.
  induction d as [|[k0 v0] r IH]; simpl.
  - reflexivity.
  - destruct (list_N_eqb k k0) eqn:E; simpl.
    + apply list_N_eqb_spec in E. subst k0.
      destruct (list_N_eqb k' k); reflexivity.
    + rewrite IH. destruct (list_N_eqb k' k0) eqn:E0.
      * apply list_N_eqb_spec in E0. subst k0.
        rewrite list_N_eqb_sym, E. reflexivity.
      * reflexivity.
Qed.

(* a fresh name is appended *)
Lemma dict_set_fresh d k v : dict_get d k = None -> dict_set d k v = d ++ [(k, v)].
Proof.
  induction d as [|[k0 v0] r IH]; simpl; intros H.
  - reflexivity.
  - destruct (list_N_eqb k k0); [discriminate|]. now rewrite IH.
Qed.

Lemma dict_del_set_fresh d k v : dict_get d k = None -> dict_del (dict_set d k v) k = d.
Proof.
  induction d as [|[k0 v0] r IH]; simpl; intros H.
  - now rewrite list_N_eqb_refl.
  - destruct (list_N_eqb k k0) eqn:E; [discriminate|]. simpl. rewrite E. now rewrite IH.
Qed.

(* conditional emission: "if c: ret[k] = v" *)
Definition emit (c : bool) (k : text) (v : pyv) (r : pydict) : pydict := if c then dict_set r k v else r.

Lemma dict_get_emit c k v r k' :
  dict_get (emit c k v r) k' = if list_N_eqb k' k && c then Some v else dict_get r k'.
Proof.
  unfold emit. destruct c.
  - rewrite andb_true_r. apply dict_get_set.
  - now rewrite andb_false_r.
Qed.

Lemma step_bool (b : bool) (r : pydict) k :
  (if b then dict_set r k (PVBool b) else r) = emit b k (PVBool true) r.
Proof. now destruct b. Qed.

Lemma step_oN (o : option N) (r : pydict) k :
  match o with Some n => dict_set r k (PVInt n) | None => r end = emit (is_some o) k (pv_oN o) r.
Proof. now destruct o. Qed.

Lemma step_ostr (o : option (list N)) (r : pydict) k :
  match o with Some s => if truthy_list s then dict_set r k (PVStr s) else r | None => r end
  = emit (ostr_truthy o) k (pv_ostr o) r.
Proof. destruct o as [[|c s]|]; reflexivity. Qed.

(* ---------------------------------------------------------------------------------------------- *)
(* Meta *)

(* normal form of the generated Meta.to_dict: nine conditional emissions, in source order *)
Definition meta_nf (m : meta) : pydict :=
  emit (ostr_truthy (m_remote m)) k_remote (pv_ostr (m_remote m))
  (emit (ostr_truthy (m_md5 m)) k_md5 (pv_ostr (m_md5 m))
  (emit (ostr_truthy (m_checksum m)) k_checksum (pv_ostr (m_checksum m))
  (emit (ostr_truthy (m_etag m)) k_etag (pv_ostr (m_etag m))
  (emit (ostr_truthy (m_version_id m)) k_version_id (pv_ostr (m_version_id m))
  (emit (m_isexec m) k_isexec (PVBool true)
  (emit (is_some (m_nfiles m)) k_nfiles (pv_oN (m_nfiles m))
  (emit (is_some (m_size m)) k_size (pv_oN (m_size m))
  (emit (m_isdir m) k_isdir (PVBool true) [])))))))).

Lemma Meta_to_dict_nf m : Meta_to_dict m = meta_nf m.
Proof.
  unfold Meta_to_dict, meta_nf. cbv zeta.
  rewrite !step_bool, !step_oN, !step_ostr. reflexivity.
Qed.

(* what survives serialisation: the four always-typed fields, the truthy strings; everything else is reset to
   the attrs default *)
Definition ostr_norm (o : option text) : option text := if ostr_truthy o then o else None.

Definition meta_ser (m : meta) : meta :=
  mk_meta (m_isdir m) (m_size m) (m_nfiles m) (m_isexec m) (ostr_norm (m_version_id m)) (ostr_norm (m_etag m))
          (ostr_norm (m_checksum m)) (ostr_norm (m_md5 m)) None None (ostr_norm (m_remote m)) false None 1.

Lemma rd_bool_emit (b : bool) : rd_bool false (if b then Some (PVBool true) else None) = Ok b.
Proof. now destruct b. Qed.
Lemma rd_oN_emit (o : option N) : rd_oN (if is_some o then Some (pv_oN o) else None) = Ok o.
Proof. now destruct o. Qed.
Lemma rd_ostr_emit (o : option text) :
  rd_ostr (if ostr_truthy o then Some (pv_ostr o) else None) = Ok (ostr_norm o).
Proof. destruct o as [[|c s]|]; reflexivity. Qed.

(* reads of concrete names from chains of emissions over concrete names: one emission at a time, the name test
   is decided at once (no duplication of the remaining chain) *)
Ltac get_chain :=
  repeat (first [rewrite dict_get_emit | rewrite dict_get_set];
          cbn [list_N_eqb N.eqb Pos.eqb andb
               k_isdir k_size k_nfiles k_isexec k_version_id k_etag k_checksum k_md5 k_inode k_mtime k_remote
               k_is_link k_destination k_nlink k_meta k_hash_info k_loaded k_relpath]);
  cbn [dict_get].

Lemma meta_from_to m : Meta_from_dict (Meta_to_dict m) = Ok (meta_ser m).
Proof.
  rewrite Meta_to_dict_nf. unfold Meta_from_dict, meta_nf.
  get_chain.
  rewrite !rd_bool_emit, !rd_oN_emit, !rd_ostr_emit. reflexivity.
Qed.

Lemma emit_ostr_norm o k r :
  emit (ostr_truthy (ostr_norm o)) k (pv_ostr (ostr_norm o)) r = emit (ostr_truthy o) k (pv_ostr o) r.
Proof. destruct o as [[|c s]|]; reflexivity. Qed.

Lemma meta_to_ser m : Meta_to_dict (meta_ser m) = Meta_to_dict m.
Proof.
  rewrite !Meta_to_dict_nf. unfold meta_nf, meta_ser.
  cbn [m_isdir m_size m_nfiles m_isexec m_version_id m_etag m_checksum m_md5 m_remote].
  rewrite !emit_ostr_norm. reflexivity.
Qed.

Lemma meta_ser_idem m : meta_ser (meta_ser m) = meta_ser m.
Proof.
  unfold meta_ser. cbn [m_isdir m_size m_nfiles m_isexec m_version_id m_etag m_checksum m_md5 m_remote].
  assert (H : forall o, ostr_norm (ostr_norm o) = ostr_norm o) by (intros [[|c s]|]; reflexivity).
  now rewrite !H.
Qed.

(* C20_meta *)
Theorem meta_roundtrip m :
  exists m', Meta_from_dict (Meta_to_dict m) = Ok m' /\ Meta_to_dict m' = Meta_to_dict m /\ m' = meta_ser m.
Proof. exists (meta_ser m). split; [apply meta_from_to|]. split; [apply meta_to_ser|reflexivity]. Qed.

(* the serialised dictionary determines exactly the serialised fields *)
Theorem meta_lossless a b : Meta_to_dict a = Meta_to_dict b <-> meta_ser a = meta_ser b.
Proof.
  split; intros H.
  - assert (E : Meta_from_dict (Meta_to_dict a) = Meta_from_dict (Meta_to_dict b)) by now rewrite H.
    rewrite !meta_from_to in E. exact (Ok_inj _ _ E).
  - rewrite <- (meta_to_ser a), <- (meta_to_ser b). now rewrite H.
Qed.

(* field-wise reading of [meta_ser] (what "lossless on the serialised fields" means) *)
Theorem meta_ser_fields m :
  let m' := meta_ser m in
  m_isdir m' = m_isdir m /\ m_size m' = m_size m /\ m_nfiles m' = m_nfiles m /\ m_isexec m' = m_isexec m /\
  (forall s, s <> [] -> (m_version_id m = Some s <-> m_version_id m' = Some s)) /\
  (forall s, s <> [] -> (m_etag m = Some s <-> m_etag m' = Some s)) /\
  (forall s, s <> [] -> (m_checksum m = Some s <-> m_checksum m' = Some s)) /\
  (forall s, s <> [] -> (m_md5 m = Some s <-> m_md5 m' = Some s)) /\
  (forall s, s <> [] -> (m_remote m = Some s <-> m_remote m' = Some s)).
Proof.
  assert (H : forall (o : option text) s, s <> [] -> (o = Some s <-> ostr_norm o = Some s)).
  { intros [[|c r]|] s Hs; cbn; split; intros E; try discriminate; try assumption.
    injection E as <-. contradiction. }
  cbn. repeat split; try (apply H; assumption); intros; apply H; assumption.
Qed.

Example meta_roundtrip_nontrivial :
  let m := mk_meta true (Some 0) None false (Some []) (Some [101]) None (Some [100;52]) (Some 7) (Some 3)
                   (Some [114]) true (Some [120]) 2 in
  Meta_to_dict m = [(k_isdir, PVBool true); (k_size, PVInt 0); (k_etag, PVStr [101]); (k_md5, PVStr [100;52]);
                    (k_remote, PVStr [114])]
  /\ meta_ser m <> m.
Proof. split; [reflexivity | discriminate]. Qed.

(* ---------------------------------------------------------------------------------------------- *)
(* HashInfo *)

Definition hi_ser (h : hashinfo) : hashinfo :=
  if ostr_truthy (hi_value h) && ostr_truthy (hi_name h) then mk_hashinfo (hi_name h) (hi_value h) None
  else mk_hashinfo None None None.

Lemma HashInfo_to_dict_nf h :
  HashInfo_to_dict h =
  if ostr_truthy (hi_value h) && ostr_truthy (hi_name h)
  then match hi_name h with Some n => [(n, pv_ostr (hi_value h))] | None => [] end else [].
Proof. unfold HashInfo_to_dict. destruct (hi_value h) as [[|c s]|], (hi_name h) as [[|c' s']|]; reflexivity. Qed.

Lemma hi_from_to h : HashInfo_from_dict (HashInfo_to_dict h) = Ok (hi_ser h).
Proof.
  rewrite HashInfo_to_dict_nf. unfold hi_ser.
  destruct (hi_value h) as [[|c s]|], (hi_name h) as [[|c' s']|]; reflexivity.
Qed.

Lemma hi_to_ser h : HashInfo_to_dict (hi_ser h) = HashInfo_to_dict h.
Proof.
  rewrite !HashInfo_to_dict_nf. unfold hi_ser.
  destruct (hi_value h) as [[|c s]|], (hi_name h) as [[|c' s']|]; reflexivity.
Qed.

(* C20_hash *)
Theorem hash_roundtrip h :
  exists h', HashInfo_from_dict (HashInfo_to_dict h) = Ok h' /\ HashInfo_to_dict h' = HashInfo_to_dict h /\
             h' = hi_ser h.
Proof. exists (hi_ser h). split; [apply hi_from_to|]. split; [apply hi_to_ser|reflexivity]. Qed.

(* a hash with a non-empty name and a non-empty value comes back with exactly that name and value *)
Theorem hash_roundtrip_exact h n v :
  hi_name h = Some n -> hi_value h = Some v -> n <> [] -> v <> [] ->
  HashInfo_from_dict (HashInfo_to_dict h) = Ok (mk_hashinfo (Some n) (Some v) None).
Proof.
  intros Hn Hv Nn Nv. rewrite hi_from_to. unfold hi_ser. rewrite Hn, Hv.
  destruct n; [contradiction|]. destruct v; [contradiction|]. reflexivity.
Qed.

Theorem hash_lossless a b : HashInfo_to_dict a = HashInfo_to_dict b <-> hi_ser a = hi_ser b.
Proof.
  split; intros H.
  - assert (E : HashInfo_from_dict (HashInfo_to_dict a) = HashInfo_from_dict (HashInfo_to_dict b)) by now rewrite H.
    rewrite !hi_from_to in E. exact (Ok_inj _ _ E).
  - rewrite <- (hi_to_ser a), <- (hi_to_ser b). now rewrite H.
Qed.

Example hash_roundtrip_nontrivial :
  HashInfo_to_dict (mk_hashinfo (Some k_md5) (Some [97;46;100;105;114]) (Some [111]))
    = [(k_md5, PVStr [97;46;100;105;114])]
  /\ hi_ser (mk_hashinfo (Some k_md5) (Some []) None) = mk_hashinfo None None None.
Proof. split; reflexivity. Qed.

(* ---------------------------------------------------------------------------------------------- *)
(* DataIndexEntry *)

(* normal form of the generated DataIndexEntry.to_dict *)
Definition entry_nf (e : ientry) : pydict :=
  dict_set
    (match e_hash_info e with
     | Some h => emit (hi_truthy h) k_hash_info (PVDict (HashInfo_to_dict h))
     | None => fun r => r
     end
       (match e_meta e with
        | Some m => dict_set [] k_meta (PVDict (Meta_to_dict m))
        | None => []
        end))
    k_loaded (match e_loaded e with Some b => PVBool b | None => PVNone end).

Lemma DataIndexEntry_to_dict_nf e : DataIndexEntry_to_dict e = entry_nf e.
Proof.
  unfold DataIndexEntry_to_dict, entry_nf, hi_truthy, ostr_truthy, emit. cbv zeta.
  destruct (e_hash_info e) as [h|]; [|reflexivity].
  destruct (hi_value h) as [v|]; reflexivity.
Qed.

(* the entry that comes back: key forgotten, meta and hash through their own round trips; an emitted but empty
   sub-dictionary reads back as "absent" *)
Definition meta_rt (o : option meta) : option meta :=
  match o with
  | Some m => if truthy_list (Meta_to_dict m) then Some (meta_ser m) else None
  | None => None
  end.
Definition hi_rt (o : option hashinfo) : option hashinfo :=
  match o with
  | Some h => if hi_truthy h && truthy_list (HashInfo_to_dict h) then Some (hi_ser h) else None
  | None => None
  end.
Definition entry_rt (e : ientry) : ientry :=
  mk_ientry None (meta_rt (e_meta e)) (hi_rt (e_hash_info e)) (e_loaded e).

Lemma entry_from_to e : DataIndexEntry_from_dict (DataIndexEntry_to_dict e) = Ok (entry_rt e).
Proof.
  rewrite DataIndexEntry_to_dict_nf. unfold DataIndexEntry_from_dict, entry_nf, entry_rt, subscript.
  destruct e as [k om oh ol]. cbn [e_meta e_hash_info e_loaded].
  destruct om as [m|], oh as [h|]; get_chain.
  - (* meta, hash *)
    cbn [truthy_subdict pyv_truthy bind meta_rt hi_rt].
    destruct (truthy_list (Meta_to_dict m)) eqn:Em.
    + cbn [bind]. rewrite meta_from_to. cbn [bind].
      destruct (hi_truthy h) eqn:Eh; cbn [truthy_subdict pyv_truthy bind andb].
      * destruct (truthy_list (HashInfo_to_dict h)) eqn:Ed; cbn [bind].
        -- rewrite hi_from_to. cbn [bind]. destruct ol as [[]|]; reflexivity.
        -- destruct ol as [[]|]; reflexivity.
      * destruct ol as [[]|]; reflexivity.
    + cbn [bind].
      destruct (hi_truthy h) eqn:Eh; cbn [truthy_subdict pyv_truthy bind andb].
      * destruct (truthy_list (HashInfo_to_dict h)) eqn:Ed; cbn [bind].
        -- rewrite hi_from_to. cbn [bind]. destruct ol as [[]|]; reflexivity.
        -- destruct ol as [[]|]; reflexivity.
      * destruct ol as [[]|]; reflexivity.
  - (* meta only *)
    cbn [truthy_subdict pyv_truthy bind meta_rt hi_rt].
    destruct (truthy_list (Meta_to_dict m)) eqn:Em; cbn [bind].
    + rewrite meta_from_to. cbn [bind]. destruct ol as [[]|]; reflexivity.
    + destruct ol as [[]|]; reflexivity.
  - (* hash only *)
    cbn [truthy_subdict pyv_truthy bind meta_rt hi_rt].
    destruct (hi_truthy h) eqn:Eh; cbn [truthy_subdict pyv_truthy bind andb].
    + destruct (truthy_list (HashInfo_to_dict h)) eqn:Ed; cbn [bind].
      * rewrite hi_from_to. cbn [bind]. destruct ol as [[]|]; reflexivity.
      * destruct ol as [[]|]; reflexivity.
    + destruct ol as [[]|]; reflexivity.
  - destruct ol as [[]|]; reflexivity.
Qed.

Lemma truthy_list_false {A} (l : list A) : truthy_list l = false -> l = [].
Proof. destruct l; [reflexivity|discriminate]. Qed.

Lemma proj_meta_rt o : proj_meta (meta_rt o) = proj_meta o.
Proof.
  destruct o as [m|]; [|reflexivity]. cbn.
  destruct (truthy_list (Meta_to_dict m)) eqn:E; cbn.
  - apply meta_to_ser.
  - symmetry. now apply truthy_list_false.
Qed.

Lemma hi_not_truthy_dict h : hi_truthy h = false -> HashInfo_to_dict h = [].
Proof.
  unfold hi_truthy. intros H. rewrite HashInfo_to_dict_nf. now rewrite H.
Qed.

Lemma proj_hi_rt o : proj_hi (hi_rt o) = proj_hi o.
Proof.
  destruct o as [h|]; [|reflexivity]. cbn.
  destruct (hi_truthy h) eqn:Eh; cbn.
  - destruct (truthy_list (HashInfo_to_dict h)) eqn:E; cbn.
    + apply hi_to_ser.
    + symmetry. now apply truthy_list_false.
  - symmetry. now apply hi_not_truthy_dict.
Qed.

Lemma proj_entry_rt e : proj (entry_rt e) = proj e.
Proof. unfold proj, entry_rt. cbn. now rewrite proj_meta_rt, proj_hi_rt. Qed.

(* C20_entry *)
Theorem entry_roundtrip e :
  exists e', DataIndexEntry_from_dict (DataIndexEntry_to_dict e) = Ok e' /\ proj e' = proj e /\ e_key e' = None.
Proof. exists (entry_rt e). split; [apply entry_from_to|]. split; [apply proj_entry_rt|reflexivity]. Qed.

Example entry_roundtrip_nontrivial :
  let e := mk_ientry (Some [[97]]) (Some (mk_meta false None None false None None None None (Some 5) None None
                                                  false None 1))
                     (Some (mk_hashinfo (Some k_md5) (Some [97]) None)) (Some false) in
  DataIndexEntry_to_dict e = [(k_meta, PVDict []); (k_hash_info, PVDict [(k_md5, PVStr [97])]); (k_loaded, PVBool false)]
  /\ e_meta (entry_rt e) = None /\ proj (entry_rt e) = proj e.
Proof. repeat split; reflexivity. Qed.

(* ---------------------------------------------------------------------------------------------- *)
(* keys <-> "/"-joined text *)

Lemma split_slash_free p : slash_free p = true -> split p = [p].
Proof.
  induction p as [|c r IH]; simpl; intros H.
  - reflexivity.
  - apply andb_true_iff in H as [Hc Hr]. apply negb_true_iff in Hc. rewrite Hc.
    now rewrite (IH Hr).
Qed.

Lemma split_app_slash p s : slash_free p = true -> split (p ++ SLASH :: s) = p :: split s.
Proof.
  induction p as [|c r IH]; simpl; intros H.
  - reflexivity.
  - apply andb_true_iff in H as [Hc Hr]. apply negb_true_iff in Hc. rewrite Hc.
    now rewrite (IH Hr).
Qed.

Lemma split_join_cons p k : forallb slash_free (p :: k) = true -> split (join (p :: k)) = p :: k.
Proof.
  revert p. induction k as [|q k IH]; intros p H.
  - simpl in H. apply andb_true_iff in H as [Hp _]. simpl. now apply split_slash_free.
  - change (join (p :: q :: k)) with (p ++ SLASH :: join (q :: k)).
    simpl in H. apply andb_true_iff in H as [Hp Hk].
    rewrite (split_app_slash _ _ Hp). f_equal. apply IH. exact Hk.
Qed.

(* C20_key *)
Theorem split_join k : key_joinable k = true -> split (join k) = k.
Proof. destruct k as [|p k]; [discriminate|]. apply split_join_cons. Qed.

Lemma key_wf_joinable k : key_wf k = true -> key_joinable k = true.
Proof.
  destruct k as [|p k]; [discriminate|]. unfold key_wf, key_joinable.
  intros H. rewrite forallb_forall in *. intros x Hx. specialize (H x Hx).
  destruct x; [discriminate|exact H].
Qed.

Theorem split_join_wf k : key_wf k = true -> split (join k) = k.
Proof. intros H. apply split_join. now apply key_wf_joinable. Qed.

Theorem join_inj a b : key_joinable a = true -> key_joinable b = true -> join a = join b -> a = b.
Proof. intros Ha Hb E. rewrite <- (split_join a Ha), <- (split_join b Hb). now rewrite E. Qed.

Example split_join_nontrivial :
  key_wf [[97]; [252; 128512]; [46; 46]] = true /\ join [[97]; [252; 128512]; [46; 46]] = [97; 47; 252; 128512; 47; 46; 46]
  /\ split (join [[97; 47; 98]]) = [[97]; [98]] /\ split (join []) = [[]].
Proof. repeat split; reflexivity. Qed.
