(* C08, part 3: the breadth-first diff refines the flat key-by-key reference; self diff; argument
   swap; the unchanged-directory shortcut hides nothing. *)
From Coq Require Import NArith List Bool Arith Lia Permutation.
From DvcData Require Import Base.Val Base.PyBase Gen.PyTypes Gen.IDiff Model.Trie Model.IndexDiff Proofs.IndexDiffProofsBase Proofs.IndexDiffBfs.
Import ListNotations.

(* ---- hypotheses of the exactness theorem ------------------------------------------------------------- *)
(* every strict prefix of a valued key is an implicit node or a directory entry
   (directory = what `info` reports as "directory": isdir metadata after `_get_meta`) *)
Definition Wf (i : index) : Prop :=
  forall k p, In k (map fst i) -> strict_prefix p k ->
    match lookup i p with None => True | Some d => entry_isdir (norm_meta d) = true end.
Definition WfO (i : option index) : Prop := Wf (idx i).

(* equal directory hashes have hash-equal sub-tries: true when a directory's hash is the digest
   of its children and no two listings in play collide *)
Definition HashConsistent (old new : option index) : Prop :=
  forall p a b, lookup (idx old) p = Some a -> lookup (idx new) p = Some b ->
    entry_hash_isdir (Some a) = true ->
    diff_hash_info (e_hash_info a) (e_hash_info b) = Unchanged ->
    forall k, strict_prefix p k ->
      diff_hash_info (ent_hash (lookup (idx old) k)) (ent_hash (lookup (idx new) k)) = Unchanged.

(* the shortcut of diff.py 214-224 can fire only under these options *)
Definition shortcut_on (o : opts) : bool :=
  o_hash_only o && negb (o_meta_only o) && negb (o_with_unchanged o).

(* ---- list helpers ---------------------------------------------------------------------------------- *)
Definition nonnil {B} (l : list B) : bool := match l with [] => false | _ => true end.

Lemma flat_map_filter_nonnil {A B} (f : A -> list B) l :
  flat_map f l = flat_map f (filter (fun a => nonnil (f a)) l).
Proof.
  induction l as [|x l IH]; simpl; [reflexivity|].
  destruct (f x) eqn:E; simpl; [assumption|]. rewrite E. simpl. now rewrite IH.
Qed.

Lemma flat_map_perm_support {A B} (f : A -> list B) l1 l2 :
  NoDup l1 -> NoDup l2 -> (forall k, f k <> [] -> (In k l1 <-> In k l2)) ->
  Permutation (flat_map f l1) (flat_map f l2).
Proof.
  intros H1 H2 H. rewrite (flat_map_filter_nonnil f l1), (flat_map_filter_nonnil f l2).
  apply Permutation_flat_map. apply NoDup_Permutation; try now apply NoDup_filter.
  intros k. rewrite !filter_In. split; intros [Hin Hn]; (split; [|assumption]); apply H; try assumption;
    intros E; rewrite E in Hn; discriminate.
Qed.

Lemma map_flat_map {A B C} (g : B -> C) (f : A -> list B) l :
  map g (flat_map f l) = flat_map (fun x => map g (f x)) l.
Proof. induction l as [|x l IH]; simpl; [reflexivity|]. now rewrite map_app, IH. Qed.

Lemma filter_flat_map {A B} (p : B -> bool) (f : A -> list B) l :
  filter p (flat_map f l) = flat_map (fun x => filter p (f x)) l.
Proof.
  induction l as [|x l IH]; simpl; [reflexivity|].
  rewrite <- IH. clear. induction (f x) as [|b r IHr]; simpl; [reflexivity|]. destruct (p b); simpl; now rewrite IHr.
Qed.

Lemma Permutation_filter' {A} (p : A -> bool) l l' : Permutation l l' -> Permutation (filter p l) (filter p l').
Proof.
  induction 1; simpl; try constructor.
  - destruct (p x); [now constructor | assumption].
  - destruct (p x), (p y); try constructor; apply Permutation_refl.
  - etransitivity; eassumption.
Qed.

Lemma last_case {A} (k : list A) : k = [] \/ exists p n, k = p ++ [n].
Proof. destruct k as [|x k] using rev_ind; [now left | right; now exists k, x]. Qed.

(* ---- what visiting a key does, in terms of the two tries ------------------------------------------------ *)
Lemma linfo_entry i k : info_entry (linfo i k) = option_map norm_meta (lookup (idx i) k).
Proof.
  destruct i as [ix|]; simpl; [|reflexivity].
  destruct (is_node ix k) eqn:E.
  - simpl. destruct (lookup ix k); reflexivity.
  - destruct (lookup ix k) eqn:El; [|reflexivity]. apply lookup_is_node in El. congruence.
Qed.

Lemma is_none_map {A B} (f : A -> B) o : is_none (option_map f o) = is_none o.
Proof. destruct o; reflexivity. Qed.

Definition cls (o : opts) (old new : option index) (k : key) : list change :=
  classify_key o k (lookup (idx old) k) (lookup (idx new) k).

Lemma yield_classify o old new k : yield o old new k = cls o old new k.
Proof.
  unfold yield, visit, cls, classify_key. cbn [fst]. rewrite !linfo_entry, !is_none_map. reflexivity.
Qed.

Definition sc (o : opts) (oe ne : option ientry) : bool :=
  shortcut_on o
  && typ_eqb (diff_entry oe ne (o_hash_only o) (o_meta_only o) (o_meta_cmp_key o) false) Unchanged
  && entry_hash_isdir oe.

Lemma vdesc_eq o old new k :
  vdesc o old new k =
  negb (sc o (info_entry (linfo old k)) (info_entry (linfo new k)))
  && (info_isdir (linfo old k) || info_isdir (linfo new k)).
Proof.
  unfold vdesc, visit, sc, shortcut_on. cbn [snd].
  destruct (_ && entry_hash_isdir _); destruct (info_isdir _ || info_isdir _); reflexivity.
Qed.

Lemma ent_hash_norm a : ent_hash (option_map norm_meta a) = ent_hash a.
Proof. destruct a; simpl; [apply norm_meta_hash | reflexivity]. Qed.

Lemma entry_hash_isdir_norm a : entry_hash_isdir (option_map norm_meta a) = entry_hash_isdir a.
Proof. destruct a; simpl; [now rewrite norm_meta_hash | reflexivity]. Qed.

Lemma ent_hash_truthy e : entry_hash_isdir e = true -> hi_truthy (ent_hash e) = true.
Proof. destruct e; simpl; [|discriminate]. intros H. now apply andb_true_iff in H as [H _]. Qed.

(* a valued key has a change key and is a node *)
Lemma cls_valued o old new k : cls o old new k <> [] ->
  lookup (idx old) k <> None \/ lookup (idx new) k <> None.
Proof.
  unfold cls, classify_key. destruct (lookup (idx old) k), (lookup (idx new) k); simpl;
    try (intros; left; discriminate); try (intros; right; discriminate). intros H. now contradiction H.
Qed.

Lemma lookup_idx_some i k : lookup (idx i) k <> None -> exists ix, i = Some ix /\ lookup ix k <> None.
Proof. destruct i as [ix|]; simpl; [intros; now exists ix | intros H; now contradiction H]. Qed.

(* ---- descent reaches every valued key that has something to report -------------------------------------- *)
Section Reach.
  Variables (o : opts) (old new : option index).
  Hypothesis Hwo : WfO old.
  Hypothesis Hwn : WfO new.
  Hypothesis Hhc : shortcut_on o = true -> HashConsistent old new.

  Lemma wf_isdir i p k : WfO i -> lookup (idx i) k <> None -> strict_prefix p k -> info_isdir (linfo i p) = true.
  Proof.
    intros Hw Hk Hp. destruct (lookup_idx_some i k Hk) as [ix [-> Hk']]. simpl in *.
    destruct (lookup ix k) as [e|] eqn:El; [|now contradiction Hk'].
    assert (Hn : is_node ix p = true).
    { destruct Hp as [n [s ->]]. apply lookup_is_node in El. now apply is_node_prefix in El. }
    rewrite Hn. simpl. specialize (Hw k p (lookup_Some_key _ _ _ El) Hp). simpl in Hw.
    destruct (lookup ix p); simpl; [exact Hw | reflexivity].
  Qed.

  Lemma no_shortcut_above p k : cls o old new k <> [] -> strict_prefix p k ->
    sc o (info_entry (linfo old p)) (info_entry (linfo new p)) = false.
  Proof.
    intros Hc Hp. destruct (sc o _ _) eqn:E; [|reflexivity]. exfalso. apply Hc.
    unfold sc in E. apply andb_true_iff in E as [E E3]. apply andb_true_iff in E as [E1 E2].
    specialize (Hhc E1). unfold shortcut_on in E1.
    apply andb_true_iff in E1 as [E1 Eu]. apply andb_true_iff in E1 as [Eh Em].
    apply negb_true_iff in Em, Eu. rewrite Eh, Em in E2.
    rewrite (linfo_entry old), (linfo_entry new) in E2. rewrite (linfo_entry old) in E3. apply typ_eqb_spec in E2. rewrite diff_entry_hash_only, !ent_hash_norm in E2.
    rewrite entry_hash_isdir_norm in E3.
    destruct (lookup (idx old) p) as [a|] eqn:Ea; [|discriminate].
    pose proof (ent_hash_truthy _ E3) as Ht. simpl in Ht, E2.
    destruct (lookup (idx new) p) as [b|] eqn:Eb.
    - simpl in E2. specialize (Hhc p a b Ea Eb E3 E2 k Hp).
      unfold cls, classify_key. rewrite Eh, Em, Eu, diff_entry_hash_only, !ent_hash_norm, Hhc. simpl.
      destruct (is_none (lookup (idx old) k) && is_none (lookup (idx new) k)); reflexivity.
    - simpl in E2. apply diff_hash_info_unchanged_iff in E2 as [[E2 _]|[_ [E2 _]]]; [congruence | discriminate].
  Qed.

  Lemma vdesc_above p k : cls o old new k <> [] -> strict_prefix p k -> vdesc o old new p = true.
  Proof.
    intros Hc Hp. rewrite vdesc_eq, (no_shortcut_above p k Hc Hp). simpl.
    apply orb_true_iff. destruct (cls_valued _ _ _ _ Hc) as [H|H]; [left | right]; eapply wf_isdir; eauto.
  Qed.

  Lemma valued_hasn i k p s : lookup (idx i) k <> None -> k = p ++ s -> p <> [] -> hasn i p = true.
  Proof.
    intros Hk -> Hp. destruct (lookup_idx_some i _ Hk) as [ix [-> Hk']]. simpl.
    destruct (lookup ix (p ++ s)) eqn:El; [|now contradiction Hk'].
    apply lookup_has_node in El. now apply has_node_prefix in El.
  Qed.

  Lemma prefix_reached k : cls o old new k <> [] ->
    forall p, strict_prefix p k -> In p (reached o old new).
  Proof.
    intros Hc p. induction p as [|m q IH] using rev_ind; intros Hp.
    - apply reached_root; [|eapply vdesc_above; eauto].
      destruct (cls_valued _ _ _ _ Hc) as [H|H]; apply lookup_idx_some in H as [ix [-> _]]; simpl;
        [reflexivity | apply orb_true_r].
    - destruct Hp as [n [s E]].
      assert (Hq : strict_prefix q k) by (exists m, (n :: s); now rewrite E, <- app_assoc).
      apply (reached_step o old new q (q ++ [m])); [now apply IH | | eapply vdesc_above; eauto; now exists n, s].
      apply children_spec. exists m. split; [reflexivity|].
      destruct (cls_valued _ _ _ _ Hc) as [H|H]; [left | right];
        apply (valued_hasn _ k (q ++ [m]) (n :: s) H E (snoc_nonnil q m)).
  Qed.

  Lemma valued_visited k : cls o old new k <> [] -> In k (visited o old new).
  Proof.
    intros Hc. unfold visited. apply in_or_app. destruct (last_case k) as [->|[p [n ->]]].
    - left. unfold roots.
      destruct (cls_valued _ _ _ _ Hc) as [H|H]; apply lookup_idx_some in H as [ix [-> _]]; simpl;
        [now left | rewrite orb_true_r; now left].
    - right. apply in_flat_map. exists p. split.
      + apply (prefix_reached _ Hc). exists n, []. reflexivity.
      + apply children_spec. exists n. split; [reflexivity|].
        destruct (cls_valued _ _ _ _ Hc) as [H|H]; [left | right];
          apply (valued_hasn _ (p ++ [n]) (p ++ [n]) [] H (eq_sym (app_nil_r _)) (snoc_nonnil p n)).
  Qed.
End Reach.

Lemma cls_all_keys o old new k : cls o old new k <> [] -> In k (all_keys old new).
Proof.
  intros H. unfold all_keys. apply In_dedup, in_or_app.
  destruct (cls_valued _ _ _ _ H) as [H'|H']; [left | right];
    (destruct (lookup _ k) eqn:E; [eapply lookup_Some_key; eauto | now contradiction H']).
Qed.

(* C08_refines *)
Theorem diff_refines o old new fuel :
  o_shallow o = false -> WfO old -> WfO new -> (shortcut_on o = true -> HashConsistent old new) ->
  (fuel_for old new <= fuel)%nat ->
  exists cs, diff_core o old new fuel = Some cs /\ Permutation cs (ref_diff o old new).
Proof.
  intros Hs Hwo Hwn Hhc Hf. destruct (diff_core_closed o old new fuel Hs Hf) as [cs [E P]].
  exists cs. split; [assumption|]. etransitivity; [exact P|].
  rewrite (flat_map_ext_In _ (cls o old new) _ (fun k _ => yield_classify o old new k)).
  unfold ref_diff. fold (cls o old new). apply flat_map_perm_support.
  - apply visited_NoDup.
  - apply NoDup_dedup.
  - intros k Hk. split; intros _; [exact (cls_all_keys o old new k Hk) | exact (valued_visited o old new Hwo Hwn Hhc k Hk)].
Qed.

(* ---- every key once -------------------------------------------------------------------------------------- *)
Lemma classify_key_key o k a b c : In c (classify_key o k a b) -> change_key c = k.
Proof.
  unfold classify_key.
  destruct (is_none a && is_none b) eqn:En; [intros []|].
  destruct (typ_eqb _ Unchanged && negb (o_with_unchanged o)); [intros []|].
  intros [<-|[]]. unfold change_key. cbn [c_typ c_old c_new].
  destruct (diff_entry _ _ _ _ _ false) eqn:Et.
  - apply diff_entry_add in Et. destruct b; [reflexivity | discriminate].
  - destruct a; [reflexivity|]. destruct b; [reflexivity | discriminate].
  - destruct a; [reflexivity|]. destruct b; [reflexivity | discriminate].
  - apply diff_entry_delete in Et. destruct a; [reflexivity | discriminate].
  - destruct a; [reflexivity|]. destruct b; [reflexivity | discriminate].
  - destruct a; [reflexivity|]. destruct b; [reflexivity | discriminate].
Qed.

Lemma classify_key_length o k a b : (length (classify_key o k a b) <= 1)%nat.
Proof. unfold classify_key. repeat match goal with |- context [if ?b then _ else _] => destruct b end; simpl; lia. Qed.

Lemma ref_diff_keys_NoDup o old new : NoDup (map change_key (ref_diff o old new)).
Proof.
  unfold ref_diff. assert (Hnd : NoDup (all_keys old new)) by apply NoDup_dedup.
  induction (all_keys old new) as [|k l IH]; simpl; [constructor|].
  inversion Hnd as [|? ? Hk Hl]; subst. rewrite map_app. apply NoDup_app_intro.
  - pose proof (classify_key_length o k (lookup (idx old) k) (lookup (idx new) k)).
    destruct (classify_key o k _ _) as [|c [|c' r]]; simpl in *; try lia; repeat constructor; intros [].
  - now apply IH.
  - intros x Hx Hx'. apply in_map_iff in Hx as [c [<- Hc]]. apply classify_key_key in Hc. rewrite Hc in Hx'.
    apply in_map_iff in Hx' as [c' [Ec' Hc']]. apply in_flat_map in Hc' as [k' [Hk' Hc']].
    apply classify_key_key in Hc'. rewrite Hc' in Ec'. subst. contradiction.
Qed.

Corollary diff_keys_once o old new fuel cs :
  o_shallow o = false -> WfO old -> WfO new -> (shortcut_on o = true -> HashConsistent old new) ->
  (fuel_for old new <= fuel)%nat -> diff_core o old new fuel = Some cs ->
  NoDup (map change_key cs).
Proof.
  intros Hs Hwo Hwn Hhc Hf E. destruct (diff_refines o old new fuel Hs Hwo Hwn Hhc Hf) as [cs' [E' P]].
  rewrite E in E'. injection E' as <-.
  apply (Permutation_NoDup (l := map change_key (ref_diff o old new))); [|apply ref_diff_keys_NoDup].
  symmetry. apply Permutation_map. exact P.
Qed.

(* ---- self diff ------------------------------------------------------------------------------------------- *)
Lemma visit_same o old new k inf :
  Forall (fun c => c_typ c = Unchanged /\ o_with_unchanged o = true) (fst (visit o old new k inf inf)).
Proof.
  unfold visit. cbn [fst]. rewrite diff_entry_refl. simpl.
  destruct (is_none (info_entry inf) && is_none (info_entry inf)); [constructor|].
  destruct (o_with_unchanged o); simpl; repeat constructor.
Qed.

Lemma Forall_flat_map_all {A B} (P : B -> Prop) (f : A -> list B) l :
  (forall x, Forall P (f x)) -> Forall P (flat_map f l).
Proof. intros H. induction l as [|x l IH]; cbn [flat_map]; [constructor | apply Forall_app; now split]. Qed.

Theorem diff_core_self o i fuel cs :
  diff_core o (Some i) (Some i) fuel = Some cs ->
  Forall (fun c => c_typ c = Unchanged /\ o_with_unchanged o = true) cs.
Proof.
  unfold diff_core. apply (bfsq_Forall _ _ (fun it : items * items => fst it = snd it)).
  - intros [a b] E. simpl in E. subst b. split.
    + unfold step_out. cbn [fst snd]. apply Forall_flat_map_all. intros k. apply visit_same.
    + unfold step_todo. cbn [fst snd]. apply Forall_flat_map_all. intros k. unfold visit. cbn [snd].
      destruct (_ && entry_hash_isdir _); [constructor|].
      destruct (info_isdir _ || info_isdir _); repeat constructor.
  - repeat constructor.
Qed.

Lemma filter_none {A} (p : A -> bool) l : Forall (fun x => p x = false) l -> filter p l = [].
Proof. induction 1 as [|x l Hx _ IH]; simpl; [reflexivity | now rewrite Hx]. Qed.
Lemma filter_all {A} (p : A -> bool) l : Forall (fun x => p x = true) l -> filter p l = l.
Proof. induction 1 as [|x l Hx _ IH]; simpl; [reflexivity | now rewrite Hx, IH]. Qed.

Lemma detect_renames_no_adddel cs :
  Forall (fun c => c_typ c = Unchanged) cs -> detect_renames cs = cs.
Proof.
  intros H. unfold detect_renames.
  rewrite (filter_none is_add), (filter_none is_del), (filter_all is_other).
  - simpl. now rewrite app_nil_r.
  - eapply Forall_impl; [|exact H]. intros c Hc. unfold is_other, is_add, is_del. now rewrite Hc.
  - eapply Forall_impl; [|exact H]. intros c Hc. unfold is_del. now rewrite Hc.
  - eapply Forall_impl; [|exact H]. intros c Hc. unfold is_add. now rewrite Hc.
Qed.

(* C08_refl: an index diffed with itself shows no change *)
Theorem diff_self o i fuel l :
  diff o (Some i) (Some i) fuel = DOk l ->
  Forall (fun c => c_typ c = Unchanged) l /\ (o_with_unchanged o = false -> l = []).
Proof.
  unfold diff. destruct (diff_core o (Some i) (Some i) fuel) as [cs|] eqn:E; [|discriminate].
  apply diff_core_self in E.
  assert (Hu : Forall (fun c => c_typ c = Unchanged) cs) by (eapply Forall_impl; [|exact E]; now intros c [? _]).
  assert (Hn : o_with_unchanged o = false -> cs = []).
  { intros Hf. destruct cs as [|c r]; [reflexivity|]. inversion E as [|? ? [_ H] _]. congruence. }
  destruct (o_with_renames o && is_some (Some i) && is_some (Some i)).
  - destruct (o_meta_only o); [discriminate|]. intros [= <-]. rewrite detect_renames_no_adddel by assumption. now split.
  - intros [= <-]. now split.
Qed.

(* ---- swapping the arguments -------------------------------------------------------------------------------- *)
Definition swap_change (c : change) : change :=
  {| c_typ := swap_typ (c_typ c); c_old := c_new c; c_new := c_old c |}.

Lemma yield_swap o old new k : yield o new old k = map swap_change (yield o old new k).
Proof.
  unfold yield, visit. cbn [fst].
  rewrite (diff_entry_swap (info_entry (linfo old k)) (info_entry (linfo new k))), swap_typ_unchanged.
  rewrite (andb_comm (is_none (info_entry (linfo new k)))).
  repeat match goal with |- context [if ?b then _ else _] => destruct b end; reflexivity.
Qed.

Lemma hi_eq_isdir a b : hi_truthy (ent_hash a) = true ->
  opt_eqb hashinfo_eqb (ent_hash a) (ent_hash b) = true -> entry_hash_isdir a = entry_hash_isdir b.
Proof.
  intros Ht E. apply opt_hi_eqb_spec in E. unfold opt_pr in E.
  destruct a as [a|], b as [b|]; simpl in *; try discriminate.
  - destruct (e_hash_info a) as [ha|], (e_hash_info b) as [hb|]; simpl in *; try discriminate.
    unfold hashinfo_eqkey in E. injection E as _ Ev.
    unfold hi_isdir, HashInfo_isdir. now rewrite Ev.
  - destruct (e_hash_info a); discriminate.
Qed.

Lemma sc_swap o a b : sc o b a = sc o a b.
Proof.
  unfold sc. rewrite (diff_entry_swap a b), swap_typ_unchanged.
  destruct (shortcut_on o) eqn:Es; [|reflexivity]. cbn [andb].
  destruct (typ_eqb (diff_entry a b (o_hash_only o) (o_meta_only o) (o_meta_cmp_key o) false) Unchanged) eqn:Et;
    [|reflexivity]. cbn [andb].
  unfold shortcut_on in Es. apply andb_true_iff in Es as [Es _]. apply andb_true_iff in Es as [Eh Em].
  apply negb_true_iff in Em. rewrite Eh, Em in Et. apply typ_eqb_spec in Et. rewrite diff_entry_hash_only in Et.
  apply diff_hash_info_unchanged_iff in Et as [[Ea Eb]|[Ea [Eb E]]].
  - destruct a as [a|], b as [b|]; simpl in *; try rewrite Ea; try rewrite Eb; reflexivity.
  - symmetry. now apply hi_eq_isdir.
Qed.

Lemma vdesc_swap o old new k : vdesc o new old k = vdesc o old new k.
Proof. rewrite !vdesc_eq, sc_swap, (orb_comm (info_isdir (linfo new k))). reflexivity. Qed.

Lemma children_swap old new k c : In c (children new old k) <-> In c (children old new k).
Proof. rewrite !children_spec. split; intros [n [E H]]; exists n; tauto. Qed.

Lemma roots_swap old new : roots new old = roots old new.
Proof. unfold roots. now rewrite orb_comm. Qed.

Lemma reached_swap o old new k : In k (reached o new old) <-> In k (reached o old new).
Proof.
  unfold reached. rewrite roots_swap.
  assert (Hd : depth_bound new old = depth_bound old new) by apply Nat.max_comm. rewrite Hd.
  rewrite !in_flat_map. split; intros [r [Hr H]]; exists r.
  - apply filter_In in Hr as [Hr1 Hr2]. rewrite vdesc_swap in Hr2. split; [now apply filter_In|].
    revert H. apply tree_ext_In. intros a x. unfold kkids. rewrite !filter_In, vdesc_swap, children_swap. tauto.
  - apply filter_In in Hr as [Hr1 Hr2]. split; [apply filter_In; now rewrite vdesc_swap|].
    revert H. apply tree_ext_In. intros a x. unfold kkids. rewrite !filter_In, vdesc_swap, children_swap. tauto.
Qed.

Lemma visited_swap o old new : Permutation (visited o new old) (visited o old new).
Proof.
  apply NoDup_Permutation; try apply visited_NoDup. intros k. unfold visited.
  rewrite !in_app_iff, roots_swap, !in_flat_map. split; (intros [H|[p [Hp Hc]]]; [now left | right; exists p]).
  - split; [now apply reached_swap | now apply children_swap].
  - split; [now apply reached_swap | now apply children_swap].
Qed.

Lemma fuel_for_swap old new : fuel_for new old = fuel_for old new.
Proof. unfold fuel_for. lia. Qed.

(* C08_swap: swapping the arguments swaps added and deleted (and the two sides) and nothing else;
   holds for arbitrary (also ill-formed) indexes *)
Theorem diff_core_swap o old new fuel :
  o_shallow o = false -> (fuel_for old new <= fuel)%nat ->
  exists cs cs', diff_core o old new fuel = Some cs /\ diff_core o new old fuel = Some cs' /\
                 Permutation cs' (map swap_change cs).
Proof.
  intros Hs Hf. destruct (diff_core_closed o old new fuel Hs Hf) as [cs [E P]].
  assert (Hf' : (fuel_for new old <= fuel)%nat) by now rewrite fuel_for_swap.
  destruct (diff_core_closed o new old fuel Hs Hf') as [cs' [E' P']].
  exists cs, cs'. repeat split; try assumption.
  etransitivity; [exact P'|]. etransitivity; [apply Permutation_flat_map, visited_swap|].
  rewrite (flat_map_ext_In _ (fun k => map swap_change (yield o old new k)) _ (fun k _ => yield_swap o old new k)).
  rewrite <- map_flat_map. apply Permutation_map. now symmetry.
Qed.

(* ---- the shortcut hides nothing ------------------------------------------------------------------------------ *)
Definition with_unchanged (o : opts) : opts :=
  {| o_with_renames := o_with_renames o; o_with_unchanged := true; o_hash_only := o_hash_only o;
     o_meta_only := o_meta_only o; o_meta_cmp_key := o_meta_cmp_key o; o_shallow := o_shallow o |}.

Definition changed (c : change) : bool := negb (typ_eqb (c_typ c) Unchanged).

Lemma ref_diff_changed o old new :
  o_with_unchanged o = false ->
  ref_diff o old new = filter changed (ref_diff (with_unchanged o) old new).
Proof.
  intros Hu. unfold ref_diff. rewrite filter_flat_map. apply flat_map_ext. intros k.
  unfold classify_key. cbn [with_unchanged o_with_unchanged o_hash_only o_meta_only o_meta_cmp_key]. rewrite Hu.
  destruct (is_none _ && is_none _); [reflexivity|]. rewrite !andb_true_r, andb_false_r.
  unfold changed. simpl. destruct (typ_eqb _ Unchanged); reflexivity.
Qed.

(* C08_no_hiding: under the shortcut options the diff is exactly the changed part of the diff that
   visits everything *)
Theorem diff_no_hiding o old new fuel :
  o_shallow o = false -> o_with_unchanged o = false ->
  WfO old -> WfO new -> HashConsistent old new -> (fuel_for old new <= fuel)%nat ->
  exists cs full, diff_core o old new fuel = Some cs /\
                  diff_core (with_unchanged o) old new fuel = Some full /\
                  Permutation cs (filter changed full).
Proof.
  intros Hs Hu Hwo Hwn Hhc Hf.
  destruct (diff_refines o old new fuel Hs Hwo Hwn (fun _ => Hhc) Hf) as [cs [E P]].
  destruct (diff_refines (with_unchanged o) old new fuel Hs Hwo Hwn) as [full [E' P']]; try assumption.
  { unfold shortcut_on. simpl. rewrite andb_false_r. discriminate. }
  exists cs, full. repeat split; try assumption.
  etransitivity; [exact P|]. rewrite (ref_diff_changed o old new Hu). symmetry. now apply Permutation_filter'.
Qed.

(* ---- the whole of `diff` (rename detection on top of the exact core) ------------------------------------------ *)
Definition renames_on (o : opts) (old new : option index) : bool :=
  o_with_renames o && is_some old && is_some new.

Theorem diff_exact o old new fuel :
  o_shallow o = false -> WfO old -> WfO new -> (shortcut_on o = true -> HashConsistent old new) ->
  (fuel_for old new <= fuel)%nat ->
  exists cs, Permutation cs (ref_diff o old new) /\ NoDup (map change_key cs) /\
    diff o old new fuel =
      if renames_on o old new
      then if o_meta_only o then DErr 10 else DOk (detect_renames cs)
      else DOk cs.
Proof.
  intros Hs Hwo Hwn Hhc Hf. destruct (diff_refines o old new fuel Hs Hwo Hwn Hhc Hf) as [cs [E P]].
  exists cs. split; [assumption|]. split.
  - exact (diff_keys_once o old new fuel cs Hs Hwo Hwn Hhc Hf E).
  - unfold diff, renames_on. rewrite E. reflexivity.
Qed.

(* ---- boolean checkers for the hypotheses (used by the Examples; sound) ----------------------------------------- *)
Definition wf_b (i : index) : bool :=
  forallb (fun k => forallb (fun p => key_eqb p k ||
                                      match lookup i p with None => true | Some d => entry_isdir (norm_meta d) end)
                            (prefixes k)) (map fst i).

Lemma strict_prefix_neq p k : strict_prefix p k -> p <> k.
Proof.
  intros [n [s ->]] E. apply (f_equal (@length _)) in E. rewrite app_length in E. simpl in E. lia.
Qed.

Lemma wf_b_sound i : wf_b i = true -> Wf i.
Proof.
  unfold wf_b, Wf. intros H k p Hk Hp. rewrite forallb_forall in H. specialize (H k Hk).
  rewrite forallb_forall in H. assert (Hin : In p (prefixes k)).
  { apply prefixes_spec. destruct Hp as [n [s ->]]. now exists (n :: s). }
  specialize (H p Hin). rewrite (key_eqb_neq p k (strict_prefix_neq p k Hp)) in H. simpl in H.
  destruct (lookup i p); [assumption | exact I].
Qed.

Definition hc_b (old new : option index) : bool :=
  forallb (fun p =>
    match lookup (idx old) p, lookup (idx new) p with
    | Some a, Some b =>
        if entry_hash_isdir (Some a) && typ_eqb (diff_hash_info (e_hash_info a) (e_hash_info b)) Unchanged
        then forallb (fun k => negb (is_prefix p k) || key_eqb p k ||
                               typ_eqb (diff_hash_info (ent_hash (lookup (idx old) k)) (ent_hash (lookup (idx new) k)))
                                       Unchanged) (all_keys old new)
        else true
    | _, _ => true
    end) (map fst (idx old)).

Lemma hc_b_sound old new : hc_b old new = true -> HashConsistent old new.
Proof.
  unfold hc_b, HashConsistent. intros H p a b Ea Eb Hd Hu k Hp. rewrite forallb_forall in H.
  specialize (H p (lookup_Some_key _ _ _ Ea)). rewrite Ea, Eb, Hd in H.
  rewrite (proj2 (typ_eqb_spec _ _) Hu) in H. simpl in H. rewrite forallb_forall in H.
  destruct (in_dec key_eq_dec k (all_keys old new)) as [Hin|Hnin].
  - specialize (H k Hin). assert (Hpre : is_prefix p k = true).
    { apply is_prefix_spec. destruct Hp as [n [s ->]]. now exists (n :: s). }
    rewrite Hpre, (key_eqb_neq p k (strict_prefix_neq p k Hp)) in H. simpl in H. now apply typ_eqb_spec.
  - unfold all_keys in Hnin. rewrite In_dedup, in_app_iff in Hnin.
    assert (E1 : lookup (idx old) k = None) by (apply lookup_None; tauto).
    assert (E2 : lookup (idx new) k = None) by (apply lookup_None; tauto).
    rewrite E1, E2. reflexivity.
Qed.

(* the core never reports Rename or Unknown (with_unknown is outside the model): the input
   condition of the rename theorems *)
Theorem diff_core_range o old new fuel cs :
  diff_core o old new fuel = Some cs -> Forall (fun c => c_typ c <> Rename /\ c_typ c <> Unknown) cs.
Proof.
  unfold diff_core. apply (bfsq_Forall _ _ (fun _ : items * items => True)).
  - intros a _. split; [|apply Forall_forall; intros; exact I].
    unfold step_out. apply Forall_flat_map_all. intros k. unfold visit. cbn [fst].
    destruct (is_none _ && is_none _); [constructor|].
    destruct (typ_eqb _ Unchanged && negb (o_with_unchanged o)); [constructor|].
    constructor; [|constructor]. cbn [c_typ]. apply diff_entry_range.
  - repeat constructor.
Qed.
