(* C14, fourth part: HISTORIES on one stream object - reads interleaved with hash_value /
   total_read queries.  Every answer, at whatever point of the history it is asked, is about
   exactly the chunks handed out before it; asking does not change any later answer. *)
From Coq Require Import NArith ZArith List Bool Lia ZifyBool ZifyNat ZifyN.
From DvcData Require Import Base.Val Base.PyBase Base.PyStream Gen.Hash Model.HashStream Proofs.HashStreamProofs Proofs.HashStreamProofs2.
Import ListNotations.
Open Scope N_scope.

(* what a class feeds its hasher for a chunk *)
Definition hashed (d2u : bool) (c : list N) : list N := if d2u then d2u_data c else c.

Lemma stream_read_feeds d2u s n data s' :
  stream_read d2u s n = Some (data, s') ->
  hs_hasher s' = hs_hasher s ++ hashed d2u data /\
  hs_total_read s' = hs_total_read s + len (hashed d2u data).
Proof.
  unfold stream_read, hashed. destruct d2u.
  - rewrite d2u_read_spec. destruct (512 <=? n)%Z; [|discriminate].
    intros H. injection H as <- <-. split; reflexivity.
  - rewrite plain_read_spec. intros H. injection H as <- <-. split; reflexivity.
Qed.

Definition answer_ok (d2u : bool) (a : answer) : Prop :=
  let '(pre, fed, total) := a in
  fed = concat (map (hashed d2u) pre) /\ total = len fed.

Lemma run_ops_inv d2u : forall ops s acc ans s' ch answers,
  run_ops d2u s ops acc ans = Some (s', ch, answers) ->
  hs_hasher s = concat (map (hashed d2u) (rev acc)) ->
  hs_total_read s = len (hs_hasher s) ->
  Forall (fun a => answer_ok d2u a /\ exists tl, rev acc = fst (fst a) ++ tl) ans ->
  (exists tl, ch = rev acc ++ tl) /\
  hs_hasher s' = concat (map (hashed d2u) ch) /\
  hs_total_read s' = len (hs_hasher s') /\
  Forall (fun a => answer_ok d2u a /\ exists tl, ch = fst (fst a) ++ tl) answers.
Proof.
  induction ops as [|op ops IH]; intros s acc ans s' ch answers H Hh Ht Ha; cbn [run_ops] in H.
  - injection H as <- <- <-. split; [exists []; now rewrite app_nil_r|].
    split; [exact Hh|]. split; [exact Ht|]. apply Forall_rev. exact Ha.
  - destruct op as [n|].
    + destruct (stream_read d2u s n) as [[data s1]|] eqn:E; [|discriminate].
      apply stream_read_feeds in E. destruct E as [Eh Et].
      specialize (IH s1 (data :: acc) ans s' ch answers H).
      destruct IH as ((tl & Htl) & R).
      * rewrite Eh, Hh. cbn [rev]. rewrite map_app, concat_app. cbn [map concat]. now rewrite app_nil_r.
      * rewrite Et, Eh, Ht, len_app. reflexivity.
      * eapply Forall_impl; [|exact Ha]. cbn beta. intros a [Hok (t & Hp)]. split; [exact Hok|].
        exists (t ++ [data]). cbn [rev]. rewrite Hp. now rewrite app_assoc.
      * split; [|exact R]. exists (data :: tl). rewrite Htl. cbn [rev]. now rewrite <- app_assoc.
    + apply (IH s acc ((rev acc, hs_hasher s, hs_total_read s) :: ans) s' ch answers H Hh Ht).
      constructor; [|exact Ha]. cbn [fst]. split; [|exists []; now rewrite app_nil_r].
      unfold answer_ok. split; [exact Hh|exact Ht].
Qed.

(* the statement for a fresh stream: any history of reads (any sizes that the class accepts) and
   queries; every answer is the feed / the count of exactly the chunks handed out before it,
   those chunks are a prefix of all chunks handed out, and so is the final state *)
Lemma history d2u content cuts ops s' ch answers :
  run_ops d2u (init_stream content cuts) ops [] [] = Some (s', ch, answers) ->
  Forall (fun a => let '(pre, fed, total) := a in
                   fed = concat (map (hashed d2u) pre) /\ total = len fed /\ exists tl, ch = pre ++ tl) answers /\
  hs_hasher s' = concat (map (hashed d2u) ch) /\ hs_total_read s' = len (hs_hasher s') /\
  concat ch ++ fo_rest (hs_fobj s') = content.
Proof.
  intros H.
  destruct (run_ops_inv d2u ops (init_stream content cuts) [] [] s' ch answers H) as (_ & Hh & Ht & Ha);
    [reflexivity|reflexivity|constructor|].
  split; [|split; [exact Hh|split; [exact Ht|]]].
  - eapply Forall_impl; [|exact Ha]. intros [[pre fed] total]. cbn [fst]. unfold answer_ok.
    intros [[Hf Hl] Hp]. auto.
  - (* nothing lost: forget the queries *)
    clear Hh Ht Ha.
    assert (G : forall ops s acc ans, run_ops d2u s ops acc ans = Some (s', ch, answers) ->
                concat (rev acc) ++ fo_rest (hs_fobj s) = concat ch ++ fo_rest (hs_fobj s')).
    { clear. induction ops as [|op ops IH]; intros s acc ans H; cbn [run_ops] in H.
      - injection H as <- <- <-. reflexivity.
      - destruct op as [n|]; [|now apply IH in H].
        destruct (stream_read d2u s n) as [[data s1]|] eqn:E; [|discriminate].
        apply read_passthrough in E. destruct E as [-> Hf]. apply IH in H. rewrite <- H.
        cbn [rev]. rewrite concat_app. cbn [concat]. rewrite app_nil_r, <- app_assoc. f_equal.
        rewrite Hf. symmetry. apply fobj_read_split. }
    specialize (G ops (init_stream content cuts) [] [] H). cbn in G. symmetry. exact G.
Qed.

(* plain class: the feed IS the concatenation of the chunks handed out so far *)
Lemma hashed_plain ch : concat (map (hashed false) ch) = concat ch.
Proof. unfold hashed. now rewrite map_id. Qed.

Lemma history_plain content cuts ops s' ch answers :
  run_ops false (init_stream content cuts) ops [] [] = Some (s', ch, answers) ->
  Forall (fun a => let '(pre, fed, total) := a in
                   fed = concat pre /\ total = len (concat pre) /\ exists tl, ch = pre ++ tl) answers /\
  hs_hasher s' = concat ch /\ hs_total_read s' = len (concat ch) /\
  concat ch ++ fo_rest (hs_fobj s') = content.
Proof.
  intros H. apply history in H. destruct H as (Ha & Hh & Ht & Hc).
  rewrite hashed_plain in Hh. rewrite Hh in Ht. repeat split; auto.
  eapply Forall_impl; [|exact Ha]. intros [[pre fed] total] (Hf & Hl & Hp).
  rewrite hashed_plain in Hf. subst fed. auto.
Qed.

(* queries are invisible: dropping them from a history changes neither the chunks nor the final state *)
Definition is_read (o : sop) : bool := match o with SRead _ => true | SQuery => false end.

Lemma queries_invisible d2u : forall ops s acc ans s' ch answers,
  run_ops d2u s ops acc ans = Some (s', ch, answers) ->
  exists answers', run_ops d2u s (filter is_read ops) acc [] = Some (s', ch, answers').
Proof.
  induction ops as [|op ops IH]; intros s acc ans s' ch answers H; cbn [run_ops filter] in *.
  - injection H as <- <- _. eexists. reflexivity.
  - destruct op as [n|]; cbn [is_read].
    + cbn [run_ops]. destruct (stream_read d2u s n) as [[data s1]|]; [|discriminate]. now apply IH in H.
    + now apply IH in H.
Qed.

Example history_nonvacuous :
  exists s' ch answers,
    run_ops false (init_stream [1; 2; 3; 4; 5] []) [SQuery; SRead 2; SQuery; SRead (-1); SQuery] [] []
      = Some (s', ch, answers) /\
    ch = [[1; 2]; [3; 4; 5]] /\
    answers = [([], [], 0); ([[1; 2]], [1; 2], 2); ([[1; 2]; [3; 4; 5]], [1; 2; 3; 4; 5], 5)].
Proof. eexists _, _, _. vm_compute. repeat split; reflexivity. Qed.

Example history_legacy_nonvacuous :
  exists s' ch answers,
    run_ops true (init_stream [97; 13; 10; 98] []) [SRead 512; SQuery] [] [] = Some (s', ch, answers) /\
    answers = [([[97; 13; 10; 98]], [97; 10; 98], 3)].
Proof. eexists _, _, _. vm_compute. repeat split; reflexivity. Qed.
