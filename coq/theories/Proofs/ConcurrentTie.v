(* ConcurrentTie.v - the add protocol that Model/Concurrent.v's [legal] programs require IS
   HashFileDB.add as the translator reads it from /repo on every run (Gen/DbAdd.v, unit "dbadd").

   [g_add] interprets the GENERATED decisions - order of the statements of add (add_order), the body of
   the post loop (post_body: [check if verifying;] protect), the ONE state transaction over the distinct
   requested ids (save_over / save_value) - over the step machine of Model/Concurrent.v; the copies are
   dvc_objects' (probe, private temp, atomic rename: environment).  [g_add_legal]: the program so obtained
   is [legal] for a local store, for every workload: copy -> [check] -> chmod -> one upsert at the end is
   exactly the discipline the C16 theorems assume of a writer.  [tie_verify_handlers]: the verification
   step of the extended machine (read-then-remove; ObjectFormatError REPORTED = [VerifyBad];[VerifyDrop],
   FileNotFoundError PASSED = [VerifyOk] on an absent name) is what post_handlers says.
   An edit of HashFileDB.add (protect dropped or moved before the copy, a handler changed, the state rows
   written before the copy or in several transactions, verify no longer per-call-over-store) either fails
   the translation or changes a generated definition and breaks these proofs. *)
From Coq Require Import NArith List Bool Arith Lia.
From DvcData Require Import Base.Val Model.Concurrent Gen.DbAdd Proofs.ConcurrentProofs.
Import ListNotations.
Open Scope N_scope.

(* ---- interpretation of the generated decisions ------------------------------------------------ *)

(* dvc_objects: one object = reflink attempt at the final name, private temp, atomic rename *)
Fixpoint g_copies (t : N) (os : list oid) : program :=
  match os with
  | [] => []
  | o :: r => [ProbeOpen o; ProbeUnlink o; CopyTmp t o; Rename t o] ++ g_copies (N.succ t) r
  end.

(* the mutations of one statement of the post loop's try body when nothing is raised *)
Definition g_act (o : oid) (a : post_act) : program :=
  match a with
  | PCheck _ => []            (* a passing check mutates nothing (LocalHashFileDB.check may chmod: allowed anywhere) *)
  | PProtect => [Chmod o]
  end.
Definition g_post (verify : bool) (os : list oid) : program :=
  flat_map (fun o => flat_map (g_act o) (post_body verify)) os.
Definition g_save (os : list oid) : program :=
  match save_value, save_over with
  | SaveOid, OidsDistinct => [StateUpsert os]
  | _, _ => []
  end.
Definition g_stmt (verify : bool) (os : list oid) (s : add_stmt) : program :=
  match s with
  | SCopy => map Mkdir (map prefix os) ++ g_copies 0 os
  | SPost => g_post verify os
  | SSave => g_save os
  | _ => []
  end.
Definition g_add (verify : bool) (os : list oid) : program := flat_map (g_stmt verify os) add_order.

(* copies, then the post loop, then the save - in that order, each once *)
Lemma g_add_shape verify os :
  g_add verify os = map Mkdir (map prefix os) ++ g_copies 0 os ++ g_post verify os ++ [StateUpsert os].
Proof. unfold g_add, add_order. cbn [flat_map g_stmt g_save save_value save_over app]. rewrite ?app_nil_r, <- ?app_assoc. reflexivity. Qed.

(* ---- the generated add is a legal writer program --------------------------------------------- *)

Lemma leqb_refl (o : list N) : list_N_eqb o o = true.
Proof. apply list_N_eqb_spec. reflexivity. Qed.

Lemma legal_from_mkdirs loc its l tail :
  legal_from loc its (map Mkdir l ++ tail) = legal_from loc its tail.
Proof. induction l; simpl; auto. Qed.

Lemma chmod_in_post verify os o : In o os -> In (Chmod o) (g_post verify os).
Proof.
  intros Hin. unfold g_post. apply in_flat_map. exists o. split; auto.
  destruct verify; simpl; auto.
Qed.

Lemma post_all_chmod verify os s : In s (g_post verify os) -> exists o, s = Chmod o.
Proof.
  unfold g_post. intros Hin. apply in_flat_map in Hin. destruct Hin as (o & _ & Hin).
  destruct verify; simpl in Hin; destruct Hin as [<-|[]]; eauto.
Qed.

Lemma legal_from_chmods its p tail :
  (forall s, In s p -> exists o, s = Chmod o) ->
  legal_from true its (p ++ tail) = legal_from true its tail.
Proof.
  induction p as [|s r IH]; intros Hall; simpl; auto.
  destruct (Hall s (or_introl eq_refl)) as [o ->]. simpl. apply IH. intros; apply Hall; right; auto.
Qed.

Lemma existsb_app_r {A} (f : A -> bool) l1 l2 : existsb f l2 = true -> existsb f (l1 ++ l2) = true.
Proof. intros. rewrite existsb_app. rewrite H. apply orb_true_r. Qed.

Lemma copies_legal its os : forall t tail,
  (forall o, In o os -> existsb (is_chmod_of o) tail = true) ->
  legal_from true its tail = true ->
  legal_from true its (g_copies t os ++ tail) = true.
Proof.
  induction os as [|o r IH]; intros t tail Hch Ht; [exact Ht|].
  cbn [g_copies app].
  assert (Hrest : legal_from true its (g_copies (N.succ t) r ++ tail) = true).
  { apply IH; auto. intros; apply Hch; right; auto. }
  assert (Hc : existsb (is_chmod_of o) (g_copies (N.succ t) r ++ tail) = true).
  { apply existsb_app_r. apply Hch. left; auto. }
  set (rest := g_copies (N.succ t) r ++ tail) in *.
  cbn [legal_from step_ok].
  rewrite (proj2 (rename_spec o (ProbeUnlink o :: CopyTmp t o :: Rename t o :: rest)))
    by (exists t; simpl; auto).
  rewrite (proj2 (rename_spec o (CopyTmp t o :: Rename t o :: rest))) by (exists t; simpl; auto).
  rewrite Hc, Hrest. reflexivity.
Qed.

Lemma rename_in_copies os : forall t o, In o os -> exists t', In (Rename t' o) (g_copies t os).
Proof.
  induction os as [|o' r IH]; intros t o Hin; [destruct Hin|].
  destruct Hin as [->|Hin].
  - exists t. simpl. auto.
  - destruct (IH (N.succ t) o Hin) as [t' H]. exists t'. simpl. auto.
Qed.

Theorem g_add_legal : forall verify (its : items),
  legal true its (g_add verify (map fst its)) = true.
Proof.
  intros verify its. unfold legal. apply andb_true_intro. split.
  - (* every requested id is renamed into place *)
    unfold covers. apply forallb_forall. intros [o b] Hin. simpl.
    apply orb_true_intro. right. apply rename_spec.
    destruct (rename_in_copies (map fst its) 0 o) as [t Ht].
    { apply in_map_iff. exists (o, b). auto. }
    exists t. rewrite g_add_shape. apply in_or_app. right. apply in_or_app. left. exact Ht.
  - rewrite g_add_shape, legal_from_mkdirs.
    apply copies_legal.
    + intros o Ho. apply chmod_spec. apply in_or_app. left. apply chmod_in_post; auto.
    + rewrite legal_from_chmods by (apply post_all_chmod).
      simpl. rewrite andb_true_r. apply forallb_forall. intros o Ho.
      apply in_map_iff in Ho. destruct Ho as ([o' b] & <- & Hin). simpl.
      destruct (In_oget o' b its Hin) as [v ->]. reflexivity.
Qed.

(* so every theorem of C16 applies to writers that run the generated add: e.g. N writers, each adding its
   whole workload in one add (the stage + transfer of the harness issues two: files, then the directory) *)
Corollary g_add_writers_legal : forall verify (wls : list items),
  legal_all true wls (map (fun its => g_add verify (map fst its)) wls) = true.
Proof.
  intros verify wls. induction wls as [|its r IH]; simpl; auto.
  rewrite g_add_legal, IH. reflexivity.
Qed.

(* ---- the flag and the handlers ----------------------------------------------------------------- *)

(* the per-call flag wins over the store's (transfer() always passes one, so a store configured
   verify=True does not verify transfers); the default is not to verify *)
Lemma tie_eff_verify : forall v s, eff_verify (Some v) s = v /\ eff_verify None s = s /\ store_verify None = false.
Proof. intros; repeat split. Qed.

(* what the post loop does with the two exceptions a check can end with, over the extended machine *)
Definition g_check (o : oid) (r : option exc) : list vstep :=
  match r with
  | None => [VerifyOk o]
  | Some e => match post_handler e with
              | Some HReport => [VerifyBad o; VerifyDrop o]
              | Some HPass => [VerifyOk o]
              | None => []
              end
  end.

Theorem tie_verify_handlers : forall o,
  post_body true = [PCheck true; PProtect] /\ post_body false = [PProtect] /\
  g_check o (Some ExcObjectFormat) = [VerifyBad o; VerifyDrop o] /\
  g_check o (Some ExcFileNotFound) = [VerifyOk o] /\
  forallb (fun e => existsb (exc_eqb e) pre_swallows) [ExcObjectFormat; ExcFileNotFound] = true /\
  pre_runs true = true /\ pre_runs false = false /\ copy_reports = true.
Proof. intros; repeat split. Qed.

(* ... and those steps mean: reported / passed *)
Lemma vexec_bad_reports loc its i o v v' :
  vexec loc its i (VerifyBad o) v = Some v' -> fst v' = fst v /\ snd v' = (i, o) :: snd v.
Proof.
  unfold vexec. destruct (oget o its); try discriminate.
  destruct (oget o (w_objs (fst v))); try discriminate.
  destruct (verify_accepts loc b f); try discriminate. intros E; inversion E; auto.
Qed.
Lemma vexec_ok_absent_passes loc its i o b v :
  oget o its = Some b -> oget o (w_objs (fst v)) = None -> vexec loc its i (VerifyOk o) v = Some v.
Proof. intros H1 H2. unfold vexec. rewrite H1, H2. reflexivity. Qed.
