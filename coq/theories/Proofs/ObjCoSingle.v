(* Single-file targets (Model/ObjCheckout.v checkout1): convergence, idempotence, link record. *)
From Coq Require Import NArith List Bool Lia.
From DvcData Require Import Base.Val Base.PyBase Gen.PyTypes Gen.ODiff Gen.Relink Model.ObjCheckout Proofs.ObjCoTie Proofs.ObjCheckoutProofs Proofs.ObjCoBase Proofs.ObjCoForced.
Import ListNotations.
Open Scope N_scope.

Section Single1.
Variable H : bytes -> oid.
Variables (g : cfg) (c : cache) (o : oid) (co : cobj).
Hypothesis Hne : forall b, is_nil (H b) = false.
Hypothesis Ho : is_nil o = false.
Hypothesis Hdir : HashInfo_isdir (hi o) = false.
Hypothesis Eo : oassoc o c = Some co.

Notation mk1 := (mk_change1 H c).

Lemma new_oid_mk1 cur : new_oid (mk1 cur o) = Some o.
Proof. reflexivity. Qed.
Lemma new_isdir_mk1 cur : new_isdir (mk1 cur o) = false.
Proof. exact Hdir. Qed.
Lemma truthy_new_mk1 cur : truthy_oid (c_new (mk1 cur o)) = true.
Proof. unfold truthy_oid, mk_change1. simpl. unfold truthy_list. now rewrite Ho. Qed.
Definition readable1 (cur : option fnode) : bool := match cur with Some n => negb (f_broken n) | None => false end.
Lemma truthy_old_mk1 cur : truthy_oid (c_old (mk1 cur o)) = readable1 cur.
Proof.
  unfold truthy_oid, mk_change1. simpl. destruct cur as [n|]; simpl; [|reflexivity].
  destruct (f_broken n); simpl; [reflexivity|]. unfold truthy_list. now rewrite Hne.
Qed.
Lemma new_in_cache_mk1 cur : TreeEntry_in_cache (c_new (mk1 cur o)) = true.
Proof. unfold TreeEntry_in_cache, mk_change1. simpl. unfold cache_check. now rewrite Ho, Eo. Qed.
Lemma same_oid_mk1 n : f_broken n = false ->
  opt_eqb hashinfo_eqb (t_oid (c_new (mk1 (Some n) o))) (t_oid (c_old (mk1 (Some n) o))) = list_N_eqb o (H (f_bytes n)).
Proof. intros Hb. unfold mk_change1. simpl. rewrite Hb. reflexivity. Qed.

Lemma tentry_eqb_mk1 n : f_broken n = false ->
  tentry_eqb (c_old (mk1 (Some n) o)) (c_new (mk1 (Some n) o)) = list_N_eqb (H (f_bytes n)) o.
Proof. intros Hb. unfold tentry_eqb, mk_change1. simpl. rewrite Hb. reflexivity. Qed.

Lemma typ_mk1 cur :
  Change_typ (mk1 cur o) =
    match cur with
    | Some n => if f_broken n then ochange_ADD
                else if list_N_eqb (H (f_bytes n)) o then ochange_UNCHANGED else ochange_MODIFY
    | None => ochange_ADD
    end.
Proof.
  rewrite Change_typ_spec, truthy_old_mk1, truthy_new_mk1. destruct cur as [n|]; [|reflexivity].
  destruct (f_broken n) eqn:Eb.
  - simpl. now rewrite Eb.
  - rewrite (tentry_eqb_mk1 n Eb). simpl. rewrite Eb. simpl. now destruct (list_N_eqb (H (f_bytes n)) o).
Qed.

Hypothesis Hforce : g_force g = true.
Variables (t0 : lkind) (lrest : list lkind).
Hypothesis Hlinks : g_links g = t0 :: lrest.

(* the step: a fresh link of the first usable type, or (relink, copy configured, the path is an
   independent copy of the same content: cache.unprotect) the file itself *)
Lemma file_step1_forced cur :
  exists n', file_step g c (mk1 cur o) cur = FOk (Some n') /\ f_broken n' = false /\
    (n' = link_node t0 o co (g_now g) \/
     (cur = Some n' /\ H (f_bytes n') = o /\ g_relink g = true /\ cache_is_copy g = true /\ iscopy cur = true)).
Proof.
  unfold file_step. rewrite new_oid_mk1, cf_gen_eq.
  assert (Hfresh : post_info (link_step g c o None) = FOk (Some (link_node t0 o co (g_now g)))).
  { rewrite (link_step_none g c o co t0 lrest Hlinks Eo). simpl. now rewrite link_node_unbroken. }
  assert (Hrel : post_info match del_step g (mk1 cur o) cur with
                           | Some cur1 => link_step g c o cur1 | None => FPrompt end
                 = FOk (Some (link_node t0 o co (g_now g))))
    by (rewrite del_step_force by exact Hforce; exact Hfresh).
  unfold cf_decide. rewrite truthy_old_mk1.
  destruct (readable1 cur) eqn:Er.
  - destruct cur as [n|]; [|discriminate]. simpl in Er. apply negb_true_iff in Er.
    destruct (g_relink g) eqn:Erl.
    + match goal with |- context [if ?b then CfUnprotect else CfRelink] => destruct b eqn:Eu end.
      * apply andb_true_iff in Eu as [Eu E3]. apply andb_true_iff in Eu as [E1 E2].
        rewrite (same_oid_mk1 n Er) in E2. apply list_N_eqb_spec in E2.
        exists n. simpl. rewrite Er. split; [reflexivity|]. split; [reflexivity|]. right.
        unfold file_is_copy, mk_change1 in E1. simpl in E1. auto.
      * exists (link_node t0 o co (g_now g)). split; [exact Hrel|]. split; [apply link_node_unbroken|now left].
    + exists (link_node t0 o co (g_now g)). split; [exact Hrel|]. split; [apply link_node_unbroken|now left].
  - unfold ch_key, mk_change1. simpl. rewrite guard_step_force by exact Hforce.
    exists (link_node t0 o co (g_now g)). split; [exact Hfresh|]. split; [apply link_node_unbroken|now left].
Qed.

Lemma kassoc_put1 x : kassoc root_key (put1 x) = x.
Proof. unfold put1. rewrite kassoc_put. reflexivity. Qed.

Hypothesis Hintact : forall o' co', oassoc o' c = Some co' -> H (c_bytes co') = o'.
Hypothesis Hinj : forall a b, H a = H b -> a = b.

Lemma bytes_of_hash n : H (f_bytes n) = o -> f_bytes n = c_bytes co.
Proof. intros E. apply Hinj. rewrite E. symmetry. now apply Hintact. Qed.

(* the result of the forced checkout of a cached file target, in one statement: outcome, the node at
   the path (readable, the target's bytes), and the record *)
Theorem single_forced cur :
  let r := checkout1 H g c cur o in
  (r_out r = ONothing \/ r_out r = ODone (negb (g_relink g))) /\
  exists n', kassoc root_key (r_ws r) = Some n' /\ f_broken n' = false /\ f_bytes n' = c_bytes co /\
             (forall rec, r_links r = Some rec -> rec = [(root_key, f_mtime n')]).
Proof.
  intros r. subst r. unfold checkout1.
  destruct (typ_is ochange_UNCHANGED (mk1 cur o) && negb (extra_modified g (mk1 cur o)))%bool eqn:En.
  - apply andb_true_iff in En as [Et _]. unfold typ_is in Et. apply ochange_eqb_spec in Et.
    rewrite typ_mk1 in Et. destruct cur as [n|]; [|discriminate].
    destruct (f_broken n) eqn:Eb; [discriminate|].
    destruct (list_N_eqb (H (f_bytes n)) o) eqn:Eh; [|discriminate]. apply list_N_eqb_spec in Eh.
    cbn [r_out r_ws r_links]. split; [now left|]. exists n. rewrite kassoc_put1. split; [reflexivity|]. split; [exact Eb|].
    split; [now apply bytes_of_hash|]. intros rec Er. unfold rec1 in Er.
    destruct (g_relink g); [|discriminate]. destruct (g_state g); [now injection Er as <-|discriminate].
  - rewrite Hlinks. simpl. destruct (file_step1_forced cur) as [n' [E1 [E2 E3]]]. rewrite E1. cbn [is_nil r_out r_ws r_links].
    split; [now right|]. exists n'. rewrite kassoc_put1. split; [reflexivity|]. split; [exact E2|]. split.
    + destruct E3 as [->|[_ [Hh _]]]; [apply link_node_bytes|now apply bytes_of_hash].
    + intros rec Er. unfold rec1 in Er. destruct (g_state g); [now injection Er as <-|discriminate].
Qed.

(* a plain second call over a readable node that has the target's bytes: nothing to do *)
Theorem single_second n g2 : f_broken n = false -> f_bytes n = c_bytes co -> g_relink g2 = false ->
  checkout1 H g2 c (Some n) o = mk_result ONothing (put1 (Some n)) c None.
Proof.
  intros Hb Hby Hr. unfold checkout1.
  assert (Hh : H (f_bytes n) = o) by (rewrite Hby; now apply Hintact).
  assert (Et : typ_is ochange_UNCHANGED (mk1 (Some n) o) = true).
  { unfold typ_is. rewrite typ_mk1, Hb, Hh, (proj2 (list_N_eqb_spec o o) eq_refl). reflexivity. }
  assert (Ex : extra_modified g2 (mk1 (Some n) o) = false).
  { unfold extra_modified. rewrite Hr, new_in_cache_mk1. reflexivity. }
  now rewrite Et, Ex, Hr.
Qed.

End Single1.

Lemma checkout1_ws H g c cur o : exists x, r_ws (checkout1 H g c cur o) = put1 x.
Proof.
  unfold checkout1. destruct (typ_is _ _ && _)%bool; [eexists; reflexivity|].
  destruct (is_nil (g_links g)); [eexists; reflexivity|].
  destruct (file_step g c _ cur); eexists; reflexivity.
Qed.
