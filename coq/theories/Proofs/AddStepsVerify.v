(* AddStepsVerify.v - add with effective verification (vpost / vtail / vadd_prog of
   Model/AddSteps.v) emits valid traces, keeps [inv], and leaves every requested object
   present, well named and protected, without assuming anything about what already exists
   under the requested names. *)
From Coq Require Import NArith List Bool Lia.
From DvcData Require Import Base.Val Model.AddSteps Proofs.AddStepsProofs Proofs.AddStepsProgs Proofs.AddStepsRecover.
Import ListNotations.
Open Scope N_scope.

Section V.
  Variable bytes : Type.
  Variable H : bytes -> oid.
  Variable kids : bytes -> list oid.
  Variable empty : bytes.
  Variable part : bytes -> bytes.
  Hypothesis kids_empty : kids empty = [].

  Notation file := (file bytes).
  Notation world := (world bytes).
  Notation astep := (astep_ bytes).
  Notation obj := (obj bytes).
  Notation row := (row bytes).
  Notation step := (step bytes empty).
  Notation run := (run bytes empty).
  Notation step_ok := (step_ok bytes H kids).
  Notation valid_trace := (valid_trace bytes H kids empty).
  Notation named_ok := (named_ok bytes H).
  Notation named_ok_b := (named_ok_b bytes H).
  Notation inv := (inv bytes H kids).
  Notation G := (G bytes).
  Notation step_oid := (step_oid bytes).
  Notation protect := (protect bytes).
  Notation good := (good bytes H).
  Notation files_ok := (files_ok bytes H).
  Notation heal1_steps := (heal1_steps bytes H).
  Notation heal_prog := (heal_prog bytes H empty).
  Notation absent := (absent bytes).
  Notation present := (present bytes).
  Notation copy_blocks := (copy_blocks bytes part).
  Notation probe_of := (probe_of bytes).
  Notation vpost1 := (vpost1 bytes H empty).
  Notation vpost := (vpost bytes H empty).
  Notation vtail := (vtail bytes H empty).
  Notation vadd_prog := (vadd_prog bytes H empty part).

  (* ---- a well-named object is never dropped by the check ---- *)
  Lemma heal1_keeps w o f :
    inv w -> G w -> obj w o = Some f -> named_ok o (f_bytes f) ->
    exists g, obj (run (heal1_steps w o) w) o = Some g.
  Proof.
    intros (Hp & Hr & Hc & Hq) HG Ho Hn. unfold AddSteps.heal1_steps. rewrite Ho.
    destruct (f_prot f); [exists f; exact Ho|].
    destruct (row w o) as [v|] eqn:Er; cbv beta iota zeta.
    - assert (E : list_N_eqb (base v) (base o) = true).
      { apply list_N_eqb_spec. rewrite (Hr o f v Ho Er). exact Hn. }
      rewrite E. change ([] ++ ?l) with l.
      change (run [Chmod o] w) with (step w (Chmod o)).
      destruct (chmod_post bytes empty w o f Ho) as (_ & _ & Q3).
      eexists. exact Q3.
    - assert (E : list_N_eqb (base (H (f_bytes f))) (base o) = true).
      { apply list_N_eqb_spec. exact Hn. }
      rewrite E.
      set (w1 := step w (StateSave [(o, H (f_bytes f))])).
      change (run ([StateSave [(o, H (f_bytes f))]] ++ [Chmod o]) w) with (step w1 (Chmod o)).
      assert (Eo1 : obj w1 o = Some f) by exact Ho.
      destruct (chmod_post bytes empty w1 o f Eo1) as (_ & _ & Q3).
      eexists. exact Q3.
  Qed.

  (* ---- one requested oid: check, then protect if still present ---- *)
  Lemma vpost1_valid w o :
    inv w -> G w ->
    let p := vpost1 w o in
    let w' := run p w in
    valid_trace p w = true /\ inv w' /\ G w' /\
    (forall o', o' <> o -> obj w' o' = obj w o') /\
    (forall f, obj w' o = Some f -> named_ok o (f_bytes f) /\ f_prot f = true) /\
    (forall f, obj w o = Some f -> named_ok o (f_bytes f) -> exists g, obj w' o = Some g) /\
    (forall s, In s p -> forall o', step_oid s = Some o' -> o' = o).
  Proof.
    intros Hi HG. cbv zeta. unfold AddSteps.vpost1. cbv zeta.
    pose proof (heal1_valid bytes H kids empty w o Hi HG) as V1.
    pose proof (heal1_post bytes H kids empty w o Hi HG) as P1. cbv zeta in P1.
    destruct P1 as (G1 & R1 & O1).
    pose proof (heal1_inv bytes H kids empty kids_empty w o Hi HG) as I1.
    assert (K1 : forall f, obj w o = Some f -> named_ok o (f_bytes f) ->
                 exists g, obj (run (heal1_steps w o) w) o = Some g).
    { intros f Hf Hn. exact (heal1_keeps w o f Hi HG Hf Hn). }
    assert (S1 : forall s, In s (heal1_steps w o) -> forall o', step_oid s = Some o' -> o' = o).
    { intros s Hin o' Hs. exact (heal1_oid bytes H w o s o' Hin Hs). }
    set (h := heal1_steps w o) in *. set (wh := run h w) in *.
    unfold AddSteps.present. destruct (obj wh o) as [g|] eqn:Eg; cbv iota; fold wh.
    - destruct (O1 g eq_refl) as [Ng Pg].
      destruct (chmod1_valid bytes H kids empty wh o G1) as (V2 & G2 & O2 & R2).
      { intros f Hf. rewrite Eg in Hf. injection Hf as <-. exact Ng. }
      rewrite Eg in O2. cbn [option_map] in O2.
      rewrite run_app. change (run [Chmod o] (run h w)) with (step wh (Chmod o)).
      split; [|split; [|split; [exact G2|split; [|split; [|split]]]]].
      + apply valid_app; [exact V1|].
        change (step_ok wh (Chmod o) && true = true). rewrite V2. reflexivity.
      + apply step_inv; assumption.
      + intros o' Hne. rewrite (R2 o' Hne). apply R1. exact Hne.
      + intros f Hf. rewrite O2 in Hf. injection Hf as <-. split; [exact Ng|reflexivity].
      + intros f _ _. eexists. exact O2.
      + intros s Hin o' Hs. apply in_app_or in Hin. destruct Hin as [Hin|Hin].
        * exact (S1 s Hin o' Hs).
        * destruct Hin as [<-|[]]. simpl in Hs. injection Hs as <-. reflexivity.
    - split; [exact V1|split; [exact I1|split; [exact G1|split; [exact R1|split; [|split]]]]].
      + intros f Hf. rewrite Eg in Hf. discriminate Hf.
      + intros f Hf Hn. destruct (K1 f Hf Hn) as [g Hg]. discriminate Hg.
      + exact S1.
  Qed.

  Lemma vpost1_good w o :
    inv w -> G w -> forall o', good w o' -> good (run (vpost1 w o) w) o'.
  Proof.
    intros Hi HG o' (f & Hf & Hn & Hp).
    pose proof (vpost1_valid w o Hi HG) as Hv. cbv zeta in Hv.
    destruct Hv as (_ & _ & _ & R1 & O1 & K1 & _).
    destruct (oid_dec o' o) as [->|Hne].
    - destruct (K1 f Hf Hn) as [g Hg]. destruct (O1 g Hg) as [Ng Pg].
      exists g. split; [exact Hg|split; assumption].
    - exists f. split; [|split; assumption]. rewrite (R1 o' Hne). exact Hf.
  Qed.

  (* ---- all requested oids ---- *)
  Lemma vpost_valid_strong req : forall w,
    inv w -> G w ->
    (forall o f, In o req -> obj w o = Some f -> named_ok o (f_bytes f)) ->
    let p := vpost req w in
    let w' := run p w in
    valid_trace p w = true /\ inv w' /\ G w' /\
    (forall o, In o req -> (exists f, obj w o = Some f) -> good w' o) /\
    (forall o, good w o -> good w' o) /\
    (forall o, ~ In o req -> obj w' o = obj w o) /\
    (forall s, In s p -> forall o, step_oid s = Some o -> In o req) /\
    (forall o f, In o req -> obj w' o = Some f -> named_ok o (f_bytes f) /\ f_prot f = true).
  Proof.
    induction req as [|o r IH]; intros w Hi HG Hn; cbv zeta.
    - change (vpost [] w) with (@nil astep). change (run [] w) with w.
      split; [reflexivity|split; [exact Hi|split; [exact HG|]]].
      split; [intros o []|split; [intros o Hg; exact Hg|split; [reflexivity|]]].
      split; [intros s []|intros o f []].
    - change (vpost (o :: r) w) with (vpost1 w o ++ vpost r (run (vpost1 w o) w)).
      rewrite run_app.
      pose proof (vpost1_valid w o Hi HG) as H1. cbv zeta in H1.
      destruct H1 as (V1 & I1 & G1 & R1 & O1 & K1 & S1).
      pose proof (vpost1_good w o Hi HG) as E1.
      set (w1 := run (vpost1 w o) w) in *.
      assert (Hn1 : forall o' f, In o' r -> obj w1 o' = Some f -> named_ok o' (f_bytes f)).
      { intros o' f Hin Ho. destruct (oid_dec o' o) as [->|Hne].
        - exact (proj1 (O1 f Ho)).
        - rewrite (R1 o' Hne) in Ho. apply (Hn o' f); [right; exact Hin|exact Ho]. }
      pose proof (IH w1 I1 G1 Hn1) as H2. cbv zeta in H2.
      destruct H2 as (V2 & I2 & G2 & D2 & E2 & R2 & S2 & N2).
      split; [apply valid_app; assumption|split; [exact I2|split; [exact G2|]]].
      split; [|split; [|split; [|split]]].
      + intros o' Hin (f & Hf). destruct (oid_dec o' o) as [->|Hne].
        * apply E2. destruct (K1 f Hf) as [g Hg]; [apply (Hn o f); [left; reflexivity|exact Hf]|].
          destruct (O1 g Hg) as [Ng Pg]. exists g. split; [exact Hg|split; assumption].
        * destruct Hin as [He|Hin]; [exfalso; apply Hne; symmetry; exact He|].
          apply D2; [exact Hin|]. exists f. rewrite (R1 o' Hne). exact Hf.
      + intros o' Hg. apply E2. apply E1. exact Hg.
      + intros o' Hnin. simpl in Hnin.
        rewrite R2 by (intros Hr'; apply Hnin; right; exact Hr').
        apply R1. intros ->. apply Hnin. left. reflexivity.
      + intros s Hin o' Hs. apply in_app_or in Hin. destruct Hin as [Hin|Hin].
        * left. symmetry. exact (S1 s Hin o' Hs).
        * right. exact (S2 s Hin o' Hs).
      + intros o' f Hin Ho. destruct (in_dec oid_dec o' r) as [Hr|Hnr].
        * exact (N2 o' f Hr Ho).
        * destruct Hin as [<-|Hin]; [|contradiction].
          rewrite (R2 o Hnr) in Ho. exact (O1 f Ho).
  Qed.

  Theorem vpost_valid req : forall w,
    inv w -> G w ->
    (forall o f, In o req -> obj w o = Some f -> named_ok o (f_bytes f)) ->
    let p := vpost req w in
    let w' := run p w in
    valid_trace p w = true /\ inv w' /\ G w' /\
    (forall o, In o req -> (exists f, obj w o = Some f) -> good w' o) /\
    (forall o, good w o -> good w' o) /\
    (forall o, ~ In o req -> obj w' o = obj w o) /\
    (forall s, In s p -> forall o, step_oid s = Some o -> In o req).
  Proof.
    intros w Hi HG Hn. pose proof (vpost_valid_strong req w Hi HG Hn) as Hs. cbv zeta in Hs |- *.
    destruct Hs as (V & I & G' & D & E & R & S & _).
    exact (conj V (conj I (conj G' (conj D (conj E (conj R S)))))).
  Qed.

  (* ---- ... followed by the state transaction for the paths that exist ---- *)
  Lemma vtail_valid_strong req w :
    inv w -> G w ->
    (forall o f, In o req -> obj w o = Some f -> named_ok o (f_bytes f)) ->
    let p := vtail req w in
    let w' := run p w in
    valid_trace p w = true /\ inv w' /\ G w' /\
    (forall o, In o req -> (exists f, obj w o = Some f) -> good w' o) /\
    (forall o, good w o -> good w' o) /\
    (forall o, ~ In o req -> obj w' o = obj w o) /\
    (forall s, In s p -> forall o, step_oid s = Some o -> In o req) /\
    (forall o f, In o req -> obj w' o = Some f -> named_ok o (f_bytes f) /\ f_prot f = true).
  Proof.
    intros Hi HG Hn. cbv zeta. unfold AddSteps.vtail, AddSteps.seq2. cbv zeta.
    pose proof (vpost_valid_strong req w Hi HG Hn) as Hs. cbv zeta in Hs.
    destruct Hs as (V & I & G2 & D & E & R & S & N).
    set (a := vpost req w) in *. set (w2 := run a w) in *.
    set (l := filter (present w2) req).
    assert (Hn2 : forall o f, In o l -> obj w2 o = Some f -> named_ok o (f_bytes f)).
    { intros o f Hin Ho. apply filter_In in Hin. exact (proj1 (N o f (proj1 Hin) Ho)). }
    pose proof (statesave_self_valid bytes H kids l w2 G2 Hn2) as VE.
    rewrite run_app.
    change (run [StateSave (self_rows l)] (run a w)) with (step w2 (StateSave (self_rows l))).
    split; [|split; [|split; [exact G2|split; [exact D|split; [exact E|split; [exact R|split]]]]]].
    - apply valid_app; [exact V|].
      change (step_ok w2 (StateSave (self_rows l)) && true = true). rewrite VE. reflexivity.
    - apply step_inv; assumption.
    - intros s Hin o Hs. apply in_app_or in Hin. destruct Hin as [Hin|Hin].
      + exact (S s Hin o Hs).
      + destruct Hin as [<-|[]]. discriminate Hs.
    - exact N.
  Qed.

  Theorem vtail_valid req w :
    inv w -> G w ->
    (forall o f, In o req -> obj w o = Some f -> named_ok o (f_bytes f)) ->
    let p := vtail req w in
    let w' := run p w in
    valid_trace p w = true /\ inv w' /\ G w' /\
    (forall o, In o req -> (exists f, obj w o = Some f) -> good w' o) /\
    (forall o, good w o -> good w' o) /\
    (forall o, ~ In o req -> obj w' o = obj w o) /\
    (forall s, In s p -> forall o, step_oid s = Some o -> In o req).
  Proof.
    intros Hi HG Hn. pose proof (vtail_valid_strong req w Hi HG Hn) as Hs. cbv zeta in Hs |- *.
    destruct Hs as (V & I & G' & D & E & R & S & _).
    exact (conj V (conj I (conj G' (conj D (conj E (conj R S)))))).
  Qed.

  (* ---- the copy phase shared by add_prog and vadd_prog ---- *)
  Lemma copy_phase_valid t its w :
    G w -> files_ok its ->
    let todo := filter (absent w) its in
    let cp := map Mkdir (dedup (map (fun it : oid * bytes => pfx (fst it)) todo)) ++
              probe_of todo ++ copy_blocks t todo in
    let w' := run cp w in
    valid_trace cp w = true /\ G w' /\
    (forall o, In o (map fst todo) -> exists b, In (o, b) todo /\ obj w' o = Some (mkF b false)) /\
    (forall o, ~ In o (map fst todo) -> obj w' o = obj w o) /\
    (forall s, In s cp -> forall o, step_oid s = Some o -> In o (map fst todo)).
  Proof.
    intros HG Hok. cbv zeta.
    set (todo := filter (absent w) its).
    set (dirs := dedup (map _ todo)).
    assert (Htodo : forall it, In it todo -> In it its /\ obj w (fst it) = None).
    { intros it Hit. apply filter_In in Hit. destruct Hit as [Hi Ha]. split; [exact Hi|].
      apply (absent_none bytes). exact Ha. }
    destruct (mkdirs_valid bytes H kids empty dirs w HG) as [VA RA].
    destruct (probe_of_valid bytes H kids empty todo w HG (fun it Hit => proj2 (Htodo it Hit)))
      as (VB & GB & OB).
    set (wB := run (probe_of todo) w) in *.
    assert (HokT : forall it, In it todo ->
              named_ok_b (fst it) (snd it) = true /\ is_dir (fst it) = false).
    { intros it Hit. apply Hok. apply Htodo. exact Hit. }
    pose proof (copy_blocks_valid bytes H kids empty part todo t wB GB HokT) as HC. cbv zeta in HC.
    destruct HC as (VC & GC & OC & RC).
    assert (Erun : run (map Mkdir dirs ++ probe_of todo ++ copy_blocks t todo) w
                   = run (copy_blocks t todo) wB).
    { rewrite !run_app, RA. reflexivity. }
    rewrite Erun.
    split; [|split; [exact GC|split; [exact OC|split]]].
    - apply valid_app; [exact VA|]. rewrite RA. apply valid_app; [exact VB|exact VC].
    - intros o Hnin. rewrite (RC o Hnin). apply OB.
    - intros s Hin o Hs.
      apply in_app_or in Hin. destruct Hin as [Hin|Hin].
      { apply in_map_iff in Hin. destruct Hin as (d & <- & _). discriminate Hs. }
      apply in_app_or in Hin. destruct Hin as [Hin|Hin].
      { destruct todo as [|it r]; [destruct Hin|].
        simpl in Hin. destruct Hin as [<-|[<-|[]]]; simpl in Hs; injection Hs as <-;
          left; reflexivity. }
      exact (copy_blocks_oid bytes part _ _ _ _ Hin Hs).
  Qed.

  (* ---- HashFileDB.add with effective verification ---- *)
  Theorem vadd_prog_valid t its w :
    inv w -> G w -> files_ok its ->
    let p := vadd_prog true t its w in
    let w' := run p w in
    valid_trace p w = true /\ inv w' /\ G w' /\
    (forall it, In it its -> good w' (fst it)) /\
    (forall o, ~ In o (map fst its) -> obj w' o = obj w o) /\
    (forall s, In s p -> forall o, step_oid s = Some o -> In o (map fst its)).
  Proof.
    intros Hi HG Hok. cbv zeta. unfold AddSteps.vadd_prog, AddSteps.seq2. cbv zeta.
    pose proof (heal_prog_valid bytes H kids empty kids_empty (map fst its) w Hi HG) as H1.
    cbv zeta in H1. destruct H1 as (V1 & I1 & G1 & N1 & R1 & _ & S1).
    set (a := heal_prog (map fst its) w) in *. set (w1 := run a w) in *.
    pose proof (copy_phase_valid t its w1 G1 Hok) as H2. cbv zeta in H2.
    destruct H2 as (V2 & G2 & O2 & R2 & S2).
    set (todo := filter (absent w1) its) in *.
    set (cp := map Mkdir (dedup (map _ todo)) ++ probe_of todo ++ copy_blocks t todo) in *.
    assert (I2 : inv (run cp w1)).
    { apply run_inv; assumption. }
    set (w2 := run cp w1) in *.
    set (req := dedup (map fst its)).
    assert (Hreq1 : forall o, In o req -> In o (map fst its)).
    { intros o. apply (proj1 (dedup_In o (map fst its))). }
    assert (Hreq2 : forall o, In o (map fst its) -> In o req).
    { intros o. apply (proj2 (dedup_In o (map fst its))). }
    assert (Hsub : forall o, In o (map fst todo) -> In o (map fst its)).
    { intros o Hin. apply in_map_iff in Hin. destruct Hin as (it & <- & Hit).
      apply in_map. apply filter_In in Hit. exact (proj1 Hit). }
    assert (Hkey : forall o, In o (map fst its) ->
              exists f, obj w2 o = Some f /\ named_ok o (f_bytes f)).
    { intros o Hin. destruct (in_dec oid_dec o (map fst todo)) as [Ht|Hnt].
      - destruct (O2 o Ht) as (b & Hb & Ho). exists (mkF b false). split; [exact Ho|].
        simpl. apply named_ok_b_iff. apply filter_In in Hb. apply (Hok (o, b)). exact (proj1 Hb).
      - rewrite (R2 o Hnt). pose proof Hin as Hin'.
        apply in_map_iff in Hin'. destruct Hin' as (it & <- & Hit).
        destruct (absent w1 it) eqn:Ea.
        + exfalso. apply Hnt. apply in_map. apply filter_In. split; assumption.
        + apply (absent_false bytes) in Ea. destruct Ea as [f Ef].
          exists f. split; [exact Ef|]. exact (proj1 (N1 (fst it) f Hin Ef)). }
    assert (Hn2 : forall o f, In o req -> obj w2 o = Some f -> named_ok o (f_bytes f)).
    { intros o f Hin Ho. apply Hreq1 in Hin. destruct (Hkey o Hin) as (f0 & Hf0 & Hn0).
      rewrite Ho in Hf0. injection Hf0 as <-. exact Hn0. }
    pose proof (vtail_valid req w2 I2 G2 Hn2) as H3. cbv zeta in H3.
    destruct H3 as (V3 & I3 & G3 & D3 & _ & R3 & S3).
    rewrite !run_app. fold w1. fold w2.
    split; [|split; [exact I3|split; [exact G3|split; [|split]]]].
    - apply valid_app; [exact V1|]. apply valid_app; [exact V2|exact V3].
    - intros it Hit.
      assert (Hin : In (fst it) (map fst its)) by (apply in_map; exact Hit).
      apply D3; [apply Hreq2; exact Hin|].
      destruct (Hkey _ Hin) as (f & Hf & _). exists f. exact Hf.
    - intros o Hnin.
      rewrite R3 by (intros Hr; apply Hnin; apply Hreq1; exact Hr).
      rewrite R2 by (intros Ht; apply Hnin; apply Hsub; exact Ht).
      apply R1. exact Hnin.
    - intros s Hin o Hs.
      apply in_app_or in Hin. destruct Hin as [Hin|Hin]; [exact (S1 s Hin o Hs)|].
      apply in_app_or in Hin. destruct Hin as [Hin|Hin].
      + apply Hsub. exact (S2 s Hin o Hs).
      + apply Hreq1. exact (S3 s Hin o Hs).
  Qed.
End V.

Print Assumptions vpost_valid.
Print Assumptions vtail_valid.
Print Assumptions vadd_prog_valid.
