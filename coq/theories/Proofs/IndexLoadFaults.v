(* C17 - faults: directory objects that are unreadable for a while (OHide / ORestore) and an
   index.onerror that swallows the failure.  A failed load leaves the index unchanged, every access
   moves the state by loads only - whatever the environment -, and a load done under a faulty
   environment is a load of the restored one; so as soon as everything is readable again the lazy
   index answers exactly like the fully loaded one. *)
From Coq Require Import NArith PeanoNat List Bool Lia.
From DvcData Require Import Base.Val Model.IndexLoad Proofs.IndexLoadBase Proofs.IndexLoadProofs Proofs.IndexLoadMore Proofs.IndexLoadThms.
Import ListNotations.
Open Scope N_scope.

(* ---- a failed load changes nothing ---- *)
Theorem failed_load_unchanged E s i :
  (forall x, In x i -> s x = true -> loadable E x = true -> listing_of E (snd x) = None) ->
  load_where E s i = i.
Proof.
  unfold load_where. induction i as [|x i IH]; intros H; [reflexivity|]. simpl.
  rewrite IH by (intros; apply H; auto; now right).
  destruct (s x) eqn:S; [|reflexivity]. unfold expand.
  destruct (loadable E x) eqn:L; [|reflexivity].
  now rewrite (H x (or_introl eq_refl) S L).
Qed.

(* ---- environments that differ in what is readable ---- *)
Definition esub (E E' : env) : Prop :=
  v_sp E = v_sp E' /\ forall e rows, listing_of E e = Some rows -> listing_of E' e = Some rows.

Lemma loadable_sp E E' x : v_sp E = v_sp E' -> loadable E x = loadable E' x.
Proof. intros H. unfold loadable, under_sp. now rewrite H. Qed.

Lemma wf_sp E E' i : v_sp E = v_sp E' -> wf E i -> wf E' i.
Proof.
  intros H W. intros x y Hx Hy L P. apply W; try assumption.
  now rewrite (loadable_sp E E' x H).
Qed.

Lemma esub_unhide E : esub E (unhide E).
Proof.
  split; [reflexivity|]. intros e rows. unfold listing_of.
  change (roles_load (unhide E)) with (roles_load E). change (v_hidden (unhide E)) with (@nil oid).
  destruct (e_hash e) as [h|]; [|discriminate].
  destruct (hi_isdir (Some h)); cbn [andb existsb negb]; [|discriminate].
  destruct (existsb (list_N_eqb h) (v_hidden E)); cbn [negb]; [discriminate | auto].
Qed.

Lemma load_all_expand_sub E E' x : esub E E' -> load_all E' (expand E x) = expand E' x.
Proof.
  intros [Hsp Hl]. destruct (expand_cases E x) as [->|[L [rows [R ->]]]].
  - unfold load_all, load_where. simpl. now rewrite app_nil_r.
  - rewrite (loadable_sp E E' x Hsp) in L. apply Hl in R.
    unfold load_all. rewrite load_where_fix.
    + unfold expand. now rewrite L, R.
    + intros c [<-|Hc]; [reflexivity | eapply child_not_loadable; eauto].
Qed.

Lemma load_all_app E l1 l2 : load_all E (l1 ++ l2) = load_all E l1 ++ load_all E l2.
Proof. unfold load_all, load_where. apply flat_map_app. Qed.
Lemma load_all_cons E x i : load_all E (x :: i) = expand E x ++ load_all E i.
Proof. reflexivity. Qed.
Lemma load_where_cons E s x i :
  load_where E s (x :: i) = (if s x then expand E x else [x]) ++ load_where E s i.
Proof. reflexivity. Qed.

Lemma load_all_sub E E' s i : esub E E' -> load_all E' (load_where E s i) = load_all E' i.
Proof.
  intros H. induction i as [|x i IH]; [reflexivity|].
  rewrite load_where_cons, load_all_app, IH, load_all_cons. f_equal.
  destruct (s x).
  - apply (load_all_expand_sub E E' x H).
  - rewrite load_all_cons. apply app_nil_r.
Qed.

(* ---- without [ok]: what stays loadable, and well-formedness ---- *)
Lemma loadable_after' E s i y : In y (load_where E s i) -> loadable E y = true ->
  In y i /\ (s y = false \/ listing_of E (snd y) = None).
Proof.
  intros Hy L. apply load_where_in in Hy as [x [Hx Hy]].
  destruct (s x) eqn:S.
  - destruct (expand_out E x y Hy) as [->|C]; [|congruence]. split; [assumption|]. right.
    unfold expand in Hy. rewrite L in Hy.
    destruct (listing_of E (snd x)) as [rows|] eqn:R; [|reflexivity]. exfalso.
    destruct Hy as [Hy|Hy].
    + rewrite <- Hy in L. discriminate.
    + erewrite child_not_loadable in L by eauto. discriminate.
  - destruct Hy as [<-|[]]. auto.
Qed.

Lemma wf_gen E s i : wf E i -> wf E (load_where E s i).
Proof.
  intros Hwf.
  intros x' y' Hx' Hy' L P.
  destruct (loadable_after' E s i x' Hx' L) as [Hxi Sx].
  apply load_where_in in Hy' as [y [Hyi Hy']].
  destruct (s y) eqn:Sy.
  - destruct (expand_cases E y) as [Hex|[Ly [rows [R Hex]]]]; rewrite Hex in Hy'.
    + destruct Hy' as [<-|[]]. now apply Hwf.
    + exfalso.
      assert (y <> x') as NE by (intros ->; destruct Sx; congruence).
      destruct Hy' as [<-|Hc].
      * simpl in P. apply NE. now apply Hwf.
      * destruct (child_key _ _ _ Hc) as [sfx Hk]. rewrite Hk in P.
        destruct (prefix_of_app _ _ _ P) as [P'|P'].
        -- apply NE. now apply Hwf.
        -- apply NE. symmetry. now apply Hwf.
  - destruct Hy' as [<-|[]]. now apply Hwf.
Qed.

(* ---- every access moves the state by loads only, in any environment ---- *)
Section LoadsOnly.
  Variable E : env.

  Definition lwp {A} (st : idx -> idx * A) : Prop := forall i, exists s, fst (st i) = load_where E s i.

  Lemma lw_none i : load_where E s_none i = i.
  Proof. unfold load_where. induction i as [|x i IH]; [reflexivity|]. simpl. f_equal. exact IH. Qed.

  Lemma lwp_ret {A} (a : A) : lwp (fun i => (i, a)).
  Proof. intros i. exists s_none. simpl. now rewrite lw_none. Qed.

  Lemma lwp_after {A B} (st1 : idx -> idx * A) (st2 : A -> idx -> idx * B) :
    lwp st1 -> (forall a, lwp (st2 a)) -> lwp (fun i => let '(i1, a) := st1 i in st2 a i1).
  Proof.
    intros H1 H2 i. destruct (H1 i) as [s1 G1]. destruct (st1 i) as [i1 a]. simpl in G1. subst i1.
    destruct (H2 a (load_where E s1 i)) as [s2 G2]. exists (fun x => s1 x || s2 x).
    now rewrite G2, load_where_fuse.
  Qed.

  Lemma lwp_map {A B} (st : idx -> idx * A) (g : A -> B) :
    lwp st -> lwp (fun i => let '(i1, a) := st i in (i1, g a)).
  Proof. intros H. apply (lwp_after st (fun a i1 => (i1, g a)) H). intros a. apply lwp_ret. Qed.

  Lemma lwp_guarded {A} (sf : idx -> sel) (q : idx -> res A) : lwp (fun i => guarded E (sf i) i q).
  Proof.
    intros i. unfold guarded. destruct (blocked E (sf i) i); simpl; [|eauto].
    exists s_none. now rewrite lw_none.
  Qed.

  Lemma lwp_match11 {A} n (a b : idx -> idx * A) : lwp a -> lwp b ->
    lwp (fun i => match n with 11 => a i | _ => b i end).
  Proof.
    intros Ha Hb i. destruct (N.eq_dec n 11) as [->|NE]; [apply Ha|].
    rewrite (match11 n (a i) (b i) NE). apply Hb.
  Qed.

  Lemma get_lwp k : lwp (fun i => get_step E i k).
  Proof. unfold get_step. apply (lwp_guarded (fun i => get_sel i k)). Qed.

  Lemma ls_lwp k : lwp (fun i => ls_step E i k).
  Proof.
    unfold ls_step.
    apply (lwp_after (fun i => get_step E i k)
             (fun r i1 => match r with
                          | Err 11 => (i1, Err E_DIRERR)
                          | _ => guarded E (ensure_sel k i1) i1 (ls_q k)
                          end)); [apply get_lwp|].
    intros [oe|n].
    - apply (lwp_guarded (fun i1 => ensure_sel k i1)).
    - apply (lwp_match11 n (fun i1 => (i1, Err E_DIRERR))
                           (fun i1 => guarded E (ensure_sel k i1) i1 (ls_q k))).
      + apply lwp_ret.
      + apply (lwp_guarded (fun i1 => ensure_sel k i1)).
  Qed.

  Lemma items_lwp p sh : lwp (fun i => items_step E i p sh).
  Proof.
    intros i. unfold items_step.
    destruct (blocked E _ i); [exists s_none; simpl; now rewrite lw_none|].
    set (s1 := match p with [] => s_none | _ :: _ => s_lp i p end).
    destruct (negb (is_node (load_where E s1 i) p)); [simpl; eauto|].
    destruct (lwp_guarded (fun i1 => items_sel i1 p sh) (items_q p sh) (load_where E s1 i)) as [s2 G].
    exists (fun x => s1 x || s2 x). now rewrite G, load_where_fuse.
  Qed.

  Lemma view_items_lwp f : lwp (fun i => view_items_step E i f).
  Proof. unfold view_items_step. apply (lwp_guarded (fun _ => view_sel f)). Qed.

  Lemma view_ls_lwp f k : lwp (fun i => view_ls_step E i f k).
  Proof. unfold view_ls_step. apply lwp_map. apply ls_lwp. Qed.

  Lemma fs_info_lwp p : lwp (fun i => fs_info_step E i p).
  Proof. unfold fs_info_step. apply lwp_map. apply get_lwp. Qed.

  Lemma fs_read_lwp p : lwp (fun i => fs_read_step E i p).
  Proof.
    intros i. unfold fs_read_step. destruct (get_lwp (fs_key p) i) as [s G].
    destruct (get_step E i (fs_key p)) as [i1 r]. simpl in *. eauto.
  Qed.

  Lemma fs_ls_lwp p : lwp (fun i => fs_ls_step E i p).
  Proof.
    unfold fs_ls_step.
    apply (lwp_after (fun i => get_step E i (fs_key p))
             (fun r i1 => match r with
                          | Err n => (i1, nf_err (Err n))
                          | Ok oe =>
                              if info_isdir oe then
                                let '(i2, r2) := ls_step E i1 (fs_key p) in
                                (i2, match r2 with
                                     | Ok l => Ok (map (fun c : key * option entry => (pjoin p (last (fst c) []), snd c)) l)
                                     | Err n => nf_err (Err n)
                                     end)
                              else (i1, Ok [(join_sep slash (fs_key p), oe)])
                          end)); [apply get_lwp|].
    intros [oe|n]; [|apply lwp_ret]. destruct (info_isdir oe); [|apply lwp_ret].
    apply (lwp_map (fun i => ls_step E i (fs_key p))). apply ls_lwp.
  Qed.

  Lemma fold_lwp (g : key -> idx -> idx * list dchange) : (forall c, lwp (g c)) ->
    forall cks acc,
      lwp (fun st => fold_left (fun a c => let '(s, out) := a in
                                           let '(s', out') := g c s in (s', out ++ out')) cks (st, acc)).
  Proof.
    intros G. induction cks as [|c cks IH]; intros acc; [apply lwp_ret|].
    intros st. simpl fold_left. destruct (G c st) as [s1 G1].
    destruct (g c st) as [st1 out1]. simpl in G1. subst st1.
    destruct (IH (acc ++ out1) (load_where E s1 st)) as [s2 G2].
    exists (fun x => s1 x || s2 x). etransitivity; [exact G2 | apply load_where_fuse].
  Qed.

  Lemma diff_node_lwp o : forall fuel k oi ni, lwp (fun st => diff_node fuel E st o k oi ni).
  Proof.
    induction fuel as [|f IH]; intros k oi ni; [apply lwp_ret|].
    cbn [diff_node].
    destruct (N.eqb (hi_diff (hval (d_entry oi)) (hval (d_entry ni))) 0 && hi_isdir (hval (d_entry oi)));
      [apply lwp_ret|].
    destruct (d_isdir oi || d_isdir ni); [|apply lwp_ret].
    intros st. destruct (ls_lwp k st) as [s1 G1].
    destruct (ls_step E st k) as [st1 r]. simpl in G1. subst st1.
    match goal with
    | |- context [fold_left ?fn ?cks (load_where E s1 st, ?acc)] =>
        destruct (fold_lwp (fun c s => diff_node f E s o c (kassoc (res_list r) c)
                                         (kassoc (res_list (ls_q k o)) c))
                           (fun c => IH c _ _) cks acc (load_where E s1 st)) as [s2 G2]
    end.
    exists (fun x => s1 x || s2 x). etransitivity; [exact G2 | apply load_where_fuse].
  Qed.

  Lemma diff_lwp o : lwp (fun i => diff_step E i o).
  Proof.
    intros i. unfold diff_step. destruct (get_lwp [] i) as [s1 G1].
    destruct (get_step E i []) as [i1 r]. simpl in G1. subst i1.
    assert (exists s, fst (let '(i2, cs) := diff_node diff_fuel E (load_where E s1 i) o []
                                    (match r with Ok oe => Some oe | Err _ => None end)
                                    (match get_q [] o with Ok oe => Some oe | Err _ => None end) in
                           (i2, @Ok (list dchange) (sort_by (fun a b => negb (key_ltb (d_key b) (d_key a))) cs)))
                      = load_where E s i) as G.
    { destruct (diff_node_lwp o diff_fuel [] (match r with Ok oe => Some oe | Err _ => None end)
                  (match get_q [] o with Ok oe => Some oe | Err _ => None end) (load_where E s1 i)) as [s2 G2].
      destruct (diff_node diff_fuel E (load_where E s1 i) o [] _ _) as [a b]. simpl in *.
      exists (fun x => s1 x || s2 x). now rewrite G2, load_where_fuse. }
    destruct r as [oe|n]; [exact G|].
    destruct (N.eq_dec n 11) as [->|NE]; [simpl; eauto|].
    rewrite (match11 n _ _ NE). exact G.
  Qed.

  Theorem step_loads_only o : forall i, exists s, fst (step E i o) = load_where E s i.
  Proof.
    intros i. destruct o as [k|p sh|k|k|oth|p|p|p|f|f k|h|h]; simpl.
    - destruct (get_lwp k i) as [s G]. destruct (get_step E i k). eauto.
    - destruct (items_lwp p sh i) as [s G]. destruct (items_step E i p sh). eauto.
    - destruct (ls_lwp k i) as [s G]. destruct (ls_step E i k). eauto.
    - destruct (get_lwp k i) as [s G]. destruct (get_step E i k). eauto.
    - destruct (diff_lwp oth i) as [s G]. destruct (diff_step E i oth). eauto.
    - destruct (fs_ls_lwp p i) as [s G]. destruct (fs_ls_step E i p). eauto.
    - destruct (fs_info_lwp p i) as [s G]. destruct (fs_info_step E i p). eauto.
    - destruct (fs_read_lwp p i) as [s G]. destruct (fs_read_step E i p). eauto.
    - destruct (view_items_lwp f i) as [s G]. destruct (view_items_step E i f). eauto.
    - destruct (view_ls_lwp f k i) as [s G]. destruct (view_ls_step E i f k). eauto.
    - exists s_none. now rewrite lw_none.
    - exists s_none. now rewrite lw_none.
  Qed.
End LoadsOnly.

(* ---- runs through changing environments ---- *)
Lemma env_step_sp E o : v_sp (env_step E o) = v_sp E.
Proof. destruct o; reflexivity. Qed.
Lemma env_step_unhide E o : unhide (env_step E o) = unhide E.
Proof. destruct o; reflexivity. Qed.

Theorem faulty_run : forall ops E i, wf E i ->
  let '(E1, i1, _) := run_env E i ops in
  unhide E1 = unhide E /\
  load_all (unhide E) i1 = load_all (unhide E) i /\
  wf (unhide E) i1 /\
  (forall y, In y i1 -> loadable (unhide E) y = true -> In y i).
Proof.
  induction ops as [|o ops IH]; intros E i Hwf; simpl.
  - split; [reflexivity|]. split; [reflexivity|]. split; [now apply (wf_sp E (unhide E)) | auto].
  - set (E' := env_step E o).
    destruct (step_loads_only E' o i) as [s G]. destruct (step E' i o) as [i' a]. simpl in G. subst i'.
    assert (wf E' i) as W' by (apply (wf_sp E E'); [symmetry; apply env_step_sp | assumption]).
    specialize (IH E' (load_where E' s i) (wf_gen E' s i W')).
    destruct (run_env E' (load_where E' s i) ops) as [[E1 i1] l].
    destruct IH as [I1 [I2 [I3 I4]]].
    assert (unhide E' = unhide E) as U by apply env_step_unhide.
    rewrite U in *. split; [assumption|]. split; [|split; [assumption|]].
    + rewrite I2. rewrite <- U. apply load_all_sub. apply esub_unhide.
    + intros y Hy L. specialize (I4 y Hy L).
      rewrite (loadable_sp (unhide E) E' y (eq_sym (env_step_sp E o))) in L.
      now destruct (loadable_after' E' s i y I4 L).
Qed.

(* once everything is readable again, whatever happened before, the lazy index answers like the
   fully loaded index of the restored environment *)
Theorem retries : forall E i ops1 E1 i1 l ops2,
  wf E i -> ok (unhide E) i -> run_env E i ops1 = (E1, i1, l) ->
  answers (unhide E) i1 ops2 = answers (unhide E) (load_all (unhide E) i) ops2.
Proof.
  intros E i ops1 E1 i1 l ops2 Hwf Hok R.
  pose proof (faulty_run ops1 E i Hwf) as H. rewrite R in H. destruct H as [_ [H2 [H3 H4]]].
  assert (ok (unhide E) i1) as Hok1 by (intros y Hy L; apply Hok; [now apply H4 | assumption]).
  destruct (transparent (unhide E) ops2 i1 Hok1 H3) as [T _]. now rewrite T, H2.
Qed.

(* a run without environment operations is a run in a fixed environment *)
Definition env_free (o : op) : Prop := match o with OHide _ | ORestore _ => False | _ => True end.
Lemma run_env_fixed : forall ops E i, Forall env_free ops ->
  run_env E i ops = (E, fst (run E i ops), snd (run E i ops)).
Proof.
  induction ops as [|o ops IH]; intros E i H; [reflexivity|].
  inversion H as [|? ? Ho Hops]; subst. simpl.
  assert (env_step E o = E) as -> by (destruct o; try reflexivity; contradiction).
  destruct (step E i o) as [i1 a]. rewrite (IH E i1 Hops).
  destruct (run E i1 ops). reflexivity.
Qed.

(* non-vacuity: the example with its directory object hidden, a swallowing onerror, a failed first
   access, then restored: the directory is loaded on the next access and the answers are the loaded ones *)
Definition ex_env_sw : env :=
  {| v_sp := v_sp ex_env; v_data := v_data ex_env; v_cache := v_cache ex_env; v_remote := v_remote ex_env;
     v_hidden := []; v_swallow := true |}.
Definition ex_fault_ops : list op :=
  [OHide ex_d; OLs [[100]]; OGet [[100]; [120]]; ORestore ex_d; OLs [[100]]; OGet [[100]; [120]]].
Example ex_fault :
  let '(E1, i1, l) := run_env ex_env_sw ex_idx ex_fault_ops in
  v_hidden E1 = [] /\ length i1 = 5%nat /\
  nth 1 l (VN 0) = VL [VN 1; VL []] /\                       (* hidden: the directory lists nothing *)
  nth 2 l (VN 0) = VL [VN 0; VN 8] /\                        (* and d/x is a KeyError *)
  nth 4 l (VN 0) = nth 2 (answers ex_env_sw (load_all ex_env_sw ex_idx) [OGet [[102]]; OGet [[102]]; OLs [[100]]]) (VN 0).
Proof. vm_compute. repeat split. Qed.
Example ex_fault_hyps : wf ex_env_sw ex_idx /\ ok (unhide ex_env_sw) ex_idx.
Proof.
  split.
  - apply (wf_sp ex_env ex_env_sw); [reflexivity | apply ex_wf].
  - intros x [<-|[<-|[]]] L; simpl in *; [|discriminate]. vm_compute. discriminate.
Qed.
