(* C07, sixth part: the invariant "every state row honest, every write-protected Local object
   named_ok" holds along every history, add included. *)
From Coq Require Import NArith List Bool Lia.
From DvcData Require Import Base.Val Gen.Check Model.StateDbBase Model.Integrity Proofs.IntegrityProofs Proofs.IntegrityProofsFold Proofs.IntegrityProofsAdd Proofs.IntegrityProofsAddInv.
Import ListNotations.
Open Scope N_scope.

Section WithDigest.
  Variable H : name -> bytes -> oid.

  Notation hash_file := (hash_file H).
  Notation check := (check H).
  Notation named_ok := (named_ok H).
  Notation honest_for := (honest_for H).
  Notation honest := (honest H).
  Notation trusted_ok := (trusted_ok H).
  Notation Inv := (Inv H).

  (* side conditions of the steps.
     OSet (tamper / plant / touch / chmod): the token changes with respect to the state row of that
       id, or bytes and token stay as they are (chmod); and content that is left write-protected
       (0o444) on a Local store hashes to its name - the property is about objects that are NOT
       write-protected.
     OSaveRow: a foreign state row for the store's algorithm is truthful.
     OAdd: distinct ids, fresh tokens for the copies (`token changed`), and - without
       verification - sources that hash to their ids, onto objects that hash to their names. *)
  Definition tick_ok (w : world) (p : op) : Prop :=
    match p with
    | OAdd v items => add_ok H w v items
    | OSet o b m t =>
        (row_fresh w o t \/ (exists ob, lookup o (w_objs w) = Some ob /\ o_bytes ob = b /\ o_tok ob = t)) /\
        (w_cls w = Local -> S_IMODE m = PROTECTED -> split_dot0 (H (w_alg w) b) = split_dot0 o)
    | OSaveRow o alg v =>
        alg = w_alg w -> forall ob, lookup o (w_objs w) = Some ob ->
        split_dot0 v = split_dot0 (H alg (o_bytes ob))
    | OXfer v items =>     (* the add_ok of the add it performs, in the world its existence query leaves *)
        let r := oids_exist H w (map it_oid items) in
        add_ok H (snd r) v (xfer_new (fst r) items)
    | _ => True
    end.

  Fixpoint ticks (w : world) (h : list op) : Prop :=
    match h with
    | [] => True
    | p :: h' => tick_ok w p /\ ticks (fst (step H w p)) h'
    end.

  (* ---- check keeps both halves of the invariant, for every id *)
  Lemma honest_check w o o' : honest w o -> honest (snd (check w o')) o.
  Proof.
    intros Hon. destruct (leqb_dec o' o) as [->|N].
    - destruct (check_cases H w o) as [[_ E]|(ob & L & [E|E])]; rewrite E; auto.
      destruct (base_check_cases H w o ob) as [E'|E']; rewrite E'; simpl.
      + intros ob' L'.
        destruct (protect_lookup_same (with_db w (snd (hash_file w o ob))) o ob L) as (ob2 & L2 & B & T & _).
        rewrite L2 in L'. injection L' as <-.
        intros r S Lr Tr Ar. rewrite protect_db in Lr. rewrite protect_alg in *. rewrite protect_state in S.
        simpl in *. rewrite B. apply (hash_file_db_honest H w o ob r); auto. congruence.
      + intros ob' L'. simpl in L'. rewrite lookup_remove_eq in L'. discriminate.
    - apply (honest_ext H w); auto. symmetry; apply check_cfg. symmetry; apply check_frame; auto.
  Qed.

  Lemma trusted_check w o o' : honest w o -> trusted_ok w o -> trusted_ok (snd (check w o')) o.
  Proof.
    intros Hon Tr. destruct (leqb_dec o' o) as [->|N].
    - destruct (lookup o (w_objs w)) as [ob|] eqn:L.
      + destruct (w_cls w) eqn:C; [destruct (mode_dec (o_mode ob)) as [M|M]|].
        * now rewrite (check_trusted H w o ob L C M).
        * rewrite (check_untrusted H w o ob L (fun _ => M)).
          destruct (named_ok_dec H (w_alg w) o ob) as [Hn|Hn].
          -- rewrite (base_check_ok H w o ob (Hon ob L) Hn). simpl.
             destruct (Intact_after_ok H w o ob L Hn (Hon ob L)) as (ob' & L' & Hn' & _).
             intros ob2 L2 _ _. rewrite L' in L2. injection L2 as <-. exact Hn'.
          -- rewrite (base_check_bad H w o ob (Hon ob L) Hn). simpl.
             intros ob2 L2. simpl in L2. rewrite lookup_remove_eq in L2. discriminate.
        * intros ob2 L2 C2. exfalso.
          assert (X : w_cls (snd (check w o)) = w_cls w).
          { pose proof (cfg_fields _ _ (check_cfg H w o)) as (CC & _). exact CC. }
          congruence.
      + now rewrite (check_missing H w o L).
    - apply (trusted_ok_ext H w); auto. symmetry; apply check_cfg. symmetry; apply check_frame; auto.
  Qed.

  Lemma inv_check w o' : Inv w -> Inv (snd (check w o')).
  Proof.
    intros (Hon & Tr & FM). split; [|split].
    - intros o. now apply honest_check.
    - intros o. now apply trusted_check.
    - pose proof (cfg_fields _ _ (check_cfg H w o')) as (CC & _ & _ & _ & CF). now rewrite CC, CF.
  Qed.

  Lemma inv_exist_fold os : forall acc w, Inv w -> Inv (snd (fold_left (exist_step H) os (acc, w))).
  Proof.
    induction os as [|o' os IH]; intros acc w I; simpl; auto.
    apply IH. unfold exist_step. simpl. now apply inv_check.
  Qed.

  Lemma inv_check_all os : forall w, Inv w -> Inv (check_all H w os).
  Proof.
    induction os as [|o' os IH]; intros w I; simpl; auto. apply IH. now apply inv_check.
  Qed.

  Lemma inv_pre_fold items : forall w, Inv w -> Inv (fold_left (pre_step H) items w).
  Proof.
    induction items as [|i items IH]; intros w I; simpl; auto. apply IH. now apply inv_check.
  Qed.

  Lemma inv_check_seq os : forall w, Inv w -> Inv (snd (check_seq H w os)).
  Proof.
    induction os as [|o' os IH]; intros w I; simpl; auto.
    destruct (fst (check w o') =? 0); [apply IH|]; now apply inv_check.
  Qed.

  Lemma inv_oids_exist w os : Inv w -> Inv (snd (oids_exist H w os)).
  Proof.
    intros I. unfold oids_exist. destruct (w_cls w); simpl; auto. now apply inv_exist_fold.
  Qed.

  (* steps that leave the objects alone keep trusted_ok *)
  Lemma trusted_same_objs w w' o : w_objs w' = w_objs w -> w_cls w' = w_cls w -> w_alg w' = w_alg w ->
    trusted_ok w o -> trusted_ok w' o.
  Proof. intros EO EC EA Tr ob L. rewrite EO in L. rewrite EC, EA. now apply Tr. Qed.

  Lemma xfer_inv w v items : Inv w -> tick_ok w (OXfer v items) -> Inv (fst (step H w (OXfer v items))).
  Proof.
    intros I Tk. unfold tick_ok in Tk. cbv zeta in Tk.
    change (fst (step H w (OXfer v items))) with (snd (xfer H w v items)). unfold xfer.
    destruct (xfer_new (fst (oids_exist H w (map it_oid items))) items) as [|i new] eqn:E.
    - simpl. now apply inv_oids_exist.
    - cbn [snd]. apply add_inv; auto. now apply inv_oids_exist.
  Qed.

  Lemma check_nohash_world w o : snd (check_nohash w o) = w.
  Proof.
    unfold check_nohash. destruct (lookup o (w_objs w)) as [ob|]; auto.
    destruct (w_cls w); auto. unfold Local_check.
    destruct (N.eqb (S_IMODE (o_mode ob)) CACHE_MODE); auto.
  Qed.

  Lemma step_inv w p : Inv w -> tick_ok w p -> Inv (fst (step H w p)).
  Proof.
    intros I Tk. destruct p as [v items|v items|o'|os|o'|d ents|o' b m t|o'|o'|o' alg v| |os|v items|o'];
      [simpl in * .. | idtac | idtac].
    - now apply add_inv.
    - unfold add_ro. destruct (match v with Some b => b | None => w_verify w end); auto.
      now apply inv_pre_fold.
    - now apply inv_check.
    - unfold oids_exist. destruct (w_cls w); simpl; auto. now apply inv_exist_fold.
    - unfold checkout. destruct (lookup o' (w_objs (snd (check w o')))); simpl; now apply inv_check.
    - apply (inv_check_all (d :: map snd ents)). exact I.
    - (* OSet *)
      destruct I as (Hon & Tr & FM). destruct Tk as [Tk1 Tk2]. split; [|split; [|exact FM]].
      + intros o ob L. simpl in L. destruct (leqb_dec o o') as [->|N].
        * rewrite lookup_set_eq in L. injection L as <-. intros r S Lr Tr' Ar. simpl in *.
          destruct Tk1 as [F|(ob0 & L0 & B0 & T0)].
          -- exfalso. now apply (F r).
          -- subst b t. apply (Hon o' ob0 L0 r); auto.
        * rewrite lookup_set_neq in L by auto. intros r S Lr Tr' Ar. simpl in *. now apply (Hon o ob L r).
      + intros o ob L C M. simpl in *. destruct (leqb_dec o o') as [->|N].
        * rewrite lookup_set_eq in L. injection L as <-. simpl in *. now apply Tk2.
        * rewrite lookup_set_neq in L by auto. now apply (Tr o ob L).
    - (* ODel *)
      destruct I as (Hon & Tr & FM). split; [|split; [|exact FM]].
      + intros o ob L. simpl in L. destruct (leqb_dec o o') as [->|N].
        * rewrite lookup_remove_eq in L. discriminate.
        * rewrite lookup_remove_neq in L by auto. intros r S Lr Tr' Ar. simpl in *. now apply (Hon o ob L r).
      + intros o ob L C M. simpl in *. destruct (leqb_dec o o') as [->|N].
        * rewrite lookup_remove_eq in L. discriminate.
        * rewrite lookup_remove_neq in L by auto. now apply (Tr o ob L).
    - (* OHash *)
      destruct I as (Hon & Tr & FM).
      destruct (lookup o' (w_objs w)) as [ob'|] eqn:L'; simpl; [|repeat split; auto].
      split; [|split; [|exact FM]].
      + intros o ob L. simpl in L. intros r S Lr Tr' Ar. simpl in *. destruct (leqb_dec o o') as [->|N].
        * rewrite L' in L. injection L as <-. apply (hash_file_db_honest H w o' ob' r (Hon o' ob' L')); auto.
        * rewrite hash_file_db_frame in Lr by auto. now apply (Hon o ob L r).
      + intros o. now apply (trusted_same_objs w).
    - (* OSaveRow *)
      destruct I as (Hon & Tr & FM).
      destruct (w_state w) eqn:S0; simpl; [|repeat split; auto].
      destruct (lookup o' (w_objs w)) as [ob'|] eqn:L'; simpl; [|repeat split; auto].
      split; [|split; [|exact FM]].
      + intros o ob L. simpl in L. intros r S Lr Tr' Ar. simpl in *. unfold st_save in Lr. rewrite S0 in Lr.
        destruct (leqb_dec o o') as [->|N].
        * rewrite lookup_set_eq in Lr. injection Lr as <-. simpl in *. rewrite L' in L. injection L as <-.
          subst alg. now apply Tk.
        * rewrite lookup_set_neq in Lr by auto. now apply (Hon o ob L r).
      + intros o. now apply (trusted_same_objs w).
    - (* ODropState *)
      destruct I as (Hon & Tr & FM). split; [|split; [|exact FM]].
      + intros o ob L r S Lr. simpl in Lr. discriminate.
      + intros o. now apply (trusted_same_objs w).
    - now apply inv_check_seq.
    - now apply xfer_inv.
    - change (fst (step H w (OCheckNoHash o'))) with (snd (check_nohash w o')).
      now rewrite check_nohash_world.
  Qed.

  Theorem history_inv w h : Inv w -> ticks w h -> Inv (exec H w h).
  Proof.
    revert w. induction h as [|p h IH]; intros w I Tk; simpl; auto.
    destruct Tk as [T1 T2]. apply IH; auto. now apply step_inv.
  Qed.

  (* the empty store with an empty state database satisfies the invariant *)
  Lemma empty_inv c a s v m : (c = Local -> S_IMODE m <> PROTECTED) -> Inv (W c a s v m [] []).
  Proof.
    intros FM. split; [|split; [|exact FM]].
    - intros o ob L. discriminate.
    - intros o ob L. discriminate.
  Qed.

  (* consequences at any point of a history: the hypotheses of the one-step theorems *)
  Corollary history_tampered w h o ob : Inv w -> ticks w h ->
    lookup o (w_objs (exec H w h)) = Some ob -> ~ named_ok (w_alg (exec H w h)) o ob ->
    S_IMODE (o_mode ob) <> PROTECTED -> Tampered H (exec H w h) o ob.
  Proof.
    intros I Tk L Hn M. destruct (history_inv w h I Tk) as (Hon & _ & _).
    split; auto. split; auto. split; auto. now apply Hon.
  Qed.

  Corollary history_intact w h o ob : Inv w -> ticks w h ->
    lookup o (w_objs (exec H w h)) = Some ob -> named_ok (w_alg (exec H w h)) o ob ->
    Intact H (exec H w h) o ob.
  Proof.
    intros I Tk L Hn. destruct (history_inv w h I Tk) as (Hon & _ & _).
    split; auto. split; auto. now apply Hon.
  Qed.
End WithDigest.

(* non-vacuity: from the empty Local store: add two objects without verification (honest sources),
   re-hash one, tamper with it (token changed), add it again with verification from a corrupt
   source together with a third object, check it: the side conditions hold at every step *)
Definition hx := tableH [([1; 2], [98]); ([3], [97]); ([5], [99])].
Definition w0 : world := W Local md5_name true false 420 [] [].
Definition hist_ex : list op :=
  [OAdd None [([97], [3], T 7 10 1); ([99], [5], T 8 10 1)];
   OHash [97];
   OSet [97] [1; 2] 420 (T 7 20 2);
   OAdd (Some true) [([97], [1; 2], T 9 30 2); ([98], [1; 2], T 10 30 2)];
   OCheck [97]; OExist [[97]; [98]; [99]]].

Example ticks_example : ticks hx w0 hist_ex.
Proof.
  simpl. split.
  { split. repeat constructor; simpl; intuition discriminate.
    split.
    - intros o b t [E|[E|[]]]; injection E as <- <- <-; split; intros ? L; discriminate.
    - intros _ o b t [E|[E|[]]]; injection E as <- <- <-; split; try reflexivity; intros ? L; discriminate. }
  split; [exact I|].
  split.
  { split. left. intros r L. vm_compute in L. injection L as <-. discriminate. intros _ M. discriminate. }
  split.
  { split. repeat constructor; simpl; intuition discriminate.
    split.
    - intros o b t [E|[E|[]]]; injection E as <- <- <-; split; intros ? L; vm_compute in L;
        try discriminate; injection L as <-; discriminate.
    - intros V. discriminate. }
  repeat split.
Qed.

Example hist_ex_result :
  map fst (w_objs (exec hx w0 hist_ex)) = [[99]; [98]] /\
  fst (run hx w0 hist_ex) =
    [OAdded 2 []; OHashed (Some [97]); ONone; OAdded 2 [[97]]; ORes 2; OExists [[98]; [99]]].
Proof. vm_compute. auto. Qed.
