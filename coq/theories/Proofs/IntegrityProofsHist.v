(* C07, fourth part: honesty of the state rows is an invariant of every history of environment
   steps and queries without add. *)
From Coq Require Import NArith List Bool Lia.
From DvcData Require Import Base.Val Gen.Check Model.Integrity Proofs.IntegrityProofs Proofs.IntegrityProofsFold Proofs.IntegrityProofsAdd.
Import ListNotations.
Open Scope N_scope.

Section WithDigest.
  Variable H : name -> bytes -> oid.

  Notation hash_file := (hash_file H).
  Notation check := (check H).
  Notation honest_for := (honest_for H).
  Notation honest := (honest H).

  (* side conditions of the environment steps: a tamper / plant / touch changes the token with
     respect to the state row of that id (or leaves bytes and token as they are: chmod); a foreign
     state row for the store's algorithm is truthful; add is not part of these histories *)
  Definition tick_ok (w : world) (p : op) : Prop :=
    match p with
    | OAdd _ _ => False
    | OSet o b m t =>
        row_fresh w o t \/ (exists ob, lookup o (w_objs w) = Some ob /\ o_bytes ob = b /\ o_tok ob = t)
    | OSaveRow o alg v =>
        alg = w_alg w -> forall ob, lookup o (w_objs w) = Some ob ->
        split_dot0 v = split_dot0 (H alg (o_bytes ob))
    | _ => True
    end.

  Fixpoint ticks (w : world) (h : list op) : Prop :=
    match h with
    | [] => True
    | p :: h' => tick_ok w p /\ ticks (fst (step H w p)) h'
    end.

  Lemma honest_ext w1 w2 o : cfg w1 = cfg w2 -> sl w1 o = sl w2 o -> honest w1 o -> honest w2 o.
  Proof.
    intros C S Hon ob L. pose proof (sl_fields _ _ _ S) as [SO SD]. rewrite <- SO in L.
    apply (honest_for_ext H w1 w2); auto.
  Qed.

  Lemma honest_check w o o' : honest w o -> honest (snd (check w o')) o.
  Proof.
    intros Hon. destruct (leqb_dec o' o) as [->|N].
    - destruct (check_cases H w o) as [[_ E]|(ob & L & [E|E])]; rewrite E; auto.
      destruct (base_check_cases H w o ob) as [E'|E']; rewrite E'; simpl.
      + intros ob' L'.
        destruct (protect_lookup_same (with_db w (snd (hash_file w o ob))) o ob L) as (ob2 & L2 & B & T & _).
        rewrite L2 in L'. injection L' as <-.
        intros r S Lr Tr Ar. rewrite protect_db in Lr. rewrite protect_alg in *. rewrite protect_state in S.
        simpl in *. rewrite B. apply (hash_file_db_honest H w o ob r); auto. congruence.
      + intros ob' L'. simpl in L'. rewrite lookup_remove_eq in L'. discriminate.
    - apply (honest_ext w); auto. symmetry; apply check_cfg. symmetry; apply check_frame; auto.
  Qed.

  Lemma honest_exist_fold os : forall acc w, (forall o, honest w o) ->
    forall o, honest (snd (fold_left (exist_step H) os (acc, w))) o.
  Proof.
    induction os as [|o' os IH]; intros acc w Hon; simpl; auto.
    apply IH. unfold exist_step. simpl. intros o. now apply honest_check.
  Qed.

  Lemma step_honest w p : (forall o, honest w o) -> tick_ok w p -> forall o, honest (fst (step H w p)) o.
  Proof.
    intros Hon Tk o. destruct p as [v items|o'|os|o'|o' b m t|o'|o'|o' alg v|]; simpl in *.
    - contradiction.
    - now apply honest_check.
    - unfold oids_exist. destruct (w_cls w); simpl; auto. now apply honest_exist_fold.
    - unfold checkout. destruct (lookup o' (w_objs (snd (check w o')))); simpl; now apply honest_check.
    - (* OSet *)
      intros ob L. simpl in L. destruct (leqb_dec o o') as [->|N].
      + rewrite lookup_set_eq in L. injection L as <-. intros r S Lr Tr Ar. simpl in *.
        destruct Tk as [F|(ob0 & L0 & B0 & T0)].
        * exfalso. now apply (F r).
        * subst b t. apply (Hon o' ob0 L0 r); auto.
      + rewrite lookup_set_neq in L by auto. intros r S Lr Tr Ar. simpl in *. now apply (Hon o ob L r).
    - (* ODel *)
      intros ob L. simpl in L. destruct (leqb_dec o o') as [->|N].
      + rewrite lookup_remove_eq in L. discriminate.
      + rewrite lookup_remove_neq in L by auto. intros r S Lr Tr Ar. simpl in *. now apply (Hon o ob L r).
    - (* OHash *)
      destruct (lookup o' (w_objs w)) as [ob'|] eqn:L'; simpl; auto.
      intros ob L. simpl in L. intros r S Lr Tr Ar. simpl in *. destruct (leqb_dec o o') as [->|N].
      + rewrite L' in L. injection L as <-. apply (hash_file_db_honest H w o' ob' r (Hon o' ob' L')); auto.
      + rewrite hash_file_db_frame in Lr by auto. now apply (Hon o ob L r).
    - (* OSaveRow *)
      destruct (w_state w) eqn:S0; simpl; auto.
      destruct (lookup o' (w_objs w)) as [ob'|] eqn:L'; simpl; auto.
      intros ob L. simpl in L. intros r S Lr Tr Ar. simpl in *. unfold st_save in Lr. rewrite S0 in Lr.
      destruct (leqb_dec o o') as [->|N].
      + rewrite lookup_set_eq in Lr. injection Lr as <-. simpl in *. rewrite L' in L. injection L as <-.
        subst alg. now apply Tk.
      + rewrite lookup_set_neq in Lr by auto. now apply (Hon o ob L r).
    - (* ODropState *)
      intros ob L r S Lr. simpl in Lr. discriminate.
  Qed.

  Theorem history_honest w h : (forall o, honest w o) -> ticks w h -> forall o, honest (exec H w h) o.
  Proof.
    revert w. induction h as [|p h IH]; intros w Hon Tk; simpl; auto.
    destruct Tk as [T1 T2]. apply IH; auto. now apply step_honest.
  Qed.

  (* the empty store with an empty state database is honest: histories may start there, and a store
     filled by planting (OSet) objects under fresh tokens stays honest *)
  Lemma empty_honest c a s v m o : honest (W c a s v m [] []) o.
  Proof. intros ob L. discriminate. Qed.
End WithDigest.

(* non-vacuity: a history that plants an object, re-hashes it, tampers with it (token changed) and
   then checks it satisfies the side conditions *)
Example ticks_example :
  let H := tableH [([1; 2], [98]); ([3], [97])] in
  let h := [OSet [97] [3] 420 (T 7 10 1); OHash [97]; OSet [97] [1; 2] 420 (T 7 20 2); OCheck [97]] in
  ticks H (W Local md5_name true false 420 [] []) h /\
  w_objs (exec H (W Local md5_name true false 420 [] []) h) = [].
Proof.
  simpl. repeat split; auto.
  - left. intros r L. discriminate.
  - left. intros r L. vm_compute in L. injection L as <-. discriminate.
Qed.
