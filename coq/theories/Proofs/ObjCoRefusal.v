(* C05_refusal: a PromptError leaves the refused path exactly as it was before the call. *)
From Coq Require Import NArith List Bool Lia.
From DvcData Require Import Base.Val Base.PyBase Gen.PyTypes Gen.ODiff Gen.Relink Model.ObjCheckout Proofs.ObjCheckoutProofs Proofs.ObjCoBase.
Import ListNotations.
Open Scope N_scope.

Theorem checkout_refusal H g c w0 tgt order p : NoDup order ->
  r_out (checkout H g c w0 tgt order) = OPrompt p ->
  kassoc p (r_ws (checkout H g c w0 tgt order)) = kassoc p w0.
Proof.
  intros Hn. rewrite checkout_unfold.
  destruct (is_nil _ && is_nil _ && is_nil _)%bool; [discriminate|].
  destruct (is_nil (g_links g)); [discriminate|].
  destruct (run_del g (clsD H c w0 tgt order) w0) as [w1 [q|]] eqn:Ed.
  - simpl. intros E. injection E as ->.
    now destruct (run_del_prompt g _ (keys_D_NoDup H c w0 tgt order Hn) _ _ _ Ed).
  - destruct (run_files g c (clsF H g c w0 tgt order) (mk_fstate w1 [] [])) as [s [q|q|]] eqn:Ef; simpl.
    + intros E. injection E as ->.
      destruct (run_files_prompt g c _ (keys_F_NoDup H g c w0 tgt order Hn) _ _ _ Ef) as [Hin Hk].
      rewrite Hk. simpl. replace w1 with (fst (run_del g (clsD H c w0 tgt order) w0)) by now rewrite Ed.
      apply run_del_frame. intros HD. exact (keys_D_F_disjoint H g c w0 tgt order p HD Hin).
    + discriminate.
    + destruct (is_nil (s_failed s)); discriminate.
Qed.

(* a refusal is possible and leaves the file in place *)
Example refusal_example :
  let H := fun b : bytes => 1 :: b in
  let g := mk_cfg false false None [copy_name] [LCopy] false 9 in
  let c := [([1; 65], mk_cobj [65] 1 1 1)] in
  let user := mk_fnode [85] false None false 0 1 2 in
  let r := checkout H g c [([[97]], user)] [([[97]], [1; 65])] [[[97]]] in
  r_out r = OPrompt [[97]] /\ kassoc [[97]] (r_ws r) = Some user.
Proof. vm_compute. split; reflexivity. Qed.
