(* The generated _needs_relink over a fallback LIST of link types: when it answers "no", the file
   has one of the listed types (an independent copy also satisfies "reflink"). *)
From Coq Require Import NArith List Bool Lia.
From DvcData Require Import Base.Val Base.PyBase Gen.PyTypes Gen.ODiff Gen.Relink Model.ObjCheckout Proofs.ObjCheckoutProofs Proofs.ObjCheckoutProofs2.
Import ListNotations.
Open Scope N_scope.

Definition reflink_name : list N := [114;101;102;108;105;110;107].
Definition listed (t : lkind) (tys : list (list N)) : Prop :=
  In (lkind_name t) tys \/ (t = LCopy /\ In reflink_name tys).

Lemma listed_cons t ty tys : listed t tys -> listed t (ty :: tys).
Proof. intros [Hl|[E Hl]]; [left; now right|right; split; [exact E|now right]]. Qed.

Ltac break_E E :=
  repeat match type of E with
         | context [if ?b then _ else _] => destruct b eqn:?
         | context [match ?x with Some _ => _ | None => _ end] => destruct x eqn:?
         end.

Theorem needs_relink_sound_list tys path m cm o :
  needs_relink path (mk_cacheinfo tys (fun x => x)) m cm (Some o) = false ->
  exists t, listed t tys /\ has_kind t m cm o.
Proof.
  unfold needs_relink. cbv zeta. simpl c_cache_types. simpl c_oid_to_path.
  induction tys as [|ty tys IH]; [simpl; discriminate|].
  intros E. cbn [list_N_eqb] in E. simpl in E.
  timeout 60 (break_E E);
    try discriminate;
    try (destruct (IH E) as [t [Hl Hk]]; exists t; split; [now apply listed_cons|exact Hk]);
    repeat match goal with
           | Hq : (_ || _)%bool = true |- _ => apply orb_true_iff in Hq; destruct Hq
           | Hq : (_ || _)%bool = false |- _ => apply orb_false_iff in Hq; destruct Hq
           | Hq : list_N_eqb ty _ = true |- _ => apply list_N_eqb_spec in Hq; subst ty
           end;
    try discriminate.
  all: clear IH.
  all: repeat match goal with
              | Hq : context [if ?b then _ else _] |- _ => destruct b eqn:?; simpl in Hq; try discriminate
              end.
  all: try (exists LCopy; split; [first [left; left; reflexivity | right; split; [reflexivity|left; reflexivity]]|];
            unfold has_kind; split; congruence).
  all: try (exists LHard; split; [left; left; reflexivity|]; unfold has_kind;
            match goal with Hn : negb _ = false |- _ => apply negb_false_iff in Hn; apply opt_N_eqb_spec in Hn end;
            repeat split; try congruence; eauto).
  all: try (exists LSym; split; [left; left; reflexivity|]; unfold has_kind;
            match goal with Hn : negb _ = false |- _ => apply negb_false_iff in Hn; apply opt_list_eqb_spec in Hn end;
            split; congruence).
  exists LSym. split; [left; left; reflexivity|]. unfold has_kind.
  apply negb_false_iff in E. simpl in E. apply list_N_eqb_spec in E. subst l. split; assumption.
Qed.
