(* Proofs about Model/ObjCheckout.v for C05 (and the shared lemmas of C10). *)
From Coq Require Import NArith List Bool Lia.
From DvcData Require Import Base.Val Base.PyBase Gen.PyTypes Gen.ODiff Gen.Relink Model.ObjCheckout Proofs.ObjCoTie.
Import ListNotations.
Open Scope N_scope.

(* ------------------------------------------------------------------ keys *)
Lemma list_eqb_spec {A} (eqb : A -> A -> bool) :
  (forall x y, eqb x y = true <-> x = y) -> forall a b, list_eqb eqb a b = true <-> a = b.
Proof.
  intros He a. induction a as [|x a IH]; intros [|y b]; simpl; split; intros E;
    try reflexivity; try discriminate.
  - apply andb_true_iff in E as [E1 E2]. apply He in E1. apply IH in E2. congruence.
  - injection E as -> ->. apply andb_true_iff. split; [now apply He | now apply IH].
Qed.
Lemma key_eqb_spec a b : key_eqb a b = true <-> a = b.
Proof. apply list_eqb_spec. apply list_N_eqb_spec. Qed.
Lemma key_eqb_refl a : key_eqb a a = true.
Proof. now apply key_eqb_spec. Qed.
Lemma key_eqb_sym a b : key_eqb a b = key_eqb b a.
Proof.
  destruct (key_eqb a b) eqn:E.
  - apply key_eqb_spec in E. subst. symmetry. apply key_eqb_refl.
  - destruct (key_eqb b a) eqn:E'; [|reflexivity]. apply key_eqb_spec in E'. subst.
    rewrite key_eqb_refl in E. discriminate.
Qed.
Lemma key_eqb_neq a b : a <> b -> key_eqb a b = false.
Proof. intros N. destruct (key_eqb a b) eqn:E; [|reflexivity]. apply key_eqb_spec in E. contradiction. Qed.

Lemma kassoc_remove k k' (w : ws) :
  kassoc k' (ws_remove k w) = if key_eqb k' k then None else kassoc k' w.
Proof.
  induction w as [|[q n] w IH]; simpl.
  - now destruct (key_eqb k' k).
  - destruct (key_eqb k q) eqn:E; simpl.
    + apply key_eqb_spec in E. subst q. rewrite IH. now destruct (key_eqb k' k).
    + rewrite IH. destruct (key_eqb k' q) eqn:E2; [|reflexivity].
      apply key_eqb_spec in E2. subst q. rewrite key_eqb_sym, E. reflexivity.
Qed.
Lemma kassoc_put k k' x (w : ws) :
  kassoc k' (ws_put k x w) = if key_eqb k' k then x else kassoc k' w.
Proof.
  destruct x as [n|]; simpl.
  - rewrite kassoc_remove. now destruct (key_eqb k' k).
  - apply kassoc_remove.
Qed.

(* ------------------------------------------------------------------ the translated Change.typ *)
Lemma Change_typ_spec ch :
  Change_typ ch =
    if truthy_oid (c_old ch) then
      if truthy_oid (c_new ch) then
        if negb (tentry_eqb (c_old ch) (c_new ch)) then ochange_MODIFY else ochange_UNCHANGED
      else ochange_DELETE
    else if truthy_oid (c_new ch) then ochange_ADD else ochange_UNCHANGED.
Proof.
  unfold Change_typ, truthy_oid.
  destruct (t_oid (c_old ch)) as [[a [v|] b]|]; destruct (t_oid (c_new ch)) as [[a' [v'|] b']|]; simpl;
    repeat match goal with |- context [truthy_list ?x] => destruct (truthy_list x) end; simpl;
    try reflexivity;
    destruct (tentry_eqb (c_old ch) (c_new ch)); reflexivity.
Qed.

Section WithH.
Variable H : bytes -> oid.
Hypothesis H_nonempty : forall b, is_nil (H b) = false.

Notation mk_change := (mk_change H).
Notation checkout := (checkout H).
Notation changes := (changes H).

Lemma ch_key_mk c w tgt k : ch_key (mk_change c w tgt k) = k.
Proof. reflexivity. Qed.

Definition from_w0 (c : cache) (w0 : ws) (tgt : list (key * oid)) (ch : ochange_args) : Prop :=
  ch = mk_change c w0 tgt (ch_key ch).

Lemma changes_from c w0 tgt order : Forall (from_w0 c w0 tgt) (changes c w0 tgt order).
Proof.
  unfold changes. apply Forall_forall. intros ch Hin. apply filter_In in Hin as [Hin _].
  apply in_map_iff in Hin as [k [<- _]]. unfold from_w0. now rewrite ch_key_mk.
Qed.
Lemma Forall_filter {A} (P : A -> Prop) f l : Forall P l -> Forall P (filter f l).
Proof. intros HF. apply Forall_forall. intros x Hx. apply filter_In in Hx as [Hx _]. revert x Hx. now apply Forall_forall. Qed.

Lemma truthy_old_mk c w tgt k :
  truthy_oid (c_old (mk_change c w tgt k)) = (stageable w && is_some (kassoc k w))%bool.
Proof.
  unfold truthy_oid, mk_change, old_entry. simpl.
  destruct (stageable w); simpl; [|reflexivity].
  destruct (kassoc k w); simpl; [|reflexivity].
  unfold truthy_list. now rewrite H_nonempty.
Qed.

Lemma in_cache_old c w tgt k n :
  TreeEntry_in_cache (c_old (mk_change c w tgt k)) = true -> kassoc k w = Some n ->
  exists co, oassoc (H (f_bytes n)) c = Some co.
Proof.
  unfold TreeEntry_in_cache, mk_change, old_entry. simpl. intros Hc Hk.
  destruct (stageable w); simpl in Hc; [|discriminate].
  rewrite Hk in Hc. simpl in Hc. unfold cache_check in Hc.
  destruct (is_nil (H (f_bytes n))); [discriminate|].
  destruct (oassoc (H (f_bytes n)) c) as [co|]; [eauto|discriminate].
Qed.

(* ------------------------------------------------------------------ C05: no unrecoverable loss *)
Definition justified (g : cfg) (c : cache) (k : key) (n : fnode) : Prop :=
  g_force g = true \/ (exists co, oassoc (H (f_bytes n)) c = Some co) \/
  (exists f, g_prompt g = Some f /\ f k = true).

Lemma guard_step_safe g k inc n' cur' :
  guard_step g k inc (Some n') = Some cur' ->
  g_force g = true \/ inc = true \/ (exists f, g_prompt g = Some f /\ f k = true).
Proof.
  unfold guard_step, ask. rewrite remove_guard_eq. unfold remove_guard_spec.
  destruct (g_force g) eqn:Ef; [intros _; now left|].
  destruct inc; [intros _; right; now left|].
  destruct (g_prompt g) as [f|] eqn:Ep; simpl; [|discriminate].
  destruct (f k) eqn:Efk; simpl; [|discriminate]. intros _. right. right. eauto.
Qed.

Lemma del_step_safe g c w0 tgt k n n' cur' :
  kassoc k w0 = Some n ->
  del_step g (mk_change c w0 tgt k) (Some n') = Some cur' -> justified g c k n.
Proof.
  intros Hk Hd. unfold del_step in Hd. rewrite ch_key_mk in Hd.
  apply guard_step_safe in Hd as [F|[F|F]]; unfold justified.
  - now left.
  - right. left. eapply in_cache_old; eauto.
  - now right; right.
Qed.

Definition payload (r : fres) : option (option fnode) :=
  match r with FPrompt => None | FFail x | FNotFound x | FOk x => Some x end.

Lemma post_info_payload r : payload (post_info r) = payload r.
Proof. destruct r as [|x|x|[n|]]; simpl; try reflexivity. now destruct (f_broken n). Qed.

Lemma file_step_safe g c w0 tgt k n n' x :
  kassoc k w0 = Some n ->
  payload (file_step g c (mk_change c w0 tgt k) (Some n')) = Some x ->
  x = Some n' \/ justified g c k n.
Proof.
  intros Hk. unfold file_step.
  destruct (new_oid (mk_change c w0 tgt k)) as [o|]; [|simpl; intros E; injection E as <-; now left].
  rewrite cf_gen_eq. rewrite post_info_payload.
  destruct (cf_decide _ _ _ _ _).
  - rewrite ch_key_mk.
    destruct (guard_step g k false (Some n')) as [cur1|] eqn:Ed; [|discriminate].
    intros _. right. apply guard_step_safe in Ed as [F|[F|F]]; unfold justified;
      [now left | discriminate | now right; right].
  - simpl. intros E; injection E as <-; now left.
  - destruct (del_step g (mk_change c w0 tgt k) (Some n')) as [cur1|] eqn:Ed; [|discriminate].
    intros _. right. eapply del_step_safe; eauto.
Qed.

Definition Inv g c (w0 w : ws) : Prop :=
  forall k n, kassoc k w0 = Some n -> kassoc k w = Some n \/ justified g c k n.

Lemma Inv_put g c w0 w k x :
  Inv g c w0 w ->
  (forall n, kassoc k w0 = Some n -> kassoc k w = Some n -> x = Some n \/ justified g c k n) ->
  Inv g c w0 (ws_put k x w).
Proof.
  intros HI Hx q n Hq. rewrite kassoc_put. destruct (key_eqb q k) eqn:E.
  - apply key_eqb_spec in E. subst q. destruct (HI k n Hq) as [Hc|Hj]; [|now right].
    destruct (Hx n Hq Hc) as [->|Hj]; [now left|now right].
  - apply HI, Hq.
Qed.

Lemma run_del_Inv g c w0 tgt chs : Forall (from_w0 c w0 tgt) chs ->
  forall w, Inv g c w0 w -> Inv g c w0 (fst (run_del g chs w)).
Proof.
  induction 1 as [|ch chs Hch _ IH]; intros w HI; simpl; [exact HI|].
  destruct (del_step g ch (kassoc (ch_key ch) w)) as [cur'|] eqn:Ed; [|exact HI].
  apply IH. apply Inv_put; [exact HI|]. intros n Hk Hc. rewrite Hc in Ed.
  unfold from_w0 in Hch. remember (ch_key ch) as k eqn:Ek. rewrite Hch in Ed.
  right. exact (del_step_safe g c w0 tgt k n n cur' Hk Ed).
Qed.

Lemma run_files_Inv g c w0 tgt chs : Forall (from_w0 c w0 tgt) chs ->
  forall s, Inv g c w0 (s_ws s) -> Inv g c w0 (s_ws (fst (run_files g c chs s))).
Proof.
  induction 1 as [|ch chs Hch _ IH]; intros s HI; simpl; [exact HI|].
  destruct (new_isdir ch); [now apply IH|].
  assert (Hstep : forall x, payload (file_step g c ch (kassoc (ch_key ch) (s_ws s))) = Some x ->
                            Inv g c w0 (ws_put (ch_key ch) x (s_ws s))).
  { intros x Hp. apply Inv_put; [exact HI|]. intros n Hk Hc. rewrite Hc in Hp.
    unfold from_w0 in Hch. remember (ch_key ch) as k eqn:Ek. rewrite Hch in Hp.
    exact (file_step_safe g c w0 tgt k n n x Hk Hp). }
  destruct (file_step g c ch (kassoc (ch_key ch) (s_ws s))) as [|x|x|x] eqn:Ef; simpl.
  - exact HI.
  - apply IH. simpl. now apply Hstep.
  - now apply Hstep.
  - apply IH. simpl. now apply Hstep.
Qed.

Theorem checkout_no_loss g c w0 tgt order k n :
  kassoc k w0 = Some n ->
  kassoc k (r_ws (checkout g c w0 tgt order)) = Some n \/ justified g c k n.
Proof.
  intros Hk. revert k n Hk. change (Inv g c w0 (r_ws (checkout g c w0 tgt order))).
  assert (H0 : Inv g c w0 w0) by (intros q m Hq; now left).
  pose proof (changes_from c w0 tgt order) as HF.
  unfold ObjCheckout.checkout.
  set (chs := changes c w0 tgt order) in *.
  destruct (is_nil _ && is_nil _ && is_nil _)%bool; [exact H0|].
  destruct (is_nil (g_links g)); [exact H0|].
  pose proof (run_del_Inv g c w0 tgt (filter (typ_is ochange_DELETE) chs) (Forall_filter _ _ _ HF) w0 H0) as H1.
  destruct (run_del g (filter (typ_is ochange_DELETE) chs) w0) as [w1 [p|]]; simpl in H1; [exact H1|].
  match goal with |- context [run_files g c ?l ?s] =>
    pose proof (run_files_Inv g c w0 tgt l) as H2; specialize (H2 ltac:(apply Forall_app; split;
      [apply Forall_filter, HF | apply Forall_app; split; [apply Forall_filter, HF | apply Forall_filter, Forall_filter, HF]])
      s H1) end.
  destruct (run_files g c _ _) as [s [p|p|]]; exact H2.
Qed.

End WithH.
