(* Link kinds after a relinking checkout: single configured type, exactly. *)
From Coq Require Import NArith List Bool Lia.
From DvcData Require Import Base.Val Base.PyBase Gen.PyTypes Gen.ODiff Gen.Relink Model.ObjCheckout Proofs.ObjCheckoutProofs Proofs.ObjCheckoutProofs2 Proofs.ObjCoBase Proofs.ObjCoRelinkList Proofs.ObjCoForced.
Import ListNotations.
Open Scope N_scope.

(* the file has link type t with respect to its cache object - with the documented exception that
   a "hard link" of an empty object is an independent empty file *)
Definition node_kind (t : lkind) (n : fnode) (co : cobj) (o : oid) : Prop :=
  has_kind t (meta_of n) (Some (cmeta_of co)) o \/
  (t = LHard /\ c_bytes co = [] /\ has_kind LCopy (meta_of n) (Some (cmeta_of co)) o).

Lemma link_node_kind t o co now : node_kind t (link_node t o co now) co o.
Proof.
  unfold node_kind. destruct t; simpl.
  - left. split; reflexivity.
  - destruct (is_nil (c_bytes co)) eqn:E; simpl.
    + right. split; [reflexivity|]. split; [now apply is_nil_eq|]. split; reflexivity.
    + left. split; [reflexivity|]. split; [apply N.ltb_lt; lia|]. exists (cmeta_of co). split; reflexivity.
  - left. split; reflexivity.
Qed.

Lemma lkind_name_inj a b : lkind_name a = lkind_name b -> a = b.
Proof. destruct a, b; simpl; intros E; try reflexivity; discriminate. Qed.
Lemma listed_single t' t : listed t' [lkind_name t] -> t' = t.
Proof.
  intros [[E|[]]|[_ [E|[]]]].
  - symmetry. now apply lkind_name_inj.
  - destruct t; discriminate.
Qed.
Lemma cache_is_copy_single g t : g_types g = [lkind_name t] -> cache_is_copy g = true -> t = LCopy.
Proof. unfold cache_is_copy. intros ->. destruct t; simpl; intros E; try reflexivity; discriminate. Qed.

Section Single.
Variable H : bytes -> oid.
Variables (g : cfg) (c : cache) (w0 : ws) (tgt : list (key * oid)) (order : list key).
Hypothesis Hne : forall b, is_nil (H b) = false.
Hypothesis Hst : stageable w0 = true.
Hypothesis Htgt : forall k o, kassoc k tgt = Some o ->
  is_nil o = false /\ HashInfo_isdir (hi o) = false /\ exists co, oassoc o c = Some co.
Hypothesis Hforce : g_force g = true.
Variable t : lkind.
Hypothesis Hlinks : g_links g = [t].
Hypothesis Htypes : g_types g = [lkind_name t].
Hypothesis Hcover : forall k, (is_some (kassoc k w0) || is_some (kassoc k tgt))%bool = true -> In k order.
Hypothesis Hrelink : g_relink g = true.

Theorem forced_relink_single k n' : final H g c w0 tgt order k = Some n' ->
  exists o co, kassoc k tgt = Some o /\ oassoc o c = Some co /\ node_kind t n' co o.
Proof.
  intros Ef.
  destruct (forced_relink H g c w0 tgt order Hne Hst Htgt Hforce t [] Hlinks Hcover k n' Hrelink Ef)
    as [o [co [Et [Eo Hk]]]].
  exists o, co. split; [exact Et|]. split; [exact Eo|].
  destruct Hk as [->|[[Hc Hk]|[t' [Hl Hk]]]].
  - apply link_node_kind.
  - left. now rewrite (cache_is_copy_single g t Htypes Hc).
  - left. rewrite Htypes in Hl. now rewrite <- (listed_single t' t Hl).
Qed.
End Single.
