(* C03, part 1: the listing bytes (hence the identifier) of a tree are a function of the multiset
   of observable pairs  (key, emitted hash)  of its entries - nothing else.

     obs e = (e_key e, hash_emit (e_hash e))

   [as_list_obs]     as_list false t = map obs_dict (sort (map obs t))
   [as_bytes_obs]    relpaths distinct -> Permutation (map obs t) (map obs t') -> same bytes
   corollaries: insertion order (C03_perm), metadata (C03_meta_blind), sub-directory (C03_subtree).
   Nothing here looks inside the JSON printer or MD5: both are applied to equal arguments. *)
From Coq Require Import NArith List Bool Lia Permutation Sorting.Sorted.
From DvcData Require Import Base.Val Base.MD5 Base.Json Model.Listing Proofs.ListingSort.
Import ListNotations.
Open Scope N_scope.

(* ------------------------------------------------------------------ keys, paths *)
Lemma key_eqb_spec a : forall b, key_eqb a b = true <-> a = b.
Proof.
  induction a as [|x a IH]; intros [|y b]; cbn [key_eqb]; split; intros H;
    try reflexivity; try discriminate.
  - apply andb_true_iff in H as [H1 H2]. apply list_N_eqb_spec in H1. apply IH in H2. congruence.
  - injection H as -> ->. apply andb_true_iff. split; [now apply list_N_eqb_spec | now apply IH].
Qed.

Lemma key_eqb_refl a : key_eqb a a = true.
Proof. now apply key_eqb_spec. Qed.

Lemma key_eqb_neq a b : a <> b -> key_eqb a b = false.
Proof. intros H. destruct (key_eqb a b) eqn:E; [|reflexivity]. apply key_eqb_spec in E. contradiction. Qed.

Lemma list_N_eqb_refl a : list_N_eqb a a = true.
Proof. now apply list_N_eqb_spec. Qed.

Lemma list_N_eqb_neq a b : a <> b -> list_N_eqb a b = false.
Proof. intros H. destruct (list_N_eqb a b) eqn:E; [|reflexivity]. apply list_N_eqb_spec in E. contradiction. Qed.

(* a name part free of the separator *)
Definition sep_free (p : list N) : bool := forallb (fun c => negb (c =? slash)) p.
(* a key as the code produces them: at least one part, no part contains the separator *)
Definition key_ok (k : key) : bool := negb (is_nil k) && forallb sep_free k.

Lemma split_sep_free sep p : forallb (fun c => negb (c =? sep)) p = true -> split_sep sep p = [p].
Proof.
  induction p as [|c p IH]; cbn [forallb split_sep]; intros H; [reflexivity|].
  apply andb_true_iff in H as [Hc Hp]. apply negb_true_iff in Hc. rewrite Hc, (IH Hp). reflexivity.
Qed.

Lemma split_sep_app sep p s : forallb (fun c => negb (c =? sep)) p = true ->
  split_sep sep (p ++ sep :: s) = p :: split_sep sep s.
Proof.
  induction p as [|c p IH]; cbn [forallb split_sep app]; intros H.
  - now rewrite N.eqb_refl.
  - apply andb_true_iff in H as [Hc Hp]. apply negb_true_iff in Hc. rewrite Hc, (IH Hp). reflexivity.
Qed.

(* relpath.split("/") undoes "/".join(parts) *)
Lemma split_join k : key_ok k = true -> key_of_relpath (relpath k) = k.
Proof.
  unfold key_ok, key_of_relpath, relpath. intros H. apply andb_true_iff in H as [Hn Hk].
  induction k as [|p r IH]; [discriminate|]. clear Hn.
  cbn [forallb] in Hk. apply andb_true_iff in Hk as [Hp Hr].
  destruct r as [|q r'].
  - cbn [join_sep]. now apply split_sep_free.
  - change (join_sep slash (p :: q :: r')) with (p ++ slash :: join_sep slash (q :: r')).
    rewrite split_sep_app by exact Hp. f_equal. now apply IH.
Qed.

Lemma relpath_inj k k' : key_ok k = true -> key_ok k' = true -> relpath k = relpath k' -> k = k'.
Proof. intros H H' E. rewrite <- (split_join k H), <- (split_join k' H'). now rewrite E. Qed.

(* ------------------------------------------------------------------ the observable pair *)
Definition obs (e : entry) : key * hash_info := (e_key e, hash_emit (e_hash e)).

(* the record printed for an observable pair *)
Definition obs_dict (o : key * hash_info) : jobj :=
  dict_set s_relpath (JStr (relpath (fst o)))
    (dict_update [] (match snd o with Some (n, v) => [(n, JStr v)] | None => [] end)).

Definition obs_leb (a b : key * hash_info) : bool := lex_leb (relpath (fst a)) (relpath (fst b)).

Lemma entry_dict_obs e : entry_dict false e = obs_dict (obs e).
Proof. reflexivity. Qed.

Lemma obs_leb_total a b : obs_leb a b = true \/ obs_leb b a = true.
Proof. apply lex_leb_total. Qed.
Lemma obs_leb_trans a b c : obs_leb a b = true -> obs_leb b c = true -> obs_leb a c = true.
Proof. apply lex_leb_trans. Qed.
Lemma entry_leb_total a b : entry_leb a b = true \/ entry_leb b a = true.
Proof. apply lex_leb_total. Qed.
Lemma entry_leb_trans a b c : entry_leb a b = true -> entry_leb b c = true -> entry_leb a c = true.
Proof. apply lex_leb_trans. Qed.

Lemma sort_entries_perm t : Permutation (sort_entries t) t.
Proof. apply sort_by_perm. Qed.

Lemma map_obs_sort t : map obs (sort_entries t) = sort_by obs_leb (map obs t).
Proof. unfold sort_entries. symmetry. apply sort_by_map. reflexivity. Qed.

Theorem as_list_obs t : as_list false t = map obs_dict (sort_by obs_leb (map obs t)).
Proof.
  unfold as_list. rewrite <- map_obs_sort, map_map. apply map_ext. intros e. apply entry_dict_obs.
Qed.

(* the relpaths of a tree are pairwise distinct *)
Definition NoDupRelpaths (t : tree) : Prop := NoDup (map (fun e => relpath (e_key e)) t).
(* the keys are pairwise distinct (a dict) *)
Definition NoDupKeys (t : tree) : Prop := NoDup (map e_key t).
Definition KeysOk (t : tree) : Prop := Forall (fun e => key_ok (e_key e) = true) t.

Lemma NoDupKeys_relpaths t : KeysOk t -> NoDupKeys t -> NoDupRelpaths t.
Proof.
  unfold KeysOk, NoDupKeys, NoDupRelpaths. induction t as [|e r IH]; intros Hk Hn; [constructor|].
  inversion Hk as [|? ? He Hr]; subst. cbn [map] in *. inversion Hn as [|? ? Hx Hn']; subst.
  constructor; [|now apply IH].
  intros Hin. apply in_map_iff in Hin as [e' [E Hin]]. apply Hx.
  rewrite Forall_forall in Hr. apply relpath_inj in E; [|now apply Hr|exact He].
  rewrite <- E. now apply in_map.
Qed.

(* master statement: equal observable multisets give equal bytes *)
Theorem as_bytes_obs t t' :
  NoDupRelpaths t -> Permutation (map obs t) (map obs t') -> as_bytes false t = as_bytes false t'.
Proof.
  intros Hn P. unfold as_bytes. rewrite !as_list_obs. do 2 f_equal.
  apply sort_by_perm_eq; [apply obs_leb_total | apply obs_leb_trans | | exact P].
  intros a b Ha Hb H1 H2.
  assert (E : relpath (fst a) = relpath (fst b)) by now apply lex_leb_antisym.
  assert (Hn' : NoDup (map (fun o : key * hash_info => relpath (fst o)) (map obs t))).
  { rewrite map_map. exact Hn. }
  exact (NoDup_map_inj _ _ Hn' a b Ha Hb E).
Qed.

(* with equal observable lists no hypothesis is needed *)
Theorem as_bytes_obs_eq t t' : map obs t = map obs t' -> as_bytes false t = as_bytes false t'.
Proof. intros E. unfold as_bytes. now rewrite !as_list_obs, E. Qed.

Lemma digest_bytes t t' : as_bytes false t = as_bytes false t' -> digest t = digest t'.
Proof. unfold digest. now intros ->. Qed.

(* ------------------------------------------------------------------ C03_perm *)
(* also for with_meta = true: the listing is sorted on relpath only *)
Theorem as_bytes_perm_relpath b t t' :
  NoDupRelpaths t -> Permutation t t' -> as_bytes b t = as_bytes b t'.
Proof.
  intros Hn P. unfold as_bytes, as_list. do 2 f_equal. unfold sort_entries.
  apply sort_by_perm_eq; [apply entry_leb_total | apply entry_leb_trans | | exact P].
  intros x y Hx Hy H1 H2.
  apply (NoDup_map_inj _ _ Hn x y Hx Hy). now apply lex_leb_antisym.
Qed.

Theorem as_bytes_perm b t t' :
  KeysOk t -> NoDupKeys t -> Permutation t t' -> as_bytes b t = as_bytes b t'.
Proof. intros Hk Hn. apply as_bytes_perm_relpath. now apply NoDupKeys_relpaths. Qed.

Theorem digest_perm t t' : KeysOk t -> NoDupKeys t -> Permutation t t' -> digest t = digest t'.
Proof. intros Hk Hn P. apply digest_bytes. now apply as_bytes_perm. Qed.

(* dict semantics: inserting entries with pairwise distinct keys keeps them all, in order *)
Lemma add_fresh e t : ~ In (e_key e) (map e_key t) -> add e t = t ++ [e].
Proof.
  induction t as [|x r IH]; cbn [add map app]; intros H; [reflexivity|].
  rewrite key_eqb_neq by (intros E; apply H; left; now symmetry).
  f_equal. apply IH. intros Hin. apply H. now right.
Qed.

Lemma fold_add_fresh es : forall t, NoDup (map e_key (t ++ es)) ->
  fold_left (fun t e => add e t) es t = t ++ es.
Proof.
  induction es as [|e r IH]; intros t Hn; cbn [fold_left]; [now rewrite app_nil_r|].
  assert (Hfresh : ~ In (e_key e) (map e_key t)).
  { rewrite map_app in Hn. cbn [map] in Hn. apply NoDup_remove_2 in Hn.
    intros Hin. apply Hn. apply in_or_app. now left. }
  rewrite add_fresh by exact Hfresh. rewrite IH; rewrite <- app_assoc; [reflexivity | exact Hn].
Qed.

Lemma tree_of_list_nodup es : NoDupKeys es -> tree_of_list es = es.
Proof. intros H. unfold tree_of_list. now rewrite fold_add_fresh. Qed.

(* the identifier does not depend on the order in which the entries are inserted *)
Theorem digest_insertion_order es es' :
  KeysOk es -> NoDupKeys es -> Permutation es es' ->
  digest (tree_of_list es) = digest (tree_of_list es').
Proof.
  intros Hk Hn P.
  assert (Hn' : NoDupKeys es') by (unfold NoDupKeys in *; now rewrite <- P).
  rewrite !tree_of_list_nodup by assumption. now apply digest_perm.
Qed.

(* ------------------------------------------------------------------ C03_meta_blind *)
Definition set_meta (f : entry -> option meta) (e : entry) : entry :=
  {| e_key := e_key e; e_meta := f e; e_hash := e_hash e |}.

Theorem digest_meta_blind f t : digest (map (set_meta f) t) = digest t.
Proof.
  apply digest_bytes, as_bytes_obs_eq. rewrite map_map. apply map_ext. reflexivity.
Qed.

(* pointwise: two trees with the same keys and hashes, entry by entry, whatever the Metas *)
Theorem digest_meta_blind_rel t t' :
  Forall2 (fun a b => e_key a = e_key b /\ e_hash a = e_hash b) t t' -> digest t = digest t'.
Proof.
  intros H. apply digest_bytes, as_bytes_obs_eq.
  induction H as [|a b l l' [Hk Hh] _ IH]; [reflexivity|].
  cbn [map]. unfold obs at 1 3. now rewrite Hk, Hh, IH.
Qed.

(* ------------------------------------------------------------------ C03_subtree *)
Definition prepend (p : key) (e : entry) : entry :=
  {| e_key := p ++ e_key e; e_meta := e_meta e; e_hash := e_hash e |}.

Lemma is_prefix_app p k : is_prefix p (p ++ k) = true.
Proof. induction p as [|x p IH]; cbn [is_prefix app]; [reflexivity|]. now rewrite list_N_eqb_refl. Qed.

Lemma is_prefix_self p : is_prefix p p = true.
Proof. rewrite <- (app_nil_r p) at 2. apply is_prefix_app. Qed.

Lemma skipn_app_length {A} (p k : list A) : skipn (length p) (p ++ k) = k.
Proof. induction p; cbn [length skipn app]; auto. Qed.

Lemma reroot_prepend p e : reroot (length p) (prepend p e) = e.
Proof. destruct e as [k m h]. unfold reroot, prepend. cbn. now rewrite skipn_app_length. Qed.

Lemma filter_all {A} (f : A -> bool) l : (forall x, In x l -> f x = true) -> filter f l = l.
Proof.
  induction l as [|x r IH]; intros H; cbn [filter]; [reflexivity|].
  rewrite (H x (or_introl eq_refl)). f_equal. apply IH. intros y Hy. apply H. now right.
Qed.

Lemma filter_none {A} (f : A -> bool) l : (forall x, In x l -> f x = false) -> filter f l = [].
Proof.
  induction l as [|x r IH]; intros H; cbn [filter]; [reflexivity|].
  rewrite (H x (or_introl eq_refl)). apply IH. intros y Hy. apply H. now right.
Qed.

(* the entries of t under p, re-rooted, in whatever order they are enumerated *)
Lemma under_perm p sub others t :
  (forall e, In e others -> is_prefix p (e_key e) = false) ->
  Permutation t (map (prepend p) sub ++ others) ->
  Permutation (map (reroot (length p)) (under p t)) sub.
Proof.
  intros Ho P. unfold under.
  rewrite (Permutation_filter _ _ _ P), filter_app.
  rewrite filter_all, filter_none, app_nil_r.
  - rewrite map_map. rewrite (map_ext _ (fun e => e)); [now rewrite map_id|].
    intros e. apply reroot_prepend.
  - exact Ho.
  - intros x Hx. apply in_map_iff in Hx as [e [<- _]]. apply is_prefix_app.
Qed.

Lemma lookup_none k t : ~ In k (map e_key t) -> lookup k t = None.
Proof.
  induction t as [|x r IH]; cbn [lookup map]; intros H; [reflexivity|].
  rewrite key_eqb_neq by (intros E; apply H; now left). apply IH. intros Hin. apply H. now right.
Qed.

Lemma NoDupKeys_perm t t' : Permutation t t' -> NoDupKeys t -> NoDupKeys t'.
Proof. unfold NoDupKeys. intros P. now rewrite P. Qed.

Lemma KeysOk_perm t t' : Permutation t t' -> KeysOk t -> KeysOk t'.
Proof. unfold KeysOk. intros P. now rewrite P. Qed.

(* for every enumeration order [l] of the entries below p (dict order in the model, trie order
   in pygtrie): the re-rooted tree has the identifier of the sub-directory built alone *)
Theorem subtree_digest_any_order p sub others t l :
  KeysOk sub -> NoDupKeys sub ->
  (forall e, In e others -> is_prefix p (e_key e) = false) ->
  Permutation t (map (prepend p) sub ++ others) ->
  Permutation l (under p t) ->
  digest (tree_of_list (map (reroot (length p)) l)) = digest sub.
Proof.
  intros Hk Hn Ho P Pl.
  assert (Ps : Permutation (map (reroot (length p)) l) sub).
  { rewrite Pl. now apply under_perm with others. }
  rewrite tree_of_list_nodup by (apply NoDupKeys_perm with sub; [now symmetry | exact Hn]).
  symmetry. now apply digest_perm.
Qed.

Theorem subtree_digest p sub others t :
  KeysOk sub -> NoDupKeys sub ->
  (forall e, In e others -> is_prefix p (e_key e) = false) ->
  Permutation t (map (prepend p) sub ++ others) ->
  digest (subtree p t) = digest sub.
Proof. intros. unfold subtree. now apply subtree_digest_any_order with others t. Qed.

(* Tree.get_obj(prefix) of a tree that contains the directory [sub] below [p] *)
Theorem get_obj_subtree p sub others t :
  KeysOk sub -> NoDupKeys sub -> sub <> [] ->
  (forall e, In e others -> is_prefix p (e_key e) = false) ->
  Permutation t (map (prepend p) sub ++ others) ->
  get_obj t p = Some (digest sub).
Proof.
  intros Hk Hn Hne Ho P. unfold get_obj.
  assert (Hl : lookup p t = None).
  { apply lookup_none. intros Hin. apply in_map_iff in Hin as [e [Ee Hin]].
    apply (Permutation_in _ P) in Hin. apply in_app_or in Hin as [Hin|Hin].
    - apply in_map_iff in Hin as [s [<- Hs]]. cbn [prepend e_key] in Ee.
      assert (e_key s = []) as Es.
      { apply (app_inv_head p). now rewrite app_nil_r. }
      unfold KeysOk in Hk. rewrite Forall_forall in Hk. specialize (Hk s Hs).
      rewrite Es in Hk. discriminate.
    - specialize (Ho e Hin). rewrite Ee, is_prefix_self in Ho. discriminate. }
  rewrite Hl.
  pose proof (under_perm p sub others t Ho P) as Pu.
  destruct (under p t) as [|u us] eqn:Eu.
  - cbn [map] in Pu. apply Permutation_nil in Pu. contradiction.
  - f_equal. now apply subtree_digest with others.
Qed.

(* ------------------------------------------------------------------ non-vacuity *)
Definition ex_h1 : list N := repeat 49 32.
Definition ex_h2 : list N := repeat 50 32.
Definition ex_sub : tree :=
  [ {| e_key := [[120]]; e_meta := None; e_hash := Some (s_md5, ex_h1) |};
    {| e_key := [[121]; [122; 34]]; e_meta := Some (mk_meta false (Some 3) None true); e_hash := Some (s_md5_dos2unix, ex_h2) |} ].
Definition ex_others : tree :=
  [ {| e_key := [[100; 50]; [120]]; e_meta := None; e_hash := Some (s_md5, ex_h2) |} ].
Definition ex_tree : tree :=
  [ {| e_key := [[100]; [121]; [122; 34]]; e_meta := Some (mk_meta false (Some 3) None true);
       e_hash := Some (s_md5_dos2unix, ex_h2) |};
    {| e_key := [[100; 50]; [120]]; e_meta := None; e_hash := Some (s_md5, ex_h2) |};
    {| e_key := [[100]; [120]]; e_meta := None; e_hash := Some (s_md5, ex_h1) |} ].

Example ex_sub_ok : KeysOk ex_sub /\ NoDupKeys ex_sub /\ ex_sub <> [].
Proof.
  split; [|split].
  - repeat constructor.
  - unfold NoDupKeys. cbn. repeat constructor; cbn; intuition discriminate.
  - discriminate.
Qed.

Example ex_others_ok : forall e, In e ex_others -> is_prefix [[100]] (e_key e) = false.
Proof. intros e [<-|[]]. reflexivity. Qed.

Example ex_tree_perm : Permutation ex_tree (map (prepend [[100]]) ex_sub ++ ex_others).
Proof.
  unfold ex_tree, ex_sub, ex_others, prepend. cbn [map app e_key e_meta e_hash].
  eapply perm_trans; [apply perm_skip, perm_swap|]. apply perm_swap.
Qed.

(* the theorem applies, and the value it predicts is the one the model computes *)
Example ex_get_obj : get_obj ex_tree [[100]] = Some (digest ex_sub).
Proof.
  apply get_obj_subtree with ex_others;
    [apply ex_sub_ok | apply ex_sub_ok | apply ex_sub_ok | apply ex_others_ok | apply ex_tree_perm].
Qed.

Example ex_perm_applies : digest (tree_of_list ex_tree) = digest (tree_of_list (rev ex_tree)).
Proof.
  apply digest_insertion_order.
  - repeat constructor.
  - unfold NoDupKeys. cbn. repeat constructor; cbn; intuition discriminate.
  - apply Permutation_rev.
Qed.

(* KeysOk is necessary for order independence: ("a/b",) and ("a","b") share the relpath "a/b";
   the sort is stable, so the insertion order shows in the bytes *)
Definition ex_slash : tree :=
  [ {| e_key := [[97; 47; 98]]; e_meta := None; e_hash := Some (s_md5, ex_h1) |};
    {| e_key := [[97]; [98]]; e_meta := None; e_hash := Some (s_md5, ex_h2) |} ].

Theorem as_bytes_perm_separator_refuted : exists t t',
  NoDupKeys t /\ Permutation t t' /\ as_bytes false t <> as_bytes false t'.
Proof.
  exists ex_slash, (rev ex_slash). split; [|split].
  - unfold NoDupKeys. cbn. repeat constructor; cbn; intuition discriminate.
  - apply Permutation_rev.
  - vm_compute. discriminate.
Qed.
