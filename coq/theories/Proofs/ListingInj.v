(* C03, part 3: injectivity and round trip of the listing serialisation.

   Through parse_print of Proofs/JsonProofs.v: from the bytes one recovers the sorted list of
   printed records, from each record (sorted by member name) the pair (relpath, emitted hash),
   from the relpath the key.

     as_bytes_inj      Wf t -> Wf t' -> as_bytes false t = as_bytes false t' ->
                       Permutation (map obs t) (map obs t')
     from_bytes_as_bytes  Wf t -> NoDupKeys t -> from_bytes None (as_bytes false t) = FlOk t'
                       with  map obs t' = the sorted observable pairs of t,  digest t' = digest t
     as_bytes_inj_surrogates_refuted   the scalar-value clause of Wf is necessary. *)
From Coq Require Import NArith List Bool Lia Permutation Sorting.Sorted.
From DvcData Require Import Base.Val Base.MD5 Base.Json Model.Listing.
From DvcData Require Import Proofs.ListingSort Proofs.ListingProofs Proofs.JsonProofs.
Import ListNotations.
Open Scope N_scope.

(* ------------------------------------------------------------------ well-formedness *)
Definition wf_key (k : key) : bool := key_ok k && forallb wf_string k.
Definition wf_emitted (h : hash_info) : bool :=
  match h with
  | Some (n, v) => wf_string n && wf_string v && negb (list_N_eqb n s_relpath)
  | None => true
  end.
Definition wf_obs (o : key * hash_info) : bool := wf_key (fst o) && wf_emitted (snd o).
(* an entry: key of >= 1 separator-free parts; names and hash texts are Unicode scalar values;
   the hash algorithm is not called "relpath" *)
Definition wf_entry (e : entry) : bool := wf_obs (obs e).
Definition Wf (t : tree) : Prop := Forall (fun e => wf_entry e = true) t.

Lemma Wf_KeysOk t : Wf t -> KeysOk t.
Proof.
  unfold Wf, KeysOk. apply Forall_impl. intros e H. unfold wf_entry, wf_obs, wf_key in H.
  cbn [obs fst] in H. apply andb_true_iff in H as [H _]. now apply andb_true_iff in H as [H _].
Qed.

(* ------------------------------------------------------------------ the printed record *)
Definition hdict_of (h : hash_info) : jobj := match h with Some (n, v) => [(n, JStr v)] | None => [] end.
Definition canon (o : key * hash_info) : jobj := sort_obj (obs_dict o).

Lemma canon_none k : canon (@pair key hash_info k None) = [(s_relpath, JStr (relpath k))].
Proof. reflexivity. Qed.

Lemma canon_some k n v : n <> s_relpath ->
  canon (@pair key hash_info k (Some (n, v))) =
  if lex_leb n s_relpath then [(n, JStr v); (s_relpath, JStr (relpath k))]
  else [(s_relpath, JStr (relpath k)); (n, JStr v)].
Proof.
  intros Hn. unfold canon, obs_dict. cbn [fst snd dict_update fold_left dict_set].
  rewrite (list_N_eqb_neq s_relpath n) by congruence.
  unfold sort_obj, sort_by. cbn [fold_right insert_by]. unfold member_leb at 1. cbn [fst]. reflexivity.
Qed.

Lemma wf_string_join k : forallb wf_string k = true -> wf_string (relpath k) = true.
Proof.
  unfold relpath. induction k as [|p r IH]; intros H; [reflexivity|].
  cbn [forallb] in H. apply andb_true_iff in H as [Hp Hr].
  destruct r as [|q r']; [exact Hp|].
  change (join_sep slash (p :: q :: r')) with (p ++ slash :: join_sep slash (q :: r')).
  unfold wf_string. rewrite forallb_app. apply andb_true_iff. split; [exact Hp|].
  cbn [forallb]. apply andb_true_iff. split; [reflexivity | now apply IH].
Qed.

Lemma wf_emitted_name n v : wf_emitted (Some (n, v)) = true ->
  wf_string n = true /\ wf_string v = true /\ n <> s_relpath.
Proof.
  cbn [wf_emitted]. intros H. apply andb_true_iff in H as [H H3]. apply andb_true_iff in H as [H1 H2].
  repeat split; try assumption. apply negb_true_iff in H3. intros ->. now rewrite list_N_eqb_refl in H3.
Qed.

Lemma wf_canon o : wf_obs o = true -> wf_obj (canon o) = true.
Proof.
  destruct o as [k h]. unfold wf_obs, wf_key. cbn [fst snd]. intros H.
  apply andb_true_iff in H as [Hk Hh]. apply andb_true_iff in Hk as [_ Hk].
  pose proof (wf_string_join k Hk) as Hr.
  destruct h as [[n v]|].
  - apply wf_emitted_name in Hh as (H1 & H2 & H3). rewrite (canon_some k n v H3).
    destruct (lex_leb n s_relpath); cbn [wf_obj forallb]; unfold wf_member; cbn [fst snd wf_val];
      rewrite H1, H2, Hr; reflexivity.
  - rewrite canon_none. cbn [wf_obj forallb]. unfold wf_member. cbn [fst snd wf_val]. now rewrite Hr.
Qed.

(* the record determines (relpath, emitted hash) *)
Lemma canon_inj o o' : wf_obs o = true -> wf_obs o' = true -> canon o = canon o' ->
  relpath (fst o) = relpath (fst o') /\ snd o = snd o'.
Proof.
  destruct o as [k h], o' as [k' h']. unfold wf_obs. cbn [fst snd]. intros H H' E.
  apply andb_true_iff in H as [_ Hh]. apply andb_true_iff in H' as [_ Hh'].
  destruct h as [[n v]|], h' as [[n' v']|].
  - apply wf_emitted_name in Hh as (_ & _ & Hn). apply wf_emitted_name in Hh' as (_ & _ & Hn').
    rewrite (canon_some k n v Hn), (canon_some k' n' v' Hn') in E.
    destruct (lex_leb n s_relpath), (lex_leb n' s_relpath); injection E; intros; subst;
      try (split; congruence); congruence.
  - apply wf_emitted_name in Hh as (_ & _ & Hn). rewrite (canon_some k n v Hn), canon_none in E.
    destruct (lex_leb n s_relpath); discriminate.
  - apply wf_emitted_name in Hh' as (_ & _ & Hn'). rewrite (canon_some k' n' v' Hn'), canon_none in E.
    destruct (lex_leb n' s_relpath); discriminate.
  - rewrite !canon_none in E. injection E as E. now split.
Qed.

Lemma map_canon_inj : forall S S',
  Forall (fun o => wf_obs o = true) S -> Forall (fun o => wf_obs o = true) S' ->
  map canon S = map canon S' -> S = S'.
Proof.
  induction S as [|o S IH]; intros [|o' S'] HS HS' E; try discriminate; [reflexivity|].
  inversion HS as [|? ? Ho HS1]; subst. inversion HS' as [|? ? Ho' HS1']; subst.
  cbn [map] in E. injection E as E1 E2.
  destruct (canon_inj o o' Ho Ho' E1) as [Er Eh].
  f_equal; [|now apply IH].
  destruct o as [k h], o' as [k' h']. cbn [fst snd] in *. subst h'. f_equal.
  unfold wf_obs, wf_key in Ho, Ho'. cbn [fst] in Ho, Ho'.
  apply andb_true_iff in Ho as [Ho _]. apply andb_true_iff in Ho as [Ho _].
  apply andb_true_iff in Ho' as [Ho' _]. apply andb_true_iff in Ho' as [Ho' _].
  now apply relpath_inj.
Qed.

(* ------------------------------------------------------------------ bytes as a printed document *)
Definition sorted_obs (t : tree) : list (key * hash_info) := sort_by obs_leb (map obs t).

Lemma sorted_obs_perm t : Permutation (sorted_obs t) (map obs t).
Proof. apply sort_by_perm. Qed.

Lemma as_bytes_print t : as_bytes false t = print_doc (map canon (sorted_obs t)).
Proof. unfold as_bytes, json_dumps. rewrite as_list_obs, map_map. reflexivity. Qed.

Lemma Wf_sorted_obs t : Wf t -> Forall (fun o => wf_obs o = true) (sorted_obs t).
Proof.
  intros H. eapply Permutation_Forall; [symmetry; apply sorted_obs_perm|].
  unfold Wf in H. rewrite Forall_map. exact H.
Qed.

Lemma wf_doc_canon S : Forall (fun o => wf_obs o = true) S -> wf_doc (map canon S) = true.
Proof.
  induction 1 as [|o S Ho _ IH]; [reflexivity|].
  cbn [map wf_doc forallb]. rewrite (wf_canon o Ho). exact IH.
Qed.

Lemma parse_as_bytes t : Wf t -> parse_doc (as_bytes false t) = Some (map canon (sorted_obs t)).
Proof. intros H. rewrite as_bytes_print. apply parse_print, wf_doc_canon, Wf_sorted_obs, H. Qed.

(* ------------------------------------------------------------------ C03_inj *)
Theorem sorted_obs_inj t t' : Wf t -> Wf t' -> as_bytes false t = as_bytes false t' ->
  sorted_obs t = sorted_obs t'.
Proof.
  intros H H' E.
  pose proof (parse_as_bytes t H) as P. pose proof (parse_as_bytes t' H') as P'.
  rewrite E, P' in P. injection P as P.
  symmetry. apply map_canon_inj; [now apply Wf_sorted_obs | now apply Wf_sorted_obs | exact P].
Qed.

Theorem as_bytes_inj t t' : Wf t -> Wf t' -> as_bytes false t = as_bytes false t' ->
  Permutation (map obs t) (map obs t').
Proof.
  intros H H' E. rewrite <- (sorted_obs_perm t), <- (sorted_obs_perm t').
  now rewrite (sorted_obs_inj t t' H H' E).
Qed.

(* the scalar-value clause is necessary *)
Definition ex_h : list N := repeat 49 32.
Definition ex_smile : tree := [ {| e_key := [[128512]]; e_meta := None; e_hash := Some (s_md5, ex_h) |} ].
Definition ex_pair : tree := [ {| e_key := [[55357; 56832]]; e_meta := None; e_hash := Some (s_md5, ex_h) |} ].

Theorem as_bytes_inj_surrogates_refuted :
  exists t t', KeysOk t /\ KeysOk t' /\ NoDupKeys t /\ NoDupKeys t' /\
    as_bytes false t = as_bytes false t' /\ ~ Permutation (map obs t) (map obs t').
Proof.
  exists ex_smile, ex_pair. split; [|split; [|split; [|split; [|split]]]].
  - repeat constructor.
  - repeat constructor.
  - unfold NoDupKeys. cbn. repeat constructor. intros [].
  - unfold NoDupKeys. cbn. repeat constructor. intros [].
  - vm_compute. reflexivity.
  - intros P. apply Permutation_length_1 in P. discriminate.
Qed.

(* ------------------------------------------------------------------ C03_roundtrip *)
Definition ent (o : key * hash_info) : entry :=
  {| e_key := fst o; e_meta := Some (meta_from_dict (hdict_of (snd o))); e_hash := snd o |}.

Lemma dict_ops_left n v r : n <> s_relpath ->
  dict_get s_relpath [(n, JStr v); (s_relpath, JStr r)] = Some (JStr r) /\
  dict_del s_relpath [(n, JStr v); (s_relpath, JStr r)] = [(n, JStr v)].
Proof.
  intros H. cbn [dict_get dict_del]. rewrite (list_N_eqb_neq s_relpath n) by congruence.
  rewrite list_N_eqb_refl. now split.
Qed.

Lemma dict_ops_right n v r :
  dict_get s_relpath [(s_relpath, JStr r); (n, JStr v)] = Some (JStr r) /\
  dict_del s_relpath [(s_relpath, JStr r); (n, JStr v)] = [(n, JStr v)].
Proof. cbn [dict_get dict_del]. rewrite list_N_eqb_refl. now split. Qed.

Lemma from_list_entry_canon o : wf_obs o = true -> from_list_entry None (canon o) = inl (ent o).
Proof.
  destruct o as [k h]. unfold wf_obs, wf_key. cbn [fst snd]. intros H.
  apply andb_true_iff in H as [Hk Hh]. apply andb_true_iff in Hk as [Hk _].
  pose proof (split_join k Hk) as Ek. unfold ent. cbn [fst snd].
  destruct h as [[n v]|].
  - apply wf_emitted_name in Hh as (_ & _ & Hn). rewrite (canon_some k n v Hn).
    unfold from_list_entry.
    destruct (lex_leb n s_relpath).
    + destruct (dict_ops_left n v (relpath k) Hn) as [-> ->]. now rewrite Ek.
    + destruct (dict_ops_right n v (relpath k)) as [-> ->]. now rewrite Ek.
  - rewrite canon_none. unfold from_list_entry. cbn [dict_get dict_del].
    rewrite list_N_eqb_refl. now rewrite Ek.
Qed.

Lemma from_list_go_canon S : forall acc, Forall (fun o => wf_obs o = true) S ->
  from_list_go None (map canon S) acc = FlOk (fold_left (fun t e => add e t) (map ent S) acc).
Proof.
  induction S as [|o S IH]; intros acc H; [reflexivity|].
  inversion H as [|? ? Ho HS]; subst. cbn [map from_list_go fold_left].
  rewrite (from_list_entry_canon o Ho). now apply IH.
Qed.

Lemma hash_emit_idem h : hash_emit (hash_emit h) = hash_emit h.
Proof.
  destruct h as [[n v]|]; [|reflexivity].
  destruct v as [|c v]; [reflexivity|]. cbn [hash_emit is_nil].
  destruct (list_N_eqb n s_md5_dos2unix) eqn:E1; [reflexivity|].
  destruct n as [|d n]; [reflexivity|]. cbn [is_nil hash_emit]. now rewrite E1.
Qed.

Lemma obs_ent_sorted t : map obs (map ent (sorted_obs t)) = sorted_obs t.
Proof.
  rewrite map_map. rewrite <- (map_id (sorted_obs t)) at 2. apply map_ext_in.
  intros o Ho. apply (Permutation_in _ (sorted_obs_perm t)) in Ho.
  apply in_map_iff in Ho as [e [<- _]]. unfold obs, ent. cbn [e_key e_hash fst snd].
  now rewrite hash_emit_idem.
Qed.

Theorem from_bytes_as_bytes t : Wf t -> NoDupKeys t ->
  exists t', from_bytes None (as_bytes false t) = FlOk t' /\
    map obs t' = sorted_obs t /\ Permutation (map obs t') (map obs t) /\
    as_bytes false t' = as_bytes false t /\ digest t' = digest t.
Proof.
  intros Hw Hn. exists (map ent (sorted_obs t)).
  assert (Ho : map obs (map ent (sorted_obs t)) = sorted_obs t) by apply obs_ent_sorted.
  assert (Hp : Permutation (map obs (map ent (sorted_obs t))) (map obs t)).
  { rewrite Ho. apply sorted_obs_perm. }
  assert (Hb : as_bytes false (map ent (sorted_obs t)) = as_bytes false t).
  { symmetry. apply as_bytes_obs; [|now symmetry].
    apply NoDupKeys_relpaths; [now apply Wf_KeysOk | exact Hn]. }
  repeat split; try assumption.
  - unfold from_bytes. rewrite (parse_as_bytes t Hw). unfold from_list.
    rewrite from_list_go_canon by now apply Wf_sorted_obs.
    f_equal. apply tree_of_list_nodup.
    unfold NoDupKeys. rewrite map_map. cbn [ent e_key].
    assert (E : map (fun x : key * hash_info => fst x) (sorted_obs t) = map fst (sorted_obs t)) by reflexivity.
    rewrite E. eapply Permutation_NoDup; [apply Permutation_map; symmetry; apply sorted_obs_perm|].
    rewrite map_map. exact Hn.
  - now apply digest_bytes.
Qed.

(* ------------------------------------------------------------------ non-vacuity *)
Definition ex_wf : tree :=
  [ {| e_key := [[100]; [121; 233]; [122; 34; 92]]; e_meta := Some (mk_meta false (Some 3) None true);
       e_hash := Some (s_md5_dos2unix, ex_h) |};
    {| e_key := [[128512]]; e_meta := None; e_hash := Some (s_md5, ex_h) |};
    {| e_key := [[97; 10]]; e_meta := None; e_hash := None |};
    {| e_key := [[100]; [120]]; e_meta := None; e_hash := Some (s_etag, [34; 101; 34]) |} ].

Example ex_wf_ok : Wf ex_wf /\ NoDupKeys ex_wf.
Proof.
  split.
  - repeat constructor.
  - unfold NoDupKeys. cbn. repeat constructor; cbn; intuition discriminate.
Qed.

(* the other clauses of Wf are necessary as well *)
Definition ex_joined : tree := [ {| e_key := [[97; 47; 98]]; e_meta := None; e_hash := Some (s_md5, ex_h) |} ].
Definition ex_split : tree := [ {| e_key := [[97]; [98]]; e_meta := None; e_hash := Some (s_md5, ex_h) |} ].

(* a part containing the separator: ("a/b",) and ("a","b") *)
Theorem as_bytes_inj_separator_refuted :
  exists t t', NoDupKeys t /\ NoDupKeys t' /\
    as_bytes false t = as_bytes false t' /\ ~ Permutation (map obs t) (map obs t').
Proof.
  exists ex_joined, ex_split. split; [|split; [|split]].
  - unfold NoDupKeys. cbn. repeat constructor. intros [].
  - unfold NoDupKeys. cbn. repeat constructor. intros [].
  - vm_compute. reflexivity.
  - intros P. apply Permutation_length_1 in P. discriminate.
Qed.

(* a hash algorithm called "relpath": its value is overwritten by the path *)
Definition ex_rp1 : tree := [ {| e_key := [[97]]; e_meta := None; e_hash := Some (s_relpath, ex_h) |} ].
Definition ex_rp2 : tree := [ {| e_key := [[97]]; e_meta := None; e_hash := Some (s_relpath, [50]) |} ].

Theorem as_bytes_inj_relpath_name_refuted :
  exists t t', KeysOk t /\ KeysOk t' /\ NoDupKeys t /\ NoDupKeys t' /\
    as_bytes false t = as_bytes false t' /\ ~ Permutation (map obs t) (map obs t').
Proof.
  exists ex_rp1, ex_rp2. split; [|split; [|split; [|split; [|split]]]].
  - repeat constructor.
  - repeat constructor.
  - unfold NoDupKeys. cbn. repeat constructor. intros [].
  - unfold NoDupKeys. cbn. repeat constructor. intros [].
  - vm_compute. reflexivity.
  - intros P. apply Permutation_length_1 in P. discriminate.
Qed.

(* ------------------------------------------------------------------ Tree.load of an md5-dos2unix store *)
(* Tree.load passes hash_name = "md5-dos2unix" for a legacy store: the hash is then read from the
   "md5" field and re-labelled; the observable pairs are the same again *)
Definition md5_valued (o : key * hash_info) : Prop := exists v, snd o = Some (s_md5, v) /\ v <> [].

Definition ent_d2u (o : key * hash_info) : entry :=
  {| e_key := fst o; e_meta := Some (meta_from_dict (hdict_of (snd o)));
     e_hash := match snd o with Some (_, v) => Some (s_md5_dos2unix, v) | None => None end |}.

Lemma from_list_entry_canon_d2u o : wf_obs o = true -> md5_valued o ->
  from_list_entry (Some s_md5_dos2unix) (canon o) = inl (ent_d2u o).
Proof.
  destruct o as [k h]. unfold wf_obs, wf_key, md5_valued. cbn [fst snd]. intros H [v [-> _]].
  apply andb_true_iff in H as [Hk _]. apply andb_true_iff in Hk as [Hk _].
  pose proof (split_join k Hk) as Ek. unfold ent_d2u. cbn [fst snd].
  assert (Hn : s_md5 <> s_relpath) by discriminate.
  rewrite (canon_some k s_md5 v Hn).
  change (lex_leb s_md5 s_relpath) with true. cbv iota.
  unfold from_list_entry.
  destruct (dict_ops_left s_md5 v (relpath k) Hn) as [-> ->]. now rewrite Ek.
Qed.

Lemma from_list_go_canon_d2u S : forall acc,
  Forall (fun o => wf_obs o = true) S -> Forall md5_valued S ->
  from_list_go (Some s_md5_dos2unix) (map canon S) acc =
  FlOk (fold_left (fun t e => add e t) (map ent_d2u S) acc).
Proof.
  induction S as [|o S IH]; intros acc H Hm; [reflexivity|].
  inversion H as [|? ? Ho HS]; subst. inversion Hm as [|? ? Hmo HmS]; subst.
  cbn [map from_list_go fold_left].
  rewrite (from_list_entry_canon_d2u o Ho Hmo). now apply IH.
Qed.

Lemma obs_ent_d2u o : md5_valued o -> obs (ent_d2u o) = o.
Proof.
  destruct o as [k h]. intros [v [E Hv]]. cbn [snd] in E. subst h.
  unfold obs, ent_d2u. cbn [e_key e_hash fst snd]. f_equal.
  destruct v as [|c v]; [contradiction|]. reflexivity.
Qed.

Theorem from_bytes_as_bytes_d2u t : Wf t -> NoDupKeys t ->
  (forall e, In e t -> md5_valued (obs e)) ->
  exists t', from_bytes (Some s_md5_dos2unix) (as_bytes false t) = FlOk t' /\
    map obs t' = sorted_obs t /\ Permutation (map obs t') (map obs t) /\
    as_bytes false t' = as_bytes false t /\ digest t' = digest t.
Proof.
  intros Hw Hn Hm. exists (map ent_d2u (sorted_obs t)).
  assert (HmS : Forall md5_valued (sorted_obs t)).
  { eapply Permutation_Forall; [symmetry; apply sorted_obs_perm|].
    rewrite Forall_map. apply Forall_forall. exact Hm. }
  assert (Ho : map obs (map ent_d2u (sorted_obs t)) = sorted_obs t).
  { rewrite map_map. rewrite <- (map_id (sorted_obs t)) at 2. apply map_ext_in.
    intros o Hin. apply obs_ent_d2u. rewrite Forall_forall in HmS. now apply HmS. }
  assert (Hp : Permutation (map obs (map ent_d2u (sorted_obs t))) (map obs t)).
  { rewrite Ho. apply sorted_obs_perm. }
  assert (Hb : as_bytes false (map ent_d2u (sorted_obs t)) = as_bytes false t).
  { symmetry. apply as_bytes_obs; [|now symmetry].
    apply NoDupKeys_relpaths; [now apply Wf_KeysOk | exact Hn]. }
  repeat split; try assumption.
  - unfold from_bytes. rewrite (parse_as_bytes t Hw). unfold from_list.
    rewrite from_list_go_canon_d2u; [|now apply Wf_sorted_obs|exact HmS].
    f_equal. apply tree_of_list_nodup.
    unfold NoDupKeys. rewrite map_map. cbn [ent_d2u e_key].
    assert (E : map (fun x : key * hash_info => fst x) (sorted_obs t) = map fst (sorted_obs t)) by reflexivity.
    rewrite E. eapply Permutation_NoDup; [apply Permutation_map; symmetry; apply sorted_obs_perm|].
    rewrite map_map. exact Hn.
  - now apply digest_bytes.
Qed.

Definition ex_md5_tree : tree :=
  [ {| e_key := [[98]; [120]]; e_meta := None; e_hash := Some (s_md5_dos2unix, ex_h) |};
    {| e_key := [[97]]; e_meta := None; e_hash := Some (s_md5, ex_h) |} ].
Example ex_md5_tree_ok : Wf ex_md5_tree /\ NoDupKeys ex_md5_tree /\ forall e, In e ex_md5_tree -> md5_valued (obs e).
Proof.
  split; [|split].
  - repeat constructor.
  - unfold NoDupKeys. cbn. repeat constructor; cbn; intuition discriminate.
  - intros e [<-|[<-|[]]]; exists ex_h; split; try reflexivity; discriminate.
Qed.

(* valid non-NFC names are inside Wf: "cafe" + U+0301 and "caf" + U+00E9 are two different
   well-formed listings with different bytes (no Unicode normalisation anywhere) *)
Definition ex_decomposed : tree :=
  [ {| e_key := [[100; 111; 99; 115]; [99; 97; 102; 101; 769]]; e_meta := None; e_hash := Some (s_md5, ex_h) |} ].
Definition ex_composed : tree :=
  [ {| e_key := [[100; 111; 99; 115]; [99; 97; 102; 233]]; e_meta := None; e_hash := Some (s_md5, ex_h) |} ].
Example ex_nfc_twins_distinct :
  Wf ex_decomposed /\ Wf ex_composed /\ as_bytes false ex_decomposed <> as_bytes false ex_composed.
Proof.
  split; [repeat constructor | split; [repeat constructor|]].
  intros E. apply (as_bytes_inj _ _) in E; [|repeat constructor|repeat constructor].
  apply Permutation_length_1 in E. discriminate.
Qed.

(* the listing is ordered by the joined path, not by the key tuple: ("d","x") < ("d.e","y") as
   tuples, but "d.e/y" < "d/x" - whichever way they are inserted *)
Definition ex_dx : entry := {| e_key := [[100]; [120]]; e_meta := None; e_hash := Some (s_md5, ex_h) |}.
Definition ex_dey : entry := {| e_key := [[100; 46; 101]; [121]]; e_meta := None; e_hash := Some (s_md5, ex_h) |}.
Example ex_tuple_order_vs_path_order :
  sort_entries [ex_dx; ex_dey] = [ex_dey; ex_dx] /\ sort_entries [ex_dey; ex_dx] = [ex_dey; ex_dx].
Proof. split; reflexivity. Qed.
