(* C07, second part: frame properties of check, the existence query, add with verification. *)
From Coq Require Import NArith List Bool Lia.
From DvcData Require Import Base.Val Gen.Check Model.StateDbBase Model.Integrity Proofs.IntegrityProofs.
Import ListNotations.
Open Scope N_scope.

(* what check / add never change, and the part of a world that concerns one object id *)
Definition cfg (w : world) := (w_cls w, w_alg w, w_state w, w_verify w, w_fmode w).
Definition sl (w : world) (o : oid) := (lookup o (w_objs w), lookup o (w_db w)).

Lemma cfg_fields w1 w2 : cfg w1 = cfg w2 ->
  w_cls w1 = w_cls w2 /\ w_alg w1 = w_alg w2 /\ w_state w1 = w_state w2 /\
  w_verify w1 = w_verify w2 /\ w_fmode w1 = w_fmode w2.
Proof. unfold cfg. intros E. injection E. auto. Qed.

Lemma sl_fields w1 w2 o : sl w1 o = sl w2 o ->
  lookup o (w_objs w1) = lookup o (w_objs w2) /\ lookup o (w_db w1) = lookup o (w_db w2).
Proof. unfold sl. intros E. injection E. auto. Qed.

Lemma protect_cfg w o : cfg (protect w o) = cfg w.
Proof. unfold protect. destruct (protect_mode (w_cls w)), (lookup o (w_objs w)); reflexivity. Qed.

Lemma protect_alg w o : w_alg (protect w o) = w_alg w.
Proof. unfold protect. destruct (protect_mode (w_cls w)), (lookup o (w_objs w)); reflexivity. Qed.

Lemma protect_state w o : w_state (protect w o) = w_state w.
Proof. unfold protect. destruct (protect_mode (w_cls w)), (lookup o (w_objs w)); reflexivity. Qed.

Lemma protect_db w o : w_db (protect w o) = w_db w.
Proof. unfold protect. destruct (protect_mode (w_cls w)), (lookup o (w_objs w)); reflexivity. Qed.

Lemma protect_frame w o o' : o' <> o -> lookup o' (w_objs (protect w o)) = lookup o' (w_objs w).
Proof.
  intros N. unfold protect. destruct (protect_mode (w_cls w)), (lookup o (w_objs w)); simpl; auto.
  now apply lookup_set_neq.
Qed.

Lemma protect_gone w o o' : lookup o' (w_objs w) = None -> lookup o' (w_objs (protect w o)) = None.
Proof.
  intros G. destruct (leqb_dec o' o) as [->|N].
  - unfold protect. rewrite G. destruct (protect_mode (w_cls w)); auto.
  - now rewrite protect_frame.
Qed.

Section WithDigest.
  Variable H : name -> bytes -> oid.

  Notation hash_file := (hash_file H).
  Notation base_check := (base_check H).
  Notation check := (check H).
  Notation oids_exist := (oids_exist H).
  Notation exist_step := (exist_step H).
  Notation add := (add H).
  Notation named_ok := (named_ok H).
  Notation honest_for := (honest_for H).
  Notation Tampered := (Tampered H).
  Notation Intact := (Intact H).

  (* ---------------------------------------------------------------- the shape of check's result *)
  Lemma base_check_cases w o ob :
    let db' := snd (hash_file w o ob) in
    base_check w o ob = (0, protect (with_db w db') o) \/
    base_check w o ob = (3, with_objs (with_db w db') (remove o (w_objs w))).
  Proof.
    unfold Integrity.base_check, Base_check. cbn [negb].
    destruct (list_N_eqb (split_dot0 (fst (hash_file w o ob))) (split_dot0 o)); simpl; auto.
  Qed.

  Lemma check_cases w o :
    (lookup o (w_objs w) = None /\ check w o = (2, w)) \/
    (exists ob, lookup o (w_objs w) = Some ob /\ (check w o = (0, w) \/ check w o = base_check w o ob)).
  Proof.
    unfold Integrity.check. destruct (lookup o (w_objs w)) as [ob|]; [right|left; auto].
    exists ob. split; auto. destruct (w_cls w); auto.
    unfold Local_check. destruct (N.eqb (S_IMODE (o_mode ob)) CACHE_MODE); auto.
  Qed.

  Lemma check_cfg w o : cfg (snd (check w o)) = cfg w.
  Proof.
    destruct (check_cases w o) as [[_ E]|(ob & _ & [E|E])]; rewrite E; auto.
    destruct (base_check_cases w o ob) as [E'|E']; rewrite E'; simpl; auto.
    now rewrite protect_cfg.
  Qed.

  Lemma check_frame w o o' : o' <> o -> sl (snd (check w o)) o' = sl w o'.
  Proof.
    intros N. destruct (check_cases w o) as [[_ E]|(ob & _ & [E|E])]; rewrite E; auto.
    destruct (base_check_cases w o ob) as [E'|E']; rewrite E'; unfold sl; simpl.
    - rewrite protect_frame, protect_db by auto. simpl. now rewrite hash_file_db_frame.
    - rewrite lookup_remove_neq by auto. now rewrite hash_file_db_frame.
  Qed.

  Lemma check_gone w o o' : lookup o' (w_objs w) = None -> lookup o' (w_objs (snd (check w o))) = None.
  Proof.
    intros G. destruct (check_cases w o) as [[_ E]|(ob & _ & [E|E])]; rewrite E; auto.
    destruct (base_check_cases w o ob) as [E'|E']; rewrite E'; simpl.
    - now apply protect_gone.
    - destruct (leqb_dec o' o) as [->|N]. apply lookup_remove_eq. now rewrite lookup_remove_neq.
  Qed.

  (* ---------------------------------------------------------------- extensionality *)
  Lemma honest_for_ext w1 w2 o ob : cfg w1 = cfg w2 -> lookup o (w_db w1) = lookup o (w_db w2) ->
    honest_for w1 o ob -> honest_for w2 o ob.
  Proof.
    intros C D Hh r S L T A. apply cfg_fields in C as (_ & CA & CS & _ & _).
    rewrite <- CA in *. apply (Hh r); congruence.
  Qed.

  Lemma Tampered_ext w1 w2 o ob : cfg w1 = cfg w2 -> sl w1 o = sl w2 o ->
    Tampered w1 o ob -> Tampered w2 o ob.
  Proof.
    intros C S (L & Hn & M & Hh). pose proof (cfg_fields _ _ C) as (CC & CA & _).
    apply sl_fields in S as [SO SD]. unfold Proofs.IntegrityProofs.Tampered.
    rewrite <- SO, <- CA, <- CC. repeat split; auto. now apply (honest_for_ext w1 w2).
  Qed.

  Lemma Intact_ext w1 w2 o ob : cfg w1 = cfg w2 -> sl w1 o = sl w2 o ->
    Intact w1 o ob -> Intact w2 o ob.
  Proof.
    intros C S (L & Hn & Hh). pose proof (cfg_fields _ _ C) as (CC & CA & _).
    apply sl_fields in S as [SO SD]. unfold Proofs.IntegrityProofs.Intact.
    rewrite <- SO, <- CA. repeat split; auto. now apply (honest_for_ext w1 w2).
  Qed.

  (* ---------------------------------------------------------------- one check, seen from object o *)
  Definition TG (w : world) (o : oid) : Prop :=
    (exists ob, Tampered w o ob) \/ lookup o (w_objs w) = None.
  Definition IN (w : world) (o : oid) : Prop := exists ob, Intact w o ob.

  Lemma TG_step w o o' : TG w o ->
    TG (snd (check w o')) o /\
    (o' = o -> fst (check w o') <> 0 /\ lookup o (w_objs (snd (check w o'))) = None).
  Proof.
    intros T. destruct (leqb_dec o' o) as [->|N].
    - destruct T as [[ob T]|G].
      + destruct (reject H w o ob T) as [R G]. split; [right; auto|]. intros _. rewrite R. split; auto. discriminate.
      + rewrite (check_missing H w o G). simpl. split; [right; auto|]. intros _. split; auto. discriminate.
    - split; [|contradiction]. destruct T as [[ob T]|G].
      + left. exists ob. apply (Tampered_ext w); auto.
        symmetry; apply check_cfg. symmetry; apply check_frame; auto.
      + right. now apply check_gone.
  Qed.

  Lemma Intact_after_ok w o ob : lookup o (w_objs w) = Some ob -> named_ok (w_alg w) o ob ->
    honest_for w o ob -> IN (protect (with_db w (snd (hash_file w o ob))) o) o.
  Proof.
    intros L Hn Hh.
    destruct (protect_lookup_same (with_db w (snd (hash_file w o ob))) o ob L) as (ob' & L' & B & T & _).
    exists ob'. split; [exact L'|]. split.
    - unfold Proofs.IntegrityProofs.named_ok. rewrite protect_alg. simpl. rewrite B. exact Hn.
    - intros r S Lr Tr Ar. rewrite protect_db in Lr. rewrite protect_alg in *. rewrite protect_state in S.
      simpl in *. rewrite B. apply (hash_file_db_honest H w o ob r); auto. congruence.
  Qed.

  Lemma Intact_after_check w o ob : Intact w o ob -> IN (snd (check w o)) o /\ fst (check w o) = 0.
  Proof.
    intros (L & Hn & Hh).
    destruct (w_cls w) eqn:C; [destruct (mode_dec (o_mode ob)) as [M|M]|].
    - rewrite (check_trusted H w o ob L C M). simpl. split; auto. exists ob. repeat split; auto.
    - rewrite (check_untrusted H w o ob L (fun _ => M)), (base_check_ok H w o ob Hh Hn). simpl.
      split; auto. now apply Intact_after_ok.
    - assert (M : w_cls w = Local -> S_IMODE (o_mode ob) <> PROTECTED) by (rewrite C; discriminate).
      rewrite (check_untrusted H w o ob L M), (base_check_ok H w o ob Hh Hn). simpl.
      split; auto. now apply Intact_after_ok.
  Qed.

  Lemma IN_step w o o' : IN w o -> IN (snd (check w o')) o /\ (o' = o -> fst (check w o') = 0).
  Proof.
    intros [ob I]. destruct (leqb_dec o' o) as [->|N].
    - destruct (Intact_after_check w o ob I). auto.
    - split; [|contradiction]. exists ob. apply (Intact_ext w); auto.
      symmetry; apply check_cfg. symmetry; apply check_frame; auto.
  Qed.

  (* ---------------------------------------------------------------- oids_exist on a Local store *)
  Lemma exist_fold_tampered o os : forall acc w, TG w o -> ~ In o acc ->
    let r := fold_left exist_step os (acc, w) in
    ~ In o (fst r) /\ TG (snd r) o /\ (In o os -> lookup o (w_objs (snd r)) = None).
  Proof.
    induction os as [|o' os IH]; intros acc w T NA; simpl.
    - repeat split; auto. contradiction.
    - destruct (TG_step w o o' T) as [T' X].
      unfold Integrity.exist_step at 2. simpl.
      assert (NA' : ~ In o (if fst (check w o') =? 0 then acc ++ [o'] else acc)).
      { destruct (fst (check w o') =? 0) eqn:E; auto. intros I. apply in_app_or in I as [I|[I|[]]]; auto.
        destruct (X I) as [X1 _]. apply N.eqb_eq in E. contradiction. }
      destruct (IH _ _ T' NA') as (R1 & R2 & R3). repeat split; auto.
      intros [->|I]; auto.
      destruct (X eq_refl) as [_ G].
      clear - G R2 IH.
      assert (forall os acc w, lookup o (w_objs w) = None ->
                lookup o (w_objs (snd (fold_left exist_step os (acc, w)))) = None) as K.
      { clear. induction os as [|o2 os IH]; intros acc w G; simpl; auto.
        apply IH. unfold Integrity.exist_step. simpl. now apply check_gone. }
      now apply K.
  Qed.

  Lemma exist_fold_mono o os : forall acc w, In o acc -> In o (fst (fold_left exist_step os (acc, w))).
  Proof.
    induction os as [|o' os IH]; intros acc w I; simpl; auto.
    apply IH. unfold Integrity.exist_step. simpl.
    destruct (fst (check w o') =? 0); auto. apply in_or_app; auto.
  Qed.

  Lemma exist_fold_intact o os : forall acc w, IN w o -> In o os ->
    let r := fold_left exist_step os (acc, w) in In o (fst r) /\ IN (snd r) o.
  Proof.
    induction os as [|o' os IH]; intros acc w I M; simpl; [contradiction|].
    destruct (IN_step w o o' I) as [I' X].
    assert (K : forall os acc w, IN w o -> IN (snd (fold_left exist_step os (acc, w))) o).
    { clear. induction os as [|o2 os IH]; intros acc w I; simpl; auto.
      apply IH. unfold Integrity.exist_step. simpl. now apply IN_step. }
    destruct M as [->|M].
    - split.
      + apply exist_fold_mono. unfold Integrity.exist_step. simpl. rewrite (X eq_refl). simpl.
        apply in_or_app. right. left. reflexivity.
      + apply K. unfold Integrity.exist_step. simpl. exact I'.
    - apply IH; auto.
  Qed.

  (* ---- C07_exists *)
  Theorem exists_rejects w o ob os : w_cls w = Local -> Tampered w o ob ->
    ~ In o (fst (oids_exist w os)) /\
    (In o os -> lookup o (w_objs (snd (oids_exist w os))) = None).
  Proof.
    intros C T. unfold Integrity.oids_exist. rewrite C.
    destruct (exist_fold_tampered o os [] w) as (R1 & _ & R3); auto.
    left. now exists ob.
  Qed.

  Theorem exists_keeps w o ob os : w_cls w = Local -> Intact w o ob -> In o os ->
    In o (fst (oids_exist w os)) /\ IN (snd (oids_exist w os)) o.
  Proof.
    intros C I M. unfold Integrity.oids_exist. rewrite C.
    apply exist_fold_intact; auto. now exists ob.
  Qed.
  (* ---------------------------------------------------------------- checkout of a directory *)
  Lemma check_all_gone o os : forall w, lookup o (w_objs w) = None ->
    lookup o (w_objs (check_all H w os)) = None.
  Proof.
    induction os as [|o' os IH]; intros w G; simpl; auto. apply IH. now apply check_gone.
  Qed.

  Lemma check_all_tampered o os : forall w, TG w o ->
    TG (check_all H w os) o /\ (In o os -> lookup o (w_objs (check_all H w os)) = None).
  Proof.
    induction os as [|o' os IH]; intros w T; simpl.
    - split; auto. contradiction.
    - destruct (TG_step w o o' T) as [T' X]. destruct (IH _ T') as [R1 R2]. split; auto.
      intros [->|I]; auto. destruct (X eq_refl) as [_ G]. now apply check_all_gone.
  Qed.

  Lemma check_all_intact o os : forall w, IN w o -> IN (check_all H w os) o.
  Proof.
    induction os as [|o' os IH]; intros w I; simpl; auto. apply IH. now apply IN_step.
  Qed.

  (* a tampered file object listed by a directory is not materialised: the checkout fails
     (CheckoutError), the entry contributes no file, the object is dropped *)
  Theorem checkout_dir_refuses w d ents n o ob : Tampered w o ob -> In (n, o) ents ->
    fst (fst (checkout_dir H w d ents)) = 5 /\
    lookup o (w_objs (snd (checkout_dir H w d ents))) = None.
  Proof.
    intros T I. unfold checkout_dir.
    destruct (check_all_tampered o (d :: map snd ents) w) as [_ G]; [left; now exists ob|].
    assert (G' : lookup o (w_objs (check_all H w (d :: map snd ents))) = None).
    { apply G. right. apply in_map_iff. exists (n, o). auto. }
    clear G. set (w' := check_all H w (d :: map snd ents)) in *. clearbody w'. simpl.
    split; auto.
    destruct (forallb (fun e => has w' (snd e)) ents) eqn:E; auto.
    rewrite forallb_forall in E. specialize (E (n, o) I). unfold has in E. simpl in E.
    rewrite G' in E. discriminate.
  Qed.

  Theorem checkout_dir_intact w d ents n o ob : Intact w o ob -> In (n, o) ents ->
    exists ob', Intact (snd (checkout_dir H w d ents)) o ob' /\
                In (n, o_bytes ob') (snd (fst (checkout_dir H w d ents))).
  Proof.
    intros I M. unfold checkout_dir.
    destruct (check_all_intact o (d :: map snd ents) w) as [ob' I']; [now exists ob|].
    set (w' := check_all H w (d :: map snd ents)) in *. clearbody w'. simpl.
    exists ob'. split; auto. apply in_flat_map. exists (n, o). split; auto. simpl.
    destruct I' as (L & _). rewrite L. left. reflexivity.
  Qed.
  (* ---------------------------------------------------------------- add through a read-only handle *)
  Lemma pre_fold_gone o items : forall w, lookup o (w_objs w) = None ->
    lookup o (w_objs (fold_left (pre_step H) items w)) = None.
  Proof.
    induction items as [|i items IH]; intros w G; simpl; auto. apply IH. now apply check_gone.
  Qed.

  Lemma pre_fold_intact o items : forall w, IN w o -> IN (fold_left (pre_step H) items w) o.
  Proof.
    induction items as [|i items IH]; intros w I; simpl; auto. apply IH. now apply IN_step.
  Qed.

  Theorem add_ro_refused w v items :
    snd (step H w (OAddRO v items)) = ORes 1 /\
    (forall o, lookup o (w_objs w) = None -> lookup o (w_objs (fst (step H w (OAddRO v items)))) = None) /\
    (forall o ob, Intact w o ob -> exists ob', Intact (fst (step H w (OAddRO v items))) o ob').
  Proof.
    simpl. unfold add_ro. split; auto.
    destruct (match v with Some b => b | None => w_verify w end).
    - split. intros o G. now apply pre_fold_gone. intros o ob I. apply pre_fold_intact. now exists ob.
    - split; auto. intros o ob I. now exists ob.
  Qed.
  (* ---------------------------------------------------------------- hashfile.check(odb, tree) *)
  Theorem check_seq_rejects o ob os : forall w, Tampered w o ob -> In o os -> fst (check_seq H w os) <> 0.
  Proof.
    assert (K : forall os w, TG w o -> In o os -> fst (check_seq H w os) <> 0).
    { induction os0 as [|o' os0 IH]; intros w T I; simpl; [contradiction|].
      destruct (TG_step w o o' T) as [T' X].
      destruct (fst (check w o') =? 0) eqn:E.
      - apply IH; auto. destruct I as [->|I]; auto.
        destruct (X eq_refl) as [X1 _]. apply N.eqb_eq in E. contradiction.
      - apply N.eqb_neq in E. exact E. }
    intros w T I. apply K; auto. left. now exists ob.
  Qed.

  (* the tampered object is deleted when everything checked before it passes *)
  Theorem check_seq_deletes o ob os1 os2 : forall w, Tampered w o ob -> ~ In o os1 ->
    (forall o', In o' os1 -> IN w o') ->
    fst (check_seq H w (os1 ++ o :: os2)) = 3 /\
    lookup o (w_objs (snd (check_seq H w (os1 ++ o :: os2)))) = None.
  Proof.
    induction os1 as [|o' os1 IH]; intros w T NI G; simpl.
    - destruct (reject H w o ob T) as [R D]. rewrite R. simpl. auto.
    - assert (N : o' <> o) by (intros ->; apply NI; left; reflexivity).
      destruct (IN_step w o' o' (G o' (or_introl eq_refl))) as [_ Z]. rewrite (Z eq_refl). simpl.
      apply IH.
      + apply (Tampered_ext w); auto. symmetry; apply check_cfg. symmetry; apply check_frame; auto.
      + intros I. apply NI. right. exact I.
      + intros o2 I2. apply IN_step. apply G. right. exact I2.
  Qed.

  Theorem check_seq_intact os : forall w, (forall o, In o os -> IN w o) ->
    fst (check_seq H w os) = 0 /\ forall o, In o os -> IN (snd (check_seq H w os)) o.
  Proof.
    induction os as [|o' os IH]; intros w G; simpl.
    - split; auto; intros o [].
    - destruct (IN_step w o' o' (G o' (or_introl eq_refl))) as [I' Z]. rewrite (Z eq_refl). simpl.
      assert (G' : forall o, In o (o' :: os) -> IN (snd (check w o')) o).
      { intros o I. apply IN_step. now apply G. }
      destruct (IH (snd (check w o')) (fun o I => G' o (or_intror I))) as [R1 R2]. split; auto.
      intros o [<-|I]; [|now apply R2].
      clear - G' R2 IH. 
      assert (K : forall os w o, IN w o -> IN (snd (check_seq H w os)) o).
      { clear. induction os as [|o2 os IH]; intros w o I; simpl; auto.
        destruct (fst (check w o2) =? 0); [apply IH|]; now apply IN_step. }
      apply K. apply G'. left. reflexivity.
  Qed.
End WithDigest.
