(* AddStepsProgs.v - the program generators of Model/AddSteps.v emit valid traces:
   add_prog (HashFileDB.add with check_exists), mem_add_prog (a directory object written from
   memory) and heal_prog (the local store's existence query), with their post-conditions. *)
From Coq Require Import NArith List Bool Lia.
From DvcData Require Import Base.Val Model.AddSteps Proofs.AddStepsProofs.
Import ListNotations.
Open Scope N_scope.

Lemma dedup_In o l : In o (dedup l) <-> In o l.
Proof.
  induction l as [|x r IH]; simpl; [tauto|].
  rewrite filter_In, IH. split.
  - intros [Hx|[Hr _]]; [left; exact Hx|right; exact Hr].
  - intros [Hx|Hr]; [left; exact Hx|].
    destruct (oid_dec x o) as [He|Hne]; [left; exact He|].
    right. split; [exact Hr|]. rewrite oeqb_neq; [reflexivity|].
    intros He. apply Hne. symmetry. exact He.
Qed.

Section G.
  Variable bytes : Type.
  Variable H : bytes -> oid.
  Variable kids : bytes -> list oid.
  Variable empty : bytes.
  Variable part : bytes -> bytes.

  Notation file := (file bytes).
  Notation world := (world bytes).
  Notation astep := (astep_ bytes).
  Notation obj := (obj bytes).
  Notation row := (row bytes).
  Notation tmp := (tmp bytes).
  Notation step := (step bytes empty).
  Notation run := (run bytes empty).
  Notation step_ok := (step_ok bytes H kids).
  Notation valid_trace := (valid_trace bytes H kids empty).
  Notation named_ok := (named_ok bytes H).
  Notation named_ok_b := (named_ok_b bytes H).
  Notation kids_ok := (kids_ok bytes H kids).
  Notation inv := (inv bytes H kids).
  Notation heal1_steps := (heal1_steps bytes H).
  Notation heal_prog := (heal_prog bytes H empty).
  Notation absent := (absent bytes).
  Notation copy_block := (copy_block bytes part).
  Notation copy_blocks := (copy_blocks bytes part).
  Notation probe_of := (probe_of bytes).
  Notation add_prog := (add_prog bytes part).
  Notation mem_block := (mem_block bytes).
  Notation mem_add_prog := (mem_add_prog bytes).

  Definition G (w : world) : Prop := w_pend w = None.

  (* the final name a step touches *)
  Definition step_oid (s : astep) : option oid :=
    match s with
    | Probe o | ProbeClean o | Rename _ o | Chmod o | Remove o => Some o
    | _ => None
    end.

  Lemma obj_step_other w s o : step_oid s <> Some o -> obj (step w s) o = obj w o.
  Proof.
    intros Hne.
    assert (Hn : forall o0, step_oid s = Some o0 -> o <> o0).
    { intros o0 Hs He. apply Hne. rewrite Hs, He. reflexivity. }
    destruct s as [p|o0|o0|t|t|t b|t t'|t o0|o0|rs|o0]; try reflexivity.
    - unfold AddSteps.step. apply oget_aset_neq. apply Hn. reflexivity.
    - apply oget_adel_neq. apply Hn. reflexivity.
    - unfold AddSteps.step. destruct (tmp w t); reflexivity.
    - unfold AddSteps.step. destruct (tmp w t); [|reflexivity].
      apply oget_aset_neq. apply Hn. reflexivity.
    - unfold AddSteps.step. destruct (obj w o0); [|reflexivity].
      apply oget_aset_neq. apply Hn. reflexivity.
    - apply oget_adel_neq. apply Hn. reflexivity.
  Qed.

  Lemma obj_run_other tr : forall w o,
    (forall s, In s tr -> step_oid s <> Some o) -> obj (run tr w) o = obj w o.
  Proof.
    induction tr as [|s tr IH]; intros w o Hall; [reflexivity|].
    rewrite run_cons. rewrite IH.
    - apply obj_step_other. apply Hall. left. reflexivity.
    - intros s' Hs'. apply Hall. right. exact Hs'.
  Qed.

  Lemma valid_app a b w :
    valid_trace a w = true -> valid_trace b (run a w) = true -> valid_trace (a ++ b) w = true.
  Proof. intros Ha Hb. rewrite valid_trace_app, Ha, Hb. reflexivity. Qed.

  Lemma mkdirs_valid l w :
    G w -> valid_trace (map Mkdir l) w = true /\ run (map Mkdir l) w = w.
  Proof.
    intros HG. induction l as [|p l [IH1 IH2]]; [split; reflexivity|].
    split.
    - change (step_ok w (Mkdir p) && valid_trace (map Mkdir l) w = true).
      rewrite IH1. unfold AddSteps.step_ok. rewrite HG. reflexivity.
    - exact IH2.
  Qed.

  Lemma probe_valid w o :
    G w -> obj w o = None ->
    valid_trace [Probe o; ProbeClean o] w = true /\
    G (run [Probe o; ProbeClean o] w) /\
    forall o', obj (run [Probe o; ProbeClean o] w) o' = obj w o'.
  Proof.
    intros HG Ho. split; [|split].
    - change (step_ok w (Probe o) && (step_ok (step w (Probe o)) (ProbeClean o) && true) = true).
      unfold AddSteps.step_ok at 1. rewrite HG, Ho.
      unfold AddSteps.step_ok, AddSteps.step. cbn [w_pend]. rewrite oeqb_refl. reflexivity.
    - reflexivity.
    - intros o'.
      change (aget list_N_eqb o'
                (adel list_N_eqb o (w_objs (step w (Probe o)))) = obj w o').
      rewrite oget_adel. destruct (list_N_eqb o' o) eqn:E.
      + apply list_N_eqb_spec in E. subst o'. symmetry. exact Ho.
      + apply obj_step_other. simpl. intros [= ->]. rewrite oeqb_refl in E. discriminate.
  Qed.

  Lemma block_valid w t o b :
    G w -> named_ok_b o b = true -> is_dir o = false ->
    let w' := run (copy_block t (o, b)) w in
    valid_trace (copy_block t (o, b)) w = true /\ G w' /\
    obj w' o = Some (mkF b false) /\ forall o', o' <> o -> obj w' o' = obj w o'.
  Proof.
    intros HG Hn Hd. destruct w as [objs tmps rows pend].
    unfold G in HG. cbn [w_pend] in HG. subst pend.
    unfold AddSteps.copy_block. cbn [fst snd].
    cbn [AddSteps.run fold_left AddSteps.valid_trace AddSteps.step AddSteps.step_ok AddSteps.tmp
         w_pend w_objs w_tmps w_rows andb].
    unfold AddSteps.tmp. cbn [w_tmps]. rewrite !nget_aset_eq.
    cbn [w_pend w_objs w_tmps w_rows].
    rewrite Hn, Hd. cbn [negb orb andb].
    split; [reflexivity|split; [reflexivity|split]].
    - apply oget_aset_eq.
    - intros o' Hne. apply oget_aset_neq. exact Hne.
  Qed.
End G.
