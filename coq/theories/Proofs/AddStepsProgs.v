(* AddStepsProgs.v - the program generators of Model/AddSteps.v emit valid traces:
   add_prog (HashFileDB.add with check_exists), mem_add_prog (a directory object written from
   memory) and heal_prog (the local store's existence query), with their post-conditions. *)
From Coq Require Import NArith List Bool Lia.
From DvcData Require Import Base.Val Model.AddSteps Proofs.AddStepsProofs.
Import ListNotations.
Open Scope N_scope.

Lemma dedup_In o l : In o (dedup l) <-> In o l.
Proof.
  induction l as [|x r IH]; simpl; [tauto|].
  rewrite filter_In, IH. split.
  - intros [Hx|[Hr _]]; [left; exact Hx|right; exact Hr].
  - intros [Hx|Hr]; [left; exact Hx|].
    destruct (oid_dec x o) as [He|Hne]; [left; exact He|].
    right. split; [exact Hr|]. rewrite oeqb_neq; [reflexivity|].
    intros He. apply Hne. symmetry. exact He.
Qed.

Section G.
  Variable bytes : Type.
  Variable H : bytes -> oid.
  Variable kids : bytes -> list oid.
  Variable empty : bytes.
  Variable part : bytes -> bytes.
  Hypothesis kids_empty : kids empty = [].   (* used by heal_prog_valid only *)

  Notation file := (file bytes).
  Notation world := (world bytes).
  Notation astep := (astep_ bytes).
  Notation obj := (obj bytes).
  Notation row := (row bytes).
  Notation tmp := (tmp bytes).
  Notation step := (step bytes empty).
  Notation run := (run bytes empty).
  Notation step_ok := (step_ok bytes H kids).
  Notation valid_trace := (valid_trace bytes H kids empty).
  Notation named_ok := (named_ok bytes H).
  Notation named_ok_b := (named_ok_b bytes H).
  Notation kids_ok := (kids_ok bytes H kids).
  Notation inv := (inv bytes H kids).
  Notation heal1_steps := (heal1_steps bytes H).
  Notation heal_prog := (heal_prog bytes H empty).
  Notation absent := (absent bytes).
  Notation copy_block := (copy_block bytes part).
  Notation copy_blocks := (copy_blocks bytes part).
  Notation probe_of := (probe_of bytes).
  Notation add_prog := (add_prog bytes part).
  Notation mem_block := (mem_block bytes).
  Notation mem_add_prog := (mem_add_prog bytes).

  Definition G (w : world) : Prop := w_pend w = None.

  (* the final name a step touches *)
  Definition step_oid (s : astep) : option oid :=
    match s with
    | Probe o | ProbeClean o | Rename _ o | Chmod o | Remove o => Some o
    | _ => None
    end.

  Lemma obj_step_other w s o : step_oid s <> Some o -> obj (step w s) o = obj w o.
  Proof.
    intros Hne.
    assert (Hn : forall o0, step_oid s = Some o0 -> o <> o0).
    { intros o0 Hs He. apply Hne. rewrite Hs, He. reflexivity. }
    destruct s as [p|o0|o0|t|t|t b|t t'|t o0|o0|rs|o0]; try reflexivity.
    - unfold AddSteps.step. apply oget_aset_neq. apply Hn. reflexivity.
    - apply oget_adel_neq. apply Hn. reflexivity.
    - unfold AddSteps.step. destruct (tmp w t); reflexivity.
    - unfold AddSteps.step. destruct (tmp w t); [|reflexivity].
      apply oget_aset_neq. apply Hn. reflexivity.
    - unfold AddSteps.step. destruct (obj w o0); [|reflexivity].
      apply oget_aset_neq. apply Hn. reflexivity.
    - apply oget_adel_neq. apply Hn. reflexivity.
  Qed.

  Lemma obj_run_other tr : forall w o,
    (forall s, In s tr -> step_oid s <> Some o) -> obj (run tr w) o = obj w o.
  Proof.
    induction tr as [|s tr IH]; intros w o Hall; [reflexivity|].
    rewrite run_cons. rewrite IH.
    - apply obj_step_other. apply Hall. left. reflexivity.
    - intros s' Hs'. apply Hall. right. exact Hs'.
  Qed.

  Lemma valid_app a b w :
    valid_trace a w = true -> valid_trace b (run a w) = true -> valid_trace (a ++ b) w = true.
  Proof. intros Ha Hb. rewrite valid_trace_app, Ha, Hb. reflexivity. Qed.

  Lemma mkdirs_valid l w :
    G w -> valid_trace (map Mkdir l) w = true /\ run (map Mkdir l) w = w.
  Proof.
    intros HG. induction l as [|p l [IH1 IH2]]; [split; reflexivity|].
    split.
    - change (step_ok w (Mkdir p) && valid_trace (map Mkdir l) w = true).
      rewrite IH1. unfold AddSteps.step_ok. rewrite HG. reflexivity.
    - exact IH2.
  Qed.

  Lemma probe_valid w o :
    G w -> obj w o = None ->
    valid_trace [Probe o; ProbeClean o] w = true /\
    G (run [Probe o; ProbeClean o] w) /\
    forall o', obj (run [Probe o; ProbeClean o] w) o' = obj w o'.
  Proof.
    intros HG Ho. split; [|split].
    - change (step_ok w (Probe o) && (step_ok (step w (Probe o)) (ProbeClean o) && true) = true).
      unfold AddSteps.step_ok at 1. rewrite HG, Ho.
      unfold AddSteps.step_ok, AddSteps.step. cbn [w_pend]. rewrite oeqb_refl. reflexivity.
    - reflexivity.
    - intros o'.
      change (aget list_N_eqb o'
                (adel list_N_eqb o (w_objs (step w (Probe o)))) = obj w o').
      rewrite oget_adel. destruct (list_N_eqb o' o) eqn:E.
      + apply list_N_eqb_spec in E. subst o'. symmetry. exact Ho.
      + apply obj_step_other. simpl. intros [= ->]. rewrite oeqb_refl in E. discriminate.
  Qed.

  Lemma block_valid w t o b :
    G w -> named_ok_b o b = true -> is_dir o = false ->
    let w' := run (copy_block t (o, b)) w in
    valid_trace (copy_block t (o, b)) w = true /\ G w' /\
    obj w' o = Some (mkF b false) /\ forall o', o' <> o -> obj w' o' = obj w o'.
  Proof.
    intros HG Hn Hd. destruct w as [objs tmps rows pend].
    unfold G in HG. cbn [w_pend] in HG. subst pend.
    unfold AddSteps.copy_block. cbn [fst snd].
    cbn [AddSteps.run fold_left AddSteps.valid_trace AddSteps.step AddSteps.step_ok AddSteps.tmp
         w_pend w_objs w_tmps w_rows andb].
    unfold AddSteps.tmp. cbn [w_tmps]. rewrite !nget_aset_eq.
    cbn [w_pend w_objs w_tmps w_rows].
    rewrite Hn, Hd. cbn [negb orb andb].
    split; [reflexivity|split; [reflexivity|split]].
    - apply oget_aset_eq.
    - intros o' Hne. apply oget_aset_neq. exact Hne.
  Qed.

  (* ---- add_prog ---- *)
  Lemma probe_of_valid l w :
    G w -> (forall it, In it l -> obj w (fst it) = None) ->
    valid_trace (probe_of l) w = true /\ G (run (probe_of l) w) /\
    forall o', obj (run (probe_of l) w) o' = obj w o'.
  Proof.
    intros HG Hl. destruct l as [|it r].
    - split; [reflexivity|split; [exact HG|reflexivity]].
    - apply probe_valid; [exact HG|]. apply Hl. left. reflexivity.
  Qed.

  Lemma copy_blocks_valid l : forall t w,
    G w ->
    (forall it, In it l -> named_ok_b (fst it) (snd it) = true /\ is_dir (fst it) = false) ->
    let w' := run (copy_blocks t l) w in
    valid_trace (copy_blocks t l) w = true /\ G w' /\
    (forall o, In o (map fst l) -> exists b, In (o, b) l /\ obj w' o = Some (mkF b false)) /\
    (forall o, ~ In o (map fst l) -> obj w' o = obj w o).
  Proof.
    induction l as [|[o b] r IH]; intros t w HG Hok; cbv zeta.
    - split; [reflexivity|split; [exact HG|split; [intros o []|reflexivity]]].
    - change (copy_blocks t ((o, b) :: r)) with (copy_block t (o, b) ++ copy_blocks (t + 1) r).
      rewrite run_app.
      assert (Hob : named_ok_b o b = true /\ is_dir o = false).
      { apply (Hok (o, b)). left. reflexivity. }
      pose proof (block_valid w t o b HG (proj1 Hob) (proj2 Hob)) as Hb. cbv zeta in Hb.
      destruct Hb as (V1 & G1 & O1 & R1).
      set (w1 := run (copy_block t (o, b)) w) in *.
      assert (Hokr : forall it, In it r ->
                named_ok_b (fst it) (snd it) = true /\ is_dir (fst it) = false).
      { intros it Hit. apply Hok. right. exact Hit. }
      pose proof (IH (t + 1) w1 G1 Hokr) as Hr. cbv zeta in Hr.
      destruct Hr as (V2 & G2 & O2 & R2).
      split; [apply valid_app; assumption|split; [exact G2|split]].
      + intros o' Hin. destruct (in_dec oid_dec o' (map fst r)) as [Hr|Hnr].
        * destruct (O2 o' Hr) as (b' & Hb' & Ho'). exists b'.
          split; [right; exact Hb'|exact Ho'].
        * simpl in Hin. destruct Hin as [<-|Hin]; [|contradiction].
          exists b. split; [left; reflexivity|]. rewrite (R2 o Hnr). exact O1.
      + intros o' Hnin. simpl in Hnin. rewrite R2 by (intros Hr'; apply Hnin; right; exact Hr').
        apply R1. intros ->. apply Hnin. left. reflexivity.
  Qed.

  Lemma copy_blocks_oid l : forall t s o,
    In s (copy_blocks t l) -> step_oid s = Some o -> In o (map fst l).
  Proof.
    induction l as [|[o0 b] r IH]; intros t s o Hin Hs; [destruct Hin|].
    change (copy_blocks t ((o0, b) :: r)) with (copy_block t (o0, b) ++ copy_blocks (t + 1) r) in Hin.
    apply in_app_or in Hin. destruct Hin as [Hin|Hin].
    - unfold AddSteps.copy_block in Hin. cbn [fst snd] in Hin. simpl in Hin.
      repeat (destruct Hin as [<-|Hin];
              [simpl in Hs; try discriminate Hs; injection Hs as <-; left; reflexivity|]).
      destruct Hin.
    - right. exact (IH _ _ _ Hin Hs).
  Qed.

  Definition protect (f : file) : file := mkF (f_bytes f) true.

  Lemma chmod1_valid w o :
    G w -> (forall f, obj w o = Some f -> named_ok o (f_bytes f)) ->
    step_ok w (Chmod o) = true /\ G (step w (Chmod o)) /\
    obj (step w (Chmod o)) o = option_map protect (obj w o) /\
    (forall o', o' <> o -> obj (step w (Chmod o)) o' = obj w o').
  Proof.
    intros HG Hn. destruct (obj w o) as [f|] eqn:Eo.
    - destruct (chmod_post bytes empty w o f Eo) as (Q1 & Q2 & Q3).
      split; [|split; [|split]].
      + rewrite (step_ok_chmod bytes H kids w o f HG Eo). apply named_ok_b_iff. apply Hn. reflexivity.
      + unfold G. rewrite Q1. exact HG.
      + exact Q3.
      + exact Q2.
    - assert (Es : step w (Chmod o) = w).
      { unfold AddSteps.step. rewrite Eo. reflexivity. }
      rewrite Es. split; [|split; [exact HG|split; [exact Eo|reflexivity]]].
      unfold AddSteps.step_ok. rewrite HG, Eo. reflexivity.
  Qed.

  Lemma chmods_valid l : forall w,
    G w ->
    (forall o f, In o l -> obj w o = Some f -> named_ok o (f_bytes f)) ->
    let w' := run (map Chmod l) w in
    valid_trace (map Chmod l) w = true /\ G w' /\
    (forall o, In o l -> obj w' o = option_map protect (obj w o)) /\
    (forall o, ~ In o l -> obj w' o = obj w o).
  Proof.
    induction l as [|o0 r IH]; intros w HG Hn; cbv zeta.
    - split; [reflexivity|split; [exact HG|split; [intros o []|reflexivity]]].
    - destruct (chmod1_valid w o0 HG) as (V1 & G1 & O1 & R1).
      { intros f Hf. apply (Hn o0 f); [left; reflexivity|exact Hf]. }
      set (w1 := step w (Chmod o0)) in *.
      assert (Hn1 : forall o f, In o r -> obj w1 o = Some f -> named_ok o (f_bytes f)).
      { intros o f Hin Ho. destruct (oid_dec o o0) as [->|Hne].
        - rewrite O1 in Ho. destruct (obj w o0) as [f0|] eqn:E0; [|discriminate Ho].
          simpl in Ho. injection Ho as <-. simpl. apply (Hn o0 f0); [left; reflexivity|exact E0].
        - rewrite (R1 o Hne) in Ho. apply (Hn o f); [right; exact Hin|exact Ho]. }
      pose proof (IH w1 G1 Hn1) as Hr. cbv zeta in Hr. destruct Hr as (V2 & G2 & O2 & R2).
      change (run (map Chmod (o0 :: r)) w) with (run (map Chmod r) w1).
      split; [|split; [exact G2|split]].
      + change (step_ok w (Chmod o0) && valid_trace (map Chmod r) w1 = true).
        rewrite V1, V2. reflexivity.
      + intros o Hin. destruct (in_dec oid_dec o r) as [Hr|Hnr].
        * rewrite (O2 o Hr). destruct (oid_dec o o0) as [->|Hne].
          -- rewrite O1. destruct (obj w o0); reflexivity.
          -- rewrite (R1 o Hne). reflexivity.
        * destruct Hin as [<-|Hin]; [|contradiction].
          rewrite (R2 o0 Hnr). exact O1.
      + intros o Hnin. simpl in Hnin. rewrite R2 by (intros Hr'; apply Hnin; right; exact Hr'). apply R1.
        intros ->. apply Hnin. left. reflexivity.
  Qed.

  Lemma statesave_self_valid l w :
    G w -> (forall o f, In o l -> obj w o = Some f -> named_ok o (f_bytes f)) ->
    step_ok w (StateSave (self_rows l)) = true.
  Proof.
    intros HG Hn. unfold AddSteps.step_ok. rewrite HG. apply forallb_forall.
    intros [a v] Hin. unfold self_rows in Hin. apply in_map_iff in Hin.
    destruct Hin as (o & He & Hin). injection He as <- <-. cbn [fst snd].
    destruct (obj w o) as [f|] eqn:Eo; [|reflexivity].
    apply list_N_eqb_spec. symmetry. exact (Hn o f Hin Eo).
  Qed.

  Theorem add_prog_valid t its w :
    G w ->
    (forall it, In it its -> named_ok_b (fst it) (snd it) = true /\ is_dir (fst it) = false) ->
    (forall it f, In it its -> obj w (fst it) = Some f -> named_ok (fst it) (f_bytes f)) ->
    let p := add_prog true t its w in
    let w' := run p w in
    valid_trace p w = true /\ G w' /\
    (forall it, In it its ->
       exists f, obj w' (fst it) = Some f /\ named_ok (fst it) (f_bytes f) /\ f_prot f = true) /\
    (forall o, ~ In o (map fst its) -> obj w' o = obj w o) /\
    (forall s, In s p -> forall o, step_oid s = Some o -> In o (map fst its)).
  Proof.
    intros HG Hok Hex. unfold AddSteps.add_prog. cbv zeta.
    set (todo := filter (absent w) its).
    set (req := dedup (map fst its)).
    set (dirs := dedup (map _ todo)).
    assert (Hreq1 : forall o, In o req -> In o (map fst its)).
    { intros o. apply (proj1 (dedup_In o (map fst its))). }
    assert (Hreq2 : forall o, In o (map fst its) -> In o req).
    { intros o. apply (proj2 (dedup_In o (map fst its))). }
    assert (Htodo : forall it, In it todo -> In it its /\ obj w (fst it) = None).
    { intros it Hit. apply filter_In in Hit. destruct Hit as [Hi Ha]. split; [exact Hi|].
      unfold AddSteps.absent in Ha. destruct (obj w (fst it)); [discriminate|reflexivity]. }
    assert (Hsub : forall o, In o (map fst todo) -> In o (map fst its)).
    { intros o Hin. apply in_map_iff in Hin. destruct Hin as (it & <- & Hit).
      apply in_map. apply Htodo. exact Hit. }
    destruct (mkdirs_valid dirs w HG) as [VA RA].
    destruct (probe_of_valid todo w HG (fun it Hit => proj2 (Htodo it Hit))) as (VB & GB & OB).
    set (wB := run (probe_of todo) w) in *.
    assert (HokT : forall it, In it todo ->
              named_ok_b (fst it) (snd it) = true /\ is_dir (fst it) = false).
    { intros it Hit. apply Hok. apply Htodo. exact Hit. }
    pose proof (copy_blocks_valid todo t wB GB HokT) as HC. cbv zeta in HC.
    destruct HC as (VC & GC & OC & RC).
    set (wC := run (copy_blocks t todo) wB) in *.
    assert (Hkey : forall o, In o (map fst its) ->
              exists f, obj wC o = Some f /\ named_ok o (f_bytes f)).
    { intros o Hin. destruct (in_dec oid_dec o (map fst todo)) as [Ht|Hnt].
      - destruct (OC o Ht) as (b & Hb & Ho). exists (mkF b false). split; [exact Ho|].
        simpl. apply named_ok_b_iff. apply (Hok (o, b)). apply Htodo. exact Hb.
      - rewrite (RC o Hnt), OB. apply in_map_iff in Hin. destruct Hin as (it & <- & Hit).
        destruct (absent w it) eqn:Ea.
        + exfalso. apply Hnt. apply in_map. apply filter_In. split; assumption.
        + unfold AddSteps.absent in Ea. destruct (obj w (fst it)) as [f|] eqn:Ef; [|discriminate].
          exists f. split; [reflexivity|]. exact (Hex it f Hit Ef). }
    assert (HreqC : forall o f, In o req -> obj wC o = Some f -> named_ok o (f_bytes f)).
    { intros o f Hin Ho. apply Hreq1 in Hin. destruct (Hkey o Hin) as (f0 & Hf0 & Hn0).
      rewrite Ho in Hf0. injection Hf0 as <-. exact Hn0. }
    pose proof (chmods_valid req wC GC HreqC) as HD. cbv zeta in HD.
    destruct HD as (VD & GD & OD & RD).
    set (wD := run (map Chmod req) wC) in *.
    assert (HreqD : forall o f, In o req -> obj wD o = Some f -> named_ok o (f_bytes f)).
    { intros o f Hin Ho. rewrite (OD o Hin) in Ho.
      destruct (obj wC o) as [f0|] eqn:E0; [|discriminate Ho].
      simpl in Ho. injection Ho as <-. exact (HreqC o f0 Hin E0). }
    pose proof (statesave_self_valid req wD GD HreqD) as VE.
    assert (Erun : run (map Mkdir dirs ++ probe_of todo ++ copy_blocks t todo ++
                        map Chmod req ++ [StateSave (self_rows req)]) w
                   = step wD (StateSave (self_rows req))).
    { rewrite !run_app, RA. reflexivity. }
    rewrite Erun.
    split; [|split; [|split; [|split]]].
    - apply valid_app; [exact VA|]. rewrite RA.
      apply valid_app; [exact VB|]. apply valid_app; [exact VC|]. apply valid_app; [exact VD|].
      change (step_ok wD (StateSave (self_rows req)) && true = true). rewrite VE. reflexivity.
    - exact GD.
    - intros it Hit.
      assert (Hin : In (fst it) (map fst its)) by (apply in_map; exact Hit).
      destruct (Hkey _ Hin) as (f0 & Hf0 & Hn0).
      exists (protect f0). split; [|split; [exact Hn0|reflexivity]].
      change (obj wD (fst it) = Some (protect f0)).
      rewrite OD by (apply Hreq2; exact Hin). rewrite Hf0. reflexivity.
    - intros o Hnin. change (obj wD o = obj w o).
      rewrite RD by (intros Hr; apply Hnin; apply Hreq1; exact Hr).
      rewrite RC by (intros Ht; apply Hnin; apply Hsub; exact Ht).
      apply OB.
    - intros s Hin o Hs.
      apply in_app_or in Hin. destruct Hin as [Hin|Hin].
      { apply in_map_iff in Hin. destruct Hin as (d & <- & _). discriminate Hs. }
      apply in_app_or in Hin. destruct Hin as [Hin|Hin].
      { apply Hsub. destruct todo as [|it r]; [destruct Hin|].
        simpl in Hin. destruct Hin as [<-|[<-|[]]]; simpl in Hs; injection Hs as <-;
          left; reflexivity. }
      apply in_app_or in Hin. destruct Hin as [Hin|Hin].
      { apply Hsub. exact (copy_blocks_oid _ _ _ _ Hin Hs). }
      apply in_app_or in Hin. destruct Hin as [Hin|Hin].
      { apply in_map_iff in Hin. destruct Hin as (o' & <- & Ho'). simpl in Hs.
        injection Hs as <-. apply Hreq1. exact Ho'. }
      destruct Hin as [<-|[]]. discriminate Hs.
  Qed.

  (* ---- mem_add_prog ---- *)
  Lemma kids_ok_objs w1 w2 b : w_objs w1 = w_objs w2 -> kids_ok w1 b = kids_ok w2 b.
  Proof.
    intros He. unfold AddSteps.kids_ok, AddSteps.kid_ok, AddSteps.obj. rewrite He. reflexivity.
  Qed.

  Lemma mem_block_valid w t o b :
    G w -> named_ok_b o b = true -> kids_ok w b = true ->
    let w' := run (mem_block t (o, b)) w in
    valid_trace (mem_block t (o, b)) w = true /\ G w' /\
    obj w' o = Some (mkF b false) /\ forall o', o' <> o -> obj w' o' = obj w o'.
  Proof.
    intros HG Hn Hk. destruct w as [objs tmps rows pend].
    unfold G in HG. cbn [w_pend] in HG. subst pend.
    unfold AddSteps.mem_block. cbn [fst snd].
    cbn [AddSteps.run fold_left AddSteps.valid_trace AddSteps.step AddSteps.step_ok
         w_pend w_objs w_tmps w_rows andb].
    unfold AddSteps.tmp. cbn [w_tmps]. rewrite !nget_aset_eq.
    cbn [w_pend w_objs w_tmps w_rows]. rewrite !nget_aset_eq.
    cbn [w_pend w_objs w_tmps w_rows].
    rewrite Hn.
    match goal with
    | |- context [AddSteps.kids_ok bytes H kids ?x b] =>
        rewrite (kids_ok_objs x (mkW objs tmps rows None) b eq_refl)
    end.
    rewrite Hk.
    rewrite orb_true_r. cbn [andb].
    split; [reflexivity|split; [reflexivity|split]].
    - apply oget_aset_eq.
    - intros o' Hne. apply oget_aset_neq. exact Hne.
  Qed.

  Theorem mem_add_prog_valid t d w :
    G w -> named_ok_b (fst d) (snd d) = true -> kids_ok w (snd d) = true ->
    (forall f, obj w (fst d) = Some f -> named_ok (fst d) (f_bytes f)) ->
    let p := mem_add_prog t d w in
    let w' := run p w in
    valid_trace p w = true /\ G w' /\
    (exists f, obj w' (fst d) = Some f /\ named_ok (fst d) (f_bytes f) /\ f_prot f = true) /\
    (forall o, o <> fst d -> obj w' o = obj w o) /\
    (forall s, In s p -> forall o, step_oid s = Some o -> o = fst d).
  Proof.
    destruct d as [o b]. cbn [fst snd]. intros HG Hn Hk Hex. cbv zeta.
    unfold AddSteps.mem_add_prog. cbn [fst].
    set (pre := if absent w (o, b) then mem_block t (o, b) else []).
    assert (Hpre : valid_trace pre w = true /\ G (run pre w) /\
              (exists f1, obj (run pre w) o = Some f1 /\ named_ok o (f_bytes f1)) /\
              (forall o', o' <> o -> obj (run pre w) o' = obj w o') /\
              (forall s, In s pre -> forall o', step_oid s = Some o' -> o' = o)).
    { unfold pre. destruct (absent w (o, b)) eqn:Ea.
      - pose proof (mem_block_valid w t o b HG Hn Hk) as Hb. cbv zeta in Hb.
        destruct Hb as (V & G1 & O1 & R1).
        split; [exact V|split; [exact G1|split; [|split; [exact R1|]]]].
        + exists (mkF b false). split; [exact O1|]. simpl. apply named_ok_b_iff. exact Hn.
        + intros s Hin o' Hs. unfold AddSteps.mem_block in Hin. cbn [fst snd] in Hin.
          simpl in Hin.
          repeat (destruct Hin as [<-|Hin];
                  [simpl in Hs; try discriminate Hs; injection Hs as <-; reflexivity|]).
          destruct Hin.
      - unfold AddSteps.absent in Ea. cbn [fst] in Ea.
        destruct (obj w o) as [f|] eqn:Ef; [|discriminate].
        split; [reflexivity|split; [exact HG|split; [|split; [reflexivity|intros s []]]]].
        exists f. split; [exact Ef|]. apply Hex. reflexivity. }
    destruct Hpre as (V1 & G1 & (f1 & O1 & N1) & R1 & S1).
    set (w1 := run pre w) in *.
    assert (Hn1 : forall o' f, In o' [o] -> obj w1 o' = Some f -> named_ok o' (f_bytes f)).
    { intros o' f [<-|[]] Ho. rewrite O1 in Ho. injection Ho as <-. exact N1. }
    pose proof (chmods_valid [o] w1 G1 Hn1) as HD. cbv zeta in HD.
    destruct HD as (VD & GD & OD & RD).
    set (wD := run (map Chmod [o]) w1) in *.
    assert (OD1 : obj wD o = Some (protect f1)).
    { rewrite OD by (left; reflexivity). rewrite O1. reflexivity. }
    assert (HnD : forall o' f, In o' [o] -> obj wD o' = Some f -> named_ok o' (f_bytes f)).
    { intros o' f [<-|[]] Ho. rewrite OD1 in Ho. injection Ho as <-. exact N1. }
    pose proof (statesave_self_valid [o] wD GD HnD) as VE.
    change [Chmod o; StateSave (self_rows [o])]
      with (map (@Chmod bytes) [o] ++ [@StateSave bytes (self_rows [o])]).
    assert (Erun : run (pre ++ map Chmod [o] ++ [StateSave (self_rows [o])]) w
                   = step wD (StateSave (self_rows [o]))).
    { rewrite !run_app. reflexivity. }
    rewrite Erun.
    split; [|split; [|split; [|split]]].
    - apply valid_app; [exact V1|]. apply valid_app; [exact VD|].
      change (step_ok wD (StateSave (self_rows [o])) && true = true). rewrite VE. reflexivity.
    - exact GD.
    - exists (protect f1). split; [exact OD1|split; [exact N1|reflexivity]].
    - intros o' Hne. change (obj wD o' = obj w o').
      rewrite RD by (intros [He|[]]; apply Hne; symmetry; exact He).
      apply R1. exact Hne.
    - intros s Hin o' Hs.
      apply in_app_or in Hin. destruct Hin as [Hin|Hin]; [exact (S1 s Hin o' Hs)|].
      simpl in Hin. destruct Hin as [<-|[<-|[]]]; simpl in Hs; [|discriminate Hs].
      injection Hs as <-. reflexivity.
  Qed.

  (* ---- heal_prog ---- *)
  Lemma heal1_none w o : obj w o = None -> heal1_steps w o = [].
  Proof. intros E. unfold AddSteps.heal1_steps. rewrite E. reflexivity. Qed.

  Lemma heal1_oid w o s o' : In s (heal1_steps w o) -> step_oid s = Some o' -> o' = o.
  Proof.
    unfold AddSteps.heal1_steps. destruct (obj w o) as [f|]; [|intros []].
    destruct (f_prot f); [intros []|].
    destruct (row w o); cbv beta iota zeta; destruct (list_N_eqb _ _); simpl;
      intros Hin Hs;
      repeat (destruct Hin as [<-|Hin];
              [simpl in Hs; try discriminate Hs; injection Hs as <-; reflexivity|]);
      destruct Hin.
  Qed.

  Theorem heal_prog_valid qs : forall w,
    inv w -> G w ->
    let p := heal_prog qs w in
    let w' := run p w in
    valid_trace p w = true /\ inv w' /\ G w' /\
    (forall o f, In o qs -> obj w' o = Some f -> named_ok o (f_bytes f) /\ f_prot f = true) /\
    (forall o, ~ In o qs -> obj w' o = obj w o) /\
    (forall o, obj w o = None -> obj w' o = None) /\
    (forall s, In s p -> forall o, step_oid s = Some o -> In o qs).
  Proof.
    induction qs as [|o r IH]; intros w Hi HG; cbv zeta.
    - change (heal_prog [] w) with (@nil astep). change (run [] w) with w.
      split; [reflexivity|split; [exact Hi|split; [exact HG|]]].
      split; [intros o f []|split; [reflexivity|split; [intros o Ho; exact Ho|intros s []]]].
    - change (heal_prog (o :: r) w)
        with (heal1_steps w o ++ heal_prog r (run (heal1_steps w o) w)).
      rewrite run_app.
      pose proof (heal1_valid bytes H kids empty w o Hi HG) as V1.
      pose proof (heal1_post bytes H kids empty w o Hi HG) as P1. cbv zeta in P1.
      destruct P1 as (G1 & R1 & O1).
      pose proof (heal1_inv bytes H kids empty kids_empty w o Hi HG) as I1.
      set (w1 := run (heal1_steps w o) w) in *.
      pose proof (IH w1 I1 G1) as Hr. cbv zeta in Hr.
      destruct Hr as (V2 & I2 & G2 & N2 & R2 & A2 & S2).
      split; [apply valid_app; assumption|split; [exact I2|split; [exact G2|]]].
      split; [|split; [|split]].
      + intros o' f Hin Ho. destruct (in_dec oid_dec o' r) as [Hr|Hnr].
        * exact (N2 o' f Hr Ho).
        * destruct Hin as [<-|Hin]; [|contradiction].
          rewrite (R2 o Hnr) in Ho. exact (O1 f Ho).
      + intros o' Hnin. simpl in Hnin. rewrite R2 by (intros Hr'; apply Hnin; right; exact Hr').
        apply R1. intros ->. apply Hnin. left. reflexivity.
      + intros o' Hn. apply A2. destruct (oid_dec o' o) as [->|Hne].
        * unfold w1. rewrite (heal1_none w o Hn). exact Hn.
        * rewrite (R1 o' Hne). exact Hn.
      + intros s Hin o' Hs. apply in_app_or in Hin. destruct Hin as [Hin|Hin].
        * left. symmetry. exact (heal1_oid w o s o' Hin Hs).
        * right. exact (S2 s Hin o' Hs).
  Qed.
End G.

Print Assumptions add_prog_valid.
Print Assumptions mem_add_prog_valid.
Print Assumptions heal_prog_valid.
