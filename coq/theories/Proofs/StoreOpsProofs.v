(* C01 - the content-addressing invariant of Model/StoreOps.v.

   Everything is proved for an abstract digest  H : alg -> bytes -> oid  about which two facts
   are assumed (Section hypotheses, discharged for the executable digest H_exec in
   Proofs/StoreOpsProofsExec.v):
     H_not_dir      a digest never ends in ".dir"
     H_d2u_listing  on a canonical listing md5-dos2unix and md5 agree (the listing is the output
                    of json.dumps, which contains no CR byte)
   No collision-freeness is needed: the invariant only says that a name IS the digest of the
   bytes filed under it. *)
From Coq Require Import NArith List Bool Lia PeanoNat.
From DvcData Require Import Base.Val Base.MD5 Base.Json Model.Listing Model.StoreOps.
Import ListNotations.
Open Scope N_scope.

(* ------------------------------------------------------------------ generic list facts *)
Lemma alookup_aput {A} (k k' : oid) (v : A) l :
  alookup k' (aput k v l) = if list_N_eqb k' k then Some v else alookup k' l.
Proof.
  induction l as [|[k0 v0] r IH]; simpl.
  - destruct (list_N_eqb k' k); reflexivity.
  - destruct (list_N_eqb k k0) eqn:E; simpl.
    + apply list_N_eqb_spec in E. subst k0.
      destruct (list_N_eqb k' k); reflexivity.
    + destruct (list_N_eqb k' k0) eqn:E0.
      * apply list_N_eqb_spec in E0. subst k0.
        destruct (list_N_eqb k' k) eqn:E1; [|reflexivity].
        apply list_N_eqb_spec in E1. subst k'.
        assert (list_N_eqb k k = true) by (apply list_N_eqb_spec; reflexivity). congruence.
      * exact IH.
Qed.

Lemma alookup_map {A B} (f : A -> B) k (l : list (oid * A)) :
  alookup k (map (fun p => (fst p, f (snd p))) l) = option_map f (alookup k l).
Proof.
  induction l as [|[k0 v0] r IH]; simpl; [reflexivity|].
  destruct (list_N_eqb k k0); [reflexivity|exact IH].
Qed.

Lemma alookup_In {A} k (v : A) l : alookup k l = Some v -> In (k, v) l.
Proof.
  induction l as [|[k0 v0] r IH]; simpl; [discriminate|].
  destruct (list_N_eqb k k0) eqn:E.
  - intros [= ->]. apply list_N_eqb_spec in E. subst. now left.
  - intros Hl. right. now apply IH.
Qed.

Lemma nth_error_upd_nth {A} (f : A -> A) i j (l : list A) :
  nth_error (upd_nth i f l) j = if Nat.eqb j i then option_map f (nth_error l j) else nth_error l j.
Proof.
  revert i j. induction l as [|x r IH]; intros i j; simpl.
  - destruct i, j; simpl; try reflexivity; destruct (Nat.eqb j i); reflexivity.
  - destruct i, j; simpl; try reflexivity. apply IH.
Qed.

Lemma alookup_aremove {A} (k k' : oid) (l : list (oid * A)) :
  alookup k' (aremove k l) = if list_N_eqb k' k then None else alookup k' l.
Proof.
  induction l as [|[k0 v0] r IH]; simpl.
  - destruct (list_N_eqb k' k); reflexivity.
  - destruct (list_N_eqb k k0) eqn:E.
    + apply list_N_eqb_spec in E. subst k0. rewrite IH. destruct (list_N_eqb k' k); reflexivity.
    + simpl. destruct (list_N_eqb k' k0) eqn:E0; [|exact IH].
      apply list_N_eqb_spec in E0. subst k0.
      destruct (list_N_eqb k' k) eqn:E1; [|reflexivity].
      apply list_N_eqb_spec in E1. subst k'.
      assert (list_N_eqb k k = true) by (apply list_N_eqb_spec; reflexivity). congruence.
Qed.

Lemma list_N_eqb_refl k : list_N_eqb k k = true.
Proof. apply list_N_eqb_spec. reflexivity. Qed.

Lemma is_dir_oid_app k : is_dir_oid (k ++ dot_dir) = true.
Proof. unfold is_dir_oid. rewrite rev_app_distr. reflexivity. Qed.

(* ------------------------------------------------------------------ the invariant *)
Section Proofs.
Variable H : alg -> list N -> oid.
Hypothesis H_not_dir : forall a b, is_dir_oid (H a b) = false.
Hypothesis H_d2u_listing : forall t, H Md5D2U (as_bytes false t) = H Md5 (as_bytes false t).

(* the bytes are a canonical directory listing: what Tree.as_bytes() prints for some tree *)
Definition canonical (b : list N) : Prop := exists t, b = as_bytes false t.

(* the name [k] is the digest of [b] under algorithm [a]: a file object under the hash of its
   content, a directory object under the hash of its canonical listing plus ".dir" *)
Definition named_ok (a : alg) (k : oid) (b : list N) : Prop :=
  if is_dir_oid k then k = H a b ++ dot_dir /\ canonical b else k = H a b.

(* every object of every store *)
Definition Names (st : state) : Prop :=
  forall j s k o, nth_error (st_stores st) j = Some s -> alookup k (s_objs s) = Some o ->
    named_ok (s_alg s) k (o_bytes o).

(* leftovers: a set of (store position, oid) pairs that are allowed to be unprotected - what sat
   unprotected in a directory when it was reopened under the local class and has not been added
   or covered since *)
Definition lset := nat -> oid -> Prop.
Definition lempty : lset := fun _ _ => False.

(* local class => mode 0o444, except for the leftovers [E] - minus the ids [done] of store [si]
   that the add in progress has already protected - and for the ids [ks] of store [si] that it has
   copied and not yet protected *)
Definition M (E : lset) (st : state) (si : nat) (done ks : list oid) : Prop :=
  forall j s k o, nth_error (st_stores st) j = Some s -> alookup k (s_objs s) = Some o ->
    s_cls s = Local ->
    o_mode o = mode_ro \/ (E j k /\ ~ (j = si /\ In k done)) \/ (j = si /\ In k ks).

(* the invariant with leftovers *)
Definition InvE (E : lset) (st : state) : Prop :=
  forall j s k o, nth_error (st_stores st) j = Some s -> alookup k (s_objs s) = Some o ->
    named_ok (s_alg s) k (o_bytes o) /\ (s_cls s = Local -> o_mode o = mode_ro \/ E j k).
(* ... and without: every object named by its digest, every local-class object read-only *)
Definition Inv (st : state) : Prop :=
  forall j s k o, nth_error (st_stores st) j = Some s -> alookup k (s_objs s) = Some o ->
    named_ok (s_alg s) k (o_bytes o) /\ (s_cls s = Local -> o_mode o = mode_ro).

Lemma Inv_InvE st : Inv st <-> InvE lempty st.
Proof.
  split; intros HI j s k o Hs Ho; destruct (HI j s k o Hs Ho) as [A B]; (split; [exact A|]); intros Hc.
  - left. now apply B.
  - destruct (B Hc) as [?|[]]. assumption.
Qed.

Lemma InvE_split E st : InvE E st <-> Names st /\ M E st O [] [].
Proof.
  split.
  - intros HI. split; intros j s k o Hs Ho.
    + apply (HI j s k o Hs Ho).
    + intros Hc. destruct (HI j s k o Hs Ho) as [_ B]. destruct (B Hc) as [?|?]; [now left|].
      right. left. split; [assumption|]. intros [_ []].
  - intros [HN HM] j s k o Hs Ho. split.
    + apply (HN j s k o Hs Ho).
    + intros Hc. destruct (HM j s k o Hs Ho Hc) as [?|[[? _]|[_ []]]]; auto.
Qed.

Lemma InvE_weaken (E E' : lset) st : (forall j k, E j k -> E' j k) -> InvE E st -> InvE E' st.
Proof.
  intros Hi HI j s k o Hs Ho. destruct (HI j s k o Hs Ho) as [A B]. split; [exact A|].
  intros Hc. destruct (B Hc); auto.
Qed.

Lemma M_nil_any E st si sj : M E st si [] [] -> M E st sj [] [].
Proof.
  intros HM j s k o Hs Ho Hc. destruct (HM j s k o Hs Ho Hc) as [?|[[? _]|[_ []]]]; [now left|].
  right. left. split; [assumption|]. intros [_ []].
Qed.

Lemma M_pending E st si ks : M E st si [] [] -> M E st si [] ks.
Proof.
  intros HM j s k o Hs Ho Hc. destruct (HM j s k o Hs Ho Hc) as [?|[?|[_ []]]]; auto.
Qed.

(* when the add is over: the leftovers have shrunk by what was added *)
Lemma M_done E st si done :
  M E st si done [] -> M (fun j k => E j k /\ ~ (j = si /\ In k done)) st O [] [].
Proof.
  intros HM j s k o Hs Ho Hc. destruct (HM j s k o Hs Ho Hc) as [?|[[A B]|[_ []]]]; [now left|].
  right. left. split; [now split|]. intros [_ []].
Qed.

Lemma M_weaken (E E' : lset) st : (forall j k, E j k -> E' j k) -> M E st O [] [] -> M E' st O [] [].
Proof.
  intros Hi HM j s k o Hs Ho Hc. destruct (HM j s k o Hs Ho Hc) as [?|[[A B]|[_ []]]]; [now left|].
  right. left. split; [now apply Hi|exact B].
Qed.

(* the algorithm of the store at position [si], if there is one *)
Definition alg_at (st : state) (si : nat) : option alg := option_map s_alg (nth_error (st_stores st) si).

(* ------------------------------------------------------------------ primitives *)
Lemma chmod_all_nth i m st j :
  nth_error (st_stores (chmod_all i m st)) j = option_map (chmod_store i m) (nth_error (st_stores st) j).
Proof. unfold chmod_all. simpl. apply nth_error_map. Qed.

Lemma chmod_store_lookup i m s k :
  alookup k (s_objs (chmod_store i m s)) = option_map (chmod_obj i m) (alookup k (s_objs s)).
Proof. unfold chmod_store. simpl. apply alookup_map. Qed.

Lemma chmod_obj_bytes i m o : o_bytes (chmod_obj i m o) = o_bytes o.
Proof. unfold chmod_obj. destruct (o_ino o =? i); reflexivity. Qed.

Lemma chmod_all_alg i m st j : alg_at (chmod_all i m st) j = alg_at st j.
Proof. unfold alg_at. rewrite chmod_all_nth. destruct (nth_error _ j); reflexivity. Qed.

Lemma chmod_all_Names i m st : Names st -> Names (chmod_all i m st).
Proof.
  intros HN j s k o Hs Ho. rewrite chmod_all_nth in Hs.
  destruct (nth_error (st_stores st) j) as [s0|] eqn:E; [|discriminate].
  injection Hs as <-. rewrite chmod_store_lookup in Ho.
  destruct (alookup k (s_objs s0)) as [o0|] eqn:E0; [|discriminate].
  injection Ho as <-. rewrite chmod_obj_bytes. simpl. apply (HN j s0 k o0 E E0).
Qed.

Lemma chmod_all_M E i st si dn ks : M E st si dn ks -> M E (chmod_all i mode_ro st) si dn ks.
Proof.
  intros HM j s k o Hs Ho Hc. rewrite chmod_all_nth in Hs.
  destruct (nth_error (st_stores st) j) as [s0|] eqn:E0; [|discriminate].
  injection Hs as <-. rewrite chmod_store_lookup in Ho.
  destruct (alookup k (s_objs s0)) as [o0|] eqn:E1; [|discriminate].
  injection Ho as <-. simpl in Hc.
  destruct (HM j s0 k o0 E0 E1 Hc) as [Hm|Hr]; [|now right].
  left. unfold chmod_obj. destruct (o_ino o0 =? i); simpl; [reflexivity|exact Hm].
Qed.

Lemma get_store_nth st si : get_store st si = nth_error (st_stores st) si.
Proof. reflexivity. Qed.

Lemma protect_one_alg st si k j : alg_at (protect_one st si k) j = alg_at st j.
Proof.
  unfold protect_one. destruct (get_store st si) as [s|]; [|reflexivity].
  destruct (s_cls s); [|reflexivity].
  destruct (alookup k (s_objs s)); [apply chmod_all_alg|reflexivity].
Qed.

Lemma protect_one_Names st si k : Names st -> Names (protect_one st si k).
Proof.
  intros HN. unfold protect_one. destruct (get_store st si) as [s|]; [|exact HN].
  destruct (s_cls s); [|exact HN].
  destruct (alookup k (s_objs s)); [now apply chmod_all_Names|exact HN].
Qed.

(* protecting id k of store si: it moves from "pending / leftover" to "done" *)
Lemma protect_one_M E st si k dn ks : M E st si dn (k :: ks) -> M E (protect_one st si k) si (k :: dn) ks.
Proof.
  intros HM.
  (* what is known about an object that is not (si, k) *)
  assert (Hother : forall j s' k' o, nth_error (st_stores st) j = Some s' ->
            alookup k' (s_objs s') = Some o -> s_cls s' = Local -> ~ (j = si /\ k' = k) ->
            o_mode o = mode_ro \/ (E j k' /\ ~ (j = si /\ In k' (k :: dn))) \/ (j = si /\ In k' ks)).
  { intros j s' k' o Hs Ho Hc Hne. destruct (HM j s' k' o Hs Ho Hc) as [?|[[A B]|[-> [<-|Hin]]]].
    - now left.
    - right. left. split; [exact A|]. intros [-> [<-|Hin]]; [now apply Hne|now apply B].
    - exfalso. now apply Hne.
    - right. right. now split. }
  unfold protect_one. rewrite get_store_nth.
  destruct (nth_error (st_stores st) si) as [s|] eqn:Es.
  2:{ intros j s' k' o Hs Ho Hc. apply (Hother j s' k' o Hs Ho Hc). intros [-> _]. congruence. }
  destruct (s_cls s) eqn:Ec.
  2:{ intros j s' k' o Hs Ho Hc. apply (Hother j s' k' o Hs Ho Hc). intros [-> _].
      rewrite Es in Hs. injection Hs as <-. congruence. }
  destruct (alookup k (s_objs s)) as [o0|] eqn:Eo.
  - intros j s' k' o Hs Ho Hc. rewrite chmod_all_nth in Hs.
    destruct (nth_error (st_stores st) j) as [s0|] eqn:E0; [|discriminate].
    injection Hs as <-. rewrite chmod_store_lookup in Ho.
    destruct (alookup k' (s_objs s0)) as [o1|] eqn:E1; [|discriminate].
    injection Ho as <-. simpl in Hc.
    destruct (Nat.eq_dec j si) as [->|Hj].
    + destruct (list_N_eqb k' k) eqn:Ek.
      * apply list_N_eqb_spec in Ek. subst k'. left.
        rewrite Es in E0. injection E0 as <-. rewrite Eo in E1. injection E1 as <-.
        unfold chmod_obj. rewrite N.eqb_refl. reflexivity.
      * assert (Hne : ~ (si = si /\ k' = k)).
        { intros [_ ->]. rewrite list_N_eqb_refl in Ek. discriminate. }
        destruct (Hother si s0 k' o1 E0 E1 Hc Hne) as [Hm|Hr]; [|now right].
        left. unfold chmod_obj. destruct (o_ino o1 =? o_ino o0); simpl; [reflexivity|exact Hm].
    + assert (Hne : ~ (j = si /\ k' = k)) by (intros [? _]; contradiction).
      destruct (Hother j s0 k' o1 E0 E1 Hc Hne) as [Hm|Hr]; [|now right].
      left. unfold chmod_obj. destruct (o_ino o1 =? o_ino o0); simpl; [reflexivity|exact Hm].
  - intros j s' k' o Hs Ho Hc. apply (Hother j s' k' o Hs Ho Hc). intros [-> ->].
    rewrite Es in Hs. injection Hs as <-. congruence.
Qed.

(* put: a new or replaced entry in store si *)
Definition put_obj (st : state) (si : nat) (k : oid) (o : obj) (nx : N) : state :=
  {| st_stores := upd_nth si (fun s => with_objs s (aput k o (s_objs s))) (st_stores st); st_next := nx |}.

Lemma put_new_eq st si k b :
  put_new st si k b = put_obj st si k {| o_bytes := b; o_mode := mode_rw; o_ino := st_next st |} (st_next st + 1).
Proof. reflexivity. Qed.
Lemma put_link_eq st si k o : put_link st si k o = put_obj st si k o (st_next st).
Proof. reflexivity. Qed.

Lemma put_obj_alg st si k o nx j : alg_at (put_obj st si k o nx) j = alg_at st j.
Proof.
  unfold alg_at, put_obj. simpl. rewrite nth_error_upd_nth.
  destruct (Nat.eqb j si); [|reflexivity]. destruct (nth_error _ j); reflexivity.
Qed.

Lemma put_obj_Names st si k o nx :
  (forall a, alg_at st si = Some a -> named_ok a k (o_bytes o)) ->
  Names st -> Names (put_obj st si k o nx).
Proof.
  intros Hk HN j s k' o' Hs Ho. unfold put_obj in Hs. simpl in Hs. rewrite nth_error_upd_nth in Hs.
  destruct (Nat.eqb j si) eqn:Ej.
  - apply Nat.eqb_eq in Ej. subst j.
    destruct (nth_error (st_stores st) si) as [s0|] eqn:E; [|discriminate].
    simpl in Hs. injection Hs as <-. simpl in Ho. rewrite alookup_aput in Ho. simpl.
    destruct (list_N_eqb k' k) eqn:Ek.
    + injection Ho as <-. apply list_N_eqb_spec in Ek. subst k'.
      apply Hk. unfold alg_at. rewrite E. reflexivity.
    + apply (HN si s0 k' o' E Ho).
  - apply (HN j s k' o' Hs Ho).
Qed.

Lemma put_obj_M E st si k o nx dn ks :
  In k ks -> M E st si dn ks -> M E (put_obj st si k o nx) si dn ks.
Proof.
  intros Hin HM j s k' o' Hs Ho Hc. unfold put_obj in Hs. simpl in Hs. rewrite nth_error_upd_nth in Hs.
  destruct (Nat.eqb j si) eqn:Ej.
  - apply Nat.eqb_eq in Ej. subst j.
    destruct (nth_error (st_stores st) si) as [s0|] eqn:E0; [|discriminate].
    simpl in Hs. injection Hs as <-. simpl in Ho, Hc. rewrite alookup_aput in Ho.
    destruct (list_N_eqb k' k) eqn:Ek.
    + apply list_N_eqb_spec in Ek. subst k'. right. right. now split.
    + apply (HM si s0 k' o' E0 Ho Hc).
  - apply (HM j s k' o' Hs Ho Hc).
Qed.

(* removal of a name *)
Lemma del_obj_alg st si k j : alg_at (del_obj st si k) j = alg_at st j.
Proof.
  unfold alg_at, del_obj. simpl. rewrite nth_error_upd_nth.
  destruct (Nat.eqb j si); [|reflexivity]. destruct (nth_error _ j); reflexivity.
Qed.

Lemma del_obj_sub st si k j s k' o :
  nth_error (st_stores (del_obj st si k)) j = Some s -> alookup k' (s_objs s) = Some o ->
  exists s0, nth_error (st_stores st) j = Some s0 /\ alookup k' (s_objs s0) = Some o /\
             s_alg s0 = s_alg s /\ s_cls s0 = s_cls s.
Proof.
  unfold del_obj. simpl. rewrite nth_error_upd_nth. intros Hs Ho.
  destruct (Nat.eqb j si).
  - destruct (nth_error (st_stores st) j) as [s0|]; [|discriminate]. simpl in Hs. injection Hs as <-.
    simpl in Ho. rewrite alookup_aremove in Ho. destruct (list_N_eqb k' k); [discriminate|].
    exists s0. auto.
  - exists s. auto.
Qed.

Lemma del_obj_Names st si k : Names st -> Names (del_obj st si k).
Proof.
  intros HN j s k' o Hs Ho. destruct (del_obj_sub _ _ _ _ _ _ _ Hs Ho) as (s0 & A & B & C & _).
  rewrite <- C. apply (HN j s0 k' o A B).
Qed.

Lemma del_obj_M E st si k sj dn ks : M E st sj dn ks -> M E (del_obj st si k) sj dn ks.
Proof.
  intros HM j s k' o Hs Ho Hc. destruct (del_obj_sub _ _ _ _ _ _ _ Hs Ho) as (s0 & A & B & _ & D).
  apply (HM j s0 k' o A B). congruence.
Qed.

(* LocalHashFileDB.check during a status query *)
Lemma check_obj_ok E st si k :
  Names st -> M E st O [] [] ->
  Names (check_obj H st si k) /\ M E (check_obj H st si k) O [] [] /\
  forall j, alg_at (check_obj H st si k) j = alg_at st j.
Proof.
  intros HN HM. unfold check_obj.
  destruct (get_store st si) as [s|]; [|auto].
  destruct (s_cls s); [|auto].
  destruct (alookup k (s_objs s)) as [o|]; [|auto].
  destruct (o_mode o =? mode_ro); [auto|].
  destruct (list_N_eqb _ _).
  - split; [now apply chmod_all_Names|]. split; [now apply chmod_all_M|]. intros j. apply chmod_all_alg.
  - split; [now apply del_obj_Names|]. split; [now apply del_obj_M|]. intros j. apply del_obj_alg.
Qed.

Lemma check_all_ok E st si ks :
  Names st -> M E st O [] [] ->
  Names (check_all H st si ks) /\ M E (check_all H st si ks) O [] [] /\
  forall j, alg_at (check_all H st si ks) j = alg_at st j.
Proof.
  unfold check_all. revert st. induction ks as [|k r IH]; intros st HN HM; simpl; [auto|].
  destruct (check_obj_ok E st si k HN HM) as (A & B & C).
  destruct (IH _ A B) as (A' & B' & C'). split; [exact A'|]. split; [exact B'|].
  intros j. rewrite C'. apply C.
Qed.

(* moving id k of store si from "pending" to "done" when its object (if any) is read-only *)
Lemma M_shift E st si k dn ks :
  M E st si dn (k :: ks) ->
  (forall s o, nth_error (st_stores st) si = Some s -> alookup k (s_objs s) = Some o ->
               s_cls s = Local -> o_mode o = mode_ro) ->
  M E st si (k :: dn) ks.
Proof.
  intros HM Hk j s k' o Hs Ho Hc.
  destruct (Nat.eq_dec j si) as [->|Hj].
  - destruct (list_N_eqb k' k) eqn:Ek.
    + apply list_N_eqb_spec in Ek. subst k'. left. now apply (Hk s o).
    + assert (Hne : k' <> k) by (intros ->; rewrite list_N_eqb_refl in Ek; discriminate).
      destruct (HM si s k' o Hs Ho Hc) as [?|[[A B]|[_ [Heq|Hin]]]].
      * now left.
      * right. left. split; [exact A|]. intros [_ [Heq|Hin]]; [now apply Hne|now apply B].
      * exfalso. now apply Hne.
      * right. right. now split.
  - destruct (HM j s k' o Hs Ho Hc) as [?|[[A B]|[? _]]]; [now left| |contradiction].
    right. left. split; [exact A|]. intros [? _]. contradiction.
Qed.

Lemma del_obj_absent st si k s : nth_error (st_stores (del_obj st si k)) si = Some s -> alookup k (s_objs s) = None.
Proof.
  unfold del_obj. simpl. rewrite nth_error_upd_nth, Nat.eqb_refl.
  destruct (nth_error (st_stores st) si) as [s0|]; [|discriminate]. simpl. intros [= <-]. simpl.
  rewrite alookup_aremove, list_N_eqb_refl. reflexivity.
Qed.

Lemma verify_one_alg st si k j : alg_at (verify_one H st si k) j = alg_at st j.
Proof.
  unfold verify_one. destruct (get_store st si) as [s|]; [|reflexivity].
  destruct (alookup k (s_objs s)); [|reflexivity].
  destruct (list_N_eqb _ _); [apply protect_one_alg|apply del_obj_alg].
Qed.

Lemma verify_one_Names st si k : Names st -> Names (verify_one H st si k).
Proof.
  intros HN. unfold verify_one. destruct (get_store st si) as [s|]; [|exact HN].
  destruct (alookup k (s_objs s)); [|exact HN].
  destruct (list_N_eqb _ _); [now apply protect_one_Names|now apply del_obj_Names].
Qed.

Lemma verify_one_M E st si k dn ks : M E st si dn (k :: ks) -> M E (verify_one H st si k) si (k :: dn) ks.
Proof.
  intros HM. unfold verify_one. rewrite get_store_nth.
  destruct (nth_error (st_stores st) si) as [s|] eqn:Es.
  2:{ apply M_shift; [exact HM|]. intros s o Hs. congruence. }
  destruct (alookup k (s_objs s)) as [o|] eqn:Eo.
  2:{ apply M_shift; [exact HM|]. intros s' o Hs Ho. congruence. }
  destruct (list_N_eqb _ _); [now apply protect_one_M|].
  apply M_shift; [now apply del_obj_M|]. intros s' o' Hs Ho. rewrite (del_obj_absent _ _ _ _ Hs) in Ho. discriminate.
Qed.

Lemma verify_fold E st si (ks dn : list oid) :
  Names st -> M E st si dn ks ->
  Names (fold_left (fun s k => verify_one H s si k) ks st) /\
  M E (fold_left (fun s k => verify_one H s si k) ks st) si (rev ks ++ dn) [] /\
  forall j, alg_at (fold_left (fun s k => verify_one H s si k) ks st) j = alg_at st j.
Proof.
  revert st dn. induction ks as [|k r IH]; intros st dn HN HM; simpl.
  - auto.
  - destruct (IH (verify_one H st si k) (k :: dn)) as (A & B & C).
    + now apply verify_one_Names.
    + now apply verify_one_M.
    + split; [exact A|]. split; [now rewrite <- app_assoc|]. intros j. rewrite C. apply verify_one_alg.
Qed.

(* ------------------------------------------------------------------ add *)
Definition item_ok (st : state) (si : nat) (k : oid) (b : list N) : Prop :=
  forall a, alg_at st si = Some a -> named_ok a k b.

Lemma protect_fold E st si (ks dn : list oid) :
  Names st -> M E st si dn ks ->
  Names (fold_left (fun s k => protect_one s si k) ks st) /\
  M E (fold_left (fun s k => protect_one s si k) ks st) si (rev ks ++ dn) [] /\
  forall j, alg_at (fold_left (fun s k => protect_one s si k) ks st) j = alg_at st j.
Proof.
  revert st dn. induction ks as [|k r IH]; intros st dn HN HM; simpl.
  - auto.
  - destruct (IH (protect_one st si k) (k :: dn)) as (A & B & C).
    + now apply protect_one_Names.
    + now apply protect_one_M.
    + split; [exact A|]. split; [now rewrite <- app_assoc|]. intros j. rewrite C. apply protect_one_alg.
Qed.

Lemma mem_In k l : mem k l = true <-> In k l.
Proof.
  unfold mem. rewrite existsb_exists. split.
  - intros (x & Hx & E). apply list_N_eqb_spec in E. now subst.
  - intros Hin. exists k. split; [exact Hin|apply list_N_eqb_refl].
Qed.

Lemma distinct_acc_In seen l k : In k (distinct_acc seen l) <-> In k l /\ ~ In k seen.
Proof.
  revert seen. induction l as [|x r IH]; intros seen; simpl; [tauto|].
  destruct (mem x seen) eqn:Em.
  - apply mem_In in Em. rewrite IH. split; [tauto|]. intros [[->|?] Hn]; [contradiction|tauto].
  - assert (Hx : ~ In x seen) by (intros Hin; apply mem_In in Hin; congruence).
    simpl. rewrite IH. simpl. split.
    + intros [->|[A B]]; [tauto|]. split; [tauto|]. intros C. apply B. now right.
    + intros [[->|A] B]; [now left|]. destruct (list_N_eqb x k) eqn:E.
      * apply list_N_eqb_spec in E. now left.
      * right. split; [exact A|]. intros [->|C]; [|contradiction]. rewrite list_N_eqb_refl in E. discriminate.
Qed.

Lemma distinct_In l k : In k (distinct l) <-> In k l.
Proof. unfold distinct. rewrite distinct_acc_In. simpl. tauto. Qed.

Lemma M_pending_incl E st si dn ks ks' : incl ks ks' -> M E st si dn ks -> M E st si dn ks'.
Proof.
  intros Hi HM j s k o Hs Ho Hc. destruct (HM j s k o Hs Ho Hc) as [?|[?|[A B]]]; [now left|now (right; left)|].
  right. right. split; [exact A|now apply Hi].
Qed.

Lemma fold_protect_map {A} (f : A -> oid) st si (items : list A) :
  fold_left (fun s it => protect_one s si (f it)) items st =
  fold_left (fun s k => protect_one s si k) (map f items) st.
Proof. revert st. induction items; intros; simpl; auto. Qed.

(* the leftovers once the ids [ks] of store [si] have been added or covered *)
Definition lminus (E : lset) (si : nat) (ks : list oid) : lset :=
  fun j k => E j k /\ ~ (j = si /\ In k ks).

Lemma M_done_lminus E st si ks : M E st si (rev ks ++ []) [] -> M (lminus E si ks) st O [] [].
Proof.
  intros HM. apply M_done in HM. eapply M_weaken; [|exact HM].
  intros j k [A B]. split; [exact A|]. intros [-> Hin]. apply B. split; [reflexivity|].
  rewrite app_nil_r. now apply in_rev in Hin.
Qed.

Lemma M_done_distinct E st si l :
  M E st si (rev (distinct l) ++ []) [] -> M (lminus E si l) st O [] [].
Proof.
  intros HM. apply M_done in HM. eapply M_weaken; [|exact HM].
  intros j k [A B]. split; [exact A|]. intros [-> Hin]. apply B. split; [reflexivity|].
  rewrite app_nil_r. rewrite <- in_rev. now apply distinct_In.
Qed.

Lemma add_copy_ok E st si items ce :
  (forall it, In it items -> item_ok st si (fst it) (snd it)) ->
  Names st -> M E st O [] [] ->
  Names (add_copy st si items ce) /\ M (lminus E si (map fst items)) (add_copy st si items ce) O [] [] /\
  forall j, alg_at (add_copy st si items ce) j = alg_at st j.
Proof.
  intros Hit HN HM. unfold add_copy.
  set (to_add := if ce then filter _ items else items).
  assert (Hsub : incl to_add items).
  { subst to_add. destruct ce; [|apply incl_refl]. intros x Hx. apply filter_In in Hx. tauto. }
  clearbody to_add.
  assert (Hgen : forall l st0, incl l items ->
            (forall j, alg_at st0 j = alg_at st j) ->
            Names st0 -> M E st0 si [] (map fst items) ->
            let st1 := fold_left (fun s it => put_new s si (fst it) (snd it)) l st0 in
            Names st1 /\ M E st1 si [] (map fst items) /\ forall j, alg_at st1 j = alg_at st j).
  { induction l as [|it r IH]; intros st0 Hl Ha HN0 HM0; simpl.
    - auto.
    - apply IH.
      + intros x Hx. apply Hl. now right.
      + intros j. rewrite put_new_eq, put_obj_alg. apply Ha.
      + rewrite put_new_eq. apply put_obj_Names; [|exact HN0]. simpl.
        intros a Hal. rewrite Ha in Hal. apply (Hit it); [apply Hl; now left|exact Hal].
      + rewrite put_new_eq. apply put_obj_M; [|exact HM0].
        apply in_map. apply Hl. now left. }
  destruct (Hgen to_add st Hsub (fun j => eq_refl) HN
              (M_pending E st si _ (M_nil_any E st O si HM))) as (A & B & C).
  assert (B0 : M E (fold_left (fun s it => put_new s si (fst it) (snd it)) to_add st) si []
                 (distinct (map fst items))).
  { eapply M_pending_incl; [|exact B]. intros k Hk. now apply distinct_In. }
  destruct (protect_fold E _ si (distinct (map fst items)) [] A B0) as (A' & B' & C').
  split; [exact A'|]. split; [now apply M_done_distinct|]. intros j. rewrite C'. apply C.
Qed.

Lemma add_link_ok E st si (items : list (oid * obj)) hard :
  (forall it, In it items -> item_ok st si (fst it) (o_bytes (snd it))) ->
  Names st -> M E st O [] [] ->
  Names (add_link st si items hard) /\ M (lminus E si (map fst items)) (add_link st si items hard) O [] [] /\
  forall j, alg_at (add_link st si items hard) j = alg_at st j.
Proof.
  intros Hit HN HM. unfold add_link.
  set (to_add := filter _ items).
  assert (Hsub : incl to_add items).
  { subst to_add. intros x Hx. apply filter_In in Hx. tauto. }
  clearbody to_add.
  assert (Hgen : forall l st0, incl l items ->
            (forall j, alg_at st0 j = alg_at st j) ->
            Names st0 -> M E st0 si [] (map fst items) ->
            let st1 := fold_left (fun s it =>
               if hard then
                 match o_bytes (snd it) with
                 | [] => put_new s si (fst it) []
                 | _ => if store_has s si (fst it) then s else put_link s si (fst it) (snd it)
                 end
               else put_new s si (fst it) (o_bytes (snd it))) l st0 in
            Names st1 /\ M E st1 si [] (map fst items) /\ forall j, alg_at st1 j = alg_at st j).
  { induction l as [|it r IH]; intros st0 Hl Ha HN0 HM0; simpl.
    - auto.
    - assert (Hin : In it items) by (apply Hl; now left).
      assert (Hk : In (fst it) (map fst items)) by (now apply in_map).
      assert (Hok : forall a, alg_at st0 si = Some a -> named_ok a (fst it) (o_bytes (snd it))).
      { intros a Hal. rewrite Ha in Hal. now apply (Hit it). }
      assert (Hr : incl r items) by (intros x Hx; apply Hl; now right).
      destruct hard.
      + destruct (o_bytes (snd it)) eqn:Eb.
        * apply IH; [exact Hr| | |].
          -- intros j. rewrite put_new_eq, put_obj_alg. apply Ha.
          -- rewrite put_new_eq. apply put_obj_Names; [|exact HN0]. simpl. exact Hok.
          -- rewrite put_new_eq. now apply put_obj_M.
        * destruct (store_has st0 si (fst it)).
          -- now apply IH.
          -- apply IH; [exact Hr| | |].
             ++ intros j. rewrite put_link_eq, put_obj_alg. apply Ha.
             ++ rewrite put_link_eq. apply put_obj_Names; [|exact HN0]. rewrite Eb. exact Hok.
             ++ rewrite put_link_eq. now apply put_obj_M.
      + apply IH; [exact Hr| | |].
        * intros j. rewrite put_new_eq, put_obj_alg. apply Ha.
        * rewrite put_new_eq. apply put_obj_Names; [|exact HN0]. simpl. exact Hok.
        * rewrite put_new_eq. now apply put_obj_M. }
  destruct (Hgen to_add st Hsub (fun j => eq_refl) HN
              (M_pending E st si _ (M_nil_any E st O si HM))) as (A & B & C).
  match type of B with M E ?stx si [] _ =>
    assert (B0 : M E stx si [] (distinct (map fst items)))
      by (eapply M_pending_incl; [|exact B]; intros k Hk; now apply distinct_In);
    destruct (protect_fold E stx si (distinct (map fst items)) [] A B0) as (A' & B' & C')
  end.
  split; [exact A'|]. split; [now apply M_done_distinct|]. intros j. rewrite C'. apply C.
Qed.

Lemma fold_verify_map {A} (f : A -> oid) st si (items : list A) :
  fold_left (fun s it => verify_one H s si (f it)) items st =
  fold_left (fun s k => verify_one H s si k) (map f items) st.
Proof. revert st. induction items; intros; simpl; auto. Qed.

Lemma add_copy_v_ok E st si items :
  (forall it, In it items -> item_ok st si (fst it) (snd it)) ->
  Names st -> M E st O [] [] ->
  Names (add_copy_v H st si items) /\ M (lminus E si (map fst items)) (add_copy_v H st si items) O [] [] /\
  forall j, alg_at (add_copy_v H st si items) j = alg_at st j.
Proof.
  intros Hit HN HM. unfold add_copy_v.
  assert (Hgen : forall l st0, incl l items ->
            (forall j, alg_at st0 j = alg_at st j) ->
            Names st0 -> M E st0 si [] (map fst items) ->
            let st1 := fold_left (fun s it => put_new s si (fst it) (snd it)) l st0 in
            Names st1 /\ M E st1 si [] (map fst items) /\ forall j, alg_at st1 j = alg_at st j).
  { induction l as [|it r IH]; intros st0 Hl Ha HN0 HM0; simpl.
    - auto.
    - apply IH.
      + intros x Hx. apply Hl. now right.
      + intros j. rewrite put_new_eq, put_obj_alg. apply Ha.
      + rewrite put_new_eq. apply put_obj_Names; [|exact HN0]. simpl.
        intros a Hal. rewrite Ha in Hal. apply (Hit it); [apply Hl; now left|exact Hal].
      + rewrite put_new_eq. apply put_obj_M; [|exact HM0].
        apply in_map. apply Hl. now left. }
  destruct (Hgen items st (incl_refl _) (fun j => eq_refl) HN
              (M_pending E st si _ (M_nil_any E st O si HM))) as (A & B & C).
  match type of B with M E ?stx si [] _ =>
    assert (B0 : M E stx si [] (distinct (map fst items)))
      by (eapply M_pending_incl; [|exact B]; intros k Hk; now apply distinct_In);
    destruct (verify_fold E stx si (distinct (map fst items)) [] A B0) as (A' & B' & C')
  end.
  split; [exact A'|]. split; [now apply M_done_distinct|]. intros j. rewrite C'. apply C.
Qed.

(* the three facts every operation preserves, bundled *)
Definition Good (E : lset) (st0 st : state) : Prop :=
  Names st /\ M E st O [] [] /\ forall j, alg_at st j = alg_at st0 j.

Lemma Good_refl E st : Names st -> M E st O [] [] -> Good E st st.
Proof. intros; repeat split; auto. Qed.

Lemma Good_weaken (E E' : lset) st0 st : (forall j k, E j k -> E' j k) -> Good E st0 st -> Good E' st0 st.
Proof. intros Hi (A & B & C). split; [exact A|]. split; [now apply M_weaken with E|exact C]. Qed.

Lemma lminus_sub E si ks j k : lminus E si ks j k -> E j k.
Proof. now intros [A _]. Qed.

(* precise: the added ids leave the leftovers *)
Lemma add_copy_Good_minus E st0 st si items ce :
  (forall it, In it items -> item_ok st0 si (fst it) (snd it)) ->
  Good E st0 st -> Good (lminus E si (map fst items)) st0 (add_copy st si items ce).
Proof.
  intros Hit (HN & HM & HA).
  destruct (add_copy_ok E st si items ce) as (A & B & C); auto.
  - intros it Hin a Hal. rewrite HA in Hal. now apply (Hit it).
  - split; [exact A|]. split; [exact B|]. intros j. rewrite C. apply HA.
Qed.

Lemma add_copy_Good E st0 st si items ce :
  (forall it, In it items -> item_ok st0 si (fst it) (snd it)) ->
  Good E st0 st -> Good E st0 (add_copy st si items ce).
Proof.
  intros Hit HG. apply (Good_weaken (lminus E si (map fst items)) E); [intros j k; apply lminus_sub|].
  now apply add_copy_Good_minus.
Qed.

Lemma add_copy_fold_Good E st0 st si (l : list (oid * list N)) :
  (forall it, In it l -> item_ok st0 si (fst it) (snd it)) ->
  Good E st0 st -> Good E st0 (fold_left (fun s it => add_copy s si [it] false) l st).
Proof.
  revert st. induction l as [|it r IH]; intros st Hit HG; simpl; [exact HG|].
  apply IH.
  - intros x Hx. apply Hit. now right.
  - apply add_copy_Good; [|exact HG]. intros x [<-|[]]. apply Hit. now left.
Qed.

Lemma add_new_Good E vf st0 st si items :
  (forall it, In it items -> item_ok st0 si (fst it) (snd it)) ->
  Good E st0 st -> Good E st0 (add_new H vf st si items).
Proof.
  intros Hit HG. unfold add_new. destruct vf; [|now apply add_copy_Good].
  destruct HG as (HN & HM & HA).
  destruct (add_copy_v_ok E st si items) as (A & B & C); auto.
  - intros it Hin a Hal. rewrite HA in Hal. now apply (Hit it).
  - split; [exact A|]. split; [|intros j; rewrite C; apply HA].
    eapply M_weaken; [|exact B]. intros j k. apply lminus_sub.
Qed.

Lemma add_new_fold_Good E vf st0 st si (l : list (oid * list N)) :
  (forall it, In it l -> item_ok st0 si (fst it) (snd it)) ->
  Good E st0 st -> Good E st0 (fold_left (fun s it => add_new H vf s si [it]) l st).
Proof.
  revert st. induction l as [|it r IH]; intros st Hit HG; simpl; [exact HG|].
  apply IH.
  - intros x Hx. apply Hit. now right.
  - apply add_new_Good; [|exact HG]. intros x [<-|[]]. apply Hit. now left.
Qed.

Lemma check_all_Good E st0 st si ks : Good E st0 st -> Good E st0 (check_all H st si ks).
Proof.
  intros (A & B & C). destruct (check_all_ok E st si ks A B) as (A' & B' & C').
  split; [exact A'|]. split; [exact B'|]. intros j. rewrite C'. apply C.
Qed.

(* ------------------------------------------------------------------ transfer *)
Lemma items_of_src src ks k b : In (k, b) (items_of src ks) -> src k = Some b.
Proof.
  unfold items_of. intros Hin. apply in_flat_map in Hin as (k0 & _ & Hk).
  destruct (src k0) as [b0|] eqn:E; [|destruct Hk].
  destruct Hk as [[= <- <-]|[]]. exact E.
Qed.

Lemma transfer_plan_src a src vf st dst all fs ds :
  transfer_plan H a src vf st dst all = inl (fs, ds) ->
  forall it, In it (fs ++ ds) -> src (fst it) = Some (snd it).
Proof.
  unfold transfer_plan. intros Hp it Hin.
  destruct (load_all a src _) as [loaded|c]; [|discriminate].
  injection Hp as <- <-. destruct it as [k b]. simpl.
  apply in_app_or in Hin as [Hin|Hin]; eapply items_of_src; exact Hin.
Qed.

Lemma transfer_core_Good E a srcf sidx vf st0 st dst ids sh :
  (forall st', Good E st0 st' -> forall k b, srcf st' k = Some b -> item_ok st0 dst k b) ->
  Good E st0 st -> Good E st0 (fst (transfer_core H a srcf sidx vf st dst ids sh)).
Proof.
  intros Hsrc HG. unfold transfer_core.
  destruct (expand a (srcf st) ids sh) as [all|c]; simpl; [|exact HG].
  pose proof (check_all_Good E st0 st dst all HG) as HG1.
  destruct (filter _ all) as [|m ms]; simpl; [exact HG1|].
  set (st2 := match sidx with Some i => check_all H (check_all H st dst all) i all | None => check_all H st dst all end).
  assert (HG2 : Good E st0 st2).
  { subst st2. destruct sidx; [now apply check_all_Good|exact HG1]. }
  match goal with |- context[transfer_plan H a (srcf st2) ?v st2 dst all] => set (vfa := v) end.
  destruct (transfer_plan H a (srcf st2) vfa st2 dst all) as [[fs ds]|c] eqn:Ep; simpl; [|exact HG2].
  pose proof (transfer_plan_src _ _ _ _ _ _ _ _ Ep) as Hs.
  unfold apply_plan. simpl. apply add_new_fold_Good.
  - intros it Hin. apply (Hsrc st2 HG2). apply Hs. apply in_or_app. now right.
  - destruct fs as [|f fr]; [exact HG2|]. apply add_new_Good; [|exact HG2].
    intros it Hin. apply (Hsrc st2 HG2). apply Hs. apply in_or_app. now left.
Qed.

(* ------------------------------------------------------------------ staging *)
Lemma named_ok_file a b : named_ok a (H a b) b.
Proof. unfold named_ok. rewrite H_not_dir. reflexivity. Qed.

Lemma named_ok_dir a t : a <> Sha256 ->
  named_ok a (H Md5 (as_bytes false t) ++ dot_dir) (as_bytes false t).
Proof.
  intros Ha. unfold named_ok. rewrite is_dir_oid_app. split; [|now exists t].
  destruct a; [reflexivity|now rewrite H_d2u_listing|congruence].
Qed.

Lemma refs_lookup_In refs k b : refs_lookup refs k = Some b -> In (k, b) refs.
Proof. unfold refs_lookup. intros Hl. apply alookup_In in Hl. now apply in_rev. Qed.

Lemma alg_at_get st si s : get_store st si = Some s -> alg_at st si = Some (s_alg s).
Proof. unfold alg_at. rewrite get_store_nth. now intros ->. Qed.

Lemma stage_Good E st si w :
  (match w with WDir _ => forall s, get_store st si = Some s -> s_alg s <> Sha256 | WFile _ => True end) ->
  Names st -> M E st O [] [] -> Good E st (fst (stage H st si w)).
Proof.
  intros Hw HN HM. unfold stage.
  destruct (get_store st si) as [s|] eqn:Es; simpl; [|now apply Good_refl].
  pose proof (alg_at_get _ _ _ Es) as Hal.
  destruct w as [b|files].
  - apply transfer_core_Good; [|now apply Good_refl].
    intros _ _ k b0 Hl. apply refs_lookup_In in Hl. destruct Hl as [[= <- <-]|[]].
    intros a Ha. rewrite Hal in Ha. injection Ha as <-. apply named_ok_file.
  - specialize (Hw s eq_refl).
    set (hashed := map (fun kb => (fst kb, H (s_alg s) (snd kb), snd kb)) files).
    set (listing := listing_of (s_alg s) _).
    set (d := dir_oid_of H listing).
    set (refs := map _ hashed ++ [(d, listing)]).
    assert (Hd : item_ok st si d listing).
    { intros a Ha. rewrite Hal in Ha. injection Ha as <-. subst d listing.
      unfold dir_oid_of, listing_of. now apply named_ok_dir. }
    assert (Hrefs : forall st', Good E st st' -> forall k b, refs_lookup refs k = Some b -> item_ok st si k b).
    { intros _ _ k b Hl. apply refs_lookup_In in Hl. subst refs.
      apply in_app_or in Hl as [Hl|[[= <- <-]|[]]]; [|exact Hd].
      apply in_map_iff in Hl as (x & [= <- <-] & Hx). subst hashed.
      apply in_map_iff in Hx as (kb & <- & _). simpl.
      intros a Ha. rewrite Hal in Ha. injection Ha as <-. apply named_ok_file. }
    destruct (s_alg s) eqn:Ea.
    + apply transfer_core_Good; [exact Hrefs|now apply Good_refl].
    + apply transfer_core_Good; [exact Hrefs|].
      apply add_copy_Good; [|now apply Good_refl]. intros it [<-|[]]. exact Hd.
    + congruence.
Qed.

Lemma stage_upload_Good E st si w :
  (match w with WDir _ => forall s, get_store st si = Some s -> s_alg s <> Sha256 | WFile _ => True end) ->
  Names st -> M E st O [] [] -> Good E st (fst (stage_upload H st si w)).
Proof.
  intros Hw HN HM. unfold stage_upload.
  destruct (get_store st si) as [s|] eqn:Es; simpl; [|now apply Good_refl].
  assert (Hs : Good E st (fst (stage H st si w))) by (apply stage_Good; [rewrite Es|..]; assumption).
  destruct (s_alg s); [exact Hs| |]; (destruct w as [b|[|f r]]; simpl; [now apply Good_refl|exact Hs|now apply Good_refl]).
Qed.

(* ------------------------------------------------------------------ the other operations *)
Lemma add_ext_Good E st si b k :
  (forall s, get_store st si = Some s -> named_ok (s_alg s) k b) ->
  Names st -> M E st O [] [] -> Good (lminus E si [k]) st (fst (add_ext st si b k)).
Proof.
  intros Hw HN HM. unfold add_ext.
  destruct (get_store st si) as [s|] eqn:Es; simpl.
  2:{ split; [exact HN|]. split; [|reflexivity].
      intros j s' k' o Hs Ho Hc. destruct (HM j s' k' o Hs Ho Hc) as [?|[[A B]|[_ []]]]; [now left|].
      right. left. split; [|intros [_ []]]. split; [exact A|]. intros [-> _].
      rewrite get_store_nth in Es. congruence. }
  apply (add_copy_Good_minus E st st si [(k, b)] true); [|now apply Good_refl].
  intros it [<-|[]]. simpl.
  intros a Ha. rewrite (alg_at_get _ _ _ Es) in Ha. injection Ha as <-. now apply Hw.
Qed.

Lemma store_bytes_named st0 st E src dst k b :
  (forall s d, get_store st0 src = Some s -> get_store st0 dst = Some d -> s_alg s = s_alg d) ->
  Good E st0 st -> store_bytes st src k = Some b -> item_ok st0 dst k b.
Proof.
  intros Hw (HN & _ & HA) Hl a Ha. unfold store_bytes in Hl.
  destruct (get_store st src) as [s|] eqn:Es; [|discriminate].
  destruct (alookup k (s_objs s)) as [o|] eqn:Eo; [|discriminate]. injection Hl as <-.
  pose proof (HN src s k o Es Eo) as Hn.
  pose proof (HA src) as Hsrc. unfold alg_at in Hsrc, Ha. rewrite get_store_nth in Es. rewrite Es in Hsrc. simpl in Hsrc.
  destruct (nth_error (st_stores st0) src) as [s0|] eqn:Es0; [|discriminate].
  destruct (nth_error (st_stores st0) dst) as [d0|] eqn:Ed0; [|discriminate].
  simpl in Hsrc, Ha. injection Hsrc as Hsrc. injection Ha as <-.
  rewrite <- (Hw s0 d0 Es0 Ed0), <- Hsrc. exact Hn.
Qed.

Lemma transfer_op_Good E st src dst ids sh vf :
  (forall s d, get_store st src = Some s -> get_store st dst = Some d -> s_alg s = s_alg d) ->
  Names st -> M E st O [] [] -> Good E st (fst (transfer_op H st src dst ids sh vf)).
Proof.
  intros Hw HN HM. unfold transfer_op.
  destruct (get_store st src) as [s|] eqn:Es; [|now apply Good_refl].
  destruct (get_store st dst) as [d|] eqn:Ed; [|now apply Good_refl].
  destruct (Nat.eqb src dst); [now apply Good_refl|].
  apply transfer_core_Good; [|now apply Good_refl].
  intros st' HG k b Hl. eapply store_bytes_named; eauto.
  intros s0 d0 Hs0 Hd0. rewrite Es in Hs0. rewrite Ed in Hd0. now apply Hw.
Qed.

Lemma save_index_Good E st si dirs files :
  (forall s, get_store st si = Some s ->
     (forall f, In f files -> snd f = H (s_alg s) (snd (fst f))) /\ (dirs <> [] -> s_alg s <> Sha256)) ->
  Names st -> M E st O [] [] -> Good E st (fst (save_index H st si dirs files)).
Proof.
  intros Hw HN HM. unfold save_index.
  destruct (get_store st si) as [s|] eqn:Es; simpl; [|now apply Good_refl].
  destruct (Hw s eq_refl) as [Hf Hd]. pose proof (alg_at_get _ _ _ Es) as Hal.
  assert (H1 : Good E st (match files with
                        | [] => st
                        | _ => add_copy st si (map (fun f => (snd f, snd (fst f))) files) true
                        end)).
  { destruct files as [|f0 fr]; [now apply Good_refl|].
    apply add_copy_Good; [|now apply Good_refl].
    intros it Hin. apply in_map_iff in Hin as (f & <- & Hin). simpl.
    intros a Ha. rewrite Hal in Ha. injection Ha as <-. rewrite (Hf f Hin). apply named_ok_file. }
  revert H1. generalize (match files with
                         | [] => st
                         | _ => add_copy st si (map (fun f => (snd f, snd (fst f))) files) true
                         end).
  assert (Hall : forall d, In d dirs -> s_alg s <> Sha256).
  { intros d Hin. apply Hd. intros ->. destruct Hin. }
  clear Hw Hd.
  induction dirs as [|d r IH]; intros st1 H1; simpl; [exact H1|].
  apply IH.
  - intros d' Hin. apply (Hall d'). now right.
  - apply add_copy_Good; [|exact H1]. intros it [<-|[]]. simpl.
    intros a Ha. rewrite Hal in Ha. injection Ha as <-.
    unfold dir_oid_of, dir_listing, listing_of. apply named_ok_dir. apply (Hall d). now left.
Qed.

Lemma migrate_op_Good E st src dst order hard :
  Names st -> M E st O [] [] -> Good E st (fst (migrate_op H st src dst order hard)).
Proof.
  intros HN HM. unfold migrate_op.
  destruct (get_store st src) as [s|] eqn:Es; [|now apply Good_refl].
  destruct (get_store st dst) as [d|] eqn:Ed; [|now apply Good_refl].
  destruct (s_objs s) as [|p ps] eqn:Eo; [now apply Good_refl|]. rewrite <- Eo. simpl.
  destruct (add_link_ok E st dst (migrate_items H (s_alg d) (s_objs s) order) hard) as (A & B & C); auto.
  - intros it Hin. unfold migrate_items in Hin.
    apply in_flat_map in Hin as (k & _ & Hk).
    destruct (alookup k (s_objs s)) as [o|] eqn:El; [|destruct Hk].
    destruct Hk as [<-|[]]. simpl.
    intros a Ha. rewrite (alg_at_get _ _ _ Ed) in Ha. injection Ha as <-.
    pose proof (HN src s k o Es El) as Hn. unfold named_ok in Hn |- *.
    destruct (is_dir_oid k).
    + rewrite is_dir_oid_app. split; [reflexivity|apply Hn].
    + rewrite app_nil_r, H_not_dir. reflexivity.
  - split; [exact A|]. split; [|exact C]. eapply M_weaken; [|exact B]. intros j k. apply lminus_sub.
Qed.

(* ------------------------------------------------------------------ what an operation covers *)
(* a status query on store si about the ids ks: afterwards every one of them that the (local-class)
   store holds is read-only - verified and protected, or trusted - so they leave the leftovers *)
Lemma check_obj_M_done E st si k dn : M E st si dn [] -> M E (check_obj H st si k) si (k :: dn) [].
Proof.
  intros HM.
  assert (HM' : M E (check_obj H st si k) si dn []).
  { unfold check_obj. destruct (get_store st si) as [s|]; [|exact HM].
    destruct (s_cls s); [|exact HM]. destruct (alookup k (s_objs s)) as [o|]; [|exact HM].
    destruct (o_mode o =? mode_ro); [exact HM|].
    destruct (list_N_eqb _ _); [now apply chmod_all_M|now apply del_obj_M]. }
  apply M_shift; [eapply M_pending_incl; [|exact HM']; intros x []|].
  intros s' o' Hs Ho Hc. unfold check_obj in Hs. rewrite get_store_nth in Hs.
  destruct (nth_error (st_stores st) si) as [s|] eqn:Es; [|congruence].
  destruct (s_cls s) eqn:Ec.
  2:{ rewrite Es in Hs. injection Hs as <-. congruence. }
  destruct (alookup k (s_objs s)) as [o|] eqn:Eo.
  2:{ rewrite Es in Hs. injection Hs as <-. congruence. }
  destruct (o_mode o =? mode_ro) eqn:Em.
  { rewrite Es in Hs. injection Hs as <-. rewrite Eo in Ho. injection Ho as <-. now apply N.eqb_eq. }
  destruct (list_N_eqb _ _).
  - rewrite chmod_all_nth, Es in Hs. simpl in Hs. injection Hs as <-.
    rewrite chmod_store_lookup, Eo in Ho. simpl in Ho. injection Ho as <-.
    unfold chmod_obj. rewrite N.eqb_refl. reflexivity.
  - rewrite (del_obj_absent _ _ _ _ Hs) in Ho. discriminate.
Qed.

Lemma check_all_M_done E st si ks dn :
  M E st si dn [] -> M E (check_all H st si ks) si (rev ks ++ dn) [].
Proof.
  unfold check_all. revert st dn. induction ks as [|k r IH]; intros st dn HM; simpl; [exact HM|].
  rewrite <- app_assoc. apply IH. now apply check_obj_M_done.
Qed.

Lemma check_all_Good_minus E st0 st si ks :
  Good E st0 st -> Good (lminus E si ks) st0 (check_all H st si ks).
Proof.
  intros HG. destruct (check_all_Good E st0 st si ks HG) as (A & _ & C). destruct HG as (_ & HM & _).
  split; [exact A|]. split; [|exact C]. apply M_done_lminus. apply check_all_M_done. now apply M_nil_any with O.
Qed.

Definition expand_ids (a : alg) (src : oid -> option (list N)) (ids : list oid) (sh : bool) : list oid :=
  match expand a src ids sh with inl all => all | inr _ => [] end.

Lemma lminus_nil (E : lset) si j k : E j k -> lminus E si [] j k.
Proof. intros A. split; [exact A|]. intros [_ []]. Qed.

(* a transfer covers every id it asks about (the requested ones and, unless shallow, the files the
   requested directories list): the destination either holds it read-only afterwards or not at all *)
Lemma transfer_core_Good_minus E a srcf sidx vf st0 st dst ids sh :
  (forall st', Good E st0 st' -> forall k b, srcf st' k = Some b -> item_ok st0 dst k b) ->
  Good E st0 st ->
  Good (lminus E dst (expand_ids a (srcf st) ids sh)) st0 (fst (transfer_core H a srcf sidx vf st dst ids sh)).
Proof.
  intros Hsrc HG. unfold transfer_core, expand_ids.
  destruct (expand a (srcf st) ids sh) as [all|c]; simpl.
  2:{ eapply Good_weaken; [|exact HG]. intros j k. apply lminus_nil. }
  set (E' := lminus E dst all).
  assert (Hsub : forall j k, E' j k -> E j k) by (intros j k; apply lminus_sub).
  assert (Hsrc' : forall st', Good E' st0 st' -> forall k b, srcf st' k = Some b -> item_ok st0 dst k b).
  { intros st' HG'. apply Hsrc. now apply Good_weaken with E'. }
  pose proof (check_all_Good_minus E st0 st dst all HG) as HG1. fold E' in HG1.
  destruct (filter _ all) as [|m ms]; simpl; [exact HG1|].
  set (st2 := match sidx with Some i => check_all H (check_all H st dst all) i all | None => check_all H st dst all end).
  assert (HG2 : Good E' st0 st2).
  { subst st2. destruct sidx; [now apply check_all_Good|exact HG1]. }
  match goal with |- context[transfer_plan H a (srcf st2) ?v st2 dst all] => set (vfa := v) end.
  destruct (transfer_plan H a (srcf st2) vfa st2 dst all) as [[fs ds]|c] eqn:Ep; simpl; [|exact HG2].
  pose proof (transfer_plan_src _ _ _ _ _ _ _ _ Ep) as Hs.
  unfold apply_plan. simpl. apply add_new_fold_Good.
  - intros it Hin. apply (Hsrc' st2 HG2). apply Hs. apply in_or_app. now right.
  - destruct fs as [|f fr]; [exact HG2|]. apply add_new_Good; [|exact HG2].
    intros it Hin. apply (Hsrc' st2 HG2). apply Hs. apply in_or_app. now left.
Qed.

(* the ids an operation adds or covers, and the store they are in *)
Definition stage_cov (st : state) (si : nat) (w : work) : list oid :=
  match get_store st si with
  | None => []
  | Some s =>
      let a := s_alg s in
      match w with
      | WFile b => let k := H a b in expand_ids a (refs_lookup [(k, b)]) [k] false
      | WDir files =>
          let hashed := map (fun kb => (fst kb, H a (snd kb), snd kb)) files in
          let listing := listing_of a (map (fun x => (fst (fst x), snd (fst x))) hashed) in
          let d := dir_oid_of H listing in
          let refs := map (fun x => (snd (fst x), snd x)) hashed ++ [(d, listing)] in
          match a with
          | Md5 => expand_ids a (refs_lookup refs) [d] false
          | _ => expand_ids a (refs_lookup refs) [H a listing ++ dot_dir] false
          end
      end
  end.

Definition covered (st : state) (o : op) : nat * list oid :=
  match o with
  | OStage si w => (si, stage_cov st si w)
  | OStageUpload si w =>
      (si, match get_store st si with
           | Some s => match s_alg s, w with
                       | Md5, _ => stage_cov st si w
                       | _, WDir [] => stage_cov st si w
                       | _, _ => []
                       end
           | None => []
           end)
  | OAdd si _ k => (si, [k])
  | OTransfer src dst ids sh _ =>
      (dst, match get_store st src, get_store st dst with
            | Some s, Some _ => if Nat.eqb src dst then []
                                else expand_ids (s_alg s) (fun k => store_bytes st src k) ids sh
            | _, _ => []
            end)
  | OSaveIndex si dirs files =>
      (si, match get_store st si with
           | Some s => map (fun f => snd f) files
                       ++ map (fun d => dir_oid_of H (dir_listing (s_alg s) files d)) dirs
           | None => []
           end)
  | OMigrate src dst order _ =>
      (dst, match get_store st src, get_store st dst with
            | Some s, Some d => map fst (migrate_items H (s_alg d) (s_objs s) order)
            | _, _ => []
            end)
  | OReopen si _ => (si, [])
  | ORot si _ _ => (si, [])
  end.

Lemma Good_nil E st0 st si : Good E st0 st -> Good (lminus E si []) st0 st.
Proof. apply Good_weaken. intros j k. apply lminus_nil. Qed.

Lemma lminus_lminus_app (E : lset) si a b j k : lminus (lminus E si a) si b j k -> lminus E si (a ++ b) j k.
Proof.
  intros [[A B] C]. split; [exact A|]. intros [-> Hin]. apply in_app_or in Hin as [?|?]; [apply B|apply C]; auto.
Qed.

Lemma stage_Good_minus E st si w :
  (match w with WDir _ => forall s, get_store st si = Some s -> s_alg s <> Sha256 | WFile _ => True end) ->
  Names st -> M E st O [] [] -> Good (lminus E si (stage_cov st si w)) st (fst (stage H st si w)).
Proof.
  intros Hw HN HM. unfold stage, stage_cov.
  destruct (get_store st si) as [s|] eqn:Es; simpl; [|apply Good_nil; now apply Good_refl].
  pose proof (alg_at_get _ _ _ Es) as Hal.
  destruct w as [b|files].
  - apply (transfer_core_Good_minus E (s_alg s) (fun _ => refs_lookup [(H (s_alg s) b, b)])); [|now apply Good_refl].
    intros _ _ k b0 Hl. apply refs_lookup_In in Hl. destruct Hl as [[= <- <-]|[]].
    intros a Ha. rewrite Hal in Ha. injection Ha as <-. apply named_ok_file.
  - specialize (Hw s eq_refl).
    set (hashed := map (fun kb => (fst kb, H (s_alg s) (snd kb), snd kb)) files).
    set (listing := listing_of (s_alg s) _).
    set (d := dir_oid_of H listing).
    set (refs := map _ hashed ++ [(d, listing)]).
    assert (Hd : item_ok st si d listing).
    { intros a Ha. rewrite Hal in Ha. injection Ha as <-. subst d listing.
      unfold dir_oid_of, listing_of. now apply named_ok_dir. }
    assert (Hrefs : forall st', Good E st st' -> forall k b, refs_lookup refs k = Some b -> item_ok st si k b).
    { intros _ _ k b Hl. apply refs_lookup_In in Hl. subst refs.
      apply in_app_or in Hl as [Hl|[[= <- <-]|[]]]; [|exact Hd].
      apply in_map_iff in Hl as (x & [= <- <-] & Hx). subst hashed.
      apply in_map_iff in Hx as (kb & <- & _). simpl.
      intros a Ha. rewrite Hal in Ha. injection Ha as <-. apply named_ok_file. }
    destruct (s_alg s) eqn:Ea.
    + apply (transfer_core_Good_minus E Md5 (fun _ => refs_lookup refs)); [exact Hrefs|now apply Good_refl].
    + apply (transfer_core_Good_minus E Md5D2U (fun _ => refs_lookup refs)); [exact Hrefs|].
      apply add_copy_Good; [|now apply Good_refl]. intros it [<-|[]]. exact Hd.
    + congruence.
Qed.

Lemma stage_upload_Good_minus E st si w :
  (match w with WDir _ => forall s, get_store st si = Some s -> s_alg s <> Sha256 | WFile _ => True end) ->
  Names st -> M E st O [] [] ->
  Good (lminus E si (snd (covered st (OStageUpload si w)))) st (fst (stage_upload H st si w)).
Proof.
  intros Hw HN HM. unfold stage_upload, covered. cbn [snd].
  destruct (get_store st si) as [s|] eqn:Es; simpl; [|apply Good_nil; now apply Good_refl].
  assert (Hs : Good (lminus E si (stage_cov st si w)) st (fst (stage H st si w)))
    by (apply stage_Good_minus; [rewrite Es|..]; assumption).
  destruct (s_alg s); [exact Hs| |];
    (destruct w as [b|[|f r]]; simpl; [apply Good_nil; now apply Good_refl|exact Hs|apply Good_nil; now apply Good_refl]).
Qed.

Lemma transfer_op_Good_minus E st src dst ids sh vf :
  (forall s d, get_store st src = Some s -> get_store st dst = Some d -> s_alg s = s_alg d) ->
  Names st -> M E st O [] [] ->
  Good (lminus E dst (snd (covered st (OTransfer src dst ids sh vf)))) st (fst (transfer_op H st src dst ids sh vf)).
Proof.
  intros Hw HN HM. unfold transfer_op, covered. cbn [snd].
  destruct (get_store st src) as [s|] eqn:Es; [|apply Good_nil; now apply Good_refl].
  destruct (get_store st dst) as [d|] eqn:Ed; [|apply Good_nil; now apply Good_refl].
  destruct (Nat.eqb src dst); [apply Good_nil; now apply Good_refl|].
  apply (transfer_core_Good_minus E (s_alg s) (fun st' k => store_bytes st' src k)); [|now apply Good_refl].
  intros st' HG k b Hl. eapply store_bytes_named; eauto.
  intros s0 d0 Hs0 Hd0. rewrite Es in Hs0. rewrite Ed in Hd0. now apply Hw.
Qed.

Lemma save_index_Good_minus E st si dirs files :
  (forall s, get_store st si = Some s ->
     (forall f, In f files -> snd f = H (s_alg s) (snd (fst f))) /\ (dirs <> [] -> s_alg s <> Sha256)) ->
  Names st -> M E st O [] [] ->
  Good (lminus E si (snd (covered st (OSaveIndex si dirs files)))) st (fst (save_index H st si dirs files)).
Proof.
  intros Hw HN HM. unfold save_index, covered. cbn [snd].
  destruct (get_store st si) as [s|] eqn:Es; simpl; [|apply Good_nil; now apply Good_refl].
  destruct (Hw s eq_refl) as [Hf Hd]. pose proof (alg_at_get _ _ _ Es) as Hal.
  set (fk := map (fun f => snd f) files).
  assert (H1 : Good (lminus E si fk) st (match files with
                        | [] => st
                        | _ => add_copy st si (map (fun f => (snd f, snd (fst f))) files) true
                        end)).
  { destruct files as [|f0 fr]; [apply Good_nil; now apply Good_refl|].
    replace fk with (map fst (map (fun f => (snd f, snd (fst f))) (f0 :: fr)))
      by (subst fk; rewrite map_map; reflexivity).
    apply add_copy_Good_minus; [|now apply Good_refl].
    intros it Hin. apply in_map_iff in Hin as (f & <- & Hin). simpl.
    intros a Ha. rewrite Hal in Ha. injection Ha as <-. rewrite (Hf f Hin). apply named_ok_file. }
  revert H1. generalize (match files with
                         | [] => st
                         | _ => add_copy st si (map (fun f => (snd f, snd (fst f))) files) true
                         end).
  assert (Hall : forall d, In d dirs -> s_alg s <> Sha256).
  { intros d Hin. apply Hd. intros ->. destruct Hin. }
  clear Hw Hd. generalize fk. clear fk.
  induction dirs as [|d r IH]; intros fk st1 H1; simpl.
  - now rewrite app_nil_r.
  - replace (fk ++ dir_oid_of H (dir_listing (s_alg s) files d) :: map (fun d0 => dir_oid_of H (dir_listing (s_alg s) files d0)) r)
      with ((fk ++ [dir_oid_of H (dir_listing (s_alg s) files d)]) ++ map (fun d0 => dir_oid_of H (dir_listing (s_alg s) files d0)) r)
      by (rewrite <- app_assoc; reflexivity).
    apply IH.
    + intros d' Hin. apply (Hall d'). now right.
    + eapply Good_weaken; [intros j k; apply lminus_lminus_app|].
      apply (add_copy_Good_minus (lminus E si fk) st st1 si [(dir_oid_of H (dir_listing (s_alg s) files d), dir_listing (s_alg s) files d)] true);
        [|exact H1].
      intros it [<-|[]]. simpl. intros a Ha. rewrite Hal in Ha. injection Ha as <-.
      unfold dir_oid_of, dir_listing, listing_of. apply named_ok_dir. apply (Hall d). now left.
Qed.

Lemma migrate_op_Good_minus E st src dst order hard :
  Names st -> M E st O [] [] ->
  Good (lminus E dst (snd (covered st (OMigrate src dst order hard)))) st (fst (migrate_op H st src dst order hard)).
Proof.
  intros HN HM. unfold migrate_op, covered. cbn [snd].
  destruct (get_store st src) as [s|] eqn:Es; [|apply Good_nil; now apply Good_refl].
  destruct (get_store st dst) as [d|] eqn:Ed; [|apply Good_nil; now apply Good_refl].
  destruct (s_objs s) as [|p ps] eqn:Eo.
  { simpl. apply (Good_weaken E); [|now apply Good_refl]. intros j k A. split; [exact A|].
    intros [_ Hin]. unfold migrate_items in Hin. apply in_map_iff in Hin as (it & _ & Hit).
    apply in_flat_map in Hit as (k0 & _ & Hk). simpl in Hk. destruct Hk. }
  rewrite <- Eo. simpl.
  destruct (add_link_ok E st dst (migrate_items H (s_alg d) (s_objs s) order) hard) as (A & B & C); auto.
  - intros it Hin. unfold migrate_items in Hin.
    apply in_flat_map in Hin as (k & _ & Hk).
    destruct (alookup k (s_objs s)) as [o|] eqn:El; [|destruct Hk].
    destruct Hk as [<-|[]]. simpl.
    intros a Ha. rewrite (alg_at_get _ _ _ Ed) in Ha. injection Ha as <-.
    pose proof (HN src s k o Es El) as Hn. unfold named_ok in Hn |- *.
    destruct (is_dir_oid k).
    + rewrite is_dir_oid_app. split; [reflexivity|apply Hn].
    + rewrite app_nil_r, H_not_dir. reflexivity.
  - split; [exact A|]. split; [exact B|exact C].
Qed.

(* the same directory under the other class: what is unprotected there becomes a leftover *)
Definition unprotected (st : state) (si : nat) (k : oid) : Prop :=
  exists s o, get_store st si = Some s /\ alookup k (s_objs s) = Some o /\ o_mode o <> mode_ro.

Lemma set_cls_nth st si c j :
  nth_error (st_stores (set_cls st si c)) j =
  if Nat.eqb j si then option_map (fun s => {| s_cls := c; s_alg := s_alg s; s_objs := s_objs s |})
                                  (nth_error (st_stores st) j)
  else nth_error (st_stores st) j.
Proof. unfold set_cls. simpl. apply nth_error_upd_nth. Qed.

Lemma reopen_Good E st si c :
  Names st -> M E st O [] [] ->
  Good (fun j k => E j k \/ (j = si /\ c = Local /\ unprotected st si k)) st (set_cls st si c).
Proof.
  intros HN HM. split; [|split].
  - intros j s k o Hs Ho. rewrite set_cls_nth in Hs. destruct (Nat.eqb j si).
    + destruct (nth_error (st_stores st) j) as [s0|] eqn:E0; [|discriminate].
      simpl in Hs. injection Hs as <-. simpl in *. apply (HN j s0 k o E0 Ho).
    + apply (HN j s k o Hs Ho).
  - intros j s k o Hs Ho Hc. rewrite set_cls_nth in Hs. destruct (Nat.eqb j si) eqn:Ej.
    + apply Nat.eqb_eq in Ej. subst j.
      destruct (nth_error (st_stores st) si) as [s0|] eqn:E0; [|discriminate].
      simpl in Hs. injection Hs as <-. simpl in *. subst c.
      destruct (N.eq_dec (o_mode o) mode_ro) as [?|Hne]; [now left|].
      right. left. split; [|intros [_ []]]. right. split; [reflexivity|]. split; [reflexivity|].
      exists s0, o. rewrite get_store_nth. auto.
    + destruct (HM j s k o Hs Ho Hc) as [?|[[A B]|[_ []]]]; [now left|].
      right. left. split; [now left|exact B].
  - intros j. unfold alg_at. rewrite set_cls_nth. destruct (Nat.eqb j si); [|reflexivity].
    destruct (nth_error (st_stores st) j); reflexivity.
Qed.

(* ------------------------------------------------------------------ verifying transfers *)
(* What verification (HashFileDB.check) compares: the digest of the bytes against the id, both cut
   at the first "." (actual.value.split(".")[0] != oid.split(".")[0]). *)
Definition stem_ok (a : alg) (k : oid) (b : list N) : Prop := stem (H a b) = stem k.

(* every object of store j is filed under (the stem of) its digest, except the ids [ks] that a
   verifying add has copied and not yet verified *)
Definition StemP (st : state) (j : nat) (ks : list oid) : Prop :=
  forall s k o, nth_error (st_stores st) j = Some s -> alookup k (s_objs s) = Some o ->
    stem_ok (s_alg s) k (o_bytes o) \/ In k ks.

Lemma chmod_all_Stem i m st j ks : StemP st j ks -> StemP (chmod_all i m st) j ks.
Proof.
  intros HS s k o Hs Ho. rewrite chmod_all_nth in Hs.
  destruct (nth_error (st_stores st) j) as [s0|] eqn:E0; [|discriminate].
  injection Hs as <-. rewrite chmod_store_lookup in Ho.
  destruct (alookup k (s_objs s0)) as [o0|] eqn:E1; [|discriminate].
  injection Ho as <-. rewrite chmod_obj_bytes. simpl. apply (HS s0 k o0 E0 E1).
Qed.

Lemma del_obj_Stem st si k j ks : StemP st j ks -> StemP (del_obj st si k) j ks.
Proof.
  intros HS s k' o Hs Ho. destruct (del_obj_sub _ _ _ _ _ _ _ Hs Ho) as (s0 & A & B & C & _).
  rewrite <- C. apply (HS s0 k' o A B).
Qed.

Lemma protect_one_Stem st si k j ks : StemP st j ks -> StemP (protect_one st si k) j ks.
Proof.
  intros HS. unfold protect_one. destruct (get_store st si) as [s|]; [|exact HS].
  destruct (s_cls s); [|exact HS].
  destruct (alookup k (s_objs s)); [now apply chmod_all_Stem|exact HS].
Qed.

Lemma check_obj_Stem st si k j ks : StemP st j ks -> StemP (check_obj H st si k) j ks.
Proof.
  intros HS. unfold check_obj. destruct (get_store st si) as [s|]; [|exact HS].
  destruct (s_cls s); [|exact HS].
  destruct (alookup k (s_objs s)) as [o|]; [|exact HS].
  destruct (o_mode o =? mode_ro); [exact HS|].
  destruct (list_N_eqb _ _); [now apply chmod_all_Stem|now apply del_obj_Stem].
Qed.

Lemma check_all_Stem st si l j ks : StemP st j ks -> StemP (check_all H st si l) j ks.
Proof.
  unfold check_all. revert st. induction l as [|k r IH]; intros st HS; simpl; [exact HS|].
  apply IH. now apply check_obj_Stem.
Qed.

Lemma put_new_Stem st j k b ks : In k ks -> StemP st j ks -> StemP (put_new st j k b) j ks.
Proof.
  intros Hin HS s k' o Hs Ho. rewrite put_new_eq in Hs. unfold put_obj in Hs. simpl in Hs.
  rewrite nth_error_upd_nth, Nat.eqb_refl in Hs.
  destruct (nth_error (st_stores st) j) as [s0|] eqn:E0; [|discriminate].
  simpl in Hs. injection Hs as <-. simpl in Ho. rewrite alookup_aput in Ho. simpl.
  destruct (list_N_eqb k' k) eqn:Ek.
  - apply list_N_eqb_spec in Ek. subst k'. now right.
  - apply (HS s0 k' o E0 Ho).
Qed.

(* verifying id k of store j: afterwards it is either gone or filed under its digest *)
Lemma verify_one_Stem st j k ks : StemP st j (k :: ks) -> StemP (verify_one H st j k) j ks.
Proof.
  intros HS.
  assert (Hother : forall st', StemP st' j (k :: ks) ->
            (forall s o, nth_error (st_stores st') j = Some s -> alookup k (s_objs s) = Some o ->
                         stem_ok (s_alg s) k (o_bytes o)) -> StemP st' j ks).
  { intros st' HS' Hk s k' o Hs Ho. destruct (list_N_eqb k' k) eqn:Ek.
    - apply list_N_eqb_spec in Ek. subst k'. left. now apply (Hk s o).
    - destruct (HS' s k' o Hs Ho) as [?|[Heq|Hin]]; [now left| |now right].
      subst k'. rewrite list_N_eqb_refl in Ek. discriminate. }
  unfold verify_one. rewrite get_store_nth.
  destruct (nth_error (st_stores st) j) as [s|] eqn:Es.
  2:{ apply Hother; [exact HS|]. intros s o Hs. congruence. }
  destruct (alookup k (s_objs s)) as [o|] eqn:Eo.
  2:{ apply Hother; [exact HS|]. intros s' o Hs Ho. congruence. }
  destruct (list_N_eqb (stem (H (s_alg s) (o_bytes o))) (stem k)) eqn:Em.
  - apply list_N_eqb_spec in Em. apply Hother; [now apply protect_one_Stem|].
    intros s' o' Hs Ho.
    unfold protect_one in Hs, Ho. rewrite get_store_nth, Es in Hs.
    destruct (s_cls s).
    + rewrite Eo in Hs. rewrite chmod_all_nth, Es in Hs. simpl in Hs. injection Hs as <-.
      rewrite chmod_store_lookup, Eo in Ho. simpl in Ho. injection Ho as <-.
      unfold stem_ok. rewrite chmod_obj_bytes. simpl. exact Em.
    + rewrite Es in Hs. injection Hs as <-. rewrite Eo in Ho. injection Ho as <-. exact Em.
  - apply Hother; [now apply del_obj_Stem|].
    intros s' o' Hs Ho. rewrite (del_obj_absent _ _ _ _ Hs) in Ho. discriminate.
Qed.

Lemma add_copy_v_Stem st j items : StemP st j [] -> StemP (add_copy_v H st j items) j [].
Proof.
  intros HS. unfold add_copy_v.
  assert (Hput : forall l st0, incl l items -> StemP st0 j (map fst items) ->
            StemP (fold_left (fun s it => put_new s j (fst it) (snd it)) l st0) j (map fst items)).
  { induction l as [|it r IH]; intros st0 Hl HS0; simpl; [exact HS0|].
    apply IH; [intros x Hx; apply Hl; now right|].
    apply put_new_Stem; [|exact HS0]. apply in_map. apply Hl. now left. }
  assert (Hver : forall ks st0, StemP st0 j ks ->
            StemP (fold_left (fun s k => verify_one H s j k) ks st0) j []).
  { induction ks as [|k r IH]; intros st0 HS0; simpl; [exact HS0|].
    apply IH. now apply verify_one_Stem. }
  apply Hver. assert (Hp := Hput items st (incl_refl _)).
  intros s0 k0 o0 Hs0 Ho0. destruct (Hp) with (s := s0) (k := k0) (o := o0) as [?|Hin]; auto.
  2:{ right. now apply distinct_In. }
  intros s k o Hs Ho. destruct (HS s k o Hs Ho) as [?|[]]. now left.
Qed.

Lemma apply_plan_v_Stem st j p : StemP st j [] -> StemP (apply_plan H true st j p) j [].
Proof.
  intros HS. unfold apply_plan, add_new.
  assert (H1 : StemP (match fst p with [] => st | _ => add_copy_v H st j (fst p) end) j []).
  { destruct (fst p); [exact HS|now apply add_copy_v_Stem]. }
  revert H1. generalize (match fst p with [] => st | _ => add_copy_v H st j (fst p) end).
  induction (snd p) as [|it r IH]; intros st1 H1; simpl; [exact H1|].
  apply IH. now apply add_copy_v_Stem.
Qed.

(* C01 for verifying transfers, from ANY source - rotten, misnamed, of another algorithm: a
   transfer with verify=True never leaves the destination holding an object whose digest (stem)
   is not its name.  No WfOp, no invariant of the source, no hypothesis on the digest. *)
Theorem C01_verifying_transfer_partial st src dst ids sh :
  StemP st dst [] -> StemP (step H st (OTransfer src dst ids sh true)) dst [].
Proof.
  intros HS. unfold step. simpl. unfold transfer_op.
  destruct (get_store st src) as [s|]; [|exact HS].
  destruct (get_store st dst) as [d|]; [|exact HS].
  destruct (Nat.eqb src dst); [exact HS|].
  unfold transfer_core.
  destruct (expand _ _ _ _) as [all|c]; simpl; [|exact HS].
  pose proof (check_all_Stem st dst all dst [] HS) as H1.
  destruct (filter _ all) as [|m ms]; simpl; [exact H1|].
  pose proof (check_all_Stem _ src all dst [] H1) as H2.
  destruct (transfer_plan _ _ _ _ _ _ _) as [p|c]; simpl; [|exact H2].
  now apply apply_plan_v_Stem.
Qed.

(* ------------------------------------------------------------------ C01 *)
(* what the caller owes: truthful ids, one algorithm per transfer, no directory staging under
   sha256 (the legacy external-output path) *)
Definition WfOp (st : state) (o : op) : Prop :=
  match o with
  | OStage si w | OStageUpload si w =>
      match w with
      | WDir _ => forall s, get_store st si = Some s -> s_alg s <> Sha256
      | WFile _ => True
      end
  | OAdd si b k => forall s, get_store st si = Some s -> named_ok (s_alg s) k b
  | OTransfer src dst _ _ _ =>
      forall s d, get_store st src = Some s -> get_store st dst = Some d -> s_alg s = s_alg d
  | OSaveIndex si dirs files =>
      forall s, get_store st si = Some s ->
        (forall f, In f files -> snd f = H (s_alg s) (snd (fst f))) /\ (dirs <> [] -> s_alg s <> Sha256)
  | OMigrate _ _ _ _ => True
  | OReopen _ _ => True
  | ORot _ _ _ => False        (* not an operation of dvc-data; see C01_verifying_transfer_partial *)
  end.

(* the leftovers after an operation: reopening a directory under the local class adds what is
   unprotected in it; every other operation of dvc-data removes the ids it adds or covers
   ([covered]: the id of an external add; the file and directory ids of a stage / index save; every
   id a transfer asks the destination about; the new ids of a migrate) and never adds any *)
Definition leftover_after (st : state) (o : op) (E : lset) : lset :=
  match o with
  | OReopen si c => fun j k => E j k \/ (j = si /\ c = Local /\ unprotected st si k)
  | ORot _ _ _ => E
  | _ => lminus E (fst (covered st o)) (snd (covered st o))
  end.

Lemma step_Good E st o : InvE E st -> WfOp st o -> Good (leftover_after st o E) st (step H st o).
Proof.
  intros HI Hw. apply InvE_split in HI as [HN HM]. unfold step.
  destruct o; simpl leftover_after; cbn [step_op fst].
  - now apply stage_Good_minus.
  - now apply stage_upload_Good_minus.
  - now apply add_ext_Good.
  - now apply transfer_op_Good_minus.
  - now apply save_index_Good_minus.
  - now apply migrate_op_Good_minus.
  - now apply reopen_Good.
  - contradiction.
Qed.

Theorem C01_init cfg : Inv (init_state cfg).
Proof.
  intros j s k o Hs Ho. unfold init_state in Hs. simpl in Hs. rewrite nth_error_map in Hs.
  destruct (nth_error cfg j); [|discriminate]. injection Hs as <-. discriminate.
Qed.

(* one step, with leftovers *)
Theorem C01_step_leftover E st o :
  InvE E st -> WfOp st o -> InvE (leftover_after st o E) (step H st o).
Proof.
  intros HI Hw. destruct (step_Good E st o HI Hw) as (A & B & _). apply InvE_split. now split.
Qed.

(* an operation that does not reopen a directory under the local class *)
Definition keeps_class (o : op) : Prop := match o with OReopen _ Local => False | _ => True end.

Theorem C01_step st o : Inv st -> WfOp st o -> keeps_class o -> Inv (step H st o).
Proof.
  intros HI Hw Hk. apply Inv_InvE. apply Inv_InvE in HI.
  eapply InvE_weaken; [|apply (C01_step_leftover lempty st o HI Hw)].
  intros j k. destruct o; simpl leftover_after; try (intros [A _]; exact A); try tauto.
  destruct c; [contradiction|]. intros [A|(_ & Hc & _)]; [exact A|discriminate].
Qed.

(* "add protects every oid it is asked for, copied or already present": after a truthful external
   add of id k to a local-class store the object under k is read-only - whatever the leftovers *)
Theorem C01_add_covers E st si b k s o :
  InvE E st -> WfOp st (OAdd si b k) ->
  nth_error (st_stores (step H st (OAdd si b k))) si = Some s -> s_cls s = Local ->
  alookup k (s_objs s) = Some o -> o_mode o = mode_ro.
Proof.
  intros HI Hw Hs Hc Ho.
  destruct (C01_step_leftover E st _ HI Hw si s k o Hs Ho) as [_ Hm].
  destruct (Hm Hc) as [?|[_ Hn]]; [assumption|]. exfalso. apply Hn. split; [reflexivity|now left].
Qed.

(* the same for every operation: whatever ids an operation adds or covers ([covered]) are read-only
   in a local-class store afterwards - also the ones that were leftovers *)
Definition dvc_op (o : op) : Prop := match o with OReopen _ _ | ORot _ _ _ => False | _ => True end.

Theorem C01_covers E st o s k ob :
  InvE E st -> WfOp st o -> dvc_op o ->
  nth_error (st_stores (step H st o)) (fst (covered st o)) = Some s -> s_cls s = Local ->
  In k (snd (covered st o)) -> alookup k (s_objs s) = Some ob -> o_mode ob = mode_ro.
Proof.
  intros HI Hw Hd Hs Hc Hin Ho.
  destruct (C01_step_leftover E st o HI Hw _ s k ob Hs Ho) as [_ Hm].
  destruct (Hm Hc) as [?|Hl]; [assumption|]. exfalso.
  destruct o; try contradiction; destruct Hl as [_ Hn]; apply Hn; now split.
Qed.

(* the boolean checker the correspondence run evaluates on every generated operation is sound *)
Lemma alg_eqb_eq a b : alg_eqb a b = true <-> a = b.
Proof. destruct a, b; simpl; split; intros; try reflexivity; try discriminate. Qed.

Lemma canonical_b_sound b : canonical_b b = true -> canonical b.
Proof.
  unfold canonical_b. destruct (from_bytes None b) as [t|c]; [|discriminate].
  intros E. apply list_N_eqb_spec in E. now exists t.
Qed.

Lemma named_ok_b_sound a k b : named_ok_b H a k b = true -> named_ok a k b.
Proof.
  unfold named_ok_b, named_ok. destruct (is_dir_oid k).
  - intros E. apply andb_true_iff in E as [E1 E2]. apply list_N_eqb_spec in E1.
    split; [exact E1|now apply canonical_b_sound].
  - intros E. now apply list_N_eqb_spec.
Qed.

Lemma wf_op_b_sound st o : wf_op_b H st o = true -> WfOp st o.
Proof.
  destruct o as [si w|si w|si b k|src dst ids sh vf|si dirs files|src dst order hard|si c|si k b]; simpl.
  - destruct w; [trivial|]. intros E s Hs. rewrite Hs in E.
    intros Ha. rewrite Ha in E. discriminate.
  - destruct w; [trivial|]. intros E s Hs. rewrite Hs in E.
    intros Ha. rewrite Ha in E. discriminate.
  - intros E s Hs. rewrite Hs in E. now apply named_ok_b_sound.
  - intros E s d Hs Hd. rewrite Hs, Hd in E. now apply alg_eqb_eq.
  - intros E s Hs. rewrite Hs in E. apply andb_true_iff in E as [E1 E2]. split.
    + intros f Hin. rewrite forallb_forall in E1. specialize (E1 f Hin). now apply list_N_eqb_spec.
    + intros Hd Ha. destruct dirs; [now apply Hd|]. rewrite Ha in E2. discriminate.
  - trivial.
  - trivial.
  - discriminate.
Qed.

(* the boolean violation test is sound *)
Lemma viol_b_sound st : viol_b H st = true -> ~ Inv st.
Proof.
  unfold viol_b. intros E HI. apply existsb_exists in E as (s & Hs & E).
  apply In_nth_error in Hs as (j & Hj).
  unfold store_viol_b in E. apply existsb_exists in E as (k & _ & E).
  destruct (alookup k (s_objs s)) as [o|] eqn:Eo; [|discriminate].
  destruct (HI j s k o Hj Eo) as [Hn Hm].
  apply orb_true_iff in E as [E|E].
  - unfold name_bad_b in E. apply negb_true_iff in E.
    unfold named_ok in Hn. destruct (is_dir_oid k).
    + destruct Hn as [Hn _]. rewrite <- Hn, list_N_eqb_refl in E. discriminate.
    + rewrite <- Hn, list_N_eqb_refl in E. discriminate.
  - destruct (s_cls s); [|discriminate]. rewrite (Hm eq_refl) in E. discriminate.
Qed.

(* the algorithm (and position) of every store is fixed for the whole history *)
Theorem C01_step_alg E st o j : InvE E st -> WfOp st o -> alg_at (step H st o) j = alg_at st j.
Proof. intros HI Hw. apply (step_Good E st o HI Hw). Qed.

(* a history all of whose operations are well-formed in the state they are applied to *)
Fixpoint WfHist (st : state) (ops : list op) : Prop :=
  match ops with
  | [] => True
  | o :: r => WfOp st o /\ WfHist (step H st o) r
  end.

Fixpoint KeepsClass (ops : list op) : Prop :=
  match ops with [] => True | o :: r => keeps_class o /\ KeepsClass r end.

(* the leftovers a history accumulates *)
Fixpoint leftover_hist (st : state) (ops : list op) (E : lset) : lset :=
  match ops with
  | [] => E
  | o :: r => leftover_hist (step H st o) r (leftover_after st o E)
  end.

Theorem C01_history_leftover_from E st ops :
  InvE E st -> WfHist st ops -> InvE (leftover_hist st ops E) (fold_left (step H) ops st).
Proof.
  revert E st. induction ops as [|o r IH]; intros E st HI Hw; simpl; [exact HI|].
  destruct Hw as [Ho Hr]. apply IH; [now apply C01_step_leftover|exact Hr].
Qed.

Theorem C01_history_from st ops :
  Inv st -> WfHist st ops -> KeepsClass ops -> Inv (fold_left (step H) ops st).
Proof.
  revert st. induction ops as [|o r IH]; intros st HI Hw Hk; simpl; [exact HI|].
  destruct Hw as [Ho Hr]. destruct Hk as [Hk1 Hk2]. apply IH; [now apply C01_step|exact Hr|exact Hk2].
Qed.

Lemma WfHist_firstn st ops n : WfHist st ops -> WfHist st (firstn n ops).
Proof.
  revert st n. induction ops as [|o r IH]; intros st n Hw; destruct n; simpl; auto.
  destruct Hw as [Ho Hr]. split; [exact Ho|]. now apply IH.
Qed.
Lemma KeepsClass_firstn ops n : KeepsClass ops -> KeepsClass (firstn n ops).
Proof.
  revert n. induction ops as [|o r IH]; intros n Hk; destruct n; simpl; auto.
  destruct Hk as [A B]. split; [exact A|]. now apply IH.
Qed.

(* checked "after every step": every prefix of the history ends in a state satisfying the
   invariant up to the leftovers accumulated so far ... *)
Theorem C01_history_leftover cfg ops n :
  WfHist (init_state cfg) ops ->
  InvE (leftover_hist (init_state cfg) (firstn n ops) lempty)
       (fold_left (step H) (firstn n ops) (init_state cfg)).
Proof.
  intros Hw. apply C01_history_leftover_from; [apply Inv_InvE, C01_init|now apply WfHist_firstn].
Qed.

(* ... and, when no directory is reopened under the local class, the invariant itself *)
Theorem C01_history cfg ops n :
  WfHist (init_state cfg) ops -> KeepsClass ops ->
  Inv (fold_left (step H) (firstn n ops) (init_state cfg)).
Proof.
  intros Hw Hk. apply C01_history_from; [apply C01_init|now apply WfHist_firstn|now apply KeepsClass_firstn].
Qed.

Lemma wf_hist_b_sound st ops : wf_hist_b H st ops = true -> WfHist st ops.
Proof.
  revert st. induction ops as [|o r IH]; intros st E; simpl in *; [trivial|].
  apply andb_true_iff in E as [E1 E2]. split; [now apply wf_op_b_sound|now apply IH].
Qed.

Definition keeps_class_b (o : op) : bool := match o with OReopen _ Local => false | _ => true end.
Lemma keeps_class_b_sound ops : forallb keeps_class_b ops = true -> KeepsClass ops.
Proof.
  induction ops as [|o r IH]; simpl; [trivial|]. intros E. apply andb_true_iff in E as [E1 E2].
  split; [|now apply IH]. destruct o; simpl in *; trivial. destruct c; [discriminate|trivial].
Qed.

(* the same with the decidable side conditions the harness has Coq evaluate on its histories *)
Theorem C01_history_checked cfg ops n :
  wf_hist_b H (init_state cfg) ops = true -> forallb keeps_class_b ops = true ->
  Inv (fold_left (step H) (firstn n ops) (init_state cfg)).
Proof. intros E1 E2. apply C01_history; [now apply wf_hist_b_sound|now apply keeps_class_b_sound]. Qed.

Theorem C01_history_leftover_checked cfg ops n :
  wf_hist_b H (init_state cfg) ops = true ->
  InvE (leftover_hist (init_state cfg) (firstn n ops) lempty)
       (fold_left (step H) (firstn n ops) (init_state cfg)).
Proof. intros E1. apply C01_history_leftover. now apply wf_hist_b_sound. Qed.

End Proofs.
