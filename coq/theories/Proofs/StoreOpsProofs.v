(* C01 - the content-addressing invariant of Model/StoreOps.v.

   Everything is proved for an abstract digest  H : alg -> bytes -> oid  about which two facts
   are assumed (Section hypotheses, discharged for the executable digest H_exec in
   Proofs/StoreOpsProofsExec.v):
     H_not_dir      a digest never ends in ".dir"
     H_d2u_listing  on a canonical listing md5-dos2unix and md5 agree (the listing is the output
                    of json.dumps, which contains no CR byte)
   No collision-freeness is needed: the invariant only says that a name IS the digest of the
   bytes filed under it. *)
From Coq Require Import NArith List Bool Lia PeanoNat.
From DvcData Require Import Base.Val Base.MD5 Base.Json Model.Listing Model.StoreOps.
Import ListNotations.
Open Scope N_scope.

(* ------------------------------------------------------------------ generic list facts *)
Lemma alookup_aput {A} (k k' : oid) (v : A) l :
  alookup k' (aput k v l) = if list_N_eqb k' k then Some v else alookup k' l.
Proof.
  induction l as [|[k0 v0] r IH]; simpl.
  - destruct (list_N_eqb k' k); reflexivity.
  - destruct (list_N_eqb k k0) eqn:E; simpl.
    + apply list_N_eqb_spec in E. subst k0.
      destruct (list_N_eqb k' k); reflexivity.
    + destruct (list_N_eqb k' k0) eqn:E0.
      * apply list_N_eqb_spec in E0. subst k0.
        destruct (list_N_eqb k' k) eqn:E1; [|reflexivity].
        apply list_N_eqb_spec in E1. subst k'.
        assert (list_N_eqb k k = true) by (apply list_N_eqb_spec; reflexivity). congruence.
      * exact IH.
Qed.

Lemma alookup_map {A B} (f : A -> B) k (l : list (oid * A)) :
  alookup k (map (fun p => (fst p, f (snd p))) l) = option_map f (alookup k l).
Proof.
  induction l as [|[k0 v0] r IH]; simpl; [reflexivity|].
  destruct (list_N_eqb k k0); [reflexivity|exact IH].
Qed.

Lemma alookup_In {A} k (v : A) l : alookup k l = Some v -> In (k, v) l.
Proof.
  induction l as [|[k0 v0] r IH]; simpl; [discriminate|].
  destruct (list_N_eqb k k0) eqn:E.
  - intros [= ->]. apply list_N_eqb_spec in E. subst. now left.
  - intros Hl. right. now apply IH.
Qed.

Lemma nth_error_upd_nth {A} (f : A -> A) i j (l : list A) :
  nth_error (upd_nth i f l) j = if Nat.eqb j i then option_map f (nth_error l j) else nth_error l j.
Proof.
  revert i j. induction l as [|x r IH]; intros i j; simpl.
  - destruct i, j; simpl; try reflexivity; destruct (Nat.eqb j i); reflexivity.
  - destruct i, j; simpl; try reflexivity. apply IH.
Qed.

Lemma list_N_eqb_refl k : list_N_eqb k k = true.
Proof. apply list_N_eqb_spec. reflexivity. Qed.

Lemma is_dir_oid_app k : is_dir_oid (k ++ dot_dir) = true.
Proof. unfold is_dir_oid. rewrite rev_app_distr. reflexivity. Qed.

(* ------------------------------------------------------------------ the invariant *)
Section Proofs.
Variable H : alg -> list N -> oid.
Hypothesis H_not_dir : forall a b, is_dir_oid (H a b) = false.
Hypothesis H_d2u_listing : forall t, H Md5D2U (as_bytes false t) = H Md5 (as_bytes false t).

(* the bytes are a canonical directory listing: what Tree.as_bytes() prints for some tree *)
Definition canonical (b : list N) : Prop := exists t, b = as_bytes false t.

(* the name [k] is the digest of [b] under algorithm [a]: a file object under the hash of its
   content, a directory object under the hash of its canonical listing plus ".dir" *)
Definition named_ok (a : alg) (k : oid) (b : list N) : Prop :=
  if is_dir_oid k then k = H a b ++ dot_dir /\ canonical b else k = H a b.

(* every object of every store *)
Definition Names (st : state) : Prop :=
  forall j s k o, nth_error (st_stores st) j = Some s -> alookup k (s_objs s) = Some o ->
    named_ok (s_alg s) k (o_bytes o).

(* local class => mode 0o444, except for the ids [ks] of store [si] that an add in progress has
   copied and not yet protected *)
Definition Modes (st : state) (si : nat) (ks : list oid) : Prop :=
  forall j s k o, nth_error (st_stores st) j = Some s -> alookup k (s_objs s) = Some o ->
    s_cls s = Local -> o_mode o = mode_ro \/ (j = si /\ In k ks).

Definition Inv (st : state) : Prop :=
  forall j s k o, nth_error (st_stores st) j = Some s -> alookup k (s_objs s) = Some o ->
    named_ok (s_alg s) k (o_bytes o) /\ (s_cls s = Local -> o_mode o = mode_ro).

Lemma Inv_split st : Inv st <-> Names st /\ Modes st O [].
Proof.
  split.
  - intros HI. split; intros j s k o Hs Ho.
    + apply (HI j s k o Hs Ho).
    + intros Hc. left. apply (HI j s k o Hs Ho). exact Hc.
  - intros [HN HM] j s k o Hs Ho. split.
    + apply (HN j s k o Hs Ho).
    + intros Hc. destruct (HM j s k o Hs Ho Hc) as [?|[_ []]]. assumption.
Qed.

Lemma Modes_nil_any st si sj : Modes st si [] -> Modes st sj [].
Proof.
  intros HM j s k o Hs Ho Hc. destruct (HM j s k o Hs Ho Hc) as [?|[_ []]]. now left.
Qed.

Lemma Modes_weaken st si ks ks' : incl ks ks' -> Modes st si ks -> Modes st si ks'.
Proof.
  intros Hi HM j s k o Hs Ho Hc. destruct (HM j s k o Hs Ho Hc) as [?|[? ?]]; [now left|].
  right. split; [assumption|]. now apply Hi.
Qed.

(* the algorithm of the store at position [si], if there is one *)
Definition alg_at (st : state) (si : nat) : option alg := option_map s_alg (nth_error (st_stores st) si).

(* ------------------------------------------------------------------ primitives *)
Lemma chmod_all_nth i m st j :
  nth_error (st_stores (chmod_all i m st)) j = option_map (chmod_store i m) (nth_error (st_stores st) j).
Proof. unfold chmod_all. simpl. apply nth_error_map. Qed.

Lemma chmod_store_lookup i m s k :
  alookup k (s_objs (chmod_store i m s)) = option_map (chmod_obj i m) (alookup k (s_objs s)).
Proof. unfold chmod_store. simpl. apply alookup_map. Qed.

Lemma chmod_obj_bytes i m o : o_bytes (chmod_obj i m o) = o_bytes o.
Proof. unfold chmod_obj. destruct (o_ino o =? i); reflexivity. Qed.

Lemma chmod_all_alg i m st j : alg_at (chmod_all i m st) j = alg_at st j.
Proof. unfold alg_at. rewrite chmod_all_nth. destruct (nth_error _ j); reflexivity. Qed.

Lemma chmod_all_Names i m st : Names st -> Names (chmod_all i m st).
Proof.
  intros HN j s k o Hs Ho. rewrite chmod_all_nth in Hs.
  destruct (nth_error (st_stores st) j) as [s0|] eqn:E; [|discriminate].
  injection Hs as <-. rewrite chmod_store_lookup in Ho.
  destruct (alookup k (s_objs s0)) as [o0|] eqn:E0; [|discriminate].
  injection Ho as <-. rewrite chmod_obj_bytes. simpl. apply (HN j s0 k o0 E E0).
Qed.

Lemma chmod_all_Modes i st si ks : Modes st si ks -> Modes (chmod_all i mode_ro st) si ks.
Proof.
  intros HM j s k o Hs Ho Hc. rewrite chmod_all_nth in Hs.
  destruct (nth_error (st_stores st) j) as [s0|] eqn:E; [|discriminate].
  injection Hs as <-. rewrite chmod_store_lookup in Ho.
  destruct (alookup k (s_objs s0)) as [o0|] eqn:E0; [|discriminate].
  injection Ho as <-. simpl in Hc.
  destruct (HM j s0 k o0 E E0 Hc) as [Hm|Hr]; [|now right].
  left. unfold chmod_obj. destruct (o_ino o0 =? i); simpl; [reflexivity|exact Hm].
Qed.

Lemma get_store_nth st si : get_store st si = nth_error (st_stores st) si.
Proof. reflexivity. Qed.

Lemma protect_one_alg st si k j : alg_at (protect_one st si k) j = alg_at st j.
Proof.
  unfold protect_one. destruct (get_store st si) as [s|]; [|reflexivity].
  destruct (s_cls s); [|reflexivity].
  destruct (alookup k (s_objs s)); [apply chmod_all_alg|reflexivity].
Qed.

Lemma protect_one_Names st si k : Names st -> Names (protect_one st si k).
Proof.
  intros HN. unfold protect_one. destruct (get_store st si) as [s|]; [|exact HN].
  destruct (s_cls s); [|exact HN].
  destruct (alookup k (s_objs s)); [now apply chmod_all_Names|exact HN].
Qed.

Lemma protect_one_Modes st si k ks : Modes st si (k :: ks) -> Modes (protect_one st si k) si ks.
Proof.
  intros HM. unfold protect_one. rewrite get_store_nth.
  destruct (nth_error (st_stores st) si) as [s|] eqn:Es.
  2:{ intros j s' k' o Hs Ho Hc. destruct (HM j s' k' o Hs Ho Hc) as [?|[-> _]]; [now left|congruence]. }
  destruct (s_cls s) eqn:Ec.
  2:{ intros j s' k' o Hs Ho Hc. destruct (HM j s' k' o Hs Ho Hc) as [?|[-> _]]; [now left|].
      rewrite Es in Hs. injection Hs as <-. congruence. }
  destruct (alookup k (s_objs s)) as [o0|] eqn:Eo.
  - intros j s' k' o Hs Ho Hc. rewrite chmod_all_nth in Hs.
    destruct (nth_error (st_stores st) j) as [s0|] eqn:E; [|discriminate].
    injection Hs as <-. rewrite chmod_store_lookup in Ho.
    destruct (alookup k' (s_objs s0)) as [o1|] eqn:E1; [|discriminate].
    injection Ho as <-. simpl in Hc.
    destruct (HM j s0 k' o1 E E1 Hc) as [Hm|[-> [<-|Hin]]].
    + left. unfold chmod_obj. destruct (o_ino o1 =? o_ino o0); simpl; [reflexivity|exact Hm].
    + left. rewrite Es in E. injection E as <-. rewrite Eo in E1. injection E1 as <-.
      unfold chmod_obj. rewrite N.eqb_refl. reflexivity.
    + right. now split.
  - intros j s' k' o Hs Ho Hc. destruct (HM j s' k' o Hs Ho Hc) as [?|[-> [<-|Hin]]]; [now left| |].
    + rewrite Es in Hs. injection Hs as <-. congruence.
    + right. now split.
Qed.

(* put: a new or replaced entry in store si *)
Definition put_obj (st : state) (si : nat) (k : oid) (o : obj) (nx : N) : state :=
  {| st_stores := upd_nth si (fun s => with_objs s (aput k o (s_objs s))) (st_stores st); st_next := nx |}.

Lemma put_new_eq st si k b :
  put_new st si k b = put_obj st si k {| o_bytes := b; o_mode := mode_rw; o_ino := st_next st |} (st_next st + 1).
Proof. reflexivity. Qed.
Lemma put_link_eq st si k o : put_link st si k o = put_obj st si k o (st_next st).
Proof. reflexivity. Qed.

Lemma put_obj_alg st si k o nx j : alg_at (put_obj st si k o nx) j = alg_at st j.
Proof.
  unfold alg_at, put_obj. simpl. rewrite nth_error_upd_nth.
  destruct (Nat.eqb j si); [|reflexivity]. destruct (nth_error _ j); reflexivity.
Qed.

Lemma put_obj_Names st si k o nx :
  (forall a, alg_at st si = Some a -> named_ok a k (o_bytes o)) ->
  Names st -> Names (put_obj st si k o nx).
Proof.
  intros Hk HN j s k' o' Hs Ho. unfold put_obj in Hs. simpl in Hs. rewrite nth_error_upd_nth in Hs.
  destruct (Nat.eqb j si) eqn:Ej.
  - apply Nat.eqb_eq in Ej. subst j.
    destruct (nth_error (st_stores st) si) as [s0|] eqn:E; [|discriminate].
    simpl in Hs. injection Hs as <-. simpl in Ho. rewrite alookup_aput in Ho. simpl.
    destruct (list_N_eqb k' k) eqn:Ek.
    + injection Ho as <-. apply list_N_eqb_spec in Ek. subst k'.
      apply Hk. unfold alg_at. rewrite E. reflexivity.
    + apply (HN si s0 k' o' E Ho).
  - apply (HN j s k' o' Hs Ho).
Qed.

Lemma put_obj_Modes st si k o nx ks :
  In k ks -> Modes st si ks -> Modes (put_obj st si k o nx) si ks.
Proof.
  intros Hin HM j s k' o' Hs Ho Hc. unfold put_obj in Hs. simpl in Hs. rewrite nth_error_upd_nth in Hs.
  destruct (Nat.eqb j si) eqn:Ej.
  - apply Nat.eqb_eq in Ej. subst j.
    destruct (nth_error (st_stores st) si) as [s0|] eqn:E; [|discriminate].
    simpl in Hs. injection Hs as <-. simpl in Ho, Hc. rewrite alookup_aput in Ho.
    destruct (list_N_eqb k' k) eqn:Ek.
    + apply list_N_eqb_spec in Ek. subst k'. right. now split.
    + apply (HM si s0 k' o' E Ho Hc).
  - apply (HM j s k' o' Hs Ho Hc).
Qed.

Lemma store_has_false_or st si k : store_has st si k = true \/ store_has st si k = false.
Proof. destruct (store_has st si k); auto. Qed.

(* ------------------------------------------------------------------ add *)
Definition item_ok (st : state) (si : nat) (k : oid) (b : list N) : Prop :=
  forall a, alg_at st si = Some a -> named_ok a k b.

Lemma protect_fold st si (ks : list oid) :
  Names st -> Modes st si ks ->
  Names (fold_left (fun s k => protect_one s si k) ks st) /\
  Modes (fold_left (fun s k => protect_one s si k) ks st) si [] /\
  forall j, alg_at (fold_left (fun s k => protect_one s si k) ks st) j = alg_at st j.
Proof.
  revert st. induction ks as [|k r IH]; intros st HN HM; simpl.
  - auto.
  - destruct (IH (protect_one st si k)) as (A & B & C).
    + now apply protect_one_Names.
    + now apply protect_one_Modes.
    + split; [exact A|]. split; [exact B|]. intros j. rewrite C. apply protect_one_alg.
Qed.

Lemma fold_protect_map {A} (f : A -> oid) st si (items : list A) :
  fold_left (fun s it => protect_one s si (f it)) items st =
  fold_left (fun s k => protect_one s si k) (map f items) st.
Proof. revert st. induction items; intros; simpl; auto. Qed.

Lemma add_copy_ok st si items ce :
  (forall it, In it items -> item_ok st si (fst it) (snd it)) ->
  Names st -> Modes st si [] ->
  Names (add_copy st si items ce) /\ Modes (add_copy st si items ce) si [] /\
  forall j, alg_at (add_copy st si items ce) j = alg_at st j.
Proof.
  intros Hit HN HM. unfold add_copy.
  set (to_add := if ce then filter _ items else items).
  assert (Hsub : incl to_add items).
  { subst to_add. destruct ce; [|apply incl_refl]. intros x Hx. apply filter_In in Hx. tauto. }
  clearbody to_add.
  assert (Hgen : forall l st0, incl l items ->
            (forall j, alg_at st0 j = alg_at st j) ->
            Names st0 -> Modes st0 si (map fst items) ->
            let st1 := fold_left (fun s it => put_new s si (fst it) (snd it)) l st0 in
            Names st1 /\ Modes st1 si (map fst items) /\ forall j, alg_at st1 j = alg_at st j).
  { induction l as [|it r IH]; intros st0 Hl Ha HN0 HM0; simpl.
    - auto.
    - apply IH.
      + intros x Hx. apply Hl. now right.
      + intros j. rewrite put_new_eq, put_obj_alg. apply Ha.
      + rewrite put_new_eq. apply put_obj_Names; [|exact HN0]. simpl.
        intros a Hal. rewrite Ha in Hal. apply (Hit it); [apply Hl; now left|exact Hal].
      + rewrite put_new_eq. apply put_obj_Modes; [|exact HM0].
        apply in_map. apply Hl. now left. }
  destruct (Hgen to_add st Hsub (fun j => eq_refl) HN
              (Modes_weaken st si [] _ (incl_nil_l _) HM)) as (A & B & C).
  rewrite fold_protect_map.
  destruct (protect_fold _ si (map fst items) A B) as (A' & B' & C').
  split; [exact A'|]. split; [exact B'|]. intros j. rewrite C'. apply C.
Qed.

Lemma add_link_ok st si (items : list (oid * obj)) hard :
  (forall it, In it items -> item_ok st si (fst it) (o_bytes (snd it))) ->
  Names st -> Modes st si [] ->
  Names (add_link st si items hard) /\ Modes (add_link st si items hard) si [] /\
  forall j, alg_at (add_link st si items hard) j = alg_at st j.
Proof.
  intros Hit HN HM. unfold add_link.
  set (to_add := filter _ items).
  assert (Hsub : incl to_add items).
  { subst to_add. intros x Hx. apply filter_In in Hx. tauto. }
  clearbody to_add.
  assert (Hgen : forall l st0, incl l items ->
            (forall j, alg_at st0 j = alg_at st j) ->
            Names st0 -> Modes st0 si (map fst items) ->
            let st1 := fold_left (fun s it =>
               if hard then
                 match o_bytes (snd it) with
                 | [] => put_new s si (fst it) []
                 | _ => if store_has s si (fst it) then s else put_link s si (fst it) (snd it)
                 end
               else put_new s si (fst it) (o_bytes (snd it))) l st0 in
            Names st1 /\ Modes st1 si (map fst items) /\ forall j, alg_at st1 j = alg_at st j).
  { induction l as [|it r IH]; intros st0 Hl Ha HN0 HM0; simpl.
    - auto.
    - assert (Hin : In it items) by (apply Hl; now left).
      assert (Hk : In (fst it) (map fst items)) by (now apply in_map).
      assert (Hok : forall a, alg_at st0 si = Some a -> named_ok a (fst it) (o_bytes (snd it))).
      { intros a Hal. rewrite Ha in Hal. now apply (Hit it). }
      assert (Hr : incl r items) by (intros x Hx; apply Hl; now right).
      destruct hard.
      + destruct (o_bytes (snd it)) eqn:Eb.
        * apply IH; [exact Hr| | |].
          -- intros j. rewrite put_new_eq, put_obj_alg. apply Ha.
          -- rewrite put_new_eq. apply put_obj_Names; [|exact HN0]. simpl. exact Hok.
          -- rewrite put_new_eq. now apply put_obj_Modes.
        * destruct (store_has st0 si (fst it)).
          -- now apply IH.
          -- apply IH; [exact Hr| | |].
             ++ intros j. rewrite put_link_eq, put_obj_alg. apply Ha.
             ++ rewrite put_link_eq. apply put_obj_Names; [|exact HN0]. rewrite Eb. exact Hok.
             ++ rewrite put_link_eq. now apply put_obj_Modes.
      + apply IH; [exact Hr| | |].
        * intros j. rewrite put_new_eq, put_obj_alg. apply Ha.
        * rewrite put_new_eq. apply put_obj_Names; [|exact HN0]. simpl. exact Hok.
        * rewrite put_new_eq. now apply put_obj_Modes. }
  destruct (Hgen to_add st Hsub (fun j => eq_refl) HN
              (Modes_weaken st si [] _ (incl_nil_l _) HM)) as (A & B & C).
  rewrite fold_protect_map.
  destruct (protect_fold _ si (map fst items) A B) as (A' & B' & C').
  split; [exact A'|]. split; [exact B'|]. intros j. rewrite C'. apply C.
Qed.

(* the three facts every operation preserves, bundled *)
Definition Good (st0 st : state) : Prop :=
  Names st /\ Modes st O [] /\ forall j, alg_at st j = alg_at st0 j.

Lemma Good_refl st : Names st -> Modes st O [] -> Good st st.
Proof. intros; repeat split; auto. Qed.

Lemma add_copy_Good st0 st si items ce :
  (forall it, In it items -> item_ok st0 si (fst it) (snd it)) ->
  Good st0 st -> Good st0 (add_copy st si items ce).
Proof.
  intros Hit (HN & HM & HA).
  destruct (add_copy_ok st si items ce) as (A & B & C); auto.
  - intros it Hin a Hal. rewrite HA in Hal. now apply (Hit it).
  - now apply Modes_nil_any with O.
  - split; [exact A|]. split; [now apply Modes_nil_any with si|]. intros j. rewrite C. apply HA.
Qed.

Lemma add_copy_fold_Good st0 st si (l : list (oid * list N)) :
  (forall it, In it l -> item_ok st0 si (fst it) (snd it)) ->
  Good st0 st -> Good st0 (fold_left (fun s it => add_copy s si [it] false) l st).
Proof.
  revert st. induction l as [|it r IH]; intros st Hit HG; simpl; [exact HG|].
  apply IH.
  - intros x Hx. apply Hit. now right.
  - apply add_copy_Good; [|exact HG]. intros x [<-|[]]. apply Hit. now left.
Qed.

(* ------------------------------------------------------------------ transfer *)
Lemma items_of_src src ks k b : In (k, b) (items_of src ks) -> src k = Some b.
Proof.
  unfold items_of. intros Hin. apply in_flat_map in Hin as (k0 & _ & Hk).
  destruct (src k0) as [b0|] eqn:E; [|destruct Hk].
  destruct Hk as [[= <- <-]|[]]. exact E.
Qed.

Lemma transfer_plan_src a src st dst ids sh fs ds :
  transfer_plan a src st dst ids sh = inl (fs, ds) ->
  forall it, In it (fs ++ ds) -> src (fst it) = Some (snd it).
Proof.
  unfold transfer_plan. intros Hp it Hin.
  destruct (if sh then inl [] else load_all a src (filter is_dir_oid (dedup ids))) as [expanded|c]; [|discriminate].
  destruct (existsb _ expanded); [discriminate|].
  destruct (filter (fun k => negb (store_has st dst k)) _) as [|m ms].
  - injection Hp as <- <-. destruct Hin.
  - destruct (load_all a src _) as [loaded|c]; [|discriminate].
    injection Hp as <- <-. destruct it as [k b]. simpl.
    apply in_app_or in Hin as [Hin|Hin]; eapply items_of_src; exact Hin.
Qed.

Lemma transfer_core_Good a src st0 st dst ids sh :
  (forall k b, src k = Some b -> item_ok st0 dst k b) ->
  Good st0 st -> Good st0 (fst (transfer_core a src st dst ids sh)).
Proof.
  intros Hsrc HG. unfold transfer_core.
  destruct (transfer_plan a src st dst ids sh) as [[fs ds]|c] eqn:Ep; simpl; [|exact HG].
  pose proof (transfer_plan_src _ _ _ _ _ _ _ _ Ep) as Hs.
  unfold apply_plan. simpl. apply add_copy_fold_Good.
  - intros it Hin. apply Hsrc. apply Hs. apply in_or_app. now right.
  - destruct fs as [|f fr]; [exact HG|]. apply add_copy_Good; [|exact HG].
    intros it Hin. apply Hsrc. apply Hs. apply in_or_app. now left.
Qed.

(* ------------------------------------------------------------------ staging *)
Lemma named_ok_file a b : named_ok a (H a b) b.
Proof. unfold named_ok. rewrite H_not_dir. reflexivity. Qed.

Lemma named_ok_dir a t : a <> Sha256 ->
  named_ok a (H Md5 (as_bytes false t) ++ dot_dir) (as_bytes false t).
Proof.
  intros Ha. unfold named_ok. rewrite is_dir_oid_app. split; [|now exists t].
  destruct a; [reflexivity|now rewrite H_d2u_listing|congruence].
Qed.

Lemma refs_lookup_In refs k b : refs_lookup refs k = Some b -> In (k, b) refs.
Proof. unfold refs_lookup. intros Hl. apply alookup_In in Hl. now apply in_rev. Qed.

Lemma alg_at_get st si s : get_store st si = Some s -> alg_at st si = Some (s_alg s).
Proof. unfold alg_at. rewrite get_store_nth. now intros ->. Qed.

Lemma stage_Good st si w :
  (match w with WDir _ => forall s, get_store st si = Some s -> s_alg s <> Sha256 | WFile _ => True end) ->
  Names st -> Modes st O [] -> Good st (fst (stage H st si w)).
Proof.
  intros Hw HN HM. unfold stage.
  destruct (get_store st si) as [s|] eqn:Es; simpl; [|now apply Good_refl].
  pose proof (alg_at_get _ _ _ Es) as Hal.
  destruct w as [b|files].
  - apply transfer_core_Good; [|now apply Good_refl].
    intros k b0 Hl. apply refs_lookup_In in Hl. destruct Hl as [[= <- <-]|[]].
    intros a Ha. rewrite Hal in Ha. injection Ha as <-. apply named_ok_file.
  - specialize (Hw s eq_refl).
    set (hashed := map (fun kb => (fst kb, H (s_alg s) (snd kb), snd kb)) files).
    set (listing := listing_of (s_alg s) _).
    set (d := dir_oid_of H listing).
    set (refs := map _ hashed ++ [(d, listing)]).
    assert (Hd : item_ok st si d listing).
    { intros a Ha. rewrite Hal in Ha. injection Ha as <-. subst d listing.
      unfold dir_oid_of, listing_of. now apply named_ok_dir. }
    assert (Hrefs : forall k b, refs_lookup refs k = Some b -> item_ok st si k b).
    { intros k b Hl. apply refs_lookup_In in Hl. subst refs.
      apply in_app_or in Hl as [Hl|[[= <- <-]|[]]]; [|exact Hd].
      apply in_map_iff in Hl as (x & [= <- <-] & Hx). subst hashed.
      apply in_map_iff in Hx as (kb & <- & _). simpl.
      intros a Ha. rewrite Hal in Ha. injection Ha as <-. apply named_ok_file. }
    destruct (s_alg s) eqn:Ea.
    + apply transfer_core_Good; [exact Hrefs|now apply Good_refl].
    + apply transfer_core_Good; [exact Hrefs|].
      apply add_copy_Good; [|now apply Good_refl]. intros it [<-|[]]. exact Hd.
    + congruence.
Qed.

Lemma stage_upload_Good st si w :
  (match w with WDir _ => forall s, get_store st si = Some s -> s_alg s <> Sha256 | WFile _ => True end) ->
  Names st -> Modes st O [] -> Good st (fst (stage_upload H st si w)).
Proof.
  intros Hw HN HM. unfold stage_upload.
  destruct (get_store st si) as [s|] eqn:Es; simpl; [|now apply Good_refl].
  assert (Hs : Good st (fst (stage H st si w))) by (apply stage_Good; [rewrite Es|..]; assumption).
  destruct (s_alg s); [exact Hs| |]; (destruct w as [b|[|f r]]; simpl; [now apply Good_refl|exact Hs|now apply Good_refl]).
Qed.

(* ------------------------------------------------------------------ the other operations *)
Lemma add_ext_Good st si b k :
  (forall s, get_store st si = Some s -> named_ok (s_alg s) k b) ->
  Names st -> Modes st O [] -> Good st (fst (add_ext st si b k)).
Proof.
  intros Hw HN HM. unfold add_ext.
  destruct (get_store st si) as [s|] eqn:Es; simpl; [|now apply Good_refl].
  apply add_copy_Good; [|now apply Good_refl]. intros it [<-|[]]. simpl.
  intros a Ha. rewrite (alg_at_get _ _ _ Es) in Ha. injection Ha as <-. now apply Hw.
Qed.

Lemma transfer_op_Good st src dst ids sh :
  (forall s d, get_store st src = Some s -> get_store st dst = Some d -> s_alg s = s_alg d) ->
  Names st -> Modes st O [] -> Good st (fst (transfer_op st src dst ids sh)).
Proof.
  intros Hw HN HM. unfold transfer_op.
  destruct (get_store st src) as [s|] eqn:Es; [|now apply Good_refl].
  destruct (get_store st dst) as [d|] eqn:Ed; [|now apply Good_refl].
  destruct (Nat.eqb src dst); [now apply Good_refl|].
  apply transfer_core_Good; [|now apply Good_refl].
  intros k b Hl a Ha. rewrite (alg_at_get _ _ _ Ed) in Ha. injection Ha as <-.
  rewrite <- (Hw s d eq_refl eq_refl).
  destruct (alookup k (s_objs s)) as [o|] eqn:Eo; [|discriminate]. injection Hl as <-.
  apply (HN src s k o Es Eo).
Qed.

Lemma save_index_Good st si dirs files :
  (forall s, get_store st si = Some s ->
     (forall f, In f files -> snd f = H (s_alg s) (snd (fst f))) /\ (dirs <> [] -> s_alg s <> Sha256)) ->
  Names st -> Modes st O [] -> Good st (fst (save_index H st si dirs files)).
Proof.
  intros Hw HN HM. unfold save_index.
  destruct (get_store st si) as [s|] eqn:Es; simpl; [|now apply Good_refl].
  destruct (Hw s eq_refl) as [Hf Hd]. pose proof (alg_at_get _ _ _ Es) as Hal.
  assert (H1 : Good st (match files with
                        | [] => st
                        | _ => add_copy st si (map (fun f => (snd f, snd (fst f))) files) true
                        end)).
  { destruct files as [|f0 fr]; [now apply Good_refl|].
    apply add_copy_Good; [|now apply Good_refl].
    intros it Hin. apply in_map_iff in Hin as (f & <- & Hin). simpl.
    intros a Ha. rewrite Hal in Ha. injection Ha as <-. rewrite (Hf f Hin). apply named_ok_file. }
  revert H1. generalize (match files with
                         | [] => st
                         | _ => add_copy st si (map (fun f => (snd f, snd (fst f))) files) true
                         end).
  assert (Hall : forall d, In d dirs -> s_alg s <> Sha256).
  { intros d Hin. apply Hd. intros ->. destruct Hin. }
  clear Hw Hd.
  induction dirs as [|d r IH]; intros st1 H1; simpl; [exact H1|].
  apply IH.
  - intros d' Hin. apply (Hall d'). now right.
  - apply add_copy_Good; [|exact H1]. intros it [<-|[]]. simpl.
    intros a Ha. rewrite Hal in Ha. injection Ha as <-.
    unfold dir_oid_of, dir_listing, listing_of. apply named_ok_dir. apply (Hall d). now left.
Qed.

Lemma migrate_op_Good st src dst order hard :
  Names st -> Modes st O [] -> Good st (fst (migrate_op H st src dst order hard)).
Proof.
  intros HN HM. unfold migrate_op.
  destruct (get_store st src) as [s|] eqn:Es; [|now apply Good_refl].
  destruct (get_store st dst) as [d|] eqn:Ed; [|now apply Good_refl].
  destruct (s_objs s) as [|p ps] eqn:Eo; [now apply Good_refl|]. rewrite <- Eo. simpl.
  destruct (add_link_ok st dst (migrate_items H (s_alg d) (s_objs s) order) hard) as (A & B & C); auto.
  - intros it Hin. unfold migrate_items in Hin.
    apply in_flat_map in Hin as (k & _ & Hk).
    destruct (alookup k (s_objs s)) as [o|] eqn:El; [|destruct Hk].
    destruct Hk as [<-|[]]. simpl.
    intros a Ha. rewrite (alg_at_get _ _ _ Ed) in Ha. injection Ha as <-.
    pose proof (HN src s k o Es El) as Hn. unfold named_ok in Hn |- *.
    destruct (is_dir_oid k).
    + rewrite is_dir_oid_app. split; [reflexivity|apply Hn].
    + rewrite app_nil_r, H_not_dir. reflexivity.
  - now apply Modes_nil_any with O.
  - split; [exact A|]. split; [now apply Modes_nil_any with dst|exact C].
Qed.

(* ------------------------------------------------------------------ C01 *)
(* what the caller owes: truthful ids, one algorithm per transfer, no directory staging under
   sha256 (the legacy external-output path) *)
Definition WfOp (st : state) (o : op) : Prop :=
  match o with
  | OStage si w | OStageUpload si w =>
      match w with
      | WDir _ => forall s, get_store st si = Some s -> s_alg s <> Sha256
      | WFile _ => True
      end
  | OAdd si b k => forall s, get_store st si = Some s -> named_ok (s_alg s) k b
  | OTransfer src dst _ _ =>
      forall s d, get_store st src = Some s -> get_store st dst = Some d -> s_alg s = s_alg d
  | OSaveIndex si dirs files =>
      forall s, get_store st si = Some s ->
        (forall f, In f files -> snd f = H (s_alg s) (snd (fst f))) /\ (dirs <> [] -> s_alg s <> Sha256)
  | OMigrate _ _ _ _ => True
  end.

Lemma step_Good st o : Inv st -> WfOp st o -> Good st (step H st o).
Proof.
  intros HI Hw. apply Inv_split in HI as [HN HM]. unfold step.
  destruct o; simpl in *.
  - now apply stage_Good.
  - now apply stage_upload_Good.
  - now apply add_ext_Good.
  - now apply transfer_op_Good.
  - now apply save_index_Good.
  - now apply migrate_op_Good.
Qed.

Theorem C01_init cfg : Inv (init_state cfg).
Proof.
  intros j s k o Hs Ho. unfold init_state in Hs. simpl in Hs. rewrite nth_error_map in Hs.
  destruct (nth_error cfg j); [|discriminate]. injection Hs as <-. discriminate.
Qed.

Theorem C01_step st o : Inv st -> WfOp st o -> Inv (step H st o).
Proof.
  intros HI Hw. destruct (step_Good st o HI Hw) as (A & B & _). apply Inv_split. now split.
Qed.

(* the boolean checker the correspondence run evaluates on every generated operation is sound *)
Lemma alg_eqb_eq a b : alg_eqb a b = true <-> a = b.
Proof. destruct a, b; simpl; split; intros; try reflexivity; try discriminate. Qed.

Lemma canonical_b_sound b : canonical_b b = true -> canonical b.
Proof.
  unfold canonical_b. destruct (from_bytes None b) as [t|c]; [|discriminate].
  intros E. apply list_N_eqb_spec in E. now exists t.
Qed.

Lemma named_ok_b_sound a k b : named_ok_b H a k b = true -> named_ok a k b.
Proof.
  unfold named_ok_b, named_ok. destruct (is_dir_oid k).
  - intros E. apply andb_true_iff in E as [E1 E2]. apply list_N_eqb_spec in E1.
    split; [exact E1|now apply canonical_b_sound].
  - intros E. now apply list_N_eqb_spec.
Qed.

Lemma wf_op_b_sound st o : wf_op_b H st o = true -> WfOp st o.
Proof.
  destruct o as [si w|si w|si b k|src dst ids sh|si dirs files|src dst order hard]; simpl.
  - destruct w; [trivial|]. intros E s Hs. rewrite Hs in E.
    intros Ha. rewrite Ha in E. discriminate.
  - destruct w; [trivial|]. intros E s Hs. rewrite Hs in E.
    intros Ha. rewrite Ha in E. discriminate.
  - intros E s Hs. rewrite Hs in E. now apply named_ok_b_sound.
  - intros E s d Hs Hd. rewrite Hs, Hd in E. now apply alg_eqb_eq.
  - intros E s Hs. rewrite Hs in E. apply andb_true_iff in E as [E1 E2]. split.
    + intros f Hin. rewrite forallb_forall in E1. specialize (E1 f Hin). now apply list_N_eqb_spec.
    + intros Hd Ha. destruct dirs; [now apply Hd|]. rewrite Ha in E2. discriminate.
  - trivial.
Qed.

(* the boolean violation test is sound *)
Lemma viol_b_sound st : viol_b H st = true -> ~ Inv st.
Proof.
  unfold viol_b. intros E HI. apply existsb_exists in E as (s & Hs & E).
  apply In_nth_error in Hs as (j & Hj).
  unfold store_viol_b in E. apply existsb_exists in E as (k & _ & E).
  destruct (alookup k (s_objs s)) as [o|] eqn:Eo; [|discriminate].
  destruct (HI j s k o Hj Eo) as [Hn Hm].
  apply orb_true_iff in E as [E|E].
  - unfold name_bad_b in E. apply negb_true_iff in E.
    unfold named_ok in Hn. destruct (is_dir_oid k).
    + destruct Hn as [Hn _]. rewrite <- Hn, list_N_eqb_refl in E. discriminate.
    + rewrite <- Hn, list_N_eqb_refl in E. discriminate.
  - destruct (s_cls s); [|discriminate]. rewrite (Hm eq_refl) in E. discriminate.
Qed.

(* the algorithm (and position) of every store is fixed for the whole history *)
Theorem C01_step_alg st o j : Inv st -> WfOp st o -> alg_at (step H st o) j = alg_at st j.
Proof. intros HI Hw. apply (step_Good st o HI Hw). Qed.

(* a history all of whose operations are well-formed in the state they are applied to *)
Fixpoint WfHist (st : state) (ops : list op) : Prop :=
  match ops with
  | [] => True
  | o :: r => WfOp st o /\ WfHist (step H st o) r
  end.

Theorem C01_history_from st ops : Inv st -> WfHist st ops -> Inv (fold_left (step H) ops st).
Proof.
  revert st. induction ops as [|o r IH]; intros st HI Hw; simpl; [exact HI|].
  destruct Hw as [Ho Hr]. apply IH; [now apply C01_step|exact Hr].
Qed.

Lemma wf_hist_b_sound st ops : wf_hist_b H st ops = true -> WfHist st ops.
Proof.
  revert st. induction ops as [|o r IH]; intros st E; simpl in *; [trivial|].
  apply andb_true_iff in E as [E1 E2]. split; [now apply wf_op_b_sound|now apply IH].
Qed.

(* checked "after every step": every prefix of the history ends in a state satisfying Inv *)
Theorem C01_history cfg ops n :
  WfHist (init_state cfg) ops -> Inv (fold_left (step H) (firstn n ops) (init_state cfg)).
Proof.
  intros Hw. apply C01_history_from; [apply C01_init|].
  revert n Hw. generalize (init_state cfg).
  induction ops as [|o r IH]; intros st n Hw; destruct n; simpl; auto.
  destruct Hw as [Ho Hr]. split; [exact Ho|]. now apply IH.
Qed.

(* the same with the decidable side condition the harness has Coq evaluate on its histories *)
Theorem C01_history_checked cfg ops n :
  wf_hist_b H (init_state cfg) ops = true -> Inv (fold_left (step H) (firstn n ops) (init_state cfg)).
Proof. intros E. apply C01_history. now apply wf_hist_b_sound. Qed.

End Proofs.
